"""Per-property configuration of the check driver."""

# verdict layout of step_verdict (coq/Monitors.v)
NET, COMMIT, MEM, PROP, RES, STATE, HINT, FIRST = 1, 2, 3, 4, 5, 6, 7, 8
M_C02, M_C03, M_C03G, M_C04, M_C05, M_C08, M_C09, M_C10, M_C15, M_C19 = 9, 10, 11, 12, 13, 14, 15, 16, 17, 18

STEP_RULE = ('step mode: a real Core (+Synchronizer, MempoolDriver/PayloadWaiter, Proposer, Aggregator, RocksDB store) driven one dispatch at a time; '
             'scripted corpus first (the C02 witnesses), then seeded cases: block trees with TC-justified gaps, forks, orphaned tips, TCs reporting rounds above '
             'the block QC, locally shuffled/reversed delivery, payloads whose batches arrive before/after/never, votes, timeouts, TCs, timers, proposer digests, '
             'committees of 2..10 members with equal or weighted (incl. zero) stakes, and a malformed stream (14 mutation kinds); '
             'a case is non-trivial when the node voted or committed at least once; distinct = distinct event sequences')


def step_run(agree, monitors, quick=160, thorough=3000):
    return {'name': 'step', 'bin': 'step', 'mode': 'run', 'emit': 'step', 'quick': quick, 'thorough': thorough,
            'agree': agree, 'monitors': monitors}


NODE_VO = ['Node.vo', 'Corr.vo', 'Monitors.vo']
STEP_ASSUME = ['symbolic hashing: SHA-512/256 collision-free on the modelled pre-images and never all-zero (licensed by the C20 pre-image theorems)',
               'ideal signatures (EUF-CMA, strict verification) for Ed25519',
               'every task is a sequential process fed by FIFO channels; tokio/mpsc/RocksDB behave as documented',
               'harness abstraction: keys -> ranks, digests -> symbolic terms, signatures -> provenance (each classified by verifying it against the expected content)']

PROPS = {
    'C17': {
        'vo': ['QuorumDefs.vo', 'Quorum.vo', 'CorrComp.vo'],
        'sites': ['g_quorum_consensus', 'g_quorum_mempool', 'g_quorum_consensus_u32', 'g_quorum_mempool_u32'],
        'corr': [{'name': 'quorum', 'bin': 'comp', 'mode': 'quorum', 'quick': 300, 'thorough': 6000, 'agree': [1, 2, 3, 4, 5], 'monitors': [6]}],
        'rule': 'stake vectors for committees of 1..10 members (equal, small with zeros, single dominant, total just below 2^31, totals around multiples of 3, random); '
                'a case is non-trivial when it has more than one member or a total >= 4; distinct = distinct stake vectors',
        'assumptions': ['u32 arithmetic of rustc (wrapping in release, panicking in debug) as modelled by `u32`',
                        '`.sum()` over the authorities equals the list sum of the stakes (HashMap iteration order irrelevant)'],
    },
    'C02': {
        'vo': NODE_VO,
        'sites': ['g_commit_skip', 'g_commit_walk', 'g_commit_stop', 'g_commit_anc_front', 'g_commit_head_front', 'g_commit_pop_back', 'g_commit_head_first', 'g_two_chain'],
        'corr': [step_run([COMMIT, STATE, RES], [M_C02])],
        'rule': STEP_RULE, 'assumptions': STEP_ASSUME,
    },
    'C01': {
        'vo': NODE_VO,
        'sites': ['g_safety_rule_1', 'g_safety_rule_2', 'g_can_extend', 'g_can_extend_hq', 'g_two_chain', 'g_update_high_qc', 'g_vote_stale', 'g_timeout_stale', 'g_tc_stale', 'g_advance_guard', 'g_advance_next', 'g_round_gate', 'g_quorum_consensus', 'g_commit_skip', 'g_commit_walk', 'g_commit_stop'],
        'corr': [step_run([NET, COMMIT, PROP, RES, STATE], [M_C02, M_C05])],
        'rule': STEP_RULE, 'assumptions': STEP_ASSUME + ['network model: the adversary may deliver to any honest node, at any time and any number of times, any message all of whose honest signatures exist'],
    },
    'C03': {
        'vo': NODE_VO,
        'sites': ['g_safety_rule_1', 'g_safety_rule_2', 'g_can_extend', 'g_can_extend_hq', 'g_round_gate', 'g_advance_guard', 'g_advance_next', 'g_update_high_qc'],
        'corr': [step_run([NET, RES, STATE], [M_C03, M_C03G])],
        'rule': STEP_RULE, 'assumptions': STEP_ASSUME,
    },
    'C05': {
        'vo': NODE_VO,
        'sites': ['g_two_chain', 'g_commit_skip', 'g_commit_walk', 'g_commit_stop', 'g_quorum_consensus'],
        'corr': [step_run([COMMIT, STATE], [M_C05])],
        'rule': STEP_RULE, 'assumptions': STEP_ASSUME,
    },
    'C08': {
        'vo': NODE_VO,
        'sites': [],
        'corr': [step_run([NET, COMMIT, MEM, STATE], [M_C08])],
        'rule': STEP_RULE, 'assumptions': STEP_ASSUME + ['the mempool Processor queues the store write before announcing the digest (ev_av); decided for the real Processor by the C11/C13 component checks'],
    },
    'C09': {
        'vo': NODE_VO,
        'sites': ['g_round_gate', 'g_vote_stale', 'g_timeout_stale', 'g_tc_stale', 'g_advance_guard', 'g_advance_next'],
        'corr': [step_run([NET, PROP], [M_C09])],
        'rule': STEP_RULE, 'assumptions': STEP_ASSUME + ['the boot event (first lines of run()) happens once, before any proposal'],
    },
    'C10': {
        'vo': NODE_VO,
        'sites': ['g_advance_guard', 'g_advance_next', 'g_update_high_qc', 'g_vote_stale', 'g_timeout_stale', 'g_tc_stale'],
        'corr': [step_run([NET, STATE], [M_C10])],
        'rule': STEP_RULE, 'assumptions': STEP_ASSUME,
    },
    'C19': {
        'vo': NODE_VO,
        'sites': ['g_quorum_consensus', 'g_vote_stale', 'g_timeout_stale'],
        'corr': [step_run([NET, PROP, STATE], [M_C19])],
        'rule': STEP_RULE, 'assumptions': STEP_ASSUME,
    },
}
