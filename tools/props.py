"""Per-property configuration of the check driver."""
PROPS = {
    'C17': {
        'vo': ['Quorum.vo', 'CorrComp.vo'],
        'sites': ['g_quorum_consensus', 'g_quorum_mempool', 'g_quorum_consensus_u32', 'g_quorum_mempool_u32'],
        'corr': [{'name': 'quorum', 'bin': 'comp', 'mode': 'quorum', 'quick': 300, 'thorough': 6000, 'monitors_from': 6}],
        'rule': 'stake vectors for committees of 1..10 members (equal, small with zeros, single dominant, total just below 2^31, totals around multiples of 3, random); '
                'a case is non-trivial when it has more than one member or a total >= 4; distinct = distinct stake vectors',
        'assumptions': ['u32 arithmetic of rustc (wrapping in release, panicking in debug) as modelled by `u32`',
                        '`.sum()` over the authorities equals the list sum of the stakes (HashMap iteration order irrelevant)'],
    },
}
