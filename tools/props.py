"""Per-property configuration of the check driver."""

# verdict layout of step_verdict (coq/Monitors.v)
NET, COMMIT, MEM, PROP, RES, STATE, HINT, FIRST = 1, 2, 3, 4, 5, 6, 7, 8
M_C02, M_C03, M_C03G, M_C04, M_C05, M_C08, M_C09, M_C10, M_C15, M_C19, M_C06 = 9, 10, 11, 12, 13, 14, 15, 16, 17, 18, 19
M_C06P = 23                 # every Make request is served by the block in the same step (MonitorsC06.v); entry 24 = number of Make requests
M_C19C, M_C19T = 20, 21     # completeness of QC / TC assembly (MonitorsC19.v); entry 22 = number of steps at which they demanded something

STEP_RULE = ('step mode: a real Core (+Synchronizer, MempoolDriver/PayloadWaiter, Proposer, Aggregator, RocksDB store) driven one dispatch at a time; '
             'scripted corpus first (the C02 witnesses), then seeded cases: block trees with TC-justified gaps, forks, orphaned tips, TCs reporting rounds above '
             'the block QC, locally shuffled/reversed delivery, payloads whose batches arrive before/after/never, votes, timeouts, TCs, timers, proposer digests, '
             'committees of 2..10 members with equal or weighted (incl. zero) stakes, and a malformed stream (16 mutation kinds); '
             'a case is non-trivial when the node voted or committed at least once; distinct = distinct event sequences')


def step_run(agree, monitors, quick=160, thorough=3000):
    def layout(case, v):
        # the global-chain monitor of C02 presupposes a history within the fault model (no forged signature of the node under test,
        # one certified chain, consistent high-QC reports): the generator says which cases are
        mons = [m for m in monitors if case.get('admissible', True) or m != M_C02]
        return (agree, mons)
    return {'name': 'step', 'bin': 'step', 'mode': 'run', 'emit': 'step', 'quick': quick, 'thorough': thorough,
            'agree': agree, 'monitors': monitors, 'layout': layout, 'timeout': 2400, 'coq_timeout': 1800,
            'counters': {'steps at which the completeness monitors of C19 demanded a certificate (quorum of distinct verified votes/timeouts reached)': 22,
                         'Make requests handed to the proposer (each must be served by the block in that step)': 24}}


NODE_VO = ['Node.vo', 'Corr.vo', 'Monitors.vo', 'MonitorsC19.vo', 'MonitorsC06.vo', 'CorrMulti.vo', 'LeaderDefs.vo', 'QuorumDefs.vo', 'CorrComp.vo', 'CorrAgg.vo']
STEP_ASSUME = ['symbolic hashing: SHA-512/256 collision-free on the modelled pre-images and never all-zero (licensed by the C20 pre-image theorems)',
               'ideal signatures (EUF-CMA, strict verification) for Ed25519',
               'every task is a sequential process fed by FIFO channels; tokio/mpsc/RocksDB behave as documented',
               'harness abstraction: keys -> ranks, digests -> symbolic terms, signatures -> provenance (each classified by verifying it against the expected content)']

def wire_layout(case, v):
    # consensus message: [all; enc; dec f; dec t; trailing; pre-images; sha==digest; real round trip; verify unchanged]
    # mempool message:   [all; enc; dec f; dec t; trailing; real round trip]
    return ([1, 2, 3, 4, 5], [6, 7, 8]) if len(v) == 9 else ([1, 2, 3, 4], [5])


def malformed_layout(case, v):
    # [...model-vs-implementation flags...; MONITOR: the real decoder did not panic]
    return (list(range(1, len(v) - 1)), [len(v) - 1])


def malformed_layout_nomon(case, v):
    return (list(range(1, len(v) - 1)), [])


def multi_layout(case, v):
    # per-node cases: the step_verdict layout; the scenario's global case: [all; every node agrees; agreement; own logs are chains; one vote per round]
    if case.get('kind') == 'global':
        return ([1], [2, 3, 4])
    return ([NET, COMMIT, PROP, RES, STATE], [M_C02, M_C05])


CODEC_RULE = ('real bincode (de)serialisation of every consensus and mempool message variant with real keys/signatures (payload 0..5, vote lists 0..7, TC present/absent) compared byte for byte with the '
              'model encoders/decoders and the digest pre-images (SHA-512 recomputed by the harness); malformed stream: truncation, bit flips, corrupted length fields/enum tags/option tags, '
              'messages of the other component, random bytes, key strings of wrong length/alphabet/padding; non-trivial = every case; distinct = distinct byte strings')

CORE_ANCHORS = ['consensus/src/core.rs', 'consensus/src/aggregator.rs', 'consensus/src/messages.rs', 'consensus/src/synchronizer.rs', 'consensus/src/mempool.rs', 'consensus/src/proposer.rs', 'consensus/src/leader.rs', 'consensus/src/config.rs']

PROPS = {
    'C17': {
        'vo': ['QuorumDefs.vo', 'Quorum.vo', 'CorrComp.vo'],
        'sites': ['g_quorum_consensus', 'g_quorum_mempool', 'g_quorum_consensus_u32', 'g_quorum_mempool_u32'],
        'corr': [{'name': 'quorum', 'bin': 'comp', 'mode': 'quorum', 'quick': 300, 'thorough': 6000, 'agree': [1, 2, 3, 4, 5], 'monitors': [6]}],
        'rule': 'stake vectors for committees of 1..10 members (equal, small with zeros, single dominant, total just below 2^31, totals around multiples of 3, random); '
                'a case is non-trivial when it has more than one member or a total >= 4; distinct = distinct stake vectors',
        'assumptions': ['u32 arithmetic of rustc (wrapping in release, panicking in debug) as modelled by `u32`',
                        '`.sum()` over the authorities equals the list sum of the stakes (HashMap iteration order irrelevant)'],
    },
    'C02': {
        'vo': NODE_VO,
        'sites': ['g_commit_skip', 'g_commit_walk', 'g_commit_stop', 'g_commit_anc_front', 'g_commit_head_front', 'g_commit_pop_back', 'g_commit_head_first', 'g_two_chain'],
        'corr': [step_run([COMMIT, STATE, RES], [M_C02])],
        'rule': STEP_RULE, 'assumptions': STEP_ASSUME,
    },
    'C01': {
        'vo': NODE_VO,
        'sites': ['g_safety_rule_1', 'g_safety_rule_2', 'g_can_extend', 'g_can_extend_hq', 'g_two_chain', 'g_update_high_qc', 'g_vote_stale', 'g_timeout_stale', 'g_tc_stale', 'g_advance_guard', 'g_advance_next', 'g_round_gate', 'g_quorum_consensus', 'g_commit_skip', 'g_commit_walk', 'g_commit_stop'],
        'corr': [step_run([NET, COMMIT, PROP, RES, STATE], [M_C02, M_C05]),
                 {'name': 'multi', 'bin': 'multi', 'mode': 'run', 'emit': 'multi', 'priority': 0, 'quick': 40, 'thorough': 400, 'layout': multi_layout, 'timeout': 900, 'coq_timeout': 900}],
        'rule': STEP_RULE + '; multi: n = 4..7 REAL Cores in one process (f = (n-1)/3 Byzantine ranks played by the harness with their own keys plus honest signatures already observed on the wire), the harness is the network and an adversarial scheduler (delay, reorder, duplicate, withhold, partition) with scripted strategies: fair, equivocation fork, stale-TC fork, non-consecutive-round fork, partition-then-heal, double-vote race, and a randomised mix', 'assumptions': STEP_ASSUME + ['network model: the adversary may deliver to any honest node, at any time and any number of times, any message all of whose honest signatures exist'],
    },
    'C03': {
        'vo': NODE_VO,
        'sites': ['g_safety_rule_1', 'g_safety_rule_2', 'g_can_extend', 'g_can_extend_hq', 'g_round_gate', 'g_advance_guard', 'g_advance_next', 'g_update_high_qc'],
        'corr': [step_run([NET, RES, STATE], [M_C03, M_C03G])],
        'rule': STEP_RULE, 'assumptions': STEP_ASSUME,
    },
    'C05': {
        'vo': NODE_VO,
        'sites': ['g_two_chain', 'g_commit_skip', 'g_commit_walk', 'g_commit_stop', 'g_quorum_consensus', 'g_block_exempt_is_genesis', 'g_qc_weight', 'g_qc_entry_stake'],
        'corr': [step_run([COMMIT, STATE], [M_C05])],
        'rule': STEP_RULE, 'assumptions': STEP_ASSUME,
    },
    'C08': {
        'vo': NODE_VO,
        'sites': [],
        'corr': [step_run([NET, COMMIT, MEM, STATE], [M_C08])],
        'rule': STEP_RULE, 'assumptions': STEP_ASSUME + ['the mempool Processor queues the store write before announcing the digest (ev_av); decided for the real Processor by the C11/C13 component checks'],
    },
    'C09': {
        'vo': NODE_VO,
        'sites': ['g_leader_index', 'g_round_gate', 'g_vote_stale', 'g_timeout_stale', 'g_tc_stale', 'g_advance_guard', 'g_advance_next'],
        'corr': [step_run([NET, PROP], [M_C09]), {'name': 'leader', 'bin': 'comp', 'mode': 'leader', 'quick': 150, 'thorough': 3000, 'agree': [1], 'monitors': [2, 3]}],
        'rule': STEP_RULE, 'assumptions': STEP_ASSUME + ['the boot event (first lines of run()) happens once, before any proposal'],
    },
    'C10': {
        'vo': NODE_VO,
        'sites': ['g_advance_guard', 'g_advance_next', 'g_update_high_qc', 'g_vote_stale', 'g_timeout_stale', 'g_tc_stale'],
        'corr': [step_run([NET, STATE], [M_C10])],
        'rule': STEP_RULE, 'assumptions': STEP_ASSUME,
    },
    'C19': {
        'vo': NODE_VO,
        'sites': ['g_quorum_consensus', 'g_qcm_threshold', 'g_qcm_reset', 'g_tcm_threshold', 'g_tcm_reset', 'g_agg_keep_votes', 'g_agg_keep_timeouts', 'g_qc_weight', 'g_tc_weight', 'g_qc_entry_stake', 'g_tc_entry_stake', 'g_vote_stale', 'g_timeout_stale'],
        'corr': [step_run([NET, PROP, STATE], [M_C19, M_C19C, M_C19T]), {'name': 'aggregator', 'bin': 'comp', 'mode': 'aggregator', 'quick': 150, 'thorough': 3000, 'agree': [1], 'monitors': [2, 3]}],
        'rule': STEP_RULE, 'assumptions': STEP_ASSUME,
    },
    'C11': {
        'vo': ['BatchMakerDefs.vo', 'CorrComp.vo', 'CorrBatch.vo'],
        'sites': ['g_batch_full', 'g_timer_seals', 'g_seal_index_guarded'],
        'corr': [{'name': 'batchmaker', 'bin': 'comp', 'mode': 'batchmaker', 'quick': 120, 'thorough': 2000, 'agree': [1, 2], 'monitors': [3, 4, 5, 6, 7, 8, 9, 10]},
                 {'name': 'batchmaker-bench', 'bin': 'comp', 'mode': 'batchmaker', 'features': 'bench', 'quick': 120, 'thorough': 2000, 'agree': [1, 2], 'monitors': [3, 4, 5, 6, 7, 8, 9, 10]}],
        'rule': 'real BatchMaker + Processor (both builds: default and --features benchmark) with virtual time and the network tap: transaction/timer event sequences, '
                'batch sizes 1, 2..9, 10..60, 100, transaction lengths 0, 1, batch_size-1, batch_size, batch_size+1, 9 and random, "sample" transactions starting with 0; '
                'non-trivial = at least one batch sealed; distinct = distinct event sequences',
        'assumptions': ['SHA-512 is not modelled: that key and announced digest are the hash of the exact serialized bytes is compared on the real Processor (hash recomputed by the harness)',
                        'tokio timer and mpsc semantics'],
    },
    'C12': {
        'vo': ['QuorumWaiterDefs.vo', 'QuorumDefs.vo', 'BatchMakerDefs.vo', 'CorrComp.vo', 'CorrQW.vo', 'CorrBatch.vo', 'ReliableDefs.vo', 'CorrReliable.vo'],
        'sites': ['g_qw_threshold', 'g_quorum_mempool'],
        'corr': [{'name': 'quorumwaiter', 'bin': 'comp', 'mode': 'quorumwaiter', 'quick': 150, 'thorough': 3000, 'agree': [1], 'monitors': [2]},
                 {'name': 'batchmaker', 'bin': 'comp', 'mode': 'batchmaker', 'quick': 60, 'thorough': 1000, 'agree': [1], 'monitors': [10]},
                 # the handler contract C12 rests on: the real ReliableSender resolves a handler only with the reply to its own frame and never drops one
                 # whose message it still owes (QuorumWaiter counts a handler that ends - resolved OR dropped - as an acknowledgement)
                 {'name': 'reliable', 'bin': 'sock', 'mode': 'reliable', 'emit': 'reliable', 'realtime': True, 'quick': 20, 'thorough': 200, 'agree': [3], 'monitors': [4, 8, 9], 'timeout': 300}],
        'rule': 'real QuorumWaiter task: committees of 1..8 (equal and weighted incl. zero stakes), 1..3 queued batches, acknowledgement orders = random permutations of the other members plus '
                'sometimes an authority unknown to the committee, handlers handed over in a different random order; non-trivial = committee of more than one; distinct = distinct (stakes, orders)',
        'assumptions': ['an acknowledgement means the peer stored the batch (the peer\'s honesty, not this node\'s code)', 'FuturesUnordered yields handlers in completion order'],
    },
    'C16': {
        'vo': ['StoreDefs.vo', 'CorrComp.vo', 'CorrStore.vo'],
        'sites': [],
        'corr': [{'name': 'store', 'bin': 'comp', 'mode': 'store', 'quick': 150, 'thorough': 2000, 'agree': [1], 'monitors': [2, 3]}],
        'rule': 'real Store (RocksDB) used through three cloned handles on one thread: random write/read/notify-read sequences over 1..4 keys with concurrent waiters, and drop-everything-and-reopen; '
                'non-trivial = contains a notify-read; distinct = distinct command sequences',
        'assumptions': ['tokio mpsc FIFO/linearisation of commands; RocksDB durability and get-after-put'],
    },
    'C20': {
        'vo': ['Codec.vo', 'Base64Defs.vo', 'WireDefs.vo', 'CorrComp.vo', 'CorrCodec.vo'],
        'sites': ['g_pk_decode_exact', 'g_pre_block', 'g_pre_vote', 'g_pre_qc', 'g_pre_timeout', 'g_pre_tc_entry'],
        'corr': [{'name': 'wire', 'bin': 'codec', 'mode': 'wire', 'emit': 'codec_wire', 'quick': 150, 'thorough': 3000, 'layout': wire_layout},
                 {'name': 'malformed', 'bin': 'codec', 'mode': 'malformed', 'emit': 'codec_malformed', 'quick': 150, 'thorough': 3000, 'layout': malformed_layout_nomon}],
        'rule': CODEC_RULE,
        'assumptions': ['SHA-512/256 collision resistance on the modelled pre-images', 'bincode 1.3 default options and serde derive layouts as modelled (checked byte for byte by the correspondence)',
                        'digest pre-image layouts are regenerated from the hasher.update sequences of messages.rs and pinned equal to the model\'s pre_* functions'],
    },
    'C18': {
        'vo': ['Codec.vo', 'Base64Defs.vo', 'WireDefs.vo', 'CorrComp.vo', 'CorrCodec.vo'],
        'sites': ['g_pk_decode_exact', 'g_sk_decode_exact'],
        'corr': [{'name': 'keys', 'bin': 'codec', 'mode': 'keys', 'emit': 'codec_keys', 'quick': 150, 'thorough': 3000, 'agree': [1, 2, 3, 4], 'monitors': [5]},
                 {'name': 'sigs', 'bin': 'comp', 'mode': 'sigs', 'quick': 80, 'thorough': 1500, 'agree': [], 'monitors': [1, 2, 3, 4, 5, 6]}],
        'rule': 'keys: random byte strings of every length mod 3, public and secret keys: real encode_base64/decode_base64 and base64 0.13 vs the Gallina model; '
                'sigs (differential only, no model of Ed25519): fresh keys, batches of 1..5; honest signatures verify alone and batched; 24 single-bit flips of signature (incl. the malformed top bits), digest, key rejected; '
                '16 batches per case with 0, 1 or all members corrupted in 6 ways: batch accepts exactly when every member verifies individually; the signature service signs what Signature::new signs',
        'assumptions': ['Ed25519 (dalek: sign, verify_strict, verify_batch) correct and unforgeable: NOT formalised; that half of C18 is differential only',
                        'base64 0.13 STANDARD config as modelled from its decode.rs (compared on every case)'],
    },
    'C14': {
        'vo': ['ReliableDefs.vo', 'CorrComp.vo', 'CorrReliable.vo'],
        'sites': [],
        'corr': [{'name': 'reliable', 'bin': 'sock', 'mode': 'reliable', 'emit': 'reliable', 'realtime': True, 'quick': 40, 'thorough': 400, 'agree': [1, 2, 3], 'monitors': [4, 5, 6, 7, 8, 9], 'timeout': 300},
                 # the receiver side of the pairing contract: the REAL Receiver must end a connection on which its handler rejected a message
                 {'name': 'recvpair', 'bin': 'recv', 'mode': 'pair', 'emit': 'recvpair', 'realtime': True, 'quick': 40, 'thorough': 400, 'agree': [], 'monitors': [1, 2, 3, 4], 'timeout': 300}],
        'rule': 'socket mode: the real ReliableSender (no tap) against a scripted loopback TCP peer speaking the real length-delimited framing: 2..4 connections per case made of down phases, full rounds, '
                'early-close rounds and a final answer-everything round; sends, handle drops, replies, closes before/after any frame, refused connects, 7 MB frames to hit the write-error path; '
                'the abstract event list is derived from what was observed; a case that times out is counted inconclusive, never as a disagreement',
        'assumptions': ['TCP delivers a prefix of what was written; the peer replies only to frames it received', 'frames written but never taken by the peer are not observable (c14_lost_write justifies reading them as failed writes)',
                        'back-off timing is not compared; a sender blocked inside a large write consumes neither replies nor new messages (not modelled)'],
    },
    'C04': {
        'vo': NODE_VO,
        'sites': ['g_block_exempt_is_genesis', 'g_timeout_exempt_is_genesis', 'g_block_stake', 'g_vote_stake', 'g_timeout_stake', 'g_qc_entry_stake', 'g_qc_weight', 'g_tc_entry_stake', 'g_tc_weight', 'g_quorum_consensus', 'g_vote_stale', 'g_timeout_stale', 'g_tc_stale'],
        'corr': [step_run([NET, COMMIT, MEM, PROP, RES, STATE], [M_C04])],
        'rule': STEP_RULE, 'assumptions': STEP_ASSUME,
    },
    'C15': {
        'vo': NODE_VO + ['Codec.vo', 'Base64Defs.vo', 'WireDefs.vo', 'CorrCodec.vo', 'CorrWired.vo', 'ReceiveDefs.vo', 'BatchMakerDefs.vo', 'CorrBatch.vo'],
        'sites': ['g_pk_decode_exact', 'g_sk_decode_exact', 'g_helper_deser_guarded', 'g_seal_index_guarded'],
        'inventory': True,
        'corr': [{'name': 'malformed', 'bin': 'codec', 'mode': 'malformed', 'emit': 'codec_malformed', 'quick': 200, 'thorough': 4000, 'layout': malformed_layout},
                 {'name': 'wired', 'bin': 'wired', 'mode': 'fuzz', 'emit': 'wired', 'realtime': True, 'quick': 12, 'thorough': 96, 'agree': [1, 11], 'monitors': [2, 3, 4, 5, 6], 'timeout': 600, 'coq_timeout': 900},
                 step_run([RES], [M_C15], quick=100, thorough=2000),
                 {'name': 'batchmaker-bench', 'bin': 'comp', 'mode': 'batchmaker', 'features': 'bench', 'quick': 60, 'thorough': 1000, 'agree': [2], 'monitors': [5]}],
        'rule': CODEC_RULE + '; ' + STEP_RULE,
        'assumptions': STEP_ASSUME + ['panics inside third-party crates (bincode, tokio-util codec, dalek, rocksdb) are mirrored, not proved',
                                     'no verified certificate has round 2^64-1 (debug-build overflow of round + 1)'],
    },
}
PROPS['C06'] = {
    'vo': NODE_VO + ['LivenessDefs.vo'],
    'sites': ['g_advance_guard', 'g_advance_next', 'g_update_high_qc', 'g_timeout_stale', 'g_vote_stale', 'g_tcm_threshold', 'g_qcm_threshold', 'g_agg_keep_votes', 'g_agg_keep_timeouts', 'g_safety_rule_1', 'g_safety_rule_2', 'g_can_extend', 'g_can_extend_hq', 'g_two_chain', 'g_quorum_consensus'],
    'corr': [{'name': 'runloop', 'bin': 'runloop', 'mode': 'smoke', 'emit': 'runloop', 'quick': 24, 'thorough': 200, 'agree': [], 'monitors': list(range(1, 19)), 'timeout': 600},
             step_run([NET, PROP, STATE, RES], [M_C10, M_C19, M_C06, M_C19C, M_C19T, M_C06P], quick=160)],
    'rule': 'run-loop smoke: the REAL Core::spawn (select! loop and Timer) on a paused clock, committee of 4, random node and timeout delay, four scenarios per case (idle timeouts re-armed; proposal then timer reset on round change; '
            'TC assembled from three timeouts; invalid messages do not stop the loop); plus ' + STEP_RULE,
    'assumptions': STEP_ASSUME + ['PARTIAL: only the enabling side of liveness is a theorem; nothing involving real time, message-delay bounds versus the timeout, scheduler fairness or loss on best-effort links is proved (the model has no clock)'],
    'anchors': CORE_ANCHORS + ['consensus/src/timer.rs'],
}
PROPS['C13'] = {
    'vo': NODE_VO + ['MempoolSyncDefs.vo', 'PipelineDefs.vo', 'ReceiveDefs.vo', 'CorrPipeline.vo', 'BatchMakerDefs.vo', 'QuorumWaiterDefs.vo'],
    'sites': ['g_batch_full', 'g_timer_seals', 'g_qw_threshold', 'g_ms_gc_skip', 'g_ms_gc_round', 'g_ms_gc_keep', 'g_ms_retry_due'],
    'corr': [{'name': 'msync', 'bin': 'pipeline', 'mode': 'msync', 'emit': 'msync', 'quick': 60, 'thorough': 1000, 'agree': [1, 2], 'monitors': [3, 4], 'timeout': 600},
             {'name': 'mhelper', 'bin': 'pipeline', 'mode': 'mhelper', 'emit': 'mhelper', 'quick': 60, 'thorough': 1000, 'agree': [1], 'monitors': [2, 3, 4, 5], 'timeout': 600},
             {'name': 'e2e', 'bin': 'pipeline', 'mode': 'e2e', 'emit': 'e2e', 'realtime': True, 'quick': 40, 'thorough': 400, 'agree': [1], 'monitors': [2, 3, 4, 5, 6, 7, 8, 9], 'timeout': 900}],
    'rule': 'msync: the REAL mempool Synchronizer task against its model on seeded Synchronize/arrival/Cleanup/retry-tick sequences; mhelper: the REAL mempool Helper on stored batches, consensus blocks, junk, unknown digests and origins; '
            'e2e: a REAL Mempool::spawn on loopback TCP + MempoolDriver/PayloadWaiter on one store with the tap standing for the peers: transactions -> sealed batch -> quorum -> stored -> announced; block with a missing batch -> Synchronize -> BatchRequest -> batch arrives -> block released',
    'assumptions': ['PARTIAL: that ALL honest nodes commit under arbitrary load and delays is liveness (see C06) and is not proved', 'the synchronizer expressions (gc skip/round/keep, retry due) are regenerated from mempool/src/synchronizer.rs',
                    'one real node is driven; two real nodes wired together are covered only by composition in Coq (c13_sync_completes)', 'SHA-512 not modelled'],
    'anchors': ['mempool/src/', 'consensus/src/mempool.rs', 'consensus/src/proposer.rs'],
}

def catchup_layout(case, v):
    # [all; step_verdict A (1..19, 9 = first differing step); step_verdict B (20..38, 28 = first differing step); monitors 39..47; 48 = count]
    agree = [i for i in range(1, 9)] + [i for i in range(20, 28)] + [44, 45, 46]
    return (agree, [39, 40, 41, 42, 47])


PROPS['C07'] = {
    'vo': NODE_VO + ['SyncDefs.vo', 'ReceiveDefs.vo', 'WireDefs.vo', 'CorrCatchup.vo'],
    'sites': [],
    'corr': [{'name': 'catchup', 'bin': 'catchup', 'mode': 'run', 'emit': 'catchup', 'quick': 40, 'thorough': 600, 'layout': catchup_layout, 'timeout': 600, 'coq_timeout': 900},
             {'name': 'retry', 'bin': 'catchup', 'mode': 'retry', 'emit': 'catchup_retry', 'quick': 30, 'thorough': 300, 'agree': [], 'monitors': [1, 2, 3, 4, 5, 6], 'timeout': 600}],
    'rule': 'catch-up: a valid chain of 3..12 blocks with TC-justified gaps delivered in order to a fresh REAL node A (reference) and in a lagging order to a fresh REAL node B (first j blocks, then the newest; every SyncRequest B emits is answered by the REAL '
            'Helper over A\'s store; loop-back pool served in random order); retry: a REAL Synchronizer with sync_retry_delay 0 on a paused clock',
    'assumptions': ['PARTIAL: that peers are reachable and answer is environment; the model has no retry timer (retry is covered by the smoke test only); "same committed sequence" for unbounded gaps is proved at the store/synchronizer layer and monitored on real runs, the commit part follows from C02/C05'],
    'anchors': ['consensus/src/synchronizer.rs', 'consensus/src/helper.rs', 'consensus/src/core.rs'],
}

# C20, last sentence ("through the store, as the sync path does"): the block a REAL helper serves from the store of a REAL core must be accepted
# (same digest, still verifies) by the node that asked for it -- the catch-up run; a handful of cases in the quick tier
PROPS['C20']['vo'] = PROPS['C20']['vo'] + [v for v in PROPS['C07']['vo'] if v not in PROPS['C20']['vo']]
PROPS['C20']['corr'] = PROPS['C20']['corr'] + [{'name': 'catchup', 'bin': 'catchup', 'mode': 'run', 'emit': 'catchup', 'quick': 12, 'thorough': 200, 'layout': catchup_layout, 'timeout': 600, 'coq_timeout': 900}]

for _p in ('C01', 'C02', 'C03', 'C04', 'C05', 'C08', 'C09', 'C10', 'C15', 'C19'):
    PROPS[_p]['anchors'] = CORE_ANCHORS
for _p in ('C02', 'C03', 'C04', 'C05', 'C06', 'C08', 'C09', 'C10', 'C15', 'C19'):
    PROPS[_p]['extra_props'] = ['MonSound']     # each monitor evaluated on real traces is proved true on every run of the model
PROPS['C11']['anchors'] = ['mempool/src/batch_maker.rs', 'mempool/src/processor.rs']
PROPS['C12']['anchors'] = ['mempool/src/quorum_waiter.rs', 'mempool/src/config.rs', 'network/src/reliable_sender.rs']
PROPS['C14']['anchors'] = ['network/src/reliable_sender.rs', 'network/src/receiver.rs']
PROPS['C15']['anchors'] = CORE_ANCHORS + ['consensus/src/helper.rs', 'consensus/src/consensus.rs', 'mempool/src/', 'network/src/receiver.rs', 'crypto/src/lib.rs']
PROPS['C16']['anchors'] = ['store/src/lib.rs']
PROPS['C17']['anchors'] = ['consensus/src/config.rs', 'mempool/src/config.rs']
PROPS['C18']['anchors'] = ['crypto/src/lib.rs']
PROPS['C20']['anchors'] = ['consensus/src/messages.rs', 'crypto/src/lib.rs', 'consensus/src/consensus.rs', 'mempool/src/mempool.rs']

# ---- regenerated statement skeletons (tools/skel.py -> coq/GenCore.v) and the properties whose theorems rest on each function of the node model:
# a tie lemma (coq/Tie_<fn>.v: regenerated skeleton = model function, for every argument and state) that no longer checks is a broken proof
# obligation of exactly these properties
TIE = {
    'increase_last_voted_round': ['C01', 'C03'],
    'make_vote': ['C01', 'C03', 'C09', 'C10'],
    'update_high_qc': ['C01', 'C06', 'C10'],
    'local_timeout_round': ['C01', 'C03', 'C06', 'C10'],
    'handle_vote': ['C01', 'C04', 'C06', 'C09', 'C10', 'C19'],
    'handle_timeout': ['C01', 'C04', 'C06', 'C10', 'C19'],
    'advance_round': ['C01', 'C06', 'C09', 'C10', 'C19'],
    'generate_proposal': ['C06', 'C09'],
    'cleanup_proposer': ['C06', 'C09'],
    'process_qc': ['C01', 'C03', 'C06', 'C10'],
    'process_block': ['C01', 'C02', 'C03', 'C05', 'C06', 'C07', 'C08', 'C09'],
    'handle_proposal': ['C01', 'C03', 'C04', 'C05', 'C06', 'C07', 'C08', 'C09', 'C10'],
    'handle_tc': ['C01', 'C04', 'C06', 'C09', 'C10'],
    'store_block': ['C02', 'C07', 'C20'],
    'get_ancestors': ['C02', 'C05', 'C07'],
    'get_parent_block': ['C02', 'C05', 'C07'],
    'mempool_verify': ['C08', 'C13'],
    'commit': ['C01', 'C02', 'C05', 'C08'],
    # capstone: a step / run of the node built from the regenerated handlers is a step / the run of the model (Tie_step.v)
    'step': ['C01', 'C02', 'C03', 'C05', 'C08', 'C09', 'C10'],
}
# messages.rs verifiers, aggregator.rs makers and entry points (tools/skelagg.py -> coq/GenAgg.v)
TIE.update({
    'vote_verify': ['C01', 'C04', 'C19'],
    'block_verify': ['C01', 'C04', 'C05', 'C09'],
    'timeout_verify': ['C01', 'C04', 'C10', 'C19'],
    'qc_verify': ['C01', 'C04', 'C05', 'C17', 'C19'],
    'tc_verify': ['C01', 'C03', 'C04', 'C10', 'C17'],
    'qcmaker_append': ['C01', 'C04', 'C06', 'C19'],
    'tcmaker_append': ['C01', 'C06', 'C10', 'C19'],
    'add_vote': ['C01', 'C04', 'C06', 'C19'],
    'add_timeout': ['C01', 'C04', 'C06', 'C10', 'C19'],
})
# store/src/lib.rs, the command loop of the store task (tools/skelstore.py -> coq/GenStore.v; refinement to StoreDefs.sstep)
PROPS['C16'].setdefault('tie', []).append('store_step')
# mempool/src/quorum_waiter.rs, the acknowledgement loop (tools/skelqw.py -> coq/GenQW.v; equal to QuorumWaiterDefs.qw)
PROPS['C12'].setdefault('tie', []).append('qw_loop')
# mempool/src/batch_maker.rs, the select! arms of run and seal (tools/skelbm.py -> coq/GenBM.v; equal to BatchMakerDefs.bstep)
PROPS['C11'].setdefault('tie', []).append('bm_step')
PROPS['C12'].setdefault('tie', []).append('bm_step')    # C12: the handlers forwarded to the quorum waiter are those of the broadcast of the same batch
PROPS['C16']['extra_props'] = PROPS['C16'].get('extra_props', []) + ['StoreGen']   # C16 stated about the regenerated loop itself
PROPS['C16']['vo'] = PROPS['C16']['vo'] + ['Props/StoreGen.vo']
for _f, _ps in TIE.items():
    for _p in set(_ps) | {'C15'}:          # C15: the no-panic theorem is about every function of the node model
        PROPS[_p].setdefault('tie', []).append(_f)
