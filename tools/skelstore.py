#!/usr/bin/env python3
"""Statement-skeleton translator, third part: the command loop of the store task (store/src/lib.rs, Store::new: the body of
`while let Some(command) = rx.recv().await { match command { .. } }`) -> coq/GenStore.v, in the monad of coq/StoreSkel.v.

  match command { StoreCommand::Write(k, v) => .., Read(k, sender) => .., NotifyRead(k, sender) => .. }   ->   gen_store_step : ccmd -> SM unit

coq/Tie_store_step.v proves that it refines the model's `sstep` (same outputs in the same order, abstraction preserved) for every command
and state.  usage: skelstore.py REPO OUT.v STATUS.json
"""
import json, os, sys
sys.path.insert(0, os.path.dirname(os.path.abspath(__file__)))
import rustparse as R

REPO = sys.argv[1] if len(sys.argv) > 1 else '/repo'
OUT = sys.argv[2] if len(sys.argv) > 2 else '/verif/coq/GenStore.v'
STATUS = sys.argv[3] if len(sys.argv) > 3 else None
FILE = 'store/src/lib.rs'


class Untranslatable(Exception):
    pass


def strip(e):
    """&x, x.clone(), (x) -> x"""
    while True:
        if e[0] == 'ref': e = e[1]
        elif e[0] == 'paren': e = e[1]
        elif e[0] == 'mcall' and e[2] == 'clone' and not e[3]: e = e[1]
        else: return e


def var(e, env, ty=None):
    e = strip(e)
    if e[0] == 'path' and len(e[1]) == 1 and e[1][0] in env:
        n, t = env[e[1][0]]
        if ty and t != ty:
            raise Untranslatable('`%s` has kind %s where a %s is needed' % (e[1][0], t, ty))
        return n, t
    raise Untranslatable('expression %r' % (e,))


def is_path(e, *names):
    return e[0] == 'path' and list(e[1]) == list(names)


def effect(e, env):
    """an effectful expression -> (monadic term, kind of its value)"""
    e = strip(e)
    if e[0] != 'mcall':
        raise Untranslatable('effect %r' % (e,))
    recv, m, args = e[1], e[2], e[3]
    if is_path(recv, 'db') and m == 'put' and len(args) == 2:
        return 'db_put %s %s' % (var(args[0], env, 'key')[0], var(args[1], env, 'value')[0]), 'unit'
    if is_path(recv, 'db') and m == 'get' and len(args) == 1:
        return 'db_get %s' % var(args[0], env, 'key')[0], 'response'
    if is_path(recv, 'obligations') and m == 'remove' and len(args) == 1:
        return 'obl_remove %s' % var(args[0], env, 'key')[0], 'optqueue'
    # obligations.entry(k).or_insert_with(VecDeque::new).push_back(sender)
    if m == 'push_back' and len(args) == 1 and recv[0] == 'mcall' and recv[2] == 'or_insert_with' and len(recv[3]) == 1 \
            and is_path(recv[3][0], 'VecDeque', 'new') and recv[1][0] == 'mcall' and recv[1][2] == 'entry' and is_path(recv[1][1], 'obligations'):
        return 'obl_push %s %s' % (var(recv[1][3][0], env, 'key')[0], var(args[0], env, 'nsender')[0]), 'unit'
    if m == 'send' and len(args) == 1:
        s, st = var(recv, env)
        a = strip(args[0])
        if st == 'rsender':
            if a[0] == 'mcall' and is_path(a[1], 'db'):
                # sender.send(db.get(&key)): the argument is evaluated first
                t2, ty2 = effect(a, env)
                if ty2 != 'response':
                    raise Untranslatable('send of a %s on a Read sender' % ty2)
                return '(r__ <- %s ;; send_read %s r__)' % (t2, s), 'unit'
            return 'send_read %s %s' % (s, var(a, env, 'response')[0]), 'unit'
        if st == 'nsender':
            # Ok(value)
            if a[0] == 'call' and is_path(a[1], 'Ok') and len(a[2]) == 1:
                return 'send_notify %s %s' % (s, var(a[2][0], env, 'value')[0]), 'unit'
            # response.map(|x| x.unwrap()) where response is known to be Ok(Some(_)): the value it holds
            if a[0] == 'mcall' and a[2] == 'map' and len(a[3]) == 1 and a[3][0][0] == 'closure' and len(a[3][0][1]) == 1 and a[3][0][1][0][0] == 'pid':
                x = a[3][0][1][0][1]
                body = strip(a[3][0][2])
                if body[0] == 'mcall' and body[2] == 'unwrap' and is_path(body[1], x):
                    r, rt = var(a[1], env)
                    if rt == 'some':
                        return 'send_notify %s %s' % (s, r), 'unit'
                    raise Untranslatable('`%s.map(|x| x.unwrap())` where the response may be Ok(None) (unwrap of None panics)' % r)
        raise Untranslatable('send on %s of %r' % (st, a))
    raise Untranslatable('effect %s.%s(..)' % (recv, m))


def block_stmts(b):
    if b[0] == 'block':
        return b[1]
    return [('expr', b, False)]


def stmts(ss, env, ind):
    """statement list -> monadic term of type SM unit"""
    pad = ' ' * ind
    if not ss:
        return pad + 'sret tt'
    st, rest = ss[0], ss[1:]
    last = not rest

    def seq(term):
        if last:
            return pad + term
        return pad + '_ <- ' + term + ' ;;\n' + stmts(rest, env, ind)

    if st[0] == 'let':
        pat, e = st[1], st[2]
        t, ty = effect(e, env)
        if pat[0] == 'pwild':
            return seq(t)
        if pat[0] == 'pid':
            env2 = dict(env); env2[pat[1]] = (pat[1], ty)
            if last:
                raise Untranslatable('let as last statement')
            return pad + '%s <- %s ;;\n' % (pat[1], t) + stmts(rest, env2, ind)
        raise Untranslatable('let pattern %r' % (pat,))
    if st[0] == 'expr':
        e = st[1]
        if e[0] == 'iflet':
            pat, scrut, thenb, elseb = e[1], e[2], e[3], e[4]
            if elseb is not None or pat[0] != 'pts' or pat[1] != ['Some'] or pat[2][0][0] != 'pid':
                raise Untranslatable('if let shape')
            t, ty = effect(scrut, env)
            if ty != 'optqueue':
                raise Untranslatable('if let Some(..) over a %s' % ty)
            q = pat[2][0][1]
            env2 = dict(env); env2[q] = (q, 'queue')
            body = stmts(block_stmts(thenb), env2, ind + 4)
            term = 'o <- %s ;;\n%smatch o with\n%s| Some %s =>\n%s\n%s| None => sret tt\n%send' % (t, pad, pad, q, body, pad, pad)
            if last:
                return pad + term
            return pad + '_ <- (' + term + ') ;;\n' + stmts(rest, env, ind)
        if e[0] == 'whilelet':
            pat, scrut, body = e[1], strip(e[2]), e[3]
            if pat[0] == 'pts' and pat[1] == ['Some'] and pat[2][0][0] == 'pid' and scrut[0] == 'mcall' and scrut[2] == 'pop_front':
                q, qt = var(scrut[1], env, 'queue')
                s = pat[2][0][1]
                env2 = dict(env); env2[s] = (s, 'nsender')
                b = stmts(block_stmts(body), env2, 0)
                return seq('sfor %s (fun %s => %s)' % (q, s, b))
            raise Untranslatable('while let shape')
        if e[0] == 'for':
            pat, it, body = e[1], strip(e[2]), e[3]
            if it[0] == 'mcall' and it[2] in ('into_iter', 'iter') and not it[3]:
                it = strip(it[1])
            if pat[0] == 'pid':
                q, qt = var(it, env, 'queue')
                env2 = dict(env); env2[pat[1]] = (pat[1], 'nsender')
                b = stmts(block_stmts(body), env2, 0)
                return seq('sfor %s (fun %s => %s)' % (q, pat[1], b))
            raise Untranslatable('for shape')
        if e[0] == 'match':
            r, rt = var(e[1], env, 'response')
            arms = e[2]
            if len(arms) != 2:
                raise Untranslatable('match on the response with %d arms' % len(arms))
            (p1, g1, b1), (p2, g2, b2) = arms
            if g1 or g2 or not (p1[0] == 'pts' and p1[1] == ['Ok'] and p1[2][0] == ('ppath', ['None'])) or p2[0] != 'pwild':
                raise Untranslatable('match arms on the response: %r / %r' % (p1, p2))
            env_some = dict(env); env_some[e[1][1][0]] = ('x', 'some')
            t1 = stmts(block_stmts(b1), env, ind + 4)
            t2 = stmts(block_stmts(b2), env_some, ind + 4)
            term = 'match %s with\n%s| None =>\n%s\n%s| Some x =>\n%s\n%send' % (r, pad, t1, pad, t2, pad)
            if last:
                return pad + term
            return pad + '_ <- (' + term + ') ;;\n' + stmts(rest, env, ind)
        t, ty = effect(e, env)
        return seq(t)
    raise Untranslatable('statement %r' % (st[0],))


def find_loop(body):
    """the `match command {..}` inside `tokio::spawn(async move { while let Some(command) = rx.recv().await { .. } })`"""
    for st in body[1]:
        if st[0] == 'expr' and st[1][0] == 'call' and is_path(st[1][1], 'tokio', 'spawn'):
            blk = st[1][2][0]
            inner = blk[1]
            if len(inner) == 1 and inner[0][0] == 'expr' and inner[0][1][0] == 'whilelet':
                wl = inner[0][1]
                if not (wl[1][0] == 'pts' and wl[1][1] == ['Some'] and wl[1][2][0][0] == 'pid'):
                    raise Untranslatable('loop pattern')
                cmdv = wl[1][2][0][1]
                lb = wl[3][1]
                if len(lb) == 1 and lb[0][0] == 'expr' and lb[0][1][0] == 'match' and is_path(lb[0][1][1], cmdv):
                    return lb[0][1][2]
                raise Untranslatable('the loop body is not a single `match command`')
            raise Untranslatable('the spawned task is not a single `while let` loop')
    raise Untranslatable('no tokio::spawn in Store::new')


KINDS = {'Write': ('CWrite', ['key', 'value']), 'Read': ('CRead', ['key', 'rsender']), 'NotifyRead': ('CNotifyRead', ['key', 'nsender'])}


def main():
    src = open(os.path.join(REPO, FILE)).read()
    status = {'functions': [], 'untied': []}
    line = 0
    try:
        f = R.find_fn(src, 'new', 'Store')
        if not f:
            raise Untranslatable('fn Store::new not found')
        _, _, body, line = f
        arms = find_loop(body)
        out = []
        seen = set()
        for pat, guard, b in arms:
            if guard or pat[0] != 'pts' or len(pat[1]) != 2 or pat[1][0] != 'StoreCommand' or pat[1][1] not in KINDS:
                raise Untranslatable('arm pattern %r' % (pat,))
            ctor, kinds = KINDS[pat[1][1]]
            if len(pat[2]) != len(kinds) or any(p[0] != 'pid' for p in pat[2]):
                raise Untranslatable('arm pattern arguments %r' % (pat,))
            seen.add(ctor)
            env = {p[1]: (p[1], k) for p, k in zip(pat[2], kinds)}
            out.append('  | %s %s =>\n%s' % (ctor, ' '.join(p[1] for p in pat[2]), stmts(block_stmts(b), env, 6)))
        if seen != {'CWrite', 'CRead', 'CNotifyRead'}:
            raise Untranslatable('arms %s' % sorted(seen))
        text = 'Definition gen_store_step (command : ccmd) : SM unit :=\n  match command with\n' + '\n'.join(out) + '\n  end.\n'
        ok = True
    except Exception as ex:      # anything the translator does not understand leaves the site untied; it never aborts the check
        # untied: fall back on a definition that is the model by construction is not possible here (different state shape);
        # the committed skeleton of the pinned tree is kept so that the file compiles, and the site is reported as untied
        ok = False
        status['untied'].append(['gen_store_step', '%s: %s' % (FILE, ex)])
        text = FALLBACK
    status['functions'].append({'name': 'gen_store_step', 'file': FILE, 'fn': 'Store::new (command loop)', 'line': line, 'ok': ok,
                                **({} if ok else {'untied': status['untied'][-1][1]})})
    hdr = ('(* GENERATED by tools/skelstore.py from %s (Store::new, line %s) - do not edit. *)\n'
           'From Coq Require Import List NArith Bool.\nFrom HS Require Import StoreDefs StoreSkel.\nImport ListNotations.\nOpen Scope N_scope.\n\n' % (FILE, line))
    new = hdr + text
    old = open(OUT).read() if os.path.exists(OUT) else None
    if new != old:
        open(OUT, 'w').write(new)
    if STATUS:
        json.dump(status, open(STATUS, 'w'), indent=1)
    print('skelstore: %s' % ('ok' if ok else 'UNTIED ' + status['untied'][-1][1]))


FALLBACK = '''Definition gen_store_step (command : ccmd) : SM unit :=
  match command with
  | CWrite key value =>
      _ <- db_put key value ;;
      o <- obl_remove key ;;
      match o with
      | Some senders => sfor senders (fun s => send_notify s value)
      | None => sret tt
      end
  | CRead key sender => response <- db_get key ;; send_read sender response
  | CNotifyRead key sender =>
      response <- db_get key ;;
      match response with
      | None => obl_push key sender
      | Some x => send_notify sender x
      end
  end.
'''

if __name__ == '__main__':
    main()
