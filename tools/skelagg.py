#!/usr/bin/env python3
"""Statement-skeleton translator, second part: the verifiers of consensus/src/messages.rs and the certificate makers and entry
points of consensus/src/aggregator.rs -> coq/GenAgg.v, in the generic state/result monad of coq/SkelMonad.v.

  Block/Vote/QC/Timeout/TC::verify(&self, committee)     ->  gen_X_verify c p_self : GM unit   (state = unit)
  QCMaker/TCMaker::append(&mut self, x, committee)        ->  gen_qcmaker_append c p_vote : GM (option QC)   (state = the maker)
  Aggregator::add_vote / add_timeout                      ->  gen_add_vote c p_vote : M (option QC)            (node monad)

coq/TieAgg.v proves each equal to the model function of Node.v (qc_verify, ..., qm_append, tm_append, agg_add_vote, ...), for every
argument (and every maker / node state).  usage: skelagg.py REPO OUT.v STATUS.json
"""
import json, os, re, sys
sys.path.insert(0, os.path.dirname(os.path.abspath(__file__)))
import rustparse as R
import skel as S
from skel import Untranslatable, Env

REPO = sys.argv[1] if len(sys.argv) > 1 else '/repo'
OUT = sys.argv[2] if len(sys.argv) > 2 else '/verif/coq/GenAgg.v'
STATUS = sys.argv[3] if len(sys.argv) > 3 else None

ELEM = S.ELEM
MAKERS = {
    'QCMaker': ({'weight': ('(qm_weight s)', 'N'), 'votes': ('(qm_votes s)', 'qcvotes'), 'used': ('(qm_used s)', 'setN')},
                {'weight': 'set_qm_weight', 'votes': 'set_qm_votes', 'used': 'set_qm_used'}, 'qm_'),
    'TCMaker': ({'weight': ('(tm_weight s)', 'N'), 'votes': ('(tm_votes s)', 'tcvotes'), 'used': ('(tm_used s)', 'setN')},
                {'weight': 'set_tm_weight', 'votes': 'set_tm_votes', 'used': 'set_tm_used'}, 'tm_'),
}


class TrG(S.Tr):
    """one function body, in the generic monad; `self` is either a message value (verifiers) or a maker record (append)"""

    def __init__(self, src, fname, kind, effects, inline_ok=False):
        super().__init__(src, fname, kind, effects, inline_ok)
        self.self_fields, self.self_setters = None, None
        self.for_name = 'gfor'

    def strip(self, e):
        e = super().strip(e)
        # `.map_err(ConsensusError::from)`: the error conversion is the identity on the model's error enum
        while e[0] == 'mcall' and e[2] == 'map_err':
            e = super().strip(e[1])
        return e

    # -------------------------------------------------- the content a signature is checked against
    def content(self, e, env):
        e = self.strip(e)
        if e[0] == 'mcall' and e[2] == 'digest' and not e[3]:
            t, ty = self.pure(e[1], env)
            if ty == 'Block':
                return '(CBlock (block_digest %s))' % t
            if ty == 'Vote':
                return '(CVote (v_hash %s) (v_round %s))' % (t, t)
            if ty == 'QC':
                return '(CVote (qc_hash %s) (qc_round %s))' % (t, t)
            if ty == 'Timeout':
                return '(CTimeout (t_round %s) (qc_round (t_high_qc %s)))' % (t, t)
            raise Untranslatable('digest() of a %s as signed content' % ty)
        if e[0] == 'path' and len(e[1]) == 1 and e[1][0] in env.v and env.v[e[1][0]][1] == 'content':
            return env.v[e[1][0]][0]
        raise Untranslatable('signed content %s' % (e[:2],))

    def hasher_digest(self, e, env):
        """Digest(hasher.finalize().as_slice()[..32].try_into().unwrap()) over a local hasher -> the content term"""
        e = self.strip(e)
        if not (e[0] == 'call' and e[1] == ('path', ['Digest']) and len(e[2]) == 1):
            return None
        x = e[2][0]
        while True:
            x = self.strip(x)
            if x[0] == 'mcall' and x[2] == 'finalize':
                break
            if x[0] == 'mcall':
                x = x[1]
            elif x[0] == 'index':
                x = x[1]
            else:
                return None
        h = self.strip(x[1])
        if h[0] == 'path' and len(h[1]) == 1 and h[1][0] in env.v and env.v[h[1][0]][1] == 'hasher':
            parts = env.v[h[1][0]][0]
            if len(parts) == 2 and all(p[1] == 'le8' for p in parts):
                return '(CTimeout %s %s)' % (parts[0][0], parts[1][0])
            raise Untranslatable('pre-image layout %s is not one of the modelled kinds' % ([p[1] for p in parts],))
        return None

    # -------------------------------------------------- pure expressions
    def pure(self, e, env):
        e = self.strip(e)
        k = e[0]
        if k == 'path' and e[1] == ['self'] and self.self_fields is None and 'self' in env.v:
            return env.v['self']
        if k == 'lit':
            return e[1], 'N'
        if k == 'call':
            f = e[1]
            if f == ('path', ['HashSet', 'new']):
                return '[]', 'setN'
            if f == ('path', ['Sha512', 'new']):
                return (), 'hasher'
            d = self.hasher_digest(e, env)
            if d is not None:
                return d, 'content'
        if k == 'struct':
            name = e[1][-1]
            fs = dict((n, self.pure(v, env)[0]) for n, v in e[2])
            if name == 'QC' and set(fs) == {'hash', 'round', 'votes'}:
                return '(mkQC %s %s %s)' % (fs['hash'], fs['round'], fs['votes']), 'QC'
            if name == 'TC' and set(fs) == {'round', 'votes'}:
                return '(mkTC %s %s)' % (fs['round'], fs['votes']), 'TC'
            raise Untranslatable('struct literal %s' % name)
        if k == 'mcall':
            recv, name, args = self.strip(e[1]), e[2], e[3]
            if name == 'stake' and self.is_committee(recv) and len(args) == 1:
                t, ty = self.pure(args[0], env)
                return '(stake c %s)' % t, 'N'
            if name == 'quorum_threshold' and self.is_committee(recv) and not args:
                return '(quorum c)', 'N'
            if name == 'contains' and len(args) == 1:
                t, ty = self.pure(recv, env)
                if ty == 'setN':
                    a, _ = self.pure(args[0], env)
                    return '(memN %s %s)' % (a, t), 'bool'
            if name == 'to_le_bytes' and not args:
                t, ty = self.pure(recv, env)
                if ty == 'N':
                    return t, 'le8'
        return super().pure(e, env)

    # -------------------------------------------------- effects
    def value(self, e, env, binds):
        try:
            return self.pure(e, env)
        except Untranslatable:
            pass
        e0 = self.strip(e)
        if e0[0] == 'try':
            return self.value(e0[1], env, binds)
        if e0[0] == 'mcall':
            recv, name, args = self.strip(e0[1]), e0[2], e0[3]
            if name == 'verify' and len(args) == 2:
                s, sty = self.pure(recv, env)
                if sty != 'sig':
                    raise Untranslatable('.verify(_, _) on a value of type %s' % sty)
                ct = self.content(args[0], env)
                a, aty = self.pure(args[1], env)
                x = env.fresh('r'); binds.append((x, 'lift (sig_verify %s %s %s)' % (a, ct, s), 'unit'))
                return x, 'unit'
            if self.self_fields is not None and recv[0] == 'field' and recv[1] == ('path', ['self']) and recv[2] in self.self_fields:
                get = self.self_fields[recv[2]][0][1:-3]          # "(qm_used s)" -> "qm_used"
                fty = self.self_fields[recv[2]][1]
                if name == 'insert' and fty == 'setN' and len(args) == 1:
                    a, _ = self.value(args[0], env, binds)
                    x = env.fresh('r'); binds.append((x, 'gset_insert %s %s %s' % (get, self.self_setters[recv[2]], a), 'bool'))
                    return x, 'bool'
                if name == 'push' and fty in ELEM and len(args) == 1:
                    a, _ = self.value(args[0], env, binds)
                    x = env.fresh('r'); binds.append((x, 'modify (fun s0 => %s s0 (%s s0 ++ [%s]))' % (self.self_setters[recv[2]], get, a), 'unit'))
                    return x, 'unit'
        if e0[0] == 'call' and e0[1] == ('path', ['Signature', 'verify_batch']) and len(e0[2]) == 2:
            ct = self.content(e0[2][0], env)
            vs, vty = self.pure(e0[2][1], env)
            if vty != 'qcvotes':
                raise Untranslatable('verify_batch over %s' % vty)
            x = env.fresh('r'); binds.append((x, 'lift (sig_verify_batch %s %s)' % (ct, vs), 'unit'))
            return x, 'ok:unit'
        return super().value(e, env, binds)

    def send(self, recv, name, args, env, binds):
        raise Untranslatable('call .%s(..) on %s is not a modelled operation' % (name, recv[:2]))

    def err(self, e, env):
        e = self.strip(e)
        name = e[1][-1] if e[0] in ('struct', 'path') else (e[1][1][-1] if e[0] == 'call' and e[1][0] == 'path' else None)
        if name == 'UnknownAuthority':
            return '(EUnknownAuthority %s)' % self.pure(e[2][0], env)[0]
        if name == 'QCRequiresQuorum':
            return 'EQCRequiresQuorum'
        if name == 'TCRequiresQuorum':
            return 'ETCRequiresQuorum'
        return super().err(e, env)

    def ret_code(self, e, env):
        if e is not None and self.kind == 'result':
            e0 = self.strip(e)
            if e0[0] == 'call' and e0[1] == ('path', ['Signature', 'verify_batch']):
                binds = []
                self.value(e0, env, binds)
                x, m, _ = binds.pop()
                return self.wrap(binds, m)
        return super().ret_code(e, env)

    def bind_pat(self, pat, t, ty, env, k):
        if ty == 'hasher' and pat[0] == 'pid':
            env2 = env.copy(); env2.v[pat[1]] = (t, ty)
            return k(env2)
        return super().bind_pat(pat, t, ty, env, k)


def gmonad(code):
    """rename the monad operations to those of SkelMonad.v"""
    return re.sub(r'\b(ret|fail|panic|get|modify|lift)\b', lambda m: 'g' + m.group(1), code)


def translate(src, impl, fn, self_ty=None, maker=None):
    f = R.find_fn(src, fn, impl)
    if f is None:
        raise Untranslatable('fn %s::%s not found' % (impl, fn))
    params, ret, body, line = f
    kind = 'result' if 'Result' in ret else 'plain'
    env = Env()
    coq_params = []
    if self_ty:
        env.v['self'] = ('p_self', self_ty); coq_params.append('(p_self : %s)' % S.COQTYPE[self_ty])
    for pn, pty in params:
        ty = S.rtype(pty)
        if ty == 'Committee':
            env.v[pn] = ('c', ty); continue
        if ty.startswith('?'):
            raise Untranslatable('parameter %s of type %s' % (pn, pty))
        x = 'p_' + pn
        env.v[pn] = (x, ty); coq_params.append('(%s : %s)' % (x, S.COQTYPE[ty]))
    tr = TrG(src, fn, kind, {})
    if maker:
        tr.self_fields, tr.self_setters = MAKERS[maker][0], MAKERS[maker][1]

    def kv(t, ty, env2):
        if kind == 'result':
            raise Untranslatable('fall-through value `%s` in a function returning a Result' % t)
        return 'ret %s' % t
    kv.fn_tail = True
    code = tr.block(body, env, kv)
    return coq_params, gmonad(code), line, ret


def entry_chain(src, fn, field, maker_fn, key_count):
    """Aggregator::add_vote / add_timeout: self.<field>.entry(K1).or_insert_with(..)[.entry(K2).or_insert_with(..)].append(x, &self.committee)"""
    f = R.find_fn(src, fn, 'Aggregator')
    if f is None:
        raise Untranslatable('fn Aggregator::%s not found' % fn)
    params, ret, body, line = f
    stmts = [s for s in body[1] if s[0] != 'attr']
    if len(stmts) != 1 or stmts[0][0] != 'expr':
        raise Untranslatable('%s: expected a single expression' % fn)
    e = stmts[0][1]
    if e[0] == 'return':
        e = e[1]
    chain = []
    while e[0] == 'mcall':
        chain.append((e[2], e[3])); e = e[1]
    chain.reverse()
    if e != ('field', ('path', ['self']), field):
        raise Untranslatable('%s: receiver is not self.%s' % (fn, field))
    want = ['entry', 'or_insert_with'] * key_count + ['append']
    if [c[0] for c in chain] != want:
        raise Untranslatable('%s: call chain %s' % (fn, [c[0] for c in chain]))
    (pn, pty), = params
    ty = S.rtype(pty)
    env = Env(); env.v[pn] = ('p_' + pn, ty)
    tr = TrG(src, fn, 'result', {})
    keys = []
    for i in range(key_count):
        k = tr.strip(chain[2 * i][1][0])
        if k[0] == 'mcall' and k[2] == 'digest' and not k[3]:
            t, kty = tr.pure(k[1], env)
            if kty != 'Vote':
                raise Untranslatable('%s: key digest() of a %s' % (fn, kty))
            keys.append('(vote_digest %s)' % t)
        else:
            keys.append(tr.pure(k, env)[0])
    a = chain[-1][1]
    if len(a) != 2 or tr.pure(a[0], env)[0] != 'p_' + pn or tr.strip(a[1]) != ('field', ('path', ['self']), 'committee'):
        raise Untranslatable('%s: arguments of append' % fn)
    comb = 'agg_entry_qc' if key_count == 2 else 'agg_entry_tc'
    return ['(p_%s : %s)' % (pn, S.COQTYPE[ty])], '%s %s (%s c p_%s)' % (comb, ' '.join(keys), maker_fn, pn), line, ret


FALLBACK = {
    'gen_block_verify': 'Definition gen_block_verify (c : Committee) (p_self : Block) : GM (St := unit) unit := glift (block_verify c p_self).',
    'gen_vote_verify': 'Definition gen_vote_verify (c : Committee) (p_self : Vote) : GM (St := unit) unit := glift (vote_verify c p_self).',
    'gen_qc_verify': 'Definition gen_qc_verify (c : Committee) (p_self : QC) : GM (St := unit) unit := glift (qc_verify c p_self).',
    'gen_timeout_verify': 'Definition gen_timeout_verify (c : Committee) (p_self : Timeout) : GM (St := unit) unit := glift (timeout_verify c p_self).',
    'gen_tc_verify': 'Definition gen_tc_verify (c : Committee) (p_self : TC) : GM (St := unit) unit := glift (tc_verify c p_self).',
    'gen_qcmaker_append': 'Definition gen_qcmaker_append (c : Committee) (p_vote : Vote) : GM (St := QCMaker) (option QC) := fun m => qm_append c m p_vote.',
    'gen_tcmaker_append': 'Definition gen_tcmaker_append (c : Committee) (p_timeout : Timeout) : GM (St := TCMaker) (option TC) := fun m => tm_append c m p_timeout.',
    'gen_add_vote': 'Definition gen_add_vote (c : Committee) (p_vote : Vote) : M (option QC) := agg_add_vote c p_vote.',
    'gen_add_timeout': 'Definition gen_add_timeout (c : Committee) (p_timeout : Timeout) : M (option TC) := agg_add_timeout c p_timeout.',
}


def main():
    msgs = open(os.path.join(REPO, 'consensus/src/messages.rs')).read()
    agg = open(os.path.join(REPO, 'consensus/src/aggregator.rs')).read()
    targets = [
        ('gen_block_verify', 'messages.rs', lambda: translate(msgs, 'Block', 'verify', 'Block'), 'GM (St := unit) unit'),
        ('gen_vote_verify', 'messages.rs', lambda: translate(msgs, 'Vote', 'verify', 'Vote'), 'GM (St := unit) unit'),
        ('gen_qc_verify', 'messages.rs', lambda: translate(msgs, 'QC', 'verify', 'QC'), 'GM (St := unit) unit'),
        ('gen_timeout_verify', 'messages.rs', lambda: translate(msgs, 'Timeout', 'verify', 'Timeout'), 'GM (St := unit) unit'),
        ('gen_tc_verify', 'messages.rs', lambda: translate(msgs, 'TC', 'verify', 'TC'), 'GM (St := unit) unit'),
        ('gen_qcmaker_append', 'aggregator.rs', lambda: translate(agg, 'QCMaker', 'append', None, 'QCMaker'), 'GM (St := QCMaker) (option QC)'),
        ('gen_tcmaker_append', 'aggregator.rs', lambda: translate(agg, 'TCMaker', 'append', None, 'TCMaker'), 'GM (St := TCMaker) (option TC)'),
        ('gen_add_vote', 'aggregator.rs', lambda: entry_chain(agg, 'add_vote', 'votes_aggregators', 'gen_qcmaker_append', 2), 'M (option QC)'),
        ('gen_add_timeout', 'aggregator.rs', lambda: entry_chain(agg, 'add_timeout', 'timeouts_aggregators', 'gen_tcmaker_append', 1), 'M (option TC)'),
    ]
    defs, status = [], []
    for gname, fname, thunk, rty in targets:
        try:
            params, code, line, ret = thunk()
            defs.append('(* %s: %s (line %d) -> %s *)\nDefinition %s (c : Committee) %s : %s :=\n    %s.' % (fname, gname[4:], line, ' '.join(ret.split()), gname, ' '.join(params), rty, S.pretty(code)))
            status.append({'name': gname, 'file': fname, 'fn': gname[4:], 'line': line, 'ok': True})
        except (Untranslatable, R.ParseError, SyntaxError, KeyError, IndexError, TypeError, ValueError) as ex:
            status.append({'name': gname, 'file': fname, 'fn': gname[4:], 'ok': False, 'untied': '%s: %s' % (type(ex).__name__, ex)})
            # the site is reported as untied by ./check; the definition falls back on the model function so that the other skeletons still compile
            defs.append('(* UNTIED %s: %s *)\n%s' % (gname, str(ex).replace('*)', '* )'), FALLBACK[gname]))
    hdr = ('(* GENERATED by tools/skelagg.py from %s -- do not edit.  The statement skeletons of the verifiers of messages.rs and of the\n'
           '   certificate makers / entry points of aggregator.rs; TieAgg.v proves each equal to the model function of Node.v. *)\n'
           'From Coq Require Import List NArith Bool.\nFrom HS Require Import GTac Node SkelPrims SkelMonad.\nImport ListNotations.\nOpen Scope N_scope.\n'
           'Open Scope gm_scope.\n\n' % REPO)
    new = hdr + '\n\n'.join(defs) + '\n'
    strip_cmt = lambda t: re.sub(r'\(\*.*?\*\)', '', t or '', flags=re.S)
    old = open(OUT).read() if os.path.exists(OUT) else None
    if old is None or strip_cmt(old) != strip_cmt(new):
        open(OUT, 'w').write(new)
    if STATUS:
        json.dump({'functions': status, 'untied': [[s['name'], s['untied']] for s in status if not s['ok']]}, open(STATUS, 'w'), indent=1)
    print('skeleton (messages/aggregator) functions=%d untied=%s' % (len(status), [[s['name'], s['untied']] for s in status if not s['ok']]))


if __name__ == '__main__':
    main()
