#!/usr/bin/env python3
"""Prototype translator: decision expressions of the Rust source -> coq Gen file."""
import re, sys
import json, os
REPO = sys.argv[1] if len(sys.argv) > 1 else "/repo"
OUT = sys.argv[2] if len(sys.argv) > 2 else "/verif/coq/Guards.v"
STATUS = sys.argv[3] if len(sys.argv) > 3 else None
WRAP = None  # when set to a string f, every arithmetic node is wrapped as (f e): explicit machine arithmetic

def fn_body(src, name):
    m = re.search(r'fn\s+%s\s*(<[^>]*>)?\s*\(' % re.escape(name), src)
    if not m: return None, 0
    i = src.index('{', m.end()); depth, j = 0, i
    while True:
        ch = src[j]
        if ch == '{': depth += 1
        elif ch == '}':
            depth -= 1
            if depth == 0: return src[i+1:j], src[:i].count('\n') + 1
        j += 1
def strip_comments(s): return re.sub(r'//[^\n]*', '', s)

TOK = re.compile(r'\s*(?:(\d[\d_]*)|([A-Za-z_][A-Za-z_0-9]*(?:\.[A-Za-z_0-9]+|\(\))*)|(==|!=|<=|>=|&&|\|\||[-+*/%<>!()&*]))')
CASTS = re.compile(r'\s+as\s+(?:usize|u64|u128)\b')      # identity / widening casts of u64 values on a 64-bit target
def tokenize(s):
    out, i, s = [], 0, CASTS.sub('', s.strip())
    s = re.sub(r'(?:self\.)?committee\.stake\(\s*&?\*?[\w.]+\s*\)', 'STAKE', s)
    while i < len(s):
        m = TOK.match(s, i)
        if not m: raise ValueError("cannot tokenize at: " + s[i:i+30])
        if m.group(1): out.append(('num', m.group(1).replace('_','')))
        elif m.group(2): out.append(('id', m.group(2)))
        else: out.append(('op', m.group(3)))
        i = m.end()
    return out
# The parser builds a small AST; `norm` pushes negations into comparisons (exact over N: !(a<b) = b<=a, !(a==b) = a!=b,
# and for unsigned values a != 0 = 0 < a), so that `ensure!(x > 0)`, `if x == 0 { return Err }` and `if !(x > 0) {..}` regenerate
# to the same Gallina term. Unknown plain identifiers are resolved through a unique, never re-assigned `let` of the same function.
class P:
    def __init__(self, toks, env, body=None, depth=0, src=None): self.t, self.i, self.env, self.body, self.depth, self.src = toks, 0, env, body, depth, src
    def peek(self): return self.t[self.i] if self.i < len(self.t) else (None, None)
    def eat(self): x = self.t[self.i]; self.i += 1; return x
    def expr(self): return self.or_()
    def or_(self):
        l = self.and_()
        while self.peek() == ('op','||'): self.eat(); l = ('or', l, self.and_())
        return l
    def and_(self):
        l = self.cmp()
        while self.peek() == ('op','&&'): self.eat(); l = ('and', l, self.cmp())
        return l
    def cmp(self):
        l = self.add(); k, v = self.peek()
        if k == 'op' and v in ('==','!=','<','<=','>','>='):
            self.eat(); r = self.add()
            if v == '>': return ('cmp', '<', r, l)
            if v == '>=': return ('cmp', '<=', r, l)
            return ('cmp', v, l, r)
        return l
    def add(self):
        l = self.mul()
        while self.peek()[0] == 'op' and self.peek()[1] in '+-':
            o = self.eat()[1]; l = ('ar', o, l, self.mul())
        return l
    def mul(self):
        l = self.un()
        while self.peek()[0] == 'op' and self.peek()[1] in ('*','/','%'):
            o = self.eat()[1]; r = self.un(); l = ('ar', {'*':'*','/':'/','%':'mod'}[o], l, r)
        return l
    def un(self):
        k, v = self.peek()
        if (k, v) == ('op','!'): self.eat(); return ('not', self.un())
        if (k, v) in (('op','&'), ('op','*')): self.eat(); return self.un()
        if (k, v) == ('op','('): self.eat(); e = self.expr(); assert self.eat() == ('op',')'); return e
        self.eat()
        if k == 'num': return ('atom', v)
        if k == 'id':
            if v in ('true', 'false'): return ('atom', v)
            if v in self.env: return ('atom', self.env[v])
            if v == 'mut': return self.un()       # `&mut x`
            r = self.resolve(v)
            if r is not None: return r
            raise ValueError("unknown identifier " + v)
        raise ValueError("unexpected token %r" % (v,))
    def resolve(self, v):
        if self.body is None or self.depth > 3 or not re.match(r'^[A-Za-z_]\w*$', v): return None
        ms = re.findall(r'\blet\s+(?:mut\s+)?%s\s*=\s*([^;]*);' % re.escape(v), self.body)
        if len(ms) != 1: return None
        if re.search(r'(?<![\w.])%s\s*(?:[-+*/|&^]=|=(?!=))' % re.escape(v), re.sub(r'\blet\s+(?:mut\s+)?%s\s*=' % re.escape(v), '', self.body)): return None   # re-assigned
        try:
            q = P(tokenize(expand_calls(ms[0], self.src, self.body)), self.env, self.body, self.depth + 1, self.src); e = q.expr()
            return e if q.i == len(q.t) else None
        except Exception:
            return None
def norm(e):
    k = e[0]
    if k == 'not':
        x = norm(e[1])
        if x[0] == 'not': return x[1]
        if x[0] == 'cmp':
            op, l, r = x[1], x[2], x[3]
            if op == '<': return norm(('cmp', '<=', r, l))
            if op == '<=': return norm(('cmp', '<', r, l))
            if op == '==': return norm(('cmp', '!=', l, r))
            if op == '!=': return norm(('cmp', '==', l, r))
        if x == ('atom', 'true'): return ('atom', 'false')
        if x == ('atom', 'false'): return ('atom', 'true')
        return ('not', x)
    if k == 'cmp':
        op, l, r = e[1], norm(e[2]), norm(e[3])
        if op == '!=' and r == ('atom', '0'): return ('cmp', '<', r, l)      # unsigned: x != 0  <->  0 < x
        if op == '!=' and l == ('atom', '0'): return ('cmp', '<', l, r)
        if op == '<=' and l == ('atom', '1'): return ('cmp', '<', ('atom', '0'), r)   # 1 <= x  <->  0 < x
        return ('cmp', op, l, r)
    if k in ('and', 'or'): return (k, norm(e[1]), norm(e[2]))
    if k == 'ar': return ('ar', e[1], norm(e[2]), norm(e[3]))
    return e
def show(e):
    k = e[0]
    if k == 'atom': return e[1]
    if k == 'not': return '(negb %s)' % show(e[1])
    if k == 'and': return '(%s && %s)' % (show(e[1]), show(e[2]))
    if k == 'or': return '(%s || %s)' % (show(e[1]), show(e[2]))
    if k == 'cmp':
        return {'==':'(%s =? %s)','!=':'(negb (%s =? %s))','<':'(%s <? %s)','<=':'(%s <=? %s)'}[e[1]] % (show(e[2]), show(e[3]))
    if k == 'ar':
        t = '(%s %s %s)' % (show(e[2]), e[1], show(e[3]))
        return '(%s %s)' % (WRAP, t) if WRAP else t
def split_args(t):
    out, depth, cur = [], 0, ''
    for ch in t:
        if ch in '([{<': depth += 1
        elif ch in ')]}>': depth -= 1
        if ch == ',' and depth == 0: out.append(cur); cur = ''
        else: cur += ch
    if cur.strip(): out.append(cur)
    return [x.strip() for x in out]
def expand_calls(expr, src, body):
    """replace `Self::f(a..)`, `self.f(a..)`, `f(a..)` by the body of `fn f(p..) -> T { E }` of the same file when that body is a single
    expression, or by the closure `let f = |p..| E;` of the same function, with the parameters replaced by the arguments"""
    for _ in range(3):
        changed = False
        for m in list(re.finditer(r'(?<![\w.])(?:Self::|self\.)?([a-z_]\w*)\(((?:[^()]|\([^()]*\))*)\)', expr)):
            name, args = m.group(1), split_args(m.group(2))
            params, e = None, None
            md = re.search(r'\bfn\s+%s\s*(?:<[^>]*>)?\s*\(([^)]*)\)\s*(?:->\s*[^{]+)?\{\s*([^{};]+?)\s*\}' % re.escape(name), src or '')
            if md: params, e = split_args(md.group(1)), md.group(2)
            else:
                mc = re.search(r'\blet\s+%s\s*=\s*(?:move\s*)?\|([^|]*)\|\s*([^;{}]+?)\s*;' % re.escape(name), body or '')
                if mc: params, e = split_args(mc.group(1)), mc.group(2)
            if e is None: continue
            params = [q for q in params if not re.match(r'^&?\s*(mut\s+)?self$', q)]
            pn = [re.sub(r'^(mut\s+)?', '', q.split(':')[0].strip()) for q in params]
            if len(pn) != len(args): continue
            for q, a in zip(pn, args):
                a = re.sub(r'^[&*\s]+(mut\s+)?', '', a)
                e = re.sub(r'(?<![\w.])%s\b' % re.escape(q), a, e)
            expr = expr[:m.start()] + '(' + e + ')' + expr[m.end():]
            changed = True
            break
        if not changed: break
    return expr
def tr(expr, env, body=None, negate=False, src=None):
    expr = expand_calls(expr, src, body)
    p = P(tokenize(expr), env, body, 0, src); e = p.expr()
    if p.i != len(p.t): raise ValueError("trailing tokens in " + expr)
    if negate: e = ('not', e)
    return show(norm(e))

# ---- source normalisation (textual, meaning-preserving): `if C { return Err(E); }` is what `ensure!(!(C), E);` expands to;
# a type annotation on a `let` does not matter to the decision expressions ----
def norm_src(s):
    s = strip_comments(s)
    s = re.sub(r'\bif\s+([^{};]+?)\s*\{\s*return\s+Err\(\s*((?:[^(){};]|\((?:[^(){};]|\([^(){};]*\))*\))*?)\s*\)\s*;\s*\}',
               lambda m: 'ensure!(!(%s), %s);' % (m.group(1).strip(), m.group(2).strip()), s)
    s = re.sub(r'\blet\s+(mut\s+)?([A-Za-z_]\w*)\s*:\s*[^=;{}]+?=(?!=)', lambda m: 'let %s%s =' % (m.group(1) or '', m.group(2)), s)
    return s
def block_after(body, pos):
    """text of the `{...}` block that opens at or after pos"""
    i = body.index('{', pos); depth, j = 0, i
    while j < len(body):
        if body[j] == '{': depth += 1
        elif body[j] == '}':
            depth -= 1
            if depth == 0: return body[i+1:j]
        j += 1
    return body[i+1:]
def inline_calls(src, body, me, depth=0):
    """replace `self.f(args)` by the body of `fn f` of the same file (one level; used only when a site is not found in the plain body)"""
    def rep(m):
        f = m.group(1)
        if f == me: return m.group(0)
        b, _ = fn_body(src, f)
        return m.group(0) if b is None else '{ %s }' % b
    return re.sub(r'(?<![\w.!])(?:self\s*\.\s*|Self::)?([A-Za-z_]\w*)\s*\((?:[^()]|\((?:[^()]|\([^()]*\))*\))*\)(?:\s*\.await)?', rep, body)
def find_site(src, fn, patterns, nth=0, body=None, role=None):
    """first pattern (of a list of alternatives) that matches in the body of fn, then in the body with callees inlined"""
    if body is None: body, line = fn_body(src, fn)
    else: line = 0
    if body is None: return None, None, line
    if isinstance(patterns, str): patterns = [patterns]
    for b in (body, inline_calls(src, body, fn)):
        for pat in patterns:
            ms = list(re.finditer(pat, b, re.S))
            if role: ms = [m for m in ms if role(block_after(b, m.end(1))) is not None]
            if len(ms) > nth: return ms[nth], b, line
    return None, body, line

core = norm_src(open(REPO + '/consensus/src/core.rs').read())
cfg = norm_src(open(REPO + '/consensus/src/config.rs').read())
mcfg = norm_src(open(REPO + '/mempool/src/config.rs').read())
defs, untied = [], []
sites = []
def site(name, params, src, fname, fn, pattern, env, pre=None, default=None, wrap=None, role=None):
    """role: optional function of the text of the block guarded by the condition -> True (the condition is the guard as modelled),
    False (the source tests the negation: e.g. an early `return`/`continue` instead of the guarded action), None (unrecognised)"""
    global WRAP
    WRAP = wrap
    m, body, line = find_site(src, fn, pattern, role=role)
    text = m.group(1).strip() if m else None
    try:
        if text is None: raise ValueError("site not found")
        neg = False
        if role:
            pol = role(block_after(body, m.end(1)))
            if pol is None: raise ValueError("the branch guarded by `%s` is not recognised" % text)
            neg = not pol
        t2 = pre(text) if pre else text
        g = tr(t2, env, body, negate=neg, src=src)
        defs.append("(* %s: fn %s (line %d): `%s`%s *)\nDefinition %s %s := %s." % (fname, fn, line, text, ' (negated: guards the early exit)' if neg else '', name, params, g))
        sites.append({'name': name, 'file': fname, 'fn': fn, 'line': line, 'rust': text, 'coq': g, 'changed': g != default})
    except Exception as e:
        untied.append((name, str(e)))
        sites.append({'name': name, 'file': fname, 'fn': fn, 'line': line, 'rust': text, 'coq': default, 'untied': str(e)})
        defs.append("(* UNTIED %s: %s *)\nDefinition %s %s := %s." % (name, e, name, params, default))
    WRAP = None

# ---- polarity of a guard: what the guarded branch does decides whether the source tests the modelled guard or its negation ----
def role_exit_pos(blk):      # modelled guard = "leave early": positive when the branch returns/continues at once
    return True if re.match(r'\s*(return|continue|break)\b', blk) else False
def role_exit_pos3(blk):     # as role_exit_pos, but an `Err` exit is a different guard (not recognised)
    if re.match(r'\s*return\s+Err\b', blk): return None
    return True if re.match(r'\s*(return|continue|break)\b', blk) else False
def role_action(*words):     # modelled guard = "do the action": positive when the branch mentions it, negative when the branch leaves at once
    def f(blk):
        if any(w in blk for w in words): return True
        if re.match(r'\s*(return|continue|break)\b', blk): return False
        return None
    return f
STENV = {'self.round':'st_round','self.high_qc.round':'st_hq','self.last_voted_round':'st_lv','self.last_committed_round':'st_lc'}
def E(d):
    x = dict(STENV); x.update(d); return x
venv = E({'block.round':'b_round','block.qc.round':'b_qc_round','tc.round':'tc_round','MAXHQ':'max_hq'})
VP = '(b_round b_qc_round tc_round max_hq : N) (st_round st_hq st_lv st_lc : N) : bool'
site('g_safety_rule_1',VP,core,'core.rs','make_vote',[r'let\s+safety_rule_1\s*=\s*(.*?);', r'let\s+(?:mut\s+)?\w+\s*=\s*([^;]*self\.last_voted_round[^;]*);'],venv,default='(st_lv <? b_round)')
site('g_safety_rule_2',VP,core,'core.rs','make_vote',[r'let\s+mut\s+safety_rule_2\s*=\s*(.*?);', r'let\s+mut\s+\w+\s*=\s*([^;]*block\.qc\.round[^;]*);'],venv,default='((b_qc_round + 1) =? b_round)')
site('g_can_extend',VP,core,'core.rs','make_vote',[r'let\s+mut\s+can_extend\s*=\s*(.*?);', r'let\s+mut\s+\w+\s*=\s*([^;]*\btc\.round[^;]*);'],venv,default='((tc_round + 1) =? b_round)')
site('g_can_extend_hq',VP,core,'core.rs','make_vote',[r'can_extend\s*&=\s*(.*?);', r'\b\w+\s*&=\s*([^;]*high_qc_rounds[^;]*);'],venv,
     pre=lambda t: re.sub(r'\*?tc\.high_qc_rounds\(\)\.iter\(\)\.max\(\)\.expect\("[^"]*"\)','MAXHQ',t),default='(max_hq <=? b_qc_round)')
site('g_commit_skip','(b_round : N) (st_round st_hq st_lv st_lc : N) : bool',core,'core.rs','commit',[r'if\s+([^{}]*?)\s*\{\s*return\s+Ok', r'if\s+([^{};]*?self\.last_committed_round[^{};]*?)\s*\{'],E({'block.round':'b_round'}),default='(b_round <=? st_lc)',role=role_exit_pos3)
site('g_commit_walk','(lcr p_round : N) : bool',core,'core.rs','commit',r'while\s+(.*?)\s*\{',{'self.last_committed_round':'lcr','parent.round':'p_round'},default='((lcr + 1) <? p_round)')
site('g_update_high_qc','(q_round : N) (st_round st_hq st_lv st_lc : N) : bool',core,'core.rs','update_high_qc',r'if\s+(.*?)\s*\{',E({'qc.round':'q_round'}),default='(st_hq <? q_round)',role=role_action('self.high_qc'))
site('g_vote_stale','(m_round : N) (st_round st_hq st_lv st_lc : N) : bool',core,'core.rs','handle_vote',[r'if\s+([^{}]*?)\s*\{\s*return\s+Ok', r'if\s+([^{};]*?\bvote\.round\b[^{};]*?)\s*\{', r'if\s+([a-z_]\w*)\s*\{'],E({'vote.round':'m_round'}),default='(m_round <? st_round)',role=role_exit_pos3)
site('g_timeout_stale','(m_round : N) (st_round st_hq st_lv st_lc : N) : bool',core,'core.rs','handle_timeout',[r'if\s+([^{}]*?)\s*\{\s*return\s+Ok', r'if\s+([^{};]*?\btimeout\.round\b[^{};]*?)\s*\{', r'if\s+([a-z_]\w*)\s*\{'],E({'timeout.round':'m_round'}),default='(m_round <? st_round)',role=role_exit_pos3)
site('g_tc_stale','(m_round : N) (st_round st_hq st_lv st_lc : N) : bool',core,'core.rs','handle_tc',[r'if\s+([^{}]*?)\s*\{\s*return\s+Ok', r'if\s+([^{};]*?\btc\.round\b[^{};]*?)\s*\{', r'if\s+([a-z_]\w*)\s*\{'],E({'tc.round':'m_round'}),default='(m_round <? st_round)',role=role_exit_pos3)
site('g_advance_guard','(r : N) (st_round st_hq st_lv st_lc : N) : bool',core,'core.rs','advance_round',r'if\s+(.*?)\s*\{',E({'round':'r'}),default='(r <? st_round)',role=role_exit_pos)
site('g_advance_next','(r : N) (st_round st_hq st_lv st_lc : N) : N',core,'core.rs','advance_round',r'self\.round\s*=\s*(.*?);',E({'round':'r'}),default='(r + 1)')
site('g_two_chain','(b0_round b1_round b_round : N) : bool',core,'core.rs','process_block',r'if\s+([^{}]*?)\s*\{\s*self\.mempool_driver\.cleanup',{'b0.round':'b0_round','b1.round':'b1_round','block.round':'b_round'},default='((b0_round + 1) =? b1_round)')
site('g_round_gate','(b_round b_qc_round : N) (st_round st_hq st_lv st_lc : N) : bool',core,'core.rs','process_block',r'if\s+([^{}]*?)\s*\{\s*return\s+Ok\(\(\)\);\s*\}\s*(?://[^\n]*\n\s*)*if\s+let\s+Some\(vote\)',E({'block.round':'b_round','block.qc.round':'b_qc_round'}),default='(negb (b_round =? st_round))')
site('g_quorum_consensus','(total : N) : N',cfg,'consensus/config.rs','quorum_threshold',r'(?:;|\})\s*([^;{}]*?)\s*$',{'total_votes':'total'},default='(((2 * total) / 3) + 1)')
site('g_quorum_mempool','(total : N) : N',mcfg,'mempool/config.rs','quorum_threshold',r'(?:;|\})\s*([^;{}]*?)\s*$',{'total_votes':'total'},default='(((2 * total) / 3) + 1)')


# ---- impl-scoped sites (messages.rs has several `fn verify`) ----
def impl_body(src, ty):
    m = re.search(r'\bimpl\s+%s\s*\{' % re.escape(ty), src)
    if not m: return None, 0
    i = m.end() - 1; depth, j = 0, i
    while j < len(src):
        ch = src[j]
        if ch == '{': depth += 1
        elif ch == '}':
            depth -= 1
            if depth == 0: return src[i+1:j], src[:i].count('\n') + 1
        j += 1
    return None, 0
def isite(name, params, srcfile, fname, ty, fn, pattern, env, default, pre=None, nth=0, role=None):
    """site inside `impl ty { fn fn(...) {...} }`; nth selects among several matches of the pattern"""
    global WRAP
    WRAP = None
    src = srcfile
    ib, iline = impl_body(src, ty)
    fb, line = fn_body(ib, fn) if ib else (None, 0)
    m, body, _ = find_site(src, fn, pattern, nth, body=fb, role=role) if fb else (None, None, 0)
    text = m.group(1).strip() if m else None
    try:
        if text is None: raise ValueError("site not found")
        neg = False
        if role:
            pol = role(block_after(body, m.end(1)))
            if pol is None: raise ValueError("the branch guarded by `%s` is not recognised" % text)
            neg = not pol
        g = tr(pre(text) if pre else text, env, body, negate=neg, src=src)
        defs.append("(* %s: impl %s, fn %s (line %d): `%s`%s *)\nDefinition %s %s := %s." % (fname, ty, fn, iline + line - 1, text, ' (negated: guards the early exit)' if neg else '', name, params, g))
        sites.append({'name': name, 'file': fname, 'fn': '%s::%s' % (ty, fn), 'line': iline + line - 1, 'rust': text, 'coq': g, 'changed': g != default})
    except Exception as e:
        untied.append((name, str(e)))
        defs.append("(* UNTIED %s: %s *)\nDefinition %s %s := %s." % (name, e, name, params, default))
        sites.append({'name': name, 'file': fname, 'fn': '%s::%s' % (ty, fn), 'line': iline + line - 1, 'rust': text, 'coq': default, 'untied': str(e)})
msgs = norm_src(open(REPO + '/consensus/src/messages.rs').read())
aggr = norm_src(open(REPO + '/consensus/src/aggregator.rs').read())
lead = norm_src(open(REPO + '/consensus/src/leader.rs').read())
qwsrc = norm_src(open(REPO + '/mempool/src/quorum_waiter.rs').read())
bmsrc = norm_src(open(REPO + '/mempool/src/batch_maker.rs').read())
ENS = r'ensure!\(\s*([^,]*?)\s*,'
isite('g_block_stake', '(s : N) : bool', msgs, 'messages.rs', 'Block', 'verify', ENS, {'voting_rights': 's', 'STAKE': 's'}, '(0 <? s)')
isite('g_vote_stake', '(s : N) : bool', msgs, 'messages.rs', 'Vote', 'verify', ENS, {'STAKE': 's'}, '(0 <? s)', pre=lambda t: re.sub(r'committee\.stake\(&self\.author\)', 'STAKE', t))
isite('g_timeout_stake', '(s : N) : bool', msgs, 'messages.rs', 'Timeout', 'verify', ENS, {'STAKE': 's'}, '(0 <? s)', pre=lambda t: re.sub(r'committee\.stake\(&self\.author\)', 'STAKE', t))
isite('g_qc_entry_stake', '(s : N) : bool', msgs, 'messages.rs', 'QC', 'verify', ENS, {'voting_rights': 's', 'STAKE': 's'}, '(0 <? s)', nth=1)
isite('g_qc_weight', '(weight quorum : N) : bool', msgs, 'messages.rs', 'QC', 'verify', ENS, {'weight': 'weight', 'QUORUM': 'quorum'}, '(quorum <=? weight)', pre=lambda t: t.replace('committee.quorum_threshold()', 'QUORUM'), nth=2)
isite('g_tc_entry_stake', '(s : N) : bool', msgs, 'messages.rs', 'TC', 'verify', ENS, {'voting_rights': 's', 'STAKE': 's'}, '(0 <? s)', nth=1)
isite('g_tc_weight', '(weight quorum : N) : bool', msgs, 'messages.rs', 'TC', 'verify', ENS, {'weight': 'weight', 'QUORUM': 'quorum'}, '(quorum <=? weight)', pre=lambda t: t.replace('committee.quorum_threshold()', 'QUORUM'), nth=2)
QT = lambda t: t.replace('committee.quorum_threshold()', 'QUORUM').replace('self.committee.QUORUM', 'QUORUM')
isite('g_qcm_threshold', '(weight quorum : N) : bool', aggr, 'aggregator.rs', 'QCMaker', 'append', r'if\s+(self\.weight[^{]*?)\s*\{', {'self.weight': 'weight', 'QUORUM': 'quorum'}, '(quorum <=? weight)', pre=QT, role=role_action('self.weight =', 'Some('))
isite('g_qcm_reset', ': N', aggr, 'aggregator.rs', 'QCMaker', 'append', r'self\.weight\s*=\s*([^;]*?);', {}, '0')
isite('g_tcm_threshold', '(weight quorum : N) : bool', aggr, 'aggregator.rs', 'TCMaker', 'append', r'if\s+(self\.weight[^{]*?)\s*\{', {'self.weight': 'weight', 'QUORUM': 'quorum'}, '(quorum <=? weight)', pre=QT, role=role_action('self.weight =', 'Some('))
isite('g_tcm_reset', ': N', aggr, 'aggregator.rs', 'TCMaker', 'append', r'self\.weight\s*=\s*([^;]*?);', {}, '0')
isite('g_agg_keep_votes', '(k round : N) : bool', aggr, 'aggregator.rs', 'Aggregator', 'cleanup', r'self\.votes_aggregators\.retain\(\s*\|[^|]*\|\s*((?:[^()]|\([^()]*\))*?)\s*\)', {'k': 'k', 'round': 'round'}, '(round <=? k)')
isite('g_agg_keep_timeouts', '(k round : N) : bool', aggr, 'aggregator.rs', 'Aggregator', 'cleanup', r'self\.timeouts_aggregators\.retain\(\s*\|[^|]*\|\s*((?:[^()]|\([^()]*\))*?)\s*\)', {'k': 'k', 'round': 'round'}, '(round <=? k)')
isite('g_leader_index', '(round size : N) : N', lead, 'leader.rs', 'RRLeaderElector', 'get_leader', r'keys\[\s*(.*?)\s*\]', {'round': 'round', 'SIZE': 'size', 'keys.len()': 'size', 'self.committee.authorities.len()': 'size'}, '(round mod size)', pre=lambda t: t.replace('self.committee.size()', 'SIZE'))
_qwacc = re.search(r'let\s+mut\s+(\w+)\s*=\s*self\.stake\s*;', qwsrc)
_qwacc = _qwacc.group(1) if _qwacc else 'total_stake'
isite('g_qw_threshold', '(total quorum : N) : bool', qwsrc, 'quorum_waiter.rs', 'QuorumWaiter', 'run', r'if\s+([^{};]*quorum_threshold\(\)[^{};]*?)\s*\{', {_qwacc: 'total', 'QUORUM': 'quorum'}, '(quorum <=? total)', pre=lambda t: t.replace('self.committee.quorum_threshold()', 'QUORUM'), role=role_action('tx_batch', '.send('))
isite('g_batch_full', '(size batch_size : N) : bool', bmsrc, 'batch_maker.rs', 'BatchMaker', 'run', [r'if\s+(self\.current_batch_size[^{]*?)\s*\{', r'if\s+(!?\s*[a-z_]\w*)\s*\{'], {'self.current_batch_size': 'size', 'self.batch_size': 'batch_size'}, '(batch_size <=? size)', role=role_action('seal'))
isite('g_timer_seals', '(is_empty : bool) (size batch_size : N) : bool', bmsrc, 'batch_maker.rs', 'BatchMaker', 'run', r'\(\)\s*=\s*&mut\s+timer\s*=>\s*\{\s*if\s+([^{}]*?)\s*\{', {'EMPTY': 'is_empty', 'self.current_batch_size': 'size', 'self.batch_size': 'batch_size'}, '(negb is_empty)', pre=lambda t: t.replace('self.current_batch.is_empty()', 'EMPTY'), role=role_action('seal'))
# seal(): is the length test evaluated before the index `tx[0]` (benchmark build)? `a && b` evaluates a first
_sb, _sl = fn_body(bmsrc, 'seal')
_mf = re.search(r'\.filter\(\|tx\|\s*(.*?)\)\s*\.filter_map', _sb or '', re.S)
if _mf:
    t = _mf.group(1)
    guarded = 'true' if (('tx.len()' in t) and ('tx[0]' in t) and t.index('tx.len()') < t.index('tx[0]')) or ('tx[0]' not in t) else 'false'
    defs.append("(* batch_maker.rs: fn seal (line %d), benchmark build: `%s`: is the length test evaluated before the index? *)\nDefinition g_seal_index_guarded : bool := %s." % (_sl, ' '.join(t.split()), guarded))
    sites.append({'name': 'g_seal_index_guarded', 'file': 'batch_maker.rs', 'fn': 'seal', 'line': _sl, 'rust': ' '.join(t.split()), 'coq': guarded, 'changed': guarded != 'true'})
else:
    untied.append(('g_seal_index_guarded', 'site not found'))
    defs.append("(* UNTIED g_seal_index_guarded *)\nDefinition g_seal_index_guarded : bool := true.")
    sites.append({'name': 'g_seal_index_guarded', 'file': 'batch_maker.rs', 'fn': 'seal', 'line': _sl, 'rust': None, 'coq': 'true', 'untied': 'site not found'})


# ---- crypto: do the key decoders check the decoded length exactly, or slice a prefix (panics when short, truncates when long)? ----
crypto_src = strip_comments(open(REPO + '/crypto/src/lib.rs').read())
for nm, ty in (('g_pk_decode_exact', 'PublicKey'), ('g_sk_decode_exact', 'SecretKey')):
    ib, il = impl_body(crypto_src, ty)
    body, line = fn_body(ib, 'decode_base64') if ib else (None, 0)
    if body and 'try_into' in body or (body and 'try_from' in body):
        m = re.search(r'bytes\s*\[\s*\.\.\s*\d+\s*\]', body)
        v = 'false' if m else 'true'
        defs.append("(* crypto/src/lib.rs: impl %s, fn decode_base64 (line %d): %s *)\nDefinition %s : bool := %s." % (ty, il + line - 1, ('prefix slice `%s`' % m.group(0)) if m else 'whole-slice conversion (exact length)', nm, v))
        sites.append({'name': nm, 'file': 'crypto/src/lib.rs', 'fn': '%s::decode_base64' % ty, 'line': il + line - 1, 'rust': m.group(0) if m else 'exact', 'coq': v, 'changed': v != 'true'})
    else:
        untied.append((nm, 'site not found'))
        defs.append("(* UNTIED %s *)\nDefinition %s : bool := true." % (nm, nm))
        sites.append({'name': nm, 'file': 'crypto/src/lib.rs', 'fn': '%s::decode_base64' % ty, 'line': 0, 'rust': None, 'coq': 'true', 'untied': 'site not found'})


# ---- consensus helper: is the deserialisation of the stored bytes guarded (match / if let) or unwrapped? ----
helper_src = strip_comments(open(REPO + '/consensus/src/helper.rs').read())
_hb, _hl = fn_body(helper_src, 'run')
if _hb and 'bincode::deserialize' in _hb:
    m = re.search(r'bincode::deserialize\s*(?:::<[^>]*>)?\s*\([^;]*?\)\s*\.\s*(expect|unwrap)\b', _hb, re.S)
    v = 'false' if m else 'true'
    defs.append("(* consensus/helper.rs: fn run (line %d): stored bytes are deserialised %s *)\nDefinition g_helper_deser_guarded : bool := %s." % (_hl, 'with .%s(..): panics on non-block data' % m.group(1) if m else 'under a match / if-let: non-block data is skipped', v))
    sites.append({'name': 'g_helper_deser_guarded', 'file': 'consensus/helper.rs', 'fn': 'run', 'line': _hl, 'rust': m.group(0)[:80] if m else 'guarded', 'coq': v, 'changed': v != 'true'})
else:
    untied.append(('g_helper_deser_guarded', 'site not found'))
    defs.append("(* UNTIED g_helper_deser_guarded *)\nDefinition g_helper_deser_guarded : bool := true.")
    sites.append({'name': 'g_helper_deser_guarded', 'file': 'consensus/helper.rs', 'fn': 'run', 'line': 0, 'rust': None, 'coq': 'true', 'untied': 'site not found'})


# ---- digest pre-images: the sequence of hasher.update(..) calls of each `impl Hash for T` in messages.rs ----
def hash_updates(ty):
    m = re.search(r'impl\s+Hash\s+for\s+%s\s*\{' % ty, msgs)
    if not m: return None, 0
    i = m.end() - 1; depth = 0; j = i
    while j < len(msgs):
        if msgs[j] == '{': depth += 1
        elif msgs[j] == '}':
            depth -= 1
            if depth == 0: break
        j += 1
    body = msgs[i:j]
    line = msgs[:i].count('\n') + 1
    toks = []
    # a `for x in &self.F { hasher.update(x); }` loop contributes the field F "each"
    pos = 0
    for mm in re.finditer(r'for\s+(\w+)\s+in\s+&self\.(\w+)\s*\{\s*hasher\.update\(\s*\1\s*\)\s*;\s*\}|hasher\.update\(\s*([^;]*?)\s*\)\s*;', body):
        if mm.group(2): toks.append('each:' + mm.group(2))
        else: toks.append(re.sub(r'\s+', '', mm.group(3)))
    return toks, line
FIELD = {'self.author.0': 'author', 'self.round.to_le_bytes()': 'round_le', 'each:payload': 'payload', '&self.qc.hash': 'parent',
         '&self.hash': 'hash', 'self.high_qc.round.to_le_bytes()': 'hqr_le'}
def pre_site(name, ty, params, default_order):
    toks, line = hash_updates(ty)
    try:
        if toks is None: raise ValueError('impl Hash not found')
        names = []
        for t in toks:
            if t not in FIELD: raise ValueError('unrecognised update argument `%s`' % t)
            names.append(FIELD[t])
        g = '(' + ' ++ '.join(names) + ')' if names else '[]'
        defs.append("(* messages.rs: impl Hash for %s (line %d): updates %s *)\nDefinition %s %s : list N := %s." % (ty, line, toks, name, params, g))
        sites.append({'name': name, 'file': 'messages.rs', 'fn': 'Hash for %s' % ty, 'line': line, 'rust': ' ; '.join(toks), 'coq': g, 'changed': names != default_order})
    except Exception as e:
        untied.append((name, str(e)))
        g = '(' + ' ++ '.join(default_order) + ')'
        defs.append("(* UNTIED %s: %s *)\nDefinition %s %s : list N := %s." % (name, e, name, params, g))
        sites.append({'name': name, 'file': 'messages.rs', 'fn': 'Hash for %s' % ty, 'line': line, 'rust': str(toks), 'coq': g, 'untied': str(e)})
pre_site('g_pre_block', 'Block', '(author round_le payload parent : list N)', ['author', 'round_le', 'payload', 'parent'])
pre_site('g_pre_vote', 'Vote', '(hash round_le : list N)', ['hash', 'round_le'])
pre_site('g_pre_qc', 'QC', '(hash round_le : list N)', ['hash', 'round_le'])
pre_site('g_pre_timeout', 'Timeout', '(round_le hqr_le : list N)', ['round_le', 'hqr_le'])
# the TC entry digest is computed inline in TC::verify
_tb, _tl = fn_body(impl_body(msgs, 'TC')[0] or '', 'verify')
_tu = [re.sub(r'\s+', '', x) for x in re.findall(r'hasher\.update\(\s*([^;]*?)\s*\)\s*;', _tb or '')]
_TF = {'self.round.to_le_bytes()': 'round_le', 'high_qc_round.to_le_bytes()': 'hqr_le'}
try:
    names = [_TF[t] for t in _tu]
    g = '(' + ' ++ '.join(names) + ')'
    defs.append("(* messages.rs: impl TC, fn verify: entry digest updates %s *)\nDefinition g_pre_tc_entry (round_le hqr_le : list N) : list N := %s." % (_tu, g))
    sites.append({'name': 'g_pre_tc_entry', 'file': 'messages.rs', 'fn': 'TC::verify', 'line': _tl, 'rust': ' ; '.join(_tu), 'coq': g, 'changed': names != ['round_le', 'hqr_le']})
except Exception as e:
    untied.append(('g_pre_tc_entry', 'unrecognised update argument %s' % e))
    defs.append("(* UNTIED g_pre_tc_entry *)\nDefinition g_pre_tc_entry (round_le hqr_le : list N) : list N := (round_le ++ hqr_le).")
    sites.append({'name': 'g_pre_tc_entry', 'file': 'messages.rs', 'fn': 'TC::verify', 'line': _tl, 'rust': str(_tu), 'coq': '(round_le ++ hqr_le)', 'untied': str(e)})


# ---- mempool synchronizer: garbage-collection and retry tests ----
msync_src = norm_src(open(REPO + '/mempool/src/synchronizer.rs').read())
isite('g_ms_gc_skip', '(round gc_depth : N) : bool', msync_src, 'mempool/synchronizer.rs', 'Synchronizer', 'run', [r'if\s+(self\.round[^{}]*?self\.gc_depth[^{}]*?)\s*\{\s*continue', r'if\s+(self\.round[^{};]*?self\.gc_depth[^{};]*?)\s*\{'], {'self.round': 'round', 'self.gc_depth': 'gc_depth'}, '(round <? gc_depth)', role=role_exit_pos3)
isite('g_ms_gc_round', '(round gc_depth : N) : N', msync_src, 'mempool/synchronizer.rs', 'Synchronizer', 'run', r'let\s+(?:mut\s+)?gc_round\s*=\s*([^;]*?);', {'self.round': 'round', 'self.gc_depth': 'gc_depth'}, '(round - gc_depth)')
isite('g_ms_gc_keep', '(r gc_round : N) : bool', msync_src, 'mempool/synchronizer.rs', 'Synchronizer', 'run', r'self\.pending\.retain\(\s*\|[^|]*\|\s*((?:[^()]|\([^()]*\))*?)\s*\)', {'r': 'r', 'gc_round': 'gc_round'}, '(gc_round <? r)', pre=lambda t: t.replace('&mut ', '').replace('&', ''))
isite('g_ms_retry_due', '(timestamp delay now : N) : bool', msync_src, 'mempool/synchronizer.rs', 'Synchronizer', 'run', r'if\s+(timestamp[^{}]*?)\s*\{', {'timestamp': 'timestamp', 'DELAY': 'delay', 'now': 'now'}, '((timestamp + delay) <? now)', pre=lambda t: t.replace('(self.sync_retry_delay as u128)', 'DELAY').replace('self.sync_retry_delay as u128', 'DELAY'))


# ---- the genesis exemption of the embedded-certificate checks: must be the comparison with QC::genesis() (hash AND round) ----
for nm, ty, field in (('g_block_exempt_is_genesis', 'Block', 'qc'), ('g_timeout_exempt_is_genesis', 'Timeout', 'high_qc')):
    ib, il = impl_body(msgs, ty)
    body, line = fn_body(ib, 'verify') if ib else (None, 0)
    m = re.search(r'if\s+([^{}]*?)\s*\{\s*self\.%s\.verify\(' % field, body or '', re.S)
    if m:
        cond = re.sub(r'\s+', '', m.group(1))
        v = 'true' if cond in ('self.%s!=QC::genesis()' % field, '!(self.%s==QC::genesis())' % field, 'QC::genesis()!=self.%s' % field) else None
        if v:
            defs.append("(* messages.rs: impl %s, fn verify (line %d): the embedded certificate is verified unless `%s` *)\nDefinition %s : bool := true." % (ty, il + line - 1, m.group(1).strip(), nm))
            sites.append({'name': nm, 'file': 'messages.rs', 'fn': '%s::verify' % ty, 'line': il + line - 1, 'rust': m.group(1).strip(), 'coq': 'true', 'changed': False})
            continue
    untied.append((nm, 'the exemption test is not the comparison with QC::genesis(): `%s`' % (m.group(1).strip() if m else 'not found')))
    defs.append("(* UNTIED %s *)\nDefinition %s : bool := true." % (nm, nm))
    sites.append({'name': nm, 'file': 'messages.rs', 'fn': '%s::verify' % ty, 'line': il + line - 1, 'rust': m.group(1).strip() if m else None, 'coq': 'true', 'untied': 'exemption test changed'})

# ---- commit(): the deque discipline, read off the source (which end each push/pop uses, whether the head is
# pushed before or after the walk, and the optional stop test inside the walk) ----
def flag(name, fn, pattern, mapping, default, what):
    m, body, line = find_site(core, fn, pattern)
    if m and m.group(1) in mapping:
        v = mapping[m.group(1)]
        defs.append("(* core.rs: fn %s (line %d): %s: `%s` *)\nDefinition %s : bool := %s." % (fn, line, what, m.group(0).strip(), name, v))
        sites.append({'name': name, 'file': 'core.rs', 'fn': fn, 'line': line, 'rust': m.group(0).strip(), 'coq': v, 'changed': v != default})
    else:
        untied.append((name, "site not found"))
        defs.append("(* UNTIED %s: site not found *)\nDefinition %s : bool := %s." % (name, name, default))
        sites.append({'name': name, 'file': 'core.rs', 'fn': fn, 'line': line, 'rust': None, 'coq': default, 'untied': 'site not found'})
_cb, _ = fn_body(core, 'commit')
_dq = re.search(r'\blet\s+mut\s+(\w+)\s*=\s*VecDeque::new\(\)', _cb or '')
DQ = re.escape(_dq.group(1)) if _dq else 'to_commit'
flag('g_commit_anc_front', 'commit', DQ + r'\.push_(front|back)\(\s*ancestor\.clone\(\)\s*\)', {'front': 'true', 'back': 'false'}, 'true', 'ancestors are pushed at this end')
flag('g_commit_head_front', 'commit', DQ + r'\.push_(front|back)\(\s*block\.clone\(\)\s*\)', {'front': 'true', 'back': 'false'}, 'false', 'the head is pushed at this end')
flag('g_commit_pop_back', 'commit', [DQ + r'\.pop_(front|back)\(\s*\)', r'for\s+\w+\s+in\s+' + DQ + r'(?:\.into_iter\(\)|\.drain\(\s*\.\.\s*\))?(\.rev\(\))?\s*\{'], {'front': 'false', 'back': 'true', None: 'false', '.rev()': 'true'}, 'false', 'delivery drains from this end')
# head pushed before the walk?
_b, _l = fn_body(core, 'commit')
_mh = re.search(DQ + r'\.push_(?:front|back)\(\s*block\.clone\(\)\s*\)', _b or '')
_mw = re.search(r'\bwhile\b', _b or '')
if _b and not (_mh and _mw):
    _b = inline_calls(core, _b, 'commit')
    _mh = re.search(DQ + r'\.push_(?:front|back)\(\s*block\.clone\(\)\s*\)', _b)
    _mw = re.search(r'\bwhile\b', _b)
if _mh and _mw:
    v = 'true' if _mh.start() < _mw.start() else 'false'
    defs.append("(* core.rs: fn commit (line %d): is the head pushed before the ancestor walk? *)\nDefinition g_commit_head_first : bool := %s." % (_l, v))
    sites.append({'name': 'g_commit_head_first', 'file': 'core.rs', 'fn': 'commit', 'line': _l, 'rust': 'position of push(block) relative to while', 'coq': v, 'changed': v != 'false'})
else:
    untied.append(('g_commit_head_first', 'site not found'))
    defs.append("(* UNTIED g_commit_head_first *)\nDefinition g_commit_head_first : bool := false.")
    sites.append({'name': 'g_commit_head_first', 'file': 'core.rs', 'fn': 'commit', 'line': _l, 'rust': None, 'coq': 'false', 'untied': 'site not found'})
# optional stop test inside the walk: `if <cond> { break; }`; absent = never stops early
_ms = re.search(r'if\s+([^{}]*?)\s*\{\s*break\s*;\s*\}', _b or '', re.S)
if _ms:
    site('g_commit_stop', '(anc_round lcr : N) : bool', core, 'core.rs', 'commit', r'if\s+([^{}]*?)\s*\{\s*break\s*;\s*\}', {'ancestor.round': 'anc_round', 'self.last_committed_round': 'lcr'}, default='(anc_round <=? lcr)')
else:
    defs.append("(* core.rs: fn commit (line %d): no early `break` in the ancestor walk *)\nDefinition g_commit_stop (anc_round lcr : N) : bool := false." % _l)
    sites.append({'name': 'g_commit_stop', 'file': 'core.rs', 'fn': 'commit', 'line': _l, 'rust': '(no break in the walk)', 'coq': 'false', 'changed': True})
site('g_quorum_consensus_u32','(total : N) : N',cfg,'consensus/config.rs','quorum_threshold',r'(?:;|\})\s*([^;{}]*?)\s*$',{'total_votes':'total'},default='(u32 ((u32 ((u32 (2 * total)) / 3)) + 1))',wrap='u32')
site('g_quorum_mempool_u32','(total : N) : N',mcfg,'mempool/config.rs','quorum_threshold',r'(?:;|\})\s*([^;{}]*?)\s*$',{'total_votes':'total'},default='(u32 ((u32 ((u32 (2 * total)) / 3)) + 1))',wrap='u32')
hdr = "(* GENERATED by regen.py from %s -- do not edit *)\nFrom Coq Require Import List NArith Bool.\nImport ListNotations.\nOpen Scope N_scope.\nDefinition u32 (x : N) : N := x mod 4294967296.\n\n" % REPO
new = hdr + "\n".join(defs) + "\n"
old = open(OUT).read() if os.path.exists(OUT) else None
# comments carry source line numbers: when only they differ the file is left alone (no needless rebuild of every proof)
_defs_only = lambda t: [l for l in (t or '').split('\n') if not l.startswith('(*')]
if old is None or _defs_only(new) != _defs_only(old): open(OUT,'w').write(new)
# ---- panic inventory: every panic-capable operation in non-test code, keyed by file, enclosing fn and normalised text ----
import glob
def panic_inventory():
    inv = {}
    for f in sorted(glob.glob(REPO + '/*/src/*.rs')):
        rel = os.path.relpath(f, REPO)
        if rel.startswith('node/src/client') or rel.startswith('node/src/main'):
            continue      # benchmark client and CLI entry point: not part of a running node's services
        src = strip_comments(open(f).read())
        # drop cfg(test) modules declared inline and hook code
        src = re.sub(r'#\[cfg\(feature = "hotstuff_verif"\)\]\s*(pub\s+)?(mod|impl|enum|fn)[^{;]*\{', lambda m: 'HOOK{', src)
        fn = '?'
        depth_hook = None
        for ln, line in enumerate(src.split('\n'), 1):
            m = re.search(r'\bfn\s+([A-Za-z_0-9]+)', line)
            if m: fn = m.group(1)
            if fn.startswith('verif_'): continue
            t = line.strip()
            if t.startswith('#[') or t.startswith('use ') or t.startswith('//'): continue
            found = []
            for m in re.finditer(r'\.expect\(\s*"([^"]*)"', t): found.append('expect("%s")' % m.group(1))
            for m in re.finditer(r'\.unwrap\(\)', t): found.append('unwrap() in `%s`' % re.sub(r'\s+', ' ', t)[:70])
            for m in re.finditer(r'\b(panic|unreachable|unimplemented|todo|assert|assert_eq)!\s*\(', t): found.append('%s! in `%s`' % (m.group(1), re.sub(r'\s+', ' ', t)[:70]))
            for m in re.finditer(r'[A-Za-z_0-9\)\]]\[(?!\s*u8\s*;)([^\[\]"]+)\]', t):
                if re.match(r'^\s*(vec!|#)', t) or 'vec![' in t[:m.start()+1][-5:]: continue
                # a constant index or range into a local fixed-size array `let [mut] X = [v; N]` within its length cannot panic
                mi = re.search(r'([A-Za-z_]\w*)$', t[:m.start()+1]); mr = re.match(r'^\s*(\d*)\s*(\.\.=?)?\s*(\d*)\s*$', m.group(1))
                if mi and re.match(r'^\s*[A-Za-z_]\w*\s*$', m.group(1)):
                    # `A[i]` with `let i = <e> % A.len();`: in range whenever A is non-empty (the same precondition as the `%` itself)
                    if re.search(r'\blet\s+%s\s*(?::[^=;]*)?=\s*[^;]*%%\s*%s\.len\(\)(?:\s+as\s+\w+)?\s*\)?(?:\s+as\s+\w+)?\s*;' % (re.escape(m.group(1).strip()), re.escape(mi.group(1))), src): continue
                if mi and mr:
                    md = re.search(r'\blet\s+(?:mut\s+)?%s\s*(?::[^=;]*)?=\s*\[[^;\]]*;\s*(\d+)\s*\]\s*;' % re.escape(mi.group(1)), src)
                    if md:
                        n = int(md.group(1)); lo = int(mr.group(1) or 0); hi = int(mr.group(3)) if mr.group(3) else (n if mr.group(2) else lo)
                        if (mr.group(2) and lo <= hi <= n and mr.group(2) == '..') or (not mr.group(2) and lo < n): continue
                found.append('index [%s] in `%s`' % (m.group(1).strip(), re.sub(r'\s+', ' ', t)[:70]))
            for x in found:
                key = '%s::%s::%s' % (rel, fn, x)
                inv[key] = inv.get(key, 0) + 1
        # tokio::select! panics when every branch is disabled (all patterns refutable and failed) and there is no else
        for m in re.finditer(r'tokio::select!\s*\{', src):
            i = m.end() - 1; depth = 0; j = i
            while j < len(src):
                if src[j] == '{': depth += 1
                elif src[j] == '}':
                    depth -= 1
                    if depth == 0: break
                j += 1
            blk = src[i:j]
            # blank out nested select! blocks (their arms are not arms of this one)
            while True:
                mm = re.search(r'tokio::select!\s*\{', blk[1:])
                if not mm: break
                a = mm.end(); d2 = 0; b = a
                while b < len(blk):
                    if blk[b] == '{': d2 += 1
                    elif blk[b] == '}':
                        d2 -= 1
                        if d2 == 0: break
                    b += 1
                blk = blk[:mm.start() + 1] + 'NESTED' + blk[b + 1:]
            fnm = re.findall(r'\bfn\s+([A-Za-z_0-9]+)', src[:i])
            heads = re.findall(r'^\s*(.+?)\s=\s.+?=>', blk, re.M)
            irrefutable = any(not h.strip().startswith(('Some', 'Ok', 'Err')) for h in heads) or re.search(r'\belse\s*=>', blk)
            if not irrefutable:
                inv['%s::%s::select! without else' % (rel, fnm[-1] if fnm else '?')] = 1
    return inv
# ---- anchors: a normalised token hash of every function of the modelled files (drift only raises the correspondence budget) ----
import hashlib
def anchors():
    out = {}
    for f in sorted(glob.glob(REPO + '/*/src/*.rs')):
        rel = os.path.relpath(f, REPO)
        if rel.startswith('node/src/client') or rel.startswith('node/src/main'): continue
        src = strip_comments(open(f).read())
        for m in re.finditer(r'\bfn\s+([A-Za-z_0-9]+)\s*(<[^>]*>)?\s*\(', src):
            name = m.group(1)
            if name.startswith('verif_'): continue
            try:
                i = src.index('{', m.end())
            except ValueError:
                continue
            if ';' in src[m.end():i]: continue        # a declaration without body
            depth, j = 0, i
            while j < len(src):
                if src[j] == '{': depth += 1
                elif src[j] == '}':
                    depth -= 1
                    if depth == 0: break
                j += 1
            body = src[i:j + 1]
            body = re.sub(r'"(?:[^"\\\\]|\\\\.)*"', '""', body)                    # string literals (log texts) do not matter
            body = re.sub(r'\b(debug|info|warn|error)!\s*\([^;]*\);', '', body)  # nor do log statements
            body = re.sub(r'\s+', '', body)
            key = '%s::%s' % (rel, name)
            n = 2
            while key in out: key = '%s::%s#%d' % (rel, name, n); n += 1
            out[key] = hashlib.sha1(body.encode()).hexdigest()[:16]
    return out
if STATUS: json.dump({'sites': sites, 'untied': untied, 'rewritten': old is None or _defs_only(new) != _defs_only(old), 'panic_inventory': panic_inventory(), 'anchors': anchors()}, open(STATUS,'w'), indent=1)
print("sites=%d untied=%s" % (len(defs), untied))
