#!/bin/sh
# Development aid: apply a patch to a scratch copy of /repo's sources and re-check every tie lemma against it (Coq only, no cargo).
# usage: tie_try_patch.sh <patch.diff>
p=$(readlink -f $1)
r=/tmp/tie_try_repo
rm -rf $r && mkdir -p $r && (cd /repo && git archive HEAD | tar -x -C $r) && (cd $r && git init -q . 2>/dev/null; git apply $p) || { echo "patch does not apply"; exit 1; }
exec /verif/tools/tie_try.sh $r
