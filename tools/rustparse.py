"""A small parser for the subset of Rust used by the function bodies of asonnino/hotstuff's protocol code.
Produces tuples.  Statements: ('let', pat, expr|None, mutable) ('expr', e, has_semi).
Expressions: ('lit',t) ('str',s) ('path',[seg..]) ('field',e,name) ('mcall',recv,name,args) ('call',f,args) ('await',e) ('try',e)
('unary',op,e) ('binary',op,l,r) ('assign',op,lhs,rhs) ('if',cond,then,else|None) ('iflet',pat,e,then,else|None)
('match',e,[(pat,guard,body)]) ('while',cond,blk) ('whilelet',pat,e,blk) ('loop',blk) ('for',pat,e,blk) ('block',stmts)
('return',e|None) ('break',) ('continue',) ('macro',name,args|None,raw) ('closure',params,body) ('tuple',[..]) ('struct',path,[(f,e)])
('index',e,i) ('cast',e,ty) ('ref',e) ('deref',e) ('range',a,b)
Patterns: ('pwild',) ('pid',name) ('ptuple',[..]) ('pts',path,[pats]) ('ppath',path) ('plit',t) ('pstruct', path)
"""
import re

TOKEN = re.compile(r'''
   (?P<ws>\s+|//[^\n]*|/\*.*?\*/)
 | (?P<str>b?"(?:[^"\\]|\\.)*")
 | (?P<chr>'(?:[^'\\]|\\.)')
 | (?P<life>'[A-Za-z_]\w*)
 | (?P<num>\d[\d_]*(?:\.\d+)?(?:[iu](?:8|16|32|64|128|size))?)
 | (?P<id>[A-Za-z_]\w*)
 | (?P<op>::|->|=>|==|!=|<=|>=|&&|\|\||\+=|-=|\*=|/=|%=|&=|\|=|\^=|\.\.=|\.\.|[-+*/%<>=!&|^.,;:(){}\[\]#?@$~])
''', re.X | re.S)


def tokenize(src):
    out, i = [], 0
    while i < len(src):
        m = TOKEN.match(src, i)
        if not m:
            raise SyntaxError('cannot tokenize at %r' % src[i:i + 30])
        i = m.end()
        k = m.lastgroup
        if k == 'ws':
            continue
        out.append((k, m.group(k)))
    return out


class ParseError(Exception):
    pass


class Parser:
    def __init__(self, toks):
        self.t, self.i = toks, 0

    def peek(self, n=0):
        j = self.i + n
        return self.t[j] if j < len(self.t) else ('eof', '')

    def at(self, v, n=0):
        return self.peek(n)[1] == v and self.peek(n)[0] in ('op', 'id')

    def eat(self, v=None):
        tok = self.peek()
        if v is not None and tok[1] != v:
            raise ParseError('expected %r, found %r at token %d (%s)' % (v, tok[1], self.i, ' '.join(x[1] for x in self.t[max(0, self.i - 6):self.i + 4])))
        self.i += 1
        return tok

    # ---- types (skipped, returned as text) ----
    def type_(self):
        start = self.i
        depth = 0
        while True:
            k, v = self.peek()
            if k == 'eof':
                break
            if v in ('<', '(', '['):
                depth += 1
            elif v in ('>', ')', ']'):
                if depth == 0:
                    break
                depth -= 1
            elif depth == 0 and v in (',', ';', '=', '{', '|') :
                break
            elif v == '->' :
                pass
            self.i += 1
        return ' '.join(x[1] for x in self.t[start:self.i])

    def generic_args(self):
        # at '<' : skip to the matching '>'
        depth = 0
        start = self.i
        while True:
            k, v = self.eat()
            if v == '<':
                depth += 1
            elif v == '>':
                depth -= 1
                if depth == 0:
                    break
            if k == 'eof':
                raise ParseError('unterminated generics')
        return ' '.join(x[1] for x in self.t[start:self.i])

    # ---- patterns ----
    def pattern(self):
        p = self.pattern1()
        while self.at('|') :
            self.eat(); q = self.pattern1(); p = ('por', p, q)
        return p

    def pattern1(self):
        k, v = self.peek()
        if v == '_' and k == 'id':
            self.eat(); return ('pwild',)
        if v == '&':
            self.eat()
            if self.at('mut'): self.eat()
            return self.pattern1()
        if v in ('ref', 'mut') and k == 'id':
            self.eat(); return self.pattern1()
        if v == '(':
            self.eat(); ps = []
            while not self.at(')'):
                ps.append(self.pattern())
                if self.at(','): self.eat()
            self.eat(')')
            return ('ptuple', ps) if len(ps) != 1 else ps[0]
        if k in ('num', 'str'):
            self.eat(); return ('plit', v)
        if k == 'id':
            path = [self.eat()[1]]
            while self.at('::'):
                self.eat(); path.append(self.eat()[1])
            if self.at('('):
                self.eat(); ps = []
                while not self.at(')'):
                    ps.append(self.pattern())
                    if self.at(','): self.eat()
                self.eat(')')
                return ('pts', path, ps)
            if self.at('{'):
                depth = 0
                while True:
                    kk, vv = self.eat()
                    if vv == '{': depth += 1
                    elif vv == '}':
                        depth -= 1
                        if depth == 0: break
                return ('pstruct', path)
            if len(path) == 1 and (path[0][0].islower() or path[0][0] == '_'):
                return ('pid', path[0])
            return ('ppath', path)
        raise ParseError('pattern: unexpected %r' % (v,))

    # ---- blocks and statements ----
    def block(self):
        self.eat('{')
        stmts = []
        while not self.at('}'):
            if self.at(';'):
                self.eat(); continue
            if self.at('#'):      # attribute: skip `#[...]`
                self.eat(); self.eat('[')
                depth = 1
                while depth:
                    kk, vv = self.eat()
                    if vv == '[': depth += 1
                    elif vv == ']': depth -= 1
                stmts.append(('attr', ' '.join(x[1] for x in self.t[self.i - 8:self.i])))
                continue
            if self.at('let'):
                self.eat()
                mut = False
                pat = self.pattern()
                if pat == ('pid', 'mut'):
                    pass
                # `let mut x` : pattern1 skipped `mut`
                ty = None
                if self.at(':'):
                    self.eat(); ty = self.type_()
                init = None
                if self.at('='):
                    self.eat(); init = self.expr()
                self.eat(';')
                stmts.append(('let', pat, init, ty))
                continue
            e = self.expr(stmt=True)
            if self.at(';'):
                self.eat(); stmts.append(('expr', e, True))
            else:
                stmts.append(('expr', e, False))
        self.eat('}')
        return ('block', stmts)

    # ---- expressions ----
    def expr(self, nostruct=False, stmt=False):
        return self.assign(nostruct, stmt)

    def assign(self, ns, stmt=False):
        l = self.range_(ns, stmt)
        k, v = self.peek()
        if k == 'op' and v in ('=', '+=', '-=', '*=', '/=', '%=', '&=', '|=', '^='):
            self.eat(); r = self.assign(ns)
            return ('assign', v, l, r)
        return l

    def range_(self, ns, stmt=False):
        if self.at('..') or self.at('..='):
            self.eat()
            if self.peek()[1] in (')', ']', ';', ',', '}'):
                return ('range', None, None)
            return ('range', None, self.or_(ns))
        l = self.or_(ns, stmt)
        if self.at('..') or self.at('..='):
            self.eat()
            if self.peek()[1] in (')', ']', ';', ',', '}', '{'):
                return ('range', l, None)
            return ('range', l, self.or_(ns))
        return l

    def or_(self, ns, stmt=False):
        l = self.and_(ns, stmt)
        while self.at('||') and not (stmt and self._blocklike(l)):
            self.eat(); l = ('binary', '||', l, self.and_(ns))
        return l

    def and_(self, ns, stmt=False):
        l = self.cmp(ns, stmt)
        while self.at('&&') and not (stmt and self._blocklike(l)):
            self.eat(); l = ('binary', '&&', l, self.cmp(ns))
        return l

    def _blocklike(self, e):
        return e[0] in ('if', 'iflet', 'match', 'while', 'whilelet', 'loop', 'for', 'block')

    def cmp(self, ns, stmt=False):
        l = self.bitor(ns, stmt)
        k, v = self.peek()
        if k == 'op' and v in ('==', '!=', '<', '<=', '>', '>=') and not (stmt and self._blocklike(l)):
            self.eat(); r = self.bitor(ns)
            return ('binary', v, l, r)
        return l

    def bitor(self, ns, stmt=False):
        l = self.bitand(ns, stmt)
        while self.at('|') and not self.at('||') and not (stmt and self._blocklike(l)):
            self.eat(); l = ('binary', '|', l, self.bitand(ns))
        return l

    def bitand(self, ns, stmt=False):
        l = self.add(ns, stmt)
        while self.at('&') and not (stmt and self._blocklike(l)):
            self.eat(); l = ('binary', '&', l, self.add(ns))
        return l

    def add(self, ns, stmt=False):
        l = self.mul(ns, stmt)
        while (self.at('+') or self.at('-')) and not (stmt and self._blocklike(l)):
            o = self.eat()[1]; l = ('binary', o, l, self.mul(ns))
        return l

    def mul(self, ns, stmt=False):
        l = self.cast(ns, stmt)
        while (self.at('*') or self.at('/') or self.at('%')) and not (stmt and self._blocklike(l)):
            o = self.eat()[1]; l = ('binary', o, l, self.cast(ns))
        return l

    def cast(self, ns, stmt=False):
        l = self.unary(ns, stmt)
        while self.at('as'):
            self.eat(); ty = self.type_(); l = ('cast', l, ty)
        return l

    def unary(self, ns, stmt=False):
        k, v = self.peek()
        if k == 'op' and v in ('!', '-'):
            self.eat(); return ('unary', v, self.unary(ns))
        if k == 'op' and v == '&':
            self.eat()
            if self.at('mut'): self.eat()
            return ('ref', self.unary(ns))
        if k == 'op' and v == '&&':
            self.eat()
            return ('ref', ('ref', self.unary(ns)))
        if k == 'op' and v == '*':
            self.eat(); return ('deref', self.unary(ns))
        return self.postfix(ns, stmt)

    def args(self, close=')'):
        out = []
        while not self.at(close):
            out.append(self.expr())
            if self.at(','): self.eat()
        self.eat(close)
        return out

    def postfix(self, ns, stmt=False):
        e = self.primary(ns)
        if stmt and self._blocklike(e) and not self.at('.') and not self.at('?'):
            return e
        while True:
            if self.at('.'):
                self.eat()
                k, v = self.eat()
                if v == 'await':
                    e = ('await', e); continue
                if k == 'num':
                    e = ('field', e, v); continue
                if self.at('::'):      # turbofish
                    self.eat(); self.generic_args()
                if self.at('('):
                    self.eat(); e = ('mcall', e, v, self.args())
                else:
                    e = ('field', e, v)
                continue
            if self.at('?'):
                self.eat(); e = ('try', e); continue
            if self.at('('):
                self.eat(); e = ('call', e, self.args()); continue
            if self.at('['):
                self.eat(); ix = self.expr(); self.eat(']'); e = ('index', e, ix); continue
            return e

    def primary(self, ns):
        k, v = self.peek()
        if k == 'num':
            self.eat(); return ('lit', re.sub(r'[iu](8|16|32|64|128|size)$', '', v).replace('_', ''))
        if k == 'str':
            self.eat(); return ('str', v)
        if k == 'chr':
            self.eat(); return ('lit', v)
        if v == '(':
            self.eat()
            if self.at(')'):
                self.eat(); return ('tuple', [])
            es = [self.expr()]
            trailing = False
            while self.at(','):
                self.eat(); trailing = True
                if self.at(')'): break
                es.append(self.expr())
            self.eat(')')
            return es[0] if len(es) == 1 and not trailing else ('tuple', es)
        if v == '[':
            self.eat(); es = []
            while not self.at(']'):
                es.append(self.expr())
                if self.at(',') or self.at(';'): self.eat()
            self.eat(']')
            return ('array', es)
        if v == '{':
            return self.block()
        if v == '|' or v == '||' or (v == 'move' and k == 'id'):
            if v == 'move': self.eat()
            params = []
            if self.at('||'):
                self.eat()
            else:
                self.eat('|')
                while not self.at('|'):
                    params.append(self.pattern1())
                    if self.at(':'):
                        self.eat(); self.type_()
                    if self.at(','): self.eat()
                self.eat('|')
            body = self.expr()
            return ('closure', params, body)
        if k != 'id':
            raise ParseError('unexpected token %r (%s)' % (v, ' '.join(x[1] for x in self.t[max(0, self.i - 6):self.i + 4])))
        if v == 'if':
            self.eat()
            if self.at('let'):
                self.eat(); pat = self.pattern(); self.eat('='); e = self.expr(nostruct=True)
                th = self.block(); el = self.else_()
                return ('iflet', pat, e, th, el)
            c = self.expr(nostruct=True); th = self.block(); el = self.else_()
            return ('if', c, th, el)
        if v == 'match':
            self.eat(); e = self.expr(nostruct=True); self.eat('{')
            arms = []
            while not self.at('}'):
                pat = self.pattern(); guard = None
                if self.at('if'):
                    self.eat(); guard = self.expr()
                self.eat('=>')
                body = self.expr(stmt=True)
                if self.at(','): self.eat()
                arms.append((pat, guard, body))
            self.eat('}')
            return ('match', e, arms)
        if v == 'while':
            self.eat()
            if self.at('let'):
                self.eat(); pat = self.pattern(); self.eat('='); e = self.expr(nostruct=True)
                return ('whilelet', pat, e, self.block())
            c = self.expr(nostruct=True)
            return ('while', c, self.block())
        if v == 'loop':
            self.eat(); return ('loop', self.block())
        if v == 'for':
            self.eat(); pat = self.pattern(); self.eat('in'); e = self.expr(nostruct=True)
            return ('for', pat, e, self.block())
        if v == 'return':
            self.eat()
            if self.peek()[1] in (';', '}', ','):
                return ('return', None)
            return ('return', self.expr())
        if v == 'break':
            self.eat(); return ('break',)
        if v == 'continue':
            self.eat(); return ('continue',)
        if v in ('async', 'unsafe'):
            self.eat()
            if self.at('move'): self.eat()
            return self.block()
        # path
        path = [self.eat()[1]]
        while self.at('::'):
            self.eat()
            if self.at('<'):
                self.generic_args(); continue
            path.append(self.eat()[1])
        if self.at('!'):      # macro
            nk, nv = self.peek(1)
            if nv in ('(', '[', '{'):
                self.eat('!')
                open_ = self.eat()[1]; close = {'(': ')', '[': ']', '{': '}'}[open_]
                start = self.i; depth = 1
                while depth:
                    kk, vv = self.eat()
                    if kk == 'eof': raise ParseError('unterminated macro')
                    if vv in ('(', '[', '{'): depth += 1
                    elif vv in (')', ']', '}'): depth -= 1
                raw = self.t[start:self.i - 1]
                args = None
                try:
                    sub = Parser(raw); args = []
                    while sub.peek()[0] != 'eof':
                        args.append(sub.expr())
                        if sub.at(','): sub.eat()
                        elif sub.peek()[0] != 'eof': raise ParseError('macro args')
                except Exception:
                    args = None
                return ('macro', '::'.join(path), args, ' '.join(x[1] for x in raw))
        if self.at('{') and not ns and path[-1][0].isupper():
            # struct literal
            self.eat('{'); fields = []
            while not self.at('}'):
                if self.at('..'):
                    self.eat(); self.expr(); continue
                fk, fn = self.eat()
                if self.at(':'):
                    self.eat(); fields.append((fn, self.expr()))
                else:
                    fields.append((fn, ('path', [fn])))
                if self.at(','): self.eat()
            self.eat('}')
            return ('struct', path, fields)
        return ('path', path)

    def else_(self):
        if self.at('else'):
            self.eat()
            if self.at('if'):
                e = self.primary(True)
                return ('block', [('expr', e, False)])
            return self.block()
        return None


def find_fn(src, name, impl=None):
    """-> (params [(name, type_text)], return type text, body block AST, line) of `fn name` (inside `impl <impl>` when given)"""
    base = 0
    text = src
    if impl:
        m = re.search(r'\bimpl\s+(?:\w+\s+for\s+)?%s\s*\{' % re.escape(impl), src)
        if not m:
            return None
        i = m.end() - 1; depth = 0; j = i
        while j < len(src):
            if src[j] == '{': depth += 1
            elif src[j] == '}':
                depth -= 1
                if depth == 0: break
            j += 1
        text = src[i:j + 1]; base = i
    m = re.search(r'\bfn\s+%s\s*(?:<[^>]*>)?\s*\(' % re.escape(name), text)
    if not m:
        return None
    # parameters
    i = m.end(); depth = 1; j = i
    while depth:
        if text[j] == '(': depth += 1
        elif text[j] == ')': depth -= 1
        j += 1
    ptxt = text[i:j - 1]
    params = []
    d = 0; cur = ''
    for ch in ptxt:
        if ch in '<([': d += 1
        elif ch in '>)]': d -= 1
        if ch == ',' and d == 0:
            params.append(cur); cur = ''
        else:
            cur += ch
    if cur.strip(): params.append(cur)
    ps = []
    for p in params:
        p = p.strip()
        if re.match(r'^&?\s*(mut\s+)?self$', p): continue
        nm, _, ty = p.partition(':')
        ps.append((re.sub(r'^mut\s+', '', nm.strip()), ty.strip()))
    k = text.index('{', j)
    ret = text[j:k].strip()
    ret = re.sub(r'^->\s*', '', ret)
    depth = 0; e = k
    while e < len(text):
        if text[e] == '{': depth += 1
        elif text[e] == '}':
            depth -= 1
            if depth == 0: break
        e += 1
    body_src = text[k:e + 1]
    p = Parser(tokenize(body_src))
    body = p.block()
    return ps, ret, body, src[:base + k].count('\n') + 1
