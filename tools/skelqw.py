#!/usr/bin/env python3
"""Statement-skeleton translator, fourth part: the acknowledgement loop of mempool/src/quorum_waiter.rs (QuorumWaiter::run)

    let mut total_stake = self.stake;
    while let Some(stake) = wait_for_quorum.next().await { total_stake += stake; if total_stake >= threshold { send(batch); break; } }

-> coq/GenQW.v: gen_qw_init (the initial total) and gen_qw_body (one turn of the loop: new total, and whether the batch was sent and the
loop left).  coq/Tie_qw_loop.v proves the loop over them equal to the model's `qw` for every stake function, threshold and ack order.
usage: skelqw.py REPO OUT.v STATUS.json
"""
import json, os, re, sys
sys.path.insert(0, os.path.dirname(os.path.abspath(__file__)))
import rustparse as R

REPO = sys.argv[1] if len(sys.argv) > 1 else '/repo'
OUT = sys.argv[2] if len(sys.argv) > 2 else '/verif/coq/GenQW.v'
STATUS = sys.argv[3] if len(sys.argv) > 3 else None
FILE = 'mempool/src/quorum_waiter.rs'


class Untranslatable(Exception):
    pass


def is_path(e, *names):
    return e[0] == 'path' and list(e[1]) == list(names)


def strip(e):
    while e[0] in ('paren', 'ref') or (e[0] == 'unary' and e[1] == '*'):
        e = e[-1] if e[0] == 'unary' else e[1]
    return e


def pure(e, env):
    e = strip(e)
    if e[0] == 'path' and len(e[1]) == 1 and e[1][0] in env:
        return env[e[1][0]]
    if e[0] == 'field' and is_path(e[1], 'self') and e[2] == 'stake':
        return 'own'
    if e[0] == 'mcall' and e[2] == 'quorum_threshold' and not e[3]:
        return 'quorum'
    if e[0] == 'binary' and e[1] == '+':
        return '(%s + %s)' % (pure(e[2], env), pure(e[3], env))
    if e[0] == 'lit' and re.fullmatch(r'\d+', e[1]):
        return e[1]
    raise Untranslatable('expression %r' % (e,))


def cond(e, env):
    e = strip(e)
    if e[0] == 'binary' and e[1] in ('>=', '>', '<=', '<', '=='):
        a, b = pure(e[2], env), pure(e[3], env)
        return {'>=': '(%s <=? %s)' % (b, a), '>': '(%s <? %s)' % (b, a), '<=': '(%s <=? %s)' % (a, b), '<': '(%s <? %s)' % (a, b), '==': '(%s =? %s)' % (a, b)}[e[1]]
    raise Untranslatable('condition %r' % (e,))


def has_send(e):
    s = repr(e)
    return "'tx_batch'" in s and "'send'" in s


def body(ss, env, acc):
    """statements of one turn -> term of type N * bool (total after the turn, sent-and-left)"""
    if not ss:
        return '(%s, false)' % env[acc]
    st, rest = ss[0], ss[1:]
    if st[0] == 'let' and st[1][0] == 'pid':
        env2 = dict(env); env2[st[1][1]] = pure(st[2], env)
        return body(rest, env2, acc)
    if st[0] == 'expr':
        e = st[1]
        if e[0] == 'assign' and e[1] in ('=', '+='):
            op, lhs, rhs = e[1], e[2], e[3]
            if not (lhs[0] == 'path' and lhs[1] == [acc]):
                raise Untranslatable('assignment to %r' % (lhs,))
            v = pure(rhs, env)
            env2 = dict(env)
            env2[acc] = '(%s + %s)' % (env[acc], v) if op.startswith('+') else v
            return body(rest, env2, acc)
        if e[0] == 'if':
            c, thenb, elseb = e[1], e[2], e[3] if len(e) > 3 else None
            ts = thenb[1]
            sends = [s for s in ts if has_send(s)]
            brk = [s for s in ts if s[0] == 'expr' and s[1][0] == 'break']
            if elseb is None and len(sends) == 1 and len(brk) == 1 and len(ts) == 2 and ts[1] is brk[0]:
                return '(if %s then (%s, true) else %s)' % (cond(c, env), env[acc], body(rest, env, acc))
            raise Untranslatable('`if` inside the acknowledgement loop is not `{ tx_batch.send(batch)..; break; }`')
    raise Untranslatable('statement %r' % (st,))


def main():
    src = open(os.path.join(REPO, FILE)).read()
    status = {'functions': [], 'untied': []}
    line = 0
    try:
        m = re.search(r'let\s+mut\s+(\w+)\s*=\s*([^;]+);\s*while\s+let\s+Some\((\w+)\)\s*=\s*(\w+)\.next\(\)\.await\s*\{', src)
        if not m:
            raise Untranslatable('acknowledgement loop not found')
        line = src[:m.start()].count('\n') + 1
        acc, init_src, stv, q = m.group(1), m.group(2), m.group(3), m.group(4)
        if not re.search(r'%s\s*:\s*FuturesUnordered' % q, src):
            raise Untranslatable('%s is not the FuturesUnordered of waiters' % q)
        i = m.end() - 1; d = 0; j = i
        while j < len(src):
            if src[j] == '{': d += 1
            elif src[j] == '}':
                d -= 1
                if d == 0: break
            j += 1
        blk = R.Parser(R.tokenize(src[i:j + 1])).block()
        init = pure(R.Parser(R.tokenize('{ ' + init_src + ' }')).block()[1][0][1], {})
        b = body(blk[1], {acc: 'total', stv: 'stake'}, acc)
        text = ('Definition gen_qw_init (own : N) : N := %s.\n'
                'Definition gen_qw_body (quorum total stake : N) : N * bool :=\n  %s.\n' % (init, b))
        ok = True
    except Exception as ex:
        ok = False
        status['untied'].append(['gen_qw_loop', '%s: %s' % (FILE, ex)])
        text = ('Definition gen_qw_init (own : N) : N := own.\n'
                'Definition gen_qw_body (quorum total stake : N) : N * bool :=\n  (if (quorum <=? (total + stake)) then ((total + stake), true) else ((total + stake), false)).\n')
    status['functions'].append({'name': 'gen_qw_loop', 'file': FILE, 'fn': 'QuorumWaiter::run (acknowledgement loop)', 'line': line, 'ok': ok,
                                **({} if ok else {'untied': status['untied'][-1][1]})})
    new = ('(* GENERATED by tools/skelqw.py from %s (line %s) - do not edit. *)\nFrom Coq Require Import List NArith Bool.\nOpen Scope N_scope.\n\n' % (FILE, line)) + text
    old = open(OUT).read() if os.path.exists(OUT) else None
    if new != old:
        open(OUT, 'w').write(new)
    if STATUS:
        json.dump(status, open(STATUS, 'w'), indent=1)
    print('skelqw: %s' % ('ok' if ok else 'UNTIED ' + status['untied'][-1][1]))


if __name__ == '__main__':
    main()
