#!/usr/bin/env python3
"""Driver: ./check <ID> [quick|thorough] [--replay FILE]

Pipeline (DESIGN.md 2.6): regenerate Guards.v from /repo -> make the Coq files the property needs ->
assumption/forbidden-token audit -> build the harness against /repo's working tree -> run the property's
correspondence scenarios on the real code -> evaluate the model and the monitors on the same inputs inside
Coq -> decide -> write evidence/<ID>.json.  Exit 0 = held; exit 1 + "VIOLATION property=<id> replay=<path>".
"""
import fcntl, glob, json, os, re, shutil, subprocess, sys, time

VERIF = os.path.dirname(os.path.dirname(os.path.abspath(__file__)))
REPO = os.environ.get('VERIF_REPO', '/repo')
COQ = os.path.join(VERIF, 'coq')
BUILD = os.path.join(VERIF, '.build')
HARNESS = os.path.join(VERIF, 'harness')
TARGET = os.path.join(BUILD, 'target')
sys.path.insert(0, os.path.join(VERIF, 'tools'))
from props import PROPS  # noqa: E402

ALLOWED_ASSUMPTIONS = set()   # names of stdlib axioms a theorem may depend on (none so far)
FORBIDDEN = re.compile(r'\b(Admitted|admit|Axiom|Axioms|Parameter|Parameters|Conjecture|Conjectures|Hypothesis|Hypotheses|Variable|Variables|Abort)\b|Unset\s+Guard|Unset\s+Positivity|Unset\s+Universe|bypass_check|type-in-type|impredicative-set|Admit Obligations')


def sh(cmd, timeout, cwd=None, env=None):
    e = dict(os.environ)
    e.update({'CARGO_NET_OFFLINE': 'true'})
    if env:
        e.update(env)
    t0 = time.time()
    try:
        p = subprocess.run(cmd, shell=isinstance(cmd, str), cwd=cwd, env=e, timeout=timeout,
                           stdout=subprocess.PIPE, stderr=subprocess.STDOUT, text=True, errors='replace')
        return p.returncode, p.stdout, time.time() - t0
    except subprocess.TimeoutExpired as ex:
        out = ex.stdout if isinstance(ex.stdout, str) else (ex.stdout or b'').decode(errors='replace')
        return 124, out + '\n[timeout after %ss]' % timeout, time.time() - t0


class Lock:
    def __enter__(self):
        os.makedirs(BUILD, exist_ok=True)
        self.f = open(os.path.join(BUILD, 'lock'), 'w')
        fcntl.flock(self.f, fcntl.LOCK_EX)
        return self

    def __exit__(self, *a):
        fcntl.flock(self.f, fcntl.LOCK_UN)
        self.f.close()


# ----------------------------------------------------------------------------------------- regen + coq
def regen():
    st = os.path.join(BUILD, 'regen.json')
    rc, out, _ = sh([sys.executable, os.path.join(VERIF, 'tools', 'regen.py'), REPO, os.path.join(COQ, 'Guards.v'), st], 60)
    if rc != 0:
        return {'error': out, 'sites': [], 'untied': [['regen.py', out[-400:]]]}
    rg = json.load(open(st))
    # the statement skeletons of core.rs / synchronizer.rs (tools/skel.py -> coq/GenCore.v; tied to the model by coq/Tie_*.v)
    st2 = os.path.join(BUILD, 'skel.json')
    rc, out, _ = sh([sys.executable, os.path.join(VERIF, 'tools', 'skel.py'), REPO, os.path.join(COQ, 'GenCore.v'), st2], 60)
    if rc != 0:
        rg['untied'] = rg.get('untied', []) + [['skel.py', out[-400:]]]
        rg['skeleton'] = []
    else:
        sk = json.load(open(st2))
        rg['skeleton'] = sk['functions']
        rg['untied'] = rg.get('untied', []) + sk['untied']
    # ... and of the verifiers of messages.rs / the makers and entry points of aggregator.rs (tools/skelagg.py -> coq/GenAgg.v)
    st3 = os.path.join(BUILD, 'skelagg.json')
    rc, out, _ = sh([sys.executable, os.path.join(VERIF, 'tools', 'skelagg.py'), REPO, os.path.join(COQ, 'GenAgg.v'), st3], 60)
    if rc != 0:
        rg['untied'] = rg.get('untied', []) + [['skelagg.py', out[-400:]]]
    else:
        sk = json.load(open(st3))
        rg['skeleton'] = rg.get('skeleton', []) + sk['functions']
        rg['untied'] = rg.get('untied', []) + sk['untied']
    # ... and of the command loop of the store task (tools/skelstore.py -> coq/GenStore.v; refinement proved in coq/Tie_store_step.v)
    st4 = os.path.join(BUILD, 'skelstore.json')
    rc, out, _ = sh([sys.executable, os.path.join(VERIF, 'tools', 'skelstore.py'), REPO, os.path.join(COQ, 'GenStore.v'), st4], 60)
    if rc != 0:
        rg['untied'] = rg.get('untied', []) + [['skelstore.py', out[-400:]]]
    else:
        sk = json.load(open(st4))
        rg['skeleton'] = rg.get('skeleton', []) + sk['functions']
        rg['untied'] = rg.get('untied', []) + sk['untied']
    # ... and of the acknowledgement loop of the quorum waiter (tools/skelqw.py -> coq/GenQW.v; coq/Tie_qw_loop.v)
    st5 = os.path.join(BUILD, 'skelqw.json')
    rc, out, _ = sh([sys.executable, os.path.join(VERIF, 'tools', 'skelqw.py'), REPO, os.path.join(COQ, 'GenQW.v'), st5], 60)
    if rc != 0:
        rg['untied'] = rg.get('untied', []) + [['skelqw.py', out[-400:]]]
    else:
        sk = json.load(open(st5))
        rg['skeleton'] = rg.get('skeleton', []) + sk['functions']
        rg['untied'] = rg.get('untied', []) + sk['untied']
    # ... and of the batch maker: the select! arms of BatchMaker::run and BatchMaker::seal (tools/skelbm.py -> coq/GenBM.v; coq/Tie_bm_step.v)
    st6 = os.path.join(BUILD, 'skelbm.json')
    rc, out, _ = sh([sys.executable, os.path.join(VERIF, 'tools', 'skelbm.py'), REPO, os.path.join(COQ, 'GenBM.v'), st6], 60)
    if rc != 0:
        rg['untied'] = rg.get('untied', []) + [['skelbm.py', out[-400:]]]
    else:
        sk = json.load(open(st6))
        rg['skeleton'] = rg.get('skeleton', []) + sk['functions']
        rg['untied'] = rg.get('untied', []) + sk['untied']
    return rg


def coq_makefile():
    mk = os.path.join(COQ, 'Makefile')
    cp = os.path.join(COQ, '_CoqProject')
    if not os.path.exists(mk) or os.path.getmtime(mk) < os.path.getmtime(cp):
        sh('coq_makefile -f _CoqProject -o Makefile', 60, cwd=COQ)


def enclosing_lemma(path, line):
    try:
        lines = open(path).read().split('\n')
    except OSError:
        return None
    for i in range(min(line, len(lines)) - 1, -1, -1):
        m = re.match(r'\s*(?:Local\s+|Global\s+)?(Lemma|Theorem|Corollary|Example|Fact|Definition|Fixpoint|Instance|Check)\s+([A-Za-z_0-9\']+)', lines[i])
        if m:
            return m.group(2)
    return None


def coq_build(targets, timeout):
    """make the given .vo targets; returns (ok, log, failures[list of {file,line,lemma,msg}])"""
    coq_makefile()
    rc, out, dt = sh(['make', '-j16', '-k'] + targets, timeout, cwd=COQ)
    fails = []
    for m in re.finditer(r'File "\./([^"]+)", line (\d+), characters [\d-]+:\n(Error:.*?)(?=\n\n|\nmake|\Z)', out, re.S):
        f, ln, msg = m.group(1), int(m.group(2)), m.group(3)
        fails.append({'file': f, 'line': ln, 'lemma': enclosing_lemma(os.path.join(COQ, f), ln), 'msg': ' '.join(msg.split())[:300]})
    if rc != 0 and not fails:
        fails.append({'file': '?', 'line': 0, 'lemma': None, 'msg': out[-600:]})
    return rc == 0, out, fails, dt


def props_audit(pid, timeout):
    """Recompile Props/<ID>.v capturing its output; returns (obligations, discharged, problems, names)."""
    # first bring the file and every dependency up to date with make (their own output, e.g. Print Assumptions lines inside proof
    # files, must not be mistaken for the output of the Props file), then compile the Props file alone once more with a direct coqc
    # (output .vo discarded) and capture what it prints
    ok, out, fails, dt = coq_build(['Props/%s.vo' % pid], timeout)
    if ok:
        os.makedirs(os.path.join(BUILD, 'audit'), exist_ok=True)
        scratch = os.path.join(BUILD, 'audit', '%s.vo' % pid)
        rc, out, _ = sh(['coqc', '-noglob', '-Q', COQ, 'HS', '-o', scratch, os.path.join(COQ, 'Props', pid + '.v')], timeout, cwd=COQ)
        if rc != 0:
            ok = False
            fails = [{'file': 'Props/%s.v' % pid, 'line': 0, 'lemma': None, 'msg': ' '.join(out.split())[-300:]}]
    src = open(os.path.join(COQ, 'Props', pid + '.v')).read()
    names = re.findall(r'^Print Assumptions ([A-Za-z_0-9\']+)\.', src, re.M)
    checks = re.findall(r'^Check @?([A-Za-z_0-9\']+)\s*:', src, re.M)
    problems = []
    for n in names:
        if n not in checks:
            problems.append('theorem %s has Print Assumptions but no pinned Check statement' % n)
    if not ok:
        return len(names), 0, ['Props/%s.v does not compile: %s' % (pid, f['msg']) for f in fails] or ['Props does not compile'], names, fails
    # Each "Print Assumptions" prints either "Closed under the global context" or "Axioms:\n name : type ..."
    blocks = re.split(r'(?=Closed under the global context|Axioms:)', out)
    results = [b for b in blocks if b.startswith('Closed under') or b.startswith('Axioms:')]
    discharged = 0
    if len(results) != len(names):
        problems.append('expected %d Print Assumptions results, saw %d' % (len(names), len(results)))
    for n, b in zip(names, results):
        if b.startswith('Closed under'):
            discharged += 1
        else:
            axs = re.findall(r'^([A-Za-z_][A-Za-z_0-9\.\']*)\s*:', b, re.M)
            bad = [a for a in axs if a not in ALLOWED_ASSUMPTIONS]
            if bad:
                problems.append('theorem %s depends on axioms %s' % (n, bad))
            else:
                discharged += 1
    return len(names), discharged, problems, names, []


def forbidden_audit():
    bad = []
    # the development = the files listed in _CoqProject (work-in-progress files that are not listed are not part of any check)
    listed = [l.strip() for l in open(os.path.join(COQ, '_CoqProject')).read().split('\n') if l.strip().endswith('.v')]
    for f in sorted(os.path.join(COQ, l) for l in listed):
        if not os.path.exists(f):
            bad.append('%s: listed in _CoqProject but missing' % os.path.relpath(f, COQ))
            continue
        txt = open(f).read()
        txt = re.sub(r'\(\*.*?\*\)', lambda m: ' ' * len(m.group(0)) if '\n' not in m.group(0) else re.sub(r'[^\n]', ' ', m.group(0)), txt, flags=re.S)
        in_section = 0
        for i, line in enumerate(txt.split('\n'), 1):
            if re.match(r'\s*Section\s', line):
                in_section += 1
            if re.match(r'\s*End\s', line) and in_section:
                in_section -= 1
            for m in FORBIDDEN.finditer(line):
                w = m.group(0)
                if w.split()[0] in ('Variable', 'Variables', 'Hypothesis', 'Hypotheses') and in_section:
                    continue  # section-local: becomes a visible premise of the closed theorem
                bad.append('%s:%d: %s' % (os.path.relpath(f, COQ), i, w))
    return bad


# ------------------------------------------------------------------------------------------- harness
def harness_build(bins, features, timeout):
    cmd = ['cargo', 'build', '--offline'] + sum([['--bin', b] for b in bins], [])
    tdir = TARGET
    if features:
        cmd += ['--features', features]
    lock = os.path.join(HARNESS, 'Cargo.lock')
    rl = os.path.join(REPO, 'Cargo.lock')
    if not os.path.exists(lock) and os.path.exists(rl):
        shutil.copy(rl, lock)
    rc, out, dt = sh(cmd, timeout, cwd=HARNESS, env={'CARGO_TARGET_DIR': tdir})
    if rc == 0 and features:
        # the feature build overwrites target/debug/<bin>: keep it under its own name (both dependency sets stay cached)
        for b in bins:
            shutil.copy(os.path.join(tdir, 'debug', b), os.path.join(tdir, 'debug', '%s-%s' % (b, features)))
    return rc == 0, out, dt


def parse_verdicts(out):
    """Eval vm_compute in (VERDICT, k, list) prints `= (424242, k, [a; b; ...])` possibly wrapped."""
    res = {}
    flat = ' '.join(out.split())
    for m in re.finditer(r'= \(424242, (\d+), \[([0-9; ]*)\]\)', flat):
        res[int(m.group(1))] = [int(x) for x in m.group(2).replace(' ', '').split(';') if x != '']
    return res


def run_cases_file(vfile, timeout):
    rc, out, dt = sh(['coqc', '-noglob', '-Q', COQ, 'HS', vfile], timeout, cwd=os.path.dirname(vfile))
    return rc, out, dt


def evaluate_outdir(run, outdir, r):
    """evaluate the model on every cases file of outdir (16 coqc in parallel) and classify each case into r"""
    metas = sorted(glob.glob(os.path.join(outdir, 'meta_%s*.json' % run.get('emit', run['mode']))))
    if not metas:
        r['errors'].append('harness wrote no meta file')
        return
    import concurrent.futures as cf
    jobs = []
    with cf.ThreadPoolExecutor(max_workers=16) as ex:
        for mf in metas:
            vf = mf.replace('meta_', 'cases_').replace('.json', '.v')
            jobs.append((mf, vf, ex.submit(run_cases_file, vf, run.get('coq_timeout', 600))))
    t_coq = 0
    for mf, vf, fut in jobs:
        meta = json.load(open(mf))
        rc, cout, dt = fut.result()
        t_coq += dt
        if rc != 0:
            r['errors'].append('coqc %s failed: %s' % (os.path.basename(vf), cout[-800:]))
            continue
        verd = parse_verdicts(cout)
        for k, v in meta.get('stats', {}).items():
            r['stats'][k] = r['stats'].get(k, 0) + v
        for c in meta['cases']:
            k = c['case']
            if c.get('inconclusive'):
                # the harness could not complete the scenario (a time-out on real sockets): counted, never a disagreement by itself
                r['inconclusive'] = r.get('inconclusive', 0) + 1
                continue
            r['cases'] += 1
            v = verd.get(k)
            c['_file'] = vf
            if v is None:
                r['errors'].append('no verdict for case %d in %s' % (k, os.path.basename(vf)))
                continue
            c['_verdict'] = v
            for cname, ci in run.get('counters', {}).items():
                if ci < len(v):
                    r['stats'][cname] = r['stats'].get(cname, 0) + v[ci]
            if 'layout' in run:       # per-case layout: (indices compared with the model, indices of monitors)
                ai, mi = run['layout'](c, v)
            else:
                ai, mi = run['agree'], run.get('monitors', [])
            agree_flags = [v[i] for i in ai if i < len(v)]
            mon_flags = [v[i] for i in mi if i < len(v)]
            if len(v) <= max(list(ai) + list(mi) + [0]):
                r['errors'].append('short verdict for case %d' % k)
            if all(x == 1 for x in agree_flags):
                r['agree'] += 1
            else:
                r['disagree'].append(c)
            if not all(x == 1 for x in mon_flags):
                r['monitor_fail'].append(c)
            if len(r['samples']) < 3:
                r['samples'].append({kk: vv for kk, vv in c.items() if not kk.startswith('_')})
    r['coq_s'] = round(r.get('coq_s', 0) + t_coq, 2)


def correspondence(pid, run, tier, seed, outdir, boost=1):
    """Run one harness scenario set and evaluate the model on it. Returns a dict."""
    name = run['name']
    cases = run.get(tier, run.get('quick', 50)) * boost
    bin_ = run['bin']
    exe = os.path.join(TARGET, 'debug', bin_ + ('-' + run['features'] if run.get('features') else ''))
    cmd = [exe, run['mode'], '--seed', str(seed), '--cases', str(cases), '--out', outdir] + run.get('args', [])
    if boost > 1:
        cmd += ['--boost', str(boost)]
    r = {'name': name, 'priority': run.get('priority', 5), 'cmd': ' '.join(cmd), 'cases': 0, 'agree': 0, 'disagree': [], 'monitor_fail': [], 'stats': {}, 'samples': [], 'errors': []}
    rc, out, dt = sh(cmd, run.get('timeout', 600), env={'RUST_BACKTRACE': '0'})
    if rc == 124:
        # a time-out may be machine load rather than the code under test: one retry of the SAME cases with three times the budget
        # (a genuine hang times out again and is reported)
        r['retried_after_timeout'] = True
        rc, out, dt2 = sh(cmd, 3 * run.get('timeout', 600), env={'RUST_BACKTRACE': '0'})
        dt += dt2
    r['harness_s'] = round(dt, 2)
    if rc != 0:
        r['errors'].append('harness exit %d: %s' % (rc, out[-800:]))
        return r
    evaluate_outdir(run, outdir, r)
    # Harnesses that run on REAL time and sockets (run['realtime']): a failing case is run again, alone, up to twice; it counts only if it
    # fails every time. The scenarios are deterministic functions of (seed, case), so a failure caused by the code under test repeats,
    # one caused by scheduling delays on a loaded machine does not. Cases carrying a known finding are not re-run.
    if run.get('realtime'):
        known = load_known().get('findings', [])
        failing = {}
        for c in r['disagree'] + r['monitor_fail']:
            if not any(finding_matches(f, pid, c) for f in known):
                failing[c['case']] = c
        recovered = []
        for k in sorted(failing)[:6]:
            ok_once = False
            for attempt in (1, 2):
                od = os.path.join(outdir, 'rerun_%d_%d' % (k, attempt))
                os.makedirs(od, exist_ok=True)
                c2 = [exe, run['mode'], '--seed', str(seed), '--cases', str(cases), '--out', od, '--only', str(k)] + run.get('args', [])
                rc2, _, _ = sh(c2, run.get('timeout', 600), env={'RUST_BACKTRACE': '0'})
                if rc2 != 0:
                    continue
                r2 = {'cases': 0, 'agree': 0, 'disagree': [], 'monitor_fail': [], 'stats': {}, 'samples': [], 'errors': []}
                evaluate_outdir(run, od, r2)
                if r2['cases'] == 1 and not r2['errors'] and not r2['disagree'] and not r2['monitor_fail']:
                    ok_once = True
                    break
            if ok_once:
                recovered.append(k)
        if recovered:
            r['not_reproduced_on_rerun'] = recovered
            n_dis = len(r['disagree'])
            r['disagree'] = [c for c in r['disagree'] if c['case'] not in recovered]
            r['agree'] += n_dis - len(r['disagree'])
            r['monitor_fail'] = [c for c in r['monitor_fail'] if c['case'] not in recovered]
    inc = r.get('inconclusive', 0)
    if inc and inc * 4 > (r['cases'] + inc):
        r['errors'].append('%d of %d cases were inconclusive (time-outs): the correspondence could not be evaluated' % (inc, r['cases'] + inc))
    return r


# ------------------------------------------------------------------------------------------ findings
def load_known():
    p = os.path.join(VERIF, 'known_findings.json')
    if not os.path.exists(p):
        return {'findings': [], 'fixed': []}
    return json.load(open(p))


def finding_matches(f, pid, case):
    """A known finding is identified by property + a signature the case must carry."""
    if f['property'] != pid:
        return False
    sig = f.get('match', {})
    for k, v in sig.items():
        if case.get(k) != v:
            return False
    return True


# ---------------------------------------------------------------------------------------------- main
def write_replay(pid, seed, tier, kind, payload):
    d = os.path.join(VERIF, 'replays')
    os.makedirs(d, exist_ok=True)
    p = os.path.join(d, '%s_%s_%d.json' % (pid, kind, seed))
    payload = dict(payload)
    payload.update({'property': pid, 'seed': seed, 'tier': tier, 'kind': kind,
                    'replay_cmd': './check %s --replay %s' % (pid, p)})
    json.dump(payload, open(p, 'w'), indent=1, default=str)
    return p


def main():
    args = sys.argv[1:]
    if not args:
        print(__doc__)
        return 2
    pid = args[0]
    tier = os.environ.get('VERIF_TIER') or 'quick'
    replay = None
    i = 1
    while i < len(args):
        if args[i] in ('quick', 'thorough'):
            tier = args[i]
        elif args[i] == '--replay':
            replay = args[i + 1]
            i += 1
        i += 1
    seed = int(os.environ.get('VERIF_SEED', '1') or 1)
    if pid not in PROPS:
        print('unknown property', pid)
        return 2
    P = PROPS[pid]
    t0 = time.time()
    with Lock():
        return run_check(pid, P, tier, seed, replay, t0)


# expression sites of regen.py -> the function whose whole body the skeleton translators regenerate (tools/skel.py, tools/skelagg.py)
SITE_FN = {
    'g_safety_rule_1': 'make_vote', 'g_safety_rule_2': 'make_vote', 'g_can_extend': 'make_vote', 'g_can_extend_hq': 'make_vote',
    'g_commit_skip': 'commit', 'g_commit_walk': 'commit', 'g_commit_stop': 'commit', 'g_commit_anc_front': 'commit', 'g_commit_head_front': 'commit',
    'g_commit_pop_back': 'commit', 'g_commit_head_first': 'commit',
    'g_update_high_qc': 'update_high_qc', 'g_vote_stale': 'handle_vote', 'g_timeout_stale': 'handle_timeout', 'g_tc_stale': 'handle_tc',
    'g_advance_guard': 'advance_round', 'g_advance_next': 'advance_round', 'g_two_chain': 'process_block', 'g_round_gate': 'process_block',
    'g_block_stake': 'block_verify', 'g_vote_stake': 'vote_verify', 'g_timeout_stake': 'timeout_verify',
    'g_qc_entry_stake': 'qc_verify', 'g_qc_weight': 'qc_verify', 'g_tc_entry_stake': 'tc_verify', 'g_tc_weight': 'tc_verify',
    'g_qw_threshold': 'qw_loop', 'g_batch_full': 'bm_step', 'g_timer_seals': 'bm_step',
    'g_qcm_threshold': 'qcmaker_append', 'g_qcm_reset': 'qcmaker_append', 'g_tcm_threshold': 'tcmaker_append', 'g_tcm_reset': 'tcmaker_append',
}


def run_check(pid, P, tier, seed, replay, t0):
    os.makedirs(os.path.join(VERIF, 'evidence'), exist_ok=True)
    violations = []      # (kind, message, replay-payload, has_input)
    notes = []
    # 1. regenerate
    rg = regen()
    untied = rg.get('untied', [])
    changed = [s['name'] for s in rg.get('sites', []) if s.get('changed')]
    if untied:
        notes.append('untied sites (fell back to committed definition): %s' % untied)
    # 2./3. proofs
    ties = ['Tie_' + f for f in P.get('tie', [])]
    ok, log, fails, dt_make = coq_build(P.get('vo', []) + ['Props/%s.vo' % pid], P.get('coq_timeout', 1500))
    # the tie lemmas of the regenerated skeletons this property depends on (a failing one must not mask the others: -k)
    if ties:
        coq_build(['Props/%s.vo' % t for t in ties], P.get('coq_timeout', 1500))
    obligations, discharged, problems, names, pf = props_audit(pid, P.get('coq_timeout', 1500))
    # further pinned-statement files this property relies on (e.g. the monitor-soundness theorems)
    for extra in P.get('extra_props', []) + ties:
        o2, d2, p2, n2, pf2 = props_audit(extra, P.get('coq_timeout', 1500))
        obligations += o2; discharged += d2; problems += p2; names += ['%s.%s' % (extra, n) for n in n2]; pf += pf2
    # An expression site that regen.py no longer recognises keeps its committed definition.  When the WHOLE function around it is regenerated
    # by the skeleton translators and its tie theorem still checks (gen_f, read off the current source, equals the model function that calls
    # that committed definition -- for every input), the committed definition is still what the code says: the site is tied by theorem.
    covered = []
    for u in list(untied):
        fn = SITE_FN.get(u[0])
        if fn and ('gen_' + fn) not in [x[0] for x in untied]:
            okc, _, _, _ = coq_build(['Props/Tie_%s.vo' % fn], P.get('coq_timeout', 1500))
            if okc:
                covered.append([u[0], u[1], 'tied by theorem Tie_%s' % fn])
    if covered:
        untied = [u for u in untied if u[0] not in [c[0] for c in covered]]
        notes.append('sites not recognised by regen.py but tied by the tie theorem of the enclosing function: %s' % covered)
    supporting = count_supporting(pid)
    bad_tokens = forbidden_audit()
    proof_ok = ok and not problems and not bad_tokens and discharged == obligations
    if not proof_ok:
        why = []
        for f in fails + pf:
            why.append('%s:%s %s: %s' % (f['file'], f['line'], f.get('lemma'), f['msg']))
        why += problems + bad_tokens
        violations.append(('proof', 'proof obligations no longer check: ' + ' | '.join(dict.fromkeys(why)), {'broken': fails + pf, 'problems': problems, 'forbidden_tokens': bad_tokens, 'regenerated_sites_changed': changed}, False))
    # 3a. thorough tier: the independent checker re-checks the compiled library of this property and reports its axioms
    if tier == 'thorough' and ok and os.environ.get('VERIF_NO_COQCHK') is None:
        rc, cout, cdt = sh(['coqchk', '-silent', '-o', '-Q', COQ, 'HS', 'HS.Props.%s' % pid], 3000, cwd=COQ)
        m = re.search(r'\* Axioms:\s*(.*?)\n\s*\n', cout, re.S)
        axioms = ' '.join(m.group(1).split()) if m else '?'
        bad = []
        for key in ('type-in-type', 'unsafe (co)fixpoints', 'positivity is assumed'):
            mm = re.search(re.escape(key) + r':\s*(.*?)\n', cout)
            if not mm or mm.group(1).strip() != '<none>':
                bad.append(key)
        notes.append('coqchk: axioms=%s (%.0fs)' % (axioms, cdt))
        if rc != 0 or axioms != '<none>' or bad:
            violations.append(('proof', 'coqchk does not confirm the library: rc=%s axioms=%s %s' % (rc, axioms, bad), {'coqchk': cout[-1500:]}, False))
    # 3b. panic inventory (C15): every panic-capable operation of the current source must be classified in panic_inventory.json
    if P.get('inventory'):
        known_sites = json.load(open(os.path.join(VERIF, 'panic_inventory.json')))['sites']
        cur = rg.get('panic_inventory', {})
        # a site is identified by file + kind + normalised statement text: moving it into a helper function of the same file, binding
        # the result to a `let`, or dropping a borrow does not make it new (the committed keys hold at most 70 characters of the
        # statement, so a committed text that is a prefix of the current one - or the reverse - of at least 30 characters is the same site)
        def ft(k):
            a = k.split('::', 2)
            if len(a) != 3:
                return (k, '', '')
            m = re.match(r'^(.*?) in `(.*)`$', a[2])
            kind, txt = (m.group(1), m.group(2)) if m else (a[2], '')
            txt = re.sub(r'^\s*let\s+(mut\s+)?\w+\s*(:[^=]*)?=\s*', '', txt)
            txt = re.sub(r'[&\s;]', '', txt)
            return (a[0], kind, txt)
        known_ft = [ft(k) for k in known_sites]
        def is_known(k):
            if k in known_sites:
                return True
            f, kind, txt = ft(k)
            for f2, kind2, txt2 in known_ft:
                if f == f2 and kind == kind2 and (txt == txt2 or (min(len(txt), len(txt2)) >= 30 and (txt.startswith(txt2) or txt2.startswith(txt)))):
                    return True
            return False
        new_sites = sorted(k for k in cur if not is_known(k))
        if new_sites:
            violations.append(('inventory', 'panic-capable operations not covered by the C15 model (not in panic_inventory.json): ' + '; '.join(new_sites[:8]), {'new_sites': new_sites}, False))
        notes.append('panic inventory: %d sites in the source, %d classified, %d new' % (len(cur), len(known_sites), len(new_sites)))
    # 4. correspondence
    corr = []
    outdir = os.path.join(BUILD, 'cases', pid)
    shutil.rmtree(outdir, ignore_errors=True)
    os.makedirs(outdir, exist_ok=True)
    runs = P.get('corr', [])
    if replay:
        rp = json.load(open(replay))
        runs = [dict(r, args=r.get('args', []) + (['--only', str(rp['case']['case'])] if 'case' in rp and 'case' in rp.get('case', {}) else [])) for r in runs if r['name'] == rp.get('run', r['name'])]
        seed = rp.get('seed', seed)
    bins = sorted(set(r['bin'] for r in runs))
    hb_ok, hb_log, hb_dt = (True, '', 0)
    # anchors: drift of a modelled function since the models were last validated does not fail anything, it raises the budget
    drift = []
    try:
        committed = json.load(open(os.path.join(VERIF, 'anchors.json')))['anchors']
        cur = rg.get('anchors', {})
        pref = P.get('anchors', [])
        drift = sorted(k for k in set(cur) | set(committed) if cur.get(k) != committed.get(k) and any(k.startswith(x) for x in pref))
    except Exception as ex:   # noqa
        notes.append('anchors not evaluated: %s' % ex)
    if drift:
        notes.append('anchor drift (budget raised): %s' % drift[:12])
    # anything that broke or drifted => boosted search budget
    boost = 1 if (proof_ok and not untied and not drift) else P.get('boost', 4)
    for feat in sorted(set(r.get('features', '') for r in runs), reverse=True):
        fb = sorted(set(r['bin'] for r in runs if r.get('features', '') == feat))
        if not fb:
            continue
        okb, lg, dtb = harness_build(fb, feat, 1800)
        hb_dt += dtb
        if not okb:
            hb_ok = False
            hb_log = lg
            break
        for r in runs:
            if r.get('features', '') != feat:
                continue
            od = os.path.join(outdir, r['name'])
            os.makedirs(od, exist_ok=True)
            corr.append(correspondence(pid, r, tier, seed, od, boost))
    if not hb_ok:
        violations.append(('harness', 'the correspondence harness no longer builds against /repo: ' + ' '.join(hb_log[-1500:].split()), {'cargo': hb_log[-3000:]}, False))
    known = load_known()
    known_hits = []
    for c in corr:
        for e in c['errors']:
            violations.append(('correspondence', 'correspondence run %s could not be evaluated: %s' % (c['name'], e), {'run': c['name'], 'error': e}, False))
        for case in c['monitor_fail']:
            hit = [f for f in known['findings'] if finding_matches(f, pid, case)]
            if hit:
                known_hits.append((hit[0], case))
                continue
            violations.append(('monitor', 'property monitor false on the implementation trace of %s case %s' % (c['name'], case.get('case')), {'run': c['name'], 'case': strip(case), 'priority': c.get('priority', 5) - (1 if case.get('kind') == 'global' else 0)}, True))
        for case in c['disagree']:
            if case in c['monitor_fail']:
                continue
            hit = [f for f in known['findings'] if finding_matches(f, pid, case)]
            if hit:
                known_hits.append((hit[0], case))
                continue
            violations.append(('correspondence', 'model and implementation disagree on %s case %s' % (c['name'], case.get('case')), {'run': c['name'], 'case': strip(case)}, False))
    # an untied site (the translator no longer recognises the expression): the theorems are about a stale definition
    rel_untied = [u for u in untied if u[0] in P.get('sites', []) or u[0] in ['gen_' + f for f in P.get('tie', [])] or (not P.get('sites') and not u[0].startswith('gen_')) or u[0] in ('regen.py', 'skel.py', 'skelagg.py', 'skelstore.py', 'skelqw.py', 'skelbm.py')]
    if rel_untied and not violations:
        violations.append(('tie', 'regenerated definitions no longer tied to the source (site not recognised by tools/regen.py; the correspondence search found no difference): %s' % rel_untied, {'untied': rel_untied}, False))
    # 5. decide
    printed = set()
    for f, case in known_hits:
        if id(f) not in printed:
            printed.add(id(f))
            print('KNOWN-FINDING: property=%s %s' % (pid, f['what']))
    seen_known = set(id(f) for f, _ in known_hits)
    wall = time.time() - t0
    ev = evidence(pid, P, tier, seed, obligations, discharged, supporting, names, corr, rg, violations, notes, wall, dt_make, hb_dt)
    json.dump(ev, open(os.path.join(VERIF, 'evidence', pid + '.json'), 'w'), indent=1, default=str)
    if not violations:
        print('OK property=%s tier=%s obligations=%d discharged=%d corr_cases=%d wall=%.1fs' % (pid, tier, obligations, discharged, sum(c['cases'] for c in corr), wall))
        return 0
    # prefer a violation with a concrete failing input as the replay
    with_input = [v for v in violations if v[3]]
    with_input.sort(key=lambda v: v[2].get('priority', 5))     # stable: the most telling replay first (e.g. the multi-node agreement monitor for C01)
    first = (with_input or violations)[0]
    payload = {'message': first[1], 'detail': first[2], 'all': [v[1] for v in (with_input + [x for x in violations if not x[3]])][:40]}
    if first[0] == 'monitor' or first[0] == 'correspondence':
        payload['run'] = first[2].get('run')
        payload['case'] = first[2].get('case')
    path = write_replay(pid, seed, tier, first[0], payload)
    for v in violations[:10]:
        print('  - ' + v[1][:400])
    if with_input:
        print('VIOLATION property=%s replay=%s' % (pid, path))
    else:
        print('VIOLATION property=%s replay=%s no-failing-input-found' % (pid, path))
    return 1


def strip(case):
    return {k: v for k, v in case.items() if k != '_file'}


def count_supporting(pid):
    """Number of Lemma/Theorem statements in the files Props/<ID>.v imports (reported, not claimed)."""
    src = open(os.path.join(COQ, 'Props', pid + '.v')).read()
    mods = set(re.findall(r'\b([A-Z][A-Za-z0-9_]*)\b', ' '.join(re.findall(r'From HS Require Import ([^.]*)\.', src))))
    n = 0
    for m in mods:
        p = os.path.join(COQ, m + '.v')
        if os.path.exists(p):
            n += len(re.findall(r'^\s*(?:Lemma|Theorem|Corollary|Example|Fact)\s', open(p).read(), re.M))
    return n


def evidence(pid, P, tier, seed, obligations, discharged, supporting, names, corr, rg, violations, notes, wall, dt_make, hb_dt):
    evals = sum(c['cases'] for c in corr)
    samples = []
    stats = {}
    for c in corr:
        samples += c['samples'][:2]
        for k, v in c['stats'].items():
            stats['%s:%s' % (c['name'], k)] = v
    distinct = 0
    for c in corr:
        distinct += c['stats'].get('distinct_nontrivial', 0)
    cov = {
        'obligations': max(obligations, 1), 'discharged': discharged,
        'checker_cmd': 'cd /verif/coq && coq_makefile -f _CoqProject -o Makefile && make -j16 Props/%s.vo  (coqc 8.16.1, full .vo build; Print Assumptions of every pinned theorem audited against an empty allow-list)' % pid,
        'trusted_base': P.get('trusted_base', []) + [
            'Coq 8.16.1 kernel, vm_compute (no native_compute)', 'axioms: none (every pinned theorem: Closed under the global context)',
            'tools/regen.py (translator of the decision expressions from the Rust source)', 'tools/skel.py + tools/skelagg.py + tools/skelstore.py + tools/skelqw.py + tools/skelbm.py + tools/rustparse.py (translators of the statement skeletons of core.rs/synchronizer.rs/messages.rs/aggregator.rs, of the store task loop of store/src/lib.rs of the acknowledgement loop of mempool/src/quorum_waiter.rs and of the arms and seal() of mempool/src/batch_maker.rs into the model monads; coq/SkelPrims.v, coq/SkelMonad.v and coq/StoreSkel.v name the primitives)',
            'correspondence harness /verif/harness (abstraction of keys to ranks, digests to symbolic terms, signatures to provenance)'],
        'theorems': names, 'supporting_lemmas_in_imported_files': supporting,
        'regenerated_skeletons': [{'name': k['name'], 'where': '%s: fn %s (line %s)' % (k.get('file'), k.get('fn'), k.get('line')), 'tied_by': 'coq/Tie_%s.v' % k['name'][4:], **({'untied': k['untied']} if not k.get('ok') else {})} for k in rg.get('skeleton', []) if k['name'][4:] in P.get('tie', [])],
        'regenerated_sites': [{'name': s['name'], 'rust': s.get('rust'), 'coq': s.get('coq'), 'where': '%s:%s' % (s.get('file'), s.get('line')), **({'untied': s['untied']} if 'untied' in s else {})} for s in rg.get('sites', []) if not P.get('sites') or s['name'] in P['sites']],
        'evaluations': evals, 'distinct_nontrivial': distinct,
        'rule': P.get('rule', 'correspondence cases generated from VERIF_SEED; distinct_nontrivial counted by the harness'),
        'samples': samples or [{'theorem': n} for n in names[:3]],
        'correspondence_runs': [{'name': c['name'], 'cmd': c['cmd'], 'cases': c['cases'], 'agree': c['agree'], 'disagree': len(c['disagree']), 'monitor_fail': len(c['monitor_fail']), 'inconclusive': c.get('inconclusive', 0), 'harness_s': c.get('harness_s'), 'coq_s': c.get('coq_s'), 'errors': c['errors'][:3]} for c in corr],
        'input_distribution': stats, 'traces_validated_against_impl': sum(c['agree'] for c in corr),
        'make_s': round(dt_make, 1), 'harness_build_s': round(hb_dt, 1), 'notes': notes,
    }
    return {'property_id': pid, 'tier': tier, 'seed': seed, 'level': 'proof', 'coverage': cov,
            'assumptions': P.get('assumptions', []), 'wall_s': round(wall, 2), 'violations': len(violations)}


if __name__ == '__main__':
    sys.exit(main())
