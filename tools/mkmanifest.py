#!/usr/bin/env python3
"""Writes /verif/MANIFEST.json from the table below (kept in one place so that it stays valid)."""
import json, os, subprocess
V = os.path.dirname(os.path.dirname(os.path.abspath(__file__)))
TB = "Trusted: Coq 8.16.1 kernel + vm_compute (no native_compute); no axioms (every pinned theorem is 'Closed under the global context'); tools/regen.py (pattern-based translator of the decision expressions); the correspondence harness (abstraction of keys/digests/signatures, quiescence detection)."
IDEAL = " Idealisations: symbolic collision-free hashing and ideal signatures (licensed by the C20 pre-image theorems; SHA-512/Ed25519 themselves assumed); each task a sequential process over FIFO channels; store = finite map."
CLAIMS = {
 'C01': ("proof", "agreement (Layer P, every stake function/committee/honest set/reachable world) and agreement_impl (honest nodes executing the node model of the current source on admissible events in any order: any two delivered digests of any two honest nodes are on one chain), unbounded in committee size, stakes, rounds and history length; guards regenerated from core.rs/config.rs on every run; node skeleton validated by step-mode correspondence on the real Core", "Coq proof (invariant + refinement) over regenerated guards + step-mode correspondence", TB + IDEAL),
 'C02': ("proof", "c02_delivery_chain: in every reachable global state the delivery log of every honest node is a parent-linked chain of block terms from genesis (exactly once, in order, never the genesis placeholder), for the commit() deque discipline REGENERATED from core.rs; three refutation witnesses for the pinned tree's discipline (repaired by fix: 121d309); monitor chainb (proved complete for chain) evaluated on real commit-channel traces", "Coq proof (log invariant) over the regenerated commit walk + step-mode correspondence + monitor on real traces", TB + IDEAL),
 'C03': ("proof", "c03_voting_safety / c03_one_vote_per_round: for every reachable global state and honest node, every vote in the ghost history (recorded at the signing point, self-votes included) has a round above every earlier vote and timeout of that node, a QC of a lower round, and the direct or TC justification with all reported high-QC rounds <= the QC round; voting rules regenerated from make_vote; monitors on wire votes and on the model's ghost history", "Coq proof (node invariant) over regenerated voting rules + step-mode correspondence + monitors", TB + IDEAL),
 'C05': ("proof", "c05_commit_rule: every digest an honest node ever handed to its commit channel is, or is an ancestor of, a block d0 such that d0 and a child of round exactly round(d0)+1 are both certified by a quorum; the 2-chain test is regenerated; monitor mon_c05 checks on real traces that each committing step holds such a 2-chain among the blocks seen and commits only its head and ancestors", "Coq proof (node invariant i_log) + step-mode correspondence + monitor", TB + IDEAL),
 'C08': ("proof", "c08_vote_available / c08_commit_available / c08_parked: for EVERY input sequence (no admissibility needed), every vote ever signed is for a block whose payload batches are all in the node's own store, every block handed to the commit channel likewise, batches never disappear, and a payload-parked block's batches are stored or still listed missing; hypothesis: digests reach the proposer only after their batch is stored (Processor order)", "Coq proof (availability invariant incl. ghost vote history) + step-mode correspondence with late/missing batches + monitor", TB + IDEAL),
 'C09': ("proof", "leader_perm (the committee as a set decides the leader, over byte-string keys with the derived order), c09_rotation (any n consecutive rounds: each authority leads exactly once), c09_no_equivocation (rounds of proposal requests strictly increase in every reachable state, boot once); 'votes only for the leader's signed blocks' is decided by the monitor mon_c09 on real traces and by the handle_proposal correspondence (theorem pending)", "Coq proof + step-mode correspondence + monitor", TB + IDEAL),
 'C10': ("proof", "c10_monotone (round and high-QC round never decrease along any global step), c10_timeout_dominates / c10_high_qc_dominates (every signed timeout's QC round >= QC round of every block voted before), c10_pace; the evidence clause (round r+1 only in a step holding a valid QC/TC of round r) is decided by monitor mon_c10 on real traces (not yet a theorem)", "Coq proof (node invariant) + step-mode correspondence + monitor", TB + IDEAL),
 'C17': ("proof", "Coq theorems for every total stake 1 <= n < 2^31 and every stake distribution (c17_arith, c17_overlap, c17_honest_quorum, c17_crates_agree, c17_unknown_zero, c17_zero_stake_useless) about the threshold expression regenerated from both config.rs files with u32 wrap-around explicit; tightness witness at 2^31; real quorum_threshold()/stake() of both crates compared with the model on generated committees", "Coq proof (lia over N with explicit mod 2^32) of the regenerated formula + differential correspondence on the real Committee types", TB + " `.sum()` of stakes modelled as a list sum (checked by correspondence); rustc u32 semantics."),
 'C19': ("proof", "c19_at_most_once (any vote list through one maker yields at most one certificate), qc_verify_exact (verifier accepts exactly duplicate-free positive-stake quorum-weight correctly-signed vote lists); validity of every assembled QC/TC is part of the node invariant behind C01 (qm_append_ok/tm_append_ok); monitor mon_c19 on real traces: every TC/Make/proposal/timeout sent carries certificates that verify, one TC per round", "Coq proof + step-mode correspondence + monitor", TB + IDEAL),
}
PENDING = {
 'C04': "check under construction (verifier exactness for the other four message types and non-interference); qc_verify_exact and monitor mon_c04 exist",
 'C06': "liveness under partial synchrony: only enabling lemmas can be carried by this technique; check under construction (see DESIGN.md §3 C06)",
 'C07': "catch-up: check under construction (see DESIGN.md §3 C07)",
 'C11': "check under construction (batching theorems exist in coq/BatchMaker.v; component harness pending)",
 'C12': "check under construction (c12_first_quorum exists; component harness pending)",
 'C13': "end-to-end pipeline: check under construction (see DESIGN.md §3 C13)",
 'C14': "check under construction (Reliable.v step_inv exists; socket harness pending)",
 'C15': "check under construction (c15_core_no_panic exists; decoder/receive-path model and socket harness pending)",
 'C16': "check under construction (sstep_refines exists; component harness pending)",
 'C18': "check under construction (base64 model pending)",
 'C20': "check under construction (pre-image injectivity and codec round trips exist in coq/Codec.v; harness pending)",
}
hooks = subprocess.run(['git', '-C', '/repo', 'log', '--format=%h %s'], capture_output=True, text=True).stdout.split('\n')
hook_commits = [l.split()[0] for l in hooks if 'verif hook' in l]
m = {"version": 1, "setup_cmd": "./setup.sh",
     "hooks": {"guard": "hotstuff_verif", "enable": "cargo feature: /verif/harness depends on /repo/{consensus,mempool,network} with features=[\"hotstuff_verif\"]",
               "baseline_off_cmd": "cd /repo && cargo test --workspace --no-fail-fast --offline", "source_commits": hook_commits, "add_only": True},
     "engines": [{"name": "coq-proof+correspondence", "path": "/verif/check", "serves_properties": sorted(CLAIMS),
                  "kind_free_text": "Rocq/Coq 8.16.1 theorems about executable Gallina models; decision expressions regenerated from the Rust source on every run (tools/regen.py); hand-written skeleton validated by a correspondence check that runs the real Rust components and the model (vm_compute inside Coq) on the same inputs; executable property monitors evaluated on the recorded implementation traces"}],
     "checks": [], "notes": "see DESIGN.md; known_findings.json lists repaired defects (fixed:) and recorded findings", "not_applicable": []}
for pid in sorted(CLAIMS):
    cat, text, tech, note = CLAIMS[pid]
    m["checks"].append({"property_id": pid, "quick_cmd": "./check %s quick" % pid, "thorough_cmd": "./check %s thorough" % pid,
                        "evidence_file": "/verif/evidence/%s.json" % pid, "replay_cmd_template": "./check %s --replay {path}" % pid,
                        "engine": "coq-proof+correspondence", "level_claimed": {"category": cat, "text": text, "design_ref": "DESIGN.md §3 " + pid},
                        "level_note": note, "technique": tech})
for pid in sorted(PENDING):
    if pid not in CLAIMS:
        m["not_applicable"].append({"property_id": pid, "reason": PENDING[pid]})
json.dump(m, open(os.path.join(V, 'MANIFEST.json'), 'w'), indent=1)
print('claimed', sorted(CLAIMS), 'pending', sorted(set(PENDING) - set(CLAIMS)))
