#!/bin/sh
# Confirm a seeded change: (1) with patch.diff the 41 pinned tests pass; (2) with patch+demo the demo fails;
# (3) with demo only the demo passes.  usage: seed_confirm.sh <name> <dir-with-patch.diff-demo.diff>
# Runs in one scratch worktree (/tmp/ev/wt) with its own target dir, inside a private network namespace
# (the repository's tests bind fixed TCP ports).
name=$1; src=$2
wt=/tmp/ev/wt
export CARGO_TARGET_DIR=/tmp/ev/target CARGO_NET_OFFLINE=true
[ -d $wt ] || git -C /repo worktree add -q $wt HEAD
cd $wt && git checkout -q --detach $(git -C /repo rev-parse HEAD) && git reset -q --hard && git clean -fdq
run() { timeout 1500 unshare -n sh -c "ip link set lo up; cargo test --workspace --no-fail-fast --offline 2>&1"; }
echo "== $name: patch only"
git apply $src/patch.diff || { echo "PATCH DOES NOT APPLY"; exit 1; }
run > /tmp/ev/$name.patch.log; grep -E "^test result" /tmp/ev/$name.patch.log | awk '{p+=$4; f+=$6} END {print "patch-only: passed",p,"failed",f}'
echo "== $name: patch + demo"
git apply $src/demo.diff || { echo "DEMO DOES NOT APPLY"; exit 1; }
run > /tmp/ev/$name.both.log; grep -E "^test result" /tmp/ev/$name.both.log | awk '{p+=$4; f+=$6} END {print "patch+demo: passed",p,"failed",f}'; grep -E "^test .* FAILED|^    [a-z_:]+$" /tmp/ev/$name.both.log | head -5
echo "== $name: demo only"
git apply -R $src/patch.diff
run > /tmp/ev/$name.demo.log; grep -E "^test result" /tmp/ev/$name.demo.log | awk '{p+=$4; f+=$6} END {print "demo-only: passed",p,"failed",f}'
git reset -q --hard; git clean -fdq
