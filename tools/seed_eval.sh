#!/bin/sh
# Run checks against /repo with a seeded patch applied, then undo it. usage: seed_eval.sh <patch.diff> <ID>...
patch=$1; shift
cd /repo && git status --short | grep -v '^??' | grep -q . && { echo "/repo not clean"; exit 1; }
git -C /repo apply $patch || { echo "patch does not apply"; exit 1; }
cd /verif
for id in "$@"; do
  out=$(./check $id quick 2>&1); rc=$?
  echo "[$id] exit=$rc $(echo "$out" | grep -E '^(VIOLATION|OK|KNOWN)' | head -2 | cut -c1-200)"
  echo "$out" | grep '^  - ' | head -3 | cut -c1-260
done
git -C /repo checkout -- .
python3 /verif/tools/regen.py /repo /verif/coq/Guards.v /verif/.build/regen.json >/dev/null
# restore the evidence files from clean-tree runs (evidence written while a patch was applied must never be committed)
for id in "$@"; do ./check $id quick >/dev/null 2>&1; done
