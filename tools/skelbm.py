#!/usr/bin/env python3
"""Statement-skeleton translator, fifth part: mempool/src/batch_maker.rs - the two arms of BatchMaker::run's select! (located textually:
the macro body is not parsed as a whole) and BatchMaker::seal -> coq/GenBM.v, in the monad of coq/BMSkel.v.
coq/Tie_bm_step.v proves the regenerated step equal to the model's `bstep` (same state; each sealed batch broadcast, then handed to the
quorum waiter, in that order) for every batch size, state and event.   usage: skelbm.py REPO OUT.v STATUS.json
"""
import json, os, re, sys
sys.path.insert(0, os.path.dirname(os.path.abspath(__file__)))
import rustparse as R

REPO = sys.argv[1] if len(sys.argv) > 1 else '/repo'
OUT = sys.argv[2] if len(sys.argv) > 2 else '/verif/coq/GenBM.v'
STATUS = sys.argv[3] if len(sys.argv) > 3 else None
FILE = 'mempool/src/batch_maker.rs'


class Untranslatable(Exception):
    pass


def is_path(e, *names):
    return e[0] == 'path' and list(e[1]) == list(names)


def selff(e, name=None):
    return e[0] == 'field' and is_path(e[1], 'self') and (name is None or e[2] == name)


def strip(e):
    while True:
        if e[0] in ('paren', 'ref'): e = e[1]
        elif e[0] == 'await': e = e[1]
        elif e[0] == 'mcall' and e[2] in ('clone', 'expect', 'unwrap') and e[0] == 'mcall' and (e[2] == 'clone' and not e[3] or e[2] == 'expect'): e = e[1]
        else: return e


class Tr:
    def __init__(self):
        self.reads = False

    def pure(self, e, env):
        e = strip(e)
        if e[0] == 'lit' and re.fullmatch(r'\d+', e[1]):
            return e[1]
        if selff(e, 'current_batch_size'):
            return '(cur_size s)'
        if selff(e, 'batch_size'):
            return 'batch_size'
        if e[0] == 'mcall' and e[2] == 'len' and not e[3]:
            x = strip(e[1])
            if x[0] == 'path' and len(x[1]) == 1 and env.get(x[1][0], (None, None))[1] == 'tx':
                return '(N.of_nat (length %s))' % env[x[1][0]][0]
        if e[0] == 'binary' and e[1] == '+':
            return '(%s + %s)' % (self.pure(e[2], env), self.pure(e[3], env))
        raise Untranslatable('expression %r' % (e,))

    def cond(self, e, env):
        e = strip(e)
        if e[0] == 'path' and len(e[1]) == 1 and env.get(e[1][0], (None, None))[1] == 'bool':
            return env[e[1][0]][0]
        if e[0] == 'unary' and e[1] == '!':
            return '(negb %s)' % self.cond(e[2], env)
        if e[0] == 'mcall' and e[2] == 'is_empty' and selff(strip(e[1]), 'current_batch'):
            return '(is_nil (cur s))'
        if e[0] == 'binary' and e[1] in ('>=', '>', '<=', '<', '=='):
            a, b = self.pure(e[2], env), self.pure(e[3], env)
            return {'>=': '(%s <=? %s)' % (b, a), '>': '(%s <? %s)' % (b, a), '<=': '(%s <=? %s)' % (a, b), '<': '(%s <? %s)' % (a, b), '==': '(%s =? %s)' % (a, b)}[e[1]]
        if e[0] == 'binary' and e[1] in ('&&', '||'):
            return '(%s %s %s)' % (self.cond(e[2], env), e[1], self.cond(e[3], env))
        raise Untranslatable('condition %r' % (e,))

    def stmts(self, ss, env, ind):
        pad = ' ' * ind
        # drop `#[cfg(feature = "benchmark")]` statements (logging of the benchmark build) together with their attribute
        while ss and ss[0][0] == 'attr':
            if 'benchmark' in ss[0][1] and len(ss) > 1:
                ss = ss[2:]
            else:
                raise Untranslatable('attribute %s' % ss[0][1])
        if not ss:
            return pad + 'bret tt'
        st, rest = ss[0], ss[1:]

        def seq(term):
            return pad + '_ <- ' + term + ' ;;\n' + self.stmts(rest, env, ind)

        if st[0] == 'let':
            pat, e = st[1], strip(st[2])
            if pat[0] == 'pid' and (e[0] == 'unary' or (e[0] == 'binary' and e[1] in ('>=', '>', '<=', '<', '==', '&&', '||')) or (e[0] == 'mcall' and e[2] == 'is_empty')):
                n = pat[1]
                env2 = dict(env); env2[n] = (n, 'bool')
                return pad + 's <- bm_get ;;\n' + pad + 'let %s := %s in\n' % (n, self.cond(e, env)) + self.stmts(rest, env2, ind)
            if pat[0] == 'pid':
                n = pat[1]
                # self.current_batch.drain(..).collect()
                if e[0] == 'mcall' and e[2] == 'collect' and e[1][0] == 'mcall' and e[1][2] == 'drain' and selff(strip(e[1][1]), 'current_batch') \
                        and len(e[1][3]) == 1 and e[1][3][0] == ('range', None, None):
                    env2 = dict(env); env2[n] = (n, 'batch')
                    return pad + '%s <- bm_drain ;;\n' % n + self.stmts(rest, env2, ind)
                # MempoolMessage::Batch(batch) / bincode::serialize(&message) / Bytes::from(serialized): the same batch, wrapped
                if e[0] == 'call' and (is_path(e[1], 'MempoolMessage', 'Batch') or is_path(e[1], 'bincode', 'serialize') or is_path(e[1], 'Bytes', 'from')) and len(e[2]) == 1:
                    a = strip(e[2][0])
                    want = {'Batch': 'batch', 'serialize': 'message', 'from': 'serialized'}[e[1][1][-1]]
                    if a[0] == 'path' and len(a[1]) == 1 and env.get(a[1][0], (None, None))[1] == want:
                        env2 = dict(env); env2[n] = (env[a[1][0]][0], {'batch': 'message', 'message': 'serialized', 'serialized': 'bytes'}[want])
                        return self.stmts(rest, env2, ind)
                    raise Untranslatable('`%s` of something that is not the %s' % ('::'.join(e[1][1]), want))
                # self.network.broadcast(addresses, bytes).await
                if e[0] == 'mcall' and e[2] == 'broadcast' and selff(strip(e[1]), 'network') and len(e[3]) == 2:
                    a0, a1 = strip(e[3][0]), strip(e[3][1])
                    if a0[0] == 'path' and env.get(a0[1][0], (None, None))[1] == 'addresses' and a1[0] == 'path' and env.get(a1[1][0], (None, None))[1] == 'bytes':
                        env2 = dict(env); env2[n] = (env[a1[1][0]][0], 'handlers')
                        return pad + '_ <- bm_broadcast %s ;;\n' % env[a1[1][0]][0] + self.stmts(rest, env2, ind)
                    raise Untranslatable('broadcast arguments')
            if pat[0] == 'ptuple' and len(pat[1]) == 2 and e[0] == 'mcall' and e[2] == 'unzip' and 'mempool_addresses' in repr(e):
                env2 = dict(env); env2[pat[1][0][1]] = ('names', 'names'); env2[pat[1][1][1]] = ('addresses', 'addresses')
                return self.stmts(rest, env2, ind)
            raise Untranslatable('let %r' % (st[1],))
        if st[0] == 'expr':
            e = strip(st[1])
            if e[0] == 'assign' and selff(e[2], 'current_batch_size'):
                if e[1] == '+=':
                    return seq('bm_add_size %s' % self.pure(e[3], env))
                if e[1] == '=':
                    return pad + 's <- bm_get ;;\n' + seq('bm_set_size %s' % self.pure(e[3], env))
                raise Untranslatable('assignment operator %s' % e[1])
            if e[0] == 'mcall' and e[2] == 'push' and selff(strip(e[1]), 'current_batch') and len(e[3]) == 1:
                a = strip(e[3][0])
                if a[0] == 'path' and env.get(a[1][0], (None, None))[1] == 'tx':
                    return seq('bm_push %s' % env[a[1][0]][0])
                raise Untranslatable('push of %r' % (a,))
            if e[0] == 'mcall' and e[2] == 'seal' and is_path(e[1], 'self') and not e[3]:
                return seq('gen_bm_seal')
            if e[0] == 'mcall' and e[2] == 'reset' and 'timer' in repr(e[1]):
                return self.stmts(rest, env, ind)      # re-arming the timer: the timer is the environment's BTimer event
            if e[0] == 'if':
                c, thenb, elseb = e[1], e[2], e[3] if len(e) > 3 else None
                t = self.stmts(thenb[1], env, ind + 4)
                f = self.stmts(elseb[1], env, ind + 4) if elseb else pad + '    bret tt'
                return pad + 's <- bm_get ;;\n' + pad + '_ <- (if %s then\n%s\n%selse\n%s) ;;\n' % (self.cond(c, env), t, pad, f) + self.stmts(rest, env, ind)
            # self.tx_message.send(QuorumWaiterMessage { batch: serialized, handlers: .. }).await.expect(..)
            if e[0] == 'mcall' and e[2] == 'send' and selff(strip(e[1]), 'tx_message') and len(e[3]) == 1 and e[3][0][0] == 'struct':
                fields = dict(e[3][0][2])
                b = strip(fields.get('batch', ('lit', '?')))
                if b[0] == 'path' and env.get(b[1][0], (None, None))[1] == 'serialized' and any(k == 'handlers' for k in env.values() and [v[1] for v in env.values()]):
                    hs = [v[0] for v in env.values() if v[1] == 'handlers']
                    if 'handlers' in fields and hs and hs[0] == env[b[1][0]][0] and any(n in repr(fields['handlers']) for n, v in env.items() if v[1] == 'handlers'):
                        return seq('bm_emit %s' % env[b[1][0]][0])
                raise Untranslatable('QuorumWaiterMessage fields')
        raise Untranslatable('statement %r' % (st,))


def arm(src, pat):
    m = re.search(pat, src)
    if not m:
        raise Untranslatable('select! arm /%s/ not found' % pat)
    i = m.end() - 1; d = 0; j = i
    while j < len(src):
        if src[j] == '{': d += 1
        elif src[j] == '}':
            d -= 1
            if d == 0: break
        j += 1
    return m, R.Parser(R.tokenize(src[i:j + 1])).block(), src[:m.start()].count('\n') + 1


FALLBACK = '''Definition gen_bm_seal : BMM unit :=
  s <- bm_get ;; _ <- bm_set_size 0 ;; batch <- bm_drain ;; _ <- bm_broadcast batch ;; _ <- bm_emit batch ;; bret tt.
Definition gen_bm_tx (batch_size : N) (transaction : tx) : BMM unit :=
  _ <- bm_add_size (N.of_nat (length transaction)) ;; _ <- bm_push transaction ;; s <- bm_get ;;
  _ <- (if (batch_size <=? (cur_size s)) then _ <- gen_bm_seal ;; bret tt else bret tt) ;; bret tt.
Definition gen_bm_timer (batch_size : N) : BMM unit :=
  s <- bm_get ;; _ <- (if (negb (is_nil (cur s))) then _ <- gen_bm_seal ;; bret tt else bret tt) ;; bret tt.
'''


def main():
    src = open(os.path.join(REPO, FILE)).read()
    status = {'functions': [], 'untied': []}
    line = 0
    try:
        f = R.find_fn(src, 'seal', 'BatchMaker')
        if not f:
            raise Untranslatable('fn BatchMaker::seal not found')
        seal = Tr().stmts(f[2][1], {}, 2)
        run = R.find_fn(src, 'run', 'BatchMaker')
        line = run[3] if run else 0
        m1, b1, _ = arm(src, r'Some\((\w+)\)\s*=\s*self\.rx_transaction\.recv\(\)\s*=>\s*\{')
        m2, b2, _ = arm(src, r'\(\)\s*=\s*&mut\s+timer\s*=>\s*\{')
        txv = m1.group(1)
        a1 = Tr().stmts(b1[1], {txv: (txv, 'tx')}, 2)
        a2 = Tr().stmts(b2[1], {}, 2)
        text = ('Definition gen_bm_seal : BMM unit :=\n%s.\n\nDefinition gen_bm_tx (batch_size : N) (%s : tx) : BMM unit :=\n%s.\n\n'
                'Definition gen_bm_timer (batch_size : N) : BMM unit :=\n%s.\n' % (seal, txv, a1, a2))
        ok = True
    except Exception as ex:
        ok = False
        status['untied'].append(['gen_bm_step', '%s: %s' % (FILE, ex)])
        text = FALLBACK
    status['functions'].append({'name': 'gen_bm_step', 'file': FILE, 'fn': 'BatchMaker::run (select! arms) + seal', 'line': line, 'ok': ok,
                                **({} if ok else {'untied': status['untied'][-1][1]})})
    new = ('(* GENERATED by tools/skelbm.py from %s - do not edit. *)\nFrom Coq Require Import List NArith Bool.\nFrom HS Require Import Guards BatchMakerDefs BMSkel.\n'
           'Import ListNotations.\nOpen Scope N_scope.\n\n' % FILE) + text
    old = open(OUT).read() if os.path.exists(OUT) else None
    if new != old:
        open(OUT, 'w').write(new)
    if STATUS:
        json.dump(status, open(STATUS, 'w'), indent=1)
    print('skelbm: %s' % ('ok' if ok else 'UNTIED ' + status['untied'][-1][1]))


if __name__ == '__main__':
    main()
