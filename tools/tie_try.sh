#!/bin/sh
# Development aid: regenerate the skeletons from a source tree (default /repo) into a scratch copy of coq/ and re-check every tie lemma there.
# usage: tie_try.sh [REPO-LIKE-DIR]   (prints the tie files that fail)
src=${1:-/repo}
w=/tmp/tie_try
rm -rf $w && cp -a /verif/coq $w && cd $w || exit 1
python3 /verif/tools/regen.py $src $w/Guards.v $w/regen.json >/dev/null 2>&1
python3 /verif/tools/skel.py $src $w/GenCore.v $w/skel.json
python3 /verif/tools/skelagg.py $src $w/GenAgg.v $w/skelagg.json
coq_makefile -f _CoqProject -o Makefile >/dev/null
ties=$(ls Props/Tie_*.v | sed 's/\.v$/.vo/')
make -k -j16 $ties 2>&1 | grep -E "^File|Error|\*\*\*" | grep -v "^make" | head -40
