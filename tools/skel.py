#!/usr/bin/env python3
"""Control-skeleton translator: whole function bodies of the protocol code -> monadic Gallina (coq/GenCore.v).

regen.py regenerates the *decision expressions*; this translator regenerates the *statement skeleton* around them: the order of
checks, calls, state updates, sends and early returns of each function of consensus/src/core.rs (+ the non-task functions of
synchronizer.rs and aggregator.rs).  Each Rust function f becomes `gen_f : ... -> M T` in the model's own state/output/result monad
(Node.v), whose callees are the MODEL's functions; coq/Tie.v proves `forall args s, gen_f args s = f args s` for the hand-written
model function f that all the theorems are about.  A change to the skeleton of the source (a check moved, a call dropped, a branch
inverted, a different argument) changes gen_f and the tie lemma stops being provable: the theorems are then no longer about the
code, and ./check reports it (after the search for a failing input).

usage: skel.py REPO OUT.v STATUS.json
"""
import json, os, re, sys
sys.path.insert(0, os.path.dirname(os.path.abspath(__file__)))
import rustparse as R

REPO = sys.argv[1] if len(sys.argv) > 1 else '/repo'
OUT = sys.argv[2] if len(sys.argv) > 2 else '/verif/coq/GenCore.v'
STATUS = sys.argv[3] if len(sys.argv) > 3 else None


class Untranslatable(Exception):
    pass


# panic sites the model represents (keyed by the expect message; the numbers are the model's site identifiers)
PANIC_SITES = {'"Empty TC"': 105, '"We should have all the ancestors by now"': 131, '"We should have all ancestors of delivered blocks"': 147}
LOG_MACROS = ('debug', 'info', 'warn', 'error', 'log::debug', 'log::info', 'log::warn', 'log::error', 'trace')

# field projections by type
FIELDS = {
    'Block': {'round': ('b_round', 'N'), 'qc': ('b_qc', 'QC'), 'tc': ('b_tc', 'opt:TC'), 'author': ('b_author', 'key'), 'payload': ('b_payload', 'list'), 'signature': ('b_sig', 'sig')},
    'QC': {'round': ('qc_round', 'N'), 'hash': ('qc_hash', 'digest'), 'votes': ('qc_votes', 'qcvotes')},
    'TC': {'round': ('tc_round', 'N'), 'votes': ('tc_votes', 'tcvotes')},
    'Vote': {'round': ('v_round', 'N'), 'hash': ('v_hash', 'digest'), 'author': ('v_author', 'key'), 'signature': ('v_sig', 'sig')},
    'Timeout': {'round': ('t_round', 'N'), 'high_qc': ('t_high_qc', 'QC'), 'author': ('t_author', 'key'), 'signature': ('t_sig', 'sig')},
}
SELF_FIELDS = {'round': ('(s_round s)', 'N'), 'last_voted_round': ('(s_last_voted s)', 'N'), 'last_committed_round': ('(s_last_committed s)', 'N'),
               'high_qc': ('(s_high_qc s)', 'QC'), 'name': ('me', 'key'), 'committee': ('c', 'Committee')}
SELF_SETTERS = {'round': 'set_round', 'last_voted_round': 'set_last_voted', 'last_committed_round': 'set_last_committed', 'high_qc': 'set_high_qc'}
TYPEMAP = [(r'^&?\s*(mut\s+)?Block$', 'Block'), (r'^&?\s*(mut\s+)?QC$', 'QC'), (r'^&?\s*(mut\s+)?TC$', 'TC'), (r'^&?\s*(mut\s+)?Vote$', 'Vote'), (r'^&?\s*(mut\s+)?Timeout$', 'Timeout'),
           (r'^&?\s*Round$', 'N'), (r'^Option\s*<\s*TC\s*>$', 'opt:TC'), (r'^&?\s*Committee$', 'Committee'), (r'^&?\s*Digest$', 'digest'), (r'^&?\s*PublicKey$', 'key')]
COQTYPE = {'Block': 'Block', 'QC': 'QC', 'TC': 'TC', 'Vote': 'Vote', 'Timeout': 'Timeout', 'N': 'N', 'opt:TC': 'option TC', 'key': 'N', 'digest': 'digest', 'bool': 'bool', 'unit': 'unit',
           'opt:Vote': 'option Vote', 'opt:Block': 'option Block', 'opt:QC': 'option QC', 'opt:pair:Block:Block': 'option (Block * Block)', 'list': 'list N', 'Committee': 'Committee'}


def rtype(t):
    t = ' '.join(t.split()).replace(' <', '<').replace('< ', '<').replace(' >', '>').replace('& ', '&')
    for pat, ty in TYPEMAP:
        if re.match(pat, t):
            return ty
    return '?' + t


# Calls with an effect, by (receiver kind, method): -> (template of the monadic term, result type, "result" when the Rust value is a
# ConsensusResult whose `?` is the monad's error propagation).  {0},{1}.. = translated arguments.
def EFFECTS(fnenv):
    return {
        ('self', 'advance_round'): ('advance_round {0}', 'unit', False),
        ('self', 'update_high_qc'): ('update_high_qc {0}', 'unit', False),
        ('self', 'process_qc'): ('process_qc {0}', 'unit', False),
        ('self', 'increase_last_voted_round'): ('increase_last_voted {0}', 'unit', False),
        ('self', 'store_block'): ('store_block {0}', 'unit', False),
        ('self', 'commit'): ('commit dq {0}', 'unit', True),
        ('self', 'make_vote'): ('make_vote me {0}', 'opt:Vote', False),
        ('self', 'handle_vote'): ('handle_vote c me hint {0}', 'unit', True),
        ('self', 'handle_timeout'): ('handle_timeout c me hint {0}', 'unit', True),
        ('self', 'process_block'): ('process_block c me dq hint {0}', 'unit', True),
        ('self', 'generate_proposal'): ('generate_proposal me hint {0}', 'unit', False),
        ('self', 'cleanup_proposer'): ('proposer_cleanup (b_payload {0} ++ b_payload {1} ++ b_payload {2})', 'unit', False),
        ('self', 'local_timeout_round'): ('local_timeout c me hint', 'unit', True),
        ('self', 'handle_proposal'): ('handle_proposal c me dq hint {0}', 'unit', True),
        ('self', 'handle_tc'): ('handle_tc c me hint {0}', 'unit', True),
        ('self.timer', 'reset'): ('timer_reset', 'unit', False),
        ('self.aggregator', 'cleanup'): ('agg_cleanup {0}', 'unit', False),
        ('self.aggregator', 'add_vote'): ('agg_add_vote c {0}', 'opt:QC', True),
        ('self.aggregator', 'add_timeout'): ('agg_add_timeout c {0}', 'opt:TC', True),
        ('self.synchronizer', 'get_ancestors'): ('get_ancestors {0}', 'opt:pair:Block:Block', True),
        ('self.synchronizer', 'get_parent_block'): ('get_parent_block {0}', 'opt:Block', True),
        ('self', 'get_parent_block'): ('get_parent_block {0}', 'opt:Block', True),
        ('self.mempool_driver', 'verify'): ('mempool_verify {0}', 'bool', True),
        ('self.mempool_driver', 'cleanup'): ('mempool_cleanup {0}', 'unit', False),
    }


# element types of the collections a `for` loop may range over
ELEM = {'qcvotes': 'pair:key:sig', 'tcvotes': 'pair:key:sig:N', 'list': 'N'}


class Env:
    def __init__(self, vars_=None):
        self.v = dict(vars_ or {})      # rust name -> (gallina term, type)
        self.n = [0]

    def copy(self):
        e = Env(self.v); e.n = self.n
        return e

    def fresh(self, base='t'):
        self.n[0] += 1
        return '%s%d' % (base, self.n[0])


class Tr:
    """translator of one function body"""

    def __init__(self, src, fname, kind, effects, inline_ok=True):
        self.src, self.fname, self.kind, self.effects, self.inline_ok = src, fname, kind, effects, inline_ok
        self.depth = 0
        self.self_fields, self.self_setters = SELF_FIELDS, SELF_SETTERS
        self.for_name = 'mfor'
        self.fuel = None         # termination measure (a Gallina term of type nat) of the function's while loop, when it has one
        self.loops = []          # enclosing `while` loops: the outer locals each one carries

    # ------------------------------------------------------------ pure expressions
    def strip(self, e):
        while e[0] in ('ref', 'deref', 'await') or (e[0] == 'mcall' and e[2] in ('clone', 'to_vec', 'to_owned', 'iter', 'into_iter', 'cloned', 'as_ref', 'into') and not e[3]) \
                or (e[0] == 'call' and e[1] == ('path', ['Box', 'new'])) or (e[0] == 'call' and e[1] == ('path', ['Bytes', 'from'])):
            if e[0] == 'call':
                e = e[2][0]
            else:
                e = e[1]
        return e

    def pure(self, e, env):
        """-> (term, type); raises Untranslatable when e has an effect or is outside the subset"""
        e = self.strip(e)
        k = e[0]
        if k == 'lit':
            return e[1], 'N'
        if k == 'path':
            p = e[1]
            if len(p) == 1:
                if p[0] in env.v:
                    return env.v[p[0]]
                if p[0] == 'true' or p[0] == 'false':
                    return p[0], 'bool'
                if p[0] == 'None':
                    return 'None', 'opt:?'
                raise Untranslatable('unknown identifier `%s`' % p[0])
            raise Untranslatable('path %s' % '::'.join(p))
        if k == 'tuple':
            if not e[1]:
                return 'tt', 'unit'
            ts = [self.pure(x, env) for x in e[1]]
            return '(%s)' % ', '.join(t for t, _ in ts), 'pair:' + ':'.join(ty for _, ty in ts)
        if k == 'field':
            b = self.strip(e[1])
            if b == ('path', ['self']) and self.self_fields is not None:
                if e[2] in self.self_fields:
                    return self.self_fields[e[2]]
                raise Untranslatable('self.%s is not part of the modelled state' % e[2])
            t, ty = self.pure(b, env)
            if ty in FIELDS and e[2] in FIELDS[ty]:
                f, fty = FIELDS[ty][e[2]]
                return '(%s %s)' % (f, t), fty
            raise Untranslatable('field .%s of a value of type %s' % (e[2], ty))
        if k == 'unary' and e[1] == '!':
            t, ty = self.pure(e[2], env)
            return '(negb %s)' % t, 'bool'
        if k == 'binary':
            op = e[1]
            l, lt = self.pure(e[2], env)
            r, rt_ = self.pure(e[3], env)
            if op in ('&&', '&'):
                return '(%s && %s)' % (l, r), 'bool'
            if op in ('||', '|'):
                return '(%s || %s)' % (l, r), 'bool'
            if op in ('+', '-', '*', '/'):
                return '(%s %s %s)' % (l, op, r), 'N'
            if op == '%':
                return '(%s mod %s)' % (l, r), 'N'
            ty = lt if not lt.startswith('opt:?') else rt_
            if op in ('==', '!='):
                eq = {'N': '(%s =? %s)', 'key': '(%s =? %s)', 'QC': '(qc_eqb %s %s)', 'digest': '(digest_eqb %s %s)', 'bool': '(Bool.eqb %s %s)'}.get(ty)
                if eq is None:
                    raise Untranslatable('equality at type %s' % ty)
                t = eq % (l, r)
                return (t if op == '==' else '(negb %s)' % t), 'bool'
            if lt != 'N' or rt_ != 'N':
                raise Untranslatable('comparison at type %s/%s' % (lt, rt_))
            return {'<': '(%s <? %s)' % (l, r), '<=': '(%s <=? %s)' % (l, r), '>': '(%s <? %s)' % (r, l), '>=': '(%s <=? %s)' % (r, l)}[op], 'bool'
        if k == 'call':
            f = e[1]
            if f == ('path', ['Some']):
                t, ty = self.pure(e[2][0], env)
                return '(Some %s)' % t, 'opt:' + ty
            if f == ('path', ['max']) or f == ('path', ['std', 'cmp', 'max']) or f == ('path', ['cmp', 'max']):
                a, _ = self.pure(e[2][0], env); b, _ = self.pure(e[2][1], env)
                return '(N.max %s %s)' % (a, b), 'N'
            if f == ('path', ['Vec', 'new']):
                return '[]', 'list'
            if f == ('path', ['VecDeque', 'new']):
                return '[]', 'deque'
            if f == ('path', ['QC', 'genesis']):
                return 'qc_genesis', 'QC'
            if f == ('path', ['Block', 'genesis']):
                return 'block_genesis', 'Block'
            if f[0] == 'path' and f[1][:1] == ['ConsensusMessage'] and len(f[1]) == 2:
                t, ty = self.pure(e[2][0], env)
                return '(Msg%s %s)' % (f[1][1], t), 'cmsg:' + f[1][1]
            if f == ('path', ['bincode', 'serialize']):
                t, ty = self.pure(e[2][0], env)
                return t, 'ser:' + ty
            raise Untranslatable('call of %s' % (f,))
        if k == 'mcall':
            recv, name, args = self.strip(e[1]), e[2], e[3]
            if name in ('expect', 'unwrap') :
                t, ty = self.pure(recv, env)
                msg = args[0][1] if args and args[0][0] == 'str' else '"unwrap"'
                if msg in PANIC_SITES or ty.startswith('opt:'):
                    raise Untranslatable('effect')       # handled by hoisting
                return t, ty                                 # classified as not panicking in panic_inventory.json
            if recv == ('field', ('path', ['self']), 'leader_elector') and name == 'get_leader':
                t, _ = self.pure(args[0], env)
                return '(leader c %s)' % t, 'key'
            if name == 'digest' and not args:
                t, ty = self.pure(recv, env)
                if ty == 'Block':
                    return '(block_digest %s)' % t, 'digest'
                raise Untranslatable('digest() of %s' % ty)
            if name == 'parent' and not args:
                t, ty = self.pure(recv, env)
                if ty == 'Block':
                    return '(qc_hash (b_qc %s))' % t, 'digest'
            if name == 'high_qc_rounds' and not args:
                t, ty = self.pure(recv, env)
                if ty == 'TC':
                    return '(tc_hqrs %s)' % t, 'listN'
            if name == 'max' and not args:
                t, ty = self.pure(recv, env)
                if ty == 'listN':
                    return '(list_max %s)' % t, 'opt:N'
            if name == 'is_empty' and not args:
                t, ty = self.pure(recv, env)
                return '(match %s with [] => true | _ => false end)' % t, 'bool'
            if name == 'is_none' and not args:
                t, ty = self.pure(recv, env)
                return '(match %s with None => true | Some _ => false end)' % t, 'bool'
            if name == 'is_some' and not args:
                t, ty = self.pure(recv, env)
                return '(match %s with None => false | Some _ => true end)' % t, 'bool'
            if name == 'address' and self.is_committee(recv):
                t, _ = self.pure(args[0], env)
                return t, 'opt:addr'
            if name == 'chain' and len(args) == 1:
                a, ty = self.pure(recv, env); b, _ = self.pure(args[0], env)
                return '(%s ++ %s)' % (a, b), ty
            if name == 'collect' and not args:
                return self.pure(recv, env)
            if name == 'broadcast_addresses' and self.is_committee(recv):
                return 'BCAST', 'bcast'
            if name == 'map' and len(args) == 1 and args[0][0] == 'closure':
                t, ty = self.pure(recv, env)
                if ty == 'bcast':
                    return t, ty
            raise Untranslatable('method .%s(..) on %s' % (name, recv[0]))
        raise Untranslatable('expression %s' % k)

    def is_committee(self, recv):
        return recv == ('field', ('path', ['self']), 'committee') or recv == ('path', ['committee'])

    # ------------------------------------------------------------ effects: hoisting into binds
    def recv_key(self, recv):
        recv = self.strip(recv)
        if recv == ('path', ['self']):
            return 'self'
        if recv[0] == 'field' and recv[1] == ('path', ['self']):
            return 'self.' + recv[2]
        return None

    def value(self, e, env, binds):
        """translate e, appending (var, monadic term, type) to binds for every effectful sub-expression, in evaluation order"""
        try:
            return self.pure(e, env)
        except Untranslatable:
            pass
        e = self.strip(e)
        k = e[0]
        if k == 'try':
            inner = self.strip(e[1])
            t, ty = self.value(inner, env, binds)
            return t, ty
        if k == 'mcall':
            recv, name, args = self.strip(e[1]), e[2], e[3]
            rk = self.recv_key(recv)
            if name in ('expect', 'unwrap'):
                t, ty = self.value(recv, env, binds)
                msg = args[0][1] if args and args[0][0] == 'str' else '"unwrap"'
                if ty.startswith('opt:') and msg in PANIC_SITES:
                    x = env.fresh('x')
                    binds.append((x, '(match %s with Some y => ret y | None => panic %d end)' % (t, PANIC_SITES[msg]), ty[4:]))
                    return x, ty[4:]
                if ty.startswith('opt:') and ty != 'opt:addr':
                    raise Untranslatable('.%s(%s) on an Option: not a classified panic site' % (name, msg))
                return t, (ty[4:] if ty.startswith('opt:') else ty)
            if name == 'verify' and len(args) == 1 and self.is_committee(self.strip(args[0])):
                t, ty = self.value(recv, env, binds)
                vf = {'Vote': 'vote_verify', 'Block': 'block_verify', 'Timeout': 'timeout_verify', 'TC': 'tc_verify', 'QC': 'qc_verify'}.get(ty)
                if vf is None:
                    raise Untranslatable('.verify(..) on a value of type %s' % ty)
                x = env.fresh('r'); binds.append((x, 'lift (%s c %s)' % (vf, t), 'unit'))
                return x, 'unit'
            if rk is not None and (rk, name) in self.effects:
                tmpl, rty, _ = self.effects[(rk, name)]
                ats = [self.value(a, env, binds)[0] for a in args]
                x = env.fresh('r')
                binds.append((x, tmpl.format(*ats), rty))
                return x, rty
            if rk == 'self' and self.inline_ok:
                # a helper method of the same file that is not a modelled function: translated in place
                return self.inline(name, args, env, binds)
            # method with effectful receiver/arguments but itself pure
            if name in ('is_none', 'is_some', 'is_empty', 'max', 'collect', 'chain'):
                t, ty = self.value(recv, env, binds)
                env2 = env.copy(); x = env.fresh('v'); env2.v[x] = (t, ty)
                return self.pure(('mcall', ('path', [x]), name, args), env2)
            # channel / network sends
            return self.send(recv, name, args, env, binds)
        if k == 'call':
            f = e[1]
            if f == ('path', ['Vote', 'new']):
                b, _ = self.value(e[2][0], env, binds)
                x = env.fresh('r'); binds.append((x, 'vote_new me %s' % b, 'Vote'))
                return x, 'Vote'
            if f == ('path', ['Timeout', 'new']):
                q, _ = self.value(e[2][0], env, binds); r, _ = self.value(e[2][1], env, binds)
                x = env.fresh('r'); binds.append((x, 'timeout_new me %s %s' % (q, r), 'Timeout'))
                return x, 'Timeout'
            if f[0] == 'path' and f[1] in (['Some'], ['Ok']) :
                t, ty = self.value(e[2][0], env, binds)
                return ('(Some %s)' % t, 'opt:' + ty) if f[1] == ['Some'] else (t, 'ok:' + ty)
            if f[0] == 'path' and f[1][:1] == ['ConsensusMessage']:
                t, ty = self.value(e[2][0], env, binds)
                return '(Msg%s %s)' % (f[1][1], t), 'cmsg:' + f[1][1]
            if f == ('path', ['bincode', 'serialize']):
                t, ty = self.value(e[2][0], env, binds)
                return t, 'ser:' + ty
            if f == ('path', ['bincode', 'deserialize']):
                t, ty = self.value(e[2][0], env, binds)
                if not ty.startswith('ser:'):
                    raise Untranslatable('deserialize of a value of type %s' % ty)
                return t, ty[4:]
            if f == ('path', ['ConsensusMempoolMessage', 'Synchronize']) and len(e[2]) == 2:
                a, _ = self.value(e[2][0], env, binds); b, _ = self.value(e[2][1], env, binds)
                return '(OMemSync %s %s)' % (a, b), 'mmsg:Synchronize'
            if f == ('path', ['PayloadWaiterMessage', 'Wait']) and len(e[2]) == 2:
                a, _ = self.value(e[2][0], env, binds); b, _ = self.value(e[2][1], env, binds)
                return 'pw_wait %s %s' % (a, b), 'pwmsg:Wait'
        if k == 'binary':
            l, lt = self.value(e[2], env, binds)
            r, rt_ = self.value(e[3], env, binds)
            env2 = env.copy(); a = env.fresh('v'); b = env.fresh('v'); env2.v[a] = (l, lt); env2.v[b] = (r, rt_)
            return self.pure(('binary', e[1], ('path', [a]), ('path', [b])), env2)
        if k == 'unary':
            t, ty = self.value(e[2], env, binds)
            return '(negb %s)' % t, 'bool'
        if k == 'tuple':
            ts = [self.value(x, env, binds) for x in e[1]]
            return '(%s)' % ', '.join(t for t, _ in ts), 'pair:' + ':'.join(ty for _, ty in ts)
        raise Untranslatable('expression with an effect outside the subset: %s' % (e[:2],))

    def send(self, recv, name, args, env, binds):
        """channel and network operations"""
        recv = self.strip(recv)
        if name == 'send' and recv == ('field', ('path', ['self']), 'tx_proposer'):
            m = self.strip(args[0])
            if m[0] == 'call' and m[1] == ('path', ['ProposerMessage', 'Make']):
                ts = [self.value(a, env, binds)[0] for a in m[2]]
                x = env.fresh('r'); binds.append((x, 'proposer_make me hint %s %s %s' % tuple(ts), 'unit'))
                return x, 'unit'
            if m[0] == 'call' and m[1] == ('path', ['ProposerMessage', 'Cleanup']):
                t, _ = self.value(m[2][0], env, binds)
                x = env.fresh('r'); binds.append((x, 'proposer_cleanup %s' % t, 'unit'))
                return x, 'unit'
        if recv == ('field', ('path', ['self']), 'network') and name in ('send', 'broadcast'):
            a, aty = self.value(args[0], env, binds)
            m, mty = self.value(args[1], env, binds)
            x = env.fresh('r')
            if name == 'send' and mty == 'ser:cmsg:Vote':
                binds.append((x, 'emit (OVote %s %s)' % (a, re.sub(r'^\(MsgVote (.*)\)$', r'\1', m)), 'unit')); return x, 'unit'
            if name == 'broadcast' and aty == 'bcast' and mty == 'ser:cmsg:Timeout':
                binds.append((x, 'emit (OTimeout %s)' % re.sub(r'^\(MsgTimeout (.*)\)$', r'\1', m), 'unit')); return x, 'unit'
            if name == 'broadcast' and aty == 'bcast' and mty == 'ser:cmsg:TC':
                binds.append((x, 'emit (OTC %s)' % re.sub(r'^\(MsgTC (.*)\)$', r'\1', m), 'unit')); return x, 'unit'
            raise Untranslatable('network.%s of a %s to %s' % (name, mty, aty))
        if recv == ('field', ('path', ['self']), 'tx_commit') and name == 'send':
            b, bty = self.value(args[0], env, binds)
            if bty != 'Block':
                raise Untranslatable('tx_commit.send of a %s' % bty)
            x = env.fresh('r'); binds.append((x, 'deliver_block %s' % b, 'unit')); return x, 'unit'
        if recv == ('field', ('path', ['self']), 'inner_channel') and name == 'send':
            b, bty = self.value(args[0], env, binds)
            if bty != 'Block':
                raise Untranslatable('inner_channel.send of a %s' % bty)
            x = env.fresh('r'); binds.append((x, 'sync_park %s' % b, 'unit')); return x, 'unit'
        if recv == ('field', ('path', ['self']), 'tx_mempool') and name == 'send':
            m, mty = self.value(args[0], env, binds)
            if mty != 'mmsg:Synchronize':
                raise Untranslatable('tx_mempool.send of a %s' % mty)
            x = env.fresh('r'); binds.append((x, 'emit %s' % m, 'unit')); return x, 'unit'
        if recv == ('field', ('path', ['self']), 'tx_payload_waiter') and name == 'send':
            m, mty = self.value(args[0], env, binds)
            if mty != 'pwmsg:Wait':
                raise Untranslatable('tx_payload_waiter.send of a %s' % mty)
            x = env.fresh('r'); binds.append((x, m, 'unit')); return x, 'unit'
        if recv == ('field', ('path', ['self']), 'store') and name == 'write':
            kk, kty = self.value(args[0], env, binds); v, vty = self.value(args[1], env, binds)
            if vty == 'ser:Block' and kk == '(block_digest %s)' % v:
                x = env.fresh('r'); binds.append((x, 'store_block %s' % v, 'unit')); return x, 'unit'
            raise Untranslatable('store.write of %s under %s' % (vty, kk))
        raise Untranslatable('call .%s(..) on %s is not a modelled operation' % (name, recv))

    def inline(self, name, args, env, binds):
        if self.depth > 3:
            raise Untranslatable('inlining too deep at %s' % name)
        fn = R.find_fn(self.src, name)
        if fn is None:
            raise Untranslatable('self.%s(..): no such function in this file' % name)
        params, ret, body, _ = fn
        if len(params) != len(args):
            raise Untranslatable('arity of %s' % name)
        env2 = Env(); env2.n = env.n
        for (pn, pty), a in zip(params, args):
            env2.v[pn] = self.value(a, env, binds)
        kind = 'result' if 'Result' in ret else 'plain'
        rty = 'unit' if ret.strip() in ('', '()') or re.search(r'Result\s*<\s*\(\s*\)\s*>', ret) else '?'
        sub = type(self)(self.src, name, kind, self.effects, self.inline_ok); sub.depth = self.depth + 1
        code = sub.block(body, env2, lambda t, ty, e_: 'ret %s' % t)
        x = env.fresh('r')
        binds.append((x, '(%s)' % code, rty))
        return x, rty

    # ------------------------------------------------------------ statements (CPS)
    def wrap(self, binds, code):
        """x1 <- m1 ;; ... ;; code, reading the state right before every part that mentions it"""
        parts = [(x, m, ty) for x, m, ty in binds]
        out = code
        if re.search(r'\bs\b', out) and not out.lstrip().startswith('s <- get'):
            out = 's <- get ;; ' + out
        for x, m, ty in reversed(parts):
            line = ('%s ;;; ' % m) if ty == 'unit' else ('%s <- %s ;; ' % (x, m))
            if re.search(r'\(\w+ s\)', m):
                line = 's <- get ;; ' + line
            out = line + out
        return out

    def always_returns(self, blk):
        if blk is None:
            return False
        stmts = blk[1] if blk[0] == 'block' else [('expr', blk, False)]
        for st in stmts:
            if st[0] == 'expr':
                e = st[1]
                if e[0] in ('return', 'break'):
                    return True
                if e[0] == 'macro' and e[1] in ('panic', 'unreachable'):
                    return True
                if e[0] == 'if' and e[3] is not None and self.always_returns(e[2]) and self.always_returns(e[3]):
                    return True
                if e[0] == 'block' and self.always_returns(e):
                    return True
                if e[0] == 'match' and e[2] and all(self.always_returns(b if b[0] == 'block' else ('block', [('expr', b, False)])) for _, _, b in e[2]):
                    return True
        return False

    def may_return(self, node):
        if isinstance(node, tuple):
            if node and node[0] in ('return', 'break'):
                return True
            if node and node[0] == 'closure':
                return False
            return any(self.may_return(x) for x in node)
        if isinstance(node, list):
            return any(self.may_return(x) for x in node)
        return False

    def assigned(self, node, env, acc):
        """outer locals assigned inside node"""
        if isinstance(node, tuple) and node and node[0] == 'mcall' and node[2] in ('insert', 'push', 'push_front', 'push_back'):
            r = node[1]
            while isinstance(r, tuple) and r and r[0] in ('ref', 'deref'):
                r = r[1]
            if r[0] == 'path' and len(r[1]) == 1 and r[1][0] in env.v and env.v[r[1][0]][1] in ('setN', 'list', 'deque') and r[1][0] not in acc:
                acc.append(r[1][0])
        if isinstance(node, tuple):
            if node and node[0] == 'assign' and node[2][0] == 'path' and len(node[2][1]) == 1 and node[2][1][0] in env.v:
                if node[2][1][0] not in acc:
                    acc.append(node[2][1][0])
            for x in node:
                self.assigned(x, env, acc)
        elif isinstance(node, list):
            for x in node:
                self.assigned(x, env, acc)
        return acc

    def ret_code(self, e, env):
        """code for `return e` / the tail value e of the function"""
        if e is None:
            return 'ret tt'
        e0 = self.strip(e)
        if e0[0] == 'call' and e0[1] == ('path', ['Ok']) and self.kind == 'result':
            binds = []
            t, ty = self.value(e0[2][0], env, binds)
            return self.wrap(binds, 'ret %s' % t)
        if e0[0] == 'call' and e0[1] == ('path', ['Err']) and self.kind == 'result':
            return 'fail %s' % self.err(e0[2][0], env)
        binds = []
        # a tail call of an effect whose Rust value is the function's own result
        if e0[0] == 'mcall':
            rk = self.recv_key(e0[1])
            if rk is not None and (rk, e0[2]) in self.effects and self.effects[(rk, e0[2])][2] and self.kind == 'result':
                tmpl, rty, _ = self.effects[(rk, e0[2])]
                ats = [self.value(a, env, binds)[0] for a in e0[3]]
                return self.wrap(binds, tmpl.format(*ats))
        t, ty = self.value(e0, env, binds)
        if self.kind == 'result' and not ty.startswith('ok:'):
            raise Untranslatable('the function returns a Result but its value `%s` is not Ok(..)/Err(..)/a modelled call' % t)
        return self.wrap(binds, 'ret %s' % t)

    def err(self, e, env):
        e = self.strip(e)
        name = None
        if e[0] in ('struct', 'path'):
            name = e[1][-1]
        elif e[0] == 'call' and e[1][0] == 'path':
            name = e[1][1][-1]
        if name == 'WrongLeader':
            return 'EWrongLeader'
        if name == 'AuthorityReuse':
            return '(EAuthorityReuse %s)' % self.pure(e[2][0], env)[0]
        raise Untranslatable('error value %s' % (name,))

    def block(self, blk, env, kv):
        """blk: ('block', stmts); kv(term, type, env) -> code for what follows the block's value"""
        stmts = list(blk[1])
        tail = None
        if stmts and stmts[-1][0] == 'expr' and not stmts[-1][2] and stmts[-1][1][0] not in ('if', 'iflet', 'match', 'while', 'whilelet', 'for', 'loop') :
            tail = stmts.pop()[1]
        return self.stmts(stmts, tail, env.copy(), kv)

    def stmts(self, stmts, tail, env, kv):
        if not stmts:
            if tail is None:
                return kv('tt', 'unit', env)
            return self.expr_cps(tail, env, kv, is_tail=True)
        st, rest = stmts[0], stmts[1:]
        k_rest = lambda env2: self.stmts(rest, tail, env2, kv)
        if st[0] == 'attr':
            # `#[cfg(feature = "benchmark")]` guards the next statement: a logging loop in the modelled files; dropped with it
            if 'benchmark' in st[1] and rest:
                return self.stmts(rest[1:], tail, env, kv)
            return k_rest(env)
        if st[0] == 'let':
            pat, init = st[1], st[2]
            if init is None:
                raise Untranslatable('let without initialiser')
            return self.expr_cps(init, env, lambda t, ty, env2: self.bind_pat(pat, t, ty, env2, k_rest))
        e = st[1]
        if not rest and tail is None and not st[2] and e[0] in ('if', 'iflet', 'match') and self.is_fn_tail(kv):
            # a branching expression in tail position of the function: its arms produce the function's value
            return self.expr_cps(e, env, kv, is_stmt=False, is_tail=True)
        return self.expr_cps(e, env, lambda t, ty, env2: k_rest(env2), is_stmt=True)

    def bind_pat(self, pat, t, ty, env, k):
        if pat[0] == 'pid':
            env2 = env.copy()
            # a value read from the state is a SNAPSHOT (let-bound right after `s <- get`), never re-read at its later uses
            if re.search(r'\bs\b', t) and not isinstance(t, tuple):
                x = self.coqname(pat[1], env)
                env2.v[pat[1]] = (x, ty)
                return 'let %s := %s in %s' % (x, t, k(env2))
            if re.match(r'^[A-Za-z_][\w\']*$', t) or ty.startswith('ser:') or ty.startswith('cmsg:') or ty.startswith('mmsg:') or ty.startswith('pwmsg:') or ty in ('bcast', 'opt:addr', 'addr') or len(t) < 40:
                env2.v[pat[1]] = (t, ty)
                return k(env2)
            x = self.coqname(pat[1], env)
            env2.v[pat[1]] = (x, ty)
            return 'let %s := %s in %s' % (x, t, k(env2))
        if pat[0] == 'pwild':
            return k(env)
        if pat[0] == 'ptuple' and ty.startswith('pair:') and all(p[0] in ('pid', 'pwild') for p in pat[1]):
            tys = ty.split(':')[1:]
            env2 = env.copy(); names = []
            for p, pty in zip(pat[1], tys):
                x = self.coqname(p[1], env) if p[0] == 'pid' else '_'
                names.append(x)
                if p[0] == 'pid':
                    env2.v[p[1]] = (x, pty)
            return "let '(%s) := %s in %s" % (', '.join(names), t, k(env2))
        raise Untranslatable('pattern %s for a value of type %s' % (pat[0], ty))

    def coqname(self, n, env):
        used = set(t for t, _ in env.v.values())
        x = 'l_' + n
        while x in used:
            x += "'"
        return x

    def cond(self, c, env, binds):
        t, ty = self.value(c, env, binds)
        return t

    def expr_cps(self, e, env, kv, is_stmt=False, is_tail=False):
        k = e[0]
        if is_stmt:
            lm = self.local_mut(e, env)
            if lm is not None:
                n, new, ty = lm
                env2 = env.copy()
                if ty == 'hasher':
                    env2.v[n] = (new, ty)
                    return kv('tt', 'unit', env2)
                x = self.coqname(n, env)
                env2.v[n] = (x, ty)
                return 'let %s := %s in %s' % (x, new, kv('tt', 'unit', env2))
        if k == 'macro':
            name = e[1]
            if name in LOG_MACROS:
                return kv('tt', 'unit', env)
            if name == 'ensure':
                binds = []
                c = self.cond(e[2][0], env, binds)
                return self.wrap(binds, 'if %s then %s else fail %s' % (c, kv('tt', 'unit', env), self.err(e[2][1], env)))
            if name == 'panic':
                return 'panic 999'
            raise Untranslatable('macro %s!' % name)
        if k == 'return':
            return self.ret_code(e[1], env)
        if k == 'block':
            return self.block(e, env, kv)
        if k == 'assign':
            lhs = self.strip(e[2]); op = e[1]
            binds = []
            if lhs[0] == 'field' and lhs[1] == ('path', ['self']):
                if self.self_setters is None or lhs[2] not in self.self_setters or op not in ('=', '+='):
                    raise Untranslatable('assignment to self.%s' % lhs[2])
                t, ty = self.value(e[3], env, binds)
                if op == '+=':
                    t = '(%s + %s)' % (self.self_fields[lhs[2]][0], t)
                code = 'modify (fun s0 => %s s0 %s) ;;; %s' % (self.self_setters[lhs[2]], t, kv('tt', 'unit', env))
                return self.wrap(binds, code)
            if lhs[0] == 'path' and len(lhs[1]) == 1 and lhs[1][0] in env.v:
                n = lhs[1][0]
                old, oty = env.v[n]
                t, ty = self.value(e[3], env, binds)
                new = {'=': t, '&=': '(%s && %s)' % (old, t), '|=': '(%s || %s)' % (old, t), '+=': '(%s + %s)' % (old, t)}.get(op)
                if new is None:
                    raise Untranslatable('assignment operator %s' % op)
                env2 = env.copy()
                x = self.coqname(n, env)
                env2.v[n] = (x, oty)
                return self.wrap(binds, 'let %s := %s in %s' % (x, new, kv('tt', 'unit', env2)))
            raise Untranslatable('assignment to %s' % (lhs,))
        if k in ('if', 'iflet', 'match'):
            return self.branch(e, env, kv, is_stmt, is_tail)
        if k == 'for':
            return self.for_loop(e, env, kv)
        if k == 'break':
            if not self.loops:
                raise Untranslatable('`break` outside a translated while loop')
            return 'ret ((%s), false)' % ', '.join(env.v[m][0] for m in self.loops[-1])
        if k == 'while':
            return self.while_loop(e, env, kv)
        if k == 'whilelet':
            return self.drain_loop(e, env, kv)
        if k == 'loop':
            raise Untranslatable('loop (`%s`)' % k)
        # plain expression
        if is_tail:
            return self.ret_code(e, env) if self.is_fn_tail(kv) else self._value_then(e, env, kv)
        return self._value_then(e, env, kv)

    def is_fn_tail(self, kv):
        return getattr(kv, 'fn_tail', False)

    def _value_then(self, e, env, kv):
        binds = []
        t, ty = self.value(e, env, binds)
        # `if let Err(e) = <send> { log }` style results are handled in branch(); here the value is simply passed on
        return self.wrap(binds, kv(t, ty, env))

    def arms_of(self, e, env, binds):
        """normalise if / if let / match into (scrutinee term, type, [(coq pattern, env updater, body)])"""
        k = e[0]
        if k == 'if':
            c = self.cond(e[1], env, binds)
            return ('if', c, [(None, None, e[2]), (None, None, e[3])])
        if k == 'iflet':
            pat, scrut = e[1], e[2]
            t, ty = self.value(scrut, env, binds)
            return ('match', (t, ty), [(pat, None, e[3]), (('pwild',), None, e[4])])
        t, ty = self.value(e[1], env, binds)
        arms = []
        for pat, guard, body in e[2]:
            if guard is not None:
                raise Untranslatable('match guard')
            arms.append((pat, None, body if body[0] == 'block' else ('block', [('expr', body, False)])))
        return ('match', (t, ty), arms)

    def pat_coq(self, pat, ty, env):
        """-> (coq pattern, env with the bound variables)"""
        env2 = env.copy()
        if pat[0] == 'pwild':
            return '_', env2
        if pat[0] == 'pts' and pat[1] == ['Some'] and ty.startswith('opt:'):
            inner = ty[4:]
            p = pat[2][0]
            if p[0] == 'pid':
                x = self.coqname(p[1], env); env2.v[p[1]] = (x, inner)
                return 'Some %s' % x, env2
            if p[0] == 'pwild':
                return 'Some _', env2
            if p[0] == 'ptuple' and inner.startswith('pair:'):
                tys = inner.split(':')[1:]; names = []
                for q, qty in zip(p[1], tys):
                    x = self.coqname(q[1], env2) if q[0] == 'pid' else '_'
                    names.append(x)
                    if q[0] == 'pid':
                        env2.v[q[1]] = (x, qty)
                return 'Some (%s)' % ', '.join(names), env2
        if pat[0] == 'ppath' and pat[1] == ['None']:
            return 'None', env2
        if pat[0] == 'pid' and pat[1] == 'None':
            return 'None', env2
        raise Untranslatable('pattern %s at type %s' % (pat, ty))

    def branch(self, e, env, kv, is_stmt, is_tail):
        binds = []
        # `if let Err(e) = <effect> { only logging / panic }`: the effect alone
        if e[0] == 'iflet' and e[1][0] == 'pts' and e[1][1] == ['Err'] and e[4] is None:
            body = e[3][1]
            if all(s[0] == 'expr' and s[1][0] == 'macro' and (s[1][1] in LOG_MACROS or s[1][1] == 'panic') for s in body):
                t, ty = self.value(e[2], env, binds)
                return self.wrap(binds, kv('tt', 'unit', env))
        kind, scrut, arms = self.arms_of(e, env, binds)
        bodies = [b for _, _, b in arms]
        returns = [self.always_returns(b) for b in bodies]
        mods = self.assigned([b for b in bodies if b is not None], env, [])
        anyret = any(self.may_return(b) for b in bodies if b is not None)
        fn_tail = is_tail and self.is_fn_tail(kv)

        def arm_code(i, k_after):
            pat, _, body = arms[i]
            env_i = env
            if kind == 'match':
                cp, env_i = self.pat_coq(pat, scrut[1], env)
            if body is None:
                return k_after('tt', 'unit', env_i)
            return self.block(body, env_i, k_after)

        if anyret or fn_tail or not is_stmt:
            # continuation pushed into the arms (an arm that always returns never reaches it)
            k_arm = kv
            codes = [arm_code(i, k_arm) for i in range(len(arms))]
        else:
            # join: the arms produce the outer locals they assign, the continuation follows once
            def k_join(t, ty, env_i):
                if not mods:
                    return 'ret tt'
                return 'ret (%s)' % ', '.join(env_i.v[m][0] for m in mods)
            codes = [arm_code(i, k_join) for i in range(len(arms))]
        if kind == 'if':
            inner = 'if %s then %s else %s' % (scrut, codes[0], codes[1])
        else:
            ps = []
            seen_wild = False
            for (pat, _, _), code in zip(arms, codes):
                cp, _ = self.pat_coq(pat, scrut[1], env)
                ps.append('| %s => %s' % (cp, code))
            inner = 'match %s with %s end' % (scrut[0], ' '.join(ps))
        if anyret or fn_tail or not is_stmt:
            return self.wrap(binds, inner)
        env2 = env.copy()
        if not mods:
            return self.wrap(binds, '(%s) ;;; %s' % (inner, kv('tt', 'unit', env2)))
        names = []
        for m in mods:
            x = self.coqname(m, env2); names.append(x); env2.v[m] = (x, env.v[m][1])
        pat = names[0] if len(names) == 1 else "'(%s)" % ', '.join(names)
        return self.wrap(binds, '%s <- (%s) ;; %s' % (pat, inner, kv('tt', 'unit', env2)))


    # ------------------------------------------------------------ local mutable collections, `for` loops
    def local_mut(self, e, env):
        """`x.insert(v)` / `l.push(v)` / `h.update(v)` on a local: -> (name, new term, type) or None"""
        e = self.strip(e)
        if e[0] == 'mcall':
            recv = self.strip(e[1])
            if recv[0] == 'path' and len(recv[1]) == 1 and recv[1][0] in env.v:
                t, ty = env.v[recv[1][0]]
                if ty == 'setN' and e[2] == 'insert' and len(e[3]) == 1:
                    return recv[1][0], '(set_insert %s %s)' % (self.pure(e[3][0], env)[0], t), ty
                if ty == 'list' and e[2] == 'push' and len(e[3]) == 1:
                    return recv[1][0], '(%s ++ [%s])' % (t, self.pure(e[3][0], env)[0]), ty
                if ty == 'hasher' and e[2] == 'update' and len(e[3]) == 1:
                    return recv[1][0], t + (self.pure(e[3][0], env),), ty
                if ty == 'deque' and e[2] == 'push_front' and len(e[3]) == 1:
                    return recv[1][0], '(%s :: %s)' % (self.pure(e[3][0], env)[0], t), ty
                if ty == 'deque' and e[2] == 'push_back' and len(e[3]) == 1:
                    return recv[1][0], '(%s ++ [%s])' % (t, self.pure(e[3][0], env)[0]), ty
        return None

    def while_loop(self, e, env, kv):
        """`while COND { BODY }` (BODY may `break`) -> acc <- mwhile FUEL (fun acc => ret COND) (fun acc => BODY ;; ret (acc', true)) acc0"""
        cond, body = e[1], e[2]
        if self.fuel is None:
            raise Untranslatable('while loop in a function with no termination measure')
        if any(self.may_return_only(x) for x in [body]):
            raise Untranslatable('`return` inside a while loop')
        mods = self.assigned(body, env, [])
        if not mods:
            raise Untranslatable('while loop that carries no local')
        envb = env.copy(); accn = []
        for m in mods:
            x = self.coqname(m, envb) + '_i'
            envb.v[m] = (x, env.v[m][1]); accn.append(x)
        accpat = "'(%s)" % ', '.join(accn) if len(accn) > 1 else accn[0]
        cb = []
        c = self.cond(cond, envb, cb)
        ccode = self.wrap(cb, 'ret %s' % c)
        self.loops.append(mods)
        try:
            bcode = self.block(body, envb, lambda t, ty, env_i: 'ret ((%s), true)' % ', '.join(env_i.v[m][0] for m in mods))
        finally:
            self.loops.pop()
        init = '(%s)' % ', '.join(env.v[m][0] for m in mods)
        loop = 'mwhile %s (fun %s => %s) (fun %s => %s) %s' % (self.fuel, accpat, ccode, accpat, bcode, init)
        env2 = env.copy(); outn = []
        for m in mods:
            x = self.coqname(m, env2); env2.v[m] = (x, env.v[m][1]); outn.append(x)
        rest = kv('tt', 'unit', env2)
        if len(outn) > 1:
            acc = env.fresh('acc')
            return "%s <- %s ;; let '(%s) := %s in %s" % (acc, loop, ', '.join(outn), acc, rest)
        return '%s <- %s ;; %s' % (outn[0], loop, rest)

    def may_return_only(self, node):
        """a `return` other than `return Err(..)` (which is the monad's `fail` wherever it stands, loops included)"""
        if isinstance(node, tuple):
            if node and node[0] == 'return':
                r = self.strip(node[1]) if node[1] is not None else None
                if self.kind == 'result' and r is not None and r[0] == 'call' and r[1] == ('path', ['Err']):
                    return False
                return True
            if node and node[0] == 'closure':
                return False
            return any(self.may_return_only(x) for x in node)
        if isinstance(node, list):
            return any(self.may_return_only(x) for x in node)
        return False

    def has_break(self, node):
        if isinstance(node, tuple):
            if node and node[0] == 'break':
                return True
            if node and node[0] in ('closure', 'while', 'whilelet', 'for', 'loop'):
                return False
            return any(self.has_break(x) for x in node)
        if isinstance(node, list):
            return any(self.has_break(x) for x in node)
        return False

    def drain_loop(self, e, env, kv):
        """`while let Some(PAT) = DQ.pop_front() { BODY }` over a local deque that BODY does not touch: the elements in order"""
        pat, scrut, body = e[1], self.strip(e[2]), e[3]
        if not (pat[0] == 'pts' and pat[1] == ['Some'] and len(pat[2]) == 1 and pat[2][0][0] == 'pid'):
            raise Untranslatable('while-let pattern')
        if not (scrut[0] == 'mcall' and scrut[2] in ('pop_front', 'pop_back') and not scrut[3]):
            raise Untranslatable('while-let over %s' % (scrut[:1],))
        r = self.strip(scrut[1])
        if not (r[0] == 'path' and len(r[1]) == 1 and r[1][0] in env.v and env.v[r[1][0]][1] == 'deque'):
            raise Untranslatable('while-let: not a local deque')
        dq = r[1][0]
        if self.may_return_only(body) or self.has_break(body) or self.assigned(body, env, []):
            raise Untranslatable('while-let body returns, breaks or updates an outer local')
        lt = env.v[dq][0] if scrut[2] == 'pop_front' else '(rev %s)' % env.v[dq][0]
        envb = env.copy()
        x = self.coqname(pat[2][0][1], envb); envb.v[pat[2][0][1]] = (x, 'Block')
        del envb.v[dq]                     # the deque itself is not visible to the body
        bcode = self.block(body, envb, lambda t, ty, env_i: 'ret tt')
        env2 = env.copy(); env2.v[dq] = ('[]', 'deque')
        return '%s %s (fun %s _ => %s) tt ;;; %s' % (self.for_name, lt, x, bcode, kv('tt', 'unit', env2))

    def for_loop(self, e, env, kv):
        """`for PAT in LIST { BODY }` -> acc <- mfor LIST (fun PAT acc => BODY ;; ret acc') acc0, acc = the outer locals BODY updates"""
        pat, it, body = e[1], e[2], e[3]
        if self.may_return_only(body) or self.has_break(body):
            raise Untranslatable('`return` / `break` inside a for loop')
        lt, lty = self.pure(it, env)
        if lty not in ELEM:
            raise Untranslatable('for loop over a value of type %s' % lty)
        tys = ELEM[lty].split(':')[1:] if ELEM[lty].startswith('pair:') else None
        mods = self.assigned(body, env, [])
        envb = env.copy()
        accn = []
        for m in mods:
            x = self.coqname(m, envb) + '_i'
            envb.v[m] = (x, env.v[m][1]); accn.append(x)
        if tys is None:
            if pat[0] != 'pid':
                raise Untranslatable('loop pattern')
            x = self.coqname(pat[1], envb); envb.v[pat[1]] = (x, ELEM[lty]); elem = x
        else:
            if pat[0] != 'ptuple' or len(pat[1]) != len(tys) or not all(p[0] in ('pid', 'pwild') for p in pat[1]):
                raise Untranslatable('loop pattern')
            names = []
            for p, pty in zip(pat[1], tys):
                if p[0] == 'pid':
                    x = self.coqname(p[1], envb); envb.v[p[1]] = (x, pty); names.append(x)
                else:
                    names.append('_')
            elem = "'(%s)" % ', '.join(names)

        def k_body(t, ty, env_i):
            return 'ret (%s)' % ', '.join(env_i.v[m][0] for m in mods) if mods else 'ret tt'
        bcode = self.block(body, envb, k_body)
        accpat = ("'(%s)" % ', '.join(accn)) if len(accn) > 1 else (accn[0] if accn else '_')
        init = ('(%s)' % ', '.join(env.v[m][0] for m in mods)) if mods else 'tt'
        loop = "%s %s (fun %s %s => %s) %s" % (self.for_name, lt, elem, accpat, bcode, init)
        env2 = env.copy()
        outn = []
        for m in mods:
            x = self.coqname(m, env2); env2.v[m] = (x, env.v[m][1]); outn.append(x)
        rest = kv('tt', 'unit', env2)
        if len(outn) > 1:
            acc = env.fresh('acc')
            code = "%s <- %s ;; let '(%s) := %s in %s" % (acc, loop, ', '.join(outn), acc, rest)
        elif outn:
            code = '%s <- %s ;; %s' % (outn[0], loop, rest)
        else:
            code = '%s ;;; %s' % (loop, rest)
        if re.search(r'\bs\b', loop):
            code = 's <- get ;; ' + code
        return code


def translate_fn(src, name, impl=None, extra_env=None, effects=None, gen_name=None, params_override=None, fuel=None):
    fn = R.find_fn(src, name, impl)
    if fn is None:
        raise Untranslatable('fn %s not found' % name)
    params, ret, body, line = fn
    kind = 'result' if 'Result' in ret else 'plain'
    env = Env(extra_env or {})
    coq_params = []
    for pn, pty in params:
        ty = rtype(pty)
        if ty.startswith('?'):
            raise Untranslatable('parameter %s of type %s' % (pn, pty))
        x = 'p_' + pn
        env.v[pn] = (x, ty)
        coq_params.append('(%s : %s)' % (x, COQTYPE[ty]))
    tr = Tr(src, name, kind, effects)
    tr.fuel = fuel

    def kv(t, ty, env2):
        if kind == 'result':
            raise Untranslatable('fall-through value `%s` in a function returning a Result' % t)
        return 'ret %s' % t
    kv.fn_tail = True
    code = tr.block(body, env, kv)
    return coq_params, code, line, ret


def pretty(code, width=150):
    # one bind per line
    out, depth, cur = [], 0, ''
    toks = re.split(r'( ;;; | ;; )', code)
    lines = []
    buf = ''
    for t in toks:
        buf += t
        if t in (' ;;; ', ' ;; '):
            lines.append(buf.rstrip()); buf = ''
    if buf: lines.append(buf)
    return '\n    '.join(lines)


# when a function can no longer be translated its gen_f falls back on the model function (the site is reported as untied)
FALLBACK = {
    'gen_increase_last_voted_round': '(p_target : N) : M unit := increase_last_voted p_target',
    'gen_make_vote': '(p_block : Block) : M (option Vote) := make_vote me p_block',
    'gen_update_high_qc': '(p_qc : QC) : M unit := update_high_qc p_qc',
    'gen_local_timeout_round': ': M unit := local_timeout c me hint',
    'gen_handle_vote': '(p_vote : Vote) : M unit := handle_vote c me hint p_vote',
    'gen_handle_timeout': '(p_timeout : Timeout) : M unit := handle_timeout c me hint p_timeout',
    'gen_advance_round': '(p_round : N) : M unit := advance_round p_round',
    'gen_generate_proposal': '(p_tc : option TC) : M unit := generate_proposal me hint p_tc',
    'gen_cleanup_proposer': '(p_b0 p_b1 p_block : Block) : M unit := proposer_cleanup (b_payload p_b0 ++ b_payload p_b1 ++ b_payload p_block)',
    'gen_process_qc': '(p_qc : QC) : M unit := process_qc p_qc',
    'gen_process_block': '(p_block : Block) : M unit := process_block c me dq hint p_block',
    'gen_handle_proposal': '(p_block : Block) : M unit := handle_proposal c me dq hint p_block',
    'gen_handle_tc': '(p_tc : TC) : M unit := handle_tc c me hint p_tc',
    'gen_store_block': '(p_block : Block) : M unit := store_block p_block',
    'gen_get_ancestors': '(p_block : Block) : M (option (Block * Block)) := get_ancestors p_block',
    'gen_get_parent_block': '(p_block : Block) : M (option Block) := get_parent_block p_block',
    'gen_mempool_verify': '(p_block : Block) : M bool := mempool_verify p_block',
    'gen_commit': '(p_block : Block) : M unit := commit dq p_block',
}


def main():
    core = open(os.path.join(REPO, 'consensus/src/core.rs')).read()
    sync = open(os.path.join(REPO, 'consensus/src/synchronizer.rs')).read()
    memp = open(os.path.join(REPO, 'consensus/src/mempool.rs')).read()
    eff = EFFECTS(None)
    targets = [
        # (gen name, source text, file, fn, impl, model function applied to the section variables and parameters)
        ('gen_increase_last_voted_round', core, 'core.rs', 'increase_last_voted_round', None),
        ('gen_make_vote', core, 'core.rs', 'make_vote', None),
        ('gen_update_high_qc', core, 'core.rs', 'update_high_qc', None),
        ('gen_local_timeout_round', core, 'core.rs', 'local_timeout_round', None),
        ('gen_handle_vote', core, 'core.rs', 'handle_vote', None),
        ('gen_handle_timeout', core, 'core.rs', 'handle_timeout', None),
        ('gen_advance_round', core, 'core.rs', 'advance_round', None),
        ('gen_generate_proposal', core, 'core.rs', 'generate_proposal', None),
        ('gen_cleanup_proposer', core, 'core.rs', 'cleanup_proposer', None),
        ('gen_process_qc', core, 'core.rs', 'process_qc', None),
        ('gen_process_block', core, 'core.rs', 'process_block', None),
        ('gen_handle_proposal', core, 'core.rs', 'handle_proposal', None),
        ('gen_handle_tc', core, 'core.rs', 'handle_tc', None),
        ('gen_store_block', core, 'core.rs', 'store_block', None),
        ('gen_get_ancestors', sync, 'synchronizer.rs', 'get_ancestors', 'Synchronizer'),
        ('gen_get_parent_block', sync, 'synchronizer.rs', 'get_parent_block', 'Synchronizer'),
        ('gen_mempool_verify', memp, 'mempool.rs', 'verify', 'MempoolDriver'),
        ('gen_commit', core, 'core.rs', 'commit', None),
    ]
    # termination measure of the ancestor walk in commit(): the depth of the committed block's digest term (+2)
    fuels = {'gen_commit': '(commit_fuel p_block)'}
    # the same store handle means different things in different tasks: blocks under their digest for the synchronizer, batches for the mempool driver
    extra_eff = {'gen_get_parent_block': {('self.store', 'read'): ('store_read_block {0}', 'opt:ser:Block', True)},
                 'gen_mempool_verify': {('self.store', 'read'): ('batch_read {0}', 'opt:bytes', True)}}
    defs, status = [], []
    for gname, src, fname, fn, impl in targets:
        e2 = dict(eff)
        e2.update(extra_eff.get(gname, {}))
        if gname == 'gen_get_parent_block':
            del e2[('self', 'get_parent_block')]      # its own body, not the model function
        # a function's own body must not be replaced by the model function it is tied to (recursion aside)
        try:
            if gname == 'gen_commit':
                del e2[('self', 'commit')]
            params, code, line, ret = translate_fn(src, fn, impl, effects=e2, fuel=fuels.get(gname))
            rt = {'gen_make_vote': 'option Vote', 'gen_get_ancestors': 'option (Block * Block)', 'gen_get_parent_block': 'option Block', 'gen_mempool_verify': 'bool'}.get(gname, 'unit')
            defs.append('(* %s: fn %s (line %d) -> %s *)\nDefinition %s (c : Committee) (me : N) (dq : DqCfg) (hint : list N) %s : M (%s) :=\n    %s.' % (fname, fn, line, ' '.join(ret.split()), gname, ' '.join(params), rt, pretty(code)))
            status.append({'name': gname, 'file': fname, 'fn': fn, 'line': line, 'ok': True})
        except (Untranslatable, R.ParseError, SyntaxError, KeyError, IndexError, TypeError) as ex:
            status.append({'name': gname, 'file': fname, 'fn': fn, 'ok': False, 'untied': '%s: %s' % (type(ex).__name__, ex)})
            # reported as untied by ./check; the definition falls back on the model function so that the file and the other tie lemmas still compile
            defs.append('(* UNTIED %s: %s *)\nDefinition %s (c : Committee) (me : N) (dq : DqCfg) (hint : list N) %s.' % (gname, str(ex).replace('*)', '* )'), gname, FALLBACK[gname]))
    hdr = ('(* GENERATED by tools/skel.py from %s -- do not edit.  The statement skeleton of each function, in the monad of Node.v;\n'
           '   callees are the model functions; Tie.v proves each gen_f equal to the model function f. *)\n'
           'From Coq Require Import List NArith Bool.\nFrom HS Require Import GTac Node SkelPrims.\nImport ListNotations.\nOpen Scope N_scope.\n\n'
           '\n' % REPO)
    new = hdr + '\n\n'.join(defs) + '\n'
    strip_cmt = lambda t: re.sub(r'\(\*.*?\*\)', '', t or '', flags=re.S)
    old = open(OUT).read() if os.path.exists(OUT) else None
    if old is None or strip_cmt(old) != strip_cmt(new):
        open(OUT, 'w').write(new)
    if STATUS:
        json.dump({'functions': status, 'untied': [[s['name'], s['untied']] for s in status if not s['ok']]}, open(STATUS, 'w'), indent=1)
    print('skeleton functions=%d untied=%s' % (len(status), [[s['name'], s['untied']] for s in status if not s['ok']]))


if __name__ == '__main__':
    main()
