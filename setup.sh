#!/bin/sh
# Build the framework from files on disk only (offline): Coq development + correspondence harness.
set -e
cd "$(dirname "$0")"
export CARGO_NET_OFFLINE=true
mkdir -p .build evidence
python3 tools/regen.py /repo coq/Guards.v .build/regen.json
python3 tools/skel.py /repo coq/GenCore.v .build/skel.json
python3 tools/skelagg.py /repo coq/GenAgg.v .build/skelagg.json
( cd coq && coq_makefile -f _CoqProject -o Makefile >/dev/null && timeout 3000 make -j16 -k >../.build/coq_setup.log 2>&1 || { tail -30 ../.build/coq_setup.log; echo "coq build had failures (reported per property by ./check)"; } )
[ -f harness/Cargo.lock ] || cp /repo/Cargo.lock harness/Cargo.lock
( cd harness && CARGO_TARGET_DIR=/verif/.build/target timeout 3000 cargo build --offline --bins 2>&1 | tail -3 )
echo "setup done"
