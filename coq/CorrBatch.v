(* Correspondence for BatchMaker + Processor (C11). *)
From Coq Require Import List NArith Bool.
From HS Require Import Guards BatchMakerDefs CorrComp.
Import ListNotations.
Open Scope N_scope.

Definition tx_eqb := bytes_eqb.
Definition batch_eqb (a b : list tx) : bool := forallb2 tx_eqb a b.
Fixpoint prefixb (a b : list tx) : bool :=
  match a, b with [] , _ => true | x :: xs, y :: ys => tx_eqb x y && prefixb xs ys | _, _ => false end.
(* evs: what the real BatchMaker was fed; obs: the batches it sealed after each event (exact bytes decoded);
   panicked: whether the task died; flags: [stored under the hash of the exact bytes; digest announced = that hash;
   broadcast bytes = handed-on bytes; each acknowledgement handler is paired with the name of the peer it was sent to]
   as observed on the real Processor/network *)
(* after every timer event nothing accepted so far is left unsealed: [got] transactions received, [out] sealed so far *)
Fixpoint timer_seals (evs : list bev) (obs : list (list (list tx))) (got out : nat) : bool :=
  match evs, obs with
  | e :: er, o :: or =>
      let got' := match e with BTx _ => S got | BTimer => got end in
      let out' := (out + length (concat o))%nat in
      (match e with BTimer => Nat.eqb got' out' | BTx _ => true end) && timer_seals er or got' out'
  | _, _ => true
  end.
Definition batch_case (bench : bool) (bs : N) (evs : list bev) (obs : list (list (list tx))) (panicked : bool) (flags : list bool) : list N :=
  let '(model, mp) := brun_ev bench bs (mkBM [] 0) evs in
  let sealed := concat obs in
  verdict_of ([ b2n (forallb2 (forallb2 batch_eqb) model obs); b2n (Bool.eqb mp panicked) ] ++
              (* monitors on the observation: the sealed batches, concatenated, are a prefix of the received
                 transactions in arrival order (each exactly once, byte for byte); none is empty; nothing is left
                 unsealed after a timer event; sealing happens as soon as the threshold is reached; no panic *)
              [ b2n (prefixb (concat sealed) (txs_of evs));
                b2n (forallb (fun b => negb (is_nil b)) sealed);
                b2n (negb panicked);
                b2n (panicked || timer_seals evs obs 0 0) ] ++ map b2n flags).
