(* Tie lemma for `handle_tc`: the statement skeleton REGENERATED from the Rust source (GenCore.v, tools/skel.py) computes, for every
   argument and every state, exactly what the hand-written model function does (same state, same outputs, same result). *)
From Coq Require Import List NArith Bool Lia ZArith.
From Coq Require Import ZifyN ZifyBool.
From HS Require Import TieTac GenCore.
Import ListNotations.
Open Scope N_scope.

Lemma tie_handle_tc c me dq hint tc s : gen_handle_tc c me dq hint tc s = handle_tc c me hint tc s.
Proof. unfold gen_handle_tc, handle_tc. tie. Qed.
