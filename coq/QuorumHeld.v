(* C12, second sentence: "Hence any digest an honest node proposes from its own clients is held by at least f+1 honest nodes" --
   as stake: when the quorum waiter forwards a batch, the stake of the honest authorities that hold it (the creator and the honest
   acknowledgers among those counted) exceeds f, whatever the stake distribution, the arrival order and the identity of the
   (at most f stake of) Byzantine acknowledgers.  The threshold is the formula REGENERATED from mempool/src/config.rs. *)
From Coq Require Import List NArith Bool Lia ZArith.
From Coq Require Import ZifyN ZifyBool.
From HS Require Import Guards QuorumWaiterDefs QuorumWaiter.
Import ListNotations.
Open Scope N_scope.
Ltac Zify.zify_post_hook ::= Z.div_mod_to_equations.

Section Held.
  Variable stake : N -> N.
  Variable byz : N -> bool.

  Lemma wsum_split l : wsum stake l = wsum stake (filter byz l) + wsum stake (filter (fun x => negb (byz x)) l).
  Proof. induction l as [|x l IH]; cbn [filter wsum]; [reflexivity|]. destruct (byz x); cbn [negb wsum]; lia. Qed.

  Lemma wsum_filter_firstn k l : wsum stake (filter byz (firstn k l)) <= wsum stake (filter byz l).
  Proof.
    revert k; induction l as [|x l IH]; intros [|k]; cbn [firstn filter wsum]; try lia.
    specialize (IH k). destruct (byz x); cbn [wsum]; lia.
  Qed.

  (* n = total stake, f = floor((n-1)/3); own = the creator's stake (an honest node: the property speaks of honest proposers) *)
  Theorem c12_held_by_honest n own acks k :
    1 <= n ->
    wsum stake (filter byz acks) <= (n - 1) / 3 ->
    qw stake (g_quorum_mempool n) own acks = Some k ->
    own + wsum stake (filter (fun x => negb (byz x)) (firstn (S k) acks)) >= (n - 1) / 3 + 1.
  Proof.
    intros Hn Hb Hq. apply c12_first_quorum in Hq. destruct Hq as [_ [Hq _]].
    rewrite (wsum_split (firstn (S k) acks)) in Hq.
    pose proof (wsum_filter_firstn (S k) acks) as Hm.
    unfold g_quorum_mempool in Hq. lia.
  Qed.

  (* non-vacuity: 4 authorities of stake 1, the third acknowledger Byzantine; forwarded at the second ack, held by 3 > f = 1 honest *)
  Example c12_held_example :
    qw (fun _ => 1) (g_quorum_mempool 4) 1 [1; 2; 3] = Some 1%nat.
  Proof. reflexivity. Qed.
End Held.
