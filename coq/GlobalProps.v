(* Explicit per-property corollaries of the node invariant at the level of the global model:
   C03 (voting safety), C05 (commit rule), C10 (pacemaker: monotone round, timeouts dominate voted QCs). *)
From Coq Require Import List NArith Lia Bool ZifyN ZifyBool.
From HS Require Import GTac Node Proto Link NodeInv Global.
Import ListNotations.
Open Scope N_scope.

Section GP.
  Variable c : Committee.
  Variable honest : N -> bool.
  Hypothesis members_nodup : NoDup (members c).
  Notation stk := (stk c).
  Notation mem := (members c).
  Hypothesis byz_bound : 3 * byz_stake stk mem honest < total stk mem.
  Set Default Proof Using "members_nodup byz_bound".

  Lemma hist_ok_suffix w l1 l2 : hist_ok stk mem honest w (l1 ++ l2) -> hist_ok stk mem honest w l2.
  Proof. induction l1 as [|e l1 IH]; simpl; intros H; [exact H|]. inversion H; subst; auto. Qed.

  (* C03. The ghost history records every vote and timeout an honest node signs, at the signing point,
     newest first. For every vote in it: it is for a block; EVERY older event of this node -- vote or
     timeout -- has a strictly smaller round (so vote rounds strictly increase, at most one vote per round,
     and no vote for a round for which a timeout was issued before); the block's QC is of a lower round;
     and either the QC is of the immediately preceding round, or the block carries a valid TC of the
     preceding round none of whose reported high-QC rounds exceeds the round of the block's QC. *)
  Theorem c03_voting_safety g a l1 d qcr j l2 :
    greach c honest g -> honest a = true -> s_hist (g a) = l1 ++ HVote d qcr j :: l2 ->
    is_blk d /\
    (forall e, In e l2 -> evround e < dround d) /\
    qcr < dround d /\
    match j with
    | JDirect => qcr + 1 = dround d
    | JTC tcr entries => validtc stk mem honest (gw g) tcr entries /\ tcr + 1 = dround d /\
                         forall s hq, In (s, hq) entries -> hq <= qcr
    end.
  Proof.
    intros Hr Ha E.
    assert (HG := greach_inv c honest members_nodup byz_bound g Hr).
    assert (Hw := GInv_winv c honest g HG a Ha). unfold gw at 2 in Hw. rewrite E in Hw.
    apply hist_ok_suffix in Hw. inversion Hw; subst. repeat split; auto.
  Qed.

  (* one vote per round, as a direct corollary *)
  Corollary c03_one_vote_per_round g a d1 q1 j1 d2 q2 j2 :
    greach c honest g -> honest a = true ->
    In (HVote d1 q1 j1) (s_hist (g a)) -> In (HVote d2 q2 j2) (s_hist (g a)) -> dround d1 = dround d2 -> d1 = d2.
  Proof.
    intros Hr Ha H1 H2 E.
    assert (HG := greach_inv c honest members_nodup byz_bound g Hr).
    assert (Hw := GInv_winv c honest g HG a Ha).
    eapply hist_vote_unique; eauto.
  Qed.

  (* C05. Every digest an honest node handed to its commit channel is `committed` in the world of recorded
     votes: it is, or is an ancestor of, a block d0 such that d0 and a child of d0 of round exactly
     round(d0)+1 are both certified (a duplicate-free set of members holding a quorum whose honest members
     all voted for it). *)
  Theorem c05_commit_rule g a d :
    greach c honest g -> honest a = true -> In d (s_log (g a)) ->
    exists d0 d1, ext d d0 /\ is_blk d1 /\ dparent d1 = d0 /\
                  certified stk mem honest (gw g) d0 (dround d0) /\
                  certified stk mem honest (gw g) d1 (dround d0 + 1).
  Proof.
    intros Hr Ha Hin.
    assert (HG := greach_inv c honest members_nodup byz_bound g Hr).
    assert (Hc : committed stk mem honest (gw g) d).
    { eapply committed_mono; [apply cw_gw_le|]. apply (i_log _ _ _ _ _ (HG a Ha)). exact Hin. }
    destruct Hc as [d0 [[d1 [B [P [C0 C1]]]] E]]. exists d0, d1. auto.
  Qed.

  (* C10 (a): along every step of the global system no honest node's round, high-QC round or last voted
     round decreases. *)
  Theorem c10_monotone g g' a :
    greach c honest g -> gstep c honest g g' -> honest a = true ->
    s_round (g a) <= s_round (g' a) /\ qc_round (s_high_qc (g a)) <= qc_round (s_high_qc (g' a)).
  Proof.
    intros Hr Hs Ha. assert (HG := greach_inv c honest members_nodup byz_bound g Hr).
    inversion Hs as [g0 b hint e Hb Hadm]; subst. unfold gupd. destruct (N.eqb_spec a b) as [->|Hne]; [|lia].
    pose proof (step_inv c b honest members_nodup Hb (gw g) byz_bound hint e (g b) (HG b Hb)
                  (msg_adm_ev_adm c honest members_nodup g b e Hadm)) as S.
    destruct (step c b src_dq hint e (g b)) as [[s' o] r]. simpl. destruct S as [_ [_ [S1 S2]]]. lia.
  Qed.

  (* C10 (c): every timeout an honest node signed carries a QC round at least the QC round of every block
     it voted for before; and the node's current high QC dominates the QC of every block it ever voted for. *)
  Theorem c10_timeout_dominates g a l1 r hqr l2 d qcr j :
    greach c honest g -> honest a = true -> s_hist (g a) = l1 ++ HTimeout r hqr :: l2 ->
    In (HVote d qcr j) l2 -> qcr <= hqr.
  Proof.
    intros Hr Ha E Hin.
    assert (HG := greach_inv c honest members_nodup byz_bound g Hr).
    assert (Hw := GInv_winv c honest g HG a Ha). unfold gw at 2 in Hw. rewrite E in Hw.
    apply hist_ok_suffix in Hw. inversion Hw; subst. eauto.
  Qed.
  Theorem c10_high_qc_dominates g a d qcr j :
    greach c honest g -> honest a = true -> In (HVote d qcr j) (s_hist (g a)) -> qcr <= qc_round (s_high_qc (g a)).
  Proof.
    intros Hr Ha Hin. assert (HG := greach_inv c honest members_nodup byz_bound g Hr).
    apply (i_hist_hq _ _ _ _ _ (HG a Ha) d qcr j Hin).
  Qed.
  (* the pacemaker's standing invariant: the high QC is below the current round, last voted round at most the round *)
  Theorem c10_pace g a :
    greach c honest g -> honest a = true ->
    qc_round (s_high_qc (g a)) < s_round (g a) /\ s_last_voted (g a) <= s_round (g a).
  Proof.
    intros Hr Ha. assert (HG := greach_inv c honest members_nodup byz_bound g Hr). apply (i_pace _ _ _ _ _ (HG a Ha)).
  Qed.
End GP.
