(* C07 (catch-up): the consensus synchronizer of the node model. An invariant over the store, the parked blocks
   and the outstanding requests, preserved by every step on every input (no admissibility hypothesis); the exact
   effect of a store write (release) and of a parking (request emission). Lifted to all reachable states in
   GlobalSync.v. *)
From Coq Require Import List NArith Lia Bool.
From HS Require Import GTac Node SyncDefs.
Import ListNotations.
Open Scope N_scope.

(* ---------- digest equality test ---------- *)
Lemma deqb_eq d1 : forall d2, digest_eqb d1 d2 = true -> d1 = d2.
Proof.
  induction d1 as [|a r pl p IH|k]; intros [|a' r' pl' p'|k']; simpl; try discriminate; auto.
  - intros H. repeat (apply andb_true_iff in H; destruct H as [H ?]).
    apply N.eqb_eq in H. apply N.eqb_eq in H2. apply IH in H0. subst. f_equal.
    clear - H1. revert pl' H1. induction pl as [|x xs IHx]; intros [|y ys]; simpl; try discriminate; auto.
    intros H. apply andb_true_iff in H. destruct H as [H1 H2]. apply N.eqb_eq in H1. subst.
    f_equal. auto.
  - intros H. apply N.eqb_eq in H. subst. reflexivity.
Qed.
Lemma deqb_refl d : digest_eqb d d = true.
Proof.
  induction d as [|a r pl p IH|k]; simpl; auto.
  - rewrite !N.eqb_refl, IH. simpl. rewrite andb_true_r.
    induction pl as [|x xs IHx]; simpl; auto. rewrite N.eqb_refl. exact IHx.
  - apply N.eqb_refl.
Qed.
Lemma deqb_false d1 d2 : digest_eqb d1 d2 = false <-> d1 <> d2.
Proof.
  split.
  - intros H E. subst. rewrite deqb_refl in H. discriminate.
  - intros H. destruct (digest_eqb d1 d2) eqn:E; auto. exfalso. apply H, deqb_eq, E.
Qed.
Lemma deqb_true d1 d2 : digest_eqb d1 d2 = true <-> d1 = d2.
Proof. split; [apply deqb_eq|intros ->; apply deqb_refl]. Qed.

Lemma exists_deqb d l : existsb (digest_eqb d) l = true <-> In d l.
Proof.
  rewrite existsb_exists. split.
  - intros [x [Hx E]]. apply deqb_eq in E. subst. exact Hx.
  - intros H. exists d. split; auto. apply deqb_refl.
Qed.
Lemma exists_deqb_false d l : existsb (digest_eqb d) l = false <-> ~ In d l.
Proof.
  split.
  - intros E Hin. apply exists_deqb in Hin. congruence.
  - intros H. destruct (existsb (digest_eqb d) l) eqn:E; auto. exfalso. apply H, exists_deqb, E.
Qed.
Lemma exists_beqb b l : existsb (block_eqb b) l = true <-> In (block_digest b) (map block_digest l).
Proof.
  rewrite existsb_exists, in_map_iff. unfold block_eqb. split.
  - intros [x [Hx E]]. apply deqb_eq in E. exists x. auto.
  - intros [x [E Hx]]. exists x. split; auto. rewrite E. apply deqb_refl.
Qed.
Lemma exists_beqb_false b l : existsb (block_eqb b) l = false <-> ~ In (block_digest b) (map block_digest l).
Proof.
  split.
  - intros E Hin. apply exists_beqb in Hin. congruence.
  - intros H. destruct (existsb (block_eqb b) l) eqn:E; auto. exfalso. apply H, exists_beqb, E.
Qed.

Lemma store_get_in d st b : store_get d st = Some b -> In (d, b) st.
Proof.
  induction st as [|[k v] r IH]; simpl; [discriminate|].
  destruct (digest_eqb d k) eqn:E; [|intros H; right; auto].
  intros H. inversion H; subst. left. f_equal. symmetry. apply deqb_eq. exact E.
Qed.
Lemma store_get_cons x d b st :
  store_get x ((d, b) :: st) = if digest_eqb x d then Some b else store_get x st.
Proof. reflexivity. Qed.
Lemma store_get_grow x d b st : store_get x st <> None -> store_get x ((d, b) :: st) <> None.
Proof. rewrite store_get_cons. destruct (digest_eqb x d); [discriminate|auto]. Qed.

Lemma NoDup_map_filter {A B} (f : A -> B) (g : A -> bool) l : NoDup (map f l) -> NoDup (map f (filter g l)).
Proof.
  induction l as [|x l IH]; simpl; [auto|]. intros H. inversion H as [|? ? Hn Hd]; subst.
  destruct (g x); simpl; [|auto]. constructor; [|auto].
  intros Hin. apply Hn. apply in_map_iff in Hin. destruct Hin as [y [E Hy]]. apply filter_In in Hy.
  apply in_map_iff. exists y. tauto.
Qed.
Lemma NoDup_snoc {A} (l : list A) x : NoDup l -> ~ In x l -> NoDup (l ++ [x]).
Proof.
  induction l as [|y l IH]; simpl; intros H Hn; [constructor; [intros []|constructor]|].
  inversion H as [|? ? Hy Hd]; subst. constructor.
  - intros Hin. apply in_app_or in Hin. destruct Hin as [Hin|[E|[]]]; [auto|]. subst. apply Hn. left. reflexivity.
  - apply IH; auto.
Qed.
Lemma sync_reqs_app o1 o2 : sync_reqs (o1 ++ o2) = sync_reqs o1 ++ sync_reqs o2.
Proof. unfold sync_reqs. apply flat_map_app. Qed.
Lemma in_sync_reqs a d o : In (a, d) (sync_reqs o) <-> In (OSyncReq a d) o.
Proof.
  unfold sync_reqs. rewrite in_flat_map. split.
  - intros [x [Hx Hin]]. destruct x; simpl in Hin; try contradiction. destruct Hin as [E|[]]. inversion E; subst. exact Hx.
  - intros H. exists (OSyncReq a d). split; [exact H|left; reflexivity].
Qed.

(* ---------- the invariant ---------- *)
(* the parent of [b] can be handed over without asking anybody: [b] extends genesis, or its parent is stored *)
Definition resolv (s : State) (b : Block) : Prop :=
  qc_eqb (b_qc b) qc_genesis = true \/ exists p, store_get (parent b) (s_store s) = Some p.

Record SyncInv (s : State) : Prop := {
  (* (a) a parked block waits for a parent that is really missing, and does not extend genesis *)
  si_missing : forall p, In p (s_sync_pending s) -> store_get (parent p) (s_store s) = None;
  si_nongen : forall p, In p (s_sync_pending s) -> qc_eqb (b_qc p) qc_genesis = false;
  (* (b) parked once *)
  si_once : NoDup (map block_digest (s_sync_pending s));
  (* (c) one outstanding request per missing link, and none without a parked block *)
  si_req_src : forall d, In d (s_sync_requests s) -> exists p, In p (s_sync_pending s) /\ parent p = d;
  si_req_nodup : NoDup (s_sync_requests s);
  si_req_all : forall p, In p (s_sync_pending s) -> In (parent p) (s_sync_requests s);
  (* the store is keyed by block digests and closed under parents *)
  si_keyed : forall d b, In (d, b) (s_store s) -> d = block_digest b;
  si_closed : forall d b, In (d, b) (s_store s) -> resolv s b
}.

(* an outstanding request names a digest that is not in the store *)
Lemma si_req_missing s d : SyncInv s -> In d (s_sync_requests s) -> store_get d (s_store s) = None.
Proof. intros H Hd. destruct (si_req_src s H d Hd) as [p [Hp <-]]. exact (si_missing s H p Hp). Qed.

Lemma SyncInv_init c : SyncInv (init c).
Proof.
  constructor; simpl; try (intros; contradiction); try constructor.
Qed.

(* the invariant reads three fields only *)
Definition sync_eq (s s' : State) : Prop :=
  s_store s' = s_store s /\ s_sync_pending s' = s_sync_pending s /\ s_sync_requests s' = s_sync_requests s.
Lemma sync_eq_refl s : sync_eq s s. Proof. repeat split. Qed.
Lemma sync_eq_sym a b : sync_eq a b -> sync_eq b a.
Proof. intros [A [B C]]. repeat split; congruence. Qed.
Lemma sync_eq_trans a b d : sync_eq a b -> sync_eq b d -> sync_eq a d.
Proof. intros [A [B C]] [A' [B' C']]. repeat split; congruence. Qed.
Lemma resolv_eq s s' b : s_store s' = s_store s -> resolv s b -> resolv s' b.
Proof. unfold resolv. intros ->. auto. Qed.
Lemma SyncInv_eq s s' : sync_eq s s' -> SyncInv s -> SyncInv s'.
Proof.
  intros [A [B C]] H. destruct H. constructor; rewrite ?A, ?B, ?C; auto.
  intros d b Hin. eapply resolv_eq; [exact A|]. eapply si_closed0. exact Hin.
Qed.

(* ---------- parking: exact effect ---------- *)
Lemma sync_park_eq b s :
  sync_park b s =
    if existsb (block_eqb b) (s_sync_pending s) then (s, [], ROk tt)
    else if existsb (digest_eqb (parent b)) (s_sync_requests s)
         then (set_sync s (s_sync_pending s ++ [b]) (s_sync_requests s), [], ROk tt)
         else (set_sync s (s_sync_pending s ++ [b]) (parent b :: s_sync_requests s), [req_of b], ROk tt).
Proof.
  unfold sync_park, bind, get, modify, emit, ret, parent, req_of. simpl.
  destruct (existsb (block_eqb b) (s_sync_pending s)); [reflexivity|]. simpl.
  destruct (existsb (digest_eqb (qc_hash (b_qc b))) (s_sync_requests s)); reflexivity.
Qed.

Lemma sync_park_store b s : s_store (fstate (sync_park b s)) = s_store s.
Proof.
  rewrite sync_park_eq. destruct (existsb _ _); [reflexivity|]. destruct (existsb _ _); reflexivity.
Qed.
Lemma sync_park_ok b s : fres (sync_park b s) = ROk tt.
Proof.
  rewrite sync_park_eq. destruct (existsb _ _); [reflexivity|]. destruct (existsb _ _); reflexivity.
Qed.

(* the parking depends on, and changes, the synchronizer fields only *)
Lemma sync_park_cong b s1 s2 :
  sync_eq s1 s2 -> sync_eq (fstate (sync_park b s1)) (fstate (sync_park b s2)) /\ fouts (sync_park b s1) = fouts (sync_park b s2).
Proof.
  intros [A [B C]]. rewrite !sync_park_eq, B, C.
  destruct (existsb _ _); [split; [repeat split; auto|reflexivity]|].
  destruct (existsb _ _); (split; [repeat split; simpl; auto|reflexivity]).
Qed.

Lemma park_inv b s :
  SyncInv s -> store_get (parent b) (s_store s) = None -> qc_eqb (b_qc b) qc_genesis = false ->
  SyncInv (fstate (sync_park b s)).
Proof.
  intros H Hm Hg. rewrite sync_park_eq.
  destruct (existsb (block_eqb b) (s_sync_pending s)) eqn:Eb; [exact H|].
  apply exists_beqb_false in Eb.
  assert (Hnd : NoDup (map block_digest (s_sync_pending s ++ [b]))).
  { rewrite map_app. simpl. apply NoDup_snoc; [exact (si_once s H)|exact Eb]. }
  destruct (existsb (digest_eqb (parent b)) (s_sync_requests s)) eqn:Er; unfold fstate; simpl.
  - apply exists_deqb in Er. destruct H. constructor; simpl; auto.
    + intros p Hp. apply in_app_or in Hp. destruct Hp as [Hp|[<-|[]]]; auto.
    + intros p Hp. apply in_app_or in Hp. destruct Hp as [Hp|[<-|[]]]; auto.
    + intros d Hd. destruct (si_req_src0 d Hd) as [p [Hp E]]. exists p. split; [apply in_or_app; auto|exact E].
    + intros p Hp. apply in_app_or in Hp. destruct Hp as [Hp|[<-|[]]]; auto.
  - apply exists_deqb_false in Er. destruct H. constructor; simpl; auto.
    + intros p Hp. apply in_app_or in Hp. destruct Hp as [Hp|[<-|[]]]; auto.
    + intros p Hp. apply in_app_or in Hp. destruct Hp as [Hp|[<-|[]]]; auto.
    + intros d [<-|Hd].
      * exists b. split; [apply in_or_app; right; left; reflexivity|reflexivity].
      * destruct (si_req_src0 d Hd) as [p [Hp E]]. exists p. split; [apply in_or_app; auto|exact E].
    + constructor; auto.
    + intros p Hp. apply in_app_or in Hp. destruct Hp as [Hp|[<-|[]]]; [right; auto|left; reflexivity].
Qed.

(* ---------- store write: exact effect (the release) ---------- *)
Lemma store_block_eq b s :
  store_block b s =
    (set_loopback
       (set_sync (set_store s ((block_digest b, b) :: s_store s))
                 (kept (block_digest b) (s_sync_pending s))
                 (if existsb (fun _ => true) (woken (block_digest b) (s_sync_pending s))
                  then drop_req (block_digest b) (s_sync_requests s) else s_sync_requests s))
       (s_loopback s ++ woken (block_digest b) (s_sync_pending s)), [], ROk tt).
Proof. reflexivity. Qed.

Lemma existsb_true_nil {A} (l : list A) : existsb (fun _ => true) l = false -> l = [].
Proof. destruct l; [reflexivity|discriminate]. Qed.

Lemma drop_req_absent d l : ~ In d l -> drop_req d l = l.
Proof.
  unfold drop_req. induction l as [|x l IH]; simpl; [reflexivity|]. intros Hn.
  assert (E : digest_eqb x d = false) by (apply deqb_false; intros ->; apply Hn; left; reflexivity).
  rewrite E. simpl. f_equal. apply IH. intros Hin. apply Hn. right. exact Hin.
Qed.
Lemma in_drop_req x d l : In x (drop_req d l) <-> In x l /\ x <> d.
Proof. unfold drop_req. rewrite filter_In, negb_true_iff, deqb_false. tauto. Qed.
Lemma in_woken p d l : In p (woken d l) <-> In p l /\ parent p = d.
Proof. unfold woken. rewrite filter_In. fold (parent p). rewrite deqb_true. tauto. Qed.
Lemma in_kept p d l : In p (kept d l) <-> In p l /\ parent p <> d.
Proof. unfold kept. rewrite filter_In. fold (parent p). rewrite negb_true_iff, deqb_false. tauto. Qed.

(* under the invariant the request for the written digest is dropped in both branches of the model's test:
   when nothing was parked on it, it was not requested either *)
Lemma store_block_requests b s :
  SyncInv s -> s_sync_requests (fstate (store_block b s)) = drop_req (block_digest b) (s_sync_requests s).
Proof.
  intros H. rewrite store_block_eq. unfold fstate. simpl.
  destruct (existsb (fun _ => true) (woken (block_digest b) (s_sync_pending s))) eqn:E; [reflexivity|].
  apply existsb_true_nil in E. symmetry. apply drop_req_absent. intros Hin.
  destruct (si_req_src s H _ Hin) as [p [Hp Ep]].
  assert (Hw : In p (woken (block_digest b) (s_sync_pending s))) by (apply in_woken; auto).
  rewrite E in Hw. exact Hw.
Qed.

Lemma store_block_cong b s1 s2 :
  sync_eq s1 s2 -> sync_eq (fstate (store_block b s1)) (fstate (store_block b s2)).
Proof. intros [A [B C]]. rewrite !store_block_eq. unfold fstate. simpl. rewrite A, B, C. repeat split. Qed.

Lemma resolv_grow s d b x : resolv s x -> resolv (set_store s ((d, b) :: s_store s)) x.
Proof.
  intros [G|[p Hp]]; [left; exact G|right]. unfold set_store. cbn [s_store]. rewrite store_get_cons.
  destruct (digest_eqb (parent x) d); eauto.
Qed.

Lemma store_inv b s : SyncInv s -> resolv s b -> SyncInv (fstate (store_block b s)).
Proof.
  intros H Hr. pose proof (store_block_requests b s H) as Eq.
  set (s' := fstate (store_block b s)) in *.
  assert (Es : s_store s' = (block_digest b, b) :: s_store s) by reflexivity.
  assert (Ep : s_sync_pending s' = kept (block_digest b) (s_sync_pending s)) by reflexivity.
  clearbody s'. set (d := block_digest b) in *.
  constructor; unfold resolv; rewrite ?Es, ?Ep, ?Eq.
  - intros p Hp. apply in_kept in Hp. destruct Hp as [Hp Hne]. rewrite store_get_cons.
    apply deqb_false in Hne. rewrite Hne. exact (si_missing s H p Hp).
  - intros p Hp. apply in_kept in Hp. exact (si_nongen s H p (proj1 Hp)).
  - apply NoDup_map_filter. exact (si_once s H).
  - intros x Hx. apply in_drop_req in Hx. destruct Hx as [Hx Hne].
    destruct (si_req_src s H x Hx) as [p [Hp E]]. exists p. split; [|exact E]. apply in_kept. split; [exact Hp|congruence].
  - apply NoDup_filter. exact (si_req_nodup s H).
  - intros p Hp. apply in_kept in Hp. destruct Hp as [Hp Hne]. apply in_drop_req. split; [exact (si_req_all s H p Hp)|exact Hne].
  - intros k x [E|Hin]; [inversion E; subst; reflexivity|exact (si_keyed s H k x Hin)].
  - intros k x Hin.
    assert (Hx : resolv s x) by (destruct Hin as [E|Hin]; [inversion E; subst; exact Hr|exact (si_closed s H k x Hin)]).
    destruct Hx as [G|[p Hp]]; [left; exact G|right]. rewrite store_get_cons.
    destruct (digest_eqb (parent x) d); eauto.
Qed.

(* (d) the release: a store write of [b] moves exactly the blocks parked on [block_digest b] to the back of the
   loop-back pool, in parking order, drops that digest from the requests and leaves the others parked *)
Theorem store_block_release b s :
  SyncInv s ->
  let s' := fstate (store_block b s) in
  let d := block_digest b in
  s_loopback s' = s_loopback s ++ woken d (s_sync_pending s) /\
  s_sync_pending s' = kept d (s_sync_pending s) /\
  s_sync_requests s' = drop_req d (s_sync_requests s) /\
  s_store s' = (d, b) :: s_store s /\
  fouts (store_block b s) = [] /\ fres (store_block b s) = ROk tt /\
  (forall p, In p (s_sync_pending s) ->
     (parent p = d -> In p (s_loopback s') /\ ~ In p (s_sync_pending s')) /\
     (parent p <> d -> In p (s_sync_pending s'))) /\
  (forall p, In p (s_sync_pending s') -> In p (s_sync_pending s) /\ parent p <> d) /\
  (forall x, In x (s_sync_requests s') <-> In x (s_sync_requests s) /\ x <> d) /\
  ~ In d (s_sync_requests s').
Proof.
  intros H s' d. pose proof (store_block_requests b s H) as Eq. fold s' d in Eq.
  assert (El : s_loopback s' = s_loopback s ++ woken d (s_sync_pending s)) by reflexivity.
  assert (Ep : s_sync_pending s' = kept d (s_sync_pending s)) by reflexivity.
  split; [exact El|]. split; [exact Ep|]. split; [exact Eq|]. split; [reflexivity|]. split; [reflexivity|]. split; [reflexivity|].
  rewrite El, Ep, Eq. split; [|split; [|split]].
  - intros p Hp. split.
    + intros E. split; [apply in_or_app; right; apply in_woken; auto|]. intros Hk. apply in_kept in Hk. tauto.
    + intros Hne. apply in_kept. auto.
  - intros p Hp. apply in_kept in Hp. exact Hp.
  - intros x. apply in_drop_req.
  - intros Hin. apply in_drop_req in Hin. tauto.
Qed.

(* ---------- computations that do not touch the synchronizer ---------- *)
Definition no_req (o : list Out) : Prop := sync_reqs o = [].
Definition quiet_at {A} (s : State) (m : M A) : Prop :=
  match m s with
  | (s', o, _) => sync_eq s s' /\ (exists l, s_loopback s' = s_loopback s ++ l) /\ no_req o
  end.
Definition quiet {A} (m : M A) : Prop := forall s, quiet_at s m.

Lemma quiet_at_here {A} s (r : res A) : quiet_at s (fun s => (s, [], r)).
Proof. unfold quiet_at. split; [apply sync_eq_refl|]. split; [exists []; symmetry; apply app_nil_r|reflexivity]. Qed.
Lemma quiet_ret {A} (a : A) : quiet (ret a). Proof. intros s. apply quiet_at_here. Qed.
Lemma quiet_fail {A} e : quiet (@fail A e). Proof. intros s. apply quiet_at_here. Qed.
Lemma quiet_panic {A} k : quiet (@panic A k). Proof. intros s. apply quiet_at_here. Qed.
Lemma quiet_get : quiet get.
Proof. intros s. unfold quiet_at, get. split; [apply sync_eq_refl|]. split; [exists []; symmetry; apply app_nil_r|reflexivity]. Qed.
Lemma quiet_lift {A} (r : res A) : quiet (lift r). Proof. intros s. apply quiet_at_here. Qed.
Lemma quiet_emit o : (forall a d, o <> OSyncReq a d) -> quiet (emit o).
Proof.
  intros Hn s. unfold quiet_at, emit. split; [apply sync_eq_refl|]. split; [exists []; symmetry; apply app_nil_r|].
  unfold no_req, sync_reqs. simpl. destruct o; try reflexivity. exfalso. eapply Hn. reflexivity.
Qed.
Lemma quiet_modify f :
  (forall s, sync_eq s (f s) /\ exists l, s_loopback (f s) = s_loopback s ++ l) -> quiet (modify f).
Proof. intros Hf s. unfold quiet_at, modify. destruct (Hf s) as [A B]. split; [exact A|]. split; [exact B|reflexivity]. Qed.

Lemma quiet_at_bind {A B} (m : M A) (f : A -> M B) s :
  quiet_at s m -> (forall a s1, s_store s1 = s_store s -> quiet_at s1 (f a)) -> quiet_at s (bind m f).
Proof.
  unfold quiet_at, bind. intros Hm Hf. destruct (m s) as [[s1 o1] r1]. destruct Hm as [E1 [[l1 L1] N1]].
  destruct r1 as [a|e|k]; try (split; [exact E1|split; [eauto|exact N1]]).
  specialize (Hf a s1 (proj1 E1)). destruct (f a s1) as [[s2 o2] r2]. destruct Hf as [E2 [[l2 L2] N2]].
  split; [eapply sync_eq_trans; eauto|]. split.
  - exists (l1 ++ l2). rewrite L2, L1. symmetry. apply app_assoc.
  - unfold no_req in *. rewrite sync_reqs_app, N1, N2. reflexivity.
Qed.
Lemma quiet_bind {A B} (m : M A) (f : A -> M B) : quiet m -> (forall a, quiet (f a)) -> quiet (bind m f).
Proof. intros Hm Hf s. apply quiet_at_bind; [apply Hm|]. intros a s1 _. apply Hf. Qed.

Ltac quiet_mod :=
  apply quiet_modify; intros; split;
  [repeat split; reflexivity
  |first [exists []; symmetry; apply app_nil_r | eexists; reflexivity]].
Ltac quiet_tac :=
  repeat first
    [ apply quiet_ret | apply quiet_fail | apply quiet_panic | apply quiet_get | apply quiet_lift
    | (apply quiet_emit; discriminate) | apply quiet_bind | quiet_mod
    | match goal with |- forall _, quiet _ => intro; cbv beta end | progress cbv zeta
    | match goal with |- quiet (if ?b then _ else _) => destruct b end
    | match goal with |- quiet (match ?x with _ => _ end) => destruct x end ].

Section Sync.
  Variable c : Committee.
  Variable me : N.
  Variable dq : DqCfg.

  Lemma quiet_advance_round r : quiet (advance_round r).
  Proof. unfold advance_round. quiet_tac. Qed.
  Lemma quiet_update_high_qc q : quiet (update_high_qc q).
  Proof.
    unfold update_high_qc. apply quiet_modify. intros s.
    destruct (g_update_high_qc _ _ _ _ _); (split; [repeat split; reflexivity|exists []; symmetry; apply app_nil_r]).
  Qed.
  Lemma quiet_process_qc q : quiet (process_qc q).
  Proof. unfold process_qc. apply quiet_bind; [apply quiet_advance_round|intro; apply quiet_update_high_qc]. Qed.
  Lemma quiet_generate_proposal hint tc : quiet (generate_proposal me hint tc).
  Proof. unfold generate_proposal. quiet_tac. Qed.
  Lemma quiet_proposer_cleanup ds : quiet (proposer_cleanup ds).
  Proof. unfold proposer_cleanup. quiet_tac. Qed.
  Lemma quiet_pw_cleanup r : quiet (pw_cleanup r).
  Proof. unfold pw_cleanup. quiet_tac. Qed.
  Lemma quiet_make_vote b : quiet (make_vote me b).
  Proof. unfold make_vote, increase_last_voted. quiet_tac. Qed.
  Lemma quiet_handle_vote hint v : quiet (handle_vote c me hint v).
  Proof.
    unfold handle_vote. apply quiet_bind; [apply quiet_get|]. intros s.
    destruct (g_vote_stale _ _ _ _ _); [apply quiet_ret|]. apply quiet_bind; [apply quiet_lift|]. intros _.
    destruct (qm_append _ _ _) as [m' r]. apply quiet_bind; [quiet_mod|]. intros _.
    apply quiet_bind; [apply quiet_lift|]. intros [qc|]; [|apply quiet_ret].
    apply quiet_bind; [apply quiet_process_qc|]. intros _. apply quiet_bind; [apply quiet_get|]. intros s'.
    destruct (_ =? _); [apply quiet_generate_proposal|apply quiet_ret].
  Qed.
  Lemma quiet_handle_timeout hint t : quiet (handle_timeout c me hint t).
  Proof.
    unfold handle_timeout. apply quiet_bind; [apply quiet_get|]. intros s.
    destruct (g_timeout_stale _ _ _ _ _); [apply quiet_ret|]. apply quiet_bind; [apply quiet_lift|]. intros _.
    apply quiet_bind; [apply quiet_process_qc|]. intros _. apply quiet_bind; [apply quiet_get|]. intros s1.
    destruct (tm_append _ _ _) as [m' r]. apply quiet_bind; [quiet_mod|]. intros _.
    apply quiet_bind; [apply quiet_lift|]. intros [tc|]; [|apply quiet_ret].
    apply quiet_bind; [apply quiet_advance_round|]. intros _. apply quiet_bind; [apply quiet_emit; discriminate|]. intros _.
    apply quiet_bind; [apply quiet_get|]. intros s'.
    destruct (_ =? _); [apply quiet_generate_proposal|apply quiet_ret].
  Qed.
  Lemma quiet_local_timeout hint : quiet (local_timeout c me hint).
  Proof.
    unfold local_timeout, increase_last_voted. apply quiet_bind; [apply quiet_get|]. intros s.
    apply quiet_bind; [quiet_mod|]. intros _. apply quiet_bind; [quiet_mod|]. intros _.
    apply quiet_bind; [apply quiet_emit; discriminate|]. intros _. apply quiet_handle_timeout.
  Qed.
  Lemma quiet_handle_tc hint tc : quiet (handle_tc c me hint tc).
  Proof.
    unfold handle_tc. apply quiet_bind; [apply quiet_lift|]. intros _. apply quiet_bind; [apply quiet_get|]. intros s.
    destruct (g_tc_stale _ _ _ _ _); [apply quiet_ret|]. apply quiet_bind; [apply quiet_advance_round|]. intros _.
    apply quiet_bind; [apply quiet_get|]. intros s'. destruct (_ =? _); [apply quiet_generate_proposal|apply quiet_ret].
  Qed.
  Lemma quiet_mempool_verify b : quiet (mempool_verify b).
  Proof. unfold mempool_verify. quiet_tac. Qed.
  Lemma quiet_batch_stored d : quiet (batch_stored d).
  Proof. unfold batch_stored. quiet_tac. Qed.
  Lemma quiet_deliver_all l : quiet (deliver_all l).
  Proof. induction l as [|b l IH]; simpl; [apply quiet_ret|]. quiet_tac. exact IH. Qed.

  (* ---------- Synchronizer::get_parent_block: the three cases ---------- *)
  Lemma gpb_genesis b s :
    qc_eqb (b_qc b) qc_genesis = true -> get_parent_block b s = (s, [], ROk (Some block_genesis)).
  Proof. intros E. unfold get_parent_block. rewrite E. reflexivity. Qed.
  Lemma gpb_stored b s p :
    qc_eqb (b_qc b) qc_genesis = false -> store_get (parent b) (s_store s) = Some p ->
    get_parent_block b s = (s, [], ROk (Some p)).
  Proof. intros E G. unfold get_parent_block, bind, get, ret. rewrite E. simpl. unfold parent in G. rewrite G. reflexivity. Qed.
  Lemma gpb_missing b s :
    qc_eqb (b_qc b) qc_genesis = false -> store_get (parent b) (s_store s) = None ->
    get_parent_block b s = (fstate (sync_park b s), fouts (sync_park b s), ROk None).
  Proof.
    intros E G. unfold get_parent_block, bind, get, ret. rewrite E. simpl. unfold parent in G. rewrite G.
    pose proof (sync_park_ok b s) as K. destruct (sync_park b s) as [[s1 o1] r1]. unfold fres, fstate, fouts in *. simpl in *.
    subst r1. rewrite app_nil_r. reflexivity.
  Qed.

  Definition Closed (s : State) : Prop := forall d b, In (d, b) (s_store s) -> resolv s b.
  Lemma Closed_eq s s' : s_store s' = s_store s -> Closed s -> Closed s'.
  Proof. unfold Closed. intros E H d b Hin. rewrite E in Hin. eapply resolv_eq; [exact E|]. eapply H; eauto. Qed.

  Lemma resolv_genesis s : resolv s block_genesis.
  Proof. left. reflexivity. Qed.

  (* a block whose parent is at hand: handed over without any effect, and the parent's parent is at hand too *)
  Lemma gpb_resolv b s :
    Closed s -> resolv s b ->
    exists p, get_parent_block b s = (s, [], ROk (Some p)) /\ resolv s p /\
              (qc_eqb (b_qc b) qc_genesis = true /\ p = block_genesis \/
               qc_eqb (b_qc b) qc_genesis = false /\ store_get (parent b) (s_store s) = Some p).
  Proof.
    intros Hc Hr. destruct (qc_eqb (b_qc b) qc_genesis) eqn:Eg.
    - exists block_genesis. split; [apply gpb_genesis; exact Eg|]. split; [apply resolv_genesis|left; auto].
    - destruct Hr as [Hr|[p Hp]]; [congruence|]. exists p. split; [apply gpb_stored; auto|].
      split; [|right; auto]. eapply Hc. apply store_get_in. exact Hp.
  Qed.

  Lemma commit_walk_still lcr : forall fuel par acc s,
    Closed s -> resolv s par ->
    match commit_walk dq fuel lcr par acc s with (s', o, _) => s' = s /\ o = [] end.
  Proof.
    induction fuel as [|f IH]; intros par acc s Hc Hr; simpl; [unfold panic; auto|].
    destruct (g_commit_walk lcr (b_round par)); [|unfold ret; auto].
    destruct (gpb_resolv par s Hc Hr) as [anc [Eg [Ha _]]].
    unfold bind at 1. rewrite Eg.
    destruct (dq_stop dq (b_round anc) lcr); [unfold ret; auto|].
    specialize (IH anc (dq_push (dq_anc_front dq) anc acc) s Hc Ha).
    destruct (commit_walk dq f lcr anc _ s) as [[s2 o2] r2]. destruct IH as [-> ->]. auto.
  Qed.

  Lemma quiet_commit b0 s : Closed s -> resolv s b0 -> quiet_at s (commit dq b0).
  Proof.
    intros Hc Hr. unfold commit. apply quiet_at_bind; [apply quiet_get|]. intros s0 s1 E1.
    destruct (g_commit_skip _ _ _ _ _); [apply quiet_ret|].
    apply quiet_at_bind.
    - unfold quiet_at.
      pose proof (commit_walk_still (s_last_committed s0) (S (S (ddepth (block_digest b0)))) b0
                    (if dq_head_first dq then dq_push (dq_head_front dq) b0 [] else []) s1
                    (Closed_eq _ _ E1 Hc) (resolv_eq _ _ _ E1 Hr)) as W.
      destruct (commit_walk _ _ _ _ _ s1) as [[s2 o2] r2]. destruct W as [-> ->].
      split; [apply sync_eq_refl|]. split; [exists []; symmetry; apply app_nil_r|reflexivity].
    - intros q s2 _. apply quiet_bind; [quiet_mod|]. intros _. apply quiet_deliver_all.
  Qed.

  (* process_block after the store write *)
  Definition pb_tail (hint : list N) (b0 b1 b : Block) : M unit :=
    proposer_cleanup (b_payload b0 ++ b_payload b1 ++ b_payload b) ;;;
    (if g_two_chain (b_round b0) (b_round b1) (b_round b)
     then emit (OMemCleanup (b_round b0)) ;;; pw_cleanup (b_round b0) ;;; commit dq b0
     else ret tt) ;;;
    s <- get ;;
    if g_round_gate (b_round b) (qc_round (b_qc b)) (s_round s) (qc_round (s_high_qc s)) (s_last_voted s) (s_last_committed s) then ret tt
    else
      ov <- make_vote me b ;;
      match ov with
      | None => ret tt
      | Some v =>
          let nl := leader c (s_round s + 1) in
          if nl =? me then handle_vote c me hint v else emit (OVote nl v)
      end.

  Lemma quiet_pb_tail hint b0 b1 b s : Closed s -> resolv s b0 -> quiet_at s (pb_tail hint b0 b1 b).
  Proof.
    intros Hc Hr. unfold pb_tail. apply quiet_at_bind; [apply quiet_proposer_cleanup|]. intros _ s1 E1.
    apply quiet_at_bind.
    - destruct (g_two_chain _ _ _); [|apply quiet_ret].
      apply quiet_at_bind; [apply quiet_emit; discriminate|]. intros _ s2 E2.
      apply quiet_at_bind; [apply quiet_pw_cleanup|]. intros _ s3 E3.
      apply quiet_commit; [eapply Closed_eq; [|exact Hc]|eapply resolv_eq; [|exact Hr]]; congruence.
    - intros _ s2 _. apply quiet_bind; [apply quiet_get|]. intros s3.
      destruct (g_round_gate _ _ _ _ _ _); [apply quiet_ret|].
      apply quiet_bind; [apply quiet_make_vote|]. intros [v|]; [|apply quiet_ret]. cbv zeta.
      destruct (_ =? me); [apply quiet_handle_vote|apply quiet_emit; discriminate].
  Qed.

  (* ---------- process_block: it parks the block, or it writes it to the store; nothing else concerns the synchronizer ---------- *)
  Definition parks (b : Block) (s s' : State) (o : list Out) : Prop :=
    qc_eqb (b_qc b) qc_genesis = false /\ store_get (parent b) (s_store s) = None /\
    sync_eq (fstate (sync_park b s)) s' /\ sync_reqs o = sync_reqs (fouts (sync_park b s)).
  Definition stores (b : Block) (s s' : State) (o : list Out) : Prop :=
    resolv s b /\ sync_eq (fstate (store_block b s)) s' /\ no_req o.

  Lemma process_block_shape hint b s :
    SyncInv s ->
    match process_block c me dq hint b s with
    | (s', o, r) =>
        (parks b s s' o /\ s_loopback s' = s_loopback s /\ r = ROk tt) \/
        (stores b s s' o /\ exists l, s_loopback s' = s_loopback s ++ woken (block_digest b) (s_sync_pending s) ++ l)
    end.
  Proof.
    intros H. assert (Hc : Closed s) by exact (si_closed s H).
    change (process_block c me dq hint b) with
      (p1 <- get_parent_block b ;;
       match p1 with
       | None => ret tt
       | Some b1 =>
           p0 <- get_parent_block b1 ;;
           match p0 with
           | None => panic 147
           | Some b0 => store_block b ;;; pb_tail hint b0 b1 b
           end
       end).
    assert (Main : forall b1, resolv s b1 ->
              (qc_eqb (b_qc b) qc_genesis = true \/ store_get (parent b) (s_store s) = Some b1) ->
              get_parent_block b s = (s, [], ROk (Some b1)) ->
              match (p1 <- get_parent_block b ;;
                     match p1 with
                     | None => ret tt
                     | Some b1 =>
                         p0 <- get_parent_block b1 ;;
                         match p0 with
                         | None => panic 147
                         | Some b0 => store_block b ;;; pb_tail hint b0 b1 b
                         end
                     end) s with
              | (s', o, r) =>
                  stores b s s' o /\ exists l, s_loopback s' = s_loopback s ++ woken (block_digest b) (s_sync_pending s) ++ l
              end).
    { intros b1 Hr1 Hb Eg. unfold bind at 1. rewrite Eg.
      destruct (gpb_resolv b1 s Hc Hr1) as [b0 [Eg0 [Hr0 _]]].
      unfold bind at 1. rewrite Eg0.
      unfold bind at 1. rewrite store_block_eq.
      set (s3 := set_loopback _ _).
      assert (Hrb : resolv s b) by (destruct Hb as [Hb|Hb]; [left; exact Hb|right; eauto]).
      assert (H3 : SyncInv s3) by exact (store_inv b s H Hrb).
      assert (Hr03 : resolv s3 b0).
      { destruct Hr0 as [G|[p Hp]]; [left; exact G|right]. unfold s3. cbn [s_store set_loopback set_sync set_store].
        rewrite store_get_cons. destruct (digest_eqb (parent b0) (block_digest b)); eauto. }
      pose proof (quiet_pb_tail hint b0 b1 b s3 (si_closed s3 H3) Hr03) as Q. unfold quiet_at in Q.
      destruct (pb_tail hint b0 b1 b s3) as [[s4 o4] r4]. destruct Q as [E4 [[l L4] N4]].
      split.
      - split; [exact Hrb|]. split; [exact E4|]. exact N4.
      - exists l. rewrite L4. unfold s3. cbn [s_loopback set_loopback]. symmetry. apply app_assoc. }
    destruct (qc_eqb (b_qc b) qc_genesis) eqn:Eg.
    - pose proof (Main block_genesis (resolv_genesis s) (or_introl eq_refl) (gpb_genesis b s Eg)) as M.
      match goal with |- match ?X with _ => _ end => destruct X as [[s' o] r] end. right. exact M.
    - destruct (store_get (parent b) (s_store s)) as [b1|] eqn:Es.
      + assert (Hr1 : resolv s b1) by (eapply Hc; apply store_get_in; exact Es).
        pose proof (Main b1 Hr1 (or_intror eq_refl) (gpb_stored b s b1 Eg Es)) as M.
        match goal with |- match ?X with _ => _ end => destruct X as [[s' o] r] end. right. exact M.
      + unfold bind at 1. rewrite (gpb_missing b s Eg Es). unfold ret. cbv beta iota. left.
        split; [|split; [|reflexivity]].
        * split; [exact Eg|]. split; [exact Es|]. split; [apply sync_eq_refl|]. rewrite app_nil_r. reflexivity.
        * rewrite sync_park_eq. destruct (existsb _ _); [reflexivity|]. destruct (existsb _ _); reflexivity.
  Qed.

  (* ---------- one step of the node, seen from the synchronizer ---------- *)
  Lemma parks_transport b s s1 s' o1 o :
    sync_eq s s1 -> no_req o1 -> parks b s1 s' o -> parks b s s' (o1 ++ o).
  Proof.
    intros E N1 [G [M [Q R]]]. destruct (sync_park_cong b s s1 E) as [C1 C2].
    split; [exact G|]. split; [destruct E as [E _]; rewrite <- E; exact M|].
    split; [eapply sync_eq_trans; [exact C1|exact Q]|].
    rewrite sync_reqs_app, N1, R, C2. reflexivity.
  Qed.
  Lemma stores_transport b s s1 s' o1 o :
    sync_eq s s1 -> no_req o1 -> stores b s1 s' o -> stores b s s' (o1 ++ o).
  Proof.
    intros E N1 [R [Q N2]]. split; [eapply resolv_eq; [|exact R]; destruct E as [E _]; congruence|].
    split; [eapply sync_eq_trans; [apply store_block_cong; exact E|exact Q]|].
    unfold no_req in *. rewrite sync_reqs_app, N1, N2. reflexivity.
  Qed.

  Definition act (b : Block) (base : list Block) (s : State) (x : State * list Out * res unit) : Prop :=
    match x with
    | (s', o, _) =>
        (sync_eq s s' /\ no_req o) \/ parks b s s' o \/
        (stores b s s' o /\ exists l0 l, s_loopback s' = base ++ l0 ++ woken (block_digest b) (s_sync_pending s) ++ l)
    end.

  Lemma act_bind_quiet {A} (m : M A) (f : A -> M unit) b base s :
    quiet_at s m -> (exists l0, s_loopback s = base ++ l0) ->
    (forall a s1, sync_eq s s1 -> (exists l0, s_loopback s1 = base ++ l0) -> act b base s1 (f a s1)) ->
    act b base s (bind m f s).
  Proof.
    unfold quiet_at, bind. intros Hm [l0 L0] Hf. destruct (m s) as [[s1 o1] r1]. destruct Hm as [E1 [[l1 L1] N1]].
    destruct r1 as [a|e|k]; try (left; split; [exact E1|exact N1]).
    assert (B1 : exists l, s_loopback s1 = base ++ l) by (exists (l0 ++ l1); rewrite L1, L0; symmetry; apply app_assoc).
    specialize (Hf a s1 E1 B1). destruct (f a s1) as [[s2 o2] r2]. unfold act in *.
    destruct Hf as [[E2 N2]|[P|[S [l2 [l3 L]]]]].
    - left. split; [eapply sync_eq_trans; eauto|]. unfold no_req in *. rewrite sync_reqs_app, N1, N2. reflexivity.
    - right. left. eapply parks_transport; eauto.
    - right. right. split; [eapply stores_transport; eauto|]. exists l2, l3. rewrite L.
      destruct E1 as [_ [-> _]]. reflexivity.
  Qed.

  Lemma act_process_block hint b base s :
    SyncInv s -> (exists l0, s_loopback s = base ++ l0) -> act b base s (process_block c me dq hint b s).
  Proof.
    intros H [l0 L0]. pose proof (process_block_shape hint b s H) as P.
    destruct (process_block c me dq hint b s) as [[s' o] r]. unfold act.
    destruct P as [[P _]|[S [l L]]]; [right; left; exact P|]. right. right. split; [exact S|].
    exists l0, l. rewrite L, L0. symmetry. apply app_assoc.
  Qed.

  Definition ev_subject (e : Event) (s : State) : option Block :=
    match e with
    | EvPropose b => Some b
    | EvLoopback x => match remove_first x (s_loopback s) with Some (y, _) => Some y | None => None end
    | _ => None
    end.
  Definition ev_base (e : Event) (s : State) : list Block :=
    match e with
    | EvLoopback x => match remove_first x (s_loopback s) with Some (_, l) => l | None => s_loopback s end
    | _ => s_loopback s
    end.

  Lemma quiet_act {A} (m : M A) s : quiet m ->
    match m s with (s', o, _) => sync_eq s s' /\ no_req o end.
  Proof. intros Q. specialize (Q s). unfold quiet_at in Q. destruct (m s) as [[s' o] r]. tauto. Qed.

  Lemma bind_get_eq {A} (f : State -> M A) s : bind get f s = f s s.
  Proof. unfold bind, get. destruct (f s s) as [[? ?] ?]. reflexivity. Qed.
  Lemma bind_modify_eq {A} g (f : unit -> M A) s : bind (modify g) f s = f tt (g s).
  Proof. unfold bind, modify. destruct (f tt (g s)) as [[? ?] ?]. reflexivity. Qed.

  Ltac by_quiet L :=
    match goal with
    | |- match ?m ?s with _ => _ end =>
        let Q := fresh "Q" in pose proof (quiet_act m s L) as Q; destruct (m s) as [[? ?] ?]; left; exact Q
    end.

  (* every step is quiet for the synchronizer, or parks the block it was given, or writes that block to the store *)
  Theorem sync_step hint e s :
    SyncInv s ->
    match step c me dq hint e s with
    | (s', o, _) =>
        (sync_eq s s' /\ no_req o) \/
        exists b, ev_subject e s = Some b /\
          (parks b s s' o \/
           (stores b s s' o /\
            exists l0 l, s_loopback s' = ev_base e s ++ l0 ++ woken (block_digest b) (s_sync_pending s) ++ l))
    end.
  Proof.
    intros H. destruct e as [b|v|t|tc|x| |d|d| ]; cbn [step ev_subject ev_base].
    - assert (A : act b (s_loopback s) s (handle_proposal c me dq hint b s)).
      { assert (B0 : exists l0, s_loopback s = s_loopback s ++ l0) by (exists []; symmetry; apply app_nil_r).
        unfold handle_proposal.
        apply act_bind_quiet; [destruct (_ =? _); [apply quiet_ret|apply quiet_fail]|exact B0|]. intros _ s1 E1 B1.
        apply act_bind_quiet; [apply quiet_lift|exact B1|]. intros _ s2 E2 B2.
        apply act_bind_quiet; [apply quiet_process_qc|exact B2|]. intros _ s3 E3 B3.
        apply act_bind_quiet; [destruct (b_tc b); [apply quiet_advance_round|apply quiet_ret]|exact B3|]. intros _ s4 E4 B4.
        apply act_bind_quiet; [apply quiet_mempool_verify|exact B4|]. intros ok s5 E5 B5.
        destruct ok.
        - apply act_process_block; [|exact B5].
          eapply SyncInv_eq; [|exact H].
          eapply sync_eq_trans; [exact E1|]. eapply sync_eq_trans; [exact E2|]. eapply sync_eq_trans; [exact E3|].
          eapply sync_eq_trans; [exact E4|exact E5].
        - left. split; [apply sync_eq_refl|reflexivity]. }
      destruct (handle_proposal c me dq hint b s) as [[s' o] r]. unfold act in A.
      destruct A as [A|A]; [left; exact A|right; exists b; split; [reflexivity|exact A]].
    - by_quiet (quiet_handle_vote hint v).
    - by_quiet (quiet_handle_timeout hint t).
    - by_quiet (quiet_handle_tc hint tc).
    - rewrite bind_get_eq.
      destruct (remove_first x (s_loopback s)) as [[y l]|] eqn:Er.
      2:{ by_quiet (quiet_emit OBadHint ltac:(discriminate)). }
      rewrite bind_modify_eq.
      set (s1 := set_loopback s l).
      assert (E1 : sync_eq s s1) by (repeat split).
      assert (A : act y l s1 (process_block c me dq hint y s1)).
      { apply act_process_block; [eapply SyncInv_eq; eauto|]. exists []. symmetry. apply app_nil_r. }
      destruct (process_block c me dq hint y s1) as [[s' o] r]. unfold act in A.
      destruct A as [[E N]|[P|[S L]]].
      + left. split; [exact (sync_eq_trans _ _ _ E1 E)|exact N].
      + right. exists y. split; [reflexivity|]. left. exact (parks_transport y s s1 s' [] o E1 eq_refl P).
      + right. exists y. split; [reflexivity|]. right. split; [exact (stores_transport y s s1 s' [] o E1 eq_refl S)|exact L].
    - by_quiet (quiet_local_timeout hint).
    - by_quiet (quiet_batch_stored d).
    - assert (Q : quiet (modify (fun s0 => if memN d (s_buffer s0) then s0 else set_buffer s0 (d :: s_buffer s0)))).
      { apply quiet_modify. intros s0. destruct (memN d (s_buffer s0)); (split; [repeat split|exists []; symmetry; apply app_nil_r]). }
      by_quiet Q.
    - assert (Q : quiet (s0 <- get ;; if me =? leader c (s_round s0) then generate_proposal me hint None else ret tt)).
      { apply quiet_bind; [apply quiet_get|]. intros s0. destruct (_ =? _); [apply quiet_generate_proposal|apply quiet_ret]. }
      by_quiet Q.
  Qed.

  (* the invariant is preserved by every step, whatever the input *)
  Theorem sync_step_inv hint e s : SyncInv s -> SyncInv (fstate (step c me dq hint e s)).
  Proof.
    intros H. pose proof (sync_step hint e s H) as P. destruct (step c me dq hint e s) as [[s' o] r].
    unfold fstate. simpl. destruct P as [[E _]|[b [_ [[G [M [E _]]]|[[R [E _]] _]]]]].
    - eapply SyncInv_eq; eauto.
    - eapply SyncInv_eq; [exact E|]. apply park_inv; auto.
    - eapply SyncInv_eq; [exact E|]. apply store_inv; auto.
  Qed.

  (* ---------- (e) request emission ---------- *)
  Lemma in_pending_digest b l : In b l -> In (block_digest b) (map block_digest l).
  Proof. intros H. apply in_map. exact H. Qed.

  (* A request is emitted exactly when a block is parked whose parent was not requested yet: it is addressed to the
     author of that block, names a digest that is neither stored nor already requested, and is the only one of the
     step; conversely a block parked in this step had its parent requested before, or the request goes out now;
     the set of outstanding requests grows by the emitted ones only. *)
  Theorem step_request_once hint e s :
    SyncInv s ->
    match step c me dq hint e s with
    | (s', o, _) =>
        (forall a d, In (a, d) (sync_reqs o) ->
           exists b, ev_subject e s = Some b /\ a = b_author b /\ d = parent b /\
                     ~ In b (s_sync_pending s) /\ In b (s_sync_pending s') /\
                     store_get d (s_store s') = None /\
                     ~ In d (s_sync_requests s) /\ In d (s_sync_requests s')) /\
        (forall b, In b (s_sync_pending s') -> ~ In b (s_sync_pending s) ->
           ev_subject e s = Some b /\ store_get (parent b) (s_store s') = None /\
           (In (parent b) (s_sync_requests s) \/ sync_reqs o = [(b_author b, parent b)])) /\
        (length (sync_reqs o) <= 1)%nat /\
        (forall d, In d (s_sync_requests s') -> In d (s_sync_requests s) \/ In d (map snd (sync_reqs o)))
    end.
  Proof.
    intros H. pose proof (sync_step hint e s H) as P. destruct (step c me dq hint e s) as [[s' o] r].
    destruct P as [[[E1 [E2 E3]] N]|[b [Sb [[G [M [[E1 [E2 E3]] R]]]|[[Rs [[E1 [E2 E3]] N]] _]]]]].
    - (* quiet *)
      unfold no_req in N. rewrite N, E2, E3. split; [intros a d []|]. split; [intros b Hb Hn; contradiction|].
      split; [simpl; lia|]. intros d Hd. left. exact Hd.
    - (* parks b *)
      rewrite R. revert E1 E2 E3. rewrite sync_park_eq.
      destruct (existsb (block_eqb b) (s_sync_pending s)) eqn:Eb; unfold fstate, fouts; cbn [fst snd].
      + intros E1 E2 E3. rewrite E2, E3. split; [intros a d []|]. split; [intros b' Hb Hn; contradiction|].
        split; [simpl; lia|]. intros d Hd. left. exact Hd.
      + apply exists_beqb_false in Eb.
        assert (Hnb : ~ In b (s_sync_pending s)) by (intros Hin; apply Eb, in_pending_digest, Hin).
        destruct (existsb (digest_eqb (parent b)) (s_sync_requests s)) eqn:Er; cbn [fst snd s_store s_sync_pending s_sync_requests set_sync].
        * apply exists_deqb in Er. intros E1 E2 E3. rewrite E1, E2, E3. split; [intros a d []|]. split.
          { intros b' Hb Hn. apply in_app_or in Hb. destruct Hb as [Hb|[<-|[]]]; [contradiction|]. auto. }
          split; [simpl; lia|]. intros d Hd. left. exact Hd.
        * apply exists_deqb_false in Er. intros E1 E2 E3. rewrite E1, E2, E3. split.
          { intros a d [E|[]]. inversion E; subst. exists b. repeat split; auto.
            - apply in_or_app. right. left. reflexivity.
            - left. reflexivity. }
          split.
          { intros b' Hb Hn. apply in_app_or in Hb. destruct Hb as [Hb|[<-|[]]]; [contradiction|]. split; [exact Sb|]. split; [exact M|].
            right. reflexivity. }
          split; [simpl; lia|]. intros d [<-|Hd]; [right; left; reflexivity|left; exact Hd].
    - (* stores b *)
      unfold no_req in N. rewrite N. pose proof (store_block_requests b s H) as Q.
      rewrite <- E3 in Q. assert (E2' : s_sync_pending s' = kept (block_digest b) (s_sync_pending s)) by (rewrite E2; reflexivity).
      rewrite E2', Q. split; [intros a d []|]. split.
      { intros b' Hb Hn. apply in_kept in Hb. tauto. }
      split; [simpl; lia|]. intros d Hd. apply in_drop_req in Hd. left. tauto.
  Qed.

  (* the digests a node has ever asked for: pairwise distinct (one first-time request per digest, ever), and each
     either still outstanding or present in the store *)
  Definition ReqHist (s : State) (h : list (N * digest)) : Prop :=
    NoDup (map snd h) /\
    forall d, In d (map snd h) -> In d (s_sync_requests s) \/ store_get d (s_store s) <> None.

  Lemma req_hist_step hint e s h :
    SyncInv s -> ReqHist s h ->
    match step c me dq hint e s with (s', o, _) => ReqHist s' (h ++ sync_reqs o) end.
  Proof.
    intros H [Hn Hh]. pose proof (sync_step hint e s H) as P. pose proof (step_request_once hint e s H) as O.
    destruct (step c me dq hint e s) as [[s' o] r]. destruct O as [O1 [_ [O3 _]]].
    assert (Keep : forall d, In d (map snd h) -> In d (s_sync_requests s') \/ store_get d (s_store s') <> None).
    { intros d Hd. specialize (Hh d Hd).
      destruct P as [[[E1 [E2 E3]] N]|[b [Sb [[G [M [[E1 [E2 E3]] R]]]|[[Rs [[E1 [E2 E3]] N]] _]]]]].
      - rewrite E1, E3. exact Hh.
      - revert E1 E3. rewrite sync_park_eq.
        destruct (existsb _ _); unfold fstate; cbn [fst]; [intros -> ->; exact Hh|].
        destruct (existsb _ _); cbn [s_store s_sync_requests set_sync]; intros -> ->; [exact Hh|].
        destruct Hh as [Hh|Hh]; [left; right; exact Hh|right; exact Hh].
      - pose proof (store_block_requests b s H) as Q. rewrite <- E3 in Q. rewrite Q.
        assert (Es : s_store s' = (block_digest b, b) :: s_store s) by (rewrite E1; reflexivity). rewrite Es.
        destruct (digest_eqb d (block_digest b)) eqn:Ed.
        + right. rewrite store_get_cons, Ed. discriminate.
        + destruct Hh as [Hh|Hh]; [left; apply in_drop_req; split; [exact Hh|apply deqb_false; exact Ed]|].
          right. apply store_get_grow. exact Hh. }
    destruct (sync_reqs o) as [|[a d] [|x l]] eqn:Eo; [rewrite app_nil_r; split; auto| |simpl in O3; lia].
    destruct (O1 a d (or_introl eq_refl)) as [b [_ [_ [_ [_ [_ [Hm [Hnr Hr]]]]]]]].
    split.
    - rewrite map_app. simpl. apply NoDup_snoc; [exact Hn|]. intros Hin.
      destruct (Hh d Hin) as [K|K]; [exact (Hnr K)|].
      (* d was stored before the step; this step parks, so the store is the same after it *)
      apply K.
      destruct P as [[[E1 _] _]|[b' [_ [[_ [_ [[E1 _] _]]]|[[_ [[E1 _] N]] _]]]]].
      + rewrite <- E1. exact Hm.
      + rewrite sync_park_store in E1. rewrite <- E1. exact Hm.
      + unfold no_req in N. rewrite N in Eo. discriminate.
    - intros x Hx. rewrite map_app in Hx. apply in_app_or in Hx. destruct Hx as [Hx|[<-|[]]]; [apply Keep; exact Hx|left; exact Hr].
  Qed.
End Sync.

Print Assumptions sync_step.
Print Assumptions sync_step_inv.
Print Assumptions store_block_release.
Print Assumptions step_request_once.
Print Assumptions req_hist_step.
