(* A state/result monad over an ARBITRARY state type, for the regenerated statement skeletons of the functions that do not act on
   the node state: the verifiers of messages.rs (state = unit) and the certificate makers of aggregator.rs (state = the maker).
   GenAgg.v (written by tools/skel.py) is expressed with these combinators; TieAgg_*.v proves each regenerated function equal to
   the model function of Node.v that the theorems are about.  No proofs here. *)
From Coq Require Import List NArith Bool.
From HS Require Import GTac Node.
Import ListNotations.
Open Scope N_scope.

Section G.
  Context {St : Type}.
  Definition GM (A : Type) := St -> St * res A.
  Definition gret {A} (a : A) : GM A := fun s => (s, ROk a).
  Definition gfail {A} (e : err) : GM A := fun s => (s, RErr e).
  Definition gpanic {A} (site : N) : GM A := fun s => (s, RPanic site).
  Definition gbind {A B} (m : GM A) (f : A -> GM B) : GM B :=
    fun s => match m s with
             | (s1, ROk a) => f a s1
             | (s1, RErr e) => (s1, RErr e)
             | (s1, RPanic k) => (s1, RPanic k)
             end.
  Definition gget : GM St := fun s => (s, ROk s).
  Definition gmodify (f : St -> St) : GM unit := fun s => (f s, ROk tt).
  Definition glift {A} (r : res A) : GM A := fun s => (s, r).
  (* `for x in l { body }` where the body updates the loop-carried locals [a] and may leave through `?` / ensure! *)
  Fixpoint gfor {X A} (l : list X) (f : X -> A -> GM A) (a : A) : GM A :=
    match l with
    | [] => gret a
    | x :: r => gbind (f x a) (fun a' => gfor r f a')
    end.
  (* HashSet::insert on a field of the state: true iff the value was not present; the set is a list without repetition *)
  Definition gset_insert (getf : St -> list N) (setf : St -> list N -> St) (a : N) : GM bool :=
    fun s => if memN a (getf s) then (s, ROk false) else (setf s (a :: getf s), ROk true).
End G.

Declare Scope gm_scope.
Notation "x <- m ;; f" := (gbind m (fun x => f)) (at level 61, m at next level, right associativity) : gm_scope.
Notation "m ;;; f" := (gbind m (fun _ => f)) (at level 61, right associativity) : gm_scope.

(* Signature::verify(&digest, &author) and Signature::verify_batch(&digest, &votes) on ideal signatures *)
Definition sig_verify (a : N) (ct : content) (sg : sig) : res unit :=
  if sig_ok a ct sg then ROk tt else RErr EInvalidSignature.
Definition sig_verify_batch (ct : content) (votes : list (N * sig)) : res unit :=
  if forallb (fun v => sig_ok (fst v) ct (snd v)) votes then ROk tt else RErr EInvalidSignature.

(* local HashSet<PublicKey>: list of names, newest first *)
Definition set_insert (a : N) (l : list N) : list N := a :: l.

(* field updates of the makers *)
Definition set_qm_weight (m : QCMaker) (w : N) := mkQM w (qm_votes m) (qm_used m).
Definition set_qm_votes (m : QCMaker) (v : list (N * sig)) := mkQM (qm_weight m) v (qm_used m).
Definition set_qm_used (m : QCMaker) (u : list N) := mkQM (qm_weight m) (qm_votes m) u.
Definition set_tm_weight (m : TCMaker) (w : N) := mkTM w (tm_votes m) (tm_used m).
Definition set_tm_votes (m : TCMaker) (v : list (N * sig * N)) := mkTM (tm_weight m) v (tm_used m).
Definition set_tm_used (m : TCMaker) (u : list N) := mkTM (tm_weight m) (tm_votes m) u.

(* The digest of a vote / timeout as a symbolic term: its pre-image fields (C20: the pre-image maps are injective in them) *)
Definition vote_digest (v : Vote) : digest * N := (v_hash v, v_round v).

(* Aggregator: the maker stored under a key is created on demand (`entry(..).or_insert_with(..)`), the function applied to it,
   the updated maker kept whatever the outcome *)
Definition agg_entry_qc (r : N) (vd : digest * N) (f : QCMaker -> QCMaker * res (option QC)) : M (option QC) :=
  s <- get ;;
  let k := (r, fst vd) in
  let '(m', rr) := f (qcm_get k (s_qcm s)) in
  modify (fun s => set_qcm s (qcm_put k m' (s_qcm s))) ;;;
  lift rr.
Definition agg_entry_tc (r : N) (f : TCMaker -> TCMaker * res (option TC)) : M (option TC) :=
  s <- get ;;
  let '(m', rr) := f (tcm_get r (s_tcm s)) in
  modify (fun s => set_tcm s (tcm_put r m' (s_tcm s))) ;;;
  lift rr.
