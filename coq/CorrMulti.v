(* Multi-node scenarios (harness/src/bin/multi.rs): n real Cores in one process, the harness being the network and
   the Byzantine members. Every honest node of a scenario is one step-mode case (its event list and observations,
   judged by [step_verdict] of Monitors.v); this file holds the verdict of the scenario as a whole, evaluated on the
   implementation's own observations: the commit logs of all honest nodes taken together, and the votes they put on
   the wire. Definitions only (model-only imports), so the verdict still evaluates when a proof no longer compiles. *)
From Coq Require Import List NArith Bool.
From HS Require Import GTac Node Corr Monitors.
Import ListNotations.
Open Scope N_scope.

(* one honest node of a scenario: its rank, the verdict of its own step-mode case (computed once in the case file:
   [step_verdict cmt me evs obs]) and what it was observed to do *)
Record MNode := mkMNode { mn_me : N; mn_verdict : list N; mn_obs : list Obs }.

(* the blocks the node handed to its commit channel, oldest first *)
Definition mn_log (x : MNode) : list digest := map block_digest (commits_of (outs_of (mn_obs x))).
(* the votes of its own it put on the wire, oldest first *)
Definition mn_votes (x : MNode) : list Vote := filter (fun v => v_author v =? mn_me x) (votes_of (outs_of (mn_obs x))).

Fixpoint memD (d : digest) (l : list digest) : bool :=
  match l with [] => false | x :: r => digest_eqb d x || memD d r end.
Fixpoint dedupD (l : list digest) : list digest :=
  match l with [] => [] | x :: r => if memD x r then dedupD r else x :: dedupD r end.

(* one of the two is the other or an ancestor of it *)
Definition comparable (d1 d2 : digest) : bool := extb d1 d2 || extb d2 d1.
Fixpoint pairwiseb {A} (r : A -> A -> bool) (l : list A) : bool :=
  match l with [] => true | x :: t => forallb (r x) t && pairwiseb r t end.

(* C01 on the observed run: every two blocks in the union of all honest commit logs lie on one chain *)
Definition all_commits (l : list MNode) : list digest := dedupD (flat_map mn_log l).
Definition mon_agreement (l : list MNode) : bool := pairwiseb comparable (all_commits l).

(* the witness of a failure, for the replay file: among the pairs of committed blocks on different branches the one
   with the lowest rounds, as [round; author; round; author] ([] = no conflict) *)
Definition better (p q : digest * digest) : bool :=
  (dround (fst p) + dround (snd p)) <? (dround (fst q) + dround (snd q)).
Definition keep_better (acc : option (digest * digest)) (p : digest * digest) : option (digest * digest) :=
  match acc with Some q => if better p q then Some p else acc | None => Some p end.
Fixpoint min_conflict (l : list digest) (acc : option (digest * digest)) : option (digest * digest) :=
  match l with
  | [] => acc
  | x :: r => min_conflict r (fold_left (fun a y => if comparable x y then a else keep_better a (x, y)) r acc)
  end.
Definition dauthor (d : digest) : N := match d with DBlk a _ _ _ => a | _ => 0 end.
Definition conflict_rounds (l : list MNode) : list N :=
  match min_conflict (all_commits l) None with
  | Some (x, y) => [dround x; dauthor x; dround y; dauthor y]
  | None => []
  end.

(* every honest node's own log is a parent-linked chain from genesis (C02's monitor, node by node) *)
Definition mon_own_chains (l : list MNode) : bool := forallb (fun x => mon_c02 (mn_obs x)) l.

(* no honest node put two votes of the same round on the wire *)
Definition mon_single_vote (l : list MNode) : bool := forallb (fun x => nodupN (map v_round (mn_votes x))) l.

(* every node's own case agrees with the model in every compared aspect (head of its step_verdict) *)
Definition corr_all (l : list MNode) : bool :=
  forallb (fun x => match mn_verdict x with 1 :: _ => true | _ => false end) l.

(* [all (correspondence and monitors); per-node correspondence all-agree;
    MONITORS: agreement; every own log a chain; at most one wire vote per round and node] *)
Definition multi_verdict (l : list MNode) : list N :=
  let flags := [corr_all l; mon_agreement l; mon_own_chains l; mon_single_vote l] in
  b2n (forallb (fun x => x) flags) :: map b2n flags.
