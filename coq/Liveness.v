(* C06 -- liveness, the ENABLING side only (the model has no clock): theorems about the executable node
   model of Node.v, universally quantified over node states.
     (d) c06_timeouts_rearmed       a local timeout is always enabled, re-broadcasts the current round and
                                    high_qc and never lowers a counter
     (a) c06_tc_sync                a quorum of valid timeouts of round r assembles TC r exactly once, moves
                                    the node to r+1 and makes the leader of r+1 issue one Make carrying it
         c06_tc_sync_from           the same from a partially filled TC maker (c06_own_timeout_counts: the node's
                                    own timeout is such a start); c06_tc_sync_trace: read off the whole trace;
         c06_tc_sync_progress       any high_qcs in the timeouts: the round ends above r
     (b) c06_leader_block_votable   the block requested by an AGGREGATING leader passes the TC branch of the
                                    voting rule at every node that has not voted in round r+1
     (c) c06_happy_path_qc / c06_happy_path_commit
   What is NOT here: real time, message-delay bounds, fairness of the scheduler, loss on best-effort links. *)
From Coq Require Import List NArith ZArith Lia Bool ZifyN ZifyBool.
From HS Require Import GTac Node Corr Monitors Proto Link NodeInv NodeLog NodePanic Global LivenessDefs.
Import ListNotations.
Open Scope N_scope.

(* ---------- the order on the four counters ---------- *)
Definition cle (s s' : State) : Prop :=
  s_round s <= s_round s' /\ s_last_voted s <= s_last_voted s' /\
  s_last_committed s <= s_last_committed s' /\ qc_round (s_high_qc s) <= qc_round (s_high_qc s').

Lemma cle_refl s : cle s s.
Proof. unfold cle. lia. Qed.
Lemma cle_trans a b d : cle a b -> cle b d -> cle a d.
Proof. unfold cle. lia. Qed.
Lemma cleb_iff s s' : cleb s s' = true <-> cle s s'.
Proof. unfold cleb, cle. rewrite !andb_true_iff, !N.leb_le. tauto. Qed.

Lemma nodup_app_l {A} (l l' : list A) : NoDup (l ++ l') -> NoDup l.
Proof.
  induction l as [|a l IH]; cbn [app]; intros H; [constructor|].
  inversion H; subst. constructor; [|apply IH; assumption].
  intro Hin. apply H2. apply in_or_app. left. exact Hin.
Qed.

Section Live.
  Variable c : Committee.
  Variable me : N.

  (* ---------- closed forms of the small state transformers ---------- *)
  Definition adv_state (s : State) (r : N) : State :=
    set_tcm (set_qcm (set_round s (r + 1)) (filter (fun e => r + 1 <=? fst (fst e)) (s_qcm s)))
            (filter (fun e => r + 1 <=? fst e) (s_tcm s)).
  Definition adv (s : State) (r : N) : State := if r <? s_round s then s else adv_state s r.

  Lemma advance_round_eq r s : advance_round r s = (adv s r, [], ROk tt).
  Proof.
    unfold advance_round, adv, bind, get, ret, modify. gunf.
    destruct (r <? s_round s); reflexivity.
  Qed.

  Definition uhq (s : State) (q : QC) : State :=
    if qc_round (s_high_qc s) <? qc_round q then set_high_qc s q else s.
  Definition pq_state (s : State) (q : QC) : State := uhq (adv s (qc_round q)) q.

  Lemma process_qc_eq q s : process_qc q s = (pq_state s q, [], ROk tt).
  Proof.
    unfold process_qc, bind. rewrite advance_round_eq.
    unfold update_high_qc, modify, pq_state, uhq. gunf. reflexivity.
  Qed.

  Lemma adv_round s r : s_round (adv s r) = N.max (s_round s) (r + 1).
  Proof. unfold adv. destruct (r <? s_round s) eqn:E; simpl; lia. Qed.
  Lemma adv_fields s r :
    s_last_voted (adv s r) = s_last_voted s /\ s_last_committed (adv s r) = s_last_committed s /\
    s_high_qc (adv s r) = s_high_qc s /\ s_store (adv s r) = s_store s /\ s_hist (adv s r) = s_hist s /\
    s_log (adv s r) = s_log s /\ s_buffer (adv s r) = s_buffer s /\ s_loopback (adv s r) = s_loopback s /\
    s_makes (adv s r) = s_makes s.
  Proof. unfold adv. destruct (r <? s_round s); simpl; repeat split; reflexivity. Qed.
  Lemma adv_cle s r : cle s (adv s r).
  Proof.
    destruct (adv_fields s r) as [A [B [C _]]]. unfold cle. rewrite adv_round, A, B, C. lia.
  Qed.

  Lemma uhq_round s q : s_round (uhq s q) = s_round s.
  Proof. unfold uhq. destruct (_ <? _); reflexivity. Qed.
  Lemma uhq_hq s q : qc_round (s_high_qc (uhq s q)) = N.max (qc_round (s_high_qc s)) (qc_round q).
  Proof. unfold uhq. destruct (qc_round (s_high_qc s) <? qc_round q) eqn:E; simpl; lia. Qed.
  Lemma uhq_fields s q :
    s_last_voted (uhq s q) = s_last_voted s /\ s_last_committed (uhq s q) = s_last_committed s /\
    s_tcm (uhq s q) = s_tcm s /\ s_qcm (uhq s q) = s_qcm s /\ s_store (uhq s q) = s_store s /\
    s_buffer (uhq s q) = s_buffer s /\ s_loopback (uhq s q) = s_loopback s /\ s_makes (uhq s q) = s_makes s.
  Proof. unfold uhq. destruct (_ <? _); simpl; repeat split; reflexivity. Qed.
  Lemma uhq_cle s q : cle s (uhq s q).
  Proof.
    destruct (uhq_fields s q) as [A [B _]]. unfold cle. rewrite uhq_round, uhq_hq, A, B. lia.
  Qed.

  Lemma pq_round s q : s_round (pq_state s q) = N.max (s_round s) (qc_round q + 1).
  Proof. unfold pq_state. rewrite uhq_round, adv_round. reflexivity. Qed.
  Lemma pq_hq s q : qc_round (s_high_qc (pq_state s q)) = N.max (qc_round (s_high_qc s)) (qc_round q).
  Proof. unfold pq_state. rewrite uhq_hq. destruct (adv_fields s (qc_round q)) as [_ [_ [C _]]]. rewrite C. reflexivity. Qed.
  Lemma pq_cle s q : cle s (pq_state s q).
  Proof. unfold pq_state. eapply cle_trans; [apply adv_cle|apply uhq_cle]. Qed.
  Lemma pq_lv s q : s_last_voted (pq_state s q) = s_last_voted s /\ s_last_committed (pq_state s q) = s_last_committed s.
  Proof.
    unfold pq_state. destruct (uhq_fields (adv s (qc_round q)) q) as [A [B _]].
    destruct (adv_fields s (qc_round q)) as [A' [B' _]]. rewrite A, B, A', B'. auto.
  Qed.

  (* ---------- generate_proposal in closed form ---------- *)
  Definition gp_block (hint : list N) (tc : option TC) (s : State) : Block :=
    made_block me (s_round s) (s_high_qc s) tc (if same_set hint (s_buffer s) then hint else s_buffer s).
  Definition gp_state (hint : list N) (tc : option TC) (s : State) : State :=
    set_loopback (set_buffer (set_makes s (s_round s :: s_makes s)) []) (s_loopback s ++ [gp_block hint tc s]).
  Definition gp_outs (hint : list N) (tc : option TC) (s : State) : list Out :=
    OProposer (PMake (s_round s) (s_high_qc s) tc) ::
    (if same_set hint (s_buffer s) then [] else [OBadHint]) ++ [OPropose (gp_block hint tc s)].

  Lemma generate_proposal_eq hint tc s :
    generate_proposal me hint tc s = (gp_state hint tc s, gp_outs hint tc s, ROk tt).
  Proof.
    unfold generate_proposal, gp_state, gp_outs, gp_block, made_block, bind, get, ret, modify, emit.
    destruct (same_set hint (s_buffer s)); reflexivity.
  Qed.

  Lemma gp_outs_makes hint tc s : makes_of (gp_outs hint tc s) = [(s_round s, s_high_qc s, tc)].
  Proof. unfold gp_outs. destruct (same_set _ _); reflexivity. Qed.
  Lemma gp_outs_tcs hint tc s : tcs_of (gp_outs hint tc s) = [].
  Proof. unfold gp_outs. destruct (same_set _ _); reflexivity. Qed.
  Lemma gp_outs_commits hint tc s : commits_of (gp_outs hint tc s) = [].
  Proof. unfold gp_outs. destruct (same_set _ _); reflexivity. Qed.
  Lemma gp_outs_proposes hint tc s : proposes_of (gp_outs hint tc s) = [gp_block hint tc s].
  Proof. unfold gp_outs. destruct (same_set _ _); reflexivity. Qed.
  Lemma gp_outs_timeouts hint tc s : timeouts_of (gp_outs hint tc s) = [].
  Proof. unfold gp_outs. destruct (same_set _ _); reflexivity. Qed.
  Lemma gp_cle hint tc s : cle s (gp_state hint tc s).
  Proof. unfold cle, gp_state. simpl. lia. Qed.

  (* ---------- handle_timeout in closed form ---------- *)
  Definition ht_tail (hint : list N) (t : Timeout) (s1 : State) : State * list Out * res unit :=
    let '(m', r) := tm_append c (tcm_get (t_round t) (s_tcm s1)) t in
    let s2 := set_tcm s1 (tcm_put (t_round t) m' (s_tcm s1)) in
    match r with
    | ROk None => (s2, [], ROk tt)
    | ROk (Some tc) =>
        let s3 := adv s2 (tc_round tc) in
        if me =? leader c (s_round s3)
        then (gp_state hint (Some tc) s3, OTC tc :: gp_outs hint (Some tc) s3, ROk tt)
        else (s3, [OTC tc], ROk tt)
    | RErr e => (s2, [], RErr e)
    | RPanic k => (s2, [], RPanic k)
    end.

  Lemma handle_timeout_eq hint t s :
    handle_timeout c me hint t s =
    if t_round t <? s_round s then (s, [], ROk tt)
    else match timeout_verify c t with
         | ROk _ => ht_tail hint t (pq_state s (t_high_qc t))
         | RErr e => (s, [], RErr e)
         | RPanic k => (s, [], RPanic k)
         end.
  Proof.
    unfold handle_timeout. unfold bind at 1. unfold get at 1. gunf.
    destruct (t_round t <? s_round s); [reflexivity|].
    unfold bind at 1. unfold lift at 1.
    destruct (timeout_verify c t) as [[]|e|k]; try reflexivity.
    unfold bind at 1. rewrite process_qc_eq.
    unfold bind at 1. unfold get at 1. unfold ht_tail.
    destruct (tm_append c (tcm_get (t_round t) (s_tcm (pq_state s (t_high_qc t)))) t) as [m' r].
    unfold bind at 1. unfold modify at 1. unfold bind at 1. unfold lift at 1.
    destruct r as [[tc|]|e|k]; try reflexivity.
    unfold bind at 1. rewrite advance_round_eq.
    unfold bind at 1. unfold emit at 1. unfold bind at 1. unfold get at 1.
    destruct (me =? leader c (s_round _)); [|reflexivity].
    rewrite generate_proposal_eq. reflexivity.
  Qed.

  (* ================================================================================================ *)
  (* (d) timeouts are re-armed                                                                        *)
  (* ================================================================================================ *)
  Lemma tm_append_nopanic m t k : snd (tm_append c m t) <> RPanic k.
  Proof.
    unfold tm_append. destruct (memN _ _); [simpl; discriminate|].
    destruct (g_tcm_threshold _ _); simpl; discriminate.
  Qed.

  Lemma ht_tail_cle hint t s1 :
    match ht_tail hint t s1 with
    | (s', o, res) => cle s1 s' /\ (forall k, res <> RPanic k) /\ timeouts_of o = []
    end.
  Proof.
    unfold ht_tail.
    pose proof (tm_append_nopanic (tcm_get (t_round t) (s_tcm s1)) t) as NP.
    destruct (tm_append c (tcm_get (t_round t) (s_tcm s1)) t) as [m' r]. simpl in NP.
    set (s2 := set_tcm s1 (tcm_put (t_round t) m' (s_tcm s1))).
    assert (C2 : cle s1 s2) by (unfold cle; simpl; lia).
    destruct r as [[tc|]|e|k].
    - destruct (me =? leader c (s_round (adv s2 (tc_round tc)))).
      + split; [|split; [intros k; discriminate|]].
        * eapply cle_trans; [exact C2|]. eapply cle_trans; [apply adv_cle|apply gp_cle].
        * simpl. apply gp_outs_timeouts.
      + split; [|split; [intros k; discriminate|reflexivity]].
        eapply cle_trans; [exact C2|apply adv_cle].
    - split; [exact C2|]. split; [intros k; discriminate|reflexivity].
    - split; [exact C2|]. split; [intros k; discriminate|reflexivity].
    - exfalso. apply (NP k). reflexivity.
  Qed.

  Lemma handle_timeout_cle hint t s :
    match handle_timeout c me hint t s with
    | (s', o, res) => cle s s' /\ (forall k, res <> RPanic k) /\ timeouts_of o = []
    end.
  Proof.
    rewrite handle_timeout_eq.
    destruct (t_round t <? s_round s).
    { split; [apply cle_refl|]. split; [intros k; discriminate|reflexivity]. }
    destruct (timeout_verify c t) as [[]|e|k] eqn:Ev.
    - pose proof (ht_tail_cle hint t (pq_state s (t_high_qc t))) as T.
      destruct (ht_tail hint t (pq_state s (t_high_qc t))) as [[s' o] res].
      destruct T as [T1 [T2 T3]]. split; [|split; assumption].
      eapply cle_trans; [apply pq_cle|exact T1].
    - split; [apply cle_refl|]. split; [intros k; discriminate|reflexivity].
    - exfalso. eapply timeout_verify_nopanic; eauto.
  Qed.

  Definition lt_state (s : State) : State :=
    set_hist (set_last_voted s (N.max (s_last_voted s) (s_round s)))
             (HTimeout (s_round s) (qc_round (s_high_qc s)) :: s_hist s).

  Lemma local_timeout_eq hint s :
    local_timeout c me hint s =
    match handle_timeout c me hint (own_timeout me s) (lt_state s) with
    | (s', o, res) => (s', OTimeout (own_timeout me s) :: o, res)
    end.
  Proof.
    unfold local_timeout, increase_last_voted. unfold bind at 1. unfold get at 1.
    unfold bind at 1. unfold modify at 1. unfold bind at 1. unfold modify at 1.
    unfold bind at 1. unfold emit at 1. cbn [t_round t_high_qc].
    change (set_hist _ _) with (lt_state s).
    change (mkTimeout _ _ _ _) with (own_timeout me s).
    destruct (handle_timeout c me hint (own_timeout me s) (lt_state s)) as [[s' o] res]. reflexivity.
  Qed.

  (* No precondition at all: in EVERY state a timer expiry broadcasts a timeout message for the current
     round carrying the current high_qc (first output; no second timeout message in the same step), none of
     round / last_voted / last_committed / high_qc.round decreases, last_voted reaches the round timed out,
     and the step does not panic. *)
  Theorem c06_timeouts_rearmed hint s :
    match local_timeout c me hint s with
    | (s', outs, res) =>
        (exists rest, outs = OTimeout (own_timeout me s) :: rest /\ timeouts_of rest = []) /\
        t_round (own_timeout me s) = s_round s /\ t_high_qc (own_timeout me s) = s_high_qc s /\
        t_author (own_timeout me s) = me /\
        cle s s' /\ s_round s <= s_last_voted s' /\ (forall k, res <> RPanic k)
    end.
  Proof.
    rewrite local_timeout_eq.
    pose proof (handle_timeout_cle hint (own_timeout me s) (lt_state s)) as H.
    destruct (handle_timeout c me hint (own_timeout me s) (lt_state s)) as [[s' o] res].
    destruct H as [H1 [H2 H3]].
    split; [exists o; auto|]. repeat split; auto.
    - destruct H1 as [A [B [C D]]]. unfold lt_state in *. simpl in *. lia.
    - destruct H1 as [A [B [C D]]]. unfold lt_state in *. simpl in *. lia.
    - destruct H1 as [A [B [C D]]]. unfold lt_state in *. simpl in *. lia.
    - destruct H1 as [A [B [C D]]]. unfold lt_state in *. simpl in *. lia.
    - destruct H1 as [A [B [C D]]]. unfold lt_state in *. simpl in *. lia.
  Qed.

  (* the message it broadcasts is one every other member accepts, as soon as the node has voting rights and
     its high_qc is the genesis certificate or verifies *)
  Theorem c06_own_timeout_valid s :
    0 < Node.stake c me ->
    qc_eqb (s_high_qc s) qc_genesis = true \/ qc_verify c (s_high_qc s) = ROk tt ->
    timeout_verify c (own_timeout me s) = ROk tt.
  Proof.
    intros Hs Hq. unfold timeout_verify, own_timeout. cbn [t_author t_round t_high_qc t_sig]. gunf.
    assert (E : (0 <? Node.stake c me) = true) by (apply N.ltb_lt; exact Hs). rewrite E. cbn [negb].
    unfold sig_ok, content_eqb. rewrite !N.eqb_refl. cbn [andb negb].
    destruct (qc_eqb (s_high_qc s) qc_genesis); [reflexivity|].
    destruct Hq as [Hq|Hq]; [discriminate|exact Hq].
  Qed.

  (* ================================================================================================ *)
  (* (a) TC synchronisation                                                                           *)
  (* ================================================================================================ *)
  Lemma stake_sum_app l a : stake_sum c (l ++ [a]) = stake_sum c l + Node.stake c a.
  Proof.
    unfold stake_sum. induction l as [|x l IH]; cbn [fold_right app]; [lia|rewrite IH; lia].
  Qed.
  Lemma stake_sum_app2 l1 l2 : stake_sum c (l1 ++ l2) = stake_sum c l1 + stake_sum c l2.
  Proof.
    unfold stake_sum. induction l1 as [|x l IH]; cbn [fold_right app]; [lia|rewrite IH; lia].
  Qed.

  Lemma tcm_get_filter nr r l :
    nr <= r -> tcm_get r (filter (fun e : N * TCMaker => nr <=? fst e) l) = tcm_get r l.
  Proof.
    intros Hle. unfold tcm_get. induction l as [|a l IH]; [reflexivity|].
    cbn [filter find]. destruct (fst a =? r) eqn:E2.
    - apply N.eqb_eq in E2. assert (E : (nr <=? fst a) = true) by (apply N.leb_le; lia).
      rewrite E. cbn [find]. rewrite (proj2 (N.eqb_eq _ _) E2). reflexivity.
    - destruct (nr <=? fst a); [cbn [find]; rewrite E2|]; exact IH.
  Qed.
  Lemma tcm_get_put r m l : tcm_get r (tcm_put r m l) = m.
  Proof. unfold tcm_get, tcm_put. cbn [find fst]. rewrite N.eqb_refl. reflexivity. Qed.

  Lemma adv_tcm_get s r0 r : s_round (adv s r0) <= r -> tcm_get r (s_tcm (adv s r0)) = tcm_get r (s_tcm s).
  Proof.
    unfold adv. destruct (r0 <? s_round s); [reflexivity|]. cbn [adv_state s_round s_tcm set_tcm set_qcm set_round].
    intros H. apply tcm_get_filter. exact H.
  Qed.
  Lemma pq_tcm_get s q r : s_round (pq_state s q) <= r -> tcm_get r (s_tcm (pq_state s q)) = tcm_get r (s_tcm s).
  Proof.
    unfold pq_state. rewrite uhq_round. intros H.
    destruct (uhq_fields (adv s (qc_round q)) q) as [_ [_ [T _]]]. rewrite T. apply adv_tcm_get. exact H.
  Qed.

  (* the state of a node that has been fed the valid round-r timeouts [fed] (oldest first), all below the quorum *)
  Definition FInv (r : N) (fed : list Timeout) (s : State) : Prop :=
    s_round s <= r /\
    tcm_get r (s_tcm s) = mkTM (stake_sum c (map t_author fed)) (map tc_entry fed) (rev (map t_author fed)) /\
    (forall x, In x fed -> qc_round (t_high_qc x) <= qc_round (s_high_qc s)).

  Definition tvalid (r : N) (t : Timeout) : Prop :=
    t_round t = r /\ timeout_verify c t = ROk tt /\ qc_round (t_high_qc t) < r.

  Lemma memN_false a l : ~ In a l -> memN a l = false.
  Proof. intros H. destruct (memN a l) eqn:E; [apply memN_in in E; contradiction|reflexivity]. Qed.

  (* the part common to both cases: up to the aggregator *)
  Lemma ht_prefix r fed t s :
    FInv r fed s -> tvalid r t -> ~ In (t_author t) (map t_author fed) ->
    let s1 := pq_state s (t_high_qc t) in
    (t_round t <? s_round s) = false /\ s_round s1 <= r /\ cle s s1 /\
    (forall x, In x (fed ++ [t]) -> qc_round (t_high_qc x) <= qc_round (s_high_qc s1)) /\
    tm_append c (tcm_get (t_round t) (s_tcm s1)) t =
      let w := stake_sum c (map t_author (fed ++ [t])) in
      if Node.quorum c <=? w
      then (mkTM 0 (map tc_entry (fed ++ [t])) (rev (map t_author (fed ++ [t]))), ROk (Some (tc_of r (fed ++ [t]))))
      else (mkTM w (map tc_entry (fed ++ [t])) (rev (map t_author (fed ++ [t]))), ROk None).
  Proof.
    intros [Hr [Hm Hq]] [Et [Ev Eh]] Hnin s1.
    assert (R1 : s_round s1 <= r) by (unfold s1; rewrite pq_round; lia).
    split; [apply N.ltb_ge; lia|]. split; [exact R1|]. split; [apply pq_cle|]. split.
    { intros x Hx. unfold s1. rewrite pq_hq. apply in_app_or in Hx. destruct Hx as [Hx|[<-|[]]]; [|lia].
      specialize (Hq x Hx). lia. }
    rewrite Et. unfold s1. rewrite (pq_tcm_get s (t_high_qc t) r R1), Hm.
    unfold tm_append. cbn [tm_used tm_votes tm_weight]. gunf.
    rewrite memN_false by (rewrite <- in_rev; exact Hnin).
    rewrite !map_app. cbn [map]. rewrite stake_sum_app, rev_app_distr. cbn [rev app].
    rewrite Et. unfold tc_of, tc_entry at 2 4 6. rewrite map_app. cbn [map].
    destruct (Node.quorum c <=? stake_sum c (map t_author fed) + Node.stake c (t_author t)); reflexivity.
  Qed.

  Lemma ht_below hint r fed t s :
    FInv r fed s -> tvalid r t -> ~ In (t_author t) (map t_author fed) ->
    stake_sum c (map t_author (fed ++ [t])) < Node.quorum c ->
    exists s', handle_timeout c me hint t s = (s', [], ROk tt) /\ FInv r (fed ++ [t]) s' /\ cle s s'.
  Proof.
    intros HF Hv Hnin Hw.
    destruct (ht_prefix r fed t s HF Hv Hnin) as [Est [R1 [C1 [Q1 Eap]]]].
    destruct Hv as [Et [Ev Eh]].
    rewrite handle_timeout_eq, Est, Ev. unfold ht_tail. rewrite Eap. cbv zeta.
    assert (E : (Node.quorum c <=? stake_sum c (map t_author (fed ++ [t]))) = false) by (apply N.leb_gt; exact Hw).
    rewrite E. eexists. split; [reflexivity|]. split.
    - split; [exact R1|]. split; [|exact Q1].
      cbn [s_tcm set_tcm]. rewrite Et. apply tcm_get_put.
    - destruct C1 as [A [B [C D]]]. unfold cle. cbn. lia.
  Qed.

  Lemma ht_quorum hint r fed t s :
    FInv r fed s -> tvalid r t -> ~ In (t_author t) (map t_author fed) ->
    Node.quorum c <= stake_sum c (map t_author (fed ++ [t])) ->
    let tc := tc_of r (fed ++ [t]) in
    exists s' o,
      handle_timeout c me hint t s = (s', OTC tc :: o, ROk tt) /\
      s_round s' = r + 1 /\ cle s s' /\
      (forall x, In x (fed ++ [t]) -> qc_round (t_high_qc x) <= qc_round (s_high_qc s')) /\
      exists s3, s_round s3 = r + 1 /\ s_high_qc s3 = s_high_qc s' /\
        (if me =? leader c (r + 1) then s' = gp_state hint (Some tc) s3 /\ o = gp_outs hint (Some tc) s3
         else s' = s3 /\ o = []).
  Proof.
    intros HF Hv Hnin Hw tc.
    destruct (ht_prefix r fed t s HF Hv Hnin) as [Est [R1 [C1 [Q1 Eap]]]].
    destruct Hv as [Et [Ev Eh]].
    rewrite handle_timeout_eq, Est, Ev. unfold ht_tail. rewrite Eap. cbv zeta.
    assert (E : (Node.quorum c <=? stake_sum c (map t_author (fed ++ [t]))) = true) by (apply N.leb_le; exact Hw).
    rewrite E. fold tc.
    set (s1 := pq_state s (t_high_qc t)) in *.
    set (s2 := set_tcm s1 _).
    assert (R3 : s_round (adv s2 (tc_round tc)) = r + 1).
    { rewrite adv_round. cbn [tc tc_of tc_round]. change (s_round s2) with (s_round s1). lia. }
    assert (H3 : s_high_qc (adv s2 (tc_round tc)) = s_high_qc s1).
    { destruct (adv_fields s2 (tc_round tc)) as [_ [_ [X _]]]. rewrite X. reflexivity. }
    assert (C3 : cle s (adv s2 (tc_round tc))).
    { eapply cle_trans; [exact C1|]. eapply cle_trans; [|apply adv_cle]. unfold cle. cbn. lia. }
    rewrite R3.
    destruct (me =? leader c (r + 1)) eqn:El.
    - eexists _, _. split; [reflexivity|]. split; [cbn; exact R3|]. split.
      { eapply cle_trans; [exact C3|apply gp_cle]. }
      split.
      { intros x Hx. cbn [gp_state set_loopback set_buffer set_makes s_high_qc]. rewrite H3. apply Q1. exact Hx. }
      exists (adv s2 (tc_round tc)). split; [exact R3|]. split; [reflexivity|]. split; reflexivity.
    - eexists _, _. split; [reflexivity|]. split; [exact R3|]. split; [exact C3|]. split.
      { intros x Hx. rewrite H3. apply Q1. exact Hx. }
      exists (adv s2 (tc_round tc)). split; [exact R3|]. split; [reflexivity|]. split; reflexivity.
  Qed.

  Lemma ht_stale hint t s : t_round t < s_round s -> handle_timeout c me hint t s = (s, [], ROk tt).
  Proof. intros H. rewrite handle_timeout_eq. apply N.ltb_lt in H. rewrite H. reflexivity. Qed.

  Variable dq : DqCfg.

  Lemma run_app l1 : forall l2 s,
    run c me dq (l1 ++ l2) s =
    let '(s1, tr1) := run c me dq l1 s in let '(s2, tr2) := run c me dq l2 s1 in (s2, tr1 ++ tr2).
  Proof.
    induction l1 as [|[h e] l1 IH]; intros l2 s; cbn [run app].
    - destruct (run c me dq l2 s) as [s2 tr2]. reflexivity.
    - destruct (step c me dq h e s) as [[s1 o] r]. rewrite IH.
      destruct (run c me dq l1 s1) as [s1' tr1]. destruct (run c me dq l2 s1') as [s2 tr2]. reflexivity.
  Qed.

  Lemma feed_timeouts_cons hint t ts s :
    feed_timeouts c me dq hint (t :: ts) s =
    match handle_timeout c me hint t s with
    | (s1, o, r) => let '(s2, tr) := feed_timeouts c me dq hint ts s1 in (s2, (o, r) :: tr)
    end.
  Proof. reflexivity. Qed.

  Lemma feed_timeouts_app hint l1 l2 s :
    feed_timeouts c me dq hint (l1 ++ l2) s =
    let '(s1, tr1) := feed_timeouts c me dq hint l1 s in
    let '(s2, tr2) := feed_timeouts c me dq hint l2 s1 in (s2, tr1 ++ tr2).
  Proof. unfold feed_timeouts. rewrite map_app. apply run_app. Qed.

  Lemma stake_sum_prefix l1 l2 : stake_sum c l1 <= stake_sum c (l1 ++ l2).
  Proof. rewrite stake_sum_app2. lia. Qed.

  (* below the quorum every step is silent *)
  Lemma feed_below hint r : forall pre fed s,
    FInv r fed s -> (forall x, In x pre -> tvalid r x) -> NoDup (map t_author (fed ++ pre)) ->
    stake_sum c (map t_author (fed ++ pre)) < Node.quorum c ->
    exists s1 tr1, feed_timeouts c me dq hint pre s = (s1, tr1) /\ quiet tr1 = true /\
                   FInv r (fed ++ pre) s1 /\ cle s s1.
  Proof.
    induction pre as [|t pre IH]; intros fed s HF Hv Hnd Hw.
    - exists s, []. rewrite app_nil_r. split; [reflexivity|]. split; [reflexivity|]. split; [exact HF|apply cle_refl].
    - assert (Eapp : fed ++ t :: pre = (fed ++ [t]) ++ pre) by (rewrite <- app_assoc; reflexivity).
      rewrite Eapp in *.
      assert (Hnin : ~ In (t_author t) (map t_author fed)).
      { rewrite !map_app in Hnd. apply nodup_app_l in Hnd. cbn [map] in Hnd.
        apply NoDup_remove_2 in Hnd. rewrite app_nil_r in Hnd. exact Hnd. }
      assert (Hw1 : stake_sum c (map t_author (fed ++ [t])) < Node.quorum c).
      { pose proof (stake_sum_prefix (map t_author (fed ++ [t])) (map t_author pre)) as P.
        rewrite <- map_app in P. lia. }
      destruct (ht_below hint r fed t s HF (Hv t (or_introl eq_refl)) Hnin Hw1) as [s' [E1 [F1 C1]]].
      destruct (IH (fed ++ [t]) s' F1 (fun x Hx => Hv x (or_intror Hx)) Hnd Hw) as [s1 [tr1 [E2 [Q2 [F2 C2]]]]].
      exists s1, (([], ROk tt) :: tr1). rewrite feed_timeouts_cons, E1, E2.
      split; [reflexivity|]. split; [exact Q2|]. split; [exact F2|eapply cle_trans; eauto].
  Qed.

  (* once the node is past round r, timeouts of round r (valid or not) are dropped silently *)
  Lemma feed_stale hint r : forall post s,
    r < s_round s -> (forall x, In x post -> t_round x <= r) ->
    exists tr, feed_timeouts c me dq hint post s = (s, tr) /\ quiet tr = true.
  Proof.
    induction post as [|t post IH]; intros s Hr Hp.
    - exists []. split; reflexivity.
    - destruct (IH s Hr (fun x Hx => Hp x (or_intror Hx))) as [tr [E Q]].
      exists (([], ROk tt) :: tr). rewrite feed_timeouts_cons, ht_stale.
      + rewrite E. split; [reflexivity|exact Q].
      + specialize (Hp t (or_introl eq_refl)). lia.
  Qed.

  (* general form of (a): the node has already aggregated the valid round-r timeouts [fed] (all below the quorum; e.g.
     its own, see c06_own_timeout_counts); the TC is then made of fed ++ pre ++ [t] *)
  Theorem c06_tc_sync_from hint r fed s pre t post :
    FInv r fed s ->
    (forall x, In x (pre ++ [t]) -> tvalid r x) -> NoDup (map t_author (fed ++ pre ++ [t])) ->
    (forall x, In x post -> t_round x <= r) ->
    stake_sum c (map t_author (fed ++ pre)) < Node.quorum c ->
    Node.quorum c <= stake_sum c (map t_author (fed ++ pre ++ [t])) ->
    let tc := tc_of r (fed ++ pre ++ [t]) in
    exists s1 tr1 s2 o2 tr3,
      feed_timeouts c me dq hint pre s = (s1, tr1) /\ quiet tr1 = true /\ s_round s1 <= r /\
      handle_timeout c me hint t s1 = (s2, OTC tc :: o2, ROk tt) /\
      s_round s2 = r + 1 /\ tcs_of o2 = [] /\
      makes_of o2 = (if me =? leader c (r + 1) then [(r + 1, s_high_qc s2, Some tc)] else []) /\
      (me =? leader c (r + 1) = false -> o2 = []) /\
      (me =? leader c (r + 1) = true ->
         exists pl, proposes_of o2 = [made_block me (r + 1) (s_high_qc s2) (Some tc) pl]) /\
      feed_timeouts c me dq hint post s2 = (s2, tr3) /\ quiet tr3 = true /\
      feed_timeouts c me dq hint (pre ++ t :: post) s = (s2, tr1 ++ (OTC tc :: o2, ROk tt) :: tr3) /\
      cle s s2 /\
      (forall hq, In hq (tc_hqrs tc) -> hq <= qc_round (s_high_qc s2)).
  Proof.
    intros F0 Hv Hnd Hp Hlt Hge tc.
    assert (Hv1 : forall x, In x pre -> tvalid r x) by (intros x Hx; apply Hv; apply in_or_app; left; exact Hx).
    assert (Hnd1 : NoDup (map t_author (fed ++ pre))).
    { rewrite app_assoc, map_app in Hnd. apply nodup_app_l in Hnd. exact Hnd. }
    destruct (feed_below hint r pre fed s F0 Hv1 Hnd1 Hlt) as [s1 [tr1 [E1 [Q1 [F1 C1]]]]].
    assert (Hnin : ~ In (t_author t) (map t_author (fed ++ pre))).
    { rewrite app_assoc, map_app in Hnd. cbn [map] in Hnd. apply NoDup_remove_2 in Hnd. rewrite app_nil_r in Hnd. exact Hnd. }
    assert (Hvt : tvalid r t) by (apply Hv; apply in_or_app; right; left; reflexivity).
    assert (Hge' : Node.quorum c <= stake_sum c (map t_author ((fed ++ pre) ++ [t]))) by (rewrite <- app_assoc; exact Hge).
    destruct (ht_quorum hint r (fed ++ pre) t s1 F1 Hvt Hnin Hge') as [s2 [o2 [E2 [R2 [C2 [Q2 [s3 [R3 [H3 Hc]]]]]]]]].
    rewrite <- app_assoc in E2, Hc, Q2.
    fold tc in E2, Hc.
    assert (Hst : r < s_round s2) by lia.
    destruct (feed_stale hint r post s2 Hst Hp) as [tr3 [E3 Q3]].
    exists s1, tr1, s2, o2, tr3.
    split; [exact E1|]. split; [exact Q1|]. split; [apply F1|]. split; [exact E2|]. split; [exact R2|].
    assert (Ho : tcs_of o2 = [] /\
                 makes_of o2 = (if me =? leader c (r + 1) then [(r + 1, s_high_qc s2, Some tc)] else []) /\
                 (me =? leader c (r + 1) = false -> o2 = []) /\
                 (me =? leader c (r + 1) = true ->
                    exists pl, proposes_of o2 = [made_block me (r + 1) (s_high_qc s2) (Some tc) pl])).
    { destruct (me =? leader c (r + 1)).
      - destruct Hc as [_ ->]. rewrite gp_outs_tcs, gp_outs_makes, gp_outs_proposes, R3, H3.
        repeat split; try discriminate. intros _. unfold gp_block. rewrite R3, H3. eexists. reflexivity.
      - destruct Hc as [_ ->]. repeat split. discriminate. }
    destruct Ho as [O1 [O2 [O3 O4]]].
    split; [exact O1|]. split; [exact O2|]. split; [exact O3|]. split; [exact O4|]. split; [exact E3|]. split; [exact Q3|].
    split.
    { change (pre ++ t :: post) with (pre ++ [t] ++ post). rewrite feed_timeouts_app, E1.
      change ([t] ++ post) with (t :: post). rewrite feed_timeouts_cons, E2, E3. reflexivity. }
    split; [eapply cle_trans; eauto|].
    intros hq Hin. unfold tc, tc_of, tc_hqrs in Hin. cbn [tc_votes] in Hin. rewrite map_map in Hin.
    apply in_map_iff in Hin. destruct Hin as [x [<- Hx]]. cbn [tc_entry snd]. apply Q2. exact Hx.
  Qed.

  (* (a) Valid timeouts of round r from distinct authors, fed one after the other to a node whose round is
     <= r and whose TC maker for r is empty ([pre] stays below the quorum, [t] reaches it, [post] is whatever
     arrives later for rounds <= r): the steps of [pre] emit nothing and leave the round <= r; the step of [t]
     broadcasts the TC made of exactly pre ++ [t] (first output, no other TC in that step), the round becomes
     r + 1, the leader of r + 1 -- and only it -- issues exactly one Make, for round r + 1, carrying its
     current high_qc and that TC; the steps of [post] emit nothing and do not change the state. The last
     conjunct is the fact (b) builds on: the high_qc sent with the Make dominates every round reported in the TC. *)
  Theorem c06_tc_sync hint r s pre t post :
    s_round s <= r -> tcm_get r (s_tcm s) = mkTM 0 [] [] ->
    (forall x, In x (pre ++ [t]) -> tvalid r x) -> NoDup (map t_author (pre ++ [t])) ->
    (forall x, In x post -> t_round x <= r) ->
    stake_sum c (map t_author pre) < Node.quorum c ->
    Node.quorum c <= stake_sum c (map t_author (pre ++ [t])) ->
    let tc := tc_of r (pre ++ [t]) in
    exists s1 tr1 s2 o2 tr3,
      feed_timeouts c me dq hint pre s = (s1, tr1) /\ quiet tr1 = true /\ s_round s1 <= r /\
      handle_timeout c me hint t s1 = (s2, OTC tc :: o2, ROk tt) /\
      s_round s2 = r + 1 /\ tcs_of o2 = [] /\
      makes_of o2 = (if me =? leader c (r + 1) then [(r + 1, s_high_qc s2, Some tc)] else []) /\
      (me =? leader c (r + 1) = false -> o2 = []) /\
      (me =? leader c (r + 1) = true ->
         exists pl, proposes_of o2 = [made_block me (r + 1) (s_high_qc s2) (Some tc) pl]) /\
      feed_timeouts c me dq hint post s2 = (s2, tr3) /\ quiet tr3 = true /\
      feed_timeouts c me dq hint (pre ++ t :: post) s = (s2, tr1 ++ (OTC tc :: o2, ROk tt) :: tr3) /\
      cle s s2 /\
      (forall hq, In hq (tc_hqrs tc) -> hq <= qc_round (s_high_qc s2)).
  Proof.
    intros Hr Hm Hv Hnd Hp Hlt Hge.
    assert (F0 : FInv r [] s).
    { split; [exact Hr|]. split; [exact Hm|]. intros x []. }
    exact (c06_tc_sync_from hint r [] s pre t post F0 Hv Hnd Hp Hlt Hge).
  Qed.

  (* the node's OWN timeout counts: a timer expiry in round r (maker for r empty, high_qc older than r, the node has
     voting rights below the quorum and a verifiable high_qc) leaves the node in the situation [FInv r [own timeout]]
     from which c06_tc_sync_from continues -- so its own timeout plus the others' up to the quorum make the TC, whose
     first entry is the node itself *)
  Lemma c06_own_timeout_counts hint s :
    qc_round (s_high_qc s) < s_round s -> tcm_get (s_round s) (s_tcm s) = mkTM 0 [] [] ->
    0 < Node.stake c me -> Node.stake c me < Node.quorum c ->
    qc_eqb (s_high_qc s) qc_genesis = true \/ qc_verify c (s_high_qc s) = ROk tt ->
    exists s', local_timeout c me hint s = (s', [OTimeout (own_timeout me s)], ROk tt) /\
               FInv (s_round s) [own_timeout me s] s'.
  Proof.
    intros Hq Hm Hs Hlt Hv. rewrite local_timeout_eq.
    assert (F0 : FInv (s_round s) [] (lt_state s)).
    { split; [cbn; lia|]. split; [exact Hm|]. intros x []. }
    assert (Tv : tvalid (s_round s) (own_timeout me s)).
    { split; [reflexivity|]. split; [apply c06_own_timeout_valid; assumption|exact Hq]. }
    destruct (ht_below hint (s_round s) [] (own_timeout me s) (lt_state s) F0 Tv) as [s' [E [F _]]].
    - intros [].
    - cbn. lia.
    - rewrite E. exists s'. split; [reflexivity|exact F].
  Qed.

  (* the same, read off the whole trace with the monitors' projections: exactly one TC, at most one Make *)
  Corollary c06_tc_sync_trace hint r s pre t post :
    s_round s <= r -> tcm_get r (s_tcm s) = mkTM 0 [] [] ->
    (forall x, In x (pre ++ [t]) -> tvalid r x) -> NoDup (map t_author (pre ++ [t])) ->
    (forall x, In x post -> t_round x <= r) ->
    stake_sum c (map t_author pre) < Node.quorum c ->
    Node.quorum c <= stake_sum c (map t_author (pre ++ [t])) ->
    match feed_timeouts c me dq hint (pre ++ t :: post) s with
    | (s', tr) =>
        all_ok tr = true /\ s_round s' = r + 1 /\
        tcs_of (outs_tr tr) = [tc_of r (pre ++ [t])] /\
        makes_of (outs_tr tr) =
          (if me =? leader c (r + 1) then [(r + 1, s_high_qc s', Some (tc_of r (pre ++ [t])))] else [])
    end.
  Proof.
    intros Hr Hm Hv Hnd Hp Hlt Hge.
    destruct (c06_tc_sync hint r s pre t post Hr Hm Hv Hnd Hp Hlt Hge)
      as (s1 & tr1 & s2 & o2 & tr3 & _ & Q1 & _ & _ & R2 & O1 & O2 & _ & _ & _ & Q3 & E & _ & _).
    rewrite E.
    assert (Hq : forall tr, quiet tr = true -> all_ok tr = true /\ outs_tr tr = []).
    { induction tr as [|[o x] tr IH]; [auto|]. cbn [quiet forallb quiet_step]. intros H.
      apply andb_true_iff in H. destruct H as [H1 H2]. destruct o; [|discriminate]. destruct x; try discriminate.
      destruct (IH H2) as [A B]. split; [cbn; exact A|]. unfold outs_tr in *. cbn. exact B. }
    destruct (Hq _ Q1) as [A1 B1]. destruct (Hq _ Q3) as [A3 B3].
    assert (Eo : outs_tr (tr1 ++ (OTC (tc_of r (pre ++ [t])) :: o2, ROk tt) :: tr3) = OTC (tc_of r (pre ++ [t])) :: o2).
    { unfold outs_tr in *. rewrite flat_map_app. cbn [flat_map fst]. rewrite B1, B3, app_nil_r. reflexivity. }
    rewrite Eo. split.
    { unfold all_ok in *. rewrite forallb_app. cbn [forallb snd is_ok]. rewrite A1, A3. reflexivity. }
    split; [exact R2|]. split.
    - cbn [tcs_of flat_map app]. unfold tcs_of in O1. rewrite O1. reflexivity.
    - cbn [makes_of flat_map app]. exact O2.
  Qed.

  (* (a'), the general case: no restriction on the high_qc the timeouts carry. A timeout of round r whose high_qc has
     a round >= r moves the node past round r by itself (process_qc), discarding the TC maker of round r; so all one
     can say -- and all progress needs -- is that after valid round-r timeouts from a quorum the node's round is
     above r, and no step panicked. *)
  Definition tvalid0 (r : N) (t : Timeout) : Prop := t_round t = r /\ timeout_verify c t = ROk tt.

  Lemma feed_cle hint : forall ts s,
    match feed_timeouts c me dq hint ts s with
    | (s', tr) => cle s s' /\ forallb (fun x => match snd x with RPanic _ => false | _ => true end) tr = true
    end.
  Proof.
    induction ts as [|t ts IH]; intros s.
    - cbn. split; [apply cle_refl|reflexivity].
    - rewrite feed_timeouts_cons. pose proof (handle_timeout_cle hint t s) as H.
      destruct (handle_timeout c me hint t s) as [[s1 o] r]. destruct H as [H1 [H2 _]].
      specialize (IH s1). destruct (feed_timeouts c me dq hint ts s1) as [s2 tr]. destruct IH as [I1 I2].
      split; [eapply cle_trans; eauto|]. cbn [forallb snd]. rewrite I2.
      destruct r; try reflexivity. exfalso. apply (H2 site). reflexivity.
  Qed.

  Lemma progress_gen hint r : forall ts fed s,
    FInv r fed s -> stake_sum c (map t_author fed) < Node.quorum c ->
    (forall x, In x ts -> tvalid0 r x) -> NoDup (map t_author (fed ++ ts)) ->
    Node.quorum c <= stake_sum c (map t_author (fed ++ ts)) ->
    match feed_timeouts c me dq hint ts s with
    | (s', tr) => r < s_round s' /\ forallb (fun x => match snd x with RPanic _ => false | _ => true end) tr = true
    end.
  Proof.
    induction ts as [|t ts IH]; intros fed s HF Hlt Hv Hnd Hq.
    - exfalso. rewrite app_nil_r in Hq. lia.
    - assert (Eapp : fed ++ t :: ts = (fed ++ [t]) ++ ts) by (rewrite <- app_assoc; reflexivity).
      rewrite Eapp in *.
      assert (Hnin : ~ In (t_author t) (map t_author fed)).
      { rewrite !map_app in Hnd. apply nodup_app_l in Hnd. cbn [map] in Hnd.
        apply NoDup_remove_2 in Hnd. rewrite app_nil_r in Hnd. exact Hnd. }
      destruct (Hv t (or_introl eq_refl)) as [Et Ev].
      rewrite feed_timeouts_cons.
      (* whatever happens in this step, if the round is above r afterwards the rest follows by monotonicity *)
      assert (Rest : forall s1 o1 r1, handle_timeout c me hint t s = (s1, o1, r1) -> r < s_round s1 ->
                match (let '(s2, tr) := feed_timeouts c me dq hint ts s1 in (s2, (o1, r1) :: tr)) with
                | (s', tr) => r < s_round s' /\ forallb (fun x => match snd x with RPanic _ => false | _ => true end) tr = true
                end).
      { intros s1 o1 r1 E1 R1. pose proof (handle_timeout_cle hint t s) as Hc. rewrite E1 in Hc. destruct Hc as [_ [Hnp _]].
        pose proof (feed_cle hint ts s1) as Fc. destruct (feed_timeouts c me dq hint ts s1) as [s2 tr]. destruct Fc as [[Fr _] Fp].
        split; [lia|]. cbn [forallb snd]. rewrite Fp. destruct r1; try reflexivity. exfalso. apply (Hnp site). reflexivity. }
      destruct (qc_round (t_high_qc t) <? r) eqn:Eh.
      + apply N.ltb_lt in Eh. assert (Hvt : tvalid r t) by (split; [exact Et|split; [exact Ev|exact Eh]]).
        destruct (Node.quorum c <=? stake_sum c (map t_author (fed ++ [t]))) eqn:Eq.
        * apply N.leb_le in Eq.
          destruct (ht_quorum hint r fed t s HF Hvt Hnin Eq) as [s1 [o1 [E1 [R1 _]]]].
          rewrite E1. apply (Rest _ _ _ E1). lia.
        * apply N.leb_gt in Eq.
          destruct (ht_below hint r fed t s HF Hvt Hnin Eq) as [s1 [E1 [F1 _]]].
          rewrite E1.
          specialize (IH (fed ++ [t]) s1 F1 Eq (fun x Hx => Hv x (or_intror Hx)) Hnd Hq).
          destruct (feed_timeouts c me dq hint ts s1) as [s2 tr]. destruct IH as [A B].
          split; [exact A|]. cbn [forallb snd]. exact B.
      + apply N.ltb_ge in Eh.
        destruct (handle_timeout c me hint t s) as [[s1 o1] r1] eqn:E1.
        apply (Rest _ _ _ eq_refl).
        rewrite handle_timeout_eq in E1. destruct HF as [Hr _].
        assert (Est : (t_round t <? s_round s) = false) by (apply N.ltb_ge; lia).
        rewrite Est, Ev in E1.
        pose proof (ht_tail_cle hint t (pq_state s (t_high_qc t))) as Tc. rewrite E1 in Tc.
        destruct Tc as [[Tr _] _]. rewrite pq_round in Tr. lia.
  Qed.

  Theorem c06_tc_sync_progress hint r ts s :
    s_round s <= r -> tcm_get r (s_tcm s) = mkTM 0 [] [] ->
    (forall x, In x ts -> tvalid0 r x) -> NoDup (map t_author ts) ->
    Node.quorum c <= stake_sum c (map t_author ts) ->
    match feed_timeouts c me dq hint ts s with
    | (s', tr) => r < s_round s' /\ forallb (fun x => match snd x with RPanic _ => false | _ => true end) tr = true
    end.
  Proof.
    intros Hr Hm Hv Hnd Hq. apply (progress_gen hint r ts [] s); auto.
    - split; [exact Hr|]. split; [exact Hm|]. intros x [].
    - cbn. unfold Node.quorum. gunf. lia.
  Qed.

  (* ================================================================================================ *)
  (* (b) the proposal of an aggregating leader is votable                                             *)
  (* ================================================================================================ *)
  Lemma fold_max_in : forall l a, In (fold_left N.max l a) (a :: l).
  Proof.
    induction l as [|x l IH]; intros a; cbn [fold_left]; [left; reflexivity|].
    destruct (IH (N.max a x)) as [H|H].
    - destruct (N.max_spec a x) as [[_ E]|[_ E]]; rewrite E in *.
      + right. left. exact H.
      + left. exact H.
    - right. right. exact H.
  Qed.
  Lemma list_max_in l : l <> [] -> exists m, list_max l = Some m /\ In m l.
  Proof.
    destruct l as [|x l]; [congruence|]. intros _. exists (fold_left N.max l x).
    split; [reflexivity|apply fold_max_in].
  Qed.

  (* the voting rule alone: a block of round r+1 carrying a non-empty TC of round r, whose QC round is at least
     every high-QC round reported in the TC, gets a vote from every node that has not yet voted (or timed out)
     in a round >= r+1 -- whatever that node's own round, high_qc or the QC's round relative to r *)
  Theorem c06_votable (voter : N) tc qc r a pl s' :
    tc_round tc = r -> tc_votes tc <> [] ->
    (forall hq, In hq (tc_hqrs tc) -> hq <= qc_round qc) ->
    s_last_voted s' < r + 1 ->
    let b := made_block a (r + 1) qc (Some tc) pl in
    exists s'',
      make_vote voter b s' =
        (s'', [], ROk (Some (mkVote (block_digest b) (r + 1) voter (SigOf voter (CVote (block_digest b) (r + 1)))))) /\
      s_last_voted s'' = r + 1.
  Proof.
    intros Er Hne Hhq Hlv b.
    assert (Hne' : tc_hqrs tc <> []).
    { unfold tc_hqrs. destruct (tc_votes tc); [congruence|discriminate]. }
    destruct (list_max_in _ Hne') as [m [Em Hin]].
    unfold make_vote, increase_last_voted. unfold bind at 1. unfold get at 1.
    change (b_tc b) with (Some tc). change (b_round b) with (r + 1). change (b_qc b) with qc.
    unfold bind at 1. rewrite Em. unfold ret at 1. gunf.
    assert (E1 : (s_last_voted s' <? r + 1) = true) by (apply N.ltb_lt; exact Hlv).
    assert (E2 : (tc_round tc + 1 =? r + 1) = true) by (apply N.eqb_eq; lia).
    assert (E3 : (m <=? qc_round qc) = true) by (apply N.leb_le; apply Hhq; exact Hin).
    rewrite E1, E2, E3. rewrite orb_true_r. cbn [andb negb].
    unfold bind, modify, ret. cbn [app].
    eexists. split; [reflexivity|]. cbn. lia.
  Qed.

  (* (b) the block an AGGREGATING leader requests. Under the hypotheses of (a), if the node leads round r+1:
     the Make it issues carries a high_qc whose round is >= every round reported in the TC it assembled
     (handle_timeout ran process_qc on the high_qc of every timeout it aggregated), hence the block built from
     that Make -- with any payload -- is voted by every node whose last_voted_round is <= r.
     NOT guaranteed by the code, and false in general: a leader that merely RECEIVED the TC (handle_tc) has
     not seen the timeouts' high_qcs; its own high_qc may be lower than a round reported in the TC, and its
     proposal is then refused by make_vote (see Example c06_received_tc_refused below). Cost: one more timeout. *)
  Theorem c06_leader_block_votable hint r s pre t post :
    s_round s <= r -> tcm_get r (s_tcm s) = mkTM 0 [] [] ->
    (forall x, In x (pre ++ [t]) -> tvalid r x) -> NoDup (map t_author (pre ++ [t])) ->
    (forall x, In x post -> t_round x <= r) ->
    stake_sum c (map t_author pre) < Node.quorum c ->
    Node.quorum c <= stake_sum c (map t_author (pre ++ [t])) ->
    me = leader c (r + 1) ->
    match feed_timeouts c me dq hint (pre ++ t :: post) s with
    | (s', tr) =>
        let tc := tc_of r (pre ++ [t]) in
        makes_of (outs_tr tr) = [(r + 1, s_high_qc s', Some tc)] /\
        (forall hq, In hq (tc_hqrs tc) -> hq <= qc_round (s_high_qc s')) /\
        (exists pl, proposes_of (outs_tr tr) = [made_block me (r + 1) (s_high_qc s') (Some tc) pl]) /\
        forall pl voter sv, s_last_voted sv < r + 1 ->
          exists sv' v, make_vote voter (made_block me (r + 1) (s_high_qc s') (Some tc) pl) sv = (sv', [], ROk (Some v)) /\
                        v_round v = r + 1 /\ v_author v = voter /\
                        v_hash v = block_digest (made_block me (r + 1) (s_high_qc s') (Some tc) pl)
    end.
  Proof.
    intros Hr Hm Hv Hnd Hp Hlt Hge Hl.
    pose proof (c06_tc_sync_trace hint r s pre t post Hr Hm Hv Hnd Hp Hlt Hge) as T.
    destruct (c06_tc_sync hint r s pre t post Hr Hm Hv Hnd Hp Hlt Hge)
      as (s1 & tr1 & s2 & o2 & tr3 & _ & Q1 & _ & _ & R2 & O1 & O2 & _ & O4 & _ & Q3 & E & _ & Hq).
    rewrite E in *. destruct T as [_ [_ [_ T]]].
    assert (El : (me =? leader c (r + 1)) = true) by (apply N.eqb_eq; exact Hl).
    rewrite El in T. cbv zeta. split; [exact T|]. split; [exact Hq|]. split.
    - destruct (O4 El) as [pl Epl]. exists pl.
      assert (Hq0 : forall tr, quiet tr = true -> outs_tr tr = []).
      { induction tr as [|[o x] tr IH]; [auto|]. cbn [quiet forallb quiet_step]. intros H.
        apply andb_true_iff in H. destruct H as [H1 H2]. destruct o; [|discriminate].
        unfold outs_tr in *. cbn. apply IH. exact H2. }
      unfold outs_tr in *. rewrite flat_map_app. cbn [flat_map fst]. rewrite (Hq0 _ Q1), (Hq0 _ Q3), app_nil_r.
      cbn [proposes_of flat_map app]. exact Epl.
    - intros pl voter sv Hsv.
      assert (Hne : tc_votes (tc_of r (pre ++ [t])) <> []).
      { unfold tc_of. cbn [tc_votes]. rewrite map_app. cbn [map]. intro H. apply app_eq_nil in H. destruct H; discriminate. }
      destruct (c06_votable voter (tc_of r (pre ++ [t])) (s_high_qc s2) r me pl sv eq_refl Hne Hq Hsv) as [sv' [Ev _]].
      eexists _, _. split; [exact Ev|]. repeat split.
  Qed.

  (* ================================================================================================ *)
  (* (c) happy path, first half: a quorum of votes at the next leader                                 *)
  (* ================================================================================================ *)
  Definition hv_tail (hint : list N) (v : Vote) (s : State) : State * list Out * res unit :=
    let k := (v_round v, v_hash v) in
    let '(m', r) := qm_append c (qcm_get k (s_qcm s)) v in
    let s1 := set_qcm s (qcm_put k m' (s_qcm s)) in
    match r with
    | ROk None => (s1, [], ROk tt)
    | ROk (Some qc) =>
        let s2 := pq_state s1 qc in
        if me =? leader c (s_round s2)
        then (gp_state hint None s2, gp_outs hint None s2, ROk tt)
        else (s2, [], ROk tt)
    | RErr e => (s1, [], RErr e)
    | RPanic k => (s1, [], RPanic k)
    end.

  Lemma handle_vote_eq hint v s :
    handle_vote c me hint v s =
    if v_round v <? s_round s then (s, [], ROk tt)
    else match vote_verify c v with
         | ROk _ => hv_tail hint v s
         | RErr e => (s, [], RErr e)
         | RPanic k => (s, [], RPanic k)
         end.
  Proof.
    unfold handle_vote. unfold bind at 1. unfold get at 1. gunf.
    destruct (v_round v <? s_round s); [reflexivity|].
    unfold bind at 1. unfold lift at 1.
    destruct (vote_verify c v) as [[]|e|k]; try reflexivity.
    unfold hv_tail.
    destruct (qm_append c (qcm_get (v_round v, v_hash v) (s_qcm s)) v) as [m' r].
    unfold bind at 1. unfold modify at 1. unfold bind at 1. unfold lift at 1.
    destruct r as [[qc|]|e|k]; try reflexivity.
    unfold bind at 1. rewrite process_qc_eq.
    unfold bind at 1. unfold get at 1.
    destruct (me =? leader c (s_round _)); [|reflexivity].
    rewrite generate_proposal_eq. reflexivity.
  Qed.

  Lemma qcm_get_put k m l : qcm_get k (qcm_put k m l) = m.
  Proof.
    unfold qcm_get, qcm_put. cbn [find fst snd]. rewrite N.eqb_refl, digest_eqb_refl. reflexivity.
  Qed.

  (* a node that has been fed the valid votes [fed] for (r, h), all below the quorum: only the QC maker moved *)
  Definition VInv (r : N) (h : digest) (s0 : State) (fed : list Vote) (s : State) : Prop :=
    s_round s = s_round s0 /\ s_high_qc s = s_high_qc s0 /\ s_last_voted s = s_last_voted s0 /\
    s_last_committed s = s_last_committed s0 /\
    qcm_get (r, h) (s_qcm s) = mkQM (stake_sum c (map v_author fed)) (map qc_entry fed) (rev (map v_author fed)).

  Definition vvalid (r : N) (h : digest) (v : Vote) : Prop :=
    v_round v = r /\ v_hash v = h /\ vote_verify c v = ROk tt.

  Lemma hv_prefix r h fed v s :
    qcm_get (r, h) (s_qcm s) = mkQM (stake_sum c (map v_author fed)) (map qc_entry fed) (rev (map v_author fed)) ->
    vvalid r h v -> ~ In (v_author v) (map v_author fed) ->
    qm_append c (qcm_get (v_round v, v_hash v) (s_qcm s)) v =
      let w := stake_sum c (map v_author (fed ++ [v])) in
      if Node.quorum c <=? w
      then (mkQM 0 (map qc_entry (fed ++ [v])) (rev (map v_author (fed ++ [v]))), ROk (Some (qc_of h r (fed ++ [v]))))
      else (mkQM w (map qc_entry (fed ++ [v])) (rev (map v_author (fed ++ [v]))), ROk None).
  Proof.
    intros Hm [Er [Eh Ev]] Hnin. rewrite Er, Eh, Hm.
    unfold qm_append. cbn [qm_used qm_votes qm_weight]. gunf.
    rewrite memN_false by (rewrite <- in_rev; exact Hnin).
    rewrite !map_app. cbn [map]. rewrite stake_sum_app, rev_app_distr. cbn [rev app].
    rewrite Er, Eh. unfold qc_of, qc_entry at 2 4 6. rewrite map_app. cbn [map].
    destruct (Node.quorum c <=? stake_sum c (map v_author fed) + Node.stake c (v_author v)); reflexivity.
  Qed.

  Lemma hv_below hint r h s0 fed v s :
    s_round s0 <= r -> VInv r h s0 fed s -> vvalid r h v -> ~ In (v_author v) (map v_author fed) ->
    stake_sum c (map v_author (fed ++ [v])) < Node.quorum c ->
    exists s', handle_vote c me hint v s = (s', [], ROk tt) /\ VInv r h s0 (fed ++ [v]) s'.
  Proof.
    intros Hr (A & B & C & D & Hm) Hv Hnin Hw.
    pose proof (hv_prefix r h fed v s Hm Hv Hnin) as Eap. destruct Hv as [Er [Eh Ev]].
    rewrite handle_vote_eq, Ev.
    assert (Est : (v_round v <? s_round s) = false) by (apply N.ltb_ge; lia). rewrite Est.
    unfold hv_tail. rewrite Eap. cbv zeta.
    assert (E : (Node.quorum c <=? stake_sum c (map v_author (fed ++ [v]))) = false) by (apply N.leb_gt; exact Hw).
    rewrite E. eexists. split; [reflexivity|].
    unfold VInv. cbn [s_round s_high_qc s_last_voted s_last_committed s_qcm set_qcm].
    repeat split; auto. rewrite Er, Eh. apply qcm_get_put.
  Qed.

  Lemma hv_quorum hint r h s0 fed v s :
    s_round s0 <= r -> qc_round (s_high_qc s0) < r ->
    VInv r h s0 fed s -> vvalid r h v -> ~ In (v_author v) (map v_author fed) ->
    Node.quorum c <= stake_sum c (map v_author (fed ++ [v])) ->
    let qc := qc_of h r (fed ++ [v]) in
    exists s' o,
      handle_vote c me hint v s = (s', o, ROk tt) /\
      s_round s' = r + 1 /\ s_high_qc s' = qc /\
      s_last_voted s' = s_last_voted s0 /\ s_last_committed s' = s_last_committed s0 /\
      (if me =? leader c (r + 1)
       then makes_of o = [(r + 1, qc, None)] /\ (exists pl, proposes_of o = [made_block me (r + 1) qc None pl]) /\
            tcs_of o = [] /\ commits_of o = []
       else o = []).
  Proof.
    intros Hr Hq (A & B & C & D & Hm) Hv Hnin Hw qc.
    pose proof (hv_prefix r h fed v s Hm Hv Hnin) as Eap. destruct Hv as [Er [Eh Ev]].
    rewrite handle_vote_eq, Ev.
    assert (Est : (v_round v <? s_round s) = false) by (apply N.ltb_ge; lia). rewrite Est.
    unfold hv_tail. rewrite Eap. cbv zeta.
    assert (E : (Node.quorum c <=? stake_sum c (map v_author (fed ++ [v]))) = true) by (apply N.leb_le; exact Hw).
    rewrite E. fold qc.
    set (s1 := set_qcm s _).
    assert (R2 : s_round (pq_state s1 qc) = r + 1).
    { rewrite pq_round. change (s_round s1) with (s_round s). change (qc_round qc) with r. lia. }
    assert (H2 : s_high_qc (pq_state s1 qc) = qc).
    { unfold pq_state, uhq. destruct (adv_fields s1 (qc_round qc)) as [_ [_ [X _]]]. rewrite X.
      change (s_high_qc s1) with (s_high_qc s). change (qc_round qc) with r.
      assert (Eq : (qc_round (s_high_qc s) <? r) = true) by (apply N.ltb_lt; rewrite B; exact Hq).
      rewrite Eq. reflexivity. }
    destruct (pq_lv s1 qc) as [V2 L2]. change (s_last_voted s1) with (s_last_voted s) in V2.
    change (s_last_committed s1) with (s_last_committed s) in L2.
    rewrite R2.
    destruct (me =? leader c (r + 1)).
    - eexists _, _. split; [reflexivity|].
      cbn [gp_state set_loopback set_buffer set_makes s_round s_high_qc s_last_voted s_last_committed].
      split; [exact R2|]. split; [exact H2|]. split; [congruence|]. split; [congruence|].
      rewrite gp_outs_makes, gp_outs_proposes, gp_outs_tcs, gp_outs_commits, R2, H2.
      repeat split. unfold gp_block. rewrite R2, H2. eexists. reflexivity.
    - eexists _, _. split; [reflexivity|]. split; [exact R2|]. split; [exact H2|].
      split; [congruence|]. split; [congruence|reflexivity].
  Qed.

  Lemma hv_stale hint v s : v_round v < s_round s -> handle_vote c me hint v s = (s, [], ROk tt).
  Proof. intros H. rewrite handle_vote_eq. apply N.ltb_lt in H. rewrite H. reflexivity. Qed.

  Lemma feed_votes_cons hint v vs s :
    feed_votes c me dq hint (v :: vs) s =
    match handle_vote c me hint v s with
    | (s1, o, r) => let '(s2, tr) := feed_votes c me dq hint vs s1 in (s2, (o, r) :: tr)
    end.
  Proof. reflexivity. Qed.
  Lemma feed_votes_app hint l1 l2 s :
    feed_votes c me dq hint (l1 ++ l2) s =
    let '(s1, tr1) := feed_votes c me dq hint l1 s in
    let '(s2, tr2) := feed_votes c me dq hint l2 s1 in (s2, tr1 ++ tr2).
  Proof. unfold feed_votes. rewrite map_app. apply run_app. Qed.

  Lemma feedv_below hint r h s0 : s_round s0 <= r -> forall pre fed s,
    VInv r h s0 fed s -> (forall x, In x pre -> vvalid r h x) -> NoDup (map v_author (fed ++ pre)) ->
    stake_sum c (map v_author (fed ++ pre)) < Node.quorum c ->
    exists s1 tr1, feed_votes c me dq hint pre s = (s1, tr1) /\ quiet tr1 = true /\ VInv r h s0 (fed ++ pre) s1.
  Proof.
    intros Hr. induction pre as [|v pre IH]; intros fed s HF Hv Hnd Hw.
    - exists s, []. rewrite app_nil_r. split; [reflexivity|]. split; [reflexivity|exact HF].
    - assert (Eapp : fed ++ v :: pre = (fed ++ [v]) ++ pre) by (rewrite <- app_assoc; reflexivity).
      rewrite Eapp in *.
      assert (Hnin : ~ In (v_author v) (map v_author fed)).
      { rewrite !map_app in Hnd. apply nodup_app_l in Hnd. cbn [map] in Hnd.
        apply NoDup_remove_2 in Hnd. rewrite app_nil_r in Hnd. exact Hnd. }
      assert (Hw1 : stake_sum c (map v_author (fed ++ [v])) < Node.quorum c).
      { pose proof (stake_sum_prefix (map v_author (fed ++ [v])) (map v_author pre)) as P.
        rewrite <- map_app in P. lia. }
      destruct (hv_below hint r h s0 fed v s Hr HF (Hv v (or_introl eq_refl)) Hnin Hw1) as [s' [E1 F1]].
      destruct (IH (fed ++ [v]) s' F1 (fun x Hx => Hv x (or_intror Hx)) Hnd Hw) as [s1 [tr1 [E2 [Q2 F2]]]].
      exists s1, (([], ROk tt) :: tr1). rewrite feed_votes_cons, E1, E2.
      split; [reflexivity|]. split; [exact Q2|exact F2].
  Qed.

  Lemma feedv_stale hint r : forall post s,
    r < s_round s -> (forall x, In x post -> v_round x <= r) ->
    exists tr, feed_votes c me dq hint post s = (s, tr) /\ quiet tr = true.
  Proof.
    induction post as [|v post IH]; intros s Hr Hp.
    - exists []. split; reflexivity.
    - destruct (IH s Hr (fun x Hx => Hp x (or_intror Hx))) as [tr [E Q]].
      exists (([], ROk tt) :: tr). rewrite feed_votes_cons, hv_stale.
      + rewrite E. split; [reflexivity|exact Q].
      + specialize (Hp v (or_introl eq_refl)). lia.
  Qed.

  (* (c1) Valid votes for ONE block (h) of round r from distinct authors, fed one after the other to a node
     whose round is <= r, whose high_qc is older than r (pace invariant: high_qc.round < round) and whose QC
     maker for (r, h) is empty: below the quorum nothing is emitted and round / high_qc do not move; the vote
     that reaches the quorum assembles the QC made of exactly pre ++ [v], which becomes the high_qc, the round
     becomes r + 1 (one advance), and the leader of r + 1 -- and only it -- issues exactly one Make
     (r + 1, that QC, no TC); later votes of rounds <= r are dropped silently (so: exactly one QC, one Make). *)
  Theorem c06_happy_path_qc hint r h s pre v post :
    s_round s <= r -> qc_round (s_high_qc s) < r -> qcm_get (r, h) (s_qcm s) = mkQM 0 [] [] ->
    (forall x, In x (pre ++ [v]) -> vvalid r h x) -> NoDup (map v_author (pre ++ [v])) ->
    (forall x, In x post -> v_round x <= r) ->
    stake_sum c (map v_author pre) < Node.quorum c ->
    Node.quorum c <= stake_sum c (map v_author (pre ++ [v])) ->
    let qc := qc_of h r (pre ++ [v]) in
    exists s1 tr1 s2 o2 tr3,
      feed_votes c me dq hint pre s = (s1, tr1) /\ quiet tr1 = true /\
      s_round s1 = s_round s /\ s_high_qc s1 = s_high_qc s /\
      handle_vote c me hint v s1 = (s2, o2, ROk tt) /\
      s_round s2 = r + 1 /\ s_high_qc s2 = qc /\
      s_last_voted s2 = s_last_voted s /\ s_last_committed s2 = s_last_committed s /\
      (if me =? leader c (r + 1)
       then makes_of o2 = [(r + 1, qc, None)] /\ (exists pl, proposes_of o2 = [made_block me (r + 1) qc None pl]) /\
            tcs_of o2 = [] /\ commits_of o2 = []
       else o2 = []) /\
      feed_votes c me dq hint post s2 = (s2, tr3) /\ quiet tr3 = true /\
      feed_votes c me dq hint (pre ++ v :: post) s = (s2, tr1 ++ (o2, ROk tt) :: tr3).
  Proof.
    intros Hr Hq Hm Hv Hnd Hp Hlt Hge qc.
    assert (F0 : VInv r h s [] s) by (unfold VInv; repeat split; auto).
    assert (Hv1 : forall x, In x pre -> vvalid r h x) by (intros x Hx; apply Hv; apply in_or_app; left; exact Hx).
    assert (Hnd1 : NoDup (map v_author ([] ++ pre))).
    { rewrite map_app in Hnd. apply nodup_app_l in Hnd. exact Hnd. }
    destruct (feedv_below hint r h s Hr pre [] s F0 Hv1 Hnd1 Hlt) as [s1 [tr1 [E1 [Q1 F1]]]].
    cbn [app] in F1.
    assert (Hnin : ~ In (v_author v) (map v_author pre)).
    { rewrite map_app in Hnd. cbn [map] in Hnd. apply NoDup_remove_2 in Hnd. rewrite app_nil_r in Hnd. exact Hnd. }
    assert (Hvv : vvalid r h v) by (apply Hv; apply in_or_app; right; left; reflexivity).
    destruct (hv_quorum hint r h s pre v s1 Hr Hq F1 Hvv Hnin Hge) as (s2 & o2 & E2 & R2 & H2 & V2 & L2 & O2).
    fold qc in H2, O2.
    assert (Hst : r < s_round s2) by lia.
    destruct (feedv_stale hint r post s2 Hst Hp) as [tr3 [E3 Q3]].
    destruct F1 as (A & B & _).
    exists s1, tr1, s2, o2, tr3. repeat (split; [assumption|]).
    change (pre ++ v :: post) with (pre ++ [v] ++ post). rewrite feed_votes_app, E1.
    change ([v] ++ post) with (v :: post). rewrite feed_votes_cons, E2, E3. reflexivity.
  Qed.
End Live.

(* ================================================================================================ *)
(* (c) happy path, second half: a consecutive 2-chain below the processed block commits             *)
(* ================================================================================================ *)
Lemma make_vote_silent me b s : exists s' r, make_vote me b s = (s', [], r).
Proof.
  unfold make_vote, increase_last_voted. unfold bind at 1. unfold get at 1.
  destruct (b_tc b) as [tc|].
  - destruct (list_max (tc_hqrs tc)) as [m|].
    + unfold bind at 1. unfold ret at 1. destruct (negb _).
      * unfold ret. eexists _, _. reflexivity.
      * unfold bind, modify, ret. eexists _, _. reflexivity.
    + unfold bind, panic. eexists _, _. reflexivity.
  - unfold bind at 1. unfold ret at 1. destruct (negb _).
    + unfold ret. eexists _, _. reflexivity.
    + unfold bind, modify, ret. eexists _, _. reflexivity.
Qed.

Lemma handle_vote_no_commit c me hint v s :
  match handle_vote c me hint v s with (_, o, _) => commits_of o = [] end.
Proof.
  rewrite handle_vote_eq. destruct (v_round v <? s_round s); [reflexivity|].
  destruct (vote_verify c v) as [[]|e|k]; try reflexivity.
  unfold hv_tail. destruct (qm_append c _ v) as [m' r].
  destruct r as [[qc|]|e|k]; try reflexivity.
  destruct (me =? leader c _); [apply gp_outs_commits|reflexivity].
Qed.

Lemma deliver_all_outs l : forall s,
  exists s', deliver_all l s = (s', map OCommit l, ROk tt) /\
             s_last_committed s' = s_last_committed s /\ s_store s' = s_store s.
Proof.
  induction l as [|b l IH]; intros s; cbn [deliver_all map].
  - exists s. unfold ret. auto.
  - unfold bind at 1. unfold emit at 1. unfold bind at 1. unfold modify at 1.
    destruct (IH (set_log s (block_digest b :: s_log s))) as [s' [E [A B]]]. rewrite E.
    exists s'. split; [reflexivity|]. split; [exact A|exact B].
Qed.

Section HappyCommit.
  Variable c : Committee.
  Variable me : N.
  Variable honest : N -> bool.
  Hypothesis members_nodup : NoDup (members c).
  Hypothesis me_honest : honest me = true.
  Variable w0 : world.
  Notation stk := (stk c).
  Notation mem := (members c).
  Hypothesis byz_bound : 3 * byz_stake stk mem honest < total stk mem.
  Notation Inv := (Inv c me honest w0).
  Notation vetted := (vetted c me honest w0).
  Local Notation "'$' lemma" := (lemma c me honest members_nodup me_honest w0 byz_bound) (at level 0, lemma at level 0).

  (* commit() of a block above the watermark, in a state satisfying the node invariants: it hands to the commit
     channel, oldest first, the chain [anc] of ancestors of b0 above the old watermark followed by b0 itself,
     and nothing else; the watermark becomes b0's round *)
  Lemma commit_delivers b0 s :
    Inv s -> Closed s -> has_parent s b0 -> vetted s b0 -> s_last_committed s < b_round b0 ->
    exists anc s',
      commit src_dq b0 s = (s', map OCommit (anc ++ [b0]), ROk tt) /\
      s_last_committed s' = b_round b0 /\ s_store s' = s_store s /\
      (forall x, In x anc -> s_last_committed s < b_round x) /\ linked (anc ++ [b0]) /\
      stop_ok s (s_last_committed s) (hd b0 (anc ++ [b0])).
  Proof.
    intros H Hc Hp Hv Hlt. unfold commit. gunfdq. unfold bind at 1. unfold get at 1.
    assert (E : (b_round b0 <=? s_last_committed s) = false) by (apply N.leb_gt; exact Hlt). rewrite E.
    destruct ($commit_walk_ok (s_last_committed s) (S (S (ddepth (block_digest b0)))) b0 [] s H Hc Hp) as [anc Ew]; [lia|].
    pose proof ($commit_walk_chain (s_last_committed s) b0 (S (S (ddepth (block_digest b0)))) b0 [] s H Hv I eq_refl
                  (fun x (Hx : In x []) => match Hx with end)) as WC.
    gunfdq. rewrite Ew in WC. destruct WC as [_ [Hlk [Hrd Hstop]]].
    unfold bind at 1. rewrite Ew. unfold bind at 1. unfold modify at 1.
    destruct (deliver_all_outs (anc ++ [b0]) (set_last_committed s (b_round b0))) as [s' [Ed [A B]]].
    rewrite Ed. exists anc, s'. split; [reflexivity|]. split; [exact A|]. split; [exact B|].
    split; [exact Hrd|]. split; [exact Hlk|exact Hstop].
  Qed.

  Lemma sle_tr' a b d : sle a b -> sle b d -> sle a d.
  Proof.
    intros [[p1 H1] [H2 H3]] [[p2 H4] [H5 H6]]. split; [|lia].
    exists (p2 ++ p1). rewrite H4, H1. apply app_assoc.
  Qed.

  Lemma ext_ddepth a b : ext a b -> (ddepth a <= ddepth b)%nat.
  Proof. induction 1; cbn [ddepth]; lia. Qed.

  Lemma bind_ok_eq {A B} (m : M A) (f : A -> M B) s s1 o1 a :
    m s = (s1, o1, ROk a) -> bind m f s = match f a s1 with (s2, o2, r) => (s2, o1 ++ o2, r) end.
  Proof. intros E. unfold bind. rewrite E. reflexivity. Qed.

  (* the rest of process_block after the commit part: commits nothing, keeps the watermark *)
  Lemma pb_tail_no_commit hint b s :
    match (s <- get ;;
           if g_round_gate (b_round b) (qc_round (b_qc b)) (s_round s) (qc_round (s_high_qc s)) (s_last_voted s) (s_last_committed s) then ret tt
           else ov <- make_vote me b ;;
                match ov with
                | None => ret tt
                | Some v => let nl := leader c (s_round s + 1) in
                            if nl =? me then handle_vote c me hint v else emit (OVote nl v)
                end) s with
    | (s', o, _) => commits_of o = [] /\ s_last_committed s' = s_last_committed s
    end.
  Proof.
    unfold bind at 1. unfold get at 1.
    destruct (g_round_gate _ _ _ _ _ _); [unfold ret; auto|].
    unfold bind at 1.
    destruct (make_vote_silent me b s) as [s1 [r1 E1]]. pose proof (keeps_make_vote me b s) as K1.
    rewrite E1 in *. unfold st in K1; simpl in K1. destruct K1 as [_ K1].
    destruct r1 as [[v|]|e|k]; try (cbn; auto).
    destruct (leader c (s_round s + 1) =? me).
    - pose proof (handle_vote_no_commit c me hint v s1) as NC.
      pose proof (keeps_handle_vote c me hint v s1) as K2.
      destruct (handle_vote c me hint v s1) as [[s2 o2] r2]. unfold st in K2; simpl in K2. destruct K2 as [_ K2].
      cbn. split; [exact NC|congruence].
    - unfold emit. cbn. auto.
  Qed.

  Lemma happy_commit_main hint b b1 b0 s :
    Inv s -> Closed s -> vetted s b ->
    stored_parent s b b1 -> stored_parent s b1 b0 ->
    b_round b0 + 1 = b_round b1 -> s_last_committed s < b_round b0 ->
    match process_block c me src_dq hint b s with
    | (s', outs, res) =>
        exists anc,
          commits_of outs = anc ++ [b0] /\
          (forall x, In x anc -> s_last_committed s < b_round x) /\ linked (anc ++ [b0]) /\
          stop_ok s (s_last_committed s) (hd b0 (anc ++ [b0])) /\
          In (OMemCleanup (b_round b0)) outs /\
          s_last_committed s' = b_round b0
    end.
  Proof.
    intros H Hc Hv [Ng1 Sg1] [Ng0 Sg0] Hr Hlt.
    unfold process_block. gunf.
    assert (Eg1 : get_parent_block b s = (s, [], ROk (Some b1))).
    { unfold get_parent_block. rewrite Ng1. unfold bind, get, ret. cbn. rewrite Sg1. reflexivity. }
    assert (Eg0 : get_parent_block b1 s = (s, [], ROk (Some b0))).
    { unfold get_parent_block. rewrite Ng0. unfold bind, get, ret. cbn. rewrite Sg0. reflexivity. }
    assert (G1 : In (qc_hash (b_qc b), b1) (s_store s)) by (apply (store_get_in c me honest members_nodup me_honest byz_bound); exact Sg1).
    assert (G0 : In (qc_hash (b_qc b1), b0) (s_store s)) by (apply (store_get_in c me honest members_nodup me_honest byz_bound); exact Sg0).
    assert (Hv0 : vetted s b0).
    { apply (i_flight _ _ _ _ _ H). right. right. right. apply in_map_iff. exists (qc_hash (b_qc b1), b0). auto. }
    assert (Hp0 : has_parent s b0) by exact (Hc _ _ G0).
    rewrite (bind_ok_eq _ _ _ _ _ _ Eg1). rewrite (bind_ok_eq _ _ _ _ _ _ Eg0).
    pose proof ($store_block_inv b s H Hv) as S.
    destruct (store_block b s) as [[s3 o3] r3] eqn:Esb.
    destruct S as [I3 [L3 [-> [F1 [F2 [F3 [F4 F5]]]]]]].
    assert (Eo3 : o3 = []) by (unfold store_block, modify in Esb; inversion Esb; reflexivity).
    assert (Elc3 : s_last_committed s3 = s_last_committed s) by (unfold store_block, modify in Esb; inversion Esb; reflexivity).
    subst o3. rewrite (bind_ok_eq _ _ _ _ _ _ Esb).
    assert (Hc3 : Closed s3).
    { intros d x Hin. rewrite F5 in Hin. unfold has_parent. rewrite F5. destruct Hin as [Hin|Hin].
      - inversion Hin; subst. right; exists b1; right; exact G1.
      - destruct (Hc _ _ Hin) as [A|[p A]]; [left; exact A|right; exists p; right; exact A]. }
    assert (Hp03 : has_parent s3 b0).
    { destruct Hp0 as [A|[p A]]; [left; exact A|right; exists p; rewrite F5; right; exact A]. }
    pose proof ($proposer_cleanup_inv (b_payload b0 ++ b_payload b1 ++ b_payload b) s3 I3) as P.
    pose proof (skeeps_proposer_cleanup (b_payload b0 ++ b_payload b1 ++ b_payload b) s3) as K4.
    pose proof (keeps_proposer_cleanup (b_payload b0 ++ b_payload b1 ++ b_payload b) s3) as KL4.
    destruct (proposer_cleanup _ s3) as [[s4 o4] r4] eqn:Epc. unfold st in K4, KL4; simpl in K4, KL4.
    destruct P as [I4 [L4 [-> _]]].
    assert (Eo4 : commits_of o4 = [] /\ ~ In (OMemCleanup (b_round b0)) o4 \/ True) by (right; exact I).
    assert (Eo4' : o4 = [OProposer (PCleanup (b_payload b0 ++ b_payload b1 ++ b_payload b))]).
    { unfold proposer_cleanup, bind, emit, modify in Epc. inversion Epc. reflexivity. }
    subst o4. clear Eo4. rewrite (bind_ok_eq _ _ _ _ _ _ Epc).
    assert (Hc4 : Closed s4) by (eapply Closed_keep; eauto).
    assert (L04 : sle s s4) by (exact (sle_tr' _ _ _ L3 L4)).
    assert (E2c : (b_round b0 + 1 =? b_round b1) = true) by (apply N.eqb_eq; exact Hr).
    rewrite E2c.
    pose proof ($pw_cleanup_inv (b_round b0) s4 I4) as Wc. pose proof (skeeps_pw_cleanup (b_round b0) s4) as K5.
    destruct (pw_cleanup (b_round b0) s4) as [[s5 o5] r5] eqn:Epw. unfold st in K5; simpl in K5.
    destruct Wc as [I5 [L5 [-> [_ [_ [_ [_ [_ W6]]]]]]]].
    assert (Eo5 : o5 = []) by (unfold pw_cleanup, modify in Epw; inversion Epw; reflexivity). subst o5.
    assert (Hc5 : Closed s5) by (eapply Closed_keep; eauto).
    assert (Hp05 : has_parent s5 b0).
    { eapply has_parent_keep; [eapply has_parent_keep; [exact Hp03|exact K4]|exact K5]. }
    assert (Hv05 : vetted s5 b0).
    { eapply ($vetted_sle); [exact Hv0|]. exact (sle_tr' _ _ _ L04 L5). }
    assert (Elc5 : s_last_committed s5 = s_last_committed s).
    { destruct KL4 as [_ KL4]. congruence. }
    assert (Hlt5 : s_last_committed s5 < b_round b0) by (rewrite Elc5; exact Hlt).
    destruct (commit_delivers b0 s5 I5 Hc5 Hp05 Hv05 Hlt5) as (anc & s6 & Ec & Lc6 & St6 & Hrd & Hlk & Hstop).
    (* assemble the commit part *)
    assert (Ecm : (emit (OMemCleanup (b_round b0)) ;;; pw_cleanup (b_round b0) ;;; commit src_dq b0) s4 =
                  (s6, OMemCleanup (b_round b0) :: map OCommit (anc ++ [b0]), ROk tt)).
    { unfold bind at 1. unfold emit at 1. unfold bind at 1. rewrite Epw, Ec. reflexivity. }
    rewrite (bind_ok_eq _ _ _ _ _ _ Ecm).
    pose proof (pb_tail_no_commit hint b s6) as T.
    match goal with |- context [bind get ?F s6] => change (bind get F s6) with ((s <- get ;; F s) s6) end.
    destruct ((s7 <- get ;; _) s6) as [[s8 o8] r8]. destruct T as [T1 T2].
    exists anc.
    assert (Hcm : forall l, commits_of (map OCommit l) = l).
    { induction l as [|x l IH]; [reflexivity|]. cbn. f_equal. exact IH. }
    split.
    { cbn [app]. unfold commits_of in *. cbn [flat_map app]. rewrite flat_map_app. rewrite T1, app_nil_r. apply Hcm. }
    split; [intros x Hx; rewrite <- Elc5; apply Hrd; exact Hx|]. split; [exact Hlk|]. split.
    { (* the stop condition, transported back to the store before the step *)
      rewrite Elc5 in Hstop. destruct Hstop as [A|[p [[A|A] B]]];
        [left; exact A|right; exists p; split; [left; exact A|exact B]|].
      assert (St5 : s_store s5 = (block_digest b, b) :: s_store s) by (unfold same_store in *; congruence).
      rewrite St5 in A. destruct A as [A|A]; [|right; exists p; split; [right; exact A|exact B]].
      exfalso. inversion A as [[A1 A2]].
      pose proof (linked_ext c me honest members_nodup me_honest byz_bound anc b0 Hlk) as X.
      apply ext_ddepth in X.
      assert (D1 : block_digest b1 = qc_hash (b_qc b)) by (apply (i_store _ _ _ _ _ H); exact G1).
      assert (D0 : block_digest b0 = qc_hash (b_qc b1)) by (apply (i_store _ _ _ _ _ H); exact G0).
      set (first := hd b0 (anc ++ [b0])) in *.
      assert (Y : ddepth (block_digest first) = S (ddepth (block_digest b))).
      { unfold block_digest at 1. cbn [ddepth]. rewrite <- A1. reflexivity. }
      assert (Z : (ddepth (block_digest b) = S (S (ddepth (block_digest b0))))).
      { unfold block_digest at 1. cbn [ddepth]. rewrite <- D1. unfold block_digest at 1. cbn [ddepth]. rewrite <- D0. reflexivity. }
      lia. }
    split; [cbn; auto|]. rewrite T2. exact Lc6.
  Qed.

  (* (c2) process_block on a vetted block b (what handle_proposal / the loop-back hand over) whose parent b1 and
     grandparent b0 are in the store with consecutive rounds and b0 above the commit watermark, in a state
     satisfying the node invariants [Inv] (NodeInv.v) and [Closed] (NodePanic.v: stored blocks have stored
     parents; both hold in every reachable state, step_inv / step_np): the step asks the mempool to clean up to
     b0's round and hands to the commit channel exactly anc ++ [b0], where anc is the parent-linked chain of
     b0's ancestors above the old watermark, oldest first, reaching down to the watermark ([stop_ok]: its first
     block has round <= watermark + 1 or a parent at or below the watermark); nothing else is committed in the
     step; the watermark becomes b0's round; the step does not panic. *)
  Theorem c06_happy_path_commit hint b b1 b0 s :
    Inv s -> Closed s -> vetted s b ->
    stored_parent s b b1 -> stored_parent s b1 b0 ->
    b_round b0 + 1 = b_round b1 -> s_last_committed s < b_round b0 ->
    match process_block c me src_dq hint b s with
    | (s', outs, res) =>
        (exists anc,
          commits_of outs = anc ++ [b0] /\
          (forall x, In x anc -> s_last_committed s < b_round x) /\ linked (anc ++ [b0]) /\
          stop_ok s (s_last_committed s) (hd b0 (anc ++ [b0])) /\
          In (OMemCleanup (b_round b0)) outs /\
          s_last_committed s' = b_round b0) /\
        (forall k, res <> RPanic k)
    end.
  Proof.
    intros H Hc Hv P1 P0 Hr Hlt.
    pose proof (process_block_np c me honest members_nodup me_honest w0 byz_bound hint b s H Hc Hv) as NP.
    pose proof (happy_commit_main hint b b1 b0 s H Hc Hv P1 P0 Hr Hlt) as M.
    destruct (process_block c me src_dq hint b s) as [[s' outs] res].
    split; [exact M|apply NP].
  Qed.
End HappyCommit.

(* ================================================================================================ *)
(* Examples on the committee of four (equal stakes, quorum 3): the hypotheses are satisfiable and the  *)
(* conclusions say something                                                                         *)
(* ================================================================================================ *)
Ltac nodup_tac := repeat constructor; cbn; intuition discriminate.

(* ---- (d) ---- *)
(* at boot: the timeout carries round 1 and the genesis QC; last_voted goes 0 -> 1; nothing else is emitted *)
Example c06_d_ex_boot :
  let '(s', o, r) := local_timeout c4 3 [] (init c4) in
  (o, is_ok r, snap (init c4), snap s', cleb (init c4) s') =
  ([OTimeout (mkTimeout qc_genesis 1 3 (SigOf 3 (CTimeout 1 0)))], true, (1, 0, 0, 0), (1, 1, 0, 0), true).
Proof. vm_compute. reflexivity. Qed.
(* in round 3 holding the QC of round 1 (after the proposals B1, B3 of Node.v): the timeout carries exactly those,
   and it is a message the other members accept *)
Definition ex_s13 : State := fst (run c4 3 src_dq (map (fun b => ([], EvPropose b)) [B1; B3]) (init c4)).
Example c06_d_ex_later :
  let '(s', o, r) := local_timeout c4 3 [] ex_s13 in
  (o, is_ok r, snap ex_s13, snap s', timeout_verify c4 (own_timeout 3 ex_s13)) =
  ([OTimeout (mkTimeout (mkqc B1) 3 3 (SigOf 3 (CTimeout 3 1)))], true, (3, 3, 0, 1), (3, 3, 0, 1), ROk tt).
Proof. vm_compute. reflexivity. Qed.
Example c06_d_ex_thm := c06_timeouts_rearmed c4 3 [] ex_s13.
Example c06_d_ex_valid : timeout_verify c4 (own_timeout 3 ex_s13) = ROk tt.
Proof. apply c06_own_timeout_valid; [vm_compute; reflexivity|right; vm_compute; reflexivity]. Qed.
(* two expiries in a row (the timer is re-armed): the second one is enabled as well and re-broadcasts the same
   message; adding the own timeout to the TC maker a second time is refused (AuthorityReuse: an error the run
   loop logs and survives, not a panic) and the counters stay where they were *)
Example c06_d_ex_twice :
  let '(s1, o1, _) := local_timeout c4 3 [] (init c4) in
  let '(s2, o2, r2) := local_timeout c4 3 [] s1 in
  (o1, o2, r2, snap s2) =
  ([OTimeout (mkTimeout qc_genesis 1 3 (SigOf 3 (CTimeout 1 0)))],
   [OTimeout (mkTimeout qc_genesis 1 3 (SigOf 3 (CTimeout 1 0)))], RErr (EAuthorityReuse 3), (1, 1, 0, 0)).
Proof. vm_compute. reflexivity. Qed.

(* ---- (a) ---- *)
(* node 2 (the leader of round 2) at boot; timeouts of round 1 from 0, 1, then 3 (quorum), then late ones from 2 and 0 *)
Definition ex_pre : list Timeout := [ex_to 0 1 qc_genesis; ex_to 1 1 qc_genesis].
Definition ex_t : Timeout := ex_to 3 1 qc_genesis.
Definition ex_post : list Timeout := [ex_to 2 1 qc_genesis; ex_to 0 1 qc_genesis].
Definition ex_tc : TC := tc_of 1 (ex_pre ++ [ex_t]).

Lemma ex_a_valid : forall x, In x (ex_pre ++ [ex_t]) -> tvalid c4 1 x.
Proof. intros x [<-|[<-|[<-|[]]]]; (split; [reflexivity|split; [vm_compute; reflexivity|vm_compute; reflexivity]]). Qed.
Lemma ex_a_nodup : NoDup (map t_author (ex_pre ++ [ex_t])).
Proof. nodup_tac. Qed.
Lemma ex_a_post : forall x, In x ex_post -> t_round x <= 1.
Proof. intros x [<-|[<-|[]]]; vm_compute; discriminate. Qed.
Lemma ex_a_below : stake_sum c4 (map t_author ex_pre) < Node.quorum c4.
Proof. vm_compute. reflexivity. Qed.
Lemma ex_a_reach : Node.quorum c4 <= stake_sum c4 (map t_author (ex_pre ++ [ex_t])).
Proof. vm_compute. discriminate. Qed.

(* the theorem instantiated: leader (node 2) and a non-leader (node 0) *)
Example c06_a_ex_leader :=
  c06_tc_sync c4 2 src_dq [] 1 (init c4) ex_pre ex_t ex_post
    ltac:(vm_compute; discriminate) eq_refl ex_a_valid ex_a_nodup ex_a_post ex_a_below ex_a_reach.
Example c06_a_ex_other :=
  c06_tc_sync_trace c4 0 src_dq [] 1 (init c4) ex_pre ex_t ex_post
    ltac:(vm_compute; discriminate) eq_refl ex_a_valid ex_a_nodup ex_a_post ex_a_below ex_a_reach.
(* ... and what it says, evaluated: number of outputs per step, the TC, the Make *)
Example c06_a_ex_leader_run :
  let '(s', tr) := feed_timeouts c4 2 src_dq [] (ex_pre ++ ex_t :: ex_post) (init c4) in
  (snap s', map (fun x => length (fst x)) tr, tcs_of (outs_tr tr), makes_of (outs_tr tr), all_ok tr) =
  ((2, 0, 0, 0), [0; 0; 3; 0; 0]%nat, [ex_tc], [(2, qc_genesis, Some ex_tc)], true).
Proof. vm_compute. reflexivity. Qed.
Example c06_a_ex_other_run :
  let '(s', tr) := feed_timeouts c4 0 src_dq [] (ex_pre ++ ex_t :: ex_post) (init c4) in
  (snap s', map (fun x => length (fst x)) tr, tcs_of (outs_tr tr), makes_of (outs_tr tr), all_ok tr) =
  ((2, 0, 0, 0), [0; 0; 1; 0; 0]%nat, [ex_tc], [], true).
Proof. vm_compute. reflexivity. Qed.
(* the assembled TC is one the other members accept *)
Example c06_a_ex_tc_verifies : tc_verify c4 ex_tc = ROk tt.
Proof. vm_compute. reflexivity. Qed.

(* the node's own timeout counts: node 2 times out in round 1, then receives the timeouts of 1 and 3: the TC it assembles
   is [2; 1; 3] (what the run-loop smoke test observes on the real code, scenario 4) *)
Example c06_a_ex_own :
  let own := own_timeout 2 (init c4) in
  let tc := tc_of 1 [own; ex_to 1 1 qc_genesis; ex_to 3 1 qc_genesis] in
  exists s' s2 o2,
    local_timeout c4 2 [] (init c4) = (s', [OTimeout own], ROk tt) /\
    feed_timeouts c4 2 src_dq [] [ex_to 1 1 qc_genesis; ex_to 3 1 qc_genesis] s' =
      (s2, [([], ROk tt); (OTC tc :: o2, ROk tt)]) /\
    s_round s2 = 2 /\ makes_of o2 = [(2, s_high_qc s2, Some tc)].
Proof.
  intros own tc.
  destruct (c06_own_timeout_counts c4 2 [] (init c4)) as [s' [E F]];
    [vm_compute; reflexivity|reflexivity|vm_compute; reflexivity|vm_compute; reflexivity|left; reflexivity|].
  change (s_round (init c4)) with 1 in F.
  destruct (c06_tc_sync_from c4 2 src_dq [] 1 [own] s' [ex_to 1 1 qc_genesis] (ex_to 3 1 qc_genesis) [] F)
    as (s1 & tr1 & s2 & o2 & tr3 & E1 & Q1 & _ & E2 & R2 & _ & M2 & _ & _ & E3 & _ & E4 & _).
  - intros x [<-|[<-|[]]]; (split; [reflexivity|split; [vm_compute; reflexivity|vm_compute; reflexivity]]).
  - nodup_tac.
  - intros x [].
  - vm_compute. reflexivity.
  - vm_compute. discriminate.
  - exists s', s2, o2. split; [exact E|]. split; [|split; [exact R2|exact M2]].
    cbn [app] in E4. rewrite E4. cbn in E3. inversion E3; subst tr3.
    rewrite feed_timeouts_cons in E1. destruct (handle_timeout c4 2 [] (ex_to 1 1 qc_genesis) s') as [[sa oa] ra].
    cbn in E1. inversion E1; subst. cbn in Q1. destruct oa; [|discriminate]. destruct ra; try discriminate. destruct a. reflexivity.
Qed.
Example c06_a_ex_own_run :
  let '(s', _, _) := local_timeout c4 2 [] (init c4) in
  let '(s2, tr) := feed_timeouts c4 2 src_dq [] [ex_to 1 1 qc_genesis; ex_to 3 1 qc_genesis] s' in
  (snap s2, map (fun x => map (fun e => fst (fst e)) (tc_votes x)) (tcs_of (outs_tr tr)), map (fun x => fst (fst x)) (makes_of (outs_tr tr))) =
  ((2, 1, 0, 0), [[2; 1; 3]], [2]).
Proof. vm_compute. reflexivity. Qed.

(* (a'), general case: the first timeout carries the QC of round 1 (>= r = 1): the node is moved to round 2 by that QC,
   the remaining round-1 timeouts are stale, NO TC is assembled -- and the round is above 1 all the same *)
Definition ex_ts_gen : list Timeout := [ex_to 0 1 (mkqc B1); ex_to 1 1 qc_genesis; ex_to 2 1 qc_genesis].
Example c06_a_ex_general :=
  c06_tc_sync_progress c4 3 src_dq [] 1 ex_ts_gen (init c4)
    ltac:(vm_compute; discriminate) eq_refl
    ltac:(intros x [<-|[<-|[<-|[]]]]; (split; [reflexivity|vm_compute; reflexivity]))
    ltac:(nodup_tac) ltac:(vm_compute; discriminate).
Example c06_a_ex_general_run :
  let '(s', tr) := feed_timeouts c4 3 src_dq [] ex_ts_gen (init c4) in
  (snap s', tcs_of (outs_tr tr), all_ok tr) = ((2, 0, 0, 1), [], true).
Proof. vm_compute. reflexivity. Qed.

(* ---- (b) ---- *)
(* node 0 (the leader of round 4) at boot; timeouts of round 3, one of which carries the QC of round 1: the Make
   carries that QC (the node adopted it while aggregating), and a voter at boot votes for the resulting block *)
Definition ex_pre3 : list Timeout := [ex_to 1 3 (mkqc B1); ex_to 2 3 qc_genesis].
Definition ex_t3 : Timeout := ex_to 3 3 qc_genesis.
Definition ex_tc3 : TC := tc_of 3 (ex_pre3 ++ [ex_t3]).
Lemma ex_b_valid : forall x, In x (ex_pre3 ++ [ex_t3]) -> tvalid c4 3 x.
Proof. intros x [<-|[<-|[<-|[]]]]; (split; [reflexivity|split; [vm_compute; reflexivity|vm_compute; reflexivity]]). Qed.
Lemma ex_b_nodup : NoDup (map t_author (ex_pre3 ++ [ex_t3])).
Proof. nodup_tac. Qed.
Example c06_b_ex :=
  c06_leader_block_votable c4 0 src_dq [] 3 (init c4) ex_pre3 ex_t3 []
    ltac:(vm_compute; discriminate) eq_refl ex_b_valid ex_b_nodup ltac:(intros x [])
    ltac:(vm_compute; reflexivity) ltac:(vm_compute; discriminate) eq_refl.
Example c06_b_ex_run :
  let '(s', tr) := feed_timeouts c4 0 src_dq [] (ex_pre3 ++ [ex_t3]) (init c4) in
  let b := made_block 0 4 (s_high_qc s') (Some ex_tc3) [] in
  (makes_of (outs_tr tr), tc_hqrs ex_tc3, snd (make_vote 3 b (init c4))) =
  ([(4, mkqc B1, Some ex_tc3)], [1; 0; 0],
   ROk (Some (mkVote (block_digest b) 4 3 (SigOf 3 (CVote (block_digest b) 4))))).
Proof. vm_compute. reflexivity. Qed.
(* the case the code does NOT guarantee: node 0 merely RECEIVES a valid TC of round 3 reporting a high-QC round 1 while
   its own high_qc is still the genesis one; it proposes on top of genesis and the voter refuses (ROk None) *)
Definition ex_rtc : TC := mktc 3 1.
Example c06_received_tc_refused :
  let '(s', o, r) := handle_tc c4 0 [] ex_rtc (init c4) in
  let b := made_block 0 4 (s_high_qc s') (Some ex_rtc) [] in
  (tc_verify c4 ex_rtc, makes_of o, proposes_of o, snd (make_vote 3 b (init c4))) =
  (ROk tt, [(4, qc_genesis, Some ex_rtc)], [b], ROk None).
Proof. vm_compute. reflexivity. Qed.

(* ---- (c1) ---- *)
(* node 2 (leader of round 2) at boot; votes for B1 (round 1) from 0, 1, then 3 (quorum), then a late one from 2 *)
Definition ex_vpre : list Vote := [ex_vote 0 B1; ex_vote 1 B1].
Definition ex_v : Vote := ex_vote 3 B1.
Definition ex_vpost : list Vote := [ex_vote 2 B1].
Definition ex_qc : QC := qc_of (block_digest B1) 1 (ex_vpre ++ [ex_v]).
Lemma ex_c_valid : forall x, In x (ex_vpre ++ [ex_v]) -> vvalid c4 1 (block_digest B1) x.
Proof. intros x [<-|[<-|[<-|[]]]]; (split; [reflexivity|split; [reflexivity|vm_compute; reflexivity]]). Qed.
Lemma ex_c_nodup : NoDup (map v_author (ex_vpre ++ [ex_v])).
Proof. nodup_tac. Qed.
Example c06_c1_ex :=
  c06_happy_path_qc c4 2 src_dq [] 1 (block_digest B1) (init c4) ex_vpre ex_v ex_vpost
    ltac:(vm_compute; discriminate) ltac:(vm_compute; reflexivity) eq_refl ex_c_valid ex_c_nodup
    ltac:(intros x [<-|[]]; vm_compute; discriminate)
    ltac:(vm_compute; reflexivity) ltac:(vm_compute; discriminate).
Example c06_c1_ex_run :
  let '(s', tr) := feed_votes c4 2 src_dq [] (ex_vpre ++ ex_v :: ex_vpost) (init c4) in
  (snap s', map (fun x => length (fst x)) tr, makes_of (outs_tr tr), qc_verify c4 ex_qc, all_ok tr) =
  ((2, 0, 0, 1), [0; 0; 2; 0]%nat, [(2, ex_qc, None)], ROk tt, true).
Proof. vm_compute. reflexivity. Qed.
(* a node that is not the next leader assembles the QC and advances too, but requests nothing *)
Example c06_c1_ex_other_run :
  let '(s', tr) := feed_votes c4 0 src_dq [] (ex_vpre ++ ex_v :: ex_vpost) (init c4) in
  (snap s', map (fun x => length (fst x)) tr, all_ok tr) = ((2, 0, 0, 1), [0; 0; 0; 0]%nat, true).
Proof. vm_compute. reflexivity. Qed.

(* ---- (c2) ---- *)
Definition B2c : Block := mkblk (mkqc B1) None 2.
Definition B3c : Block := mkblk (mkqc B2c) None 3.
Definition ex_honest : N -> bool := fun _ => true.
(* the other members' recorded votes (the world the node's invariant is relative to) *)
Definition ex_w0 : world := fun _ => [HVote (block_digest B2c) 1 JDirect; HVote (block_digest B1) 0 JDirect].
Definition ex_s1 : State := st (step c4 3 src_dq [] (EvPropose B1) (init c4)).
Definition ex_s2 : State := st (step c4 3 src_dq [] (EvPropose B2c) ex_s1).
(* node 3 has processed B1, B2c and (first half of handle_proposal) the QC carried by B3c *)
Definition ex_s : State := st (process_qc (mkqc B2c) ex_s2).

Lemma ex_nodup : NoDup (members c4). Proof. nodup_tac. Qed.
Lemma ex_bound : 3 * byz_stake (stk c4) (members c4) ex_honest < total (stk c4) (members c4).
Proof. vm_compute. reflexivity. Qed.

Lemma ex_cert (s : State) (b : Block) :
  In (HVote (block_digest b) (qc_round (b_qc b)) JDirect) (s_hist s) ->
  In (HVote (block_digest b) (qc_round (b_qc b)) JDirect) (ex_w0 0) ->
  Cert c4 3 ex_honest ex_w0 s (block_digest b) (b_round b).
Proof.
  intros Hme Hw. exists [0; 1; 2; 3]. split; [nodup_tac|]. split; [intros x Hx; exact Hx|].
  split; [vm_compute; discriminate|].
  intros a Ha _. split; [|reflexivity]. exists (qc_round (b_qc b)), JDirect.
  unfold cw, upd. destruct (a =? 3); [exact Hme|exact Hw].
Qed.

Lemma ex_inv1 : Inv c4 3 ex_honest ex_w0 ex_s1 /\ Closed ex_s1.
Proof.
  assert (I0 := Inv_init c4 ex_honest ex_bound 3 ex_w0).
  assert (C0 : Closed (init c4)) by (intros d b []).
  assert (A : ev_adm c4 3 ex_honest ex_w0 (init c4) (EvPropose B1)).
  { split; [intros H; vm_compute in H; discriminate|intros tc H; discriminate]. }
  pose proof (step_inv c4 3 ex_honest ex_nodup eq_refl ex_w0 ex_bound [] _ _ I0 A) as Y.
  pose proof (step_np c4 3 ex_honest ex_nodup eq_refl ex_w0 ex_bound [] _ _ I0 C0 A) as X.
  unfold ex_s1. destruct (step c4 3 src_dq [] (EvPropose B1) (init c4)) as [[s' o] r].
  split; [apply Y|apply X].
Qed.
Lemma ex_inv2 : Inv c4 3 ex_honest ex_w0 ex_s2 /\ Closed ex_s2.
Proof.
  destruct ex_inv1 as [I1 C1].
  assert (A : ev_adm c4 3 ex_honest ex_w0 ex_s1 (EvPropose B2c)).
  { split; [|intros tc H; discriminate]. intros _. right.
    apply (ex_cert ex_s1 B1); vm_compute; auto. }
  pose proof (step_inv c4 3 ex_honest ex_nodup eq_refl ex_w0 ex_bound [] _ _ I1 A) as Y.
  pose proof (step_np c4 3 ex_honest ex_nodup eq_refl ex_w0 ex_bound [] _ _ I1 C1 A) as X.
  unfold ex_s2. destruct (step c4 3 src_dq [] (EvPropose B2c) ex_s1) as [[s' o] r].
  split; [apply Y|apply X].
Qed.
Lemma ex_good2 s : In (HVote (block_digest B2c) 1 JDirect) (s_hist s) -> qc_good c4 3 ex_honest ex_w0 s (mkqc B2c).
Proof. intros H. right. apply (ex_cert s B2c); [exact H|vm_compute; auto]. Qed.
Lemma ex_inv : Inv c4 3 ex_honest ex_w0 ex_s /\ Closed ex_s /\ vetted c4 3 ex_honest ex_w0 ex_s B3c.
Proof.
  destruct ex_inv2 as [I2 C2].
  assert (G : qc_good c4 3 ex_honest ex_w0 ex_s2 (mkqc B2c)) by (apply ex_good2; vm_compute; auto).
  split; [|split].
  - pose proof (process_qc_inv c4 3 ex_honest ex_nodup eq_refl ex_w0 ex_bound _ _ I2 G) as Y.
    unfold ex_s. destruct (process_qc (mkqc B2c) ex_s2) as [[s' o] r]. apply Y.
  - eapply Closed_keep; [exact C2|]. apply (skeeps_process_qc (mkqc B2c) ex_s2).
  - split; [apply ex_good2; vm_compute; auto|]. split; [exact I|]. vm_compute. discriminate.
Qed.
Example c06_c2_ex :=
  c06_happy_path_commit c4 3 ex_honest ex_nodup eq_refl ex_w0 ex_bound [] B3c B2c B1 ex_s
    (proj1 ex_inv) (proj1 (proj2 ex_inv)) (proj2 (proj2 ex_inv))
    ltac:(split; vm_compute; reflexivity) ltac:(split; vm_compute; reflexivity)
    eq_refl ltac:(vm_compute; reflexivity).
Example c06_c2_ex_run :
  let '(s', o, r) := process_block c4 3 src_dq [] B3c ex_s in
  (snap ex_s, commits_of o, snap s', is_ok r) = ((3, 2, 0, 2), [B1], (3, 3, 1, 2), true).
Proof. vm_compute. reflexivity. Qed.
(* after a view change the same step also delivers the uncommitted ancestors, oldest first (chain B1 <- B3 <- B5 <- B6
   with TC-justified gaps; processing B7 commits B5 and, before it, B1 and B3) *)
Example c06_c2_ex_ancestors_run :
  let '(s', tr) := run c4 3 src_dq (map (fun b => ([], EvPropose b)) [B1; B3; B5; B6; B7]) (init c4) in
  (map (fun x => map b_round (commits_of (fst x))) tr, s_last_committed s') = ([[]; []; []; []; [1; 3; 5]], 5).
Proof. vm_compute. reflexivity. Qed.

Print Assumptions c06_timeouts_rearmed.
Print Assumptions c06_own_timeout_valid.
Print Assumptions c06_tc_sync.
Print Assumptions c06_tc_sync_from.
Print Assumptions c06_own_timeout_counts.
Print Assumptions c06_tc_sync_trace.
Print Assumptions c06_tc_sync_progress.
Print Assumptions c06_votable.
Print Assumptions c06_leader_block_votable.
Print Assumptions c06_happy_path_qc.
Print Assumptions c06_happy_path_commit.

