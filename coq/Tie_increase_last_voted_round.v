(* Tie lemma for `increase_last_voted_round`: the statement skeleton REGENERATED from the Rust source (GenCore.v, tools/skel.py) computes, for every
   argument and every state, exactly what the hand-written model function does (same state, same outputs, same result). *)
From Coq Require Import List NArith Bool Lia ZArith.
From Coq Require Import ZifyN ZifyBool.
From HS Require Import TieTac GenCore.
Import ListNotations.
Open Scope N_scope.

Lemma tie_increase_last_voted_round c me dq hint r s :
  gen_increase_last_voted_round c me dq hint r s = increase_last_voted r s.
Proof. unfold gen_increase_last_voted_round, increase_last_voted. tie. Qed.
