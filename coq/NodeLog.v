(* C02 on the repaired model: the delivery log of a node is a parent-linked chain from genesis. *)
From Coq Require Import List NArith Lia Bool ZifyN ZifyBool.
From HS Require Import GTac Node Proto Link NodeInv.
Import ListNotations.
Open Scope N_scope.

(* ---------- "this computation does not touch the log nor the watermark" ---------- *)
Definition same_log (s s' : State) := s_log s' = s_log s /\ s_last_committed s' = s_last_committed s.
Definition keeps {A} (m : M A) := forall s, same_log s (st (m s)).

Lemma same_log_refl s : same_log s s. Proof. split; reflexivity. Qed.
Lemma same_log_trans a b d : same_log a b -> same_log b d -> same_log a d.
Proof. intros [A1 A2] [B1 B2]. split; congruence. Qed.

Lemma keeps_ret {A} (a : A) : keeps (ret a). Proof. intros s. apply same_log_refl. Qed.
Lemma keeps_fail {A} e : keeps (@fail A e). Proof. intros s. apply same_log_refl. Qed.
Lemma keeps_panic {A} k : keeps (@panic A k). Proof. intros s. apply same_log_refl. Qed.
Lemma keeps_get : keeps get. Proof. intros s. apply same_log_refl. Qed.
Lemma keeps_emit o : keeps (emit o). Proof. intros s. apply same_log_refl. Qed.
Lemma keeps_lift {A} (r : res A) : keeps (lift r). Proof. intros s. apply same_log_refl. Qed.
Lemma keeps_modify f : (forall s, same_log s (f s)) -> keeps (modify f).
Proof. intros H s. apply H. Qed.
Lemma keeps_bind {A B} (m : M A) (f : A -> M B) : keeps m -> (forall a, keeps (f a)) -> keeps (bind m f).
Proof.
  intros Hm Hf s. unfold bind. specialize (Hm s). destruct (m s) as [[s1 o1] r1]. unfold st in *. simpl in *.
  destruct r1 as [a|e|k]; auto.
  specialize (Hf a s1). destruct (f a s1) as [[s2 o2] r2]. unfold st in *. simpl in *.
  eapply same_log_trans; eauto.
Qed.

Ltac keeps_tac :=
  repeat first
    [ apply keeps_ret | apply keeps_fail | apply keeps_panic | apply keeps_get | apply keeps_emit
    | apply keeps_lift | apply keeps_bind | (apply keeps_modify; intros; split; reflexivity)
    | intro | progress cbv zeta
    | match goal with |- keeps (if ?b then _ else _) => destruct b end
    | match goal with |- keeps (match ?x with _ => _ end) => destruct x end ].

Section KeepsLog.
  Variable c : Committee. Variable me : N.
  Lemma keeps_advance_round r : keeps (advance_round r).
  Proof.
    unfold advance_round. gunf. apply keeps_bind; [apply keeps_get|]. intros s.
    destruct (_ <? _); [apply keeps_ret|]. apply keeps_modify. intros; split; reflexivity.
  Qed.
  Lemma keeps_update_high_qc q : keeps (update_high_qc q).
  Proof. unfold update_high_qc. gunf. apply keeps_modify. intros s. destruct (_ <? _); split; reflexivity. Qed.
  Lemma keeps_process_qc q : keeps (process_qc q).
  Proof. unfold process_qc. apply keeps_bind; [apply keeps_advance_round|intro; apply keeps_update_high_qc]. Qed.
  Lemma keeps_generate_proposal hint tc : keeps (generate_proposal me hint tc).
  Proof.
    unfold generate_proposal. apply keeps_bind; [apply keeps_get|]. intros s.
    apply keeps_bind; [apply keeps_emit|]. intros _.
    apply keeps_bind; [apply keeps_modify; intros; split; reflexivity|]. intros _.
    apply keeps_bind; [destruct (same_set _ _); [apply keeps_ret|apply keeps_emit]|]. intros _.
    apply keeps_bind; [apply keeps_modify; intros; split; reflexivity|]. intros _. apply keeps_emit.
  Qed.
  Lemma keeps_proposer_cleanup ds : keeps (proposer_cleanup ds).
  Proof.
    unfold proposer_cleanup. apply keeps_bind; [apply keeps_emit|]. intros _.
    apply keeps_modify; intros; split; reflexivity.
  Qed.
  Lemma keeps_sync_park b : keeps (sync_park b).
  Proof.
    unfold sync_park. apply keeps_bind; [apply keeps_get|]. intros s.
    destruct (existsb _ _); [apply keeps_ret|].
    apply keeps_bind; [apply keeps_modify; intros; split; reflexivity|]. intros _.
    destruct (existsb _ _); [apply keeps_ret|].
    apply keeps_bind; [apply keeps_modify; intros; split; reflexivity|]. intros _. apply keeps_emit.
  Qed.
  Lemma keeps_get_parent_block b : keeps (get_parent_block b).
  Proof. unfold get_parent_block. destruct (qc_eqb _ _); [apply keeps_ret|]. apply keeps_bind; [apply keeps_get|].
    intros s. destruct (store_get _ _); [apply keeps_ret|]. apply keeps_bind; [apply keeps_sync_park|intro; apply keeps_ret]. Qed.
  Lemma keeps_store_block b : keeps (store_block b).
  Proof. unfold store_block. apply keeps_modify. intros s. split; reflexivity. Qed.
  Lemma keeps_make_vote b : keeps (make_vote me b).
  Proof.
    unfold make_vote, increase_last_voted. gunf. apply keeps_bind; [apply keeps_get|]. intros s.
    apply keeps_bind.
    { destruct (b_tc b); [|apply keeps_ret]. destruct (list_max _); [apply keeps_ret|apply keeps_panic]. }
    intros r2. destruct (negb _); [apply keeps_ret|].
    apply keeps_bind; [apply keeps_modify; intros; split; reflexivity|]. intros _.
    apply keeps_bind; [apply keeps_modify; intros; split; reflexivity|]. intros _. apply keeps_ret.
  Qed.
  Lemma keeps_handle_vote hint v : keeps (handle_vote c me hint v).
  Proof.
    unfold handle_vote. gunf. apply keeps_bind; [apply keeps_get|]. intros s.
    destruct (_ <? _); [apply keeps_ret|]. apply keeps_bind; [apply keeps_lift|]. intros _.
    destruct (qm_append _ _ _) as [m' r]. apply keeps_bind; [apply keeps_modify; intros; split; reflexivity|]. intros _.
    apply keeps_bind; [apply keeps_lift|]. intros [qc|]; [|apply keeps_ret].
    apply keeps_bind; [apply keeps_process_qc|]. intros _. apply keeps_bind; [apply keeps_get|]. intros s'.
    destruct (_ =? _); [apply keeps_generate_proposal|apply keeps_ret].
  Qed.
  Lemma keeps_handle_timeout hint t : keeps (handle_timeout c me hint t).
  Proof.
    unfold handle_timeout. gunf. apply keeps_bind; [apply keeps_get|]. intros s.
    destruct (_ <? _); [apply keeps_ret|]. apply keeps_bind; [apply keeps_lift|]. intros _.
    apply keeps_bind; [apply keeps_process_qc|]. intros _. apply keeps_bind; [apply keeps_get|]. intros s1.
    destruct (tm_append _ _ _) as [m' r]. apply keeps_bind; [apply keeps_modify; intros; split; reflexivity|]. intros _.
    apply keeps_bind; [apply keeps_lift|]. intros [tc|]; [|apply keeps_ret].
    apply keeps_bind; [apply keeps_advance_round|]. intros _. apply keeps_bind; [apply keeps_emit|]. intros _.
    apply keeps_bind; [apply keeps_get|]. intros s'.
    destruct (_ =? _); [apply keeps_generate_proposal|apply keeps_ret].
  Qed.
  Lemma keeps_local_timeout hint : keeps (local_timeout c me hint).
  Proof.
    unfold local_timeout, increase_last_voted. apply keeps_bind; [apply keeps_get|]. intros s.
    apply keeps_bind; [apply keeps_modify; intros; split; reflexivity|]. intros _.
    apply keeps_bind; [apply keeps_modify; intros; split; reflexivity|]. intros _.
    apply keeps_bind; [apply keeps_emit|]. intros _. apply keeps_handle_timeout.
  Qed.
  Lemma keeps_handle_tc hint tc : keeps (handle_tc c me hint tc).
  Proof.
    unfold handle_tc. gunf. apply keeps_bind; [apply keeps_lift|]. intros _. apply keeps_bind; [apply keeps_get|]. intros s.
    destruct (_ <? _); [apply keeps_ret|]. apply keeps_bind; [apply keeps_advance_round|]. intros _.
    apply keeps_bind; [apply keeps_get|]. intros s'. destruct (_ =? _); [apply keeps_generate_proposal|apply keeps_ret].
  Qed.
  Lemma keeps_pw_cleanup r : keeps (pw_cleanup r).
  Proof. unfold pw_cleanup. apply keeps_modify. intros; split; reflexivity. Qed.
  Lemma keeps_mempool_verify b : keeps (mempool_verify b).
  Proof.
    unfold mempool_verify. apply keeps_bind; [apply keeps_get|]. intros s.
    destruct (filter _ _); [apply keeps_ret|].
    apply keeps_bind; [apply keeps_emit|]. intros _.
    apply keeps_bind; [destruct (existsb _ _); [apply keeps_ret|apply keeps_modify; intros; split; reflexivity]|].
    intros _. apply keeps_ret.
  Qed.
  Lemma keeps_batch_stored d : keeps (batch_stored d).
  Proof. unfold batch_stored. apply keeps_modify. intros; split; reflexivity. Qed.
End KeepsLog.

Section LogChain.
  Variable c : Committee.
  Variable me : N.
  Variable honest : N -> bool.
  Hypothesis members_nodup : NoDup (members c).
  Hypothesis me_honest : honest me = true.
  Variable w0 : world.
  Notation stk := (stk c).
  Notation mem := (members c).
  Hypothesis byz_bound : 3 * byz_stake stk mem honest < total stk mem.
  Notation Inv := (Inv c me honest w0).
  Notation cw := (cw me w0).
  Notation vetted := (vetted c me honest w0).

  Inductive chain : list digest -> Prop :=
  | chain_nil : chain []
  | chain_one d : is_blk d -> dparent d = DZero -> chain [d]
  | chain_cons d d' l : is_blk d -> dparent d = d' -> chain (d' :: l) -> chain (d :: d' :: l).

  Definition head_round (l : list digest) : N := match l with [] => 0 | d :: _ => dround d end.

  Definition LogInv (s : State) : Prop :=
    chain (s_log s) /\ head_round (s_log s) = s_last_committed s /\
    (forall d l, s_log s = d :: l -> dcommit stk mem honest (cw s) d).

  Definition W (s : State) : Prop := winv stk mem honest (cw s).

  Lemma cw_me s : cw s me = s_hist s.
  Proof. unfold NodeInv.cw, upd. rewrite N.eqb_refl. reflexivity. Qed.
  Lemma cw_other s a : a <> me -> cw s a = w0 a.
  Proof. intros H. unfold NodeInv.cw, upd. destruct (N.eqb_spec a me); [contradiction|reflexivity]. Qed.

  Lemma W_sle s s' : W s -> Inv s' -> sle s s' -> W s'.
  Proof.
    intros Hw HI [He _] a Ha. assert (Hle := cw_wle c me honest members_nodup me_honest w0 byz_bound _ _ He).
    destruct (N.eq_dec a me) as [->|Hne].
    - rewrite cw_me. apply (i_hist _ _ _ _ _ HI).
    - specialize (Hw a Ha). rewrite cw_other in * by assumption.
      eapply hist_ok_mono; eauto.
  Qed.

  Lemma LogInv_keep s s' : LogInv s -> same_log s s' -> hist_ext s s' -> LogInv s'.
  Proof.
    intros [A [B C]] [E1 E2] He. unfold LogInv. rewrite E1, E2. split; auto. split; auto.
    intros d l Hl. eapply dcommit_mono; [apply (cw_wle c me honest members_nodup me_honest w0 byz_bound); exact He|]. eapply C; eauto.
  Qed.

  (* ---------- the walk yields a parent-linked segment ---------- *)
  Fixpoint linked (l : list Block) : Prop :=
    match l with
    | x :: ((y :: _) as r) => block_digest x = qc_hash (b_qc y) /\ linked r
    | _ => True
    end.

  Definition stop_ok s (lcr : N) (first : Block) : Prop :=
    b_round first <= lcr + 1 \/ exists p, parent_of s first p /\ b_round p <= lcr.

  Lemma commit_walk_chain lcr b0 : forall fuel parent acc s,
    Inv s -> vetted s parent ->
    linked (acc ++ [b0]) -> hd b0 (acc ++ [b0]) = parent -> (forall x, In x acc -> lcr < b_round x) ->
    match commit_walk src_dq fuel lcr parent acc s with
    | (s', _, ROk acc') =>
        s' = s /\ linked (acc' ++ [b0]) /\ (forall x, In x acc' -> lcr < b_round x) /\
        stop_ok s lcr (hd b0 (acc' ++ [b0]))
    | _ => True
    end.
  Proof.
    induction fuel as [|f IH]; intros parent acc s H Hv Hl Hh Hr; simpl.
    - exact I.
    - gunfdq. destruct (lcr + 1 <? b_round parent) eqn:E1.
      2:{ unfold ret. split; [reflexivity|]. split; [exact Hl|]. split; [exact Hr|].
          left. rewrite Hh. apply N.ltb_ge in E1. exact E1. }
      unfold bind at 1.
      pose proof (get_parent_block_inv c me honest members_nodup me_honest w0 byz_bound parent s H Hv) as G.
      destruct (get_parent_block parent s) as [[s1 o1] r1].
      destruct G as [I1 [L1 [_ [_ [_ [_ [_ G]]]]]]].
      destruct r1 as [[anc|]|e|k]; try contradiction; [|exact I].
      destruct G as [-> G].
      destruct (b_round anc <=? lcr) eqn:E2.
      { unfold ret. split; [reflexivity|]. split; [exact Hl|]. split; [exact Hr|].
        right. exists anc. rewrite Hh. split; [exact G|]. apply N.leb_le. exact E2. }
      destruct G as [[_ ->]|Gin].
      { exfalso. simpl in E2. apply N.leb_gt in E2. lia. }
      assert (Ed : block_digest anc = qc_hash (b_qc parent)) by (apply (i_store _ _ _ _ _ H); exact Gin).
      assert (Hva : vetted s anc).
      { apply (i_flight _ _ _ _ _ H). right. right. right. apply in_map_iff. exists (qc_hash (b_qc parent), anc). auto. }
      assert (Hl' : linked ((anc :: acc) ++ [b0])).
      { simpl. destruct (acc ++ [b0]) as [|y r] eqn:Ea.
        - destruct acc; discriminate.
        - simpl in Hh. subst y. split; [exact Ed|exact Hl]. }
      assert (Hr' : forall x, In x (anc :: acc) -> lcr < b_round x).
      { intros x [<-|Hx]; [apply N.leb_gt in E2; exact E2|apply Hr; exact Hx]. }
      assert (IH' := IH anc (anc :: acc) s H Hva Hl' eq_refl Hr').
      destruct (commit_walk _ f lcr anc (anc :: acc) s) as [[s2 o2] r2]. exact IH'.
  Qed.

  (* ---------- where the walk stops is exactly the previously delivered block ---------- *)
  Notation certified := (certified stk mem honest).
  Notation dcommit := (dcommit stk mem honest).

  Lemma ext_inv_blk d a r pl p : ext d (DBlk a r pl p) -> d = DBlk a r pl p \/ ext d p.
  Proof. intros H. inversion H; subst; auto. Qed.

  Lemma ext_blk_blk d d' : ext d d' -> is_blk d -> is_blk d'.
  Proof. intros H. induction H; simpl; auto. Qed.

  Lemma first_parent s first b0 :
    Inv s -> W s -> LogInv s ->
    ext (block_digest first) (block_digest b0) -> dcommit (cw s) (block_digest b0) ->
    s_last_committed s < b_round first -> stop_ok s (s_last_committed s) first ->
    match s_log s with
    | [] => qc_hash (b_qc first) = DZero
    | L :: _ => qc_hash (b_qc first) = L
    end.
  Proof.
    intros H Hw [Hch [Hhr Hdc]] Hext Hd Hlt Hstop.
    set (F := block_digest first). set (P := qc_hash (b_qc first)).
    assert (HP : dparent F = P) by reflexivity.
    destruct Hd as [d1b [_ [_ [Cb0 _]]]].
    destruct (cert_ancestors stk mem honest byz_bound (cw s) Hw F (block_digest b0) Hext _ Cb0 I) as [CF _].
    destruct (certified_honest_voter stk mem honest byz_bound _ _ _ CF) as [a [Ha [[q [j Hv]] _]]].
    destruct (hist_vote_facts _ _ _ _ _ _ _ _ (Hw a Ha) Hv) as [_ [Hq [Hpar _]]].
    rewrite HP in Hpar. change (dround F) with (b_round first) in Hq.
    (* a stored/genesis parent with a small round *)
    assert (Hsmall : forall r, certified (cw s) P r -> dround P <= s_last_committed s).
    { intros r CP. rewrite (cert_round_eq stk mem honest byz_bound _ _ _ CP).
      destruct Hpar as [[Hz _]|CP']; [rewrite Hz in CP; destruct (certified_is_blk stk mem honest byz_bound _ _ _ Hw CP) as [[] _]|].
      assert (q = r) by (rewrite <- (cert_round_eq stk mem honest byz_bound _ _ _ CP'), <- (cert_round_eq stk mem honest byz_bound _ _ _ CP); reflexivity).
      subst r. destruct Hstop as [Hs|[p [Hp Hpr]]]; [lia|].
      destruct Hp as [[Hg _]|Hin].
      - exfalso. unfold qc_eqb in Hg. simpl in Hg. apply andb_true_iff in Hg. destruct Hg as [Hg _].
        apply digest_eqb_eq in Hg. fold P in Hg. rewrite Hg in CP.
        destruct (certified_is_blk stk mem honest byz_bound _ _ _ Hw CP) as [[] _].
      - assert (Ep : block_digest p = P) by (apply (i_store _ _ _ _ _ H); exact Hin).
        rewrite <- (cert_round_eq stk mem honest byz_bound _ _ _ CP). rewrite <- Ep. simpl. exact Hpr. }
    destruct (s_log s) as [|L l] eqn:El.
    - (* nothing delivered yet: the watermark is 0 *)
      simpl in Hhr. destruct Hpar as [[Hz _]|CP]; [exact Hz|]. exfalso.
      specialize (Hsmall _ CP). rewrite (cert_round_eq stk mem honest byz_bound _ _ _ CP) in Hsmall.
      destruct (certified_is_blk stk mem honest byz_bound _ _ _ Hw CP) as [_ Hpos]. lia.
    - simpl in Hhr.
      destruct (Hdc L l eq_refl) as [d1 [B1 [P1 [CL C1]]]].
      assert (HLF : ext L F).
      { eapply (two_chain_lock stk mem honest byz_bound (cw s) L d1 (dround L) Hw CL B1 P1 C1 (dround F) F); [|exact CF].
        change (dround F) with (b_round first). lia. }
      destruct (certified_is_blk stk mem honest byz_bound _ _ _ Hw CL) as [BL _].
      unfold F, block_digest in HLF. apply ext_inv_blk in HLF. destruct HLF as [HLF|HLF].
      + exfalso. rewrite HLF in Hhr. simpl in Hhr. lia.
      + fold P in HLF.
        destruct Hpar as [[Hz _]|CP].
        * rewrite Hz in HLF. apply ext_zero in HLF. rewrite HLF in BL. exfalso. exact BL.
        * specialize (Hsmall _ CP).
          destruct (cert_ancestors stk mem honest byz_bound (cw s) Hw L P HLF _ CP BL) as [_ [Hle Hstrict]].
          destruct (digest_eqb L P) eqn:E; [apply digest_eqb_eq in E; symmetry; exact E|].
          exfalso. assert (L <> P) by (intro Heq; rewrite Heq in E; rewrite digest_eqb_refl in E; discriminate).
          specialize (Hstrict H0). lia.
  Qed.

  (* ---------- commit keeps the log a chain ---------- *)
  Lemma chain_app : forall C log,
    linked C -> C <> [] -> chain log ->
    match log with [] => qc_hash (b_qc (hd block_genesis C)) = DZero
                 | L :: _ => qc_hash (b_qc (hd block_genesis C)) = L end ->
    chain (rev (map block_digest C) ++ log).
  Proof.
    induction C as [|x r IH]; intros log Hl Hne Hc Hp; [congruence|].
    simpl. rewrite <- app_assoc. simpl.
    assert (Hx : chain (block_digest x :: log)).
    { simpl in Hp. destruct log as [|L l]; [apply chain_one; [exact I|exact Hp]|apply chain_cons; [exact I|exact Hp|exact Hc]]. }
    destruct r as [|y r']; [exact Hx|].
    apply IH; [destruct Hl as [_ Hl]; exact Hl|discriminate|exact Hx|].
    simpl. destruct Hl as [Hl _]. symmetry. exact Hl.
  Qed.

  Lemma deliver_all_log l : forall s,
    match deliver_all l s with
    | (s', _, _) => s_log s' = rev (map block_digest l) ++ s_log s /\ s_last_committed s' = s_last_committed s
    end.
  Proof.
    induction l as [|b l IH]; intros s; simpl.
    - unfold ret. auto.
    - unfold bind at 1. unfold emit at 1. unfold bind at 1. unfold modify at 1.
      specialize (IH (set_log s (block_digest b :: s_log s))).
      destruct (deliver_all l _) as [[s2 o2] r2]. destruct IH as [A B]. simpl in *.
      rewrite A. rewrite <- app_assoc. auto.
  Qed.

  Lemma keeps_commit_walk lcr : forall fuel parent acc, keeps (commit_walk src_dq fuel lcr parent acc).
  Proof.
    induction fuel as [|f IH]; intros parent acc; simpl; [apply keeps_panic|]. gunfdq.
    destruct (_ <? _); [|apply keeps_ret].
    apply keeps_bind; [apply keeps_get_parent_block|]. intros [anc|]; [|apply keeps_panic].
    destruct (_ <=? _); [apply keeps_ret|apply IH].
  Qed.

  Lemma last_app_hd (acc : list Block) b0 : rev (map block_digest (acc ++ [b0])) = block_digest b0 :: rev (map block_digest acc).
  Proof. rewrite map_app, rev_app_distr. reflexivity. Qed.

  Lemma linked_ext l b0 : linked (l ++ [b0]) -> ext (block_digest (hd b0 (l ++ [b0]))) (block_digest b0).
  Proof.
    induction l as [|x r IH]; simpl; intros Hl; [apply ext_refl|].
    destruct (r ++ [b0]) as [|y r'] eqn:E; [destruct r; discriminate|].
    destruct Hl as [Hxy Hl]. eapply ext_trans; [|apply IH; exact Hl].
    simpl. apply (ext_digest_parent c me honest members_nodup me_honest byz_bound). exact Hxy.
  Qed.

  Lemma commit_log b0 s :
    Inv s -> W s -> LogInv s -> vetted s b0 ->
    (s_last_committed s < b_round b0 -> dcommit (cw s) (block_digest b0)) ->
    LogInv (st (commit src_dq b0 s)).
  Proof.
    intros H Hw HL Hv Hd.
    pose proof (commit_inv c me honest members_nodup me_honest w0 byz_bound b0 s H Hv Hd) as CI.
    unfold commit in *. gunfdq. unfold bind at 1 in CI. unfold bind at 1. unfold get at 1 in CI. unfold get at 1.
    destruct (b_round b0 <=? s_last_committed s) eqn:El.
    { unfold ret, st. simpl. exact HL. }
    apply N.leb_gt in El. specialize (Hd El).
    unfold bind at 1 in CI. unfold bind at 1.
    pose proof (commit_walk_chain (s_last_committed s) b0 (S (S (ddepth (block_digest b0)))) b0 [] s H Hv I eq_refl
                  (fun x (Hx : In x []) => match Hx with end)) as WC.
    pose proof (keeps_commit_walk (s_last_committed s) (S (S (ddepth (block_digest b0)))) b0 [] s) as KW.
    pose proof (commit_walk_inv c me honest members_nodup me_honest w0 byz_bound (s_last_committed s)
                  (S (S (ddepth (block_digest b0)))) b0 [] s H Hv) as WI.
    destruct (commit_walk _ _ _ b0 [] s) as [[s1 o1] r1]. unfold st in KW. simpl in KW.
    destruct WI as [I1 [[He1 _] _]].
    destruct r1 as [anc|e|k].
    2:{ unfold st. simpl. eapply LogInv_keep; eauto. }
    2:{ unfold st. simpl. eapply LogInv_keep; eauto. }
    destruct WC as [-> [Hlk [Hrd Hstop]]].
    unfold bind at 1 in CI. unfold bind at 1. unfold modify at 1 in CI. unfold modify at 1.
    set (s2 := set_last_committed s (b_round b0)) in *.
    pose proof (deliver_all_log (anc ++ [b0]) s2) as DL.
    destruct (deliver_all (anc ++ [b0]) s2) as [[s3 o3] r3]. unfold st. simpl.
    destruct DL as [D1 D2]. destruct CI as [I3 [[He3 _] _]]. destruct HL as [Hch [Hhr Hdc]].
    assert (Hfp := first_parent s (hd b0 (anc ++ [b0])) b0 H Hw (conj Hch (conj Hhr Hdc))
                     (linked_ext anc b0 Hlk) Hd).
    assert (Hfr : s_last_committed s < b_round (hd b0 (anc ++ [b0]))).
    { destruct anc as [|x r]; simpl; [exact El|apply Hrd; left; reflexivity]. }
    specialize (Hfp Hfr Hstop).
    split; [|split].
    - rewrite D1. simpl. apply chain_app; auto.
      + destruct anc; discriminate.
      + assert (Ehd : hd block_genesis (anc ++ [b0]) = hd b0 (anc ++ [b0])) by (destruct anc; reflexivity).
        rewrite Ehd. exact Hfp.
    - rewrite D1, D2, last_app_hd. simpl. reflexivity.
    - intros d l Hl. rewrite D1, last_app_hd in Hl. inversion Hl; subst.
      eapply dcommit_mono; [apply (cw_wle c me honest members_nodup me_honest w0 byz_bound); exact He3|exact Hd].
  Qed.

  (* ---------- process_block and the other handlers ---------- *)
  Local Notation "'$' lemma" := (lemma c me honest members_nodup me_honest w0 byz_bound) (at level 0, lemma at level 0).

  Lemma sle_tr a b d : sle a b -> sle b d -> sle a d.
  Proof.
    intros [[p1 H1] [H2 H3]] [[p2 H4] [H5 H6]]. split; [|lia].
    exists (p2 ++ p1). rewrite H4, H1. apply app_assoc.
  Qed.
  Lemma sle_rf s : sle s s.
  Proof. split; [exists []; reflexivity|lia]. Qed.

  Lemma LogInv_step s s' : LogInv s -> same_log s s' -> sle s s' -> LogInv s'.
  Proof. intros A B [Cx _]. eapply LogInv_keep; eauto. Qed.

  Lemma process_block_log hint b s :
    Inv s -> W s -> LogInv s -> vetted s b ->
    LogInv (st (process_block c me src_dq hint b s)).
  Proof.
    intros H Hw HL Hv. unfold process_block. gunf. unfold bind at 1.
    pose proof ($get_parent_block_inv b s H Hv) as G. pose proof (keeps_get_parent_block b s) as K.
    destruct (get_parent_block b s) as [[s1 o1] r1]. unfold st in K; simpl in K.
    destruct G as [I1 [L1 [E1 [E2 [E3 [E4 [E5 G]]]]]]].
    destruct r1 as [[b1|]|e|k]; try contradiction.
    2:{ unfold ret, st. simpl. eapply LogInv_step; eauto. }
    destruct G as [-> G1]. clear I1 L1 E1 E2 E3 E4 E5 K.
    assert (Hv1 : vetted s b1).
    { destruct G1 as [[_ ->]|G1]; [apply ($vetted_genesis)|].
      apply (i_flight _ _ _ _ _ H). right. right. right. apply in_map_iff. exists (qc_hash (b_qc b), b1). auto. }
    unfold bind at 1.
    pose proof ($get_parent_block_inv b1 s H Hv1) as G. pose proof (keeps_get_parent_block b1 s) as K.
    destruct (get_parent_block b1 s) as [[s2 o2] r2]. unfold st in K; simpl in K.
    destruct G as [I2 [L2 [E1 [E2 [E3 [E4 [E5 G]]]]]]].
    destruct r2 as [[b0|]|e|k]; try contradiction.
    2:{ unfold panic, st. simpl. eapply LogInv_step; eauto. }
    destruct G as [-> G0]. clear I2 L2 E1 E2 E3 E4 E5 K.
    assert (Hv0 : vetted s b0).
    { destruct G0 as [[_ ->]|G0]; [apply ($vetted_genesis)|].
      apply (i_flight _ _ _ _ _ H). right. right. right. apply in_map_iff. exists (qc_hash (b_qc b1), b0). auto. }
    unfold bind at 1.
    pose proof ($store_block_inv b s H Hv) as S. pose proof (keeps_store_block b s) as K3.
    destruct (store_block b s) as [[s3 o3] r3]. unfold st in K3; simpl in K3.
    destruct S as [I3 [L3 [-> [F1 [F2 [F3 [F4 F5]]]]]]].
    assert (HL3 : LogInv s3) by (eapply LogInv_step; eauto).
    unfold bind at 1.
    pose proof ($proposer_cleanup_inv (b_payload b0 ++ b_payload b1 ++ b_payload b) s3 I3) as P.
    pose proof (keeps_proposer_cleanup (b_payload b0 ++ b_payload b1 ++ b_payload b) s3) as K4.
    destruct (proposer_cleanup _ s3) as [[s4 o4] r4]. unfold st in K4; simpl in K4.
    destruct P as [I4 [L4 [-> [P1 [P2 [P3 [P4 P5]]]]]]].
    assert (HL4 : LogInv s4) by (eapply LogInv_step; eauto).
    assert (L04 : sle s s4) by (exact (sle_tr _ _ _ L3 L4)).
    assert (Hw4 : W s4) by (eapply W_sle; eauto).
    assert (St4 : s_store s4 = (block_digest b, b) :: s_store s) by congruence.
    assert (G1' : parent_of s4 b b1).
    { destruct G1 as [G1|G1]; [left; exact G1|right; rewrite St4; right; exact G1]. }
    assert (G0' : parent_of s4 b1 b0).
    { destruct G0 as [G0|G0]; [left; exact G0|right; rewrite St4; right; exact G0]. }
    match goal with |- context [bind ?M _ s4] => set (cm := M) end.
    assert (C : match cm s4 with
                | (s', _, res) => Inv s' /\ sle s4 s' /\ LogInv s'
                end).
    { subst cm. destruct (b_round b0 + 1 =? b_round b1) eqn:E2c.
      2:{ unfold ret. split; [exact I4|]. split; [apply sle_rf|exact HL4]. }
      apply N.eqb_eq in E2c.
      unfold bind at 1. unfold emit at 1. unfold bind at 1.
      pose proof ($pw_cleanup_inv (b_round b0) s4 I4) as Wc. pose proof (keeps_pw_cleanup (b_round b0) s4) as K5.
      destruct (pw_cleanup (b_round b0) s4) as [[s5 o5] r5]. unfold st in K5; simpl in K5.
      destruct Wc as [I5 [L5 [-> [W1 [W2 [W3 [W4 [W5 W6]]]]]]]].
      assert (HL5 : LogInv s5) by (eapply LogInv_step; eauto).
      assert (Hw5 : W s5) by (eapply W_sle; eauto).
      assert (Hv05 : vetted s5 b0) by (eapply ($vetted_sle); [exact Hv0|exact (sle_tr _ _ _ L04 L5)]).
      assert (Hd : s_last_committed s5 < b_round b0 -> dcommit (cw s5) (block_digest b0)).
      { intros Hlt. eapply ($dcommit_of_chain s5 b b1 b0); eauto.
        - eapply ($vetted_sle); [exact Hv|exact (sle_tr _ _ _ L04 L5)].
        - eapply parent_of_sle_store; eauto.
        - eapply parent_of_sle_store; eauto.
        - lia. }
      pose proof ($commit_inv b0 s5 I5 Hv05 Hd) as Kc.
      pose proof (commit_log b0 s5 I5 Hw5 HL5 Hv05 Hd) as KL.
      destruct (commit src_dq b0 s5) as [[s6 o6] r6]. unfold st in KL; simpl in KL.
      destruct Kc as [I6 [L6 _]].
      split; [exact I6|]. split; [exact (sle_tr _ _ _ L5 L6)|exact KL]. }
    unfold bind at 1.
    destruct (cm s4) as [[s7 o7] r7]. destruct C as [I7 [L7 HL7]].
    destruct r7 as [[]|e|k]; [|exact HL7|exact HL7].
    assert (L07 : sle s s7) by (exact (sle_tr _ _ _ L04 L7)).
    unfold bind at 1. unfold get at 1.
    destruct (b_round b =? s_round s7) eqn:Eg; simpl; [|exact HL7].
    apply N.eqb_eq in Eg.
    assert (Hv7 : vetted s7 b) by (eapply ($vetted_sle); eauto).
    unfold bind at 1.
    pose proof ($make_vote_inv b s7 I7 Hv7 Eg) as V. pose proof (keeps_make_vote me b s7) as K8.
    destruct (make_vote me b s7) as [[s8 o8] r8]. unfold st in K8; simpl in K8.
    destruct V as [I8 [L8 [V1 [V2 V3]]]].
    assert (HL8 : LogInv s8) by (eapply LogInv_step; eauto).
    destruct r8 as [[v|]|e|k]; try contradiction; try exact HL8.
    destruct V3 as [-> Hvoted].
    destruct (leader c (s_round s7 + 1) =? me); [|exact HL8].
    assert (Hadm : sig_adm honest (cw s8) (v_sig (mkVote (block_digest b) (b_round b) me (SigOf me (CVote (block_digest b) (b_round b)))))).
    { simpl. intros _. split; [exact Hvoted|reflexivity]. }
    pose proof ($handle_vote_inv hint _ s8 I8 Hadm) as HV. pose proof (keeps_handle_vote c me hint (mkVote (block_digest b) (b_round b) me (SigOf me (CVote (block_digest b) (b_round b)))) s8) as K9.
    destruct (handle_vote c me hint _ s8) as [[s9 o9] r9]. unfold st in K9; simpl in K9.
    destruct HV as [I9 [L9 _]]. eapply LogInv_step; eauto.
  Qed.

  Lemma handle_proposal_log hint b s :
    Inv s -> W s -> LogInv s -> block_sound c me honest w0 s b ->
    LogInv (st (handle_proposal c me src_dq hint b s)).
  Proof.
    intros H Hw HL [Hq Ht]. unfold handle_proposal. unfold bind at 1.
    destruct (b_author b =? leader c (b_round b)); [|exact HL].
    unfold ret at 1. unfold bind at 1. unfold lift at 1.
    destruct (block_verify c b) as [[]|e|k] eqn:Ev; [|exact HL|exact HL].
    unfold block_verify in Ev.
    gunf; destruct (0 <? Node.stake c (b_author b)); [|discriminate]; cbn [negb] in *.
    destruct (negb _); [discriminate|].
    destruct (if qc_eqb (b_qc b) qc_genesis then ROk tt else qc_verify c (b_qc b)) as [[]|e|k] eqn:Eqv; try discriminate.
    assert (Gq : qc_good c me honest w0 s (b_qc b)) by (apply ($qc_good_of_verify); auto).
    assert (Gt : tc_good c me honest w0 s (b_tc b)).
    { destruct (b_tc b) as [tc|] eqn:Etc; [|exact I]. apply (Ht tc eq_refl). exact Ev. }
    unfold bind at 1.
    pose proof ($process_qc_inv (b_qc b) s H Gq) as P. pose proof (keeps_process_qc (b_qc b) s) as K1.
    destruct (process_qc (b_qc b) s) as [[s1 o1] r1]. unfold st in K1; simpl in K1.
    destruct P as [I1 [L1 [-> [P1 _]]]].
    assert (HL1 : LogInv s1) by (eapply LogInv_step; eauto).
    unfold bind at 1.
    assert (A : match (match b_tc b with Some tc => advance_round (tc_round tc) | None => ret tt end) s1 with
                | (s', _, res) => Inv s' /\ sle s1 s' /\ res = ROk tt /\ s_high_qc s' = s_high_qc s1 /\ LogInv s'
                end).
    { destruct (b_tc b) as [tc|].
      - pose proof ($advance_round_inv (tc_round tc) s1 I1) as A. pose proof (keeps_advance_round (tc_round tc) s1) as K2.
        destruct (advance_round (tc_round tc) s1) as [[s2 o2] r2]. unfold st in K2; simpl in K2.
        destruct A as [I2 [L2 [-> [_ [E _]]]]]. split; [exact I2|]. split; [exact L2|]. split; [reflexivity|]. split; [exact E|].
        eapply LogInv_step; eauto.
      - unfold ret. split; [exact I1|]. split; [apply sle_rf|]. split; [reflexivity|]. split; [reflexivity|exact HL1]. }
    destruct ((match b_tc b with Some tc => advance_round (tc_round tc) | None => ret tt end) s1) as [[s2 o2] r2].
    destruct A as [I2 [L2 [-> [E2 HL2]]]].
    assert (L02 : sle s s2) by (exact (sle_tr _ _ _ L1 L2)).
    assert (Hv2 : vetted s2 b).
    { split; [eapply ($qc_good_sle); eauto|]. split; [eapply ($tc_good_sle); eauto|]. rewrite E2. exact P1. }
    unfold bind at 1.
    pose proof ($mempool_verify_inv b s2 I2 Hv2) as M. pose proof (keeps_mempool_verify b s2) as K3.
    destruct (mempool_verify b s2) as [[s3 o3] r3]. unfold st in K3; simpl in K3.
    destruct M as [I3 [L3 [[ok ->] _]]].
    assert (HL3 : LogInv s3) by (eapply LogInv_step; eauto).
    assert (L03 : sle s s3) by (exact (sle_tr _ _ _ L02 L3)).
    destruct ok; [|exact HL3].
    assert (Hv3 : vetted s3 b) by (eapply ($vetted_sle); eauto).
    assert (Hw3 : W s3) by (eapply W_sle; eauto).
    pose proof (process_block_log hint b s3 I3 Hw3 HL3 Hv3) as B.
    destruct (process_block c me src_dq hint b s3) as [[s4 o4] r4]. exact B.
  Qed.

  Theorem step_log hint e s :
    Inv s -> W s -> LogInv s -> ev_adm c me honest w0 s e ->
    LogInv (st (step c me src_dq hint e s)).
  Proof.
    intros H Hw HL Ha.
    pose proof ($step_inv hint e s H Ha) as SI.
    destruct e as [b|v|t|tc|b| |d|d| ]; simpl in *.
    - apply handle_proposal_log; auto.
    - pose proof (keeps_handle_vote c me hint v s) as K.
      destruct (handle_vote c me hint v s) as [[s1 o1] r1]. unfold st in *; simpl in *. destruct SI as [_ L]. eapply LogInv_step; eauto.
    - pose proof (keeps_handle_timeout c me hint t s) as K.
      destruct (handle_timeout c me hint t s) as [[s1 o1] r1]. unfold st in *; simpl in *. destruct SI as [_ L]. eapply LogInv_step; eauto.
    - pose proof (keeps_handle_tc c me hint tc s) as K.
      destruct (handle_tc c me hint tc s) as [[s1 o1] r1]. unfold st in *; simpl in *. destruct SI as [_ L]. eapply LogInv_step; eauto.
    - clear SI. unfold bind at 1. unfold get at 1.
      destruct (remove_first b (s_loopback s)) as [[x l]|] eqn:Er; [|exact HL].
      destruct (remove_first_in c me honest members_nodup me_honest byz_bound _ _ _ _ Er) as [Hx Hl].
      unfold bind at 1. unfold modify at 1.
      set (s1 := set_loopback s l).
      assert (Hvx : vetted s x) by (apply (i_flight _ _ _ _ _ H); left; exact Hx).
      assert (I1 : Inv s1).
      { eapply ($Inv_frame s); eauto; try reflexivity; simpl.
        all: try (intros k y Hin; apply (i_store _ _ _ _ _ H); exact Hin).
        intros y Hy. left. unfold in_flight in *. simpl in *. destruct Hy as [Hy|Hy]; auto. }
      assert (L1 : sle s s1) by (split; [exists []; reflexivity|simpl; lia]).
      assert (HL1 : LogInv s1) by (eapply LogInv_step; eauto; split; reflexivity).
      assert (Hw1 : W s1) by (eapply W_sle; eauto).
      pose proof (process_block_log hint x s1 I1 Hw1 HL1 (($vetted_sle) _ _ _ Hvx L1)) as B.
      destruct (process_block c me src_dq hint x s1) as [[s2 o2] r2]. exact B.
    - pose proof (keeps_local_timeout c me hint s) as K.
      destruct (local_timeout c me hint s) as [[s1 o1] r1]. unfold st in *; simpl in *. destruct SI as [_ L]. eapply LogInv_step; eauto.
    - clear SI. pose proof ($batch_stored_inv d s H) as B. pose proof (keeps_batch_stored d s) as K.
      destruct (batch_stored d s) as [[s1 o1] r1]. unfold st in *; simpl in *. destruct B as [_ L].
      eapply LogInv_step; eauto.
    - unfold modify in *. destruct (memN d (s_buffer s)); unfold st; simpl; [exact HL|].
      destruct SI as [_ L]. eapply LogInv_step; eauto. split; reflexivity.
    - unfold bind at 1 in SI. unfold bind at 1. unfold get at 1 in SI. unfold get at 1.
      destruct (me =? leader c (s_round s)); [|exact HL].
      pose proof (keeps_generate_proposal me hint None s) as K.
      destruct (generate_proposal me hint None s) as [[s1 o1] r1]. unfold st in *; simpl in *. destruct SI as [_ L]. eapply LogInv_step; eauto.
  Qed.
End LogChain.
