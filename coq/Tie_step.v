(* Capstone of the tie: one step, and every run, of the node built from the REGENERATED handlers (GenCore.v) is one step / the same run
   of the node model -- for every committee, identity, event and state.  All run-level theorems (agreement, delivery chain, voting
   safety, availability, pacemaker, no-panic, monitor soundness) therefore speak about the regenerated code verbatim. *)
From Coq Require Import List NArith Bool.
From HS Require Import TieTac GenCore Tie_handle_proposal Tie_handle_vote Tie_handle_timeout Tie_handle_tc
  Tie_local_timeout_round Tie_process_block.
Import ListNotations.
Open Scope N_scope.

(* Core::run's dispatch over the regenerated handlers; the three model-only events (a batch lands in the store, the mempool hands a
   digest to the proposer, boot) are those of the model *)
Definition gen_step (c : Committee) (me : N) (hint : list N) (e : Event) : M unit :=
  match e with
  | EvPropose b => gen_handle_proposal c me src_dq hint b
  | EvVote v => gen_handle_vote c me src_dq hint v
  | EvTimeout t => gen_handle_timeout c me src_dq hint t
  | EvTC tc => gen_handle_tc c me src_dq hint tc
  | EvLoopback b =>
      s <- get ;;
      match remove_first b (s_loopback s) with
      | None => emit OBadHint
      | Some (x, l) => modify (fun s => set_loopback s l) ;;; gen_process_block c me src_dq hint x
      end
  | EvTimer => gen_local_timeout_round c me src_dq hint
  | _ => step c me src_dq hint e
  end.

Fixpoint gen_run (c : Committee) (me : N) (evs : list (list N * Event)) (s : State) : State * list (list Out * res unit) :=
  match evs with
  | [] => (s, [])
  | (h, e) :: rest =>
      match gen_step c me h e s with
      | (s1, o, r) => let '(s2, tr) := gen_run c me rest s1 in (s2, (o, r) :: tr)
      end
  end.

Lemma bind_ext {A B} (m : M A) (k k' : A -> M B) s : (forall a s1, k a s1 = k' a s1) -> bind m k s = bind m k' s.
Proof.
  intros H. unfold bind. destruct (m s) as [[s1 o1] [a| |]]; try reflexivity. rewrite H. reflexivity.
Qed.

Theorem gen_step_eq c me hint e s : gen_step c me hint e s = step c me src_dq hint e s.
Proof.
  destruct e; cbn [gen_step step]; try reflexivity.
  - apply tie_handle_proposal.
  - apply tie_handle_vote.
  - apply tie_handle_timeout.
  - apply tie_handle_tc.
  - apply bind_ext. intros s0 s1. destruct (remove_first b (s_loopback s0)) as [[x l]|]; [|reflexivity].
    apply bind_ext. intros _ s2. apply tie_process_block.
  - apply tie_local_timeout_round.
Qed.

Theorem gen_run_eq c me evs s : gen_run c me evs s = run c me src_dq evs s.
Proof.
  revert s; induction evs as [|[h e] rest IH]; intros s; cbn [gen_run run]; [reflexivity|].
  rewrite gen_step_eq. destruct (step c me src_dq h e s) as [[s1 o] r]. rewrite IH. reflexivity.
Qed.
