(* Tie lemma for `vote_verify`: the statement skeleton REGENERATED from the Rust source (GenAgg.v, tools/skelagg.py) computes, for every
   argument and every state, exactly what the hand-written model function does. *)
From Coq Require Import List NArith Bool Lia ZArith.
From Coq Require Import ZifyN ZifyBool.
From HS Require Import TieAggTac GenAgg.
Import ListNotations.
Open Scope N_scope.

Lemma tie_vote_verify c v : snd (gen_vote_verify c v tt) = vote_verify c v.
Proof. unfold gen_vote_verify, vote_verify. tieg. Qed.
