(* C13: the canonical two-node "missing batch" schedule, as a theorem about the composition of the component models
   (PipelineDefs.sync_script): Node.v (consensus core, MempoolDriver, PayloadWaiter, proposer buffer),
   MempoolSyncDefs.v (mempool synchronizer), ReceiveDefs.v (mempool helper, mempool receiver dispatch) and the
   Processor's write-then-announce order.

   c13_sync_completes: for EVERY committee, hash function, batch bytes bs (d := hash bs), block b of author P whose
   payload contains d and otherwise only batches R has, and EVERY state of R that satisfies the availability invariant
   AvInv of C08, does not hold d, has not parked b yet and whose synchronizer is not already waiting for d:
     R's core emits exactly `OMemSync missing P` and parks b (no vote, no commit);
     R's synchronizer sends exactly `BatchRequest [d] R -> P`;
     P's helper answers exactly the stored bytes bs, to R;
     R's receiver routes them to the Processor, which stores them under d and then announces d;
   and in the final state b sits in R's loop-back pool, d is in R's store (readable: the bytes are bs), b is not
   parked any more (nothing is, if nothing else was), d is no longer pending in the synchronizer, AvInv still holds,
   and the core's next EvLoopback for b enters process_block with that block (c13_resumes).
   Every step is the evaluation of the model function of the task that receives the message; nothing is computed on
   constants. *)
From Coq Require Import List NArith Lia Bool.
From HS Require Import GTac Node Link NodeAvail MempoolSyncDefs MempoolSync Codec Base64Defs WireDefs ReceiveDefs PipelineDefs.
Import ListNotations.
Open Scope N_scope.

(* ---------------------------------------------------------------- frame lemmas for the consensus side *)
Lemma untouched_refl s : untouched s s.
Proof. repeat split. Qed.
Lemma untouched_trans s1 s2 s3 : untouched s1 s2 -> untouched s2 s3 -> untouched s1 s3.
Proof. unfold untouched. intros [A1 [A2 [A3 [A4 [A5 [A6 A7]]]]]] [B1 [B2 [B3 [B4 [B5 [B6 B7]]]]]]. repeat split; congruence. Qed.

Lemma advance_round_frame r s : exists s', advance_round r s = (s', [], ROk tt) /\ untouched s s'.
Proof.
  unfold advance_round, bind, get. destruct (g_advance_guard _ _ _ _ _).
  - exists s. split; [reflexivity|apply untouched_refl].
  - unfold modify. eexists. split; [reflexivity|]. repeat split.
Qed.
Lemma update_high_qc_frame q s : exists s', update_high_qc q s = (s', [], ROk tt) /\ untouched s s'.
Proof.
  unfold update_high_qc, modify. eexists. split; [reflexivity|]. destruct (g_update_high_qc _ _ _ _ _); repeat split.
Qed.
Lemma process_qc_frame q s : exists s', process_qc q s = (s', [], ROk tt) /\ untouched s s'.
Proof.
  unfold process_qc, bind. destruct (advance_round_frame (qc_round q) s) as [s1 [E1 U1]]. rewrite E1.
  destruct (update_high_qc_frame q s1) as [s2 [E2 U2]]. rewrite E2. exists s2. split; [reflexivity|eapply untouched_trans; eauto].
Qed.

(* A valid proposal with at least one missing batch, not parked yet: the core's whole reaction is one Synchronize
   command for the missing digests, addressed to the author, and one new payload-waiter entry. No vote, no commit, no
   store write; the round / high QC may have moved (s2), nothing else. *)
Lemma handle_proposal_missing c me hint b s x xs :
  (b_author b =? leader c (b_round b)) = true -> block_verify c b = ROk tt ->
  filter (fun x => negb (memN x (s_batches s))) (b_payload b) = x :: xs ->
  existsb (fun e => block_eqb b (snd e)) (s_pw_pending s) = false ->
  exists s2, untouched s s2 /\
    handle_proposal c me src_dq hint b s =
      (set_pw s2 (s_pw_pending s ++ [(x :: xs, b)]), [OMemSync (x :: xs) (b_author b)], ROk tt).
Proof.
  intros Hl Hv Hf Hp. unfold handle_proposal. rewrite Hl, Hv. unfold bind at 1. unfold ret at 1.
  unfold bind at 1. unfold lift at 1. unfold bind at 1.
  destruct (process_qc_frame (b_qc b) s) as [s1 [E1 U1]]. rewrite E1.
  unfold bind at 1.
  assert (A : exists s2, (match b_tc b with Some tc => advance_round (tc_round tc) | None => ret tt end) s1 = (s2, [], ROk tt) /\ untouched s1 s2).
  { destruct (b_tc b) as [tc|]; [apply advance_round_frame|]. exists s1. split; [reflexivity|apply untouched_refl]. }
  destruct A as [s2 [E2 U2]]. rewrite E2.
  assert (U : untouched s s2) by (eapply untouched_trans; eauto).
  exists s2. split; [exact U|].
  destruct U as [_ [_ [_ [Upw [_ [Ub _]]]]]].
  unfold bind at 1. unfold mempool_verify. unfold bind at 1. unfold get at 1. rewrite Ub, Hf, Upw, Hp.
  unfold bind, emit, modify, ret. cbn. rewrite Upw. reflexivity.
Qed.

(* ---------------------------------------------------------------- the payload waiter's release *)
Definition pw_upd (d : N) (e : list N * Block) : list N * Block := (filter (fun x => negb (x =? d)) (fst e), snd e).
Definition pw_ready (e : list N * Block) : bool := match fst e with [] => true | _ => false end.
Definition pw_wait (e : list N * Block) : bool := match fst e with [] => false | _ => true end.

Lemma filter_only_d d m : (forall x, In x m -> x = d) -> filter (fun x => negb (x =? d)) m = [].
Proof.
  induction m as [|y m IH]; intro H; [reflexivity|]. cbn. rewrite (H y (or_introl eq_refl)), N.eqb_refl. cbn.
  apply IH. intros x Hx. apply H. right; exact Hx.
Qed.

(* storing d when the LAST entry of the payload waiter misses only d: that block is appended to the loop-back pool
   (after the other blocks released by the same write), and what stays parked are exactly the other entries that
   still miss something *)
Lemma batch_stored_releases d s pw0 missing b :
  s_pw_pending s = pw0 ++ [(missing, b)] -> (forall x, In x missing -> x = d) ->
  exists s', batch_stored d s = (s', [], ROk tt) /\
    s_batches s' = d :: s_batches s /\
    s_loopback s' = s_loopback s ++ map snd (filter pw_ready (map (pw_upd d) pw0)) ++ [b] /\
    s_pw_pending s' = filter pw_wait (map (pw_upd d) pw0) /\
    s_buffer s' = s_buffer s /\ s_sync_pending s' = s_sync_pending s /\ s_store s' = s_store s /\ s_hist s' = s_hist s.
Proof.
  intros Hpw Hm. unfold batch_stored, modify. eexists. split; [reflexivity|].
  cbn. rewrite Hpw. rewrite map_app, !filter_app. cbn. rewrite (filter_only_d d missing Hm). cbn.
  rewrite app_nil_r, map_app. cbn. repeat split; reflexivity.
Qed.

Lemma block_eqb_refl b : block_eqb b b = true.
Proof. unfold block_eqb. apply digest_eqb_refl. Qed.

Lemma remove_first_found b : forall l, In b l ->
  exists x l', remove_first b l = Some (x, l') /\ block_digest x = block_digest b /\ In x l.
Proof.
  induction l as [|y l IH]; intro Hin; [destruct Hin|]. cbn [remove_first].
  destruct (block_eqb b y) eqn:E.
  - exists y, l. split; [reflexivity|]. unfold block_eqb in E. apply digest_eqb_eq in E. split; [auto|left; reflexivity].
  - destruct Hin as [->|Hin]; [rewrite block_eqb_refl in E; discriminate|].
    destruct (IH Hin) as [x [l' [Hr [Hd Hx]]]]. rewrite Hr. exists x, (y :: l'). split; [reflexivity|]. split; [exact Hd|right; exact Hx].
Qed.

(* ---------------------------------------------------------------- the Processor's order discharges C08's hypothesis *)
(* Whatever a node's state, one run of its Processor on some bytes is: store write (EvBatch), then announcement
   (EvDigest). The announcement therefore meets `ev_av` (the digest handed to the proposer is already stored), which is
   the only hypothesis of C08's step theorem; the availability invariant is kept, the bytes are readable under their
   hash, the digest is in the proposer's buffer and no longer pending in the synchronizer. *)
Theorem c13_processor_order c hash gc_depth delay known hint me n batch :
  AvInv (pn_cons n) ->
  ev_av (fst (fst (step c me src_dq hint (EvBatch (hash batch)) (pn_cons n)))) (EvDigest (hash batch)) /\
  AvInv (pn_cons (run_processor c hash gc_depth delay known hint me n batch)) /\
  In (hash batch) (s_batches (pn_cons (run_processor c hash gc_depth delay known hint me n batch))) /\
  In (hash batch) (s_buffer (pn_cons (run_processor c hash gc_depth delay known hint me n batch))) /\
  bget (hash batch) (pn_store (run_processor c hash gc_depth delay known hint me n batch)) = Some batch /\
  ~ pending (hash batch) (pn_sync (run_processor c hash gc_depth delay known hint me n batch)).
Proof.
  intro Av. unfold run_processor. cbn [processor fold_left apply_pact pn_cons pn_sync pn_store].
  set (d := hash batch).
  pose proof (c08_step c me hint (EvBatch d) (pn_cons n) Av I) as P1. unfold Post in P1.
  destruct (step c me src_dq hint (EvBatch d) (pn_cons n)) as [[s1 o1] r1] eqn:E1. cbn [fst].
  destruct P1 as [Av1 _].
  assert (Hd : In d (s_batches s1)).
  { cbn [step] in E1. unfold batch_stored, modify in E1. injection E1 as <- _ _. cbn. left; reflexivity. }
  split; [exact Hd|].
  pose proof (c08_step c me hint (EvDigest d) s1 Av1 Hd) as P2. unfold Post in P2.
  destruct (step c me src_dq hint (EvDigest d) s1) as [[s2 o2] r2] eqn:E2. cbn [fst].
  destruct P2 as [Av2 [B2 _]].
  split; [exact Av2|]. split; [apply B2; exact Hd|]. split.
  - cbn [step] in E2. unfold modify in E2. injection E2 as <- _ _. destruct (memN d (s_buffer s1)) eqn:Eb.
    + apply memN_in. exact Eb.
    + cbn. left; reflexivity.
  - split; [cbn [bget]; rewrite N.eqb_refl; reflexivity|apply ms_arrived_not_pending].
Qed.

(* ---------------------------------------------------------------- the schedule *)
Section Schedule.
  Variable c : Committee.
  Variable hash : bytes -> N.
  Variables P R gc_depth delay : N.
  Variable known : N -> bool.
  Variable hint : list N.

  Variable storeP : bstore.          (* P's store before it processed the batch: anything *)
  Variable sR : State.               (* R: consensus state, synchronizer state, store contents: anything such that ... *)
  Variable msR : MS.
  Variable storeR : bstore.
  Variable bs : bytes.               (* the serialized batch *)
  Variable b : Block.                (* P's block *)
  Variable now : N.
  Let d := hash bs.

  Hypothesis HAv : AvInv sR.
  Hypothesis Hmissing : ~ In d (s_batches sR).
  Hypothesis Hpay_d : In d (b_payload b).
  Hypothesis Hpay_rest : forall x, In x (b_payload b) -> x = d \/ In x (s_batches sR).
  Hypothesis Hauthor : b_author b = P.
  Hypothesis Hleader : (b_author b =? leader c (b_round b)) = true.
  Hypothesis Hvalid : block_verify c b = ROk tt.
  Hypothesis Hnot_parked : existsb (fun e => block_eqb b (snd e)) (s_pw_pending sR) = false.
  Hypothesis Hnot_pending : ~ pending d msR.
  Hypothesis HknownP : known P = true.
  Hypothesis HknownR : known R = true.
  Hypothesis Hbatch : mempool_dispatch bs = RProcessor.     (* bs is a serialized MempoolMessage::Batch *)

  Let missing := filter (fun x => negb (memN x (s_batches sR))) (b_payload b).
  Let res := sync_script c hash P R gc_depth delay known hint storeP (mkPN sR msR storeR) bs b now.

  Lemma missing_only_d x : In x missing -> x = d.
  Proof.
    unfold missing. intro H. apply filter_In in H. destruct H as [Hin Hn]. destruct (Hpay_rest x Hin) as [E|E]; [exact E|].
    apply memN_in in E. rewrite E in Hn. discriminate.
  Qed.
  Lemma missing_has_d : In d missing.
  Proof.
    unfold missing. apply filter_In. split; [exact Hpay_d|]. destruct (memN d (s_batches sR)) eqn:E; [|reflexivity].
    apply memN_in in E. contradiction.
  Qed.
  Lemma missing_cons : exists x xs, missing = x :: xs.
  Proof. pose proof missing_has_d as H. destruct missing as [|x xs]; [destruct H|eauto]. Qed.

  Lemma singleton_d (m : list N) : NoDup m -> (forall x, In x m <-> x = d) -> m = [d].
  Proof.
    intros Hnd Hiff. destruct m as [|y m]; [exfalso; apply (proj2 (Hiff d) eq_refl)|].
    assert (y = d) by (apply Hiff; left; reflexivity). subst y. f_equal.
    destruct m as [|z m]; [reflexivity|]. exfalso.
    assert (z = d) by (apply Hiff; right; left; reflexivity). subst z.
    inversion Hnd as [|? ? Hn _]; subst. apply Hn. left; reflexivity.
  Qed.

  Theorem c13_sync_completes :
    (* P: stored under the hash, before anything is announced (Processor order), bytes readable *)
    processor hash bs = [PWrite d bs; PAnnounce d] /\
    bget d (sr_storeP res) = Some bs /\
    (* R's core: one Synchronize command for the missing digests to the author; b parked; no vote, no commit *)
    sr_core_out res = [OMemSync missing P] /\
    In (missing, b) (s_pw_pending (pn_cons (sr_after_propose res))) /\
    s_batches (pn_cons (sr_after_propose res)) = s_batches sR /\
    s_loopback (pn_cons (sr_after_propose res)) = s_loopback sR /\
    (* R's synchronizer: BatchRequest [d] R -> P, once (missing may repeat d) *)
    sr_requests res = [mkReq P [d] R] /\
    (* P's helper: the stored bytes, to R *)
    sr_answers res = [(R, bs)] /\
    (* final state of R *)
    In b (s_loopback (pn_cons (sr_final res))) /\
    In d (s_batches (pn_cons (sr_final res))) /\
    bget d (pn_store (sr_final res)) = Some bs /\
    (forall m b', In (m, b') (s_pw_pending (pn_cons (sr_final res))) ->
       b' <> b /\ m <> [] /\ exists m0, In (m0, b') (s_pw_pending sR) /\ m = filter (fun x => negb (x =? d)) m0) /\
    (s_pw_pending sR = [] -> s_pw_pending (pn_cons (sr_final res)) = []) /\
    ~ pending d (pn_sync (sr_final res)) /\
    In d (s_buffer (pn_cons (sr_final res))) /\
    AvInv (pn_cons (sr_final res)).
  Proof.
    destruct missing_cons as [x [xs Hmc]].
    destruct (handle_proposal_missing c R hint b sR x xs Hleader Hvalid Hmc Hnot_parked) as [s2 [U2 E2]].
    rewrite <- Hmc in E2. rewrite Hauthor in E2.
    (* AvInv along the way: C08's step theorem, three times *)
    pose proof (c08_step c R hint (EvPropose b) sR HAv I) as Post1. unfold Post in Post1. cbn [step] in Post1. rewrite E2 in Post1.
    destruct Post1 as [Av3 _].
    set (s3 := set_pw s2 (s_pw_pending sR ++ [(missing, b)])) in *.
    destruct (batch_stored_releases d s3 (s_pw_pending sR) missing b eq_refl missing_only_d)
      as [s4 [E4 [B4 [L4 [PW4 [Bu4 _]]]]]].
    pose proof (c08_step c R hint (EvBatch d) s3 Av3 I) as Post2. unfold Post in Post2. cbn [step] in Post2. rewrite E4 in Post2.
    destruct Post2 as [Av4 _].
    assert (Hd4 : In d (s_batches s4)) by (rewrite B4; left; reflexivity).
    pose proof (c08_step c R hint (EvDigest d) s4 Av4 Hd4) as Post3. unfold Post in Post3.
    (* the synchronizer *)
    destruct (ms_sync_output R gc_depth delay known msR missing P now) as [m [Ho [Hnd [Hm [Hp Hr]]]]].
    assert (Hm1 : m = [d]).
    { apply singleton_d; [exact Hnd|]. intro y. rewrite Hm. cbn. split.
      - intros [H _]. apply missing_only_d. exact H.
      - intros ->. split; [apply missing_has_d|exact Hnot_pending]. }
    subst m. rewrite HknownP in Ho.
    (* evaluate the script *)
    unfold res, sync_script, stage_R_propose. cbn [pn_cons pn_sync pn_store step]. rewrite E2.
    cbn [memsyncs flat_map app stage_R_sync pn_cons pn_sync pn_store].
    destruct (msstep R gc_depth delay known msR (MSync missing P now)) as [ms1 q] eqn:Ems. cbn [fst snd] in Ho, Hp, Hr. subst q.
    cbn [app stage_P_helper flat_map rq_dest rq_origin rq_digests map]. rewrite N.eqb_refl, HknownR.
    unfold stage_P_store. cbn [processor fold_left bget]. fold d. rewrite N.eqb_refl.
    cbn [mempool_helper_answer negb flat_map app map].
    cbn [sr_storeP sr_after_propose sr_core_out sr_requests sr_answers sr_final].
    cbn [stage_R_receive fold_left fst snd]. rewrite N.eqb_refl, Hbatch. cbn [is_processor andb].
    unfold run_processor. cbn [processor fold_left apply_pact pn_cons pn_sync pn_store]. fold d. fold s3.
    cbn [step]. rewrite E4. cbn [fst snd].
    (* the last step: the announcement *)
    set (s5 := fst (fst (modify (fun s => if memN d (s_buffer s) then s else set_buffer s (d :: s_buffer s)) s4))) in *.
    assert (U5 : s_loopback s5 = s_loopback s4 /\ s_batches s5 = s_batches s4 /\ s_pw_pending s5 = s_pw_pending s4 /\ In d (s_buffer s5)).
    { unfold s5, modify. cbn [fst]. destruct (memN d (s_buffer s4)) eqn:Eb.
      - repeat split. apply memN_in. exact Eb.
      - repeat split. left; reflexivity. }
    destruct U5 as [L5 [B5 [PW5 Bu5]]].
    destruct U2 as [UL [_ [_ [_ [_ [UB _]]]]]].
    assert (Av5 : AvInv s5).
    { unfold s5. cbn [step] in Post3. destruct (modify _ s4) as [[s5' o5] r5]. cbn [fst]. apply Post3. }
    repeat split.
    - cbn [bget]. rewrite N.eqb_refl. reflexivity.
    - unfold s3. cbn. apply in_app_iff. right. left. reflexivity.
    - unfold s3. cbn. exact UB.
    - unfold s3. cbn. exact UL.
    - rewrite L5, L4. apply in_app_iff. right. apply in_app_iff. right. left. reflexivity.
    - rewrite B5. exact Hd4.
    - cbn [bget]. rewrite N.eqb_refl. reflexivity.
    - rewrite PW5, PW4 in H. apply filter_In in H. destruct H as [H _]. apply in_map_iff in H.
      destruct H as [[m0 b0] [Hu Hin]]. unfold pw_upd in Hu. cbn in Hu. injection Hu as _ ->.
      intros ->. assert (T : existsb (fun e => block_eqb b (snd e)) (s_pw_pending sR) = true)
        by (apply existsb_exists; exists (m0, b); split; [exact Hin|apply block_eqb_refl]).
      rewrite Hnot_parked in T. discriminate.
    - rewrite PW5, PW4 in H. apply filter_In in H. destruct H as [_ H]. unfold pw_wait in H. cbn in H. intros ->. discriminate.
    - rewrite PW5, PW4 in H. apply filter_In in H. destruct H as [H _]. apply in_map_iff in H.
      destruct H as [[m0 b0] [Hu Hin]]. unfold pw_upd in Hu. cbn in Hu. injection Hu as <- <-. exists m0. auto.
    - intro Hnil. rewrite PW5, PW4, Hnil. reflexivity.
    - replace ms1 with (fst (msstep R gc_depth delay known msR (MSync missing P now))) by (rewrite Ems; reflexivity).
      apply ms_arrived_not_pending.
    - exact Bu5.
    - apply (av_loop _ Av5).
    - apply (av_sync _ Av5).
    - apply (av_store _ Av5).
    - apply (av_pw _ Av5).
    - apply (av_buf _ Av5).
    - apply (av_hist _ Av5).
  Qed.

  (* "... and then resumes processing that block instead of stalling": the core's next loop-back event for b finds a
     block with b's digest in the pool (Node.step EvLoopback: `match remove_first b (s_loopback s) with Some (x, l) =>
     set_loopback l ;; process_block x | None => OBadHint`), i.e. it enters process_block, and at that moment every
     batch of that block is in R's store. *)
  Corollary c13_resumes :
    exists x l, remove_first b (s_loopback (pn_cons (sr_final res))) = Some (x, l) /\
                block_digest x = block_digest b /\ b_payload x = b_payload b /\
                incl (b_payload x) (s_batches (pn_cons (sr_final res))).
  Proof.
    destruct c13_sync_completes as [_ [_ [_ [_ [_ [_ [_ [_ [Hl [_ [_ [_ [_ [_ [_ Av]]]]]]]]]]]]]]].
    destruct (remove_first_found b _ Hl) as [x [l [Hr [Hd Hx]]]]. exists x, l. split; [exact Hr|]. split; [exact Hd|].
    split; [unfold block_digest in Hd; congruence|]. apply (av_loop _ Av x Hx).
  Qed.
End Schedule.

(* ---------------------------------------------------------------- the hypotheses are satisfiable *)
(* committee of four, P = 1 = leader of round 1, R = 2 in its initial state, the batch is the serialized empty Batch
   message (variant 0, length 0), whatever it hashes to (here 7); the block carries [7]. *)
Definition ex_bs : bytes := [0;0;0;0; 0;0;0;0;0;0;0;0].
Definition ex_hash (_ : bytes) : N := 7.
Definition ex_block : Block :=
  let pre := mkBlock qc_genesis None 1 1 [7] (SigJunk 0) in
  mkBlock qc_genesis None 1 1 [7] (SigOf 1 (CBlock (block_digest pre))).
Definition ex_res := sync_script c4 ex_hash 1 2 50 5000 (fun a => a <? 4) [] [] (mkPN (init c4) ms_init []) ex_bs ex_block 1000.

Lemma AvInv_init' c : AvInv (init c).
Proof. constructor; simpl; intros; try contradiction. intros x []. Qed.

Example c13_sync_completes_example :
  sr_core_out ex_res = [OMemSync [7] 1] /\ sr_requests ex_res = [mkReq 1 [7] 2] /\ sr_answers ex_res = [(2, ex_bs)] /\
  s_loopback (pn_cons (sr_final ex_res)) = [ex_block] /\ s_pw_pending (pn_cons (sr_final ex_res)) = [] /\
  s_batches (pn_cons (sr_final ex_res)) = [7] /\ ms_pending (pn_sync (sr_final ex_res)) = [] /\
  pn_store (sr_final ex_res) = [(7, ex_bs)].
Proof. vm_compute. repeat split. Qed.
(* the same instance through the theorem: every hypothesis holds *)
Example c13_hypotheses_satisfiable :
  In ex_block (s_loopback (pn_cons (sr_final ex_res))).
Proof.
  refine (proj1 (proj2 (proj2 (proj2 (proj2 (proj2 (proj2 (proj2 (proj2
    (c13_sync_completes c4 ex_hash 1 2 50 5000 (fun a => a <? 4) [] [] (init c4) ms_init [] ex_bs ex_block 1000
       (AvInv_init' c4) _ _ _ _ _ _ _ _ _ _ _)))))))))).
  - intros [].
  - left; reflexivity.
  - intros x [<-|[]]. left; reflexivity.
  - reflexivity.
  - reflexivity.
  - vm_compute. reflexivity.
  - reflexivity.
  - intros [].
  - reflexivity.
  - reflexivity.
  - vm_compute. reflexivity.
Qed.

Print Assumptions c13_processor_order.
Print Assumptions c13_sync_completes.
Print Assumptions c13_resumes.
