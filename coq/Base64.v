(* C18: theorems about the base64 model of Base64Defs.v.
   b64_rt        : decode (encode l) = Some l for every list of bytes, of every length
   b64_enc_length, b64_len32, b64_len64 : encoded lengths (44 for 32 bytes, 88 for 64 bytes)
   key round trips (both `exact_len` settings), no panic under the repaired length check, and the
   refutation witness for the unrepaired slice. *)
From Coq Require Import List NArith ZArith Arith Lia Bool ZifyN ZifyBool.
From HS Require Import Base64Defs.
Import ListNotations.
Open Scope N_scope.
Ltac Zify.zify_post_hook ::= Z.div_mod_to_equations.

(* ---------- the alphabet: 64-point sweeps ---------- *)
Definition sixbits : list N := map N.of_nat (seq 0 64).
Lemma sixbits_in v : v < 64 -> In v sixbits.
Proof.
  intros H. unfold sixbits. apply in_map_iff. exists (N.to_nat v). split; [lia|]. apply in_seq. lia.
Qed.

Lemma sweep_val_sym :
  forallb (fun v => match b64_val (b64_sym v) with Some v' => v' =? v | None => false end) sixbits = true.
Proof. vm_compute. reflexivity. Qed.
Lemma sweep_not_pad : forallb (fun v => negb (b64_sym v =? b64_pad)) sixbits = true.
Proof. vm_compute. reflexivity. Qed.
Lemma sweep_sym_byte : forallb (fun v => b64_sym v <? 128) sixbits = true.
Proof. vm_compute. reflexivity. Qed.

Lemma b64_val_sym v : v < 64 -> b64_val (b64_sym v) = Some v.
Proof.
  intros H. pose proof (proj1 (forallb_forall _ _) sweep_val_sym v (sixbits_in v H)) as S. cbv beta in S.
  destruct (b64_val (b64_sym v)) as [v'|]; [|discriminate]. apply N.eqb_eq in S. subst. reflexivity.
Qed.
Lemma b64_sym_not_pad v : v < 64 -> (b64_sym v =? b64_pad) = false.
Proof.
  intros H. pose proof (proj1 (forallb_forall _ _) sweep_not_pad v (sixbits_in v H)) as S. cbv beta in S.
  apply negb_true_iff in S. exact S.
Qed.
(* every symbol of the alphabet is ASCII (so an encoded key is always valid UTF-8) *)
Lemma b64_sym_ascii v : v < 64 -> b64_sym v < 128.
Proof.
  intros H. pose proof (proj1 (forallb_forall _ _) sweep_sym_byte v (sixbits_in v H)) as S. cbv beta in S.
  apply N.ltb_lt in S. exact S.
Qed.
(* the decode table is the inverse of the encode table on its whole domain (256-point sweep, lifted) *)
Lemma sweep_sym_val :
  forallb (fun c => match b64_val c with Some v => (v <? 64) && (b64_sym v =? c) | None => true end)
          (map N.of_nat (seq 0 256)) = true.
Proof. vm_compute. reflexivity. Qed.
Lemma b64_val_none_big c : 256 <= c -> b64_val c = None.
Proof.
  intros H. unfold b64_val.
  assert (G : forall l i, Forall (fun x => x < 256) l -> index_of c l i = None).
  { induction l as [|x r IH]; intros i F; cbn [index_of]; [reflexivity|]. inversion F; subst.
    destruct (x =? c) eqn:E; [apply N.eqb_eq in E; lia|]. apply IH; assumption. }
  apply G. apply Forall_forall. intros x Hx.
  assert (S : forallb (fun x => x <? 256) b64_alphabet = true) by (vm_compute; reflexivity).
  pose proof (proj1 (forallb_forall _ _) S x Hx) as S'. cbv beta in S'. apply N.ltb_lt in S'. exact S'.
Qed.
Lemma b64_sym_val c v : b64_val c = Some v -> v < 64 /\ b64_sym v = c.
Proof.
  intros H. destruct (N.lt_ge_cases c 256) as [L|G]; [|rewrite (b64_val_none_big c G) in H; discriminate].
  assert (I : In c (map N.of_nat (seq 0 256))).
  { apply in_map_iff. exists (N.to_nat c). split; [lia|]. apply in_seq. lia. }
  pose proof (proj1 (forallb_forall _ _) sweep_sym_val c I) as S. cbv beta in S. rewrite H in S.
  apply andb_true_iff in S. destruct S as [S1 S2]. apply N.ltb_lt in S1. apply N.eqb_eq in S2. auto.
Qed.

Global Opaque b64_sym b64_val.

(* ---------- bit arithmetic of one group ---------- *)
Lemma grp1 a : a < 256 -> a / 4 < 64. Proof. lia. Qed.
Lemma grp2 a b : a < 256 -> b < 256 -> (a mod 4) * 16 + b / 16 < 64. Proof. lia. Qed.
Lemma grp3 b c : b < 256 -> c < 256 -> (b mod 16) * 4 + c / 64 < 64. Proof. lia. Qed.
Lemma grp4 c : c mod 64 < 64. Proof. lia. Qed.
Lemma grp2' a : (a mod 4) * 16 < 64. Proof. lia. Qed.
Lemma grp3' b : (b mod 16) * 4 < 64. Proof. lia. Qed.

Lemma back1 a b : a < 256 -> b < 256 -> (a / 4) * 4 + ((a mod 4) * 16 + b / 16) / 16 = a. Proof. lia. Qed.
Lemma back2 a b c : b < 256 -> c < 256 ->
  (((a mod 4) * 16 + b / 16) mod 16) * 16 + ((b mod 16) * 4 + c / 64) / 4 = b. Proof. lia. Qed.
Lemma back3 b c : c < 256 -> (((b mod 16) * 4 + c / 64) mod 4) * 64 + c mod 64 = c. Proof. lia. Qed.
Lemma back1' a : a < 256 -> (a / 4) * 4 + ((a mod 4) * 16) / 16 = a. Proof. lia. Qed.
Lemma back2' a b : b < 256 -> (((a mod 4) * 16 + b / 16) mod 16) * 16 + ((b mod 16) * 4) / 4 = b. Proof. lia. Qed.
Lemma tail1 a : ((a mod 4) * 16) mod 16 = 0. Proof. lia. Qed.
Lemma tail2 b : ((b mod 16) * 4) mod 4 = 0. Proof. lia. Qed.

Lemma dec_quad_enc a b c : a < 256 -> b < 256 -> c < 256 ->
  b64_dec_quad (b64_sym (a / 4)) (b64_sym ((a mod 4) * 16 + b / 16))
               (b64_sym ((b mod 16) * 4 + c / 64)) (b64_sym (c mod 64)) = Some [a; b; c].
Proof.
  intros Ha Hb Hc. unfold b64_dec_quad.
  rewrite (b64_val_sym _ (grp1 a Ha)), (b64_val_sym _ (grp2 a b Ha Hb)),
          (b64_val_sym _ (grp3 b c Hb Hc)), (b64_val_sym _ (grp4 c)).
  rewrite (back1 a b Ha Hb), (back2 a b c Hb Hc), (back3 b c Hc). reflexivity.
Qed.

(* ---------- scanning symbols of the last chunk ---------- *)
Lemma scan_sym i acc v r : v < 64 ->
  b64_last_scan i false acc (b64_sym v :: r) = b64_last_scan (S i) false (v :: acc) r.
Proof. intros H. cbn [b64_last_scan]. rewrite (b64_sym_not_pad v H), (b64_val_sym v H). reflexivity. Qed.

Definition byte (b : N) := b < 256.

(* the last chunk: at most 6 bytes = at most 8 symbols *)
Lemma dec_last_enc l : (length l <= 6)%nat -> Forall byte l -> b64_dec_last (b64_encode l) = Some l.
Proof.
  intros Hl F. unfold b64_dec_last.
  destruct l as [|a [|b [|c [|d [|e [|f [|g r]]]]]]]; cbn [length] in Hl; try lia; clear Hl;
    repeat match goal with H : Forall byte (_ :: _) |- _ => inversion H; clear H; subst end;
    unfold byte in *; cbn [b64_encode].
  - reflexivity.
  - rewrite !scan_sym by (apply grp1 || apply grp2'; assumption).
    cbn. rewrite tail1. cbn. rewrite back1' by assumption. reflexivity.
  - rewrite !scan_sym by (apply grp1 || apply grp2 || apply grp3'; assumption).
    cbn. rewrite tail2. cbn. rewrite back1, back2' by assumption. reflexivity.
  - rewrite !scan_sym by (apply grp1 || apply grp2 || apply grp3 || apply grp4; assumption).
    cbn. rewrite back1, back2, back3 by assumption. reflexivity.
  - rewrite !scan_sym by (apply grp1 || apply grp2 || apply grp3 || apply grp4 || apply grp2'; assumption).
    cbn. rewrite tail1. cbn. rewrite back1, back2, back3, back1' by assumption. reflexivity.
  - rewrite !scan_sym by (apply grp1 || apply grp2 || apply grp3 || apply grp4 || apply grp3'; assumption).
    cbn. rewrite tail2. cbn. rewrite !back1, back2, back3, back2' by assumption. reflexivity.
  - rewrite !scan_sym by (apply grp1 || apply grp2 || apply grp3 || apply grp4; assumption).
    cbn. rewrite !back1, !back2, !back3 by assumption. reflexivity.
Qed.

Lemma enc_nonempty a r : b64_encode (a :: r) <> [].
Proof. destruct r as [|b [|c r]]; cbn [b64_encode]; discriminate. Qed.

Lemma dec_chunks_short l : (length l <= 8)%nat -> b64_dec_chunks l = b64_dec_last l.
Proof.
  intros H. destruct l as [|a [|b [|c [|d [|e [|f [|g [|h [|i r]]]]]]]]]; try reflexivity.
  cbn [length] in H. lia.
Qed.

Lemma dec_chunks_step a b c d e f g h x y :
  b64_dec_chunks (a :: b :: c :: d :: e :: f :: g :: h :: x :: y) =
  match b64_dec_quad a b c d, b64_dec_quad e f g h, b64_dec_chunks (x :: y) with
  | Some p, Some q, Some z => Some (p ++ q ++ z)
  | _, _, _ => None
  end.
Proof. reflexivity. Qed.

Lemma enc_length l : length (b64_encode l) = (4 * ((length l + 2) / 3))%nat.
Proof.
  assert (G : forall n l, (length l <= n)%nat -> length (b64_encode l) = (4 * ((length l + 2) / 3))%nat).
  { induction n as [|n IH]; intros k Hk.
    - destruct k; [reflexivity|cbn [length] in Hk; lia].
    - destruct k as [|a [|b [|c r]]]; try reflexivity.
      cbn [b64_encode length] in *. rewrite IH by lia.
      replace (S (S (S (length r))) + 2)%nat with (1 * 3 + (length r + 2))%nat by lia.
      rewrite Nat.div_add_l by lia. generalize ((length r + 2) / 3)%nat. intros q. lia. }
  apply (G (length l)). lia.
Qed.

Lemma dec_chunks_enc : forall n l, (length l <= n)%nat -> Forall byte l ->
  b64_dec_chunks (b64_encode l) = Some l.
Proof.
  induction n as [|n IH]; intros l Hl F.
  - destruct l; [reflexivity|cbn [length] in Hl; lia].
  - destruct (le_lt_dec (length l) 6) as [S6|L6].
    + rewrite dec_chunks_short.
      * apply dec_last_enc; assumption.
      * rewrite enc_length. assert ((length l + 2) / 3 < 3)%nat; [|lia].
        apply Nat.div_lt_upper_bound; lia.
    + destruct l as [|a [|b [|c [|d [|e [|f [|g r]]]]]]]; cbn [length] in L6; try lia.
      repeat match goal with H : Forall byte (_ :: _) |- _ => inversion H; clear H; subst end.
      unfold byte in *.
      change (b64_encode (a :: b :: c :: d :: e :: f :: g :: r)) with
        (b64_sym (a / 4) :: b64_sym ((a mod 4) * 16 + b / 16) :: b64_sym ((b mod 16) * 4 + c / 64) :: b64_sym (c mod 64) ::
         b64_sym (d / 4) :: b64_sym ((d mod 4) * 16 + e / 16) :: b64_sym ((e mod 16) * 4 + f / 64) :: b64_sym (f mod 64) ::
         b64_encode (g :: r)).
      destruct (b64_encode (g :: r)) as [|x y] eqn:E; [exfalso; exact (enc_nonempty g r E)|].
      rewrite dec_chunks_step, !dec_quad_enc by assumption. rewrite <- E.
      rewrite IH; [reflexivity| cbn [length] in *; lia | constructor; assumption].
Qed.

(* ---------- the theorems ---------- *)
Theorem b64_enc_length l : length (b64_encode l) = (4 * ((length l + 2) / 3))%nat.
Proof. exact (enc_length l). Qed.

(* C18: the round trip, for every list of bytes of every length *)
Theorem b64_rt : forall l, Forall (fun b => b < 256) l -> b64_decode (b64_encode l) = Some l.
Proof.
  intros l F. unfold b64_decode. rewrite enc_length.
  set (q := ((length l + 2) / 3)%nat).
  assert (H : Nat.modulo (4 * q) 8 = 0%nat \/ Nat.modulo (4 * q) 8 = 4%nat).
  { change 8%nat with (4 * 2)%nat. rewrite Nat.mul_mod_distr_l by lia.
    pose proof (Nat.mod_upper_bound q 2 ltac:(lia)) as M.
    destruct (Nat.modulo q 2) as [|[|k]]; [left; reflexivity|right; reflexivity|lia]. }
  destruct H as [-> | ->]; cbn [Nat.eqb orb]; apply (dec_chunks_enc (length l)); auto.
Qed.

Theorem b64_len32 k : length k = 32%nat -> length (b64_encode k) = 44%nat.
Proof. intros H. rewrite enc_length, H. reflexivity. Qed.
Theorem b64_len64 k : length k = 64%nat -> length (b64_encode k) = 88%nat.
Proof. intros H. rewrite enc_length, H. reflexivity. Qed.

(* encoding is injective on byte strings (a corollary of the round trip) *)
Theorem b64_encode_inj l l' : Forall byte l -> Forall byte l' -> b64_encode l = b64_encode l' -> l = l'.
Proof.
  intros F F' E. pose proof (b64_rt l F) as R. rewrite E, (b64_rt l' F') in R. inversion R. reflexivity.
Qed.

(* every encoded string is ASCII over the alphabet plus '=' *)
Theorem b64_encode_ascii l : Forall byte l -> Forall (fun c => c < 128) (b64_encode l).
Proof.
  assert (G : forall n l, (length l <= n)%nat -> Forall byte l -> Forall (fun c => c < 128) (b64_encode l)).
  { induction n as [|n IH]; intros k Hk F.
    - destruct k; [constructor|cbn [length] in Hk; lia].
    - destruct k as [|a [|b [|c r]]]; cbn [b64_encode];
        repeat match goal with H : Forall byte (_ :: _) |- _ => inversion H; clear H; subst end; unfold byte in *.
      + constructor.
      + repeat constructor; try (apply b64_sym_ascii; (apply grp1 || apply grp2'); assumption); unfold b64_pad; lia.
      + repeat constructor; try (apply b64_sym_ascii; (apply grp1 || apply grp2 || apply grp3'); assumption); unfold b64_pad; lia.
      + repeat (apply Forall_cons); try (apply b64_sym_ascii; (apply grp1 || apply grp2 || apply grp3 || apply grp4); assumption).
        apply IH; [cbn [length] in Hk; lia|assumption]. }
  intros F. apply (G (length l)); auto.
Qed.

(* ---------- keys (crypto/src/lib.rs) ---------- *)
(* decode_base64 (encode_base64 k) = Ok k, for both length disciplines *)
Theorem key_rt_n len exact k : length k = len -> Forall byte k ->
  decode_key_n len exact (encode_key k) = KOk k.
Proof.
  intros Hl F. unfold decode_key_n, encode_key. rewrite (b64_rt k F), Hl.
  rewrite Nat.eqb_refl, Nat.ltb_irrefl, firstn_all2 by lia. destruct exact; reflexivity.
Qed.
Theorem pubkey_rt exact k : length k = 32%nat -> Forall byte k -> decode_pubkey exact (encode_key k) = KOk k.
Proof. apply key_rt_n. Qed.
Theorem seckey_rt exact k : length k = 64%nat -> Forall byte k -> decode_seckey exact (encode_key k) = KOk k.
Proof. apply key_rt_n. Qed.

(* the premises of the key round trips are satisfiable *)
Example key_premises_satisfiable : length (repeat 255 32) = 32%nat /\ Forall (fun b => b < 256) (repeat 255 32).
Proof. split; [reflexivity|]. apply Forall_forall. intros x H. apply repeat_spec in H. subst. reflexivity. Qed.

(* C15, decoding half: with the exact length check no string makes key decoding panic, and every accepted
   key has exactly the required length *)
Theorem key_exact_no_panic len s : decode_key_n len true s <> KPanic.
Proof. unfold decode_key_n. destruct (b64_decode s); [destruct (length l =? len)%nat|]; discriminate. Qed.
Theorem key_exact_length len s k : decode_key_n len true s = KOk k -> length k = len.
Proof.
  unfold decode_key_n. destruct (b64_decode s) as [l|]; [|discriminate].
  destruct (length l =? len)%nat eqn:E; [|discriminate]. intros H. inversion H; subst. apply Nat.eqb_eq. exact E.
Qed.
(* the unrepaired slice: panics exactly on short decodes, truncates long ones *)
Theorem key_slice_outcome len s :
  decode_key_n len false s =
  match b64_decode s with
  | None => KErr
  | Some l => if (length l <? len)%nat then KPanic else KOk (firstn len l)
  end.
Proof. reflexivity. Qed.
Theorem key_slice_length len s k : decode_key_n len false s = KOk k -> length k = len.
Proof.
  unfold decode_key_n. destruct (b64_decode s) as [l|]; [|discriminate].
  destruct (length l <? len)%nat eqn:E; [discriminate|]. intros H. inversion H; subst.
  apply Nat.ltb_ge in E. apply firstn_length_le. exact E.
Qed.
(* refutation witnesses on the pinned tree: "AA==" panics; a 33-byte decode is silently truncated, so two
   different strings of different decoded content are accepted as the same key *)
Example key_slice_panic_witness : decode_pubkey false [65; 65; 61; 61] = KPanic.
Proof. vm_compute. reflexivity. Qed.
Example key_exact_witness : decode_pubkey true [65; 65; 61; 61] = KErr.
Proof. vm_compute. reflexivity. Qed.
Example key_slice_truncation_witness :
  let k := repeat 7 32 in
  decode_pubkey false (b64_encode (k ++ [1])) = KOk k /\ decode_pubkey false (b64_encode (k ++ [2])) = KOk k /\
  decode_pubkey true (b64_encode (k ++ [1])) = KErr.
Proof. vm_compute. repeat split; reflexivity. Qed.

(* the crate does not insist on canonical padding: the decoder is not injective (observation, not a defect
   of the repository: digests and signatures are over decoded bytes) *)
Example b64_padding_not_canonical :
  b64_decode [65; 65] = Some [0] /\ b64_decode [65; 65; 61] = Some [0] /\ b64_decode [65; 65; 61; 61] = Some [0].
Proof. vm_compute. repeat split; reflexivity. Qed.

(* whatever is decoded consists of bytes *)
Lemma morsels_bytes_byte m l : Forall (fun v => v < 64) m -> b64_morsels_bytes m = Some l -> Forall byte l.
Proof.
  assert (G : forall n m l, (length m <= n)%nat -> Forall (fun v => v < 64) m -> b64_morsels_bytes m = Some l -> Forall byte l).
  { induction n as [|n IH]; intros k o Hk F E.
    - destruct k; [inversion E; constructor|cbn [length] in Hk; lia].
    - destruct k as [|x [|y [|z [|w r]]]]; cbn [b64_morsels_bytes] in E;
        repeat match goal with H : Forall _ (_ :: _) |- _ => inversion H; clear H; subst end.
      + inversion E. constructor.
      + discriminate.
      + destruct (y mod 16 =? 0); inversion E. repeat constructor. unfold byte. lia.
      + destruct (z mod 4 =? 0); inversion E. repeat constructor; unfold byte; lia.
      + destruct (b64_morsels_bytes r) as [t|] eqn:Er; inversion E. subst.
        repeat (apply Forall_cons); try (unfold byte; lia).
        apply (IH r t); [cbn [length] in Hk; lia|assumption|assumption]. }
  intros F E. apply (G (length m) m l); auto.
Qed.
Lemma last_scan_morsels : forall l i p acc m, Forall (fun v => v < 64) acc ->
  b64_last_scan i p acc l = Some m -> Forall (fun v => v < 64) m.
Proof.
  induction l as [|b r IH]; intros i p acc m F E; cbn [b64_last_scan] in E.
  - inversion E. subst. apply Forall_rev. exact F.
  - destruct (b =? b64_pad).
    + destruct (i mod 4 <? 2)%nat; [discriminate|]. eapply IH; eauto.
    + destruct p; [discriminate|]. destruct (b64_val b) as [v|] eqn:V; [|discriminate].
      eapply IH; [|exact E]. constructor; [apply (b64_sym_val b v V)|exact F].
Qed.
Lemma dec_quad_byte a b c d l : b64_dec_quad a b c d = Some l -> Forall byte l.
Proof.
  unfold b64_dec_quad.
  destruct (b64_val a) as [x|] eqn:A; [|discriminate]. destruct (b64_val b) as [y|] eqn:B; [|discriminate].
  destruct (b64_val c) as [z|] eqn:C; [|discriminate]. destruct (b64_val d) as [w|] eqn:D; [|discriminate].
  apply b64_sym_val in A, B, C, D. intros E. inversion E. repeat constructor; unfold byte; lia.
Qed.
Lemma dec_last_byte s l : b64_dec_last s = Some l -> Forall byte l.
Proof.
  unfold b64_dec_last. destruct (b64_last_scan 0 false [] s) as [m|] eqn:E; [|discriminate].
  apply morsels_bytes_byte. eapply last_scan_morsels; [|exact E]. constructor.
Qed.
Lemma dec_chunks_byte : forall n s l, (length s <= n)%nat -> b64_dec_chunks s = Some l -> Forall byte l.
Proof.
  induction n as [|n IH]; intros s l Hs E.
  - destruct s; [|cbn [length] in Hs; lia]. apply (dec_last_byte [] l E).
  - destruct s as [|a [|b [|c [|d [|e [|f [|g [|h [|i r]]]]]]]]];
      try (apply (dec_last_byte _ l E)).
    rewrite dec_chunks_step in E.
    destruct (b64_dec_quad a b c d) as [x|] eqn:Q1; [|discriminate].
    destruct (b64_dec_quad e f g h) as [y|] eqn:Q2; [|discriminate].
    destruct (b64_dec_chunks (i :: r)) as [z|] eqn:Q3; [|discriminate].
    inversion E. apply Forall_app. split; [eapply dec_quad_byte; eauto|].
    apply Forall_app. split; [eapply dec_quad_byte; eauto|].
    apply (IH (i :: r) z); [cbn [length] in *; lia|exact Q3].
Qed.
Theorem b64_decode_bytes s l : b64_decode s = Some l -> Forall (fun b => b < 256) l.
Proof.
  unfold b64_decode. destruct ((length s mod 8 =? 1)%nat || (length s mod 8 =? 5)%nat); [discriminate|].
  apply (dec_chunks_byte (length s)). lia.
Qed.

Print Assumptions b64_rt.
Print Assumptions b64_len32.
Print Assumptions b64_len64.
Print Assumptions pubkey_rt.
Print Assumptions seckey_rt.
Print Assumptions key_exact_no_panic.
Print Assumptions b64_decode_bytes.
