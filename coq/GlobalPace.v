(* C10 "evidence" at the level of the global model: in every reachable state, the round of every honest node
   is 1 or is justified by a QC or a TC of the immediately preceding round, valid in the world of the votes and
   timeouts recorded by the honest nodes. *)
From Coq Require Import List NArith Lia Bool ZifyN ZifyBool.
From HS Require Import GTac Node Proto Link NodeInv NodePace Global.
Import ListNotations.
Open Scope N_scope.

Section GlobalPace.
  Variable c : Committee.
  Variable honest : N -> bool.
  Hypothesis members_nodup : NoDup (members c).
  Hypothesis byz_bound : 3 * byz_stake (stk c) (members c) honest < total (stk c) (members c).

  (* the node-level invariant is monotone in the surrounding world *)
  Lemma PaceInv_mono me w0 w0' s :
    (forall x, x <> me -> forall e, In e (w0 x) -> In e (w0' x)) ->
    PaceInv c me honest w0 s -> PaceInv c me honest w0' s.
  Proof.
    intros Hw [A|[[h C]|[es V]]]; [left; exact A|right; left|right; right].
    - exists h. unfold Cert in *. eapply certified_mono; [|exact C]. apply cw_wle2. exact Hw.
    - exists es. unfold VTC in *. eapply validtc_mono; [|exact V]. apply cw_wle2. exact Hw.
  Qed.

  Definition GPace (g : gstate) : Prop :=
    forall a, honest a = true -> PaceInv c a honest (gw g) (g a).

  Lemma PaceInv_init a w0 : PaceInv c a honest w0 (init c).
  Proof. left. reflexivity. Qed.

  Lemma gstep_pace g g' : GInv c honest g -> GPace g -> gstep c honest g g' -> GPace g'.
  Proof.
    intros HG HP Hs. inversion Hs as [g0 a hint e Ha Hadm]; subst.
    pose proof (step_pace c a honest members_nodup Ha (gw g) byz_bound hint e (g a) (HG a Ha) (HP a Ha)
                  (msg_adm_ev_adm c honest members_nodup g a e Hadm)) as P.
    pose proof (step_inv c a honest members_nodup Ha (gw g) byz_bound hint e (g a) (HG a Ha)
                  (msg_adm_ev_adm c honest members_nodup g a e Hadm)) as S.
    unfold st in P.
    destruct (step c a src_dq hint e (g a)) as [[s' o] r]. simpl in *. destruct S as [_ [[pre Hp] _]].
    intros b Hb. unfold gupd at 2. destruct (N.eqb_spec b a) as [->|Hne].
    - eapply PaceInv_mono; [|exact P]. intros x Hx e0 He. unfold gw, gupd.
      destruct (N.eqb_spec x a); [contradiction|exact He].
    - eapply PaceInv_mono; [|exact (HP b Hb)]. intros x Hx e0 He. unfold gw, gupd in *.
      destruct (N.eqb_spec x a) as [->|]; [|exact He]. rewrite Hp. apply in_or_app. right. exact He.
  Qed.

  Theorem greach_pace g : greach c honest g -> GPace g.
  Proof.
    induction 1 as [|g g' Hr IH Hs].
    - intros a Ha. apply PaceInv_init.
    - eapply gstep_pace; eauto. apply (greach_inv c honest members_nodup byz_bound). exact Hr.
  Qed.

  (* C10 (b), "evidence": a node is in round r+1 only if a QC or a TC of round r exists that is VALID with
     respect to what the honest nodes actually signed: a duplicate-free set of committee members holding a
     quorum of stake, each honest one of which has recorded a vote for that block (QC) / a timeout of that round
     with that high-QC round (TC) in its ghost history. *)
  Theorem c10_round_evidence g a :
    greach c honest g -> honest a = true ->
    s_round (g a) = 1 \/
    (exists h, certified (stk c) (members c) honest (gw g) h (s_round (g a) - 1)) \/
    (exists es, validtc (stk c) (members c) honest (gw g) (s_round (g a) - 1) es).
  Proof.
    intros Hr Ha. destruct (greach_pace g Hr a Ha) as [A|[[h C]|[es V]]].
    - left. exact A.
    - right. left. exists h. eapply certified_mono; [apply cw_gw_le|]. exact C.
    - right. right. exists es. eapply validtc_mono; [apply cw_gw_le|]. exact V.
  Qed.

  (* rounds are positive, so "s_round - 1" above is the true predecessor *)
  Corollary c10_round_positive g a : greach c honest g -> honest a = true -> 1 <= s_round (g a).
  Proof.
    intros Hr Ha.
    destruct (i_pace _ _ _ _ _ (greach_inv c honest members_nodup byz_bound g Hr a Ha)). lia.
  Qed.
End GlobalPace.
Check c10_round_evidence.
Print Assumptions c10_round_evidence.

(* ---------- not vacuous: a reachable state of the 4-node committee (all honest) in which node 2 is in round 2 ----------
   nodes 0, 1, 2 receive the round-1 proposal B1 and vote; node 2 = leader(2) counts its own vote and those of 0 and 1,
   assembles the QC for B1 and enters round 2: the theorem's second disjunct is the one that holds there. *)
Definition allh : N -> bool := fun _ => true.
Definition gnext (g : gstate) (a : N) (e : Event) : gstate :=
  gupd g a (fst (fst (step c4 a src_dq [] e (g a)))).
Lemma gnext_reach g a e :
  greach c4 allh g -> msg_adm allh (gw g) e -> greach c4 allh (gnext g a e).
Proof. intros Hr Ha. eapply greach_step; [exact Hr|]. constructor; auto. Qed.
Definition ex_vote (a : N) : Vote := mkVote (block_digest B1) 1 a (SigOf a (CVote (block_digest B1) 1)).
Definition ex_g3 : gstate :=
  gnext (gnext (gnext (fun _ => init c4) 0 (EvPropose B1)) 1 (EvPropose B1)) 2 (EvPropose B1).
Definition ex_g5 : gstate := gnext (gnext ex_g3 2 (EvVote (ex_vote 0))) 2 (EvVote (ex_vote 1)).

Lemma ex_adm_B1 w : msg_adm allh w (EvPropose B1).
Proof. split; [intros v []|intros tc E; discriminate]. Qed.

Example c10_evidence_not_vacuous :
  NoDup (members c4) /\ 3 * byz_stake (stk c4) (members c4) allh < total (stk c4) (members c4) /\
  greach c4 allh ex_g5 /\ s_round (ex_g5 2) = 2 /\ s_round (ex_g5 0) = 1.
Proof.
  split; [vm_compute; repeat constructor; simpl; intuition discriminate|].
  split; [vm_compute; reflexivity|].
  split; [|split; vm_compute; reflexivity].
  assert (R3 : greach c4 allh ex_g3).
  { unfold ex_g3. repeat (apply gnext_reach; [|apply ex_adm_B1]). apply greach_init. }
  unfold ex_g5. apply gnext_reach; [apply gnext_reach; [exact R3|]|].
  - simpl. intros _. split; [exists 0, JDirect; vm_compute; auto|reflexivity].
  - simpl. intros _. split; [exists 0, JDirect; vm_compute; auto|reflexivity].
Qed.
