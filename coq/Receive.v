(* C15: no byte string on any port panics a connection handler or a helper, provided the three regenerated
   constants have their repaired values (pinned in Props/C15.v). *)
From Coq Require Import List NArith Bool.
From HS Require Import Guards Codec Base64Defs Base64 WireDefs Wire ReceiveDefs.
Import ListNotations.
Open Scope N_scope.

Theorem consensus_dispatch_total frame : g_pk_decode_exact = true -> consensus_dispatch frame <> RPanicked.
Proof.
  intros E. unfold consensus_dispatch. rewrite E.
  pose proof (decode_cmsg_exact_no_panic frame) as H.
  destruct (decode_cmsg true frame) as [[b|v|t|t|d k]| |]; try discriminate; try contradiction.
Qed.
Theorem mempool_dispatch_total frame : g_pk_decode_exact = true -> mempool_dispatch frame <> RPanicked.
Proof.
  intros E. unfold mempool_dispatch. rewrite E.
  pose proof (decode_mmsg_exact_no_panic frame) as H.
  destruct (decode_mmsg true frame) as [[txs|ds k]| |]; try discriminate; try contradiction.
Qed.
Theorem tx_dispatch_total frame : tx_dispatch frame <> RPanicked.
Proof. discriminate. Qed.
(* whatever the shared store holds under the requested key -- a block, a batch, anything *)
Theorem helper_answer_total known stored :
  g_pk_decode_exact = true -> g_helper_deser_guarded = true -> helper_answer known stored <> HPanic.
Proof.
  intros E G. unfold helper_answer. rewrite E, G. destruct (negb known); [discriminate|].
  destruct stored as [v|]; [|discriminate].
  pose proof (decode_block_exact_no_panic v) as H.
  destruct (decode_block true v); try discriminate; try contradiction.
Qed.
(* a block the node stored itself is answered with exactly that block (C07 (i)) *)
Theorem helper_answers_stored_block exact b :
  wf_block b -> decode_block exact (w_enc_block b) = Ok b.
Proof. intros H. rewrite <- (app_nil_r (w_enc_block b)). exact (decode_block_rt exact b [] H). Qed.
(* a rejected frame closes the connection and routes nothing: nothing else in the node changes *)
Theorem consensus_dispatch_err frame : decode_cmsg g_pk_decode_exact frame = Err -> consensus_dispatch frame = RClose.
Proof. intros E. unfold consensus_dispatch. rewrite E. reflexivity. Qed.

(* on the tree as pinned (prefix slice, unwrapped deserialisation) the same models DO panic: witnesses *)
Definition short_key_sync_request : bytes :=
  le_bytes 4 4 ++ repeat 0 32 ++ le_bytes 8 4 ++ [65; 65; 61; 61].      (* SyncRequest(0.., key string "AA==") *)
Example pinned_short_key_panics : decode_cmsg false short_key_sync_request = Panic.
Proof. vm_compute. reflexivity. Qed.
Example repaired_short_key_rejected : decode_cmsg true short_key_sync_request = Err.
Proof. vm_compute. reflexivity. Qed.
Print Assumptions consensus_dispatch_total.
Print Assumptions helper_answer_total.
