(* C09 model: the round-robin leader of consensus/src/leader.rs over byte-string keys (definitions only). *)
From Coq Require Import List NArith Bool.
From HS Require Import Guards.
Import ListNotations.

Definition key := list N.   (* the 32 bytes of a public key *)

(* derived Ord on [u8; 32]: lexicographic *)
Fixpoint kleb (a b : key) : bool :=
  match a, b with
  | [], _ => true
  | _ :: _, [] => false
  | x :: xs, y :: ys => if N.ltb x y then true else if N.eqb x y then kleb xs ys else false
  end.

(* insertion sort stands for `keys.sort()` (any stable or unstable sort gives the same list when keys are distinct) *)
Fixpoint insert (k : key) (l : list key) : list key :=
  match l with [] => [k] | x :: r => if kleb k x then k :: l else x :: insert k r end.
Fixpoint sort (l : list key) : list key := match l with [] => [] | x :: r => insert x (sort r) end.

(* `keys[round as usize % self.committee.size()]`: the index expression is regenerated from leader.rs *)
Definition leader (keys : list key) (r : N) : key :=
  nth (N.to_nat (g_leader_index r (N.of_nat (length keys)))) (sort keys) [].
