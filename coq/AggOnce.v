(* C19: a QCMaker hands out a certificate at most once, whatever votes arrive in whatever order. *)
From Coq Require Import List NArith ZArith Lia Bool ZifyN ZifyBool.
From HS Require Import GTac Node Proto Link.
Import ListNotations.
Open Scope N_scope.

Section Once.
  Variable c : Committee.
  Hypothesis members_nodup : NoDup (members c).
  Notation stk := (stk c).

  Lemma stake_nonmember a : ~ In a (members c) -> stk a = 0.
  Proof.
    intros H. destruct (N.eq_dec (stk a) 0) as [E|E]; [exact E|].
    exfalso. apply H. apply stake_pos_member. exact E.
  Qed.

  Lemma wsum_le_total l : NoDup l -> wsum stk l <= total stk (members c).
  Proof.
    intros Hnd.
    rewrite (wsum_filter_split stk (fun x => existsb (N.eqb x) (members c)) l).
    assert (Z : wsum stk (filter (fun x => negb (existsb (N.eqb x) (members c))) l) = 0).
    { clear Hnd. induction l as [|x r IH]; simpl; auto.
      destruct (existsb (N.eqb x) (members c)) eqn:E; simpl; auto.
      rewrite IH, stake_nonmember; auto. intro Hin.
      assert (existsb (N.eqb x) (members c) = true) by (apply existsb_exists; exists x; split; auto; apply N.eqb_refl).
      congruence. }
    rewrite Z, N.add_0_r. apply wsum_incl_nodup.
    - apply NoDup_filter. exact Hnd.
    - intros x Hx. apply filter_In in Hx. destruct Hx as [_ Hx]. apply existsb_exists in Hx.
      destruct Hx as [y [Hy E]]. apply N.eqb_eq in E. subst. exact Hy.
  Qed.

  (* ghost: has this maker already produced? *)
  Definition MInv (produced : bool) (m : QCMaker) : Prop :=
    NoDup (map fst (qm_votes m)) /\ (forall a, In a (map fst (qm_votes m)) -> In a (qm_used m)) /\
    if produced then qm_weight m + Node.quorum c <= wsum stk (map fst (qm_votes m))
    else qm_weight m <= wsum stk (map fst (qm_votes m)).

  Definition produces (r : res (option QC)) : bool := match r with ROk (Some _) => true | _ => false end.

  Lemma append_once produced m v :
    0 < total_stake c ->
    MInv produced m ->
    let '(m', r) := qm_append c m v in
    MInv (produced || produces r) m' /\ (produced = true -> produces r = false).
  Proof.
    intros Hpos [A [B C]]. unfold qm_append. gunf.
    destruct (memN (v_author v) (qm_used m)) eqn:Em.
    { simpl. rewrite orb_false_r. split; [split; auto|reflexivity]. }
    assert (Hnin : ~ In (v_author v) (map fst (qm_votes m))).
    { intro Hin. apply B in Hin. apply memN_in in Hin. congruence. }
    set (votes' := qm_votes m ++ [(v_author v, v_sig v)]).
    assert (A' : NoDup (map fst votes')).
    { unfold votes'. rewrite map_app. simpl. apply NoDup_app_intro; auto.
      - constructor; [tauto|constructor].
      - intros x Hx [<-|[]]. contradiction. }
    assert (W' : wsum stk (map fst votes') = wsum stk (map fst (qm_votes m)) + stk (v_author v)).
    { unfold votes'. rewrite map_app, wsum_app. simpl. lia. }
    assert (B' : forall a, In a (map fst votes') -> In a (v_author v :: qm_used m)).
    { intros a Hin. unfold votes' in Hin. rewrite map_app in Hin. apply in_app_or in Hin.
      destruct Hin as [Hin|[<-|[]]]; [right; auto|left; reflexivity]. }
    assert (T := wsum_le_total _ A'). rewrite <- (total_agree c members_nodup) in T.
    assert (Q : 2 * Node.quorum c > total_stake c).
    { unfold Node.quorum. gunf. generalize (total_stake c). intros t.
      assert (H3 : 3 <> 0) by lia. pose proof (N.div_mod (2 * t) 3 H3). pose proof (N.mod_lt (2 * t) 3 H3). lia. }
    assert (K : wsum stk (map fst (qm_votes m)) + stk (v_author v) <= total_stake c) by (rewrite <- W'; exact T).
    unfold Link.stk in *. unfold votes' in *. clear votes'.
    destruct (Node.quorum c <=? qm_weight m + Node.stake c (v_author v)) eqn:Eq; simpl.
    - apply N.leb_le in Eq. destruct produced.
      + exfalso. lia.
      + split; [|discriminate]. split; [exact A'|]. split; [exact B'|]. simpl. unfold Link.stk. rewrite W'. lia.
    - rewrite orb_false_r. split; [|reflexivity]. split; [exact A'|]. split; [exact B'|].
      apply N.leb_gt in Eq. destruct produced; simpl; unfold Link.stk; rewrite W'; lia.
  Qed.

  (* fold of arbitrary votes through one maker: at most one certificate *)
  Fixpoint feed (m : QCMaker) (vs : list Vote) : list (res (option QC)) :=
    match vs with [] => [] | v :: r => let '(m', x) := qm_append c m v in x :: feed m' r end.

  Theorem c19_at_most_once vs :
    0 < total_stake c ->
    (length (filter produces (feed (mkQM 0 [] []) vs)) <= 1)%nat.
  Proof.
    intros Hpos.
    assert (G : forall vs produced m, MInv produced m ->
              (length (filter produces (feed m vs)) <= (if produced then 0 else 1))%nat).
    { induction vs0 as [|v r IH]; intros produced m HI; simpl; [destruct produced; lia|].
      pose proof (append_once produced m v Hpos HI) as S.
      destruct (qm_append c m v) as [m' x]. destruct S as [I' Hn]. simpl.
      specialize (IH _ _ I'). destruct produced; simpl in *.
      - rewrite (Hn eq_refl). exact IH.
      - destruct (produces x); simpl in *; lia. }
    apply (G vs false). split; [constructor|]. split; [intros a []|simpl; lia].
  Qed.
End Once.
Print Assumptions c19_at_most_once.
