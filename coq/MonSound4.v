(* Monitor soundness, part 4: the "well-formedness" invariant of the node model, which needs NO hypothesis on the
   events (forged, invalid or Byzantine messages included): every certificate the node holds or sends verifies, every
   block waiting anywhere inside the node passed the leader test, carries its author's signature and valid
   certificates, and its QC round is at most the node's high-QC round; aggregators hold verified, distinct entries;
   the high QC is below the round; every recorded vote has a QC round below the block's round and at most the high QC.
   Preserved by every handler ([step_wf]) together with: round and high-QC never decrease; every TC, Make and own
   proposal put out carries valid certificates. *)
From Coq Require Import List NArith Lia Bool.
From HS Require Import GTac Node Corr Monitors Proto Link Exact MonSoundDefs MonSound2.
Import ListNotations.
Open Scope N_scope.

Section Wf.
  Variable c : Committee. Variable me : N.
  Notation stk := (Node.stake c).

  Definition hq (s : State) : N := qc_round (s_high_qc s).
  Definition tcok (t : option TC) : Prop := match t with Some t => tc_okb c t = true | None => True end.
  Definition bokI (b : Block) : Prop :=
    b_author b = leader c (b_round b) /\ sig_ok (b_author b) (CBlock (block_digest b)) (b_sig b) = true /\
    qc_okb c (b_qc b) = true /\ tcok (b_tc b).
  Definition bok (s : State) (b : Block) : Prop := bokI b /\ qc_round (b_qc b) <= hq s.
  Definition qm_wf (r : N) (h : digest) (m : QCMaker) : Prop :=
    NoDup (map fst (qm_votes m)) /\ (forall a, In a (map fst (qm_votes m)) -> In a (qm_used m)) /\
    (forall a sg, In (a, sg) (qm_votes m) -> stk a <> 0 /\ sig_ok a (CVote h r) sg = true) /\
    qm_weight m <= wsum stk (map fst (qm_votes m)).
  Definition tm_auth (m : TCMaker) := map (fun x => fst (fst x)) (tm_votes m).
  Definition tm_wf (r : N) (m : TCMaker) : Prop :=
    NoDup (tm_auth m) /\ (forall a, In a (tm_auth m) -> In a (tm_used m)) /\
    (forall a sg q, In (a, sg, q) (tm_votes m) -> stk a <> 0 /\ sig_ok a (CTimeout r q) sg = true) /\
    tm_weight m <= wsum stk (tm_auth m).

  Record WfInv (s : State) : Prop := {
    wf_pace : hq s < s_round s;
    wf_hq : qc_okb c (s_high_qc s) = true;
    wf_loop : forall b, In b (s_loopback s) -> bok s b;
    wf_sync : forall b, In b (s_sync_pending s) -> bok s b;
    wf_pw : forall m b, In (m, b) (s_pw_pending s) -> bok s b;
    wf_store : forall d b, In (d, b) (s_store s) -> bok s b /\ block_digest b = d;
    wf_qcm : forall r h m, In ((r, h), m) (s_qcm s) -> qm_wf r h m;
    wf_tcm : forall r m, In (r, m) (s_tcm s) -> tm_wf r m;
    wf_hist : forall d q j, In (HVote d q j) (s_hist s) -> q < dround d /\ q <= hq s
  }.

  Definition mono (s s' : State) : Prop := s_round s <= s_round s' /\ hq s <= hq s'.
  Definition okout (s' : State) (o : Out) : Prop :=
    match o with
    | OTC tc => tc_okb c tc = true
    | OProposer (PMake r q t) => qc_okb c q = true /\ tcok t
    | OPropose b => b_author b = me /\ leader c (b_round b) = me /\ qc_okb c (b_qc b) = true /\ tcok (b_tc b) /\
                    qc_round (b_qc b) <= hq s'
    | _ => True
    end.
  Definition G (s s' : State) (o : list Out) : Prop := WfInv s' /\ mono s s' /\ Forall (okout s') o.
  Definition gat {A} (m : M A) (s : State) : Prop := match m s with (s', o, _) => G s s' o end.

  Lemma mono_refl s : mono s s. Proof. split; lia. Qed.
  Lemma mono_trans a b d : mono a b -> mono b d -> mono a d.
  Proof. intros [A1 A2] [B1 B2]. split; lia. Qed.
  Lemma bok_mono s s' b : mono s s' -> bok s b -> bok s' b.
  Proof. intros [_ M] [A B]. split; [exact A|lia]. Qed.
  Lemma okout_mono s s' o : mono s s' -> okout s o -> okout s' o.
  Proof.
    intros [_ M]. destruct o; simpl; auto.
    intros [A [B [C [D E]]]]. repeat split; auto. lia.
  Qed.
  Lemma G_refl s : WfInv s -> G s s [].
  Proof. intros H. split; [exact H|]. split; [apply mono_refl|constructor]. Qed.
  Lemma G_trans s s1 s2 o1 o2 : G s s1 o1 -> G s1 s2 o2 -> G s s2 (o1 ++ o2).
  Proof.
    intros [I1 [M1 F1]] [I2 [M2 F2]]. split; [exact I2|]. split; [eapply mono_trans; eauto|].
    apply Forall_app. split; [|exact F2].
    eapply Forall_impl; [|exact F1]. intros o. apply okout_mono. exact M2.
  Qed.

  Lemma gat_bind {A B} (m : M A) (k : A -> M B) s :
    gat m s -> (forall a s1 o1, m s = (s1, o1, ROk a) -> WfInv s1 -> mono s s1 -> gat (k a) s1) -> gat (bind m k) s.
  Proof.
    unfold gat, bind. intros Hm Hk. destruct (m s) as [[s1 o1] r1].
    destruct r1 as [a|e|n]; [|exact Hm|exact Hm].
    specialize (Hk a s1 o1 eq_refl (proj1 Hm) (proj1 (proj2 Hm))).
    destruct (k a s1) as [[s2 o2] r2]. eapply G_trans; eauto.
  Qed.
  Lemma gat_ret {A} (a : A) s : WfInv s -> gat (ret a) s.
  Proof. intros H. apply G_refl. exact H. Qed.
  Lemma gat_fail {A} e s : WfInv s -> gat (@fail A e) s.
  Proof. intros H. apply G_refl. exact H. Qed.
  Lemma gat_panic {A} n s : WfInv s -> gat (@panic A n) s.
  Proof. intros H. apply G_refl. exact H. Qed.
  Lemma gat_get s : WfInv s -> gat get s.
  Proof. intros H. apply G_refl. exact H. Qed.
  Lemma gat_lift {A} (r : res A) s : WfInv s -> gat (lift r) s.
  Proof. intros H. apply G_refl. exact H. Qed.
  Lemma gat_emit o s : WfInv s -> okout s o -> gat (emit o) s.
  Proof. intros H Ho. split; [exact H|]. split; [apply mono_refl|]. constructor; [exact Ho|constructor]. Qed.
  Lemma gat_modify f s : WfInv (f s) -> mono s (f s) -> gat (modify f) s.
  Proof. intros H M. split; [exact H|]. split; [exact M|constructor]. Qed.

  Lemma gat_get_bind {B} (k : State -> M B) s : gat (k s) s -> gat (bind get k) s.
  Proof. unfold gat, bind, get. destruct (k s s) as [[s2 o2] r2]. cbn [app]. auto. Qed.

  (* updates that touch none of the fields the invariant reads *)
  Lemma WfInv_frame s s' :
    WfInv s -> s_round s' = s_round s -> s_high_qc s' = s_high_qc s ->
    s_loopback s' = s_loopback s -> s_sync_pending s' = s_sync_pending s -> s_pw_pending s' = s_pw_pending s ->
    s_store s' = s_store s -> s_qcm s' = s_qcm s -> s_tcm s' = s_tcm s -> s_hist s' = s_hist s -> WfInv s'.
  Proof.
    intros H E1 E2 E3 E4 E5 E6 E7 E8 E9. destruct H.
    constructor; unfold bok, hq in *; rewrite ?E1, ?E2, ?E3, ?E4, ?E5, ?E6, ?E7, ?E8, ?E9; auto.
  Qed.
  Lemma gat_modify_frame f s :
    WfInv s -> s_round (f s) = s_round s -> s_high_qc (f s) = s_high_qc s ->
    s_loopback (f s) = s_loopback s -> s_sync_pending (f s) = s_sync_pending s -> s_pw_pending (f s) = s_pw_pending s ->
    s_store (f s) = s_store s -> s_qcm (f s) = s_qcm s -> s_tcm (f s) = s_tcm s -> s_hist (f s) = s_hist s ->
    gat (modify f) s.
  Proof.
    intros H E1 E2 E3 E4 E5 E6 E7 E8 E9. apply gat_modify.
    - eapply WfInv_frame; eauto.
    - unfold mono, hq. rewrite E1, E2. split; lia.
  Qed.

  (* ---------- certificates ---------- *)
  Lemma qc_okb_valid q : qc_valid c q -> qc_okb c q = true.
  Proof. intros H. unfold qc_okb. apply (qc_verify_exact c) in H. rewrite H. apply orb_true_r. Qed.
  Lemma tc_okb_valid t : tc_valid c t -> tc_okb c t = true.
  Proof. intros H. unfold tc_okb. apply (tc_verify_exact c) in H. rewrite H. reflexivity. Qed.
  Lemma qc_okb_part q : (if qc_eqb q qc_genesis then ROk tt else qc_verify c q) = ROk tt -> qc_okb c q = true.
  Proof. unfold qc_okb. destruct (qc_eqb q qc_genesis); [reflexivity|]. intros ->. reflexivity. Qed.
  Lemma tc_okb_verify t : tc_verify c t = ROk tt -> tc_okb c t = true.
  Proof. unfold tc_okb. intros ->. reflexivity. Qed.
  Lemma qc_okb_genesis : qc_okb c qc_genesis = true.
  Proof. reflexivity. Qed.

  Lemma block_verify_ok b :
    block_verify c b = ROk tt ->
    sig_ok (b_author b) (CBlock (block_digest b)) (b_sig b) = true /\ qc_okb c (b_qc b) = true /\ tcok (b_tc b).
  Proof.
    unfold block_verify. destruct (negb _); [discriminate|].
    destruct (sig_ok _ _ _); [|discriminate]. cbn [negb].
    destruct (if qc_eqb (b_qc b) qc_genesis then ROk tt else qc_verify c (b_qc b)) as [[]|e|k] eqn:E; try discriminate.
    intros H. split; [reflexivity|]. split; [apply qc_okb_part; exact E|].
    destruct (b_tc b); [apply tc_okb_verify; exact H|exact I].
  Qed.

  (* ---------- aggregators ---------- *)
  Lemma qm_empty_wf r h : qm_wf r h (mkQM 0 [] []).
  Proof. unfold qm_wf. simpl. split; [constructor|]. split; [tauto|]. split; [tauto|lia]. Qed.
  Lemma tm_empty_wf r : tm_wf r (mkTM 0 [] []).
  Proof. unfold tm_wf, tm_auth. simpl. split; [constructor|]. split; [tauto|]. split; [tauto|lia]. Qed.
  Lemma qcm_get_wf s r h : WfInv s -> qm_wf r h (qcm_get (r, h) (s_qcm s)).
  Proof.
    intros H. unfold qcm_get.
    destruct (find _ (s_qcm s)) as [[[r' h'] m]|] eqn:E; [|apply qm_empty_wf].
    apply find_some in E. destruct E as [Hin Hk]. simpl in Hk.
    apply andb_true_iff in Hk. destruct Hk as [K1 K2]. apply N.eqb_eq in K1. apply digest_eqb_eq in K2.
    subst. simpl. apply (wf_qcm s H). exact Hin.
  Qed.
  Lemma tcm_get_wf s r : WfInv s -> tm_wf r (tcm_get r (s_tcm s)).
  Proof.
    intros H. unfold tcm_get.
    destruct (find _ (s_tcm s)) as [[r' m]|] eqn:E; [|apply tm_empty_wf].
    apply find_some in E. destruct E as [Hin Hk]. simpl in Hk. apply N.eqb_eq in Hk. subst.
    simpl. apply (wf_tcm s H). exact Hin.
  Qed.

  Lemma qm_append_wf r h m v :
    qm_wf r h m -> v_hash v = h -> v_round v = r -> stk (v_author v) <> 0 ->
    sig_ok (v_author v) (CVote h r) (v_sig v) = true ->
    match qm_append c m v with
    | (m', res) =>
        qm_wf r h m' /\
        match res with
        | ROk (Some qc) => qc_valid c qc /\ qc_round qc = r
        | RPanic _ => False
        | _ => True
        end
    end.
  Proof.
    intros [A [B [C D]]] Eh Er Hs Hsig. unfold qm_append. gunf.
    destruct (memN (v_author v) (qm_used m)) eqn:Em; [split; [split; auto|exact I]|].
    assert (Hnin : ~ In (v_author v) (map fst (qm_votes m))).
    { intro Hin. apply B in Hin. apply memN_in in Hin. congruence. }
    set (votes' := qm_votes m ++ [(v_author v, v_sig v)]).
    assert (A' : NoDup (map fst votes')).
    { unfold votes'. rewrite map_app. simpl. apply NoDup_app_intro; auto.
      - constructor; [tauto|constructor].
      - intros x Hx [<-|[]]. contradiction. }
    assert (C' : forall a sg, In (a, sg) votes' -> stk a <> 0 /\ sig_ok a (CVote h r) sg = true).
    { intros a sg Hin. unfold votes' in Hin. apply in_app_or in Hin. destruct Hin as [Hin|[Hin|[]]]; [eauto|].
      inversion Hin; subst. auto. }
    assert (W' : wsum stk (map fst votes') = wsum stk (map fst (qm_votes m)) + stk (v_author v)).
    { unfold votes'. rewrite map_app, wsum_app. simpl. lia. }
    assert (B' : forall a, In a (map fst votes') -> In a (v_author v :: qm_used m)).
    { intros a Hin. unfold votes' in Hin. rewrite map_app in Hin. apply in_app_or in Hin.
      destruct Hin as [Hin|[<-|[]]]; [right; auto|left; reflexivity]. }
    destruct (Node.quorum c <=? qm_weight m + stk (v_author v)) eqn:Eq.
    - apply N.leb_le in Eq. split.
      + unfold qm_wf. simpl. fold votes'. split; [exact A'|]. split; [exact B'|]. split; [exact C'|lia].
      + simpl. split; [|exact Er]. unfold qc_valid. simpl. fold votes'.
        split; [exact A'|]. split; [|split; [lia|]].
        * intros a Ha. apply in_map_iff in Ha. destruct Ha as [[a' sg] [<- Hin]]. apply (C' _ _ Hin).
        * intros [a sg] Hin. simpl. rewrite Eh, Er. apply (C' _ _ Hin).
    - split; [|exact I]. apply N.leb_gt in Eq.
      unfold qm_wf. simpl. fold votes'. split; [exact A'|]. split; [exact B'|]. split; [exact C'|lia].
  Qed.

  Lemma tm_append_wf r m t :
    tm_wf r m -> t_round t = r -> stk (t_author t) <> 0 ->
    sig_ok (t_author t) (CTimeout r (qc_round (t_high_qc t))) (t_sig t) = true ->
    match tm_append c m t with
    | (m', res) =>
        tm_wf r m' /\
        match res with
        | ROk (Some tc) => tc_valid c tc /\ tc_round tc = r
        | RPanic _ => False
        | _ => True
        end
    end.
  Proof.
    intros [A [B [C D]]] Er Hs Hsig. unfold tm_append. gunf. unfold tm_auth in *.
    destruct (memN (t_author t) (tm_used m)) eqn:Em; [split; [split; auto|exact I]|].
    assert (Hnin : ~ In (t_author t) (map (fun x => fst (fst x)) (tm_votes m))).
    { intro Hin. apply B in Hin. apply memN_in in Hin. congruence. }
    set (votes' := tm_votes m ++ [(t_author t, t_sig t, qc_round (t_high_qc t))]).
    assert (A' : NoDup (map (fun x => fst (fst x)) votes')).
    { unfold votes'. rewrite map_app. simpl. apply NoDup_app_intro; auto.
      - constructor; [tauto|constructor].
      - intros x Hx [<-|[]]. contradiction. }
    assert (C' : forall a sg q, In (a, sg, q) votes' -> stk a <> 0 /\ sig_ok a (CTimeout r q) sg = true).
    { intros a sg q Hin. unfold votes' in Hin. apply in_app_or in Hin. destruct Hin as [Hin|[Hin|[]]]; [eauto|].
      inversion Hin; subst. auto. }
    assert (W' : wsum stk (map (fun x => fst (fst x)) votes') =
                 wsum stk (map (fun x => fst (fst x)) (tm_votes m)) + stk (t_author t)).
    { unfold votes'. rewrite map_app, wsum_app. simpl. lia. }
    assert (B' : forall a, In a (map (fun x => fst (fst x)) votes') -> In a (t_author t :: tm_used m)).
    { intros a Hin. unfold votes' in Hin. rewrite map_app in Hin. apply in_app_or in Hin.
      destruct Hin as [Hin|[<-|[]]]; [right; auto|left; reflexivity]. }
    destruct (Node.quorum c <=? tm_weight m + stk (t_author t)) eqn:Eq.
    - apply N.leb_le in Eq. split.
      + unfold tm_wf, tm_auth. simpl. fold votes'. split; [exact A'|]. split; [exact B'|]. split; [exact C'|lia].
      + simpl. split; [|exact Er]. unfold tc_valid. simpl. fold votes'.
        split; [exact A'|]. split; [|split; [lia|]].
        * intros a Ha. apply in_map_iff in Ha. destruct Ha as [[[a' sg] q] [<- Hin]]. apply (C' _ _ _ Hin).
        * intros a sg q Hin. rewrite Er. apply (C' _ _ _ Hin).
    - split; [|exact I]. apply N.leb_gt in Eq.
      unfold tm_wf, tm_auth. simpl. fold votes'. split; [exact A'|]. split; [exact B'|]. split; [exact C'|lia].
  Qed.

  (* ---------- the pacemaker pieces ---------- *)
  Lemma advance_round_wf r s :
    WfInv s ->
    match advance_round r s with
    | (s', o, res) => G s s' o /\ o = [] /\ res = ROk tt /\ r < s_round s' /\ s_high_qc s' = s_high_qc s
    end.
  Proof.
    intros H. unfold advance_round, bind, get, modify, ret. cbn [fst snd]. gunf.
    destruct (r <? s_round s) eqn:E; cbn [app].
    - apply N.ltb_lt in E. split; [apply G_refl; exact H|]. auto.
    - apply N.ltb_ge in E. split; [|cbn; repeat split; auto; lia].
      pose proof (wf_pace s H) as Hp.
      split; [|split; [unfold mono, hq; cbn; lia|constructor]].
      destruct H. constructor; unfold bok, hq in *; cbn; auto.
      + cbn in Hp. lia.
      + intros r' h m Hin. apply filter_In in Hin. apply wf_qcm0. apply Hin.
      + intros r' m Hin. apply filter_In in Hin. apply wf_tcm0. apply Hin.
  Qed.

  Lemma update_high_qc_wf q s :
    WfInv s -> qc_okb c q = true -> qc_round q < s_round s ->
    match update_high_qc q s with
    | (s', o, res) => G s s' o /\ o = [] /\ res = ROk tt /\ qc_round q <= hq s' /\ s_round s' = s_round s
    end.
  Proof.
    intros H Hq Hr. unfold update_high_qc, modify. gunf.
    destruct (qc_round (s_high_qc s) <? qc_round q) eqn:E.
    - apply N.ltb_lt in E. split; [|unfold hq; cbn; repeat split; auto; lia].
      split; [|split; [unfold mono, hq; cbn; lia|constructor]].
      destruct H. constructor; unfold bok, hq in *; cbn; auto.
      + intros b Hb. destruct (wf_loop0 b Hb). split; auto. lia.
      + intros b Hb. destruct (wf_sync0 b Hb). split; auto. lia.
      + intros m b Hb. destruct (wf_pw0 m b Hb). split; auto. lia.
      + intros d b Hb. destruct (wf_store0 d b Hb) as [[A B] C]. split; [split; auto; lia|exact C].
      + intros d q' j Hin. destruct (wf_hist0 d q' j Hin). split; auto. lia.
    - apply N.ltb_ge in E. split; [apply G_refl; exact H|]. unfold hq. repeat split; auto.
  Qed.

  Lemma process_qc_wf q s :
    WfInv s -> qc_okb c q = true ->
    match process_qc q s with
    | (s', o, res) => G s s' o /\ o = [] /\ res = ROk tt /\ qc_round q <= hq s' /\ qc_round q < s_round s'
    end.
  Proof.
    intros H Hq. unfold process_qc, bind.
    pose proof (advance_round_wf (qc_round q) s H) as A.
    destruct (advance_round (qc_round q) s) as [[s1 o1] r1]. destruct A as [G1 [-> [-> [R1 _]]]].
    pose proof (update_high_qc_wf q s1 (proj1 G1) Hq R1) as U.
    destruct (update_high_qc q s1) as [[s2 o2] r2]. destruct U as [G2 [-> [-> [Q2 R2]]]].
    split; [exact (G_trans _ _ _ _ _ G1 G2)|]. repeat split; auto. lia.
  Qed.
  Lemma gat_process_qc q s : WfInv s -> qc_okb c q = true -> gat (process_qc q) s.
  Proof. intros H Hq. pose proof (process_qc_wf q s H Hq) as P. unfold gat. destruct (process_qc q s) as [[s1 o1] r1]. apply P. Qed.
  Lemma gat_advance_round r s : WfInv s -> gat (advance_round r) s.
  Proof. intros H. pose proof (advance_round_wf r s H) as P. unfold gat. destruct (advance_round r s) as [[s1 o1] r1]. apply P. Qed.

  (* ---------- the proposer ---------- *)
  Lemma generate_proposal_wf hint tc s :
    WfInv s -> tcok tc -> me = leader c (s_round s) -> gat (generate_proposal me hint tc) s.
  Proof.
    intros H Ht Hl. unfold gat, generate_proposal, bind, get, emit, modify, ret. cbn [fst snd].
    pose proof (wf_hq s H) as Hq.
    set (pl := if same_set hint (s_buffer s) then hint else s_buffer s).
    set (b := mkBlock (s_high_qc s) tc me (s_round s) pl
                (SigOf me (CBlock (block_digest (mkBlock (s_high_qc s) tc me (s_round s) pl (SigJunk 0)))))).
    assert (Hb : bok s b).
    { split; [|unfold hq; cbn; lia]. split; [cbn; exact Hl|]. split.
      - change (sig_ok me (CBlock (block_digest b)) (SigOf me (CBlock (block_digest b))) = true).
        cbn [sig_ok content_eqb]. rewrite N.eqb_refl. apply digest_eqb_refl.
      - split; [exact Hq|exact Ht]. }
    assert (Ho : okout s (OPropose b)).
    { cbn. split; [reflexivity|]. split; [symmetry; exact Hl|]. split; [exact Hq|]. split; [exact Ht|unfold hq; lia]. }
    assert (Hm : okout s (OProposer (PMake (s_round s) (s_high_qc s) tc))) by (cbn; auto).
    assert (HI : WfInv (set_loopback (set_buffer (set_makes s (s_round s :: s_makes s)) []) (s_loopback s ++ [b]))).
    { destruct H. constructor; unfold bok, hq in *; cbn; auto.
      intros x Hx. apply in_app_or in Hx. destruct Hx as [Hx|[<-|[]]]; [apply wf_loop0; exact Hx|exact Hb]. }
    destruct (same_set hint (s_buffer s)); cbn [app].
    all: split; [exact HI|]; split; [unfold mono, hq; cbn; lia|].
    all: repeat (constructor; try exact Hm; try exact Ho; try exact I).
  Qed.
  Lemma maybe_propose_wf hint tc s :
    WfInv s -> tcok tc ->
    gat (s <- get ;; if me =? leader c (s_round s) then generate_proposal me hint tc else ret tt) s.
  Proof.
    intros H Ht. apply gat_get_bind.
    destruct (me =? leader c (s_round s)) eqn:El; [|apply gat_ret; exact H].
    apply N.eqb_eq in El. apply generate_proposal_wf; auto.
  Qed.
  Lemma proposer_cleanup_wf ds s : WfInv s -> gat (proposer_cleanup ds) s.
  Proof.
    intros H. unfold proposer_cleanup. apply gat_bind; [apply gat_emit; [exact H|exact I]|].
    intros _ s1 o1 _ H1 _. apply gat_modify_frame; auto.
  Qed.

  (* ---------- the synchronizer and the store ---------- *)
  Lemma WfInv_sync s p q :
    WfInv s -> (forall y, In y p -> In y (s_sync_pending s) \/ bok s y) -> WfInv (set_sync s p q).
  Proof.
    intros H Hp. destruct H. constructor; unfold bok, hq in *; cbn; auto.
    intros y Hy. destruct (Hp y Hy) as [A|A]; [apply wf_sync0; exact A|exact A].
  Qed.
  Lemma sync_park_wf b s : WfInv s -> bok s b -> gat (sync_park b) s.
  Proof.
    intros H Hb. unfold sync_park. apply gat_get_bind.
    destruct (existsb _ _); [apply gat_ret; exact H|]. cbv zeta.
    apply gat_bind.
    { apply gat_modify; [|unfold mono, hq; cbn; lia]. apply WfInv_sync; auto.
      intros y Hy. apply in_app_or in Hy. destruct Hy as [Hy|[<-|[]]]; auto. }
    intros _ s2 o2 _ H2 _. destruct (existsb _ _); [apply gat_ret; exact H2|].
    apply gat_bind; [|intros _ s3 o3 _ H3 _; apply gat_emit; [exact H3|exact I]].
    apply gat_modify; [|unfold mono, hq; cbn; lia]. apply WfInv_sync; auto.
  Qed.

  Lemma store_get_in' d st b : store_get d st = Some b -> In (d, b) st.
  Proof.
    induction st as [|[k v] st IH]; simpl; [discriminate|].
    destruct (digest_eqb d k) eqn:E.
    - intros H. inversion H; subst. apply digest_eqb_eq in E. subst. left. reflexivity.
    - intros H. right. auto.
  Qed.

  Definition pok (s : State) (b : Block) : Prop := b = block_genesis \/ bok s b.
  Lemma pok_mono s s' b : mono s s' -> pok s b -> pok s' b.
  Proof. intros M [A|A]; [left; exact A|right; eapply bok_mono; eauto]. Qed.

  Lemma get_parent_block_wf b s :
    WfInv s -> pok s b ->
    match get_parent_block b s with
    | (s', o, res) =>
        G s s' o /\
        forall p, res = ROk (Some p) ->
          s' = s /\ o = [] /\
          ((qc_eqb (b_qc b) qc_genesis = true /\ p = block_genesis) \/
           (In (qc_hash (b_qc b), p) (s_store s) /\ bok s p))
    end.
  Proof.
    intros H Hb. unfold get_parent_block.
    destruct (qc_eqb (b_qc b) qc_genesis) eqn:Eg.
    { unfold ret. split; [apply G_refl; exact H|]. intros p Hp. inversion Hp; subst. auto. }
    unfold bind at 1. unfold get at 1.
    destruct (store_get (qc_hash (b_qc b)) (s_store s)) as [p|] eqn:Es.
    { unfold ret. cbn [app]. split; [apply G_refl; exact H|]. intros p' Hp. inversion Hp; subst.
      apply store_get_in' in Es. split; [reflexivity|]. split; [reflexivity|]. right. split; [exact Es|].
      apply (wf_store s H _ _ Es). }
    assert (Hbk : bok s b).
    { destruct Hb as [->|Hb]; [discriminate|exact Hb]. }
    pose proof (sync_park_wf b s H Hbk) as P. unfold gat in P. unfold bind.
    destruct (sync_park b s) as [[s1 o1] r1]. cbn [app].
    destruct r1 as [[]|e|n]; unfold ret; rewrite ?app_nil_r; (split; [exact P|intros p Hp; discriminate]).
  Qed.

  Lemma store_block_wf b s : WfInv s -> bok s b -> gat (store_block b) s.
  Proof.
    intros H Hb. unfold store_block. apply gat_modify; [|unfold mono, hq; cbn; lia].
    destruct H. constructor; unfold bok, hq in *; cbn; auto.
    - intros x Hx. apply in_app_or in Hx. destruct Hx as [Hx|Hx]; [apply wf_loop0; exact Hx|].
      apply filter_In in Hx. apply wf_sync0. apply Hx.
    - intros x Hx. apply filter_In in Hx. apply wf_sync0. apply Hx.
    - intros d x [Hx|Hx]; [inversion Hx; subst; split; [exact Hb|reflexivity]|apply wf_store0; exact Hx].
  Qed.
  Lemma pw_cleanup_wf r s : WfInv s -> gat (pw_cleanup r) s.
  Proof.
    intros H. unfold pw_cleanup. apply gat_modify; [|unfold mono, hq; cbn; lia].
    destruct H. constructor; unfold bok, hq in *; cbn; auto.
    intros m b Hin. apply filter_In in Hin. eapply wf_pw0. apply Hin.
  Qed.

  (* ---------- commit ---------- *)
  Variable dq : DqCfg.

  Lemma commit_walk_wf lcr : forall fuel parent acc s,
    WfInv s -> pok s parent -> gat (commit_walk dq fuel lcr parent acc) s.
  Proof.
    induction fuel as [|f IH]; intros parent acc s H Hp; cbn [commit_walk]; [apply gat_panic; exact H|].
    destruct (g_commit_walk _ _); [|apply gat_ret; exact H].
    apply gat_bind.
    { pose proof (get_parent_block_wf parent s H Hp) as P. unfold gat.
      destruct (get_parent_block parent s) as [[s1 o1] r1]. apply P. }
    intros [anc|] s1 o1 E H1 M1; [|apply gat_panic; exact H1].
    pose proof (get_parent_block_wf parent s H Hp) as P. rewrite E in P. destruct P as [_ P].
    destruct (P anc eq_refl) as [-> [_ Hanc]].
    destruct (dq_stop _ _ _); [apply gat_ret; exact H|].
    apply IH; [exact H|]. destruct Hanc as [[_ ->]|[_ Hb]]; [left; reflexivity|right; exact Hb].
  Qed.
  Lemma deliver_all_wf l : forall s, WfInv s -> gat (deliver_all l) s.
  Proof.
    induction l as [|b l IH]; intros s H; cbn [deliver_all]; [apply gat_ret; exact H|].
    apply gat_bind; [apply gat_emit; [exact H|exact I]|]. intros _ s1 o1 _ H1 _.
    apply gat_bind; [apply gat_modify_frame; auto|]. intros _ s2 o2 _ H2 _. apply IH. exact H2.
  Qed.
  Lemma commit_wf b0 s : WfInv s -> pok s b0 -> gat (commit dq b0) s.
  Proof.
    intros H Hb. unfold commit. apply gat_get_bind.
    destruct (g_commit_skip _ _ _ _ _); [apply gat_ret; exact H|]. cbv zeta.
    apply gat_bind; [apply commit_walk_wf; auto|]. intros q s1 o1 _ H1 _.
    apply gat_bind; [apply gat_modify_frame; auto|]. intros _ s2 o2 _ H2 _. apply deliver_all_wf. exact H2.
  Qed.

  (* ---------- voting ---------- *)
  Lemma make_vote_wf x s :
    WfInv s -> bok s x -> b_round x = s_round s -> gat (make_vote me x) s.
  Proof.
    intros H [_ Hq] Hr. pose proof (wf_pace s H) as Hp.
    unfold make_vote, increase_last_voted. apply gat_get_bind. cbv zeta.
    apply gat_bind.
    { destruct (b_tc x); [|apply gat_ret; exact H]. destruct (list_max _); [apply gat_ret|apply gat_panic]; exact H. }
    intros r2 s1 o1 E H1 M1.
    assert (s1 = s) as ->.
    { destruct (b_tc x); [destruct (list_max _)|]; unfold ret, panic in E; inversion E; reflexivity. }
    destruct (negb _); [apply gat_ret; exact H|].
    apply gat_bind; [apply gat_modify_frame; auto|]. intros [] s2 o2 E2 H2 M2.
    unfold modify in E2. injection E2 as Es2 Eo2. subst s2 o2.
    apply gat_bind; [|intros _ s3 o3 _ H3 _; apply gat_ret; exact H3].
    apply gat_modify; [|unfold mono, hq; cbn; lia].
    destruct H2. constructor; unfold bok, hq in *; cbn in *; auto.
    intros d q j [Heq|Hin]; [|apply (wf_hist0 _ _ _ Hin)]. inversion Heq; subst. cbn. lia.
  Qed.

  Lemma handle_vote_wf hint v s : WfInv s -> gat (handle_vote c me hint v) s.
  Proof.
    intros H. unfold handle_vote. apply gat_get_bind.
    destruct (g_vote_stale _ _ _ _ _); [apply gat_ret; exact H|].
    apply gat_bind; [apply gat_lift; exact H|]. intros [] s1 o1 E H1 _.
    unfold lift in E. injection E as Es Eo Ev. subst s1 o1. clear H1.
    apply (vote_verify_exact c) in Ev. destruct Ev as [Hs Hsig]. cbv zeta.
    pose proof (qm_append_wf (v_round v) (v_hash v) _ v (qcm_get_wf s (v_round v) (v_hash v) H) eq_refl eq_refl Hs Hsig) as Q.
    destruct (qm_append c (qcm_get (v_round v, v_hash v) (s_qcm s)) v) as [m' r]. destruct Q as [Qw Qr].
    apply gat_bind.
    { apply gat_modify; [|unfold mono, hq; cbn; lia].
      destruct H. constructor; unfold bok, hq in *; cbn; auto.
      intros r' h' m0 [Hin|Hin]; [inversion Hin; subst; exact Qw|].
      apply filter_In in Hin. apply wf_qcm0. apply Hin. }
    intros _ s2 o2 _ H2 _.
    apply gat_bind; [apply gat_lift; exact H2|]. intros [qc|] s3 o3 E3 H3 _; [|apply gat_ret; exact H3].
    unfold lift in E3. injection E3 as Es3 Eo3 Er3. subst r. destruct Qr as [Qv _].
    apply gat_bind; [apply gat_process_qc; [exact H3|apply qc_okb_valid; exact Qv]|].
    intros _ s4 o4 _ H4 _. apply maybe_propose_wf; [exact H4|exact I].
  Qed.

  Lemma handle_timeout_wf hint t s : WfInv s -> gat (handle_timeout c me hint t) s.
  Proof.
    intros H. unfold handle_timeout. apply gat_get_bind.
    destruct (g_timeout_stale _ _ _ _ _); [apply gat_ret; exact H|].
    apply gat_bind; [apply gat_lift; exact H|]. intros [] s1 o1 E H1 _.
    unfold lift in E. injection E as Es Eo Ev. subst s1 o1. clear H1.
    apply (timeout_verify_exact c) in Ev. destruct Ev as [Hs [Hsig Hqc]].
    assert (Hq : qc_okb c (t_high_qc t) = true).
    { unfold qc_okb. destruct Hqc as [Hg|Hv]; [rewrite Hg; reflexivity|].
      apply (qc_verify_exact c) in Hv. rewrite Hv. apply orb_true_r. }
    apply gat_bind; [apply gat_process_qc; [exact H|exact Hq]|]. intros _ s2 o2 _ H2 _.
    apply gat_get_bind.
    pose proof (tm_append_wf (t_round t) _ t (tcm_get_wf s2 (t_round t) H2) eq_refl Hs Hsig) as Q.
    destruct (tm_append c (tcm_get (t_round t) (s_tcm s2)) t) as [m' r]. destruct Q as [Qw Qr].
    apply gat_bind.
    { apply gat_modify; [|unfold mono, hq; cbn; lia].
      destruct H2. constructor; unfold bok, hq in *; cbn; auto.
      intros r' m0 [Hin|Hin]; [inversion Hin; subst; exact Qw|].
      apply filter_In in Hin. apply wf_tcm0. apply Hin. }
    intros _ s3 o3 _ H3 _.
    apply gat_bind; [apply gat_lift; exact H3|]. intros [tc|] s4 o4 E4 H4 _; [|apply gat_ret; exact H4].
    unfold lift in E4. injection E4 as Es4 Eo4 Er4. subst r. destruct Qr as [Qv _]. apply tc_okb_valid in Qv.
    apply gat_bind; [apply gat_advance_round; exact H4|]. intros _ s5 o5 _ H5 _.
    apply gat_bind; [apply gat_emit; [exact H5|exact Qv]|]. intros _ s6 o6 _ H6 _.
    apply maybe_propose_wf; [exact H6|exact Qv].
  Qed.

  Lemma local_timeout_wf hint s : WfInv s -> gat (local_timeout c me hint) s.
  Proof.
    intros H. unfold local_timeout, increase_last_voted. apply gat_get_bind.
    apply gat_bind; [apply gat_modify_frame; auto|]. intros _ s1 o1 _ H1 _. cbv zeta.
    apply gat_bind.
    { apply gat_modify; [|unfold mono, hq; cbn; lia].
      destruct H1. constructor; unfold bok, hq in *; cbn; auto.
      intros d q j [Heq|Hin]; [discriminate|apply (wf_hist0 _ _ _ Hin)]. }
    intros _ s2 o2 _ H2 _.
    apply gat_bind; [apply gat_emit; [exact H2|exact I]|]. intros _ s3 o3 _ H3 _.
    apply handle_timeout_wf. exact H3.
  Qed.

  Lemma handle_tc_wf hint tc s : WfInv s -> gat (handle_tc c me hint tc) s.
  Proof.
    intros H. unfold handle_tc.
    apply gat_bind; [apply gat_lift; exact H|]. intros [] s1 o1 E H1 _.
    unfold lift in E. injection E as Es Eo Ev. subst s1 o1. clear H1. apply tc_okb_verify in Ev.
    apply gat_get_bind. destruct (g_tc_stale _ _ _ _ _); [apply gat_ret; exact H|].
    apply gat_bind; [apply gat_advance_round; exact H|]. intros _ s2 o2 _ H3 _.
    apply maybe_propose_wf; [exact H3|exact Ev].
  Qed.

  (* ---------- mempool driver ---------- *)
  Lemma mempool_verify_wf b s : WfInv s -> bok s b -> gat (mempool_verify b) s.
  Proof.
    intros H Hb. unfold mempool_verify. apply gat_get_bind. cbv zeta.
    destruct (filter _ _); [apply gat_ret; exact H|].
    apply gat_bind; [apply gat_emit; [exact H|exact I]|]. intros [] s1 o1 E1 H1 M1.
    unfold emit in E1. injection E1 as Es1 Eo1. subst s1 o1.
    apply gat_bind; [|intros _ s2 o2 _ H2 _; apply gat_ret; exact H2].
    destruct (existsb _ _); [apply gat_ret; exact H|].
    apply gat_modify; [|unfold mono, hq; cbn; lia].
    destruct H. constructor; unfold bok, hq in *; cbn; auto.
    intros m x Hin. apply in_app_or in Hin. destruct Hin as [Hin|[Hin|[]]]; [eapply wf_pw0; eauto|].
    inversion Hin; subst. exact Hb.
  Qed.
  Lemma batch_stored_wf d s : WfInv s -> gat (batch_stored d) s.
  Proof.
    intros H. unfold batch_stored. apply gat_modify; [|unfold mono, hq; cbn; lia].
    assert (Hsub : forall (l : list N * Block -> bool) m b,
               In (m, b) (filter l (map (fun e : list N * Block => (filter (fun x => negb (x =? d)) (fst e), snd e)) (s_pw_pending s))) ->
               bok s b).
    { intros l m b Hin. apply filter_In in Hin. destruct Hin as [Hin _]. apply in_map_iff in Hin.
      destruct Hin as [[m0 b0] [Heq Hin]]. simpl in Heq. inversion Heq; subst. eapply (wf_pw s H); eauto. }
    destruct H. constructor; unfold bok, hq in *; cbn; auto.
    - intros b Hb. apply in_app_or in Hb. destruct Hb as [Hb|Hb]; [apply wf_loop0; exact Hb|].
      apply in_map_iff in Hb. destruct Hb as [[m b'] [<- Hin]]. simpl. eapply Hsub; eauto.
    - intros m b Hin. eapply Hsub; eauto.
  Qed.

  (* ---------- process_block, proposals, the step function ---------- *)
  Lemma process_block_wf hint x s : WfInv s -> bok s x -> gat (process_block c me dq hint x) s.
  Proof.
    intros H Hx. unfold process_block.
    pose proof (get_parent_block_wf x s H (or_intror Hx)) as P1.
    apply gat_bind; [unfold gat; destruct (get_parent_block x s) as [[s1 o1] r1]; apply P1|].
    intros [b1|] s1 o1 E H1 M1; [|apply gat_ret; exact H1].
    rewrite E in P1. destruct P1 as [_ P1]. destruct (P1 b1 eq_refl) as [-> [_ Hb1]]. clear E H1 M1 P1.
    assert (Hp1 : pok s b1) by (destruct Hb1 as [[_ ->]|[_ Hb]]; [left; reflexivity|right; exact Hb]).
    pose proof (get_parent_block_wf b1 s H Hp1) as P0.
    apply gat_bind; [unfold gat; destruct (get_parent_block b1 s) as [[sa oa] ra]; apply P0|].
    intros [b0|] s2 o2 E H2 M2; [|apply gat_panic; exact H2].
    rewrite E in P0. destruct P0 as [_ P0]. destruct (P0 b0 eq_refl) as [-> [_ Hb0]]. clear E H2 M2 P0.
    assert (Hp0 : pok s b0) by (destruct Hb0 as [[_ ->]|[_ Hb]]; [left; reflexivity|right; exact Hb]).
    apply gat_bind; [apply store_block_wf; auto|]. intros [] s3 o3 _ H3 M3.
    apply gat_bind; [apply proposer_cleanup_wf; auto|]. intros [] s4 o4 _ H4 M4.
    assert (M04 : mono s s4) by (eapply mono_trans; eauto).
    apply gat_bind.
    { destruct (g_two_chain _ _ _); [|apply gat_ret; exact H4].
      apply gat_bind; [apply gat_emit; [exact H4|exact I]|]. intros [] s5 o5 _ H5 M5.
      apply gat_bind; [apply pw_cleanup_wf; exact H5|]. intros [] s6 o6 _ H6 M6.
      apply commit_wf; [exact H6|].
      eapply pok_mono; [|exact Hp0]. eapply mono_trans; [exact M04|]. eapply mono_trans; eauto. }
    intros [] s7 o7 _ H7 M7.
    assert (M07 : mono s s7) by (eapply mono_trans; eauto).
    apply gat_get_bind.
    destruct (g_round_gate _ _ _ _ _ _) eqn:Eg; [apply gat_ret; exact H7|].
    unfold g_round_gate in Eg. apply negb_false_iff in Eg. apply N.eqb_eq in Eg.
    apply gat_bind; [apply make_vote_wf; [exact H7|eapply bok_mono; eauto|exact Eg]|].
    intros [v|] s8 o8 _ H8 _; [|apply gat_ret; exact H8].
    cbv zeta. destruct (_ =? me); [apply handle_vote_wf; exact H8|apply gat_emit; [exact H8|exact I]].
  Qed.

  Lemma handle_proposal_wf hint b s : WfInv s -> gat (handle_proposal c me dq hint b) s.
  Proof.
    intros H. unfold handle_proposal.
    destruct (b_author b =? leader c (b_round b)) eqn:El.
    2:{ apply gat_bind; [apply gat_fail; exact H|]. intros a s1 o1 E. unfold fail in E. discriminate. }
    apply N.eqb_eq in El.
    apply gat_bind; [apply gat_ret; exact H|]. intros [] s1 o1 _ H1 _.
    apply gat_bind; [apply gat_lift; exact H1|]. intros [] s2 o2 E2 H2 _.
    unfold lift in E2. injection E2 as Es Eo Ev. subst s2 o2.
    destruct (block_verify_ok b Ev) as [Hsig [Hq Ht]].
    pose proof (process_qc_wf (b_qc b) s1 H1 Hq) as P.
    apply gat_bind; [unfold gat; destruct (process_qc (b_qc b) s1) as [[s3 o3] r3]; apply P|].
    intros [] s3 o3 E3 H3 M3. rewrite E3 in P. destruct P as [_ [_ [_ [Pq _]]]].
    apply gat_bind; [destruct (b_tc b); [apply gat_advance_round|apply gat_ret]; exact H3|].
    intros [] s4 o4 _ H4 M4.
    assert (Hb : bok s4 b).
    { split; [split; [exact El|]; split; [exact Hsig|]; split; [exact Hq|exact Ht]|]. destruct M4 as [_ M4]. lia. }
    apply gat_bind; [apply mempool_verify_wf; auto|]. intros ok s5 o5 _ H5 M5.
    destruct ok; [|apply gat_ret; exact H5].
    apply process_block_wf; [exact H5|]. eapply bok_mono; eauto.
  Qed.

  Lemma remove_first_sub' b l x r : remove_first b l = Some (x, r) -> In x l /\ (forall y, In y r -> In y l).
  Proof.
    revert x r. induction l as [|z zs IH]; simpl; intros x r Hr; [discriminate|].
    destruct (block_eqb b z).
    - inversion Hr; subst. split; [left; reflexivity|intros y Hy; right; exact Hy].
    - destruct (remove_first b zs) as [[y r']|] eqn:E; [|discriminate].
      inversion Hr; subst. destruct (IH _ _ eq_refl) as [A B]. split; [right; exact A|].
      intros y' [<-|Hy]; [left; reflexivity|right; apply B; exact Hy].
  Qed.

  (* every event, every hint, every state satisfying the invariant: no hypothesis on the event at all *)
  Theorem step_wf hint e s : WfInv s -> gat (step c me dq hint e) s.
  Proof.
    intros H. destruct e as [b|v|t|tc|b| |d|d| ]; cbn [step].
    - apply handle_proposal_wf; exact H.
    - apply handle_vote_wf; exact H.
    - apply handle_timeout_wf; exact H.
    - apply handle_tc_wf; exact H.
    - apply gat_get_bind.
      destruct (remove_first b (s_loopback s)) as [[x l]|] eqn:Er; [|apply gat_emit; [exact H|exact I]].
      destruct (remove_first_sub' _ _ _ _ Er) as [Hx Hl].
      apply gat_bind.
      { apply gat_modify; [|unfold mono, hq; cbn; lia].
        destruct H. constructor; unfold bok, hq in *; cbn; auto. }
      intros [] s1 o1 _ H1 M1. apply process_block_wf; [exact H1|].
      eapply bok_mono; [exact M1|]. apply (wf_loop s H). exact Hx.
    - apply local_timeout_wf; exact H.
    - apply batch_stored_wf; exact H.
    - apply gat_modify; cbv beta; destruct (memN d (s_buffer s)); try apply mono_refl; try exact H.
      + eapply WfInv_frame; eauto.
      + unfold mono, hq; cbn; lia.
    - apply maybe_propose_wf; [exact H|exact I].
  Qed.

  Lemma WfInv_init : WfInv (init c).
  Proof.
    constructor; unfold hq; cbn; try (intros; contradiction); try lia; try reflexivity.
  Qed.
End Wf.
Print Assumptions step_wf.
