(* C10 "evidence": a node's current round is 1 or is justified by a QC or a TC of the immediately preceding
   round that is valid in the world of recorded honest votes / timeouts.  Node level: the invariant [PaceInv]
   and its preservation by every handler (the ten-field invariant [Inv] of NodeInv.v is a hypothesis, its
   preservation lemmas are reused, not re-proved). *)
From Coq Require Import List NArith Lia Bool ZifyN ZifyBool.
From HS Require Import GTac Node Proto Link NodeInv.
Import ListNotations.
Open Scope N_scope.

Section Pace.
  Variable c : Committee.
  Variable me : N.
  Variable honest : N -> bool.
  Hypothesis members_nodup : NoDup (members c).
  Hypothesis me_honest : honest me = true.
  Variable w0 : world.
  Notation stk := (stk c).
  Notation mem := (members c).
  Hypothesis byz_bound : 3 * byz_stake stk mem honest < total stk mem.
  Notation Inv := (Inv c me honest w0).
  Notation vetted := (vetted c me honest w0).
  Notation Cert := (Cert c me honest w0).
  Notation VTC := (VTC c me honest w0).
  Notation qc_good := (qc_good c me honest w0).
  Notation tc_good := (tc_good c me honest w0).
  Local Notation "'$' lemma" := (lemma c me honest members_nodup me_honest w0 byz_bound) (at level 0, lemma at level 0).

  (* a certificate of round [r], valid in the node's current world *)
  Definition evid (s : State) (r : N) : Prop :=
    (exists h, Cert s h r) \/ (exists es, VTC s r es).

  (* the current round is the initial one, or there is evidence for the round just before it *)
  Definition PaceInv (s : State) : Prop := s_round s = 1 \/ evid s (s_round s - 1).

  Lemma hist_ext_eq s s' : s_hist s' = s_hist s -> hist_ext s s'.
  Proof. intros E. exists []. exact E. Qed.

  Lemma evid_ext s s' r : hist_ext s s' -> evid s r -> evid s' r.
  Proof.
    intros He [[h Hc]|[es Hv]].
    - left. exists h. eapply ($Cert_mono); eauto.
    - right. exists es. eapply ($VTC_mono); eauto.
  Qed.

  Lemma PaceInv_keep s s' : PaceInv s -> s_round s' = s_round s -> hist_ext s s' -> PaceInv s'.
  Proof.
    intros [A|A] E He; [left; congruence|right]. rewrite E. eapply evid_ext; eauto.
  Qed.

  Lemma qc_good_evid s q : Inv s -> qc_good s q -> s_round s <= qc_round q -> evid s (qc_round q).
  Proof.
    intros H [[_ E]|C] Hr.
    - destruct (i_pace _ _ _ _ _ H) as [Hp _]. lia.
    - left. exists (qc_hash q). exact C.
  Qed.

  Lemma tc_good_evid s tc : tc_good s (Some tc) -> evid s (tc_round tc).
  Proof. intros [G _]. right. exists (tc_entries tc). exact G. Qed.

  (* the only place where the round changes: [advance_round r] moves to r+1, and r must carry evidence *)
  Lemma advance_round_pace r s :
    PaceInv s -> (s_round s <= r -> evid s r) -> PaceInv (st (advance_round r s)).
  Proof.
    intros HP He. unfold advance_round, bind, get, modify, ret, st. simpl. gunf.
    destruct (r <? s_round s) eqn:E; simpl; [exact HP|].
    apply N.ltb_ge in E. right. simpl. rewrite N.add_sub.
    eapply evid_ext; [|exact (He E)]. exists []. reflexivity.
  Qed.

  Lemma process_qc_pace q s :
    Inv s -> PaceInv s -> qc_good s q -> PaceInv (st (process_qc q s)).
  Proof.
    intros H HP Hg. unfold process_qc. unfold bind.
    pose proof (advance_round_pace (qc_round q) s HP (qc_good_evid s q H Hg)) as A.
    pose proof ($advance_round_inv (qc_round q) s H) as B.
    destruct (advance_round (qc_round q) s) as [[s1 o1] r1]. unfold st in A; simpl in A.
    destruct B as [I1 [L1 [-> [R1 _]]]].
    assert (Hg1 : qc_good s1 q) by (eapply ($qc_good_sle); eauto).
    pose proof ($update_high_qc_inv q s1 I1 Hg1 R1) as U.
    destruct (update_high_qc q s1) as [[s2 o2] r2].
    destruct U as [_ [_ [_ [_ [U1 [U2 _]]]]]].
    unfold st; simpl. eapply PaceInv_keep; [exact A|exact U1|apply hist_ext_eq; exact U2].
  Qed.

  Lemma sle_tr a b d : sle a b -> sle b d -> sle a d.
  Proof.
    intros [[p1 H1] [H2 H3]] [[p2 H4] [H5 H6]]. split; [|lia].
    exists (p2 ++ p1). rewrite H4, H1. apply app_assoc.
  Qed.

  Lemma generate_proposal_pace hint tc s :
    Inv s -> PaceInv s -> tc_good s tc -> PaceInv (st (generate_proposal me hint tc s)).
  Proof.
    intros H HP Ht.
    pose proof ($generate_proposal_inv hint tc s H Ht) as G.
    destruct (generate_proposal me hint tc s) as [[s1 o1] r1].
    destruct G as [_ [_ [_ [G1 [_ [G2 _]]]]]].
    unfold st; simpl. eapply PaceInv_keep; [exact HP|exact G2|apply hist_ext_eq; exact G1].
  Qed.

  Lemma handle_vote_pace hint v s :
    Inv s -> PaceInv s -> sig_adm honest (cw me w0 s) (v_sig v) ->
    PaceInv (st (handle_vote c me hint v s)).
  Proof.
    intros H HM Hadm. unfold handle_vote. unfold bind at 1. unfold get at 1. gunf.
    destruct (v_round v <? s_round s) eqn:Est; [exact HM|]. apply N.ltb_ge in Est.
    unfold bind at 1. unfold lift at 1.
    destruct (vote_verify c v) as [[]|e|k] eqn:Ev; [|exact HM|exact HM].
    unfold vote_verify in Ev.
    gunf; destruct (0 <? Node.stake c (v_author v)) eqn:Es; [|discriminate]; apply N.ltb_lt in Es; apply N.neq_0_lt_0 in Es; cbn [negb] in *.
    destruct (sig_ok (v_author v) (CVote (v_hash v) (v_round v)) (v_sig v)) eqn:Esig; [|discriminate].
    apply sig_ok_inv in Esig. destruct Esig as [ct' [Esg Hct]].
    assert (Hv : honest (v_author v) = true ->
                 voted (cw me w0 s) (v_author v) (v_hash v) /\ dround (v_hash v) = v_round v).
    { rewrite Esg in Hadm. destruct ct' as [d|h r|r hq]; simpl in Hct; try discriminate.
      apply andb_true_iff in Hct. destruct Hct as [Hd Hr]. apply digest_eqb_eq in Hd. apply N.eqb_eq in Hr.
      subst h r. exact Hadm. }
    pose proof ($qm_append_ok s (v_round v) (v_hash v) _ v ($qcm_get_ok s (v_round v) (v_hash v) H)
                  eq_refl eq_refl Es Hv) as Q.
    destruct (qm_append c (qcm_get (v_round v, v_hash v) (s_qcm s)) v) as [m' r] eqn:Eqa.
    destruct Q as [Qok Qres].
    unfold bind at 1. unfold modify at 1.
    set (s1 := set_qcm s (qcm_put (v_round v, v_hash v) m' (s_qcm s))).
    assert (I1 : Inv s1) by (apply ($Inv_qcm_put); auto).
    assert (M1 : PaceInv s1) by exact HM.
    unfold bind at 1. unfold lift at 1.
    destruct r as [[qc|]|e|k]; [|exact M1|exact M1|contradiction].
    destruct Qres as [Qh [Qr Qc]].
    (* the assembled QC is certified in the node's world: it is the evidence if the round moves *)
    assert (Hg : qc_good s1 qc).
    { right. rewrite Qh, Qr. exact Qc. }
    unfold bind at 1.
    pose proof ($process_qc_inv qc s1 I1 Hg) as P. pose proof (process_qc_pace qc s1 I1 M1 Hg) as K.
    destruct (process_qc qc s1) as [[s2 o2] r2]. unfold st in K; simpl in K.
    destruct P as [I2 [_ [-> _]]].
    unfold bind at 1. unfold get at 1.
    destruct (me =? leader c (s_round s2)); [|exact K].
    pose proof (generate_proposal_pace hint None s2 I2 K I) as G.
    destruct (generate_proposal me hint None s2) as [[s3 o3] r3]. exact G.
  Qed.

  Lemma handle_timeout_pace hint t s :
    Inv s -> PaceInv s -> sig_adm honest (cw me w0 s) (t_sig t) -> qc_sound c me honest w0 s (t_high_qc t) ->
    PaceInv (st (handle_timeout c me hint t s)).
  Proof.
    intros H HM Hadm Hsound. unfold handle_timeout. unfold bind at 1. unfold get at 1. gunf.
    destruct (t_round t <? s_round s) eqn:Est; [exact HM|]. apply N.ltb_ge in Est.
    unfold bind at 1. unfold lift at 1.
    destruct (timeout_verify c t) as [[]|e|k] eqn:Ev; [|exact HM|exact HM].
    unfold timeout_verify in Ev.
    gunf; destruct (0 <? Node.stake c (t_author t)) eqn:Es; [|discriminate]; apply N.ltb_lt in Es; apply N.neq_0_lt_0 in Es; cbn [negb] in *.
    destruct (sig_ok (t_author t) (CTimeout (t_round t) (qc_round (t_high_qc t))) (t_sig t)) eqn:Esig; [|discriminate].
    simpl in Ev.
    assert (Hg : qc_good s (t_high_qc t)) by (apply ($qc_good_of_verify); auto).
    apply sig_ok_inv in Esig. destruct Esig as [ct' [Esg Hct]].
    assert (Hv : honest (t_author t) = true ->
                 In (HTimeout (t_round t) (qc_round (t_high_qc t))) (cw me w0 s (t_author t))).
    { rewrite Esg in Hadm. destruct ct' as [d|h r|r hq]; simpl in Hct; try discriminate.
      apply andb_true_iff in Hct. destruct Hct as [Hr Hq]. apply N.eqb_eq in Hr. apply N.eqb_eq in Hq.
      subst r hq. exact Hadm. }
    unfold bind at 1.
    pose proof ($process_qc_inv (t_high_qc t) s H Hg) as P. pose proof (process_qc_pace (t_high_qc t) s H HM Hg) as M1.
    destruct (process_qc (t_high_qc t) s) as [[s1 o1] r1]. unfold st in M1; simpl in M1.
    destruct P as [I1 [L1 [-> _]]].
    unfold bind at 1. unfold get at 1.
    assert (Hv1 : honest (t_author t) = true ->
                  In (HTimeout (t_round t) (qc_round (t_high_qc t))) (cw me w0 s1 (t_author t))).
    { intros Hh. destruct L1 as [He _]. apply (($cw_wle) _ _ He). auto. }
    pose proof ($tm_append_ok s1 (t_round t) _ t ($tcm_get_ok s1 (t_round t) I1) eq_refl Es Hv1) as Q.
    destruct (tm_append c (tcm_get (t_round t) (s_tcm s1)) t) as [m' r] eqn:Eqa.
    destruct Q as [Qok Qres].
    unfold bind at 1. unfold modify at 1.
    set (s2 := set_tcm s1 (tcm_put (t_round t) m' (s_tcm s1))).
    assert (I2 : Inv s2) by (apply ($Inv_tcm_put); auto).
    assert (M2 : PaceInv s2) by exact M1.
    unfold bind at 1. unfold lift at 1.
    destruct r as [[tc|]|e|k]; [|exact M2|exact M2|contradiction].
    destruct Qres as [Qr Qg].
    (* the assembled TC is valid in the node's world: it is the evidence if the round moves *)
    assert (Hg2 : tc_good s2 (Some tc)) by exact Qg.
    unfold bind at 1.
    pose proof ($advance_round_inv (tc_round tc) s2 I2) as A.
    pose proof (advance_round_pace (tc_round tc) s2 M2 (fun _ => tc_good_evid s2 tc Hg2)) as M3.
    destruct (advance_round (tc_round tc) s2) as [[s3 o3] r3]. unfold st in M3; simpl in M3.
    destruct A as [I3 [L3 [-> _]]].
    unfold bind at 1. unfold emit at 1. unfold bind at 1. unfold get at 1.
    destruct (me =? leader c (s_round s3)); [|exact M3].
    assert (Hg3 : tc_good s3 (Some tc)) by (eapply ($tc_good_sle); eauto).
    pose proof (generate_proposal_pace hint (Some tc) s3 I3 M3 Hg3) as G.
    destruct (generate_proposal me hint (Some tc) s3) as [[s4 o4] r4]. exact G.
  Qed.

  Lemma handle_tc_pace hint tc s :
    Inv s -> PaceInv s -> tc_sound c me honest w0 s tc -> PaceInv (st (handle_tc c me hint tc s)).
  Proof.
    intros H HM Hs. unfold handle_tc. unfold bind at 1. unfold lift at 1.
    destruct (tc_verify c tc) as [[]|e|k] eqn:Ev; [|exact HM|exact HM].
    assert (Hg : tc_good s (Some tc)) by (apply Hs; exact Ev).
    unfold bind at 1. unfold get at 1. gunf.
    destruct (tc_round tc <? s_round s) eqn:Est; [exact HM|]. apply N.ltb_ge in Est.
    unfold bind at 1.
    pose proof ($advance_round_inv (tc_round tc) s H) as A.
    pose proof (advance_round_pace (tc_round tc) s HM (fun _ => tc_good_evid s tc Hg)) as M1.
    destruct (advance_round (tc_round tc) s) as [[s1 o1] r1]. unfold st in M1; simpl in M1.
    destruct A as [I1 [L1 [-> _]]].
    unfold bind at 1. unfold get at 1.
    destruct (me =? leader c (s_round s1)); [|exact M1].
    assert (Hg1 : tc_good s1 (Some tc)) by (eapply ($tc_good_sle); eauto).
    pose proof (generate_proposal_pace hint (Some tc) s1 I1 M1 Hg1) as G.
    destruct (generate_proposal me hint (Some tc) s1) as [[s2 o2] r2]. exact G.
  Qed.

  Lemma local_timeout_pace hint s :
    Inv s -> PaceInv s -> PaceInv (st (local_timeout c me hint s)).
  Proof.
    intros H HM. unfold local_timeout. unfold bind at 1. unfold get at 1.
    unfold bind at 1. unfold increase_last_voted at 1. unfold modify at 1.
    unfold bind at 1. unfold modify at 1. unfold bind at 1. unfold emit at 1. simpl.
    match goal with |- context [handle_timeout c me hint ?T ?S] => set (t := T); set (s2 := S) end.
    assert (Hp := i_pace _ _ _ _ _ H).
    assert (I2 : Inv s2).
    { eapply ($Inv_hist_update s s2 (HTimeout (s_round s) (qc_round (s_high_qc s)))); try reflexivity; eauto; simpl; try lia.
      - constructor.
        + eapply hist_ok_mono; [|apply (i_hist _ _ _ _ _ H)]. apply ($cw_wle). eexists [_]. reflexivity.
        + intros d q j Hin. eapply (i_hist_hq _ _ _ _ _ H); eauto.
      - intros d q j Heq. discriminate. }
    assert (M2 : PaceInv s2).
    { eapply PaceInv_keep; [exact HM|reflexivity|]. eexists [_]. reflexivity. }
    assert (Hadm : sig_adm honest (cw me w0 s2) (t_sig t)).
    { simpl. intros _. unfold cw, upd. rewrite N.eqb_refl. simpl. left. reflexivity. }
    assert (Hs : qc_sound c me honest w0 s2 (t_high_qc t)).
    { intros _. simpl. eapply ($qc_good_sle); [apply (i_hq _ _ _ _ _ H)|].
      split; [eexists [_]; reflexivity|simpl; lia]. }
    pose proof (handle_timeout_pace hint t s2 I2 M2 Hadm Hs) as T.
    destruct (handle_timeout c me hint t s2) as [[s3 o3] r3]. exact T.
  Qed.

  Lemma process_block_pace hint b s :
    Inv s -> PaceInv s -> vetted s b -> PaceInv (st (process_block c me src_dq hint b s)).
  Proof.
    intros H HM Hv.
    unfold process_block. gunf. unfold bind at 1.
    pose proof ($get_parent_block_inv b s H Hv) as G.
    destruct (get_parent_block b s) as [[s1 o1] r1].
    destruct G as [I1 [L1 [E1 [_ [E3 [_ [_ G]]]]]]].
    destruct r1 as [[b1|]|e|k]; try contradiction.
    2:{ unfold ret, st. simpl. eapply PaceInv_keep; [exact HM|exact E3|apply hist_ext_eq; exact E1]. }
    destruct G as [-> G1]. clear I1 L1 E1 E3.
    assert (Hv1 : vetted s b1).
    { destruct G1 as [[_ ->]|G1]; [apply ($vetted_genesis)|].
      apply (i_flight _ _ _ _ _ H). right. right. right. apply in_map_iff. exists (qc_hash (b_qc b), b1). auto. }
    unfold bind at 1.
    pose proof ($get_parent_block_inv b1 s H Hv1) as G.
    destruct (get_parent_block b1 s) as [[s2 o2] r2].
    destruct G as [I2 [L2 [E1 [_ [E3 [_ [_ G]]]]]]].
    destruct r2 as [[b0|]|e|k]; try contradiction.
    2:{ unfold panic, st. simpl. eapply PaceInv_keep; [exact HM|exact E3|apply hist_ext_eq; exact E1]. }
    destruct G as [-> G0]. clear I2 L2 E1 E3.
    assert (Hv0 : vetted s b0).
    { destruct G0 as [[_ ->]|G0]; [apply ($vetted_genesis)|].
      apply (i_flight _ _ _ _ _ H). right. right. right. apply in_map_iff. exists (qc_hash (b_qc b1), b0). auto. }
    unfold bind at 1.
    pose proof ($store_block_inv b s H Hv) as S.
    destruct (store_block b s) as [[s3 o3] r3].
    destruct S as [I3 [L3 [-> [F1 [F2 [F3 [F4 F5]]]]]]].
    unfold bind at 1.
    pose proof ($proposer_cleanup_inv (b_payload b0 ++ b_payload b1 ++ b_payload b) s3 I3) as P.
    destruct (proposer_cleanup _ s3) as [[s4 o4] r4].
    destruct P as [I4 [L4 [-> [P1 [P2 [P3 [P4 P5]]]]]]].
    assert (L04 : sle s s4) by (exact (sle_tr _ _ _ L3 L4)).
    assert (M4 : PaceInv s4).
    { eapply PaceInv_keep; [exact HM|congruence|apply hist_ext_eq; congruence]. }
    assert (St4 : s_store s4 = (block_digest b, b) :: s_store s) by congruence.
    match goal with |- context [bind ?M _ s4] => set (cm := M) end.
    assert (C : match cm s4 with
                | (s', _, res) => Inv s' /\ sle s4 s' /\ PaceInv s'
                end).
    { subst cm. destruct (b_round b0 + 1 =? b_round b1) eqn:E2c.
      2:{ unfold ret. split; [exact I4|]. split; [split; [exists []; reflexivity|lia]|exact M4]. }
      apply N.eqb_eq in E2c.
      unfold bind at 1. unfold emit at 1. unfold bind at 1.
      pose proof ($pw_cleanup_inv (b_round b0) s4 I4) as Wc.
      destruct (pw_cleanup (b_round b0) s4) as [[s5 o5] r5].
      destruct Wc as [I5 [L5 [-> [W1 [W2 [W3 [W4 [W5 W6]]]]]]]].
      assert (M5 : PaceInv s5) by (eapply PaceInv_keep; [exact M4|exact W3|apply hist_ext_eq; exact W1]).
      assert (Hv05 : vetted s5 b0) by (eapply ($vetted_sle); [exact Hv0|exact (sle_tr _ _ _ L04 L5)]).
      assert (Hd : s_last_committed s5 < b_round b0 -> dcommit stk mem honest (cw me w0 s5) (block_digest b0)).
      { intros Hlt. eapply ($dcommit_of_chain s5 b b1 b0); eauto.
        - eapply ($vetted_sle); [exact Hv|exact (sle_tr _ _ _ L04 L5)].
        - destruct G1 as [G1|G1]; [left; exact G1|right; rewrite W5, St4; right; exact G1].
        - destruct G0 as [G0|G0]; [left; exact G0|right; rewrite W5, St4; right; exact G0].
        - lia. }
      pose proof ($commit_inv b0 s5 I5 Hv05 Hd) as Kc.
      destruct (commit src_dq b0 s5) as [[s6 o6] r6]. destruct Kc as [I6 [L6 [K1 [_ [K3 _]]]]].
      split; [exact I6|]. split; [exact (sle_tr _ _ _ L5 L6)|].
      eapply PaceInv_keep; [exact M5|exact K3|apply hist_ext_eq; exact K1]. }
    unfold bind at 1.
    destruct (cm s4) as [[s7 o7] r7]. destruct C as [I7 [L7 M7]].
    destruct r7 as [[]|e|k]; [|exact M7|exact M7].
    unfold bind at 1. unfold get at 1.
    destruct (b_round b =? s_round s7) eqn:Eg; simpl; [|exact M7].
    apply N.eqb_eq in Eg.
    assert (Hv7 : vetted s7 b) by (eapply ($vetted_sle); [exact Hv|exact (sle_tr _ _ _ L04 L7)]).
    unfold bind at 1.
    pose proof ($make_vote_inv b s7 I7 Hv7 Eg) as V.
    destruct (make_vote me b s7) as [[s8 o8] r8].
    destruct V as [I8 [L8 [V1 [V2 V3]]]].
    assert (M8 : PaceInv s8) by (eapply PaceInv_keep; [exact M7|exact V2|apply L8]).
    destruct r8 as [[v|]|e|k]; try contradiction; try exact M8.
    destruct V3 as [-> Hvoted].
    destruct (leader c (s_round s7 + 1) =? me); [|exact M8].
    assert (Hadm : sig_adm honest (cw me w0 s8) (v_sig (mkVote (block_digest b) (b_round b) me (SigOf me (CVote (block_digest b) (b_round b)))))).
    { simpl. intros _. split; [exact Hvoted|reflexivity]. }
    pose proof (handle_vote_pace hint _ s8 I8 M8 Hadm) as HV.
    destruct (handle_vote c me hint _ s8) as [[s9 o9] r9]. exact HV.
  Qed.

  Lemma handle_proposal_pace hint b s :
    Inv s -> PaceInv s -> block_sound c me honest w0 s b ->
    PaceInv (st (handle_proposal c me src_dq hint b s)).
  Proof.
    intros H HM [Hq Ht]. unfold handle_proposal. unfold bind at 1.
    destruct (b_author b =? leader c (b_round b)); [|exact HM].
    unfold ret at 1. unfold bind at 1. unfold lift at 1.
    destruct (block_verify c b) as [[]|e|k] eqn:Ev; [|exact HM|exact HM].
    unfold block_verify in Ev.
    gunf; destruct (0 <? Node.stake c (b_author b)); [|discriminate]; cbn [negb] in *.
    destruct (negb _); [discriminate|].
    destruct (if qc_eqb (b_qc b) qc_genesis then ROk tt else qc_verify c (b_qc b)) as [[]|e|k] eqn:Eqv; try discriminate.
    assert (Gq : qc_good s (b_qc b)) by (apply ($qc_good_of_verify); auto).
    assert (Gt : tc_good s (b_tc b)).
    { destruct (b_tc b) as [tc|] eqn:Etc; [|exact I]. apply (Ht tc eq_refl). exact Ev. }
    unfold bind at 1.
    pose proof ($process_qc_inv (b_qc b) s H Gq) as P. pose proof (process_qc_pace (b_qc b) s H HM Gq) as M1.
    destruct (process_qc (b_qc b) s) as [[s1 o1] r1]. unfold st in M1; simpl in M1.
    destruct P as [I1 [L1 [-> [P1 _]]]].
    assert (Gt1 : tc_good s1 (b_tc b)) by (eapply ($tc_good_sle); eauto).
    unfold bind at 1.
    assert (A : match (match b_tc b with Some tc => advance_round (tc_round tc) | None => ret tt end) s1 with
                | (s', _, res) => Inv s' /\ sle s1 s' /\ res = ROk tt /\ s_high_qc s' = s_high_qc s1 /\ PaceInv s'
                end).
    { destruct (b_tc b) as [tc|].
      - pose proof ($advance_round_inv (tc_round tc) s1 I1) as A.
        pose proof (advance_round_pace (tc_round tc) s1 M1 (fun _ => tc_good_evid s1 tc Gt1)) as M2.
        destruct (advance_round (tc_round tc) s1) as [[s2 o2] r2]. unfold st in M2; simpl in M2.
        destruct A as [I2 [L2 [-> [_ [E _]]]]]. split; [exact I2|]. split; [exact L2|]. split; [reflexivity|]. split; [exact E|exact M2].
      - unfold ret. split; [exact I1|]. split; [split; [exists []; reflexivity|lia]|]. split; [reflexivity|]. split; [reflexivity|exact M1]. }
    destruct ((match b_tc b with Some tc => advance_round (tc_round tc) | None => ret tt end) s1) as [[s2 o2] r2].
    destruct A as [I2 [L2 [-> [E2 M2]]]].
    assert (L02 : sle s s2) by (exact (sle_tr _ _ _ L1 L2)).
    assert (Hv2 : vetted s2 b).
    { split; [eapply ($qc_good_sle); eauto|]. split; [eapply ($tc_good_sle); eauto|]. rewrite E2. exact P1. }
    unfold bind at 1.
    pose proof ($mempool_verify_inv b s2 I2 Hv2) as M.
    destruct (mempool_verify b s2) as [[s3 o3] r3].
    destruct M as [I3 [L3 [[ok ->] [Mh [_ Mr]]]]].
    assert (M3 : PaceInv s3) by (eapply PaceInv_keep; [exact M2|exact Mr|apply hist_ext_eq; exact Mh]).
    destruct ok; [|exact M3].
    assert (Hv3 : vetted s3 b) by (eapply ($vetted_sle); eauto).
    pose proof (process_block_pace hint b s3 I3 M3 Hv3) as B.
    destruct (process_block c me src_dq hint b s3) as [[s4 o4] r4]. exact B.
  Qed.

  (* every event, admissible in the sense of NodeInv.ev_adm *)
  Theorem step_pace hint e s :
    Inv s -> PaceInv s -> ev_adm c me honest w0 s e ->
    PaceInv (st (step c me src_dq hint e s)).
  Proof.
    intros H HM Ha. destruct e as [b|v|t|tc|b| |d|d| ]; simpl in *.
    - apply handle_proposal_pace; auto.
    - apply handle_vote_pace; auto.
    - destruct Ha as [Ha1 Ha2]. apply handle_timeout_pace; auto.
    - apply handle_tc_pace; auto.
    - unfold bind at 1. unfold get at 1.
      destruct (remove_first b (s_loopback s)) as [[x l]|] eqn:Er; [|exact HM].
      destruct (remove_first_in c me honest members_nodup me_honest byz_bound _ _ _ _ Er) as [Hx Hl].
      unfold bind at 1. unfold modify at 1.
      set (s1 := set_loopback s l).
      assert (Hvx : vetted s x) by (apply (i_flight _ _ _ _ _ H); left; exact Hx).
      assert (I1 : Inv s1).
      { eapply ($Inv_frame s); eauto; try reflexivity; simpl.
        all: try (intros k y Hin; apply (i_store _ _ _ _ _ H); exact Hin).
        intros y Hy. left. unfold in_flight in *. simpl in *. destruct Hy as [Hy|Hy]; auto. }
      assert (L1 : sle s s1) by (split; [exists []; reflexivity|simpl; lia]).
      pose proof (process_block_pace hint x s1 I1 HM (($vetted_sle) _ _ _ Hvx L1)) as B.
      destruct (process_block c me src_dq hint x s1) as [[s2 o2] r2]. exact B.
    - apply local_timeout_pace; auto.
    - exact HM.
    - unfold modify, st. destruct (memN d (s_buffer s)); exact HM.
    - unfold bind at 1. unfold get at 1. destruct (me =? leader c (s_round s)); [|exact HM].
      pose proof (generate_proposal_pace hint None s H HM I) as G.
      destruct (generate_proposal me hint None s) as [[s1 o1] r1]. exact G.
  Qed.
End Pace.
Print Assumptions step_pace.
