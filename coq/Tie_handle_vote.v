(* Tie lemma for `handle_vote`: the statement skeleton REGENERATED from the Rust source (GenCore.v, tools/skel.py) computes, for every
   argument and every state, exactly what the hand-written model function does (same state, same outputs, same result). *)
From Coq Require Import List NArith Bool Lia ZArith.
From Coq Require Import ZifyN ZifyBool.
From HS Require Import TieTac GenCore.
Import ListNotations.
Open Scope N_scope.

Lemma tie_handle_vote c me dq hint v s : gen_handle_vote c me dq hint v s = handle_vote c me hint v s.
Proof. unfold gen_handle_vote, handle_vote, agg_add_vote. tie. Qed.
