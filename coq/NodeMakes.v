(* C09 (iv): an honest node never requests (hence never signs) two proposals for one round. *)
From Coq Require Import List NArith Lia Bool Sorted ZifyN ZifyBool.
From HS Require Import GTac Node Proto Link NodeInv NodeLog.
Import ListNotations.
Open Scope N_scope.

(* ---------- "this computation does not touch the log nor the watermark" ---------- *)
Definition same_mk (s s' : State) := s_makes s' = s_makes s.
Definition mkeeps {A} (m : M A) := forall s, same_mk s (st (m s)).

Lemma same_mk_refl s : same_mk s s. Proof. reflexivity. Qed.
Lemma same_mk_trans a b d : same_mk a b -> same_mk b d -> same_mk a d.
Proof. unfold same_mk. congruence. Qed.

Lemma mkeeps_ret {A} (a : A) : mkeeps (ret a). Proof. intros s. apply same_mk_refl. Qed.
Lemma mkeeps_fail {A} e : mkeeps (@fail A e). Proof. intros s. apply same_mk_refl. Qed.
Lemma mkeeps_panic {A} k : mkeeps (@panic A k). Proof. intros s. apply same_mk_refl. Qed.
Lemma mkeeps_get : mkeeps get. Proof. intros s. apply same_mk_refl. Qed.
Lemma mkeeps_emit o : mkeeps (emit o). Proof. intros s. apply same_mk_refl. Qed.
Lemma mkeeps_lift {A} (r : res A) : mkeeps (lift r). Proof. intros s. apply same_mk_refl. Qed.
Lemma mkeeps_modify f : (forall s, same_mk s (f s)) -> mkeeps (modify f).
Proof. intros H s. apply H. Qed.
Lemma mkeeps_bind {A B} (m : M A) (f : A -> M B) : mkeeps m -> (forall a, mkeeps (f a)) -> mkeeps (bind m f).
Proof.
  intros Hm Hf s. unfold bind. specialize (Hm s). destruct (m s) as [[s1 o1] r1]. unfold st in *. simpl in *.
  destruct r1 as [a|e|k]; auto.
  specialize (Hf a s1). destruct (f a s1) as [[s2 o2] r2]. unfold st in *. simpl in *.
  eapply same_mk_trans; eauto.
Qed.

Ltac mkeeps_tac :=
  repeat first
    [ apply mkeeps_ret | apply mkeeps_fail | apply mkeeps_panic | apply mkeeps_get | apply mkeeps_emit
    | apply mkeeps_lift | apply mkeeps_bind | (apply mkeeps_modify; intros; reflexivity)
    | intro | progress cbv zeta
    | match goal with |- mkeeps (if ?b then _ else _) => destruct b end
    | match goal with |- mkeeps (match ?x with _ => _ end) => destruct x end ].

Section KeepsMk.
  Variable c : Committee. Variable me : N.
  Lemma mkeeps_advance_round r : mkeeps (advance_round r).
  Proof.
    unfold advance_round. gunf. apply mkeeps_bind; [apply mkeeps_get|]. intros s.
    destruct (_ <? _); [apply mkeeps_ret|]. apply mkeeps_modify. intros; reflexivity.
  Qed.
  Lemma mkeeps_update_high_qc q : mkeeps (update_high_qc q).
  Proof. unfold update_high_qc. gunf. apply mkeeps_modify. intros s. destruct (_ <? _); reflexivity. Qed.
  Lemma mkeeps_process_qc q : mkeeps (process_qc q).
  Proof. unfold process_qc. apply mkeeps_bind; [apply mkeeps_advance_round|intro; apply mkeeps_update_high_qc]. Qed.
  Lemma mkeeps_proposer_cleanup ds : mkeeps (proposer_cleanup ds).
  Proof.
    unfold proposer_cleanup. apply mkeeps_bind; [apply mkeeps_emit|]. intros _.
    apply mkeeps_modify; intros; reflexivity.
  Qed.
  Lemma mkeeps_sync_park b : mkeeps (sync_park b).
  Proof.
    unfold sync_park. apply mkeeps_bind; [apply mkeeps_get|]. intros s.
    destruct (existsb _ _); [apply mkeeps_ret|].
    apply mkeeps_bind; [apply mkeeps_modify; intros; reflexivity|]. intros _.
    destruct (existsb _ _); [apply mkeeps_ret|].
    apply mkeeps_bind; [apply mkeeps_modify; intros; reflexivity|]. intros _. apply mkeeps_emit.
  Qed.
  Lemma mkeeps_get_parent_block b : mkeeps (get_parent_block b).
  Proof. unfold get_parent_block. destruct (qc_eqb _ _); [apply mkeeps_ret|]. apply mkeeps_bind; [apply mkeeps_get|].
    intros s. destruct (store_get _ _); [apply mkeeps_ret|]. apply mkeeps_bind; [apply mkeeps_sync_park|intro; apply mkeeps_ret]. Qed.
  Lemma mkeeps_store_block b : mkeeps (store_block b).
  Proof. unfold store_block. apply mkeeps_modify. intros s. reflexivity. Qed.
  Lemma mkeeps_make_vote b : mkeeps (make_vote me b).
  Proof.
    unfold make_vote, increase_last_voted. gunf. apply mkeeps_bind; [apply mkeeps_get|]. intros s.
    apply mkeeps_bind.
    { destruct (b_tc b); [|apply mkeeps_ret]. destruct (list_max _); [apply mkeeps_ret|apply mkeeps_panic]. }
    intros r2. destruct (negb _); [apply mkeeps_ret|].
    apply mkeeps_bind; [apply mkeeps_modify; intros; reflexivity|]. intros _.
    apply mkeeps_bind; [apply mkeeps_modify; intros; reflexivity|]. intros _. apply mkeeps_ret.
  Qed.
  Lemma mkeeps_pw_cleanup r : mkeeps (pw_cleanup r).
  Proof. unfold pw_cleanup. apply mkeeps_modify. intros; reflexivity. Qed.
  Lemma mkeeps_mempool_verify b : mkeeps (mempool_verify b).
  Proof.
    unfold mempool_verify. apply mkeeps_bind; [apply mkeeps_get|]. intros s.
    destruct (filter _ _); [apply mkeeps_ret|].
    apply mkeeps_bind; [apply mkeeps_emit|]. intros _.
    apply mkeeps_bind; [destruct (existsb _ _); [apply mkeeps_ret|apply mkeeps_modify; intros; reflexivity]|].
    intros _. apply mkeeps_ret.
  Qed.
  Lemma mkeeps_batch_stored d : mkeeps (batch_stored d).
  Proof. unfold batch_stored. apply mkeeps_modify. intros; reflexivity. Qed.
End KeepsMk.


Section Makes.
  Variable c : Committee.
  Variable me : N.
  Variable honest : N -> bool.
  Hypothesis members_nodup : NoDup (members c).
  Hypothesis me_honest : honest me = true.
  Variable w0 : world.
  Notation stk := (stk c).
  Notation mem := (members c).
  Hypothesis byz_bound : 3 * byz_stake stk mem honest < total stk mem.
  Notation Inv := (Inv c me honest w0).
  Notation vetted := (vetted c me honest w0).
  Local Notation "'$' lemma" := (lemma c me honest members_nodup me_honest w0 byz_bound) (at level 0, lemma at level 0).

  (* rounds of the proposals requested so far: strictly decreasing from the newest, none above the round *)
  Definition MkInv (s : State) : Prop :=
    StronglySorted N.gt (s_makes s) /\ forall r, In r (s_makes s) -> r <= s_round s.
  Definition PreMake (s : State) : Prop := forall r, In r (s_makes s) -> r < s_round s.

  Lemma MkInv_keep s s' : MkInv s -> same_mk s s' -> s_round s <= s_round s' -> MkInv s'.
  Proof. intros [A B] E Hr. unfold MkInv. rewrite E. split; auto. intros r Hin. specialize (B r Hin). lia. Qed.

  Lemma generate_proposal_mk hint tc s :
    MkInv s -> PreMake s ->
    match generate_proposal me hint tc s with
    | (s', _, _) => MkInv s' /\ s_round s' = s_round s
    end.
  Proof.
    intros [A B] P. unfold generate_proposal, bind, get, emit, modify, ret. simpl.
    destruct (same_set hint (s_buffer s)); simpl.
    all: split; [|reflexivity]; split; simpl.
    all: try (constructor; [exact A|]; rewrite Forall_forall; intros r Hr; specialize (P r Hr); lia).
    all: intros r [<-|Hr]; [lia|specialize (B r Hr); lia].
  Qed.

  Lemma handle_vote_mk hint v s :
    Inv s -> MkInv s -> sig_adm honest (cw me w0 s) (v_sig v) ->
    MkInv (st (handle_vote c me hint v s)).
  Proof.
    intros H HM Hadm. unfold handle_vote. unfold bind at 1. unfold get at 1. gunf.
    destruct (v_round v <? s_round s) eqn:Est; [exact HM|]. apply N.ltb_ge in Est.
    unfold bind at 1. unfold lift at 1.
    destruct (vote_verify c v) as [[]|e|k] eqn:Ev; [|exact HM|exact HM].
    unfold vote_verify in Ev.
    gunf; destruct (0 <? Node.stake c (v_author v)) eqn:Es; [|discriminate]; apply N.ltb_lt in Es; apply N.neq_0_lt_0 in Es; cbn [negb] in *.
    destruct (sig_ok (v_author v) (CVote (v_hash v) (v_round v)) (v_sig v)) eqn:Esig; [|discriminate].
    apply sig_ok_inv in Esig. destruct Esig as [ct' [Esg Hct]].
    assert (Hv : honest (v_author v) = true ->
                 voted (cw me w0 s) (v_author v) (v_hash v) /\ dround (v_hash v) = v_round v).
    { rewrite Esg in Hadm. destruct ct' as [d|h r|r hq]; simpl in Hct; try discriminate.
      apply andb_true_iff in Hct. destruct Hct as [Hd Hr]. apply digest_eqb_eq in Hd. apply N.eqb_eq in Hr.
      subst h r. exact Hadm. }
    pose proof ($qm_append_ok s (v_round v) (v_hash v) _ v ($qcm_get_ok s (v_round v) (v_hash v) H)
                  eq_refl eq_refl Es Hv) as Q.
    destruct (qm_append c (qcm_get (v_round v, v_hash v) (s_qcm s)) v) as [m' r] eqn:Eqa.
    destruct Q as [Qok Qres].
    unfold bind at 1. unfold modify at 1.
    set (s1 := set_qcm s (qcm_put (v_round v, v_hash v) m' (s_qcm s))).
    assert (I1 : Inv s1) by (apply ($Inv_qcm_put); auto).
    assert (M1 : MkInv s1) by exact HM.
    unfold bind at 1. unfold lift at 1.
    destruct r as [[qc|]|e|k]; [|exact M1|exact M1|contradiction].
    destruct Qres as [Qh [Qr Qc]].
    assert (Hg : qc_good c me honest w0 s1 qc).
    { right. rewrite Qh, Qr. exact Qc. }
    unfold bind at 1.
    pose proof ($process_qc_inv qc s1 I1 Hg) as P. pose proof (mkeeps_process_qc qc s1) as K.
    destruct (process_qc qc s1) as [[s2 o2] r2]. unfold st in K; simpl in K.
    destruct P as [I2 [[_ [_ L2]] [-> [_ [P2 _]]]]].
    unfold bind at 1. unfold get at 1.
    assert (M2 : MkInv s2) by (eapply MkInv_keep; eauto).
    destruct (me =? leader c (s_round s2)); [|exact M2].
    assert (Pre : PreMake s2).
    { intros x Hx. rewrite K in Hx. destruct HM as [_ B]. specialize (B x Hx). simpl in *. lia. }
    pose proof (generate_proposal_mk hint None s2 M2 Pre) as G.
    destruct (generate_proposal me hint None s2) as [[s3 o3] r3]. destruct G as [G _]. exact G.
  Qed.

  Lemma handle_timeout_mk hint t s :
    Inv s -> MkInv s -> sig_adm honest (cw me w0 s) (t_sig t) -> qc_sound c me honest w0 s (t_high_qc t) ->
    MkInv (st (handle_timeout c me hint t s)).
  Proof.
    intros H HM Hadm Hsound. unfold handle_timeout. unfold bind at 1. unfold get at 1. gunf.
    destruct (t_round t <? s_round s) eqn:Est; [exact HM|]. apply N.ltb_ge in Est.
    unfold bind at 1. unfold lift at 1.
    destruct (timeout_verify c t) as [[]|e|k] eqn:Ev; [|exact HM|exact HM].
    unfold timeout_verify in Ev.
    gunf; destruct (0 <? Node.stake c (t_author t)) eqn:Es; [|discriminate]; apply N.ltb_lt in Es; apply N.neq_0_lt_0 in Es; cbn [negb] in *.
    destruct (sig_ok (t_author t) (CTimeout (t_round t) (qc_round (t_high_qc t))) (t_sig t)) eqn:Esig; [|discriminate].
    simpl in Ev.
    assert (Hg : qc_good c me honest w0 s (t_high_qc t)) by (apply ($qc_good_of_verify); auto).
    apply sig_ok_inv in Esig. destruct Esig as [ct' [Esg Hct]].
    assert (Hv : honest (t_author t) = true ->
                 In (HTimeout (t_round t) (qc_round (t_high_qc t))) (cw me w0 s (t_author t))).
    { rewrite Esg in Hadm. destruct ct' as [d|h r|r hq]; simpl in Hct; try discriminate.
      apply andb_true_iff in Hct. destruct Hct as [Hr Hq]. apply N.eqb_eq in Hr. apply N.eqb_eq in Hq.
      subst r hq. exact Hadm. }
    unfold bind at 1.
    pose proof ($process_qc_inv (t_high_qc t) s H Hg) as P. pose proof (mkeeps_process_qc (t_high_qc t) s) as K1.
    destruct (process_qc (t_high_qc t) s) as [[s1 o1] r1]. unfold st in K1; simpl in K1.
    destruct P as [I1 [L1 [-> _]]].
    assert (M1 : MkInv s1) by (eapply MkInv_keep; eauto; apply L1).
    unfold bind at 1. unfold get at 1.
    assert (Hv1 : honest (t_author t) = true ->
                  In (HTimeout (t_round t) (qc_round (t_high_qc t))) (cw me w0 s1 (t_author t))).
    { intros Hh. destruct L1 as [He _]. apply (($cw_wle) _ _ He). auto. }
    pose proof ($tm_append_ok s1 (t_round t) _ t ($tcm_get_ok s1 (t_round t) I1) eq_refl Es Hv1) as Q.
    destruct (tm_append c (tcm_get (t_round t) (s_tcm s1)) t) as [m' r] eqn:Eqa.
    destruct Q as [Qok Qres].
    unfold bind at 1. unfold modify at 1.
    set (s2 := set_tcm s1 (tcm_put (t_round t) m' (s_tcm s1))).
    assert (I2 : Inv s2) by (apply ($Inv_tcm_put); auto).
    assert (M2 : MkInv s2) by exact M1.
    unfold bind at 1. unfold lift at 1.
    destruct r as [[tc|]|e|k]; [|exact M2|exact M2|contradiction].
    destruct Qres as [Qr Qg].
    unfold bind at 1.
    pose proof ($advance_round_inv (tc_round tc) s2 I2) as A. pose proof (mkeeps_advance_round (tc_round tc) s2) as K3.
    destruct (advance_round (tc_round tc) s2) as [[s3 o3] r3]. unfold st in K3; simpl in K3.
    destruct A as [I3 [L3 [-> [R3 _]]]].
    unfold bind at 1. unfold emit at 1. unfold bind at 1. unfold get at 1.
    assert (M3 : MkInv s3) by (eapply MkInv_keep; eauto; apply L3).
    destruct (me =? leader c (s_round s3)); [|exact M3].
    assert (Pre : PreMake s3).
    { intros x Hx. rewrite K3 in Hx. change (s_makes s2) with (s_makes s1) in Hx. rewrite K1 in Hx.
      destruct HM as [_ B]. specialize (B x Hx). rewrite Qr in R3. lia. }
    pose proof (generate_proposal_mk hint (Some tc) s3 M3 Pre) as G.
    destruct (generate_proposal me hint (Some tc) s3) as [[s4 o4] r4]. destruct G as [G _]. exact G.
  Qed.

  Lemma handle_tc_mk hint tc s :
    Inv s -> MkInv s -> MkInv (st (handle_tc c me hint tc s)).
  Proof.
    intros H HM. unfold handle_tc. unfold bind at 1. unfold lift at 1.
    destruct (tc_verify c tc) as [[]|e|k]; [|exact HM|exact HM].
    unfold bind at 1. unfold get at 1. gunf.
    destruct (tc_round tc <? s_round s) eqn:Est; [exact HM|]. apply N.ltb_ge in Est.
    unfold bind at 1.
    pose proof ($advance_round_inv (tc_round tc) s H) as A. pose proof (mkeeps_advance_round (tc_round tc) s) as K.
    destruct (advance_round (tc_round tc) s) as [[s1 o1] r1]. unfold st in K; simpl in K.
    destruct A as [I1 [L1 [-> [R1 _]]]].
    unfold bind at 1. unfold get at 1.
    assert (M1 : MkInv s1) by (eapply MkInv_keep; eauto; apply L1).
    destruct (me =? leader c (s_round s1)); [|exact M1].
    assert (Pre : PreMake s1).
    { intros x Hx. rewrite K in Hx. destruct HM as [_ B]. specialize (B x Hx). lia. }
    pose proof (generate_proposal_mk hint (Some tc) s1 M1 Pre) as G.
    destruct (generate_proposal me hint (Some tc) s1) as [[s2 o2] r2]. destruct G as [G _]. exact G.
  Qed.

  Lemma local_timeout_mk hint s :
    Inv s -> MkInv s -> MkInv (st (local_timeout c me hint s)).
  Proof.
    intros H HM. unfold local_timeout. unfold bind at 1. unfold get at 1.
    unfold bind at 1. unfold increase_last_voted at 1. unfold modify at 1.
    unfold bind at 1. unfold modify at 1. unfold bind at 1. unfold emit at 1. simpl.
    match goal with |- context [handle_timeout c me hint ?T ?S] => set (t := T); set (s2 := S) end.
    assert (Hp := i_pace _ _ _ _ _ H).
    assert (I2 : Inv s2).
    { eapply ($Inv_hist_update s s2 (HTimeout (s_round s) (qc_round (s_high_qc s)))); try reflexivity; eauto; simpl; try lia.
      - constructor.
        + eapply hist_ok_mono; [|apply (i_hist _ _ _ _ _ H)]. apply ($cw_wle). eexists [_]. reflexivity.
        + intros d q j Hin. eapply (i_hist_hq _ _ _ _ _ H); eauto.
      - intros d q j Heq. discriminate. }
    assert (M2 : MkInv s2) by exact HM.
    assert (Hadm : sig_adm honest (cw me w0 s2) (t_sig t)).
    { simpl. intros _. unfold cw, upd. rewrite N.eqb_refl. simpl. left. reflexivity. }
    assert (Hs : qc_sound c me honest w0 s2 (t_high_qc t)).
    { intros _. simpl. eapply ($qc_good_sle); [apply (i_hq _ _ _ _ _ H)|].
      split; [eexists [_]; reflexivity|simpl; lia]. }
    pose proof (handle_timeout_mk hint t s2 I2 M2 Hadm Hs) as T.
    destruct (handle_timeout c me hint t s2) as [[s3 o3] r3]. exact T.
  Qed.

  Lemma mkeeps_commit_walk lcr : forall fuel parent acc, mkeeps (commit_walk src_dq fuel lcr parent acc).
  Proof.
    induction fuel as [|f IH]; intros parent acc; simpl; [apply mkeeps_panic|]. gunfdq.
    destruct (_ <? _); [|apply mkeeps_ret].
    apply mkeeps_bind; [apply mkeeps_get_parent_block|]. intros [anc|]; [|apply mkeeps_panic].
    destruct (_ <=? _); [apply mkeeps_ret|apply IH].
  Qed.
  Lemma mkeeps_deliver_all l : mkeeps (deliver_all l).
  Proof.
    induction l as [|b l IH]; simpl; [apply mkeeps_ret|].
    apply mkeeps_bind; [apply mkeeps_emit|]. intros _.
    apply mkeeps_bind; [apply mkeeps_modify; intros; reflexivity|]. intros _. exact IH.
  Qed.
  Lemma mkeeps_commit b : mkeeps (commit src_dq b).
  Proof.
    unfold commit. gunfdq. apply mkeeps_bind; [apply mkeeps_get|]. intros s.
    destruct (_ <=? _); [apply mkeeps_ret|].
    apply mkeeps_bind; [apply mkeeps_commit_walk|]. intros anc.
    apply mkeeps_bind; [apply mkeeps_modify; intros; reflexivity|]. intros _. apply mkeeps_deliver_all.
  Qed.

  Lemma sle_tr a b d : sle a b -> sle b d -> sle a d.
  Proof.
    intros [[p1 H1] [H2 H3]] [[p2 H4] [H5 H6]]. split; [|lia].
    exists (p2 ++ p1). rewrite H4, H1. apply app_assoc.
  Qed.

  Lemma process_block_mk hint b s :
    Inv s -> MkInv s -> vetted s b -> MkInv (st (process_block c me src_dq hint b s)).
  Proof.
    intros H HM Hv.
    (* everything up to the vote keeps the list and only moves the round forward *)
    unfold process_block. gunf. unfold bind at 1.
    pose proof ($get_parent_block_inv b s H Hv) as G. pose proof (mkeeps_get_parent_block b s) as K.
    destruct (get_parent_block b s) as [[s1 o1] r1]. unfold st in K; simpl in K.
    destruct G as [I1 [L1 [_ [_ [_ [_ [_ G]]]]]]].
    destruct r1 as [[b1|]|e|k]; try contradiction.
    2:{ unfold ret, st. simpl. eapply MkInv_keep; eauto. apply L1. }
    destruct G as [-> G1]. clear I1 L1 K.
    assert (Hv1 : vetted s b1).
    { destruct G1 as [[_ ->]|G1]; [apply ($vetted_genesis)|].
      apply (i_flight _ _ _ _ _ H). right. right. right. apply in_map_iff. exists (qc_hash (b_qc b), b1). auto. }
    unfold bind at 1.
    pose proof ($get_parent_block_inv b1 s H Hv1) as G. pose proof (mkeeps_get_parent_block b1 s) as K.
    destruct (get_parent_block b1 s) as [[s2 o2] r2]. unfold st in K; simpl in K.
    destruct G as [I2 [L2 [_ [_ [_ [_ [_ G]]]]]]].
    destruct r2 as [[b0|]|e|k]; try contradiction.
    2:{ unfold panic, st. simpl. eapply MkInv_keep; eauto. apply L2. }
    destruct G as [-> G0]. clear I2 L2 K.
    assert (Hv0 : vetted s b0).
    { destruct G0 as [[_ ->]|G0]; [apply ($vetted_genesis)|].
      apply (i_flight _ _ _ _ _ H). right. right. right. apply in_map_iff. exists (qc_hash (b_qc b1), b0). auto. }
    unfold bind at 1.
    pose proof ($store_block_inv b s H Hv) as S. pose proof (mkeeps_store_block b s) as K3.
    destruct (store_block b s) as [[s3 o3] r3]. unfold st in K3; simpl in K3.
    destruct S as [I3 [L3 [-> [F1 [F2 [F3 [F4 F5]]]]]]].
    unfold bind at 1.
    pose proof ($proposer_cleanup_inv (b_payload b0 ++ b_payload b1 ++ b_payload b) s3 I3) as P.
    pose proof (mkeeps_proposer_cleanup (b_payload b0 ++ b_payload b1 ++ b_payload b) s3) as K4.
    destruct (proposer_cleanup _ s3) as [[s4 o4] r4]. unfold st in K4; simpl in K4.
    destruct P as [I4 [L4 [-> [P1 [P2 [P3 [P4 P5]]]]]]].
    assert (L04 : sle s s4) by (exact (sle_tr _ _ _ L3 L4)).
    assert (M4 : MkInv s4).
    { eapply MkInv_keep; [exact HM| |apply L04]. unfold same_mk in *. congruence. }
    assert (St4 : s_store s4 = (block_digest b, b) :: s_store s) by congruence.
    match goal with |- context [bind ?M _ s4] => set (cm := M) end.
    assert (C : match cm s4 with
                | (s', _, res) => Inv s' /\ sle s4 s' /\ MkInv s'
                end).
    { subst cm. destruct (b_round b0 + 1 =? b_round b1) eqn:E2c.
      2:{ unfold ret. split; [exact I4|]. split; [split; [exists []; reflexivity|lia]|exact M4]. }
      apply N.eqb_eq in E2c.
      unfold bind at 1. unfold emit at 1. unfold bind at 1.
      pose proof ($pw_cleanup_inv (b_round b0) s4 I4) as Wc. pose proof (mkeeps_pw_cleanup (b_round b0) s4) as K5.
      destruct (pw_cleanup (b_round b0) s4) as [[s5 o5] r5]. unfold st in K5; simpl in K5.
      destruct Wc as [I5 [L5 [-> [W1 [W2 [W3 [W4 [W5 W6]]]]]]]].
      assert (M5 : MkInv s5) by (eapply MkInv_keep; eauto; apply L5).
      assert (Hv05 : vetted s5 b0) by (eapply ($vetted_sle); [exact Hv0|exact (sle_tr _ _ _ L04 L5)]).
      assert (Hd : s_last_committed s5 < b_round b0 -> dcommit stk mem honest (cw me w0 s5) (block_digest b0)).
      { intros Hlt. eapply ($dcommit_of_chain s5 b b1 b0); eauto.
        - eapply ($vetted_sle); [exact Hv|exact (sle_tr _ _ _ L04 L5)].
        - destruct G1 as [G1|G1]; [left; exact G1|right; rewrite W5, St4; right; exact G1].
        - destruct G0 as [G0|G0]; [left; exact G0|right; rewrite W5, St4; right; exact G0].
        - lia. }
      pose proof ($commit_inv b0 s5 I5 Hv05 Hd) as Kc. pose proof (mkeeps_commit b0 s5) as K6.
      destruct (commit src_dq b0 s5) as [[s6 o6] r6]. unfold st in K6; simpl in K6. destruct Kc as [I6 [L6 _]].
      split; [exact I6|]. split; [exact (sle_tr _ _ _ L5 L6)|]. eapply MkInv_keep; eauto. apply L6. }
    unfold bind at 1.
    destruct (cm s4) as [[s7 o7] r7]. destruct C as [I7 [L7 M7]].
    destruct r7 as [[]|e|k]; [|exact M7|exact M7].
    unfold bind at 1. unfold get at 1.
    destruct (b_round b =? s_round s7) eqn:Eg; simpl; [|exact M7].
    apply N.eqb_eq in Eg.
    assert (Hv7 : vetted s7 b) by (eapply ($vetted_sle); [exact Hv|exact (sle_tr _ _ _ L04 L7)]).
    unfold bind at 1.
    pose proof ($make_vote_inv b s7 I7 Hv7 Eg) as V. pose proof (mkeeps_make_vote me b s7) as K8.
    destruct (make_vote me b s7) as [[s8 o8] r8]. unfold st in K8; simpl in K8.
    destruct V as [I8 [L8 [V1 [V2 V3]]]].
    assert (M8 : MkInv s8) by (eapply MkInv_keep; eauto; apply L8).
    destruct r8 as [[v|]|e|k]; try contradiction; try exact M8.
    destruct V3 as [-> Hvoted].
    destruct (leader c (s_round s7 + 1) =? me); [|exact M8].
    assert (Hadm : sig_adm honest (cw me w0 s8) (v_sig (mkVote (block_digest b) (b_round b) me (SigOf me (CVote (block_digest b) (b_round b)))))).
    { simpl. intros _. split; [exact Hvoted|reflexivity]. }
    pose proof (handle_vote_mk hint _ s8 I8 M8 Hadm) as HV.
    destruct (handle_vote c me hint _ s8) as [[s9 o9] r9]. exact HV.
  Qed.

  Lemma handle_proposal_mk hint b s :
    Inv s -> MkInv s -> block_sound c me honest w0 s b ->
    MkInv (st (handle_proposal c me src_dq hint b s)).
  Proof.
    intros H HM [Hq Ht]. unfold handle_proposal. unfold bind at 1.
    destruct (b_author b =? leader c (b_round b)); [|exact HM].
    unfold ret at 1. unfold bind at 1. unfold lift at 1.
    destruct (block_verify c b) as [[]|e|k] eqn:Ev; [|exact HM|exact HM].
    unfold block_verify in Ev.
    gunf; destruct (0 <? Node.stake c (b_author b)); [|discriminate]; cbn [negb] in *.
    destruct (negb _); [discriminate|].
    destruct (if qc_eqb (b_qc b) qc_genesis then ROk tt else qc_verify c (b_qc b)) as [[]|e|k] eqn:Eqv; try discriminate.
    assert (Gq : qc_good c me honest w0 s (b_qc b)) by (apply ($qc_good_of_verify); auto).
    assert (Gt : tc_good c me honest w0 s (b_tc b)).
    { destruct (b_tc b) as [tc|] eqn:Etc; [|exact I]. apply (Ht tc eq_refl). exact Ev. }
    unfold bind at 1.
    pose proof ($process_qc_inv (b_qc b) s H Gq) as P. pose proof (mkeeps_process_qc (b_qc b) s) as K1.
    destruct (process_qc (b_qc b) s) as [[s1 o1] r1]. unfold st in K1; simpl in K1.
    destruct P as [I1 [L1 [-> [P1 _]]]].
    assert (M1 : MkInv s1) by (eapply MkInv_keep; eauto; apply L1).
    unfold bind at 1.
    assert (A : match (match b_tc b with Some tc => advance_round (tc_round tc) | None => ret tt end) s1 with
                | (s', _, res) => Inv s' /\ sle s1 s' /\ res = ROk tt /\ s_high_qc s' = s_high_qc s1 /\ MkInv s'
                end).
    { destruct (b_tc b) as [tc|].
      - pose proof ($advance_round_inv (tc_round tc) s1 I1) as A. pose proof (mkeeps_advance_round (tc_round tc) s1) as K2.
        destruct (advance_round (tc_round tc) s1) as [[s2 o2] r2]. unfold st in K2; simpl in K2.
        destruct A as [I2 [L2 [-> [_ [E _]]]]]. split; [exact I2|]. split; [exact L2|]. split; [reflexivity|]. split; [exact E|].
        eapply MkInv_keep; eauto. apply L2.
      - unfold ret. split; [exact I1|]. split; [split; [exists []; reflexivity|lia]|]. split; [reflexivity|]. split; [reflexivity|exact M1]. }
    destruct ((match b_tc b with Some tc => advance_round (tc_round tc) | None => ret tt end) s1) as [[s2 o2] r2].
    destruct A as [I2 [L2 [-> [E2 M2]]]].
    assert (L02 : sle s s2) by (exact (sle_tr _ _ _ L1 L2)).
    assert (Hv2 : vetted s2 b).
    { split; [eapply ($qc_good_sle); eauto|]. split; [eapply ($tc_good_sle); eauto|]. rewrite E2. exact P1. }
    unfold bind at 1.
    pose proof ($mempool_verify_inv b s2 I2 Hv2) as M. pose proof (mkeeps_mempool_verify b s2) as K3.
    destruct (mempool_verify b s2) as [[s3 o3] r3]. unfold st in K3; simpl in K3.
    destruct M as [I3 [L3 [[ok ->] _]]].
    assert (M3 : MkInv s3) by (eapply MkInv_keep; eauto; apply L3).
    destruct ok; [|exact M3].
    assert (Hv3 : vetted s3 b) by (eapply ($vetted_sle); eauto).
    pose proof (process_block_mk hint b s3 I3 M3 Hv3) as B.
    destruct (process_block c me src_dq hint b s3) as [[s4 o4] r4]. exact B.
  Qed.

  (* booting twice would request a second proposal for the current round: the main loop boots once *)
  Theorem step_mk hint e s :
    Inv s -> MkInv s -> ev_adm c me honest w0 s e -> (e = EvBoot -> s_makes s = []) ->
    MkInv (st (step c me src_dq hint e s)).
  Proof.
    intros H HM Ha Hb. destruct e as [b|v|t|tc|b| |d|d| ]; simpl in *.
    - apply handle_proposal_mk; auto.
    - apply handle_vote_mk; auto.
    - destruct Ha as [Ha1 Ha2]. apply handle_timeout_mk; auto.
    - apply handle_tc_mk; auto.
    - unfold bind at 1. unfold get at 1.
      destruct (remove_first b (s_loopback s)) as [[x l]|] eqn:Er; [|exact HM].
      destruct (remove_first_in c me honest members_nodup me_honest byz_bound _ _ _ _ Er) as [Hx Hl].
      unfold bind at 1. unfold modify at 1.
      set (s1 := set_loopback s l).
      assert (Hvx : vetted s x) by (apply (i_flight _ _ _ _ _ H); left; exact Hx).
      assert (I1 : Inv s1).
      { eapply ($Inv_frame s); eauto; try reflexivity; simpl.
        all: try (intros k y Hin; apply (i_store _ _ _ _ _ H); exact Hin).
        intros y Hy. left. unfold in_flight in *. simpl in *. destruct Hy as [Hy|Hy]; auto. }
      assert (L1 : sle s s1) by (split; [exists []; reflexivity|simpl; lia]).
      pose proof (process_block_mk hint x s1 I1 HM (($vetted_sle) _ _ _ Hvx L1)) as B.
      destruct (process_block c me src_dq hint x s1) as [[s2 o2] r2]. exact B.
    - apply local_timeout_mk; auto.
    - exact HM.
    - unfold modify, st. destruct (memN d (s_buffer s)); exact HM.
    - unfold bind at 1. unfold get at 1. destruct (me =? leader c (s_round s)); [|exact HM].
      assert (Pre : PreMake s) by (intros x Hx; rewrite (Hb eq_refl) in Hx; destruct Hx).
      pose proof (generate_proposal_mk hint None s HM Pre) as G.
      destruct (generate_proposal me hint None s) as [[s1 o1] r1]. destruct G as [G _]. exact G.
  Qed.
End Makes.
