(* Monitor soundness, definitions only (no proofs): the observation list the node MODEL itself produces for a
   list of events, so that "monitor M is true on every run of the model" can be stated as
   [forall evs, ... -> M evs (obs_of_run c me evs) = true]; and the run-level hypotheses used by those statements. *)
From Coq Require Import List NArith Bool.
From HS Require Import GTac Node Corr Monitors.
Import ListNotations.
Open Scope N_scope.

(* one observation per step: the outputs, the kind of result and the snapshot of the state AFTER the step --
   exactly what the harness records from the real node *)
Fixpoint obs_from (c : Committee) (me : N) (evs : list (list N * Event)) (s : State) : list Obs :=
  match evs with
  | [] => []
  | (h, e) :: rest =>
      match step c me src_dq h e s with
      | (s1, o, r) => mkObs o (rkind_of r) (snap s1) :: obs_from c me rest s1
      end
  end.
Definition obs_of_run (c : Committee) (me : N) (evs : list (list N * Event)) : list Obs :=
  obs_from c me evs (init c).

(* a hypothesis on every (state, event) pair met along the run from [s] *)
Fixpoint along (P : State -> Event -> Prop) (c : Committee) (me : N) (evs : list (list N * Event)) (s : State) : Prop :=
  match evs with
  | [] => True
  | (h, e) :: rest => P s e /\ along P c me rest (fst (fst (step c me src_dq h e s)))
  end.

(* the mempool hands a digest to the proposer only after the batch was stored: every [EvDigest d] is preceded by
   an [EvBatch d] (a condition on the event list alone) *)
Fixpoint dig_ok (seen : list N) (evs : list (list N * Event)) : bool :=
  match evs with
  | [] => true
  | (_, e) :: r =>
      match e with
      | EvDigest d => memN d seen && dig_ok seen r
      | EvBatch d => dig_ok (d :: seen) r
      | _ => dig_ok seen r
      end
  end.

(* the core boots at most once, before anything else *)
Definition boot_once (evs : list (list N * Event)) : bool :=
  forallb (fun x => match snd x with EvBoot => false | _ => true end) (tl evs).

(* the selector of an [EvLoopback] IS the block taken out of the loop-back pool (the model looks the block up by
   digest only; the harness always names the very block the core received) *)
Definition lb_exact (s : State) (e : Event) : Prop :=
  match e with
  | EvLoopback b => forall x l, remove_first b (s_loopback s) = Some (x, l) -> x = b
  | _ => True
  end.

(* the vote this node signs for block [x] *)
Definition vote_for (me : N) (x : Block) : Vote :=
  mkVote (block_digest x) (b_round x) me (SigOf me (CVote (block_digest x) (b_round x))).

(* second conjunct of [vote_rule_ok]: what [make_vote] tests besides the last-voted rule *)
Definition rule_ok (x : Block) : bool :=
  (qc_round (b_qc x) + 1 =? b_round x) ||
  match b_tc x with
  | Some tc => (tc_round tc + 1 =? b_round x) && forallb (fun hq => hq <=? qc_round (b_qc x)) (tc_hqrs tc)
  | None => false
  end.
