(* C08: no vote and no commit without the block's batches in the node's own store. *)
From Coq Require Import List NArith Lia Bool ZifyN ZifyBool.
From HS Require Import GTac Node.
Import ListNotations.
Open Scope N_scope.

Definition st {A} (x : State * list Out * res A) : State := fst (fst x).
Definition outs {A} (x : State * list Out * res A) : list Out := snd (fst x).

Lemma memN_in a l : memN a l = true <-> In a l.
Proof.
  unfold memN. rewrite existsb_exists. split.
  - intros [x [Hx E]]. apply N.eqb_eq in E. subst. exact Hx.
  - intros H. exists a. split; auto. apply N.eqb_refl.
Qed.

Definition dpayload (d : digest) : list N := match d with DBlk _ _ pl _ => pl | _ => [] end.
Definition avail (s : State) (b : Block) : Prop := incl (b_payload b) (s_batches s).

Record AvInv (s : State) : Prop := {
  av_loop : forall b, In b (s_loopback s) -> avail s b;
  av_sync : forall b, In b (s_sync_pending s) -> avail s b;
  av_store : forall d b, In (d, b) (s_store s) -> avail s b;
  av_pw : forall m b, In (m, b) (s_pw_pending s) -> forall d, In d (b_payload b) -> In d (s_batches s) \/ In d m;
  av_buf : incl (s_buffer s) (s_batches s);
  (* every vote this node ever signed (ghost history) is for a block whose payload is stored: a block digest
     term carries its payload, so this speaks about exactly the batches of the voted block *)
  av_hist : forall d q j, In (HVote d q j) (s_hist s) -> incl (dpayload d) (s_batches s)
}.

(* what a computation may do: keep the batches (or grow them), keep the invariant, and commit only available blocks *)
Definition good {A} (m : M A) : Prop :=
  forall s, AvInv s ->
    AvInv (st (m s)) /\ incl (s_batches s) (s_batches (st (m s))) /\
    forall b, In (OCommit b) (outs (m s)) -> avail (st (m s)) b.

Lemma avail_mono s s' b : incl (s_batches s) (s_batches s') -> avail s b -> avail s' b.
Proof. intros H A d Hd. apply H, A, Hd. Qed.

Lemma good_ret {A} (a : A) : good (ret a).
Proof. intros s H. unfold ret, st, outs. simpl. split; [exact H|]. split; [apply incl_refl|intros b []]. Qed.
Lemma good_fail {A} e : good (@fail A e).
Proof. intros s H. unfold fail, st, outs. simpl. split; [exact H|]. split; [apply incl_refl|intros b []]. Qed.
Lemma good_panic {A} k : good (@panic A k).
Proof. intros s H. unfold panic, st, outs. simpl. split; [exact H|]. split; [apply incl_refl|intros b []]. Qed.
Lemma good_get : good get.
Proof. intros s H. unfold get, st, outs. simpl. split; [exact H|]. split; [apply incl_refl|intros b []]. Qed.
Lemma good_lift {A} (r : res A) : good (lift r).
Proof. intros s H. unfold lift, st, outs. simpl. split; [exact H|]. split; [apply incl_refl|intros b []]. Qed.
Lemma good_emit o : (forall b, o <> OCommit b) -> good (emit o).
Proof.
  intros Hn s H. unfold emit, st, outs. simpl. split; [exact H|]. split; [apply incl_refl|].
  intros b [E|[]]. exfalso. eapply Hn; eauto.
Qed.
Lemma good_modify f :
  (forall s, AvInv s -> AvInv (f s) /\ incl (s_batches s) (s_batches (f s))) -> good (modify f).
Proof. intros Hf s H. unfold modify, st, outs. simpl. destruct (Hf s H). split; auto. split; auto. intros b []. Qed.

Lemma good_bind {A B} (m : M A) (f : A -> M B) : good m -> (forall a, good (f a)) -> good (bind m f).
Proof.
  intros Hm Hf s H. unfold bind. specialize (Hm s H). destruct (m s) as [[s1 o1] r1]. unfold st, outs in *. simpl in *.
  destruct Hm as [I1 [B1 C1]].
  destruct r1 as [a|e|k]; simpl; auto.
  specialize (Hf a s1 I1). destruct (f a s1) as [[s2 o2] r2]. unfold st, outs in *. simpl in *.
  destruct Hf as [I2 [B2 C2]]. split; [exact I2|]. split; [eapply incl_tran; eauto|].
  intros b Hb. apply in_app_or in Hb. destruct Hb as [Hb|Hb]; [eapply avail_mono; [exact B2|apply C1; exact Hb]|apply C2; exact Hb].
Qed.

(* updates that do not touch the six fields the invariant reads *)
Definition untouched (s s' : State) : Prop :=
  s_loopback s' = s_loopback s /\ s_sync_pending s' = s_sync_pending s /\ s_store s' = s_store s /\
  s_pw_pending s' = s_pw_pending s /\ s_buffer s' = s_buffer s /\ s_batches s' = s_batches s /\
  s_hist s' = s_hist s.
Lemma good_modify_untouched f : (forall s, untouched s (f s)) -> good (modify f).
Proof.
  intros Hf. apply good_modify. intros s H. destruct (Hf s) as [E1 [E2 [E3 [E4 [E5 [E6 E7]]]]]].
  split; [|rewrite E6; apply incl_refl].
  destruct H. constructor; unfold avail in *; rewrite ?E1, ?E2, ?E3, ?E4, ?E5, ?E6, ?E7; auto.
Qed.
Ltac untouched_tac := apply good_modify_untouched; intros; repeat split; reflexivity.

Section Avail.
  Variable c : Committee. Variable me : N.

  Lemma good_advance_round r : good (advance_round r).
  Proof.
    unfold advance_round. gunf. apply good_bind; [apply good_get|]. intros s.
    destruct (_ <? _); [apply good_ret|untouched_tac].
  Qed.
  Lemma good_update_high_qc q : good (update_high_qc q).
  Proof. unfold update_high_qc. gunf. apply good_modify_untouched. intros s. destruct (_ <? _); repeat split; reflexivity. Qed.
  Lemma good_process_qc q : good (process_qc q).
  Proof. unfold process_qc. apply good_bind; [apply good_advance_round|intro; apply good_update_high_qc]. Qed.

  Lemma same_set_incl h b : same_set h b = true -> incl h b.
  Proof.
    unfold same_set. intros H. apply andb_true_iff in H. destruct H as [H _]. apply andb_true_iff in H. destruct H as [_ H].
    rewrite forallb_forall in H. intros x Hx. apply memN_in. apply H. exact Hx.
  Qed.

  Lemma good_generate_proposal hint tc : good (generate_proposal me hint tc).
  Proof.
    intros s H. unfold generate_proposal, bind, get, emit, modify, ret, st, outs. simpl.
    assert (Hpl : incl (if same_set hint (s_buffer s) then hint else s_buffer s) (s_batches s)).
    { destruct (same_set hint (s_buffer s)) eqn:E; [|apply (av_buf s H)].
      eapply incl_tran; [apply same_set_incl; exact E|apply (av_buf s H)]. }
    destruct (same_set hint (s_buffer s)); simpl.
    all: split; [|split; [apply incl_refl|]].
    all: try (destruct H; constructor; simpl; auto; [intros b Hb; apply in_app_or in Hb;
              destruct Hb as [Hb|[<-|[]]]; [apply av_loop0; exact Hb|exact Hpl] | intros x []]).
    all: intros b Hb; repeat (destruct Hb as [Hb|Hb]; try discriminate); try contradiction.
  Qed.

  Lemma good_proposer_cleanup ds : good (proposer_cleanup ds).
  Proof.
    unfold proposer_cleanup. apply good_bind; [apply good_emit; discriminate|]. intros _.
    apply good_modify. intros s H. split; [|apply incl_refl]. destruct H. constructor; simpl; auto.
    intros x Hx. apply filter_In in Hx. apply av_buf0. tauto.
  Qed.

  Lemma AvInv_sync s p q :
    AvInv s -> (forall y, In y p -> In y (s_sync_pending s) \/ avail s y) -> AvInv (set_sync s p q).
  Proof.
    intros H Hp. destruct H. constructor; simpl; auto.
    intros y Hy. destruct (Hp y Hy) as [A|A]; [apply av_sync0; exact A|exact A].
  Qed.

  Lemma good_sync_park b : forall s, AvInv s -> avail s b ->
    AvInv (st (sync_park b s)) /\ s_batches (st (sync_park b s)) = s_batches s /\
    forall x, ~ In (OCommit x) (outs (sync_park b s)).
  Proof.
    intros s H Hb. unfold sync_park, bind, get, modify, emit, ret, st, outs. simpl.
    destruct (existsb _ (s_sync_pending s)); simpl; [split; [exact H|split; [reflexivity|intros x []]]|].
    assert (A1 : AvInv (set_sync s (s_sync_pending s ++ [b]) (s_sync_requests s))).
    { apply AvInv_sync; auto. intros y Hy. apply in_app_or in Hy. destruct Hy as [Hy|[<-|[]]]; auto. }
    destruct (existsb _ (s_sync_requests s)); simpl.
    - split; [exact A1|]. split; [reflexivity|]. intros x Hf. exact Hf.
    - split; [|split; [reflexivity|]].
      + apply (AvInv_sync _ _ _ A1). intros y Hy. left. exact Hy.
      + intros x [Hx|[]]. discriminate.
  Qed.

  Lemma store_get_in d st b : store_get d st = Some b -> In (d, b) st.
  Proof.
    induction st as [|[k v] r IH]; simpl; [discriminate|].
    destruct (digest_eqb d k) eqn:E; [|intros H; right; auto].
    intros H. inversion H; subst. left. f_equal.
    clear - E. revert k E. induction d as [|a r pl p IH|n]; intros [|a' r' pl' p'|n']; simpl; try discriminate; auto.
    - intros H. repeat (apply andb_true_iff in H; destruct H as [H ?]).
      apply N.eqb_eq in H. apply N.eqb_eq in H2. apply IH in H0. subst. f_equal.
      clear - H1. revert pl' H1. induction pl as [|x xs IHx]; intros [|y ys]; simpl; try discriminate; auto.
      intros H. apply andb_true_iff in H. destruct H as [H1 H2]. apply N.eqb_eq in H1. subst. f_equal. auto.
    - intros H. apply N.eqb_eq in H. subst. reflexivity.
  Qed.

  Lemma good_get_parent_block b s : AvInv s -> avail s b ->
    match get_parent_block b s with
    | (s', o, r) =>
        AvInv s' /\ s_batches s' = s_batches s /\ (forall x, ~ In (OCommit x) o) /\
        (forall p, r = ROk (Some p) -> s' = s /\ avail s p)
    end.
  Proof.
    intros H Hb. unfold get_parent_block.
    destruct (qc_eqb (b_qc b) qc_genesis).
    { unfold ret. split; [exact H|]. split; [reflexivity|]. split; [intros x []|].
      intros p Hp. inversion Hp; subst. split; [reflexivity|]. intros d []. }
    unfold bind at 1. unfold get at 1.
    destruct (store_get (qc_hash (b_qc b)) (s_store s)) as [p|] eqn:Eg.
    - unfold ret. split; [exact H|]. split; [reflexivity|]. split; [intros x []|].
      intros p' Hp. inversion Hp; subst. split; [reflexivity|].
      eapply (av_store s H). apply store_get_in. exact Eg.
    - pose proof (good_sync_park b s H Hb) as P. unfold bind. destruct (sync_park b s) as [[s1 o1] r1].
      unfold st, outs in *. simpl in *. destruct P as [A [B C]].
      destruct r1 as [[]|e|k]; simpl; (split; [exact A|]; split; [exact B|]; split; [|intros p Hp; discriminate]).
      all: intros x Hx; try (rewrite app_nil_r in Hx); eapply C; eauto.
  Qed.

  Lemma good_store_block b s : AvInv s -> avail s b ->
    match store_block b s with (s', o, r) => AvInv s' /\ s_batches s' = s_batches s /\ o = [] /\ r = ROk tt end.
  Proof.
    intros H Hb. unfold store_block, modify. split; [|auto]. destruct H. constructor; simpl; auto.
    - intros x Hx. apply in_app_or in Hx. destruct Hx as [Hx|Hx]; [apply av_loop0; exact Hx|].
      apply filter_In in Hx. apply av_sync0. tauto.
    - intros x Hx. apply filter_In in Hx. apply av_sync0. tauto.
    - intros d x [Hx|Hx]; [inversion Hx; subst; exact Hb|eapply av_store0; eauto].
  Qed.

  Lemma good_pw_cleanup r : good (pw_cleanup r).
  Proof.
    unfold pw_cleanup. apply good_modify. intros s H. split; [|apply incl_refl]. destruct H. constructor; simpl; auto.
    intros m b Hin. apply filter_In in Hin. eapply av_pw0. tauto.
  Qed.

  (* computations that are well behaved provided block [b] is available (its payload is stored) *)
  Definition goodb (b : Block) {A} (m : M A) : Prop :=
    forall s, AvInv s -> avail s b ->
      AvInv (st (m s)) /\ incl (s_batches s) (s_batches (st (m s))) /\
      forall x, In (OCommit x) (outs (m s)) -> avail (st (m s)) x.
  Lemma goodb_of_good b {A} (m : M A) : good m -> goodb b m.
  Proof. intros G s H _. apply G. exact H. Qed.
  Lemma goodb_bind b {A B} (m : M A) (f : A -> M B) : goodb b m -> (forall a, goodb b (f a)) -> goodb b (bind m f).
  Proof.
    intros Hm Hf s H Hb. unfold bind. specialize (Hm s H Hb). destruct (m s) as [[s1 o1] r1]. unfold st, outs in *. simpl in *.
    destruct Hm as [I1 [B1 C1]].
    destruct r1 as [a|e|k]; simpl; auto.
    specialize (Hf a s1 I1 (avail_mono _ _ _ B1 Hb)). destruct (f a s1) as [[s2 o2] r2]. unfold st, outs in *. simpl in *.
    destruct Hf as [I2 [B2 C2]]. split; [exact I2|]. split; [eapply incl_tran; eauto|].
    intros x Hx. apply in_app_or in Hx. destruct Hx as [Hx|Hx]; [eapply avail_mono; [exact B2|apply C1; exact Hx]|apply C2; exact Hx].
  Qed.

  (* the only place a vote is signed: the ghost history gains a vote for [b], whose payload is stored *)
  Lemma goodb_make_vote b : goodb b (make_vote me b).
  Proof.
    unfold make_vote, increase_last_voted. gunf. apply goodb_bind; [apply goodb_of_good, good_get|]. intros s.
    apply goodb_bind.
    { apply goodb_of_good. destruct (b_tc b); [|apply good_ret]. destruct (list_max _); [apply good_ret|apply good_panic]. }
    intros r2. destruct (negb _); [apply goodb_of_good, good_ret|].
    apply goodb_bind; [apply goodb_of_good; untouched_tac|]. intros _.
    apply goodb_bind; [|intros _; apply goodb_of_good, good_ret].
    intros s0 H0 Hb. unfold modify, st, outs. simpl. split; [|split; [apply incl_refl|intros x []]].
    destruct H0. constructor; simpl; auto.
    intros d q j [E|Hin]; [|eapply av_hist0; eauto]. inversion E; subst. simpl. exact Hb.
  Qed.

  Lemma good_handle_vote hint v : good (handle_vote c me hint v).
  Proof.
    unfold handle_vote. gunf. apply good_bind; [apply good_get|]. intros s.
    destruct (_ <? _); [apply good_ret|]. apply good_bind; [apply good_lift|]. intros _.
    destruct (qm_append _ _ _) as [m' r]. apply good_bind; [untouched_tac|]. intros _.
    apply good_bind; [apply good_lift|]. intros [qc|]; [|apply good_ret].
    apply good_bind; [apply good_process_qc|]. intros _. apply good_bind; [apply good_get|]. intros s'.
    destruct (_ =? _); [apply good_generate_proposal|apply good_ret].
  Qed.
  Lemma good_handle_timeout hint t : good (handle_timeout c me hint t).
  Proof.
    unfold handle_timeout. gunf. apply good_bind; [apply good_get|]. intros s.
    destruct (_ <? _); [apply good_ret|]. apply good_bind; [apply good_lift|]. intros _.
    apply good_bind; [apply good_process_qc|]. intros _. apply good_bind; [apply good_get|]. intros s1.
    destruct (tm_append _ _ _) as [m' r]. apply good_bind; [untouched_tac|]. intros _.
    apply good_bind; [apply good_lift|]. intros [tc|]; [|apply good_ret].
    apply good_bind; [apply good_advance_round|]. intros _. apply good_bind; [apply good_emit; discriminate|]. intros _.
    apply good_bind; [apply good_get|]. intros s'.
    destruct (_ =? _); [apply good_generate_proposal|apply good_ret].
  Qed.
  Lemma good_local_timeout hint : good (local_timeout c me hint).
  Proof.
    unfold local_timeout, increase_last_voted. apply good_bind; [apply good_get|]. intros s.
    apply good_bind; [untouched_tac|]. intros _.
    apply good_bind.
    { (* the ghost history gains a timeout event: no vote is added *)
      apply good_modify. intros s0 H0. split; [|apply incl_refl]. destruct H0. constructor; simpl; auto.
      intros d q j [E|Hin]; [discriminate|eapply av_hist0; eauto]. }
    intros _.
    apply good_bind; [apply good_emit; discriminate|]. intros _. apply good_handle_timeout.
  Qed.
  Lemma good_handle_tc hint tc : good (handle_tc c me hint tc).
  Proof.
    unfold handle_tc. gunf. apply good_bind; [apply good_lift|]. intros _. apply good_bind; [apply good_get|]. intros s.
    destruct (_ <? _); [apply good_ret|]. apply good_bind; [apply good_advance_round|]. intros _.
    apply good_bind; [apply good_get|]. intros s'. destruct (_ =? _); [apply good_generate_proposal|apply good_ret].
  Qed.

  Lemma good_batch_stored d : good (batch_stored d).
  Proof.
    unfold batch_stored. apply good_modify. intros s H. split; [|simpl; intros x Hx; right; exact Hx].
    destruct H. constructor; unfold avail in *; simpl.
    - intros b Hb. apply in_app_or in Hb. destruct Hb as [Hb|Hb].
      + intros x Hx. right. eapply av_loop0; eauto.
      + apply in_map_iff in Hb. destruct Hb as [[m b'] [<- Hin]]. simpl.
        apply filter_In in Hin. destruct Hin as [Hin Hm]. simpl in Hm. destruct m; [|discriminate].
        apply in_map_iff in Hin. destruct Hin as [[m0 b0] [Heq Hin0]]. simpl in Heq.
        injection Heq as Hm0 Hb0. subst b0.
        intros x Hx. destruct (av_pw0 _ _ Hin0 x Hx) as [A|A]; [right; exact A|].
        destruct (N.eqb_spec x d) as [->|Hne]; [left; reflexivity|].
        exfalso. assert (Hf : In x (filter (fun y => negb (y =? d)) m0)).
        { apply filter_In. split; auto. apply negb_true_iff. apply N.eqb_neq. exact Hne. }
        rewrite Hm0 in Hf. exact Hf.
    - intros b Hb x Hx. right. eapply av_sync0; eauto.
    - intros k b Hb x Hx. right. eapply av_store0; eauto.
    - intros m b Hin x Hx. apply filter_In in Hin. destruct Hin as [Hin _].
      apply in_map_iff in Hin. destruct Hin as [[m0 b0] [Heq Hin0]]. simpl in Heq.
      injection Heq as Hm0 Hb0. subst m b0.
      destruct (av_pw0 _ _ Hin0 x Hx) as [A|A]; [left; right; exact A|].
      destruct (N.eqb_spec x d) as [->|Hne]; [left; left; reflexivity|].
      right. apply filter_In. split; auto. apply negb_true_iff. apply N.eqb_neq. exact Hne.
    - intros x Hx. right. apply av_buf0. exact Hx.
    - intros d0 q j Hin x Hx. right. eapply av_hist0; eauto.
  Qed.

  Lemma commit_walk_av lcr : forall fuel parent acc s,
    AvInv s -> avail s parent -> (forall x, In x acc -> avail s x) ->
    match commit_walk src_dq fuel lcr parent acc s with
    | (s', o, r) =>
        AvInv s' /\ s_batches s' = s_batches s /\ (forall x, ~ In (OCommit x) o) /\
        (forall acc', r = ROk acc' -> forall x, In x acc' -> avail s' x)
    end.
  Proof.
    induction fuel as [|f IH]; intros parent acc s H Hp Ha; simpl.
    - unfold panic. split; [exact H|]. split; [reflexivity|]. split; [intros x []|discriminate].
    - gunfdq. destruct (_ <? _).
      2:{ unfold ret. split; [exact H|]. split; [reflexivity|]. split; [intros x []|].
          intros acc' E. inversion E; subst. exact Ha. }
      unfold bind at 1.
      pose proof (good_get_parent_block parent s H Hp) as G.
      destruct (get_parent_block parent s) as [[s1 o1] r1]. destruct G as [I1 [B1 [C1 P1]]].
      destruct r1 as [[anc|]|e|k].
      + destruct (P1 anc eq_refl) as [-> Hanc].
        destruct (_ <=? _).
        * unfold ret. split; [exact H|]. split; [reflexivity|]. split; [intros x Hx; rewrite app_nil_r in Hx; eapply C1; eauto|].
          intros acc' E. inversion E; subst. exact Ha.
        * specialize (IH anc (anc :: acc) s H Hanc).
          assert (Ha' : forall x, In x (anc :: acc) -> avail s x) by (intros x [<-|Hx]; auto).
          specialize (IH Ha'). destruct (commit_walk _ f lcr anc (anc :: acc) s) as [[s2 o2] r2].
          destruct IH as [I2 [B2 [C2 P2]]]. split; [exact I2|]. split; [exact B2|]. split; [|exact P2].
          intros x Hx. apply in_app_or in Hx. destruct Hx as [Hx|Hx]; [eapply C1; eauto|eapply C2; eauto].
      + unfold panic. split; [exact I1|]. split; [exact B1|]. split; [intros x Hx; rewrite app_nil_r in Hx; eapply C1; eauto|discriminate].
      + split; [exact I1|]. split; [exact B1|]. split; [exact C1|discriminate].
      + split; [exact I1|]. split; [exact B1|]. split; [exact C1|discriminate].
  Qed.

  Lemma deliver_all_av l : forall s, AvInv s -> (forall x, In x l -> avail s x) ->
    match deliver_all l s with
    | (s', o, r) => AvInv s' /\ s_batches s' = s_batches s /\ (forall b, In (OCommit b) o -> avail s' b)
    end.
  Proof.
    induction l as [|b l IH]; intros s H Hl; simpl.
    - unfold ret. split; [exact H|]. split; [reflexivity|intros x []].
    - unfold bind at 1. unfold emit at 1. unfold bind at 1. unfold modify at 1.
      set (s1 := set_log s (block_digest b :: s_log s)).
      assert (I1 : AvInv s1) by (destruct H; constructor; simpl; auto).
      specialize (IH s1 I1 (fun x Hx => Hl x (or_intror Hx))).
      destruct (deliver_all l s1) as [[s2 o2] r2]. destruct IH as [I2 [B2 C2]].
      split; [exact I2|]. split; [exact B2|].
      intros x [Hx|Hx]; [|apply C2; exact Hx]. inversion Hx; subst.
      intros d Hd. rewrite B2. apply (Hl x (or_introl eq_refl)). exact Hd.
  Qed.

  Lemma commit_av b0 s : AvInv s -> avail s b0 ->
    match commit src_dq b0 s with
    | (s', o, r) => AvInv s' /\ s_batches s' = s_batches s /\ (forall b, In (OCommit b) o -> avail s' b)
    end.
  Proof.
    intros H Hb. unfold commit. gunfdq. unfold bind at 1. unfold get at 1.
    destruct (_ <=? _); [unfold ret; split; [exact H|]; split; [reflexivity|intros x []]|].
    unfold bind at 1.
    pose proof (commit_walk_av (s_last_committed s) (S (S (ddepth (block_digest b0)))) b0 [] s H Hb (fun x (Hx : In x []) => match Hx with end)) as W.
    destruct (commit_walk _ _ _ b0 [] s) as [[s1 o1] r1]. destruct W as [I1 [B1 [C1 P1]]].
    destruct r1 as [anc|e|k].
    2:{ split; [exact I1|]. split; [exact B1|]. intros b Hin. exfalso. eapply C1; eauto. }
    2:{ split; [exact I1|]. split; [exact B1|]. intros b Hin. exfalso. eapply C1; eauto. }
    unfold bind at 1. unfold modify at 1.
    set (s2 := set_last_committed s1 (b_round b0)).
    assert (I2 : AvInv s2) by (destruct I1; constructor; simpl; auto).
    assert (Hl : forall x, In x (anc ++ [b0]) -> avail s2 x).
    { intros x Hx. apply in_app_or in Hx. destruct Hx as [Hx|[<-|[]]].
      - apply (P1 anc eq_refl x Hx).
      - intros d Hd. simpl. rewrite B1. apply Hb. exact Hd. }
    pose proof (deliver_all_av (anc ++ [b0]) s2 I2 Hl) as D.
    destruct (deliver_all (anc ++ [b0]) s2) as [[s3 o3] r3]. destruct D as [I3 [B3 C3]].
    split; [exact I3|]. split; [simpl in B3; congruence|].
    intros b Hin. simpl in Hin. apply in_app_or in Hin. destruct Hin as [Hin|Hin]; [exfalso; eapply C1; eauto|apply C3; exact Hin].
  Qed.

  Lemma mempool_verify_av b s : AvInv s ->
    match mempool_verify b s with
    | (s', o, r) => AvInv s' /\ s_batches s' = s_batches s /\ (forall x, ~ In (OCommit x) o) /\
                    (r = ROk true -> avail s' b) /\ exists ok, r = ROk ok
    end.
  Proof.
    intros H. unfold mempool_verify, bind, get, emit, modify, ret. simpl.
    destruct (filter (fun x => negb (memN x (s_batches s))) (b_payload b)) as [|x xs] eqn:Ef; simpl.
    - split; [exact H|]. split; [reflexivity|]. split; [intros y []|]. split; [|eauto].
      intros _ d Hd. destruct (memN d (s_batches s)) eqn:Em; [apply memN_in; exact Em|].
      exfalso. assert (In d []) by (rewrite <- Ef; apply filter_In; split; auto; rewrite Em; reflexivity). destruct H0.
    - destruct (existsb _ (s_pw_pending s)); simpl.
      + split; [exact H|]. split; [reflexivity|]. split; [intros y [Hy|[]]; discriminate|]. split; [discriminate|eauto].
      + split; [|split; [reflexivity|split; [intros y [Hy|[]]; discriminate|split; [discriminate|eauto]]]].
        destruct H. constructor; simpl; auto.
        intros m b' Hin d Hd. apply in_app_or in Hin. destruct Hin as [Hin|[Hin|[]]]; [eapply av_pw0; eauto|].
        inversion Hin; subst. destruct (memN d (s_batches s)) eqn:Em; [left; apply memN_in; exact Em|].
        right. rewrite <- Ef. apply filter_In. split; auto. rewrite Em. reflexivity.
  Qed.

  (* process_block is the only place where a node votes or commits; it is only ever entered with
     a block whose batches are stored, and everything it hands to the commit channel is stored too *)
  Lemma process_block_av hint b s : AvInv s -> avail s b ->
    match process_block c me src_dq hint b s with
    | (s', o, r) => AvInv s' /\ incl (s_batches s) (s_batches s') /\ (forall x, In (OCommit x) o -> avail s' x)
    end.
  Proof.
    intros H Hb. unfold process_block. gunf. unfold bind at 1.
    pose proof (good_get_parent_block b s H Hb) as G.
    destruct (get_parent_block b s) as [[s1 o1] r1]. destruct G as [I1 [B1 [C1 P1]]].
    destruct r1 as [[b1|]|e|k].
    2:{ unfold ret. split; [exact I1|]. split; [rewrite B1; apply incl_refl|]. intros x Hx. rewrite app_nil_r in Hx. exfalso. eapply C1; eauto. }
    2:{ split; [exact I1|]. split; [rewrite B1; apply incl_refl|]. intros x Hx. exfalso. eapply C1; eauto. }
    2:{ split; [exact I1|]. split; [rewrite B1; apply incl_refl|]. intros x Hx. exfalso. eapply C1; eauto. }
    destruct (P1 b1 eq_refl) as [-> Hb1]. clear I1 B1 P1.
    unfold bind at 1.
    pose proof (good_get_parent_block b1 s H Hb1) as G.
    destruct (get_parent_block b1 s) as [[s2 o2] r2]. destruct G as [I2 [B2 [C2 P2]]].
    destruct r2 as [[b0|]|e|k].
    2:{ unfold panic. split; [exact I2|]. split; [rewrite B2; apply incl_refl|]. intros x Hx. apply in_app_or in Hx.
        destruct Hx as [Hx|Hx]; [exfalso; eapply C1; eauto|]. rewrite app_nil_r in Hx. exfalso. eapply C2; eauto. }
    2:{ split; [exact I2|]. split; [rewrite B2; apply incl_refl|]. intros x Hx. apply in_app_or in Hx.
        destruct Hx as [Hx|Hx]; exfalso; [eapply C1|eapply C2]; eauto. }
    2:{ split; [exact I2|]. split; [rewrite B2; apply incl_refl|]. intros x Hx. apply in_app_or in Hx.
        destruct Hx as [Hx|Hx]; exfalso; [eapply C1|eapply C2]; eauto. }
    destruct (P2 b0 eq_refl) as [-> Hb0]. clear I2 B2 P2.
    (* the rest is assembled from good pieces; collect it as one computation *)
    set (rest := fun (_ : unit) =>
      proposer_cleanup (b_payload b0 ++ b_payload b1 ++ b_payload b);;;
      (if b_round b0 + 1 =? b_round b1
       then emit (OMemCleanup (b_round b0));;; pw_cleanup (b_round b0);;; commit src_dq b0 else ret tt);;;
      (s <- get;;
       if negb (b_round b =? s_round s) then ret tt
       else ov <- make_vote me b;;
            match ov with
            | Some v => let nl := leader c (s_round s + 1) in if nl =? me then handle_vote c me hint v else emit (OVote nl v)
            | None => ret tt
            end)).
    assert (R : forall s3, AvInv s3 -> avail s3 b0 -> avail s3 b ->
                match rest tt s3 with
                | (s', o, r) => AvInv s' /\ incl (s_batches s3) (s_batches s') /\ (forall x, In (OCommit x) o -> avail s' x)
                end).
    { intros s3 I3 H03 Hb3. unfold rest. unfold bind at 1.
      pose proof (good_proposer_cleanup (b_payload b0 ++ b_payload b1 ++ b_payload b) s3 I3) as P.
      destruct (proposer_cleanup _ s3) as [[s4 o4] r4]. unfold st, outs in P; simpl in P. destruct P as [I4 [B4 C4]].
      destruct r4 as [[]|e|k]; [|split; [exact I4|]; split; [exact B4|exact C4]|split; [exact I4|]; split; [exact B4|exact C4]].
      assert (H04 : avail s4 b0) by (eapply avail_mono; eauto).
      unfold bind at 1.
      assert (Cm : match (if b_round b0 + 1 =? b_round b1
                          then emit (OMemCleanup (b_round b0));;; pw_cleanup (b_round b0);;; commit src_dq b0 else ret tt) s4 with
                   | (s', o, r) => AvInv s' /\ incl (s_batches s4) (s_batches s') /\ (forall x, In (OCommit x) o -> avail s' x)
                   end).
      { destruct (_ =? _).
        - unfold bind at 1. unfold emit at 1. unfold bind at 1.
          pose proof (good_pw_cleanup (b_round b0) s4 I4) as W.
          destruct (pw_cleanup (b_round b0) s4) as [[s5 o5] r5]. unfold st, outs in W; simpl in W. destruct W as [I5 [B5 C5]].
          destruct r5 as [[]|e|k]; [|split; [exact I5|]; split; [exact B5|]; intros x [Hx|Hx]; [discriminate|apply C5; exact Hx]
                                     |split; [exact I5|]; split; [exact B5|]; intros x [Hx|Hx]; [discriminate|apply C5; exact Hx]].
          pose proof (commit_av b0 s5 I5 (avail_mono _ _ _ B5 H04)) as K.
          destruct (commit src_dq b0 s5) as [[s6 o6] r6]. destruct K as [I6 [B6 C6]].
          split; [exact I6|]. split; [rewrite B6; exact B5|].
          intros x Hx. simpl in Hx. destruct Hx as [Hx|Hx]; [discriminate|].
          apply in_app_or in Hx. destruct Hx as [Hx|Hx].
          + intros d Hd. rewrite B6. apply (C5 x Hx). exact Hd.
          + apply C6. exact Hx.
        - unfold ret. split; [exact I4|]. split; [apply incl_refl|intros x []]. }
      match type of Cm with match ?X with _ => _ end => destruct X as [[s7 o7] r7] end. destruct Cm as [I7 [B7 C7]].
      assert (Tail : goodb b (s <- get;;
                          if negb (b_round b =? s_round s) then ret tt
                          else ov <- make_vote me b;;
                               match ov with
                               | Some v => let nl := leader c (s_round s + 1) in if nl =? me then handle_vote c me hint v else emit (OVote nl v)
                               | None => ret tt
                               end)).
      { apply goodb_bind; [apply goodb_of_good, good_get|]. intros s'. destruct (negb _); [apply goodb_of_good, good_ret|].
        apply goodb_bind; [apply goodb_make_vote|]. intros [v|]; [|apply goodb_of_good, good_ret].
        cbv zeta. apply goodb_of_good. destruct (_ =? me); [apply good_handle_vote|apply good_emit; discriminate]. }
      destruct r7 as [[]|e|k].
      2:{ split; [exact I7|]. split; [eapply incl_tran; eauto|]. intros x Hx. apply in_app_or in Hx.
          destruct Hx as [Hx|Hx]; [eapply avail_mono; [exact B7|apply C4; exact Hx]|apply C7; exact Hx]. }
      2:{ split; [exact I7|]. split; [eapply incl_tran; eauto|]. intros x Hx. apply in_app_or in Hx.
          destruct Hx as [Hx|Hx]; [eapply avail_mono; [exact B7|apply C4; exact Hx]|apply C7; exact Hx]. }
      specialize (Tail s7 I7 (avail_mono _ _ _ (incl_tran B4 B7) Hb3)).
      match goal with |- context [bind get ?F s7] => destruct (bind get F s7) as [[s8 o8] r8] end.
      unfold st, outs in Tail; simpl in Tail. destruct Tail as [I8 [B8 C8]].
      split; [exact I8|]. split; [eapply incl_tran; [exact B4|eapply incl_tran; eauto]|].
      intros x Hx. apply in_app_or in Hx. destruct Hx as [Hx|Hx].
      - eapply avail_mono; [exact (incl_tran B7 B8)|apply C4; exact Hx].
      - apply in_app_or in Hx. destruct Hx as [Hx|Hx]; [eapply avail_mono; [exact B8|apply C7; exact Hx]|apply C8; exact Hx]. }
    unfold bind at 1.
    pose proof (good_store_block b s H Hb) as S.
    destruct (store_block b s) as [[s3 o3] r3]. destruct S as [I3 [B3 [-> ->]]].
    assert (H03 : avail s3 b0) by (intros d Hd; rewrite B3; apply Hb0; exact Hd).
    assert (Hb3 : avail s3 b) by (intros d Hd; rewrite B3; apply Hb; exact Hd).
    specialize (R s3 I3 H03 Hb3).
    destruct (rest tt s3) as [[s9 o9] r9]. destruct R as [I9 [B9 C9]].
    split; [exact I9|]. split; [rewrite <- B3; exact B9|].
    intros x Hx. apply in_app_or in Hx. destruct Hx as [Hx|Hx]; [exfalso; eapply C1; eauto|].
    apply in_app_or in Hx. destruct Hx as [Hx|Hx]; [exfalso; eapply C2; eauto|]. simpl in Hx. apply C9. exact Hx.
  Qed.

  Definition Post {A} (s : State) (x : State * list Out * res A) : Prop :=
    match x with
    | (s', o, _) => AvInv s' /\ incl (s_batches s) (s_batches s') /\ forall b, In (OCommit b) o -> avail s' b
    end.
  Lemma good_Post {A} (m : M A) s : good m -> AvInv s -> Post s (m s).
  Proof. intros G H. specialize (G s H). unfold Post. destruct (m s) as [[s' o] r]. exact G. Qed.

  Lemma handle_proposal_av hint b s : AvInv s -> Post s (handle_proposal c me src_dq hint b s).
  Proof.
    intros H. unfold Post, handle_proposal. unfold bind at 1.
    destruct (b_author b =? leader c (b_round b)).
    2:{ unfold fail. split; [exact H|]. split; [apply incl_refl|intros x []]. }
    unfold ret at 1. unfold bind at 1. unfold lift at 1.
    destruct (block_verify c b) as [[]|e|k].
    2:{ split; [exact H|]. split; [apply incl_refl|intros x []]. }
    2:{ split; [exact H|]. split; [apply incl_refl|intros x []]. }
    unfold bind at 1.
    pose proof (good_process_qc (b_qc b) s H) as P.
    destruct (process_qc (b_qc b) s) as [[s1 o1] r1]. unfold st, outs in P; simpl in P. destruct P as [I1 [B1 C1]].
    destruct r1 as [[]|e|k]; [|split; [exact I1|]; split; [exact B1|exact C1]|split; [exact I1|]; split; [exact B1|exact C1]].
    unfold bind at 1.
    assert (A : good (match b_tc b with Some tc => advance_round (tc_round tc) | None => ret tt end))
      by (destruct (b_tc b); [apply good_advance_round|apply good_ret]).
    specialize (A s1 I1).
    destruct ((match b_tc b with Some tc => advance_round (tc_round tc) | None => ret tt end) s1) as [[s2 o2] r2].
    unfold st, outs in A; simpl in A. destruct A as [I2 [B2 C2]].
    assert (C12 : forall x, In (OCommit x) (o1 ++ o2) -> avail s2 x).
    { intros x Hx. apply in_app_or in Hx. destruct Hx as [Hx|Hx]; [eapply avail_mono; [exact B2|apply C1; exact Hx]|apply C2; exact Hx]. }
    destruct r2 as [[]|e|k].
    2:{ split; [exact I2|]. split; [eapply incl_tran; eauto|]. exact C12. }
    2:{ split; [exact I2|]. split; [eapply incl_tran; eauto|]. exact C12. }
    unfold bind at 1.
    pose proof (mempool_verify_av b s2 I2) as M.
    destruct (mempool_verify b s2) as [[s3 o3] r3]. destruct M as [I3 [B3 [C3 [A3 [ok ->]]]]].
    assert (B03 : incl (s_batches s) (s_batches s3)) by (rewrite B3; eapply incl_tran; eauto).
    destruct ok.
    - pose proof (process_block_av hint b s3 I3 (A3 eq_refl)) as PB.
      destruct (process_block c me src_dq hint b s3) as [[s4 o4] r4]. destruct PB as [I4 [B4 C4]].
      split; [exact I4|]. split; [eapply incl_tran; eauto|].
      intros x Hx. simpl in Hx.
      repeat (apply in_app_or in Hx; destruct Hx as [Hx|Hx]).
      all: try solve [destruct Hx].
      all: try solve [apply C4; exact Hx].
      all: try solve [exfalso; eapply C3; eauto].
      all: try solve [eapply avail_mono; [|apply C2; exact Hx]; rewrite <- B3; exact B4].
      all: try solve [eapply avail_mono; [|apply C1; exact Hx]; eapply incl_tran; [exact B2|]; rewrite <- B3; exact B4].
    - unfold ret. split; [exact I3|]. split; [exact B03|].
      intros x Hx. simpl in Hx.
      repeat (apply in_app_or in Hx; destruct Hx as [Hx|Hx]).
      all: try solve [destruct Hx].
      all: try solve [exfalso; eapply C3; eauto].
      all: try solve [intros d Hd; rewrite B3; apply (C2 x Hx); exact Hd].
      all: try solve [intros d Hd; rewrite B3; apply B2; apply (C1 x Hx); exact Hd].
  Qed.

  (* the mempool hands a digest to the proposer only after storing the batch (Processor: write, then announce) *)
  Definition ev_av (s : State) (e : Event) : Prop :=
    match e with EvDigest d => In d (s_batches s) | _ => True end.

  Theorem c08_step hint e s :
    AvInv s -> ev_av s e -> Post s (step c me src_dq hint e s).
  Proof.
    intros H Ha. destruct e as [b|v|t|tc|b| |d|d| ]; cbn [step ev_av] in *.
    - apply handle_proposal_av. exact H.
    - apply good_Post; [apply good_handle_vote|exact H].
    - apply good_Post; [apply good_handle_timeout|exact H].
    - apply good_Post; [apply good_handle_tc|exact H].
    - unfold Post. unfold bind at 1. unfold get at 1.
      destruct (remove_first b (s_loopback s)) as [[x l]|] eqn:Er.
      2:{ unfold emit. split; [exact H|]. split; [apply incl_refl|]. intros y [Hy|[]]. discriminate. }
      assert (Hx : In x (s_loopback s) /\ forall y, In y l -> In y (s_loopback s)).
      { clear - Er. revert x l Er. induction (s_loopback s) as [|z zs IH]; simpl; intros x l Er; [discriminate|].
        destruct (block_eqb b z).
        - inversion Er; subst. split; [left; reflexivity|intros y Hy; right; exact Hy].
        - destruct (remove_first b zs) as [[y r']|] eqn:E; [|discriminate]. inversion Er; subst.
          destruct (IH _ _ eq_refl) as [A B]. split; [right; exact A|]. intros y' [<-|Hy]; [left; reflexivity|right; apply B; exact Hy]. }
      destruct Hx as [Hx Hl].
      unfold bind at 1. unfold modify at 1.
      set (s1 := set_loopback s l).
      assert (I1 : AvInv s1).
      { destruct H. constructor; simpl; auto. intros y Hy. apply av_loop0. apply Hl. exact Hy. }
      pose proof (process_block_av hint x s1 I1 (av_loop s H x Hx)) as PB.
      destruct (process_block c me src_dq hint x s1) as [[s2 o2] r2]. exact PB.
    - apply good_Post; [apply good_local_timeout|exact H].
    - apply good_Post; [apply good_batch_stored|exact H].
    - unfold Post, modify. destruct (memN d (s_buffer s)); simpl.
      + split; [exact H|]. split; [apply incl_refl|intros x []].
      + split; [|split; [apply incl_refl|intros x []]]. destruct H. constructor; simpl; auto.
        intros x [<-|Hx]; [exact Ha|apply av_buf0; exact Hx].
    - unfold Post. unfold bind at 1. unfold get at 1. destruct (me =? leader c (s_round s)).
      + pose proof (good_generate_proposal hint None s H) as G.
        destruct (generate_proposal me hint None s) as [[s1 o1] r1]. unfold st, outs in *. simpl in *. exact G.
      + unfold ret. split; [exact H|]. split; [apply incl_refl|intros x []].
  Qed.
End Avail.
Print Assumptions c08_step.
