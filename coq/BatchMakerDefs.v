(* C11 model (definitions only): mempool/src/batch_maker.rs. The two decision expressions are regenerated
   from the source (Guards.v): [g_batch_full] (seal when the size threshold is reached) and [g_timer_seals]
   (the timer seals a non-empty batch). *)
From Coq Require Import List NArith Bool.
From HS Require Import Guards.
Import ListNotations.
Open Scope N_scope.

Definition tx := list N.
Record BM := mkBM { cur : list tx; cur_size : N }.
Inductive bev := BTx (t : tx) | BTimer.

Definition is_nil {A} (l : list A) : bool := match l with [] => true | _ => false end.

Definition bstep (batch_size : N) (s : BM) (e : bev) : BM * list (list tx) :=
  match e with
  | BTx t =>
      let sz := cur_size s + N.of_nat (length t) in
      let c := cur s ++ [t] in
      if g_batch_full sz batch_size then (mkBM [] 0, [c]) else (mkBM c sz, [])
  | BTimer => if g_timer_seals (is_nil (cur s)) (cur_size s) batch_size then (mkBM [] 0, [cur s]) else (s, [])
  end.

Fixpoint brun (bs : N) (s : BM) (es : list bev) : BM * list (list tx) :=
  match es with
  | [] => (s, [])
  | e :: r => let '(s1, o1) := bstep bs s e in let '(s2, o2) := brun bs s1 r in (s2, o1 ++ o2)
  end.

Definition txs_of (es : list bev) : list tx := flat_map (fun e => match e with BTx t => [t] | BTimer => [] end) es.
Definition size_of (l : list tx) : N := fold_right (fun t acc => N.of_nat (length t) + acc) 0 l.

(* the benchmark build's `seal` indexes tx[0] of every transaction of the batch being sealed; this panics on an
   empty transaction unless the length test is evaluated first ([g_seal_index_guarded], regenerated) *)
Definition seal_panics (bench : bool) (batch : list tx) : bool :=
  bench && negb g_seal_index_guarded && existsb is_nil batch.

(* per-event outputs, stopping at the first panic (the task is dead from then on) *)
Fixpoint brun_ev (bench : bool) (bs : N) (s : BM) (es : list bev) : list (list (list tx)) * bool :=
  match es with
  | [] => ([], false)
  | e :: r =>
      let '(s1, o1) := bstep bs s e in
      if existsb (seal_panics bench) o1 then ([[]], true)
      else let '(tr, p) := brun_ev bench bs s1 r in (o1 :: tr, p)
  end.
