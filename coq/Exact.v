(* C04: (i) the verifiers accept exactly the valid messages; (ii) a message the verifiers reject leaves the
   node state unchanged and produces no output; (iii) every mutation class maps a valid certificate to an
   invalid one. The comparison expressions inside the verifiers are the regenerated ones (Guards.v). *)
From Coq Require Import List NArith Lia Bool ZifyN ZifyBool.
From HS Require Import GTac Node Corr Monitors Proto Link.
Import ListNotations.
Open Scope N_scope.

Section Exact.
  Variable c : Committee.
  Notation stk := (Node.stake c).

  Lemma scan_signers_complete okst names : (forall s, s <> 0 -> okst s = true) -> forall used w,
    NoDup names -> (forall a, In a names -> ~ In a used /\ stk a <> 0) ->
    scan_signers okst c names used w = ROk (w + wsum stk names).
  Proof.
    intros Hok.
    induction names as [|a r IH]; intros used w Hnd Hall; simpl.
    - f_equal. lia.
    - inversion Hnd; subst. destruct (Hall a (or_introl eq_refl)) as [Hu Hs].
      destruct (memN a used) eqn:Em; [apply memN_in in Em; contradiction|].
      rewrite (Hok _ Hs). simpl.
      rewrite IH; auto.
      + f_equal. lia.
      + intros x Hx. destruct (Hall x (or_intror Hx)) as [A B]. split; auto.
        intros [<-|Hin]; [contradiction|contradiction].
  Qed.

  (* ---------- specifications ---------- *)
  Definition qc_valid (q : QC) : Prop :=
    NoDup (map fst (qc_votes q)) /\
    (forall a, In a (map fst (qc_votes q)) -> stk a <> 0) /\
    Node.quorum c <= wsum stk (map fst (qc_votes q)) /\
    (forall v, In v (qc_votes q) -> sig_ok (fst v) (CVote (qc_hash q) (qc_round q)) (snd v) = true).
  Definition tc_valid (t : TC) : Prop :=
    NoDup (map (fun x => fst (fst x)) (tc_votes t)) /\
    (forall a, In a (map (fun x => fst (fst x)) (tc_votes t)) -> stk a <> 0) /\
    Node.quorum c <= wsum stk (map (fun x => fst (fst x)) (tc_votes t)) /\
    (forall a s hq, In (a, s, hq) (tc_votes t) -> sig_ok a (CTimeout (tc_round t) hq) s = true).
  (* the genesis certificate (hash zero, round 0, whatever its vote list) is the one stated exemption *)
  Definition qc_valid_or_genesis (q : QC) : Prop := qc_eqb q qc_genesis = true \/ qc_valid q.
  Definition vote_valid (v : Vote) : Prop :=
    stk (v_author v) <> 0 /\ sig_ok (v_author v) (CVote (v_hash v) (v_round v)) (v_sig v) = true.
  Definition timeout_valid (t : Timeout) : Prop :=
    stk (t_author t) <> 0 /\
    sig_ok (t_author t) (CTimeout (t_round t) (qc_round (t_high_qc t))) (t_sig t) = true /\
    qc_valid_or_genesis (t_high_qc t).
  Definition block_valid (b : Block) : Prop :=
    stk (b_author b) <> 0 /\
    sig_ok (b_author b) (CBlock (block_digest b)) (b_sig b) = true /\
    qc_valid_or_genesis (b_qc b) /\
    match b_tc b with Some t => tc_valid t | None => True end.

  (* ---------- (i) exactness ---------- *)
  Theorem qc_verify_exact q : qc_verify c q = ROk tt <-> qc_valid q.
  Proof.
    unfold qc_verify, qc_valid. split.
    - intros H.
      destruct (scan_signers _ c (map fst (qc_votes q)) [] 0) as [wt|e|k] eqn:Es; try discriminate.
      destruct (g_qc_weight wt (Node.quorum c)) eqn:Eq; [|discriminate]. simpl in H.
      destruct (forallb _ (qc_votes q)) eqn:Ef; [|discriminate].
      apply (scan_signers_ok c (fun _ => true)) in Es; [|gunf; intros s0 Hs0; lia]. destruct Es as [Hnd [Hall Hw]]. gunf. apply N.leb_le in Eq.
      split; [exact Hnd|]. split; [intros a Ha; apply (Hall a Ha)|]. split; [unfold Link.stk in Hw; lia|].
      intros v Hv. rewrite forallb_forall in Ef. apply (Ef v Hv).
    - intros [Hnd [Hs [Hq Hsig]]].
      rewrite (scan_signers_complete g_qc_entry_stake _ ltac:(gunf; intros s0 Hs0; apply N.ltb_lt; lia) [] 0 Hnd);
        [|intros a Ha; split; [tauto|apply Hs; exact Ha]].
      assert (Eq : g_qc_weight (0 + wsum stk (map fst (qc_votes q))) (Node.quorum c) = true) by (gunf; apply N.leb_le; lia).
      rewrite Eq. simpl.
      assert (Ef : forallb (fun v => sig_ok (fst v) (CVote (qc_hash q) (qc_round q)) (snd v)) (qc_votes q) = true)
        by (apply forallb_forall; exact Hsig).
      rewrite Ef. reflexivity.
  Qed.

  Theorem tc_verify_exact t : tc_verify c t = ROk tt <-> tc_valid t.
  Proof.
    unfold tc_verify, tc_valid. split.
    - intros H.
      destruct (scan_signers _ c (map (fun x => fst (fst x)) (tc_votes t)) [] 0) as [wt|e|k] eqn:Es; try discriminate.
      destruct (g_tc_weight wt (Node.quorum c)) eqn:Eq; [|discriminate]. simpl in H.
      destruct (forallb _ (tc_votes t)) eqn:Ef; [|discriminate].
      apply (scan_signers_ok c (fun _ => true)) in Es; [|gunf; intros s0 Hs0; lia]. destruct Es as [Hnd [Hall Hw]]. gunf. apply N.leb_le in Eq.
      split; [exact Hnd|]. split; [intros a Ha; apply (Hall a Ha)|]. split; [unfold Link.stk in Hw; lia|].
      intros a s hq Hv. rewrite forallb_forall in Ef. apply (Ef _ Hv).
    - intros [Hnd [Hs [Hq Hsig]]].
      rewrite (scan_signers_complete g_tc_entry_stake _ ltac:(gunf; intros s0 Hs0; apply N.ltb_lt; lia) [] 0 Hnd);
        [|intros a Ha; split; [tauto|apply Hs; exact Ha]].
      assert (Eq : g_tc_weight (0 + wsum stk (map (fun x => fst (fst x)) (tc_votes t))) (Node.quorum c) = true) by (gunf; apply N.leb_le; lia).
      rewrite Eq. simpl.
      assert (Ef : forallb (fun v => match v with (a, s, hq) => sig_ok a (CTimeout (tc_round t) hq) s end) (tc_votes t) = true).
      { apply forallb_forall. intros [[a s] hq] Hin. apply (Hsig a s hq Hin). }
      rewrite Ef. reflexivity.
  Qed.

  Lemma pos_iff s : (0 <? s) = true <-> s <> 0.
  Proof. rewrite N.ltb_lt. lia. Qed.

  Theorem vote_verify_exact v : vote_verify c v = ROk tt <-> vote_valid v.
  Proof.
    unfold vote_verify, vote_valid. gunf. split.
    - destruct (0 <? stk (v_author v)) eqn:E; simpl; [|discriminate].
      destruct (sig_ok _ _ _) eqn:Es; [|discriminate]. intros _. split; [apply pos_iff; exact E|reflexivity].
    - intros [Hs Hsig]. apply pos_iff in Hs. rewrite Hs, Hsig. reflexivity.
  Qed.

  Lemma qc_part_exact q :
    (if qc_eqb q qc_genesis then ROk tt else qc_verify c q) = ROk tt <-> qc_valid_or_genesis q.
  Proof.
    unfold qc_valid_or_genesis. destruct (qc_eqb q qc_genesis) eqn:E.
    - split; auto.
    - rewrite qc_verify_exact. split; [intros H; right; exact H|intros [H|H]; [discriminate|exact H]].
  Qed.

  Theorem timeout_verify_exact t : timeout_verify c t = ROk tt <-> timeout_valid t.
  Proof.
    unfold timeout_verify, timeout_valid. gunf. split.
    - destruct (0 <? stk (t_author t)) eqn:E; simpl; [|discriminate].
      destruct (sig_ok _ _ _) eqn:Es; simpl; [|discriminate].
      intros H. split; [apply pos_iff; exact E|]. split; [reflexivity|]. apply qc_part_exact. exact H.
    - intros [Hs [Hsig Hq]]. apply pos_iff in Hs. rewrite Hs, Hsig. simpl. apply qc_part_exact. exact Hq.
  Qed.

  Theorem block_verify_exact b : block_verify c b = ROk tt <-> block_valid b.
  Proof.
    unfold block_verify, block_valid. gunf. split.
    - destruct (0 <? stk (b_author b)) eqn:E; simpl; [|discriminate].
      destruct (sig_ok _ _ _) eqn:Es; simpl; [|discriminate].
      destruct (if qc_eqb (b_qc b) qc_genesis then ROk tt else qc_verify c (b_qc b)) as [[]|e|k] eqn:Eq; try discriminate.
      intros H. split; [apply pos_iff; exact E|]. split; [reflexivity|]. split; [apply qc_part_exact; exact Eq|].
      destruct (b_tc b) as [t|]; [apply tc_verify_exact; exact H|exact I].
    - intros [Hs [Hsig [Hq Ht]]]. apply pos_iff in Hs. rewrite Hs, Hsig. simpl.
      apply qc_part_exact in Hq. rewrite Hq.
      destruct (b_tc b) as [t|]; [apply tc_verify_exact; exact Ht|reflexivity].
  Qed.

  (* ---------- (iii) every mutation class of C04 produces an invalid certificate ---------- *)
  Corollary qc_repeated_signer_rejected q a s1 s2 l1 l2 l3 :
    qc_votes q = l1 ++ (a, s1) :: l2 ++ (a, s2) :: l3 -> qc_verify c q <> ROk tt.
  Proof.
    intros E H. apply qc_verify_exact in H. destruct H as [Hnd _]. rewrite E in Hnd.
    rewrite map_app in Hnd. simpl in Hnd. apply NoDup_remove_2 in Hnd. apply Hnd.
    apply in_or_app. right. rewrite map_app. apply in_or_app. right. left. reflexivity.
  Qed.
  Corollary qc_transplanted_signature_rejected q a x ct :
    In (a, SigOf x ct) (qc_votes q) -> (x <> a \/ ct <> CVote (qc_hash q) (qc_round q)) -> qc_verify c q <> ROk tt.
  Proof.
    intros Hin Hd H. apply qc_verify_exact in H. destruct H as [_ [_ [_ Hsig]]].
    specialize (Hsig _ Hin). simpl in Hsig. apply andb_true_iff in Hsig. destruct Hsig as [E1 E2].
    apply N.eqb_eq in E1. destruct Hd as [Hd|Hd]; [congruence|].
    apply Hd. destruct ct as [d|h r|r hq]; simpl in E2; try discriminate.
    apply andb_true_iff in E2. destruct E2 as [A B]. apply digest_eqb_eq in A. apply N.eqb_eq in B. congruence.
  Qed.
  Corollary qc_nonmember_rejected q a s : In (a, s) (qc_votes q) -> stk a = 0 -> qc_verify c q <> ROk tt.
  Proof.
    intros Hin Hz H. apply qc_verify_exact in H. destruct H as [_ [Hs _]].
    apply (Hs a); [apply in_map_iff; exists (a, s); auto|exact Hz].
  Qed.
  Corollary qc_subquorum_rejected q : wsum stk (map fst (qc_votes q)) < Node.quorum c -> qc_verify c q <> ROk tt.
  Proof. intros Hlt H. apply qc_verify_exact in H. destruct H as [_ [_ [Hq _]]]. lia. Qed.
  Corollary tc_repeated_signer_rejected t a s1 h1 s2 h2 l1 l2 l3 :
    tc_votes t = l1 ++ (a, s1, h1) :: l2 ++ (a, s2, h2) :: l3 -> tc_verify c t <> ROk tt.
  Proof.
    intros E H. apply tc_verify_exact in H. destruct H as [Hnd _]. rewrite E in Hnd.
    rewrite map_app in Hnd. simpl in Hnd. apply NoDup_remove_2 in Hnd. apply Hnd.
    apply in_or_app. right. rewrite map_app. apply in_or_app. right. left. reflexivity.
  Qed.
  Corollary tc_wrong_content_rejected t a x ct hq :
    In (a, SigOf x ct, hq) (tc_votes t) -> (x <> a \/ ct <> CTimeout (tc_round t) hq) -> tc_verify c t <> ROk tt.
  Proof.
    intros Hin Hd H. apply tc_verify_exact in H. destruct H as [_ [_ [_ Hsig]]].
    specialize (Hsig _ _ _ Hin). simpl in Hsig. apply andb_true_iff in Hsig. destruct Hsig as [E1 E2].
    apply N.eqb_eq in E1. destruct Hd as [Hd|Hd]; [congruence|].
    apply Hd. destruct ct as [d|h r|r hq']; simpl in E2; try discriminate.
    apply andb_true_iff in E2. destruct E2 as [A B]. apply N.eqb_eq in A. apply N.eqb_eq in B. congruence.
  Qed.
  (* a signature of one kind never verifies as another kind; a block signature covers author, round, payload, parent *)
  Corollary vote_sig_kind a h r x ct : sig_ok a (CVote h r) (SigOf x ct) = true -> x = a /\ ct = CVote h r.
  Proof.
    simpl. intros H. apply andb_true_iff in H. destruct H as [E1 E2]. apply N.eqb_eq in E1. split; [exact E1|].
    destruct ct as [d|h' r'|r' hq]; simpl in E2; try discriminate.
    apply andb_true_iff in E2. destruct E2 as [A B]. apply digest_eqb_eq in A. apply N.eqb_eq in B. congruence.
  Qed.
  Corollary block_altered_field_rejected b b' :
    block_verify c b' = ROk tt -> b_sig b' = b_sig b -> b_author b' = b_author b ->
    block_verify c b = ROk tt -> block_digest b' = block_digest b.
  Proof.
    intros H' Es Ea H. apply block_verify_exact in H. apply block_verify_exact in H'.
    destruct H as [_ [S _]]. destruct H' as [_ [S' _]]. rewrite Es, Ea in S'.
    destruct (b_sig b) as [x ct|k]; [|cbn [sig_ok] in S; discriminate]. cbn [sig_ok] in S, S'.
    apply andb_true_iff in S. apply andb_true_iff in S'. destruct S as [_ S]. destruct S' as [_ S'].
    destruct ct as [d|h r|r hq]; cbn [content_eqb] in S, S'; try discriminate.
    apply digest_eqb_eq in S. apply digest_eqb_eq in S'. congruence.
  Qed.

  (* ---------- (ii) non-interference ---------- *)
  Variable me : N.
  Definition is_msg (e : Event) : bool :=
    match e with EvPropose _ | EvVote _ | EvTimeout _ | EvTC _ => true | _ => false end.

  Theorem c04_noninterference hint e s :
    is_msg e = true -> ev_valid c e = false ->
    exists r, step c me src_dq hint e s = (s, [], r) /\ (forall k, r <> RPanic k).
  Proof.
    intros Hm Hv. destruct e as [b|v|t|tc|b| |d|d| ]; try discriminate; cbn [step ev_valid] in *.
    - unfold handle_proposal. unfold bind at 1.
      destruct (b_author b =? leader c (b_round b)) eqn:El; cbn [andb] in Hv.
      + unfold ret at 1. unfold bind at 1. unfold lift at 1.
        destruct (block_verify c b) as [[]|e|k] eqn:Eb; [discriminate| |exfalso; eapply block_verify_nopanic; eauto].
        exists (RErr e). split; [reflexivity|intros k; discriminate].
      + unfold fail. exists (RErr EWrongLeader). split; [reflexivity|intros k; discriminate].
    - unfold handle_vote. unfold bind at 1, get at 1.
      destruct (g_vote_stale (v_round v) (s_round s)).
      + exists (ROk tt). split; [reflexivity|intros k; discriminate].
      + unfold bind at 1, lift at 1.
        destruct (vote_verify c v) as [[]|e|k] eqn:Eb; [discriminate| |exfalso; eapply vote_verify_nopanic; eauto].
        exists (RErr e). split; [reflexivity|intros k; discriminate].
    - unfold handle_timeout. unfold bind at 1, get at 1.
      destruct (g_timeout_stale (t_round t) (s_round s)).
      + exists (ROk tt). split; [reflexivity|intros k; discriminate].
      + unfold bind at 1, lift at 1.
        destruct (timeout_verify c t) as [[]|e|k] eqn:Eb; [discriminate| |exfalso; eapply timeout_verify_nopanic; eauto].
        exists (RErr e). split; [reflexivity|intros k; discriminate].
    - unfold handle_tc. unfold bind at 1, lift at 1. unfold tc_okb in Hv.
      destruct (tc_verify c tc) as [[]|e|k] eqn:Eb; [discriminate| |exfalso; eapply tc_verify_nopanic; eauto].
      exists (RErr e). split; [reflexivity|intros k; discriminate].
  Qed.

  (* consequently any later event sequence behaves identically with or without the rejected message *)
  Corollary c04_same_future hint e s rest :
    is_msg e = true -> ev_valid c e = false ->
    fst (run c me src_dq ((hint, e) :: rest) s) = fst (run c me src_dq rest s) /\
    tl (snd (run c me src_dq ((hint, e) :: rest) s)) = snd (run c me src_dq rest s) /\
    (exists r, hd ([], ROk tt) (snd (run c me src_dq ((hint, e) :: rest) s)) = ([], r)).
  Proof.
    intros Hm Hv. destruct (c04_noninterference hint e s Hm Hv) as [r [E _]].
    cbn [run]. rewrite E. destruct (run c me src_dq rest s) as [s2 tr]. simpl. repeat split; eauto.
  Qed.
End Exact.
Print Assumptions qc_verify_exact.
Print Assumptions block_verify_exact.
Print Assumptions c04_noninterference.
