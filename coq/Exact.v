(* C04 (i): the verifiers accept exactly the valid certificates. *)
From Coq Require Import List NArith Lia Bool ZifyN ZifyBool.
From HS Require Import GTac Node Proto Link.
Import ListNotations.
Open Scope N_scope.

Section Exact.
  Variable c : Committee.
  Notation stk := (Node.stake c).

  Lemma scan_signers_complete names : forall used w,
    NoDup names -> (forall a, In a names -> ~ In a used /\ stk a <> 0) ->
    scan_signers c names used w = ROk (w + wsum stk names).
  Proof.
    induction names as [|a r IH]; intros used w Hnd Hall; simpl.
    - f_equal. lia.
    - inversion Hnd; subst. destruct (Hall a (or_introl eq_refl)) as [Hu Hs].
      destruct (memN a used) eqn:Em; [apply memN_in in Em; contradiction|].
      destruct (stk a =? 0) eqn:E0; [apply N.eqb_eq in E0; contradiction|].
      rewrite IH; auto.
      + f_equal. lia.
      + intros x Hx. destruct (Hall x (or_intror Hx)) as [A B]. split; auto.
        intros [<-|Hin]; [contradiction|contradiction].
  Qed.

  Definition qc_valid (q : QC) : Prop :=
    NoDup (map fst (qc_votes q)) /\
    (forall a, In a (map fst (qc_votes q)) -> stk a <> 0) /\
    Node.quorum c <= wsum stk (map fst (qc_votes q)) /\
    (forall v, In v (qc_votes q) -> sig_ok (fst v) (CVote (qc_hash q) (qc_round q)) (snd v) = true).

  Theorem qc_verify_exact q : qc_verify c q = ROk tt <-> qc_valid q.
  Proof.
    unfold qc_verify, qc_valid. split.
    - intros H.
      destruct (scan_signers c (map fst (qc_votes q)) [] 0) as [wt|e|k] eqn:Es; try discriminate.
      destruct (wt <? Node.quorum c) eqn:Eq; [discriminate|].
      destruct (forallb _ (qc_votes q)) eqn:Ef; [|discriminate].
      apply scan_signers_ok in Es. destruct Es as [Hnd [Hall Hw]]. apply N.ltb_ge in Eq.
      split; [exact Hnd|]. split; [intros a Ha; apply (Hall a Ha)|]. split; [unfold Link.stk in Hw; lia|].
      intros v Hv. rewrite forallb_forall in Ef. apply (Ef v Hv). exact (fun _ => true).
    - intros [Hnd [Hs [Hq Hsig]]].
      rewrite (scan_signers_complete _ [] 0 Hnd); [|intros a Ha; split; [tauto|apply Hs; exact Ha]].
      destruct (0 + wsum stk (map fst (qc_votes q)) <? Node.quorum c) eqn:Eq; [apply N.ltb_lt in Eq; lia|].
      assert (Ef : forallb (fun v => sig_ok (fst v) (CVote (qc_hash q) (qc_round q)) (snd v)) (qc_votes q) = true)
        by (apply forallb_forall; exact Hsig).
      rewrite Ef. reflexivity.
  Qed.

  (* every mutation class of C04 produces an invalid certificate *)
  Corollary qc_repeated_signer_rejected q a s1 s2 l1 l2 l3 :
    qc_votes q = l1 ++ (a, s1) :: l2 ++ (a, s2) :: l3 -> qc_verify c q <> ROk tt.
  Proof.
    intros E H. apply qc_verify_exact in H. destruct H as [Hnd _]. rewrite E in Hnd.
    rewrite map_app in Hnd. simpl in Hnd. apply NoDup_remove_2 in Hnd. apply Hnd.
    apply in_or_app. right. rewrite map_app. apply in_or_app. right. left. reflexivity.
  Qed.
  Corollary qc_transplanted_signature_rejected q a x ct :
    In (a, SigOf x ct) (qc_votes q) -> (x <> a \/ ct <> CVote (qc_hash q) (qc_round q)) -> qc_verify c q <> ROk tt.
  Proof.
    intros Hin Hd H. apply qc_verify_exact in H. destruct H as [_ [_ [_ Hsig]]].
    specialize (Hsig _ Hin). simpl in Hsig. apply andb_true_iff in Hsig. destruct Hsig as [E1 E2].
    apply N.eqb_eq in E1. destruct Hd as [Hd|Hd]; [congruence|].
    apply Hd. destruct ct as [d|h r|r hq]; simpl in E2; try discriminate.
    apply andb_true_iff in E2. destruct E2 as [A B]. apply digest_eqb_eq in A. apply N.eqb_eq in B. congruence.
  Qed.
End Exact.
Print Assumptions qc_verify_exact.
