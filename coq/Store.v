(* C16: model of store/src/lib.rs (the single task serialising commands) and its refinement to a map. *)
From Coq Require Import List NArith Lia Bool ZifyN ZifyBool.
Import ListNotations.
Open Scope N_scope.

Definition key := N.     (* the harness interns byte strings; equality is all the store uses *)
Definition value := N.

Inductive cmd :=
| Write (k : key) (v : value)
| Read (k : key) (id : N)
| NotifyRead (k : key) (id : N)
| Reopen.                                  (* all handles dropped, database reopened *)

Inductive sout := ORead (id : N) (v : option value) | ONotify (id : N) (v : value).

Record St := mkSt { db : list (key * value); obl : list (key * N) (* pending waiters, FIFO *) }.

Fixpoint get (k : key) (m : list (key * value)) : option value :=
  match m with [] => None | (k', v) :: r => if k =? k' then Some v else get k r end.

Definition sstep (s : St) (c : cmd) : St * list sout :=
  match c with
  | Write k v =>
      let woken := filter (fun e => fst e =? k) (obl s) in
      (mkSt ((k, v) :: db s) (filter (fun e => negb (fst e =? k)) (obl s)),
       map (fun e => ONotify (snd e) v) woken)
  | Read k id => (s, [ORead id (get k (db s))])
  | NotifyRead k id =>
      match get k (db s) with
      | Some v => (s, [ONotify id v])
      | None => (mkSt (db s) (obl s ++ [(k, id)]), [])
      end
  | Reopen => (mkSt (db s) [], [])
  end.

Fixpoint srun (s : St) (cs : list cmd) : St * list sout :=
  match cs with
  | [] => (s, [])
  | c :: r => let '(s1, o1) := sstep s c in let '(s2, o2) := srun s1 r in (s2, o1 ++ o2)
  end.

(* ---- specification: a map, and the set of waiters that must still be served ---- *)
Definition spec_map (cs : list cmd) (k : key) : option value :=
  fold_left (fun acc c => match c with Write k' v => if k =? k' then Some v else acc | _ => acc end) cs None.

Lemma spec_map_app cs c k :
  spec_map (cs ++ [c]) k = match c with Write k' v => if k =? k' then Some v else spec_map cs k | _ => spec_map cs k end.
Proof. unfold spec_map. rewrite fold_left_app. simpl. destruct c; reflexivity. Qed.

(* the concrete database represents the map of the history; no waiter waits on a present key *)
Definition SInv (hist : list cmd) (s : St) : Prop :=
  (forall k, get k (db s) = spec_map hist k) /\
  (forall k id, In (k, id) (obl s) -> spec_map hist k = None).

Theorem sstep_refines hist s c :
  SInv hist s ->
  let '(s', o) := sstep s c in
  SInv (hist ++ [c]) s' /\
  match c with
  | Read k id => o = [ORead id (spec_map hist k)]                       (* latest write, or nothing *)
  | NotifyRead k id =>
      match spec_map hist k with
      | Some v => o = [ONotify id v]                                     (* served at once *)
      | None => o = [] /\ In (k, id) (obl s')                            (* parked *)
      end
  | Write k v =>                                                          (* every waiter of k, FIFO, gets v *)
      o = map (fun e => ONotify (snd e) v) (filter (fun e => fst e =? k) (obl s)) /\
      (forall id, ~ In (k, id) (obl s'))
  | Reopen => o = [] /\ obl s' = []
  end.
Proof.
  intros [Hdb Hob]. destruct c as [k v|k id|k id|]; simpl.
  - split; [split|split; [reflexivity|]].
    + intros k'. rewrite spec_map_app. simpl. destruct (k' =? k); [reflexivity|apply Hdb].
    + intros k' id Hin. apply filter_In in Hin. destruct Hin as [Hin Hne]. simpl in Hne.
      rewrite spec_map_app. destruct (k' =? k); [discriminate|]. eapply Hob; eauto.
    + intros id Hin. apply filter_In in Hin. destruct Hin as [_ Hne]. simpl in Hne. rewrite N.eqb_refl in Hne. discriminate.
  - split; [split|].
    + intros k'. rewrite spec_map_app. apply Hdb.
    + intros k' id' Hin. rewrite spec_map_app. eapply Hob; eauto.
    + rewrite Hdb. reflexivity.
  - rewrite <- Hdb. destruct (get k (db s)) as [v|] eqn:Eg; simpl.
    + split; [split|reflexivity].
      * intros k'. rewrite spec_map_app. apply Hdb.
      * intros k' id' Hin. rewrite spec_map_app. eapply Hob; eauto.
    + split; [split|split; [reflexivity|apply in_or_app; right; left; reflexivity]].
      * intros k'. rewrite spec_map_app. apply Hdb.
      * intros k' id' Hin. rewrite spec_map_app. apply in_app_or in Hin. destruct Hin as [Hin|[Hin|[]]].
        -- eapply Hob; eauto.
        -- inversion Hin; subst. rewrite <- Hdb. exact Eg.
  - split; [split|split; reflexivity].
    + intros k'. rewrite spec_map_app. apply Hdb.
    + intros k' id [].
Qed.
Print Assumptions sstep_refines.
