(* C16: model of store/src/lib.rs (the single task serialising commands) and its refinement to a map. *)
From Coq Require Import List NArith Lia Bool ZifyN ZifyBool.
From HS Require Import StoreDefs.
Import ListNotations.
Open Scope N_scope.

Lemma spec_map_app cs c k :
  spec_map (cs ++ [c]) k = match c with Write k' v => if k =? k' then Some v else spec_map cs k | _ => spec_map cs k end.
Proof. unfold spec_map. rewrite fold_left_app. simpl. destruct c; reflexivity. Qed.

(* the concrete database represents the map of the history; no waiter waits on a present key *)
Definition SInv (hist : list cmd) (s : St) : Prop :=
  (forall k, get k (db s) = spec_map hist k) /\
  (forall k id, In (k, id) (obl s) -> spec_map hist k = None).

Theorem sstep_refines hist s c :
  SInv hist s ->
  let '(s', o) := sstep s c in
  SInv (hist ++ [c]) s' /\
  match c with
  | Read k id => o = [ORead id (spec_map hist k)]                       (* latest write, or nothing *)
  | NotifyRead k id =>
      match spec_map hist k with
      | Some v => o = [ONotify id v]                                     (* served at once *)
      | None => o = [] /\ In (k, id) (obl s')                            (* parked *)
      end
  | Write k v =>                                                          (* every waiter of k, FIFO, gets v *)
      o = map (fun e => ONotify (snd e) v) (filter (fun e => fst e =? k) (obl s)) /\
      (forall id, ~ In (k, id) (obl s'))
  | Reopen => o = [] /\ obl s' = []
  | Cancel id => o = [] /\ (forall k, ~ In (k, id) (obl s')) /\
                 (forall k id', id' <> id -> (In (k, id') (obl s') <-> In (k, id') (obl s)))   (* the others keep waiting *)
  end.
Proof.
  intros [Hdb Hob]. destruct c as [k v|k id|k id| |id]; simpl.
  - split; [split|split; [reflexivity|]].
    + intros k'. rewrite spec_map_app. simpl. destruct (k' =? k); [reflexivity|apply Hdb].
    + intros k' id Hin. apply filter_In in Hin. destruct Hin as [Hin Hne]. simpl in Hne.
      rewrite spec_map_app. destruct (k' =? k); [discriminate|]. eapply Hob; eauto.
    + intros id Hin. apply filter_In in Hin. destruct Hin as [_ Hne]. simpl in Hne. rewrite N.eqb_refl in Hne. discriminate.
  - split; [split|].
    + intros k'. rewrite spec_map_app. apply Hdb.
    + intros k' id' Hin. rewrite spec_map_app. eapply Hob; eauto.
    + rewrite Hdb. reflexivity.
  - rewrite <- Hdb. destruct (get k (db s)) as [v|] eqn:Eg; simpl.
    + split; [split|reflexivity].
      * intros k'. rewrite spec_map_app. apply Hdb.
      * intros k' id' Hin. rewrite spec_map_app. eapply Hob; eauto.
    + split; [split|split; [reflexivity|apply in_or_app; right; left; reflexivity]].
      * intros k'. rewrite spec_map_app. apply Hdb.
      * intros k' id' Hin. rewrite spec_map_app. apply in_app_or in Hin. destruct Hin as [Hin|[Hin|[]]].
        -- eapply Hob; eauto.
        -- inversion Hin; subst. rewrite <- Hdb. exact Eg.
  - split; [split|split; reflexivity].
    + intros k'. rewrite spec_map_app. apply Hdb.
    + intros k' id [].
  - split; [split|split; [reflexivity|split]].
    + intros k'. rewrite spec_map_app. apply Hdb.
    + intros k' id' Hin. rewrite spec_map_app. apply filter_In in Hin. destruct Hin as [Hin _]. eapply Hob; eauto.
    + intros k Hin. apply filter_In in Hin. destruct Hin as [_ Hne]. simpl in Hne. rewrite N.eqb_refl in Hne. discriminate.
    + intros k id' Hne. rewrite filter_In. simpl. split; [tauto|]. intros Hin. split; [exact Hin|].
      apply negb_true_iff. apply N.eqb_neq. exact Hne.
Qed.
Print Assumptions sstep_refines.
