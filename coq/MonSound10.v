(* Monitor soundness, part 10: the ghost-history monitor [ghost_c03] is true of the model's own ghost history after every
   run, whatever the messages (no admissibility hypothesis).  The ghost history changes in two places only: a vote
   cast for the processed block is pushed when the last-voted rule holds (all older events have a round at most the
   last-voted round, which is below the block's round), and an own timeout of the current round carrying the current
   high-QC round is pushed by the timer (every recorded vote has a QC round at most the high-QC round). *)
From Coq Require Import List NArith Lia Bool.
From HS Require Import GTac Node Corr Monitors Proto Link Exact MonSoundDefs MonSound2 MonSound4 MonSound5.
Import ListNotations.
Open Scope N_scope.

Definition lvh (s : State) : N * list hev := (s_last_voted s, s_hist s).
Notation hq_ := (keeps lvh (fun _ => true)).

Section HistFrame.
  Variable c : Committee. Variable me : N. Variable dq : DqCfg.
  Lemma hq_advance_round r : hq_ (advance_round r).
  Proof. unfold advance_round. keeps_go. Qed.
  Hint Resolve hq_advance_round : keeps.
  Lemma hq_update_high_qc q : hq_ (update_high_qc q).
  Proof. unfold update_high_qc. keeps_go. Qed.
  Hint Resolve hq_update_high_qc : keeps.
  Lemma hq_process_qc q : hq_ (process_qc q).
  Proof. unfold process_qc. keeps_go. Qed.
  Hint Resolve hq_process_qc : keeps.
  Lemma hq_generate_proposal hint tc : hq_ (generate_proposal me hint tc).
  Proof. unfold generate_proposal. keeps_go. Qed.
  Hint Resolve hq_generate_proposal : keeps.
  Lemma hq_proposer_cleanup ds : hq_ (proposer_cleanup ds).
  Proof. unfold proposer_cleanup. keeps_go. Qed.
  Hint Resolve hq_proposer_cleanup : keeps.
  Lemma hq_sync_park b : hq_ (sync_park b).
  Proof. unfold sync_park. keeps_go. Qed.
  Hint Resolve hq_sync_park : keeps.
  Lemma hq_get_parent_block b : hq_ (get_parent_block b).
  Proof. unfold get_parent_block. keeps_go. Qed.
  Hint Resolve hq_get_parent_block : keeps.
  Lemma hq_store_block b : hq_ (store_block b).
  Proof. unfold store_block. apply keeps_modify. intros s. reflexivity. Qed.
  Hint Resolve hq_store_block : keeps.
  Lemma hq_commit_walk lcr : forall fuel parent acc, hq_ (commit_walk dq fuel lcr parent acc).
  Proof. induction fuel as [|f IH]; intros parent acc; simpl; keeps_go; apply IH. Qed.
  Hint Resolve hq_commit_walk : keeps.
  Lemma hq_deliver_all l : hq_ (deliver_all l).
  Proof. induction l as [|b l IH]; simpl; keeps_go. Qed.
  Hint Resolve hq_deliver_all : keeps.
  Lemma hq_commit b : hq_ (commit dq b).
  Proof. unfold commit. keeps_go. Qed.
  Hint Resolve hq_commit : keeps.
  Lemma hq_handle_vote hint v : hq_ (handle_vote c me hint v).
  Proof. unfold handle_vote. keeps_go. Qed.
  Hint Resolve hq_handle_vote : keeps.
  Lemma hq_handle_timeout hint t : hq_ (handle_timeout c me hint t).
  Proof. unfold handle_timeout. keeps_go. Qed.
  Hint Resolve hq_handle_timeout : keeps.
  Lemma hq_handle_tc hint tc : hq_ (handle_tc c me hint tc).
  Proof. unfold handle_tc. keeps_go. Qed.
  Lemma hq_pw_cleanup r : hq_ (pw_cleanup r).
  Proof. unfold pw_cleanup. keeps_go. Qed.
  Hint Resolve hq_pw_cleanup : keeps.
  Lemma hq_mempool_verify b : hq_ (mempool_verify b).
  Proof. unfold mempool_verify. keeps_go. Qed.
  Hint Resolve hq_mempool_verify : keeps.
  Lemma hq_batch_stored d : hq_ (batch_stored d).
  Proof. unfold batch_stored. keeps_go. Qed.
End HistFrame.
Global Hint Resolve hq_advance_round hq_update_high_qc hq_process_qc hq_generate_proposal hq_proposer_cleanup hq_sync_park
  hq_get_parent_block hq_store_block hq_commit_walk hq_deliver_all hq_commit hq_handle_vote hq_handle_timeout
  hq_pw_cleanup hq_mempool_verify : keeps.

Section Hist.
  Variable c : Committee. Variable me : N. Variable dq : DqCfg.

  (* between [s] and [s']: nothing happened to (last voted, history), or a vote for [x] was pushed *)
  Definition pushed (x : Block) (s s' : State) : Prop :=
    s_last_voted s < b_round x /\ s_last_voted s' = b_round x /\
    exists j, s_hist s' = HVote (block_digest x) (qc_round (b_qc x)) j :: s_hist s.
  Definition hspec (x : Block) {A} (m : M A) : Prop :=
    forall s, match m s with (s', _, _) => lvh s' = lvh s \/ pushed x s s' end.

  Lemma hspec_of_hq x {A} (m : M A) : hq_ m -> hspec x m.
  Proof. intros Q s. specialize (Q s). destruct (m s) as [[s' o] r]. left. apply Q. Qed.
  Lemma hspec_bind_hq x {A B} (m : M A) (k : A -> M B) : hq_ m -> (forall a, hspec x (k a)) -> hspec x (bind m k).
  Proof.
    intros Q Hk s. unfold bind. specialize (Q s). destruct (m s) as [[s1 o1] r1]. destruct Q as [E _].
    destruct r1 as [a|e|n]; [|left; exact E..].
    specialize (Hk a s1). destruct (k a s1) as [[s2 o2] r2].
    unfold lvh, pushed in *. injection E as E1 E2. rewrite <- E1, <- E2. exact Hk.
  Qed.

  Lemma hspec_vote_tail hint x nl :
    hspec x (ov <- make_vote me x ;;
             match ov with
             | None => ret tt
             | Some v => if nl =? me then handle_vote c me hint v else emit (OVote nl v)
             end).
  Proof.
    intros s. unfold bind. pose proof (make_vote_spec me x s) as V.
    destruct (make_vote me x s) as [[s1 o1] r1].
    destruct V as [-> [[L [Hh Nn]]|[-> [C1 [C2 [[j Hj] C4]]]]]].
    - assert (E : lvh s1 = lvh s) by (unfold lvh; congruence).
      destruct r1 as [[v|]|e|n]; [exfalso; eapply Nn; reflexivity| | |]; cbn; left; exact E.
    - assert (K : hq_ (if nl =? me then handle_vote c me hint (vote_for me x) else emit (OVote nl (vote_for me x))))
        by (destruct (nl =? me); [apply hq_handle_vote|apply keeps_emit; reflexivity]).
      specialize (K s1).
      destruct ((if nl =? me then handle_vote c me hint (vote_for me x) else emit (OVote nl (vote_for me x))) s1)
        as [[s2 o2] r2].
      destruct K as [E _]. unfold lvh in E. injection E as E1 E2. right. unfold pushed.
      split; [exact C1|]. split; [congruence|]. exists j. congruence.
  Qed.

  Lemma hspec_process_block hint x : hspec x (process_block c me dq hint x).
  Proof.
    unfold process_block.
    apply hspec_bind_hq; [auto with keeps|]. intros [b1|]; [|apply hspec_of_hq, keeps_ret].
    apply hspec_bind_hq; [auto with keeps|]. intros [b0|]; [|apply hspec_of_hq, keeps_panic].
    apply hspec_bind_hq; [auto with keeps|]. intros _.
    apply hspec_bind_hq; [auto with keeps|]. intros _.
    apply hspec_bind_hq; [keeps_go|]. intros _.
    apply hspec_bind_hq; [apply keeps_get|]. intros s.
    destruct (g_round_gate _ _ _ _ _ _); [apply hspec_of_hq, keeps_ret|].
    apply hspec_vote_tail.
  Qed.

  (* the ghost history after a step *)
  Theorem step_hist hint e s :
    match step c me dq hint e s with
    | (s', _, _) =>
        lvh s' = lvh s \/
        (exists x, processed c e s x /\ pushed x s s') \/
        (e = EvTimer /\ s_last_voted s' = N.max (s_last_voted s) (s_round s) /\
         s_hist s' = HTimeout (s_round s) (qc_round (s_high_qc s)) :: s_hist s)
    end.
  Proof.
    assert (Q : forall m : M unit, hq_ m ->
                match m s with
                | (s', _, _) => lvh s' = lvh s \/ (exists x, processed c e s x /\ pushed x s s') \/
                     (e = EvTimer /\ s_last_voted s' = N.max (s_last_voted s) (s_round s) /\
                      s_hist s' = HTimeout (s_round s) (qc_round (s_high_qc s)) :: s_hist s)
                end).
    { intros m Hm. specialize (Hm s). destruct (m s) as [[s1 o] r]. left. apply Hm. }
    destruct e as [b|v|t|tc|b| |d|d| ]; cbn [step].
    - unfold handle_proposal. unfold bind at 1.
      destruct (b_author b =? leader c (b_round b)) eqn:El; [|unfold fail; left; reflexivity].
      unfold ret at 1. unfold bind at 1. unfold lift at 1.
      destruct (block_verify c b) as [[]|er|k] eqn:Eb; [|left; reflexivity..].
      match goal with |- context [bind (process_qc (b_qc b)) ?K s] => set (M := bind (process_qc (b_qc b)) K) end.
      assert (V : hspec b M).
      { apply hspec_bind_hq; [auto with keeps|]. intros _.
        apply hspec_bind_hq; [keeps_go|]. intros _.
        apply hspec_bind_hq; [auto with keeps|]. intros [|]; [apply hspec_process_block|apply hspec_of_hq, keeps_ret]. }
      specialize (V s). destruct (M s) as [[s1 o] r]. cbn [app].
      destruct V as [V|V]; [left; exact V|right; left]. exists b. split; [|exact V].
      split; [reflexivity|]. split; [apply N.eqb_eq; exact El|exact Eb].
    - apply Q. auto with keeps.
    - apply Q. auto with keeps.
    - apply Q. apply hq_handle_tc.
    - unfold bind at 1. unfold get at 1.
      destruct (remove_first b (s_loopback s)) as [[x l]|] eqn:Er; [|unfold emit; left; reflexivity].
      assert (V : hspec x (modify (fun s0 => set_loopback s0 l) ;;; process_block c me dq hint x)).
      { apply hspec_bind_hq; [keeps_go|]. intros _. apply hspec_process_block. }
      specialize (V s). cbn [app].
      destruct ((modify (fun s0 => set_loopback s0 l) ;;; process_block c me dq hint x) s) as [[s1 o] r].
      destruct V as [V|V]; [left; exact V|right; left]. exists x. split; [exists l; exact Er|exact V].
    - unfold local_timeout. unfold bind at 1. unfold get at 1.
      unfold bind at 1. unfold increase_last_voted at 1. unfold modify at 1.
      unfold bind at 1. unfold modify at 1. unfold bind at 1. unfold emit at 1. cbn [app].
      match goal with |- context [handle_timeout c me hint ?T ?S] =>
        pose proof (hq_handle_timeout c me hint T S) as H;
        destruct (handle_timeout c me hint T S) as [[s3 o3] r3] end.
      destruct H as [E _]. unfold lvh in E. cbn in E. injection E as E1 E2.
      right. right. split; [reflexivity|]. split; [exact E1|exact E2].
    - apply Q. apply hq_batch_stored.
    - apply Q. keeps_go.
    - apply Q. keeps_go.
  Qed.
End Hist.

Section Ghost.
  Variable c : Committee. Variable me : N.

  Definition GH (s : State) : Prop :=
    ghost_c03 (s_hist s) = true /\ forall e, In e (s_hist s) -> Monitors.evround e <= s_last_voted s.

  Lemma step_gh hint e s :
    WfInv c s -> GH s -> GH (fst (fst (step c me src_dq hint e s))).
  Proof.
    intros H [G L].
    pose proof (step_hist c me src_dq hint e s) as K.
    pose proof (step_wf c me src_dq hint e s H) as W. unfold gat in W.
    destruct (step c me src_dq hint e s) as [[s1 o] r]. cbn [fst]. destruct W as [H1 _].
    destruct K as [K|[[x [_ [C1 [C2 [j Hj]]]]]|[_ [K1 K2]]]].
    - unfold lvh in K. injection K as K1 K2. unfold GH. rewrite K1, K2. split; assumption.
    - unfold GH. rewrite Hj, C2. split.
      + cbn [ghost_c03]. rewrite G, andb_true_r.
        destruct (wf_hist c s1 H1 (block_digest x) (qc_round (b_qc x)) j) as [Hq _]; [rewrite Hj; left; reflexivity|].
        apply andb_true_iff. split; [|apply N.ltb_lt; exact Hq].
        apply forallb_forall. intros e' He'. apply N.ltb_lt. specialize (L e' He'). cbn [block_digest dround]. lia.
      + intros e' [<-|He']; [cbn; lia|]. specialize (L e' He'). lia.
    - unfold GH. rewrite K1, K2. split.
      + cbn [ghost_c03]. rewrite G, andb_true_r.
        apply forallb_forall. intros e' He'. destruct e' as [d q j|r' hq']; [|reflexivity].
        apply N.leb_le. apply (wf_hist c s H d q j He').
      + intros e' [<-|He']; [cbn; lia|]. specialize (L e' He'). lia.
  Qed.

  (* after every run of the node model from the initial state, whatever the events *)
  Theorem ghost_c03_sound evs : ghost_c03 (s_hist (fst (run c me src_dq evs (init c)))) = true.
  Proof.
    assert (R : forall evs s, WfInv c s -> GH s -> GH (fst (run c me src_dq evs s))).
    { induction evs0 as [|[h e] r IH]; intros s H G; cbn [run]; [exact G|].
      pose proof (step_gh h e s H G) as G1.
      pose proof (step_wf c me src_dq h e s H) as W. unfold gat in W.
      destruct (step c me src_dq h e s) as [[s1 o] res]. cbn [fst] in G1. destruct W as [H1 _].
      specialize (IH s1 H1 G1). destruct (run c me src_dq r s1) as [s2 tr]. exact IH. }
    apply (R evs (init c) (WfInv_init c)). split; [reflexivity|intros e []].
  Qed.
End Ghost.
Print Assumptions ghost_c03_sound.
