(* Primitives for the regenerated skeleton of mempool/src/batch_maker.rs (tools/skelbm.py -> GenBM.v): a state/output monad over the
   model state BM (current_batch, current_batch_size); outputs: the batch broadcast to the peers, the batch handed to the quorum waiter. *)
From Coq Require Import List NArith Bool.
From HS Require Import Guards BatchMakerDefs.
Import ListNotations.
Open Scope N_scope.

Inductive bout := BOBroadcast (b : list tx) | BOEmit (b : list tx).
Definition BMM (A : Type) := BM -> (A * BM * list bout).
Definition bret {A} (a : A) : BMM A := fun s => (a, s, []).
Definition bbind {A B} (m : BMM A) (f : A -> BMM B) : BMM B :=
  fun s => let '(a, s1, o1) := m s in let '(b, s2, o2) := f a s1 in (b, s2, o1 ++ o2).
Notation "x <- m ;; k" := (bbind m (fun x => k)) (at level 61, m at next level, right associativity).
Definition bm_get : BMM BM := fun s => (s, s, []).
Definition bm_add_size (n : N) : BMM unit := fun s => (tt, mkBM (cur s) (cur_size s + n), []).   (* self.current_batch_size += n *)
Definition bm_set_size (n : N) : BMM unit := fun s => (tt, mkBM (cur s) n, []).                  (* self.current_batch_size = n *)
Definition bm_push (t : tx) : BMM unit := fun s => (tt, mkBM (cur s ++ [t]) (cur_size s), []).     (* self.current_batch.push(t) *)
Definition bm_drain : BMM (list tx) := fun s => (cur s, mkBM [] (cur_size s), []).                 (* self.current_batch.drain(..).collect() *)
Definition bm_broadcast (b : list tx) : BMM unit := fun s => (tt, s, [BOBroadcast b]).             (* network.broadcast(addresses, serialize(Batch(b))) *)
Definition bm_emit (b : list tx) : BMM unit := fun s => (tt, s, [BOEmit b]).                       (* tx_message.send(QuorumWaiterMessage{batch: serialize(Batch(b)), handlers}) *)
