(* C09 (iii): a node votes only for blocks authored by the leader of the block's round.  Node level: the invariant
   [LvInv] "every block waiting anywhere inside the node (loop-back pool, parked on a missing parent, parked on missing
   batches, stored) names the leader of its round as author, and so does every block this node ever voted for", and its
   preservation by every handler, from every input whatsoever (no admissibility hypothesis, no signature assumption),
   for every deque discipline [dq].  Blocks enter through handle_proposal, which tests exactly this before anything
   else, or are own proposals, made only under the test `me = leader (round)`. *)
From Coq Require Import List NArith Lia Bool.
From HS Require Import GTac Node LeaderVotesDefs.
Import ListNotations.
Open Scope N_scope.

Definition lst {A} (x : State * list Out * res A) : State := fst (fst x).

Section LV.
  Variable c : Committee.
  Variable me : N.
  Variable dq : DqCfg.

  Definition by_leader (b : Block) : Prop := b_author b = leader c (b_round b).

  Record LvInv (s : State) : Prop := {
    lv_loop : forall b, In b (s_loopback s) -> by_leader b;
    lv_sync : forall b, In b (s_sync_pending s) -> by_leader b;
    lv_pw : forall m b, In (m, b) (s_pw_pending s) -> by_leader b;
    lv_store : forall d b, In (d, b) (s_store s) -> by_leader b;
    lv_hist : forall d q j, In (HVote d q j) (s_hist s) -> dauthor d = leader c (dround d)
  }.

  Lemma by_leader_genesis : by_leader block_genesis.
  Proof. unfold by_leader, leader, g_leader_index. simpl. reflexivity. Qed.

  Definition lg_at {A} (m : M A) (s : State) : Prop := LvInv s -> LvInv (lst (m s)).
  Definition lg {A} (m : M A) : Prop := forall s, lg_at m s.

  Lemma lg_ret {A} (a : A) : lg (ret a). Proof. intros s H. exact H. Qed.
  Lemma lg_fail {A} e : lg (@fail A e). Proof. intros s H. exact H. Qed.
  Lemma lg_panic {A} k : lg (@panic A k). Proof. intros s H. exact H. Qed.
  Lemma lg_get : lg get. Proof. intros s H. exact H. Qed.
  Lemma lg_emit o : lg (emit o). Proof. intros s H. exact H. Qed.
  Lemma lg_lift {A} (r : res A) : lg (lift r). Proof. intros s H. exact H. Qed.
  Lemma lg_modify f : (forall s, LvInv s -> LvInv (f s)) -> lg (modify f).
  Proof. intros Hf s H. apply Hf. exact H. Qed.

  Lemma lg_bind_at {A B} (m : M A) (f : A -> M B) s :
    lg_at m s -> (forall a s1 o1, m s = (s1, o1, ROk a) -> lg_at (f a) s1) -> lg_at (bind m f) s.
  Proof.
    intros Hm Hf H. specialize (Hm H). unfold bind, lg_at, lst in *. destruct (m s) as [[s1 o1] r1]. simpl in *.
    destruct r1 as [a|e|k]; auto.
    specialize (Hf a s1 o1 eq_refl Hm). destruct (f a s1) as [[s2 o2] r2]. simpl in *. exact Hf.
  Qed.
  Lemma lg_bind {A B} (m : M A) (f : A -> M B) : lg m -> (forall a, lg (f a)) -> lg (bind m f).
  Proof. intros Hm Hf s. apply lg_bind_at; [apply Hm|]. intros a s1 o1 _. apply Hf. Qed.

  (* updates that do not touch the five fields the invariant reads *)
  Definition untouched (s s' : State) : Prop :=
    s_loopback s' = s_loopback s /\ s_sync_pending s' = s_sync_pending s /\ s_pw_pending s' = s_pw_pending s /\
    s_store s' = s_store s /\ s_hist s' = s_hist s.
  Lemma lg_modify_untouched f : (forall s, untouched s (f s)) -> lg (modify f).
  Proof.
    intros Hf. apply lg_modify. intros s H. destruct (Hf s) as [E1 [E2 [E3 [E4 E5]]]].
    destruct H. constructor; rewrite ?E1, ?E2, ?E3, ?E4, ?E5; auto.
  Qed.
  Ltac untouched_tac := apply lg_modify_untouched; intros; repeat split; reflexivity.

  Lemma lg_advance_round r : lg (advance_round r).
  Proof.
    unfold advance_round. apply lg_bind; [apply lg_get|]. intros s.
    destruct (g_advance_guard _ _ _ _ _); [apply lg_ret|untouched_tac].
  Qed.
  Lemma lg_update_high_qc q : lg (update_high_qc q).
  Proof.
    unfold update_high_qc. apply lg_modify_untouched. intros s.
    destruct (g_update_high_qc _ _ _ _ _); repeat split; reflexivity.
  Qed.
  Lemma lg_process_qc q : lg (process_qc q).
  Proof. unfold process_qc. apply lg_bind; [apply lg_advance_round|intro; apply lg_update_high_qc]. Qed.

  (* an own proposal names [me] as author and the current round: fine when [me] leads the current round *)
  Lemma generate_proposal_lv hint tc s :
    LvInv s -> me = leader c (s_round s) -> LvInv (lst (generate_proposal me hint tc s)).
  Proof.
    intros H Hl. unfold generate_proposal, bind, get, emit, modify, ret, lst. simpl.
    destruct (same_set hint (s_buffer s)); simpl.
    all: destruct H; constructor; simpl; auto.
    all: intros b Hb; apply in_app_or in Hb; destruct Hb as [Hb|[<-|[]]]; [apply lv_loop0; exact Hb|].
    all: unfold by_leader; simpl; exact Hl.
  Qed.
  (* ... and that is the test every call site makes first *)
  Lemma lg_maybe_propose hint tc :
    lg (s <- get ;; if me =? leader c (s_round s) then generate_proposal me hint tc else ret tt).
  Proof.
    intros s H. unfold bind at 1. unfold get at 1.
    destruct (me =? leader c (s_round s)) eqn:E.
    - apply N.eqb_eq in E. pose proof (generate_proposal_lv hint tc s H E) as G.
      destruct (generate_proposal me hint tc s) as [[s1 o1] r1]. exact G.
    - exact H.
  Qed.

  Lemma lg_proposer_cleanup ds : lg (proposer_cleanup ds).
  Proof. unfold proposer_cleanup. apply lg_bind; [apply lg_emit|]. intros _. untouched_tac. Qed.

  Lemma LvInv_sync s p q :
    LvInv s -> (forall y, In y p -> In y (s_sync_pending s) \/ by_leader y) -> LvInv (set_sync s p q).
  Proof.
    intros H Hp. destruct H. constructor; simpl; auto.
    intros y Hy. destruct (Hp y Hy) as [A|A]; [apply lv_sync0; exact A|exact A].
  Qed.

  Lemma lg_sync_park b : by_leader b -> lg (sync_park b).
  Proof.
    intros Hb. unfold sync_park. apply lg_bind; [apply lg_get|]. intros s0.
    destruct (existsb _ _); [apply lg_ret|]. cbv zeta.
    apply lg_bind.
    { apply lg_modify. intros s H. apply LvInv_sync; auto.
      intros y Hy. apply in_app_or in Hy. destruct Hy as [Hy|[<-|[]]]; auto. }
    intros _. destruct (existsb _ _); [apply lg_ret|].
    apply lg_bind; [|intros _; apply lg_emit].
    apply lg_modify. intros s H. apply LvInv_sync; auto.
  Qed.

  Lemma store_get_in d st b : store_get d st = Some b -> exists k, In (k, b) st.
  Proof.
    induction st as [|[k v] r IH]; simpl; [discriminate|].
    destruct (digest_eqb d k).
    - intros H. inversion H; subst. exists k. left. reflexivity.
    - intros H. destruct (IH H) as [k' Hk]. exists k'. right. exact Hk.
  Qed.

  (* the parent handed back is the genesis block or a stored block: named after the leader of its round *)
  Lemma get_parent_block_lv b s :
    LvInv s -> by_leader b ->
    match get_parent_block b s with
    | (s', o, r) => LvInv s' /\ forall p, r = ROk (Some p) -> by_leader p
    end.
  Proof.
    intros H Hb. unfold get_parent_block.
    destruct (qc_eqb (b_qc b) qc_genesis).
    { unfold ret. split; [exact H|]. intros p Hp. inversion Hp; subst. apply by_leader_genesis. }
    unfold bind at 1. unfold get at 1.
    destruct (store_get (qc_hash (b_qc b)) (s_store s)) as [p|] eqn:Eg.
    - unfold ret. split; [exact H|]. intros p' Hp. inversion Hp; subst.
      destruct (store_get_in _ _ _ Eg) as [k Hk]. eapply (lv_store s H); eauto.
    - pose proof (lg_sync_park b Hb s H) as P. unfold bind. destruct (sync_park b s) as [[s1 o1] r1].
      unfold lst in P. simpl in P.
      destruct r1 as [[]|e|k]; simpl; (split; [exact P|intros p Hp; discriminate]).
  Qed.

  Lemma lg_store_block b : by_leader b -> lg (store_block b).
  Proof.
    intros Hb. unfold store_block. apply lg_modify. intros s H. destruct H. constructor; simpl; auto.
    - intros x Hx. apply in_app_or in Hx. destruct Hx as [Hx|Hx]; [apply lv_loop0; exact Hx|].
      apply filter_In in Hx. apply lv_sync0. tauto.
    - intros x Hx. apply filter_In in Hx. apply lv_sync0. tauto.
    - intros d x [Hx|Hx]; [inversion Hx; subst; exact Hb|eapply lv_store0; eauto].
  Qed.

  Lemma lg_pw_cleanup r : lg (pw_cleanup r).
  Proof.
    unfold pw_cleanup. apply lg_modify. intros s H. destruct H. constructor; simpl; auto.
    intros m b Hin. apply filter_In in Hin. eapply lv_pw0. apply Hin.
  Qed.

  Lemma commit_walk_lv lcr : forall fuel parent acc s,
    LvInv s -> by_leader parent -> LvInv (lst (commit_walk dq fuel lcr parent acc s)).
  Proof.
    induction fuel as [|f IH]; intros parent acc s H Hp; simpl; [exact H|].
    destruct (g_commit_walk _ _); [|exact H].
    unfold bind at 1.
    pose proof (get_parent_block_lv parent s H Hp) as G.
    destruct (get_parent_block parent s) as [[s1 o1] r1]. destruct G as [I1 P1].
    destruct r1 as [[anc|]|e|k]; try exact I1.
    destruct (dq_stop _ _ _); [exact I1|].
    specialize (IH anc (dq_push (dq_anc_front dq) anc acc) s1 I1 (P1 anc eq_refl)).
    destruct (commit_walk dq f lcr anc _ s1) as [[s2 o2] r2]. exact IH.
  Qed.
  Lemma lg_deliver_all l : lg (deliver_all l).
  Proof.
    induction l as [|b l IH]; simpl; [apply lg_ret|].
    apply lg_bind; [apply lg_emit|]. intros _.
    apply lg_bind; [untouched_tac|]. intros _. exact IH.
  Qed.
  Lemma lg_commit b : by_leader b -> lg (commit dq b).
  Proof.
    intros Hb. unfold commit. apply lg_bind; [apply lg_get|]. intros s0.
    destruct (g_commit_skip _ _ _ _ _); [apply lg_ret|]. cbv zeta.
    apply lg_bind.
    { intros s H. apply commit_walk_lv; auto. }
    intros anc. apply lg_bind; [untouched_tac|]. intros _. apply lg_deliver_all.
  Qed.

  (* the only place a vote is signed: the ghost history gains a vote for [b] *)
  Lemma lg_make_vote b : by_leader b -> lg (make_vote me b).
  Proof.
    intros Hb. unfold make_vote, increase_last_voted. apply lg_bind; [apply lg_get|]. intros s0. cbv zeta.
    apply lg_bind.
    { destruct (b_tc b); [|apply lg_ret]. destruct (list_max _); [apply lg_ret|apply lg_panic]. }
    intros r2. destruct (negb _); [apply lg_ret|].
    apply lg_bind; [untouched_tac|]. intros _.
    apply lg_bind; [|intros _; apply lg_ret].
    apply lg_modify. intros s H. destruct H. constructor; simpl; auto.
    intros d q j [E|Hin]; [|eapply lv_hist0; eauto]. inversion E; subst. simpl. exact Hb.
  Qed.

  Lemma lg_handle_vote hint v : lg (handle_vote c me hint v).
  Proof.
    unfold handle_vote. apply lg_bind; [apply lg_get|]. intros s.
    destruct (g_vote_stale _ _ _ _ _); [apply lg_ret|]. apply lg_bind; [apply lg_lift|]. intros _.
    cbv zeta. destruct (qm_append _ _ _) as [m' r]. apply lg_bind; [untouched_tac|]. intros _.
    apply lg_bind; [apply lg_lift|]. intros [qc|]; [|apply lg_ret].
    apply lg_bind; [apply lg_process_qc|]. intros _. apply lg_maybe_propose.
  Qed.
  Lemma lg_handle_timeout hint t : lg (handle_timeout c me hint t).
  Proof.
    unfold handle_timeout. apply lg_bind; [apply lg_get|]. intros s.
    destruct (g_timeout_stale _ _ _ _ _); [apply lg_ret|]. apply lg_bind; [apply lg_lift|]. intros _.
    apply lg_bind; [apply lg_process_qc|]. intros _. apply lg_bind; [apply lg_get|]. intros s1.
    destruct (tm_append _ _ _) as [m' r]. apply lg_bind; [untouched_tac|]. intros _.
    apply lg_bind; [apply lg_lift|]. intros [tc|]; [|apply lg_ret].
    apply lg_bind; [apply lg_advance_round|]. intros _. apply lg_bind; [apply lg_emit|]. intros _.
    apply lg_maybe_propose.
  Qed.
  Lemma lg_local_timeout hint : lg (local_timeout c me hint).
  Proof.
    unfold local_timeout, increase_last_voted. apply lg_bind; [apply lg_get|]. intros s.
    apply lg_bind; [untouched_tac|]. intros _. cbv zeta.
    apply lg_bind.
    { (* the ghost history gains a timeout event: no vote is added *)
      apply lg_modify. intros s0 H0. destruct H0. constructor; simpl; auto.
      intros d q j [E|Hin]; [discriminate|eapply lv_hist0; eauto]. }
    intros _.
    apply lg_bind; [apply lg_emit|]. intros _. apply lg_handle_timeout.
  Qed.
  Lemma lg_handle_tc hint tc : lg (handle_tc c me hint tc).
  Proof.
    unfold handle_tc. apply lg_bind; [apply lg_lift|]. intros _. apply lg_bind; [apply lg_get|]. intros s.
    destruct (g_tc_stale _ _ _ _ _); [apply lg_ret|]. apply lg_bind; [apply lg_advance_round|]. intros _.
    apply lg_maybe_propose.
  Qed.

  Lemma lg_mempool_verify b : by_leader b -> lg (mempool_verify b).
  Proof.
    intros Hb. unfold mempool_verify. apply lg_bind; [apply lg_get|]. intros s0. cbv zeta.
    destruct (filter _ _); [apply lg_ret|].
    apply lg_bind; [apply lg_emit|]. intros _.
    apply lg_bind; [|intros _; apply lg_ret].
    destruct (existsb _ _); [apply lg_ret|].
    apply lg_modify. intros s H. destruct H. constructor; simpl; auto.
    intros m x Hin. apply in_app_or in Hin. destruct Hin as [Hin|[Hin|[]]]; [eapply lv_pw0; eauto|].
    inversion Hin; subst. exact Hb.
  Qed.

  Lemma lg_batch_stored d : lg (batch_stored d).
  Proof.
    unfold batch_stored. apply lg_modify. intros s H.
    assert (Hsub : forall (l : list N * Block -> bool) m b,
               In (m, b) (filter l (map (fun e : list N * Block => (filter (fun x => negb (x =? d)) (fst e), snd e)) (s_pw_pending s))) ->
               by_leader b).
    { intros l m b Hin. apply filter_In in Hin. destruct Hin as [Hin _]. apply in_map_iff in Hin.
      destruct Hin as [[m0 b0] [Heq Hin]]. simpl in Heq. inversion Heq; subst. eapply (lv_pw s H); eauto. }
    destruct H. constructor; simpl; auto.
    - intros b Hb. apply in_app_or in Hb. destruct Hb as [Hb|Hb]; [apply lv_loop0; exact Hb|].
      apply in_map_iff in Hb. destruct Hb as [[m b'] [<- Hin]]. simpl. eapply Hsub; eauto.
    - intros m b Hin. eapply Hsub; eauto.
  Qed.

  (* process_block is the only place where a node votes; it is only ever entered with a block named after the
     leader of its round *)
  Lemma lg_process_block hint b : by_leader b -> lg (process_block c me dq hint b).
  Proof.
    intros Hb s H. unfold process_block. unfold bind at 1.
    pose proof (get_parent_block_lv b s H Hb) as G.
    destruct (get_parent_block b s) as [[s1 o1] r1]. destruct G as [I1 P1].
    destruct r1 as [[b1|]|e|k]; try exact I1.
    assert (Hb1 : by_leader b1) by (apply P1; reflexivity).
    unfold bind at 1.
    pose proof (get_parent_block_lv b1 s1 I1 Hb1) as G.
    destruct (get_parent_block b1 s1) as [[s2 o2] r2]. destruct G as [I2 P2].
    destruct r2 as [[b0|]|e|k]; try exact I2.
    assert (Hb0 : by_leader b0) by (apply P2; reflexivity).
    (* the rest is assembled from the pieces above *)
    match goal with |- LvInv (lst (let (p, r) := let (p0, r0) := ?R s2 in _ in _)) =>
      assert (L : lg R); [|specialize (L s2 I2); destruct (R s2) as [[s3 o3] r3]; exact L] end.
    apply lg_bind; [apply lg_store_block; exact Hb|]. intros _.
    apply lg_bind; [apply lg_proposer_cleanup|]. intros _.
    apply lg_bind.
    { destruct (g_two_chain _ _ _); [|apply lg_ret].
      apply lg_bind; [apply lg_emit|]. intros _.
      apply lg_bind; [apply lg_pw_cleanup|]. intros _. apply lg_commit. exact Hb0. }
    intros _. apply lg_bind; [apply lg_get|]. intros s'.
    destruct (g_round_gate _ _ _ _ _ _); [apply lg_ret|].
    apply lg_bind; [apply lg_make_vote; exact Hb|]. intros [v|]; [|apply lg_ret].
    cbv zeta. destruct (_ =? me); [apply lg_handle_vote|apply lg_emit].
  Qed.

  (* handle_proposal tests the author against the leader of the block's round before anything else *)
  Lemma lg_handle_proposal hint b : lg (handle_proposal c me dq hint b).
  Proof.
    unfold handle_proposal. destruct (b_author b =? leader c (b_round b)) eqn:E.
    2:{ intros s H. exact H. }
    apply N.eqb_eq in E.
    apply lg_bind; [apply lg_ret|]. intros _.
    apply lg_bind; [apply lg_lift|]. intros _.
    apply lg_bind; [apply lg_process_qc|]. intros _.
    apply lg_bind; [destruct (b_tc b); [apply lg_advance_round|apply lg_ret]|]. intros _.
    apply lg_bind; [apply lg_mempool_verify; exact E|].
    intros [|]; [apply lg_process_block; exact E|apply lg_ret].
  Qed.

  Lemma remove_first_sub b l x r : remove_first b l = Some (x, r) -> In x l /\ (forall y, In y r -> In y l).
  Proof.
    revert x r. induction l as [|z zs IH]; simpl; intros x r Hr; [discriminate|].
    destruct (block_eqb b z).
    - inversion Hr; subst. split; [left; reflexivity|intros y Hy; right; exact Hy].
    - destruct (remove_first b zs) as [[y r']|] eqn:E; [|discriminate].
      inversion Hr; subst. destruct (IH _ _ eq_refl) as [A B]. split; [right; exact A|].
      intros y' [<-|Hy]; [left; reflexivity|right; apply B; exact Hy].
  Qed.

  (* every event, every hint, every state satisfying the invariant: no hypothesis on the event at all *)
  Theorem step_lv hint e s : LvInv s -> LvInv (lst (step c me dq hint e s)).
  Proof.
    revert s. change (lg (step c me dq hint e)).
    destruct e as [b|v|t|tc|b| |d|d| ]; cbn [step].
    - apply lg_handle_proposal.
    - apply lg_handle_vote.
    - apply lg_handle_timeout.
    - apply lg_handle_tc.
    - intros s H. unfold bind at 1. unfold get at 1.
      destruct (remove_first b (s_loopback s)) as [[x l]|] eqn:Er; [|exact H].
      destruct (remove_first_sub _ _ _ _ Er) as [Hx Hl].
      unfold bind at 1. unfold modify at 1.
      assert (I1 : LvInv (set_loopback s l)).
      { destruct H. constructor; simpl; auto. }
      pose proof (lg_process_block hint x (lv_loop s H x Hx) (set_loopback s l) I1) as B.
      destruct (process_block c me dq hint x (set_loopback s l)) as [[s2 o2] r2]. exact B.
    - apply lg_local_timeout.
    - apply lg_batch_stored.
    - apply lg_modify_untouched. intros s. destruct (memN d (s_buffer s)); repeat split; reflexivity.
    - apply lg_maybe_propose.
  Qed.

  Lemma LvInv_init : LvInv (init c).
  Proof. constructor; simpl; intros; contradiction. Qed.
End LV.
Print Assumptions step_lv.
