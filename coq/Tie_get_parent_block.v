(* Tie lemma for `get_parent_block`: the statement skeleton REGENERATED from the Rust source (GenCore.v, tools/skel.py) computes, for every
   argument and every state, exactly what the hand-written model function does (same state, same outputs, same result). *)
From Coq Require Import List NArith Bool Lia ZArith.
From Coq Require Import ZifyN ZifyBool.
From HS Require Import TieTac GenCore.
Import ListNotations.
Open Scope N_scope.

Lemma tie_get_parent_block c me dq hint b s : gen_get_parent_block c me dq hint b s = get_parent_block b s.
Proof. unfold gen_get_parent_block, get_parent_block, store_read_block. tie. Qed.
