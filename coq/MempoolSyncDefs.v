(* C13 model (definitions only): mempool/src/synchronizer.rs, the task that asks other mempools for the batches
   the consensus found missing.

   State of the task: `round` (the argument of the last Cleanup; "loosely keeps track of the consensus's round") and
   `pending : HashMap<Digest, (Round, Sender<()>, u128)>`, modelled as an association list in insertion order
   (keys are kept distinct, see MempoolSync.ms_wf_step; the order only matters for retry requests, whose digest
   order is a HashMap artefact and is compared as a set by the correspondence check).

   What is stored for a digest, as read from the source: `(self.round, tx_cancel, now)`, i.e. the round of the LAST
   CLEANUP received before the Synchronize command (not the round of the block that needs the batch) and the
   wall-clock time in ms of that Synchronize command. A retry does NOT refresh the timestamp.

   Events:
     MSync ds target now   ConsensusMempoolMessage::Synchronize(ds, target) handled at wall-clock `now`
     MCleanup r            ConsensusMempoolMessage::Cleanup(r)
     MArrived d            the waiter of d completed: `store.notify_read(d)` returned, `pending.remove(d)`
     MRetry now pick       the 1 s timer fired at wall-clock `now`; `pick` = the peers `lucky_broadcast` drew
                           (shuffle + truncate(sync_retry_nodes) of the other members: see [pick_ok])
   Output: one [mreq] per message handed to the network: MempoolMessage::BatchRequest(digests, origin) -> dest. *)
From Coq Require Import List NArith Bool.
From HS Require Import Guards.
Import ListNotations.
Open Scope N_scope.

(* The decision expressions of the source, REGENERATED from mempool/src/synchronizer.rs by tools/regen.py (Guards.v). *)
(* synchronizer.rs, Cleanup arm: `if self.round < self.gc_depth { continue; }` *)
Definition ms_gc_skip (round gc_depth : N) : bool := g_ms_gc_skip round gc_depth.       (* regenerated (Guards.v) *)
(* synchronizer.rs, Cleanup arm: `self.pending.retain(|_, (r, _, _)| r > &mut gc_round)` with
   `gc_round = self.round - self.gc_depth` *)
Definition ms_gc_keep (r gc_round : N) : bool := g_ms_gc_keep r gc_round.             (* regenerated (Guards.v) *)
(* synchronizer.rs, timer arm: `if timestamp + (self.sync_retry_delay as u128) < now` *)
Definition ms_retry_due (timestamp delay now : N) : bool := g_ms_retry_due timestamp delay now.   (* regenerated (Guards.v) *)

Record pentry := mkPE { pe_digest : N; pe_round : N; pe_time : N }.
Record MS := mkMS { ms_round : N; ms_pending : list pentry }.
Definition ms_init : MS := mkMS 0 [].

Definition pmem (d : N) (p : list pentry) : bool := existsb (fun e => pe_digest e =? d) p.

Inductive msev :=
| MSync (ds : list N) (target : N) (now : N)
| MCleanup (r : N)
| MArrived (d : N)
| MRetry (now : N) (pick : list N).

Record mreq := mkReq { rq_dest : N; rq_digests : list N; rq_origin : N }.

(* the `for digest in digests` loop of the Synchronize arm: a digest already pending is skipped (`continue`), which
   also skips a second occurrence of a digest inside the same command, because the first occurrence was inserted *)
Fixpoint sync_go (round now : N) (ds : list N) (p : list pentry) : list pentry * list N :=
  match ds with
  | [] => (p, [])
  | d :: r =>
      if pmem d p then sync_go round now r p
      else let '(p', m) := sync_go round now r (p ++ [mkPE d round now]) in (p', d :: m)
  end.

Section MSync.
  Variable me : N.                 (* self.name *)
  Variable gc_depth : N.
  Variable delay : N.              (* sync_retry_delay *)
  Variable known : N -> bool.      (* committee.mempool_address(target).is_some() *)

  Definition retry_list (now : N) (p : list pentry) : list N :=
    map pe_digest (filter (fun e => ms_retry_due (pe_time e) delay now) p).

  Definition msstep (s : MS) (e : msev) : MS * list mreq :=
    match e with
    | MSync ds target now =>
        let '(p', missing) := sync_go (ms_round s) now ds (ms_pending s) in
        (* the digests are registered BEFORE the address lookup: with an unknown target nothing is sent, but the
           digests stay pending (and are re-requested by the retry timer only).  With a known target the request
           is sent even when `missing` is empty. *)
        (mkMS (ms_round s) p', if known target then [mkReq target missing me] else [])
    | MCleanup r =>
        if ms_gc_skip r gc_depth then (mkMS r (ms_pending s), [])
        else (mkMS r (filter (fun e => ms_gc_keep (pe_round e) (r - gc_depth)) (ms_pending s)), [])
    | MArrived d =>
        (mkMS (ms_round s) (filter (fun e => negb (pe_digest e =? d)) (ms_pending s)), [])
    | MRetry now pick =>
        match retry_list now (ms_pending s) with
        | [] => (s, [])
        | retry => (s, map (fun p => mkReq p retry me) pick)
        end
    end.

  Definition ms_state (s : MS) (evs : list msev) : MS := fold_left (fun s e => fst (msstep s e)) evs s.

  (* per-event outputs, for the correspondence check *)
  Fixpoint ms_run (s : MS) (evs : list msev) : list (list mreq) :=
    match evs with
    | [] => []
    | e :: r => let '(s1, o) := msstep s e in o :: ms_run s1 r
    end.
End MSync.

(* what `lucky_broadcast(addresses of the others, _, nodes)` may draw: distinct members of `others`,
   min(nodes, |others|) of them *)
Fixpoint nodupb (l : list N) : bool :=
  match l with [] => true | x :: r => negb (existsb (N.eqb x) r) && nodupb r end.
Definition pick_ok (others : list N) (nodes : N) (pick : list N) : bool :=
  nodupb pick && forallb (fun p => existsb (N.eqb p) others) pick &&
  (N.of_nat (length pick) =? N.min nodes (N.of_nat (length others))).
