(* C15 model (definitions only): what the per-connection handlers of the three ports and the two helpers do
   with arbitrary bytes. The three places where the code can panic on input are governed by constants
   REGENERATED from the source (Guards.v): g_pk_decode_exact (key strings inside messages), g_helper_deser_guarded
   (consensus helper reading a store value that is not a block), g_seal_index_guarded (benchmark build, C11). *)
From Coq Require Import List NArith Bool.
From HS Require Import Guards Codec Base64Defs WireDefs.
Import ListNotations.
Open Scope N_scope.

(* outcome of one frame on a connection: routed to a task (and acknowledged), connection closed with an error
   (nothing else changes), or the connection task panicked *)
Inductive route := RCore | RHelper | RProcessor | RMempoolHelper | RBatchMaker | RClose | RPanicked.

(* consensus/src/consensus.rs ConsensusReceiverHandler::dispatch *)
Definition consensus_dispatch (frame : bytes) : route :=
  match decode_cmsg g_pk_decode_exact frame with
  | Ok (CSyncRequest _ _) => RHelper
  | Ok _ => RCore
  | Err => RClose
  | Panic => RPanicked
  end.
(* mempool/src/mempool.rs MempoolReceiverHandler::dispatch *)
Definition mempool_dispatch (frame : bytes) : route :=
  match decode_mmsg g_pk_decode_exact frame with
  | Ok (MBatch _) => RProcessor
  | Ok (MBatchRequest _ _) => RMempoolHelper
  | Err => RClose
  | Panic => RPanicked
  end.
(* TxReceiverHandler::dispatch: every byte string is a transaction *)
Definition tx_dispatch (frame : bytes) : route := RBatchMaker.

(* consensus/src/helper.rs: answer a sync request from the (shared) store; [stored] = what the key holds *)
Inductive hres := HNothing | HReply (b : WBlock) | HPanic.
Definition helper_answer (known_origin : bool) (stored : option bytes) : hres :=
  if negb known_origin then HNothing
  else match stored with
       | None => HNothing
       | Some v => match decode_block g_pk_decode_exact v with
                   | Ok b => HReply b
                   | Err => if g_helper_deser_guarded then HNothing else HPanic
                   | Panic => HPanic
                   end
       end.
(* mempool/src/helper.rs: replies with the stored bytes as they are, whatever they are: no decoding, no panic *)
Definition mempool_helper_answer (known_origin : bool) (stored : list (option bytes)) : list bytes :=
  if negb known_origin then [] else flat_map (fun o => match o with Some v => [v] | None => [] end) stored.
