(* C12: model of mempool/src/quorum_waiter.rs: forwarded exactly at the first quorum prefix of acks. *)
From Coq Require Import List NArith Lia Bool ZifyN ZifyBool.
From HS Require Import Guards QuorumWaiterDefs.
Import ListNotations.
Open Scope N_scope.

Section QW.
  Variable stake : N -> N.
  Variable quorum : N.

  Notation qw_go := (qw_go stake quorum).
  Notation qw := (qw stake quorum).
  Notation wsum := (wsum stake).

  Lemma qw_go_spec : forall acks total i k,
    qw_go total acks i = Some k <->
    exists j, k = (i + j)%nat /\ (j < length acks)%nat /\
              quorum <= total + wsum (firstn (S j) acks) /\
              forall j', (j' < j)%nat -> total + wsum (firstn (S j') acks) < quorum.
  Proof.
    induction acks as [|a r IH]; intros total i k; cbn [QuorumWaiterDefs.qw_go length]; unfold g_qw_threshold.
    - split; [discriminate|]. intros [j [_ [H _]]]. lia.
    - destruct (quorum <=? total + stake a) eqn:E.
      + apply N.leb_le in E. split.
        * intros H. inversion H; subst. exists 0%nat. cbn [firstn wsum length Nat.add]. repeat split; try lia.
        * intros [j [-> [Hl [Hq Hmin]]]]. destruct j as [|j]; [f_equal; lia|].
          exfalso. specialize (Hmin 0%nat ltac:(lia)). cbn [firstn wsum length] in Hmin. lia.
      + apply N.leb_gt in E. rewrite IH. split.
        * intros [j [-> [Hl [Hq Hmin]]]]. exists (S j). repeat split; try lia.
          -- cbn [firstn wsum length]. cbn [firstn wsum length] in Hq. lia.
          -- intros [|j'] Hj; cbn [firstn wsum length]; [lia|]. specialize (Hmin j' ltac:(lia)). cbn [firstn wsum length] in Hmin. lia.
        * intros [j [-> [Hl [Hq Hmin]]]]. destruct j as [|j]; [cbn [firstn wsum length] in Hq; lia|].
          exists j. repeat split; try lia.
          -- cbn [firstn wsum length] in Hq. cbn [firstn wsum length]. lia.
          -- intros j' Hj. specialize (Hmin (S j') ltac:(lia)). cbn [firstn wsum length] in Hmin. cbn [firstn wsum length]. lia.
  Qed.

  (* never before a quorum of stake (own included) has acknowledged; exactly at the first such ack *)
  Theorem c12_first_quorum own acks k :
    qw own acks = Some k <->
    (k < length acks)%nat /\ quorum <= own + wsum (firstn (S k) acks) /\
    forall j, (j < k)%nat -> own + wsum (firstn (S j) acks) < quorum.
  Proof.
    unfold qw. rewrite qw_go_spec. split.
    - intros [j [-> H]]. simpl. exact H.
    - intros H. exists k. split; [reflexivity|exact H].
  Qed.
End QW.
Print Assumptions c12_first_quorum.
