(* C17 model: the definitions the theorems of Quorum.v are about (kept apart from the proofs so that the
   model still evaluates in the correspondence check when a proof no longer compiles). *)
From Coq Require Import List NArith Bool.
From HS Require Import Guards.
Import ListNotations.
Open Scope N_scope.

(* the expression of consensus/src/config.rs (and mempool/src/config.rs) as REGENERATED from the source
   (Guards.v), with Rust's wrapping (release) semantics made explicit by `u32` around every arithmetic
   node; in a debug build the same operations panic on overflow *)
Definition quorum_u32 (total : N) : N := g_quorum_consensus_u32 total.
Definition quorum_mempool_u32 (total : N) : N := g_quorum_mempool_u32 total.
Definition faults (n : N) : N := (n - 1) / 3.

Fixpoint wsum (stake : N -> N) (l : list N) : N :=
  match l with [] => 0 | x :: xs => stake x + wsum stake xs end.

(* stake lookup: association-list model of `Committee::stake` *)
Fixpoint stake_of (auths : list (N * N)) (a : N) : N :=
  match auths with [] => 0 | (k, s) :: r => if k =? a then s else stake_of r a end.
