(* Monitor soundness, part 9: mon_c05 is true on every run of the node model, whatever the messages (no admissibility
   hypothesis), provided each loop-back selector names the very block in the pool ([lb_exact]).  Blocks are handed to
   the commit channel only inside process_block, after it found the parent b1 and the grandparent b0 of the processed
   block in the store with round(b0)+1 = round(b1); what is delivered is b0 preceded by ancestors of b0 found by
   walking stored parents (stored under their own digest, so "ancestor" is structural); every stored block is a block
   some earlier event carried. *)
From Coq Require Import List NArith Lia Bool.
From HS Require Import GTac Node Corr Monitors Proto Link Exact MonSoundDefs MonSound2 MonSound4 MonSound5 MonSound6.
Import ListNotations.
Open Scope N_scope.

Definition nocm (o : Out) : bool := match o with OCommit _ => false | _ => true end.
Notation nc := (keeps s_store nocm).
Lemma nocm_commits o : forallb nocm o = true -> commits_of o = [].
Proof.
  induction o as [|x r IH]; simpl; [reflexivity|]. intros H. apply andb_true_iff in H. destruct H as [H1 H2].
  destruct x; simpl in *; try discriminate; auto.
Qed.

Lemma ext_extb d' d : ext d' d -> extb d' d = true.
Proof.
  induction 1 as [d|d a r pl p H IH].
  - destruct d; cbn [extb]; rewrite digest_eqb_refl; reflexivity.
  - cbn [extb]. rewrite IH. apply orb_true_r.
Qed.

Section StoreFrame.
  Variable c : Committee. Variable me : N.

  Lemma nc_advance_round r : nc (advance_round r).
  Proof. unfold advance_round. keeps_go. Qed.
  Hint Resolve nc_advance_round : keeps.
  Lemma nc_update_high_qc q : nc (update_high_qc q).
  Proof. unfold update_high_qc. keeps_go. Qed.
  Hint Resolve nc_update_high_qc : keeps.
  Lemma nc_process_qc q : nc (process_qc q).
  Proof. unfold process_qc. keeps_go. Qed.
  Hint Resolve nc_process_qc : keeps.
  Lemma nc_generate_proposal hint tc : nc (generate_proposal me hint tc).
  Proof. unfold generate_proposal. keeps_go. Qed.
  Hint Resolve nc_generate_proposal : keeps.
  Lemma nc_proposer_cleanup ds : nc (proposer_cleanup ds).
  Proof. unfold proposer_cleanup. keeps_go. Qed.
  Hint Resolve nc_proposer_cleanup : keeps.
  Lemma nc_sync_park b : nc (sync_park b).
  Proof. unfold sync_park. keeps_go. Qed.
  Hint Resolve nc_sync_park : keeps.
  Lemma nc_get_parent_block b : nc (get_parent_block b).
  Proof. unfold get_parent_block. keeps_go. Qed.
  Hint Resolve nc_get_parent_block : keeps.
  Lemma nc_commit_walk dq lcr : forall fuel parent acc, nc (commit_walk dq fuel lcr parent acc).
  Proof. induction fuel as [|f IH]; intros parent acc; simpl; keeps_go; apply IH. Qed.
  Hint Resolve nc_commit_walk : keeps.
  Lemma nc_make_vote b : nc (make_vote me b).
  Proof. unfold make_vote, increase_last_voted. keeps_go. Qed.
  Hint Resolve nc_make_vote : keeps.
  Lemma nc_handle_vote hint v : nc (handle_vote c me hint v).
  Proof. unfold handle_vote. keeps_go. Qed.
  Hint Resolve nc_handle_vote : keeps.
  Lemma nc_handle_timeout hint t : nc (handle_timeout c me hint t).
  Proof. unfold handle_timeout. keeps_go. Qed.
  Hint Resolve nc_handle_timeout : keeps.
  Lemma nc_local_timeout hint : nc (local_timeout c me hint).
  Proof. unfold local_timeout, increase_last_voted. keeps_go. Qed.
  Lemma nc_handle_tc hint tc : nc (handle_tc c me hint tc).
  Proof. unfold handle_tc. keeps_go. Qed.
  Lemma nc_pw_cleanup r : nc (pw_cleanup r).
  Proof. unfold pw_cleanup. keeps_go. Qed.
  Hint Resolve nc_pw_cleanup : keeps.
  Lemma nc_mempool_verify b : nc (mempool_verify b).
  Proof. unfold mempool_verify. keeps_go. Qed.
  Hint Resolve nc_mempool_verify : keeps.
  Lemma nc_batch_stored d : nc (batch_stored d).
  Proof. unfold batch_stored. keeps_go. Qed.
End StoreFrame.
Global Hint Resolve nc_advance_round nc_update_high_qc nc_process_qc nc_generate_proposal nc_proposer_cleanup nc_sync_park
  nc_get_parent_block nc_commit_walk nc_make_vote nc_handle_vote nc_handle_timeout nc_pw_cleanup nc_mempool_verify : keeps.

Section Commit.
  Variable c : Committee. Variable me : N.
  Notation dg := block_digest.

  Lemma deliver_all_commits l : forall s,
    match deliver_all l s with (s', o, _) => s_store s' = s_store s /\ commits_of o = l end.
  Proof.
    induction l as [|b l IH]; intros s; cbn [deliver_all]; [split; reflexivity|].
    unfold bind at 1. unfold emit at 1. unfold bind at 1. unfold modify at 1.
    specialize (IH (set_log s (block_digest b :: s_log s))).
    destruct (deliver_all l (set_log s (block_digest b :: s_log s))) as [[s2 o2] r2]. destruct IH as [A B].
    cbn [app commits_of flat_map]. fold (commits_of o2). rewrite B. split; [exact A|reflexivity].
  Qed.

  Lemma ext_digest_parent' p b : dg p = qc_hash (b_qc b) -> ext (dg p) (dg b).
  Proof. intros E. unfold block_digest at 2. apply ext_step. rewrite <- E. apply ext_refl. Qed.

  Lemma commit_walk_ext lcr : forall fuel parent acc s,
    WfInv c s -> pok c s parent ->
    match commit_walk src_dq fuel lcr parent acc s with
    | (s', o, r) =>
        WfInv c s' /\ s_store s' = s_store s /\ commits_of o = [] /\
        forall acc', r = ROk acc' -> forall x, In x acc' -> In x acc \/ ext (dg x) (dg parent)
    end.
  Proof.
    induction fuel as [|f IH]; intros parent acc s H Hp; cbn [commit_walk].
    { unfold panic. split; [exact H|]. split; [reflexivity|]. split; [reflexivity|discriminate]. }
    assert (Hstop : forall a l, dq_stop src_dq a l = (a <=? l)) by reflexivity.
    assert (Hpush : forall (x : Block) l, dq_push (dq_anc_front src_dq) x l = x :: l) by reflexivity.
    unfold g_commit_walk. destruct (lcr + 1 <? b_round parent).
    2:{ unfold ret. split; [exact H|]. split; [reflexivity|]. split; [reflexivity|].
        intros acc' E. inversion E; subst. auto. }
    unfold bind at 1.
    pose proof (get_parent_block_wf c me parent s H Hp) as G.
    pose proof (nc_get_parent_block parent s) as K.
    destruct (get_parent_block parent s) as [[s1 o1] r1]. destruct G as [[H1 _] P]. destruct K as [K1 K2].
    apply nocm_commits in K2.
    destruct r1 as [[anc|]|e|k].
    - destruct (P anc eq_refl) as [-> [-> Hanc]]. cbn [app].
      destruct Hanc as [[_ ->]|[Hin Hb]].
      + assert (E0 : (b_round block_genesis <=? lcr) = true) by (apply N.leb_le; cbn; lia).
        rewrite Hstop, E0. unfold ret. split; [exact H|]. split; [reflexivity|]. split; [reflexivity|].
        intros acc' E. inversion E; subst. auto.
      + rewrite Hstop, Hpush. destruct (b_round anc <=? lcr).
        { unfold ret. split; [exact H|]. split; [reflexivity|]. split; [reflexivity|].
          intros acc' E. inversion E; subst. auto. }
        destruct (wf_store c s H _ _ Hin) as [_ Ed].
        specialize (IH anc (anc :: acc) s H (or_intror Hb)).
        destruct (commit_walk src_dq f lcr anc (anc :: acc) s) as [[s2 o2] r2].
        destruct IH as [I2 [S2 [C2 X2]]]. split; [exact I2|]. split; [exact S2|]. split; [exact C2|].
        intros acc' E x Hx. destruct (X2 acc' E x Hx) as [[<-|Hx']|Hx']; auto.
        * right. apply ext_digest_parent'. exact Ed.
        * right. eapply ext_trans; [exact Hx'|]. apply ext_digest_parent'. exact Ed.
    - unfold panic. rewrite app_nil_r. split; [exact H1|]. split; [exact K1|]. split; [exact K2|discriminate].
    - split; [exact H1|]. split; [exact K1|]. split; [exact K2|discriminate].
    - split; [exact H1|]. split; [exact K1|]. split; [exact K2|discriminate].
  Qed.

  Lemma commit_spec b0 s :
    WfInv c s -> pok c s b0 ->
    match commit src_dq b0 s with
    | (s', o, _) => s_store s' = s_store s /\
                    (commits_of o = [] \/
                     (In b0 (commits_of o) /\ forall y, In y (commits_of o) -> ext (dg y) (dg b0)))
    end.
  Proof.
    intros H Hb. unfold commit. unfold bind at 1. unfold get at 1. unfold g_commit_skip.
    destruct (b_round b0 <=? s_last_committed s); [unfold ret; split; [reflexivity|left; reflexivity]|].
    change (dq_head_first src_dq) with false. change (dq_pop_back src_dq) with false.
    change (dq_push (dq_head_front src_dq) b0) with (fun q : list Block => q ++ [b0]). cbv beta iota.
    unfold bind at 1.
    pose proof (commit_walk_ext (s_last_committed s) (S (S (ddepth (block_digest b0)))) b0 [] s H Hb) as W.
    destruct (commit_walk src_dq _ _ b0 [] s) as [[s1 o1] r1]. destruct W as [I1 [S1 [C1 X1]]].
    destruct r1 as [anc|e|k]; [|split; [exact S1|left; exact C1]..].
    unfold bind at 1. unfold modify at 1.
    pose proof (deliver_all_commits (anc ++ [b0]) (set_last_committed s1 (b_round b0))) as D.
    destruct (deliver_all (anc ++ [b0]) (set_last_committed s1 (b_round b0))) as [[s3 o3] r3]. destruct D as [S3 C3].
    cbn [app]. rewrite commits_of_app, C1, C3. cbn [app]. split; [cbn in S3; congruence|]. right. split.
    - apply in_or_app. right. left. reflexivity.
    - intros y Hy. apply in_app_or in Hy. destruct Hy as [Hy|[<-|[]]]; [|apply ext_refl].
      destruct (X1 anc eq_refl y Hy) as [[]|E]. exact E.
  Qed.
End Commit.

Section StepCommits.
  Variable c : Committee. Variable me : N.
  Notation dg := block_digest.

  (* a predicate on (store after, blocks committed) as the specification of a computation from state [s] *)
  Definition CS (T : list (digest * Block) -> list Block -> Prop) {A} (m : M A) (s : State) : Prop :=
    match m s with (s', o, _) => T (s_store s') (commits_of o) end.
  Lemma CS_bind_nc (T : list (digest * Block) -> list Block -> Prop) {A B} (m : M A) (k : A -> M B) s :
    nc m -> T (s_store s) [] ->
    (forall a s1 o1, m s = (s1, o1, ROk a) -> s_store s1 = s_store s -> CS T (k a) s1) -> CS T (bind m k) s.
  Proof.
    intros Q T0 Hk. unfold CS, bind. specialize (Q s). destruct (m s) as [[s1 o1] r1]. destruct Q as [E F].
    apply nocm_commits in F.
    destruct r1 as [a|e|n]; [|rewrite E, F; exact T0..].
    specialize (Hk a s1 o1 eq_refl E). unfold CS in Hk. destruct (k a s1) as [[s2 o2] r2].
    rewrite commits_of_app, F. exact Hk.
  Qed.
  Lemma CS_bind_then_nc (T : list (digest * Block) -> list Block -> Prop) {A B} (m : M A) (k : A -> M B) s :
    (forall a, nc (k a)) -> CS T m s -> CS T (bind m k) s.
  Proof.
    intros Q Hm. unfold CS, bind in *. destruct (m s) as [[s1 o1] r1].
    destruct r1 as [a|e|n]; [|exact Hm..].
    specialize (Q a s1). destruct (k a s1) as [[s2 o2] r2]. destruct Q as [E F]. apply nocm_commits in F.
    rewrite commits_of_app, F, app_nil_r, E. exact Hm.
  Qed.
  Lemma CS_bind_modify (T : list (digest * Block) -> list Block -> Prop) {B} g (k : unit -> M B) s :
    CS T (k tt) (g s) -> CS T (bind (modify g) k) s.
  Proof. unfold CS, bind, modify. destruct (k tt (g s)) as [[s2 o2] r2]. cbn [app]. auto. Qed.
  Lemma CS_nc (T : list (digest * Block) -> list Block -> Prop) {A} (m : M A) s : nc m -> T (s_store s) [] -> CS T m s.
  Proof.
    intros Q T0. unfold CS. specialize (Q s). destruct (m s) as [[s1 o1] r1]. destruct Q as [E F].
    apply nocm_commits in F. rewrite E, F. exact T0.
  Qed.

  (* what process_block may do to the store and the commit channel *)
  Definition PB (x : Block) (st0 : list (digest * Block)) (st : list (digest * Block)) (cs : list Block) : Prop :=
    (st = st0 \/ st = (dg x, x) :: st0) /\
    (cs = [] \/
     exists b1 b0, qc_eqb (b_qc x) qc_genesis = false /\ In (qc_hash (b_qc x), b1) st0 /\
                   In (qc_hash (b_qc b1), b0) st0 /\ b_round b0 + 1 = b_round b1 /\
                   In b0 cs /\ forall y, In y cs -> ext (dg y) (dg b0)).

  Lemma process_block_commits hint x s :
    WfInv c s -> bok c s x -> CS (PB x (s_store s)) (process_block c me src_dq hint x) s.
  Proof.
    intros H Hx. unfold process_block.
    assert (T0 : PB x (s_store s) (s_store s) []) by (split; [left; reflexivity|left; reflexivity]).
    assert (T1 : PB x (s_store s) ((dg x, x) :: s_store s) []) by (split; [right; reflexivity|left; reflexivity]).
    apply CS_bind_nc; [auto with keeps|exact T0|]. intros [b1|] s1 o1 E1 _; [|apply CS_nc; [apply keeps_ret|]].
    2:{ pose proof (nc_get_parent_block x s) as K. rewrite E1 in K. destruct K as [K _]. rewrite K. exact T0. }
    pose proof (get_parent_block_wf c me x s H (or_intror Hx)) as P1. rewrite E1 in P1. destruct P1 as [_ P1].
    destruct (P1 b1 eq_refl) as [-> [_ Hb1]]. clear E1 P1.
    assert (Hp1 : pok c s b1) by (destruct Hb1 as [[_ ->]|[_ Hb]]; [left; reflexivity|right; exact Hb]).
    apply CS_bind_nc; [auto with keeps|exact T0|]. intros [b0|] s2 o2 E2 _; [|apply CS_nc; [apply keeps_panic|]].
    2:{ pose proof (nc_get_parent_block b1 s) as K. rewrite E2 in K. destruct K as [K _]. rewrite K. exact T0. }
    pose proof (get_parent_block_wf c me b1 s H Hp1) as P0. rewrite E2 in P0. destruct P0 as [_ P0].
    destruct (P0 b0 eq_refl) as [-> [_ Hb0]]. clear E2 P0.
    assert (Hp0 : pok c s b0) by (destruct Hb0 as [[_ ->]|[_ Hb]]; [left; reflexivity|right; exact Hb]).
    (* the store write *)
    pose proof (store_block_wf c me x s H Hx) as W3. unfold gat in W3.
    unfold store_block in *. unfold modify at 1 in W3. destruct W3 as [H3 [M3 _]].
    apply CS_bind_modify.
    match goal with |- CS _ _ ?S3 => set (s3 := S3) in * end.
    assert (St3 : s_store s3 = (dg x, x) :: s_store s) by reflexivity.
    apply CS_bind_nc; [auto with keeps|rewrite St3; exact T1|]. intros [] s4 o4 E4 St4.
    pose proof (proposer_cleanup_wf c me (b_payload b0 ++ b_payload b1 ++ b_payload x) s3 H3) as W4.
    unfold gat in W4. rewrite E4 in W4. destruct W4 as [H4 [M4 _]].
    apply CS_bind_then_nc.
    { intros _. keeps_go. }
    unfold g_two_chain. destruct (b_round b0 + 1 =? b_round b1) eqn:E2c.
    2:{ apply CS_nc; [apply keeps_ret|]. rewrite St4, St3. exact T1. }
    apply N.eqb_eq in E2c.
    apply CS_bind_nc; [keeps_go|rewrite St4, St3; exact T1|]. intros [] s5 o5 E5 St5.
    unfold emit in E5. injection E5 as Es5 _. subst s5.
    apply CS_bind_nc; [auto with keeps|rewrite St4, St3; exact T1|]. intros [] s6 o6 E6 St6.
    pose proof (pw_cleanup_wf c me (b_round b0) s4 H4) as W6. unfold gat in W6. rewrite E6 in W6.
    destruct W6 as [H6 [M6 _]].
    assert (Hp6 : pok c s6 b0).
    { eapply pok_mono; [|exact Hp0]. eapply mono_trans; [exact M3|]. eapply mono_trans; eauto. }
    destruct Hb0 as [[Eg0 ->]|[Hin0 _]].
    { (* b0 = genesis placeholder: commit skips it, nothing is delivered *)
      unfold CS.
      assert (Ec : commit src_dq block_genesis s6 = (s6, [], ROk tt)).
      { unfold commit, bind, get, ret. unfold g_commit_skip. cbn [b_round block_genesis fst snd].
        assert (E : (0 <=? s_last_committed s6) = true) by (apply N.leb_le; lia). rewrite E. reflexivity. }
      rewrite Ec. rewrite St6, St4, St3. exact T1. }
    pose proof (commit_spec c me b0 s6 H6 Hp6) as K. unfold CS.
    destruct (commit src_dq b0 s6) as [[s7 o7] r7]. destruct K as [St7 K].
    rewrite St7, St6, St4, St3. split; [right; reflexivity|].
    destruct K as [K|[K1 K2]]; [left; exact K|right].
    destruct Hb1 as [[Eg1 ->]|[Hin1 _]].
    { (* b1 = genesis placeholder: round 0, cannot be round(b0)+1 *) cbn in E2c. lia. }
    exists b1, b0. repeat split; auto.
    destruct (qc_eqb (b_qc x) qc_genesis) eqn:Eg; [|reflexivity].
    (* a block whose QC is the genesis one names DZero as parent: nothing is stored under DZero *)
    exfalso. destruct (wf_store c s H _ _ Hin1) as [_ Ed].
    unfold qc_eqb in Eg. apply andb_true_iff in Eg. destruct Eg as [Eg _]. apply digest_eqb_eq in Eg.
    cbn in Eg. rewrite Eg in Ed. discriminate.
  Qed.
End StepCommits.

Section StepCommits2.
  Variable c : Committee. Variable me : N.
  Notation dg := block_digest.

  Lemma CS_impl (T1 T2 : list (digest * Block) -> list Block -> Prop) {A} (m : M A) s :
    (forall st cs, T1 st cs -> T2 st cs) -> CS T1 m s -> CS T2 m s.
  Proof. unfold CS. intros Hi. destruct (m s) as [[s1 o1] r1]. apply Hi. Qed.

  (* a step leaves store and commit channel alone, or it processes a block [x] as described by PB *)
  Definition ST (e : Event) (s : State) (st : list (digest * Block)) (cs : list Block) : Prop :=
    (st = s_store s /\ cs = []) \/ exists x, processed c e s x /\ PB x (s_store s) st cs.

  Theorem step_commits hint e s : WfInv c s -> CS (ST e s) (step c me src_dq hint e) s.
  Proof.
    intros H.
    assert (T0 : forall s', s_store s' = s_store s -> ST e s (s_store s') []).
    { intros s' E. left. split; [exact E|reflexivity]. }
    destruct e as [b|v|t|tc|b| |d|d| ]; cbn [step].
    - (* proposal *)
      unfold handle_proposal.
      destruct (b_author b =? leader c (b_round b)) eqn:El.
      2:{ unfold CS, bind, fail. apply T0. reflexivity. }
      apply N.eqb_eq in El.
      apply CS_bind_nc; [apply keeps_ret|apply T0; reflexivity|]. intros [] s1 o1 E1 St1.
      unfold ret in E1. injection E1 as Es1 _. subst s1.
      destruct (block_verify c b) as [[]|er|k] eqn:Ev.
      2,3: (unfold CS, bind, lift; apply T0; reflexivity).
      apply CS_bind_nc; [apply keeps_lift|apply T0; reflexivity|]. intros [] s2 o2 E2 St2.
      unfold lift in E2. injection E2 as Es2 _. subst s2.
      destruct (block_verify_ok c b Ev) as [Hsig [Hq Ht]].
      apply CS_bind_nc; [auto with keeps|apply T0; reflexivity|]. intros [] s3 o3 E3 St3.
      pose proof (process_qc_wf c me (b_qc b) s H Hq) as P. rewrite E3 in P. destruct P as [[H3 _] [_ [_ [Pq _]]]].
      apply CS_bind_nc; [keeps_go|apply T0; exact St3|]. intros [] s4 o4 E4 St4.
      assert (W4 : WfInv c s4 /\ mono s3 s4).
      { destruct (b_tc b).
        - pose proof (gat_advance_round c me (tc_round t) s3 H3) as W. unfold gat in W. rewrite E4 in W.
          split; apply W.
        - unfold ret in E4. injection E4 as <- _. split; [exact H3|apply mono_refl]. }
      destruct W4 as [H4 M4].
      assert (Hb : bok c s4 b).
      { split; [split; [exact El|]; split; [exact Hsig|]; split; [exact Hq|exact Ht]|]. destruct M4 as [_ M4]. lia. }
      apply CS_bind_nc; [auto with keeps|apply T0; congruence|]. intros ok s5 o5 E5 St5.
      pose proof (mempool_verify_wf c me b s4 H4 Hb) as W5. unfold gat in W5. rewrite E5 in W5.
      destruct W5 as [H5 [M5 _]].
      destruct ok; [|apply CS_nc; [apply keeps_ret|apply T0; congruence]].
      assert (Est : s_store s5 = s_store s) by congruence.
      eapply CS_impl; [|apply (process_block_commits c me hint b s5 H5 (bok_mono c _ _ _ M5 Hb))].
      intros st cs HP. right. exists b. split; [split; [reflexivity|]; split; [exact El|exact Ev]|].
      rewrite <- Est. exact HP.
    - apply CS_nc; [auto with keeps|apply T0; reflexivity].
    - apply CS_nc; [auto with keeps|apply T0; reflexivity].
    - apply CS_nc; [apply nc_handle_tc|apply T0; reflexivity].
    - (* loop-back *)
      apply CS_bind_nc; [apply keeps_get|apply T0; reflexivity|]. intros s0 s1 o1 E1 St1.
      unfold get in E1. injection E1 as Es1 _ Ea. subst s0 s1.
      destruct (remove_first b (s_loopback s)) as [[x l]|] eqn:Er; [|apply CS_nc; [keeps_go|apply T0; reflexivity]].
      destruct (remove_first_sub' _ _ _ _ Er) as [Hx Hl].
      apply CS_bind_modify.
      assert (H1 : WfInv c (set_loopback s l)).
      { destruct H. constructor; unfold bok, hq in *; cbn; auto. }
      assert (Hb : bok c (set_loopback s l) x) by (apply (wf_loop c s H x Hx)).
      eapply CS_impl; [|apply (process_block_commits c me hint x _ H1 Hb)].
      intros st cs HP. right. exists x. split; [exists l; exact Er|exact HP].
    - apply CS_nc; [apply nc_local_timeout|apply T0; reflexivity].
    - apply CS_nc; [apply nc_batch_stored|apply T0; reflexivity].
    - apply CS_nc; [keeps_go|apply T0; reflexivity].
    - apply CS_nc; [keeps_go|apply T0; reflexivity].
  Qed.
End StepCommits2.

Section C05.
  Variable c : Committee. Variable me : N.
  Notation dg := block_digest.

  (* every stored block is (digest-wise) a block some earlier event carried, or an own proposal *)
  Definition Seen (s : State) (seen : list Block) : Prop :=
    forall d b, In (d, b) (s_store s) -> exists b', In b' seen /\ dg b' = d.

  Lemma find_block_some d l :
    (exists b', In b' l /\ dg b' = d) -> exists b1, find_block d l = Some b1 /\ dg b1 = d.
  Proof.
    intros [b' [Hin Hd]]. unfold find_block.
    destruct (find (fun b => digest_eqb (dg b) d) l) as [b1|] eqn:E.
    - exists b1. split; [reflexivity|]. apply find_some in E. destruct E as [_ E]. apply digest_eqb_eq in E. exact E.
    - exfalso. pose proof (find_none _ _ E b' Hin) as N. cbv beta in N. rewrite Hd, digest_eqb_refl in N. discriminate.
  Qed.

  Lemma c05_walk_from evs : forall s seen,
    WfInv c s -> along lb_exact c me evs s -> Seen s seen ->
    c05_walk c seen evs (obs_from c me evs s) = true.
  Proof.
    induction evs as [|[h e] r IH]; intros s seen H HA HS; cbn [obs_from]; [reflexivity|].
    destruct HA as [Hl HA].
    pose proof (step_commits c me h e s H) as K. unfold CS in K.
    pose proof (step_wf c me src_dq h e s H) as W. unfold gat in W.
    destruct (step c me src_dq h e s) as [[s1 o] res]. cbn [fst] in HA. destruct W as [H1 _].
    cbn [c05_walk ob_out].
    set (seen' := match ev_block e with Some b => b :: seen | None => seen end ++ proposes_of o).
    assert (Hsub : forall y, In y seen -> In y seen').
    { intros y Hy. unfold seen'. apply in_or_app. left. destruct (ev_block e); [right|]; exact Hy. }
    assert (HS1 : Seen s1 seen').
    { destruct K as [[E _]|[x [Hp [[E|E] _]]]]; intros d b Hin; rewrite E in Hin.
      - destruct (HS d b Hin) as [b' [A B]]. exists b'. split; [apply Hsub; exact A|exact B].
      - destruct (HS d b Hin) as [b' [A B]]. exists b'. split; [apply Hsub; exact A|exact B].
      - destruct Hin as [Hin|Hin].
        + inversion Hin; subst. destruct (processed_ev_block c e s b Hp) as [b' [Eb Ed]].
          exists b'. split; [|exact Ed]. unfold seen'. rewrite Eb. apply in_or_app. left. left. reflexivity.
        + destruct (HS d b Hin) as [b' [A B]]. exists b'. split; [apply Hsub; exact A|exact B]. }
    rewrite (IH s1 seen' H1 HA HS1), andb_true_r.
    destruct (commits_of o) as [|c0 cs] eqn:Ecs; [reflexivity|].
    destruct K as [[_ E]|[x [Hp [_ [E|[b1 [b0 [Eg [In1 [In0 [Er [Inb0 Hext]]]]]]]]]]]]; try discriminate.
    rewrite (processed_exact c e s x Hl Hp).
    destruct (wf_store c s H _ _ In1) as [_ K1]. destruct (wf_store c s H _ _ In0) as [_ K0].
    destruct (find_block_some (qc_hash (b_qc x)) seen') as [b1' [F1 D1]].
    { destruct (HS _ _ In1) as [b' [A B]]. exists b'. split; [apply Hsub; exact A|exact B]. }
    rewrite F1.
    assert (E1 : dg b1' = dg b1) by congruence.
    unfold block_digest in E1. injection E1 as _ Er1 _ Eq1.
    destruct (find_block_some (qc_hash (b_qc b1')) seen') as [b0' [F0 D0]].
    { rewrite Eq1. destruct (HS _ _ In0) as [b' [A B]]. exists b'. split; [apply Hsub; exact A|exact B]. }
    rewrite F0.
    assert (E0 : dg b0' = dg b0) by congruence.
    assert (Er0 : b_round b0' = b_round b0) by (unfold block_digest in E0; injection E0; auto).
    destruct (processed_bok c e s x H Hp) as [_ [_ [Hq _]]]. unfold qc_okb in Hq. rewrite Eg in Hq. cbn [orb] in Hq.
    destruct (qc_verify c (b_qc x)) as [u|er|k]; try discriminate.
    assert (R : (b_round b0' + 1 =? b_round b1') = true) by (apply N.eqb_eq; congruence).
    rewrite R. cbn [andb].
    apply andb_true_iff. split.
    - apply existsb_exists. exists b0. split; [exact Inb0|]. rewrite E0. apply digest_eqb_refl.
    - apply forallb_forall. intros y Hy. rewrite E0. apply ext_extb. apply Hext. exact Hy.
  Qed.

  Theorem mon_c05_sound evs :
    along lb_exact c me evs (init c) -> mon_c05 c evs (obs_of_run c me evs) = true.
  Proof.
    intros HA. unfold mon_c05, obs_of_run. apply c05_walk_from; [apply WfInv_init|exact HA|].
    intros d b [].
  Qed.
End C05.
Print Assumptions mon_c05_sound.

(* ---------- the proviso is needed, and the theorem is not vacuous ---------- *)
(* node 3 of the 4-node committee receives the round-1 and round-2 proposals, then two more votes for the round-2 block:
   with its own vote that is a QC, it moves to round 3, which it leads, and puts its own round-3 proposal in the loop-back
   pool. Processing that block commits the round-1 block (2-chain 1,2). With a selector that has the digest of the pooled
   block but a QC field without signatures the monitor, which verifies the selector's QC, says no. *)
Definition C2 : Block := mkblk (mkqc B1) None 2.
Definition vt2 (a : N) : Vote := mkVote (block_digest C2) 2 a (SigOf a (CVote (block_digest C2) 2)).
Definition evs_c05 : list (list N * Event) :=
  [([], EvPropose B1); ([], EvPropose C2); ([], EvVote (vt2 0)); ([], EvVote (vt2 1))].
Definition sel_c05_bad : Block := mkBlock (mkQC (block_digest C2) 9 []) None 3 3 [] (SigJunk 0).
Definition own_c3 : Block :=
  mkBlock (mkQC (block_digest C2) 2 (map (fun a => (a, SigOf a (CVote (block_digest C2) 2))) [3; 0; 1])) None 3 3 []
          (SigOf 3 (CBlock (DBlk 3 3 [] (block_digest C2)))).
Example mon_c05_needs_exact :
  map b_round (commits_of (outs_of (obs_of_run c4 3 (evs_c05 ++ [([], EvLoopback sel_c05_bad)])))) = [1] /\
  mon_c05 c4 (evs_c05 ++ [([], EvLoopback sel_c05_bad)]) (obs_of_run c4 3 (evs_c05 ++ [([], EvLoopback sel_c05_bad)])) = false.
Proof. vm_compute. auto. Qed.
Example mon_c05_good :
  map b_round (commits_of (outs_of (obs_of_run c4 3 (evs_c05 ++ [([], EvLoopback own_c3)])))) = [1] /\
  mon_c05 c4 (evs_c05 ++ [([], EvLoopback own_c3)]) (obs_of_run c4 3 (evs_c05 ++ [([], EvLoopback own_c3)])) = true.
Proof. vm_compute. auto. Qed.
Example mon_c05_good_exact : along lb_exact c4 3 (evs_c05 ++ [([], EvLoopback own_c3)]) (init c4).
Proof.
  cbn [along evs_c05 app]. repeat (split; [exact I|]). split; [|exact I].
  vm_compute. intros x l E. inversion E. reflexivity.
Qed.
