(* C07 (ii), synchronizer/store layer: catch-up over a gap of any length. A node that misses the parent-linked
   chain b1 .. bk (its store holds what b1 extends) is handed bk, .., b2 newest first -- each is parked and, once
   per missing link, its parent is requested from its author -- then b1 arrives and the parked blocks are released
   and stored one after the other, oldest first. Voting and committing on top of this are C02/C05; the script is
   [catch_up] of SyncDefs.v. *)
From Coq Require Import List NArith Lia Bool.
From HS Require Import GTac Node SyncDefs NodeSync.
Import ListNotations.
Open Scope N_scope.

Definition entry (b : Block) : digest * Block := (block_digest b, b).

(* ---------- parent-linked chains ---------- *)
Lemma digest_depth b : ddepth (block_digest b) = S (ddepth (parent b)).
Proof. reflexivity. Qed.

Lemma linked_tail b rest : linked (b :: rest) -> linked rest.
Proof. destruct rest as [|b2 r]; simpl; tauto. Qed.

Lemma linked_depth : forall rest b, linked (b :: rest) ->
  forall x, In x rest -> (ddepth (block_digest b) < ddepth (block_digest x))%nat.
Proof.
  induction rest as [|b2 r IH]; intros b L x Hx; [destruct Hx|].
  destruct L as [E L]. assert (D2 : (ddepth (block_digest b) < ddepth (block_digest b2))%nat) by (rewrite (digest_depth b2), E; lia).
  destruct Hx as [<-|Hx]; [exact D2|]. specialize (IH b2 L x Hx). lia.
Qed.

Lemma linked_pred : forall rest b, linked (b :: rest) ->
  forall x, In x rest -> exists y, In y (b :: rest) /\ parent x = block_digest y.
Proof.
  induction rest as [|b2 r IH]; intros b L x Hx; [destruct Hx|].
  destruct L as [E L]. destruct Hx as [<-|Hx].
  - exists b. split; [left; reflexivity|exact E].
  - destruct (IH b2 L x Hx) as [y [Hy Ey]]. exists y. split; [right; exact Hy|exact Ey].
Qed.

(* beyond its direct child, nobody in the chain names [b] as parent *)
Lemma linked_far b b2 r : linked (b :: b2 :: r) -> forall x, In x r -> parent x <> block_digest b.
Proof.
  intros [E L] x Hx Ep. destruct (linked_pred r b2 L x Hx) as [y [Hy Ey]].
  assert (D : (ddepth (block_digest b) < ddepth (block_digest y))%nat).
  { assert (D2 : (ddepth (block_digest b) < ddepth (block_digest b2))%nat) by (rewrite (digest_depth b2), E; lia).
    destruct Hy as [<-|Hy]; [exact D2|]. pose proof (linked_depth r b2 L y Hy). lia. }
  rewrite <- Ey, Ep in D. lia.
Qed.

Lemma linked_nodup : forall l, linked l -> NoDup (map block_digest l).
Proof.
  induction l as [|b rest IH]; intros L; [constructor|]. simpl. constructor.
  - intros Hin. apply in_map_iff in Hin. destruct Hin as [x [E Hx]].
    pose proof (linked_depth rest b L x Hx) as D. rewrite E in D. lia.
  - apply IH. eapply linked_tail; eauto.
Qed.

Lemma linked_parents_nodup : forall rest b, linked (b :: rest) -> NoDup (map parent rest).
Proof.
  induction rest as [|b2 r IH]; intros b L; [constructor|]. simpl. constructor.
  - destruct L as [E L]. rewrite E. intros Hin. apply in_map_iff in Hin. destruct Hin as [x [Ex Hx]].
    exact (linked_far b b2 r (conj E L) x Hx Ex).
  - apply (IH b2). exact (proj2 L).
Qed.

Lemma linked_nongen : forall rest b, linked (b :: rest) -> forall x, In x rest -> qc_eqb (b_qc x) qc_genesis = false.
Proof.
  intros rest b L x Hx. destruct (linked_pred rest b L x Hx) as [y [_ Ey]].
  unfold qc_eqb, parent in *. rewrite Ey. reflexivity.
Qed.

(* if the first block of a chain is not in a (closed, digest-keyed) store, none of its descendants is *)
Lemma chain_missing s : SyncInv s -> forall rest b, linked (b :: rest) ->
  store_get (block_digest b) (s_store s) = None ->
  forall y, In y rest -> store_get (block_digest y) (s_store s) = None.
Proof.
  intros H. induction rest as [|b2 r IH]; intros b L Hb y Hy; [destruct Hy|].
  destruct L as [E L].
  assert (H2 : store_get (block_digest b2) (s_store s) = None).
  { destruct (store_get (block_digest b2) (s_store s)) as [z|] eqn:Ez; [exfalso|reflexivity].
    apply store_get_in in Ez. pose proof (si_keyed s H _ _ Ez) as K. pose proof (si_closed s H _ _ Ez) as C.
    assert (Pz : parent z = block_digest b) by (unfold block_digest in K; injection K as _ _ _ K4; unfold parent; rewrite <- K4; exact E).
    destruct C as [G|[p Hp]].
    - unfold qc_eqb in G. apply andb_true_iff in G. destruct G as [G _]. apply deqb_eq in G.
      unfold parent in Pz. rewrite G in Pz. discriminate.
    - rewrite Pz in Hp. congruence. }
  destruct Hy as [<-|Hy]; [exact H2|]. exact (IH b2 L H2 y Hy).
Qed.

(* ---------- what a store write releases along a chain ---------- *)
Lemma woken_none d l : (forall x, In x l -> parent x <> d) -> woken d l = [] /\ kept d l = l.
Proof.
  induction l as [|x l IH]; intros Hf; [split; reflexivity|].
  assert (E : digest_eqb (qc_hash (b_qc x)) d = false) by (apply deqb_false; apply Hf; left; reflexivity).
  destruct (IH (fun y Hy => Hf y (or_intror Hy))) as [W K]. unfold woken, kept in *. simpl. rewrite E. simpl. rewrite W, K. split; reflexivity.
Qed.

Lemma chain_release b2 r : linked (b2 :: r) ->
  woken (block_digest b2) (rev r) = firstn 1 r /\
  kept (block_digest b2) (rev r) = rev (tl r) /\
  (if existsb (fun _ => true) (firstn 1 r) then drop_req (block_digest b2) (map parent r) else map parent r) = map parent (tl r).
Proof.
  destruct r as [|b3 r']; [intros _; repeat split|]. intros L.
  pose proof (linked_far b2 b3 r' L) as F. destruct L as [E L].
  assert (Fr : forall x, In x (rev r') -> parent x <> block_digest b2) by (intros x Hx; apply F; apply in_rev; exact Hx).
  destruct (woken_none _ _ Fr) as [W K].
  assert (E3 : digest_eqb (qc_hash (b_qc b3)) (block_digest b2) = true) by (apply deqb_true; exact E).
  simpl rev. unfold woken, kept in *. rewrite !filter_app, W, K. simpl. rewrite E3. simpl.
  split; [reflexivity|]. split; [apply app_nil_r|].
  unfold drop_req. simpl. fold (parent b3). rewrite E, deqb_refl. simpl.
  apply drop_req_absent. intros Hin. apply in_map_iff in Hin. destruct Hin as [x [Ex Hx]]. exact (F x Hx Ex).
Qed.

(* ---------- monad bookkeeping ---------- *)
Lemma bind_ok {A B} (m : M A) (f : A -> M B) s s1 o1 a :
  m s = (s1, o1, ROk a) -> bind m f s = match f a s1 with (s2, o2, r) => (s2, o1 ++ o2, r) end.
Proof. intros E. unfold bind. rewrite E. reflexivity. Qed.

(* ---------- phase 1: the chain is parked newest first ---------- *)
Lemma park_all_spec : forall l s,
  SyncInv s ->
  (forall x, In x l -> store_get (parent x) (s_store s) = None /\ qc_eqb (b_qc x) qc_genesis = false) ->
  NoDup (map block_digest (s_sync_pending s ++ l)) ->
  NoDup (rev (map parent l) ++ s_sync_requests s) ->
  park_all l s = (set_sync s (s_sync_pending s ++ l) (rev (map parent l) ++ s_sync_requests s), map req_of l, ROk tt) /\
  SyncInv (fstate (park_all l s)).
Proof.
  induction l as [|x l IH]; intros s H Hm Hd Hr.
  - simpl. unfold ret, fstate. simpl. rewrite app_nil_r. split; [destruct s; reflexivity|exact H].
  - destruct (Hm x (or_introl eq_refl)) as [Mx Gx].
    assert (Nx : existsb (block_eqb x) (s_sync_pending s) = false).
    { apply exists_beqb_false. rewrite map_app in Hd. simpl in Hd. apply NoDup_remove_2 in Hd.
      intros Hin. apply Hd. apply in_or_app. left. exact Hin. }
    assert (Rx : existsb (digest_eqb (parent x)) (s_sync_requests s) = false).
    { apply exists_deqb_false. simpl in Hr. rewrite <- app_assoc in Hr. apply NoDup_remove_2 in Hr.
      intros Hin. apply Hr. apply in_or_app. right. exact Hin. }
    pose proof (gpb_missing x s Gx Mx) as G. pose proof (park_inv x s H Mx Gx) as H1. revert G H1.
    rewrite sync_park_eq, Nx, Rx. unfold fstate, fouts. cbn [fst snd]. intros G H1.
    set (s1 := set_sync s (s_sync_pending s ++ [x]) (parent x :: s_sync_requests s)) in *.
    assert (Hm1 : forall y, In y l -> store_get (parent y) (s_store s1) = None /\ qc_eqb (b_qc y) qc_genesis = false)
      by (intros y Hy; apply Hm; right; exact Hy).
    assert (Hd1 : NoDup (map block_digest (s_sync_pending s1 ++ l))).
    { unfold s1. cbn [s_sync_pending set_sync]. rewrite <- app_assoc. exact Hd. }
    assert (Hr1 : NoDup (rev (map parent l) ++ s_sync_requests s1)).
    { unfold s1. cbn [s_sync_requests set_sync]. simpl in Hr. rewrite <- app_assoc in Hr. exact Hr. }
    destruct (IH s1 H1 Hm1 Hd1 Hr1) as [E1 I1].
    assert (E : park_all (x :: l) s =
                (set_sync s (s_sync_pending s ++ x :: l) (rev (map parent (x :: l)) ++ s_sync_requests s), map req_of (x :: l), ROk tt)).
    { change (park_all (x :: l)) with (bind (get_parent_block x) (fun _ => park_all l)).
      rewrite (bind_ok _ _ _ _ _ _ G), E1. unfold s1. cbn [s_sync_pending s_sync_requests set_sync].
      simpl. rewrite <- !app_assoc. reflexivity. }
    split; [exact E|].
    change (park_all (x :: l)) with (bind (get_parent_block x) (fun _ => park_all l)).
    rewrite (bind_ok _ _ _ _ _ _ G). destruct (park_all l s1) as [[s2 o2] r2]. exact I1.
Qed.

(* ---------- phase 2: the released blocks are served one after the other ---------- *)
Lemma serve_one_eq b s : s_loopback s = [b] -> serve_one b s = store_block b (set_loopback s []).
Proof.
  intros E. unfold serve_one. rewrite bind_get_eq, E. simpl. unfold block_eqb. rewrite deqb_refl.
  rewrite bind_modify_eq. reflexivity.
Qed.

Lemma serve_spec : forall rest b s,
  linked (b :: rest) -> SyncInv s ->
  store_get (block_digest b) (s_store s) <> None ->
  s_loopback s = firstn 1 rest -> s_sync_pending s = rev (tl rest) -> s_sync_requests s = map parent (tl rest) ->
  let x := serve rest s in
  fres x = ROk tt /\ fouts x = [] /\
  s_store (fstate x) = rev (map entry rest) ++ s_store s /\
  s_sync_pending (fstate x) = [] /\ s_sync_requests (fstate x) = [] /\ s_loopback (fstate x) = [] /\
  SyncInv (fstate x).
Proof.
  induction rest as [|b2 r IH]; intros b s L H Hb El Ep Er.
  - simpl. unfold ret, fres, fouts, fstate. simpl.
    split; [reflexivity|]. split; [reflexivity|]. split; [reflexivity|]. split; [exact Ep|]. split; [exact Er|]. split; [exact El|exact H].
  - simpl in El, Ep, Er.
    pose proof (serve_one_eq b2 s El) as E1. rewrite store_block_eq in E1.
    set (s0 := set_loopback s []) in *.
    assert (H0 : SyncInv s0) by (eapply SyncInv_eq; [|exact H]; repeat split).
    assert (R2 : resolv s0 b2).
    { right. destruct L as [E _]. rewrite E. unfold s0. cbn [s_store set_loopback].
      destruct (store_get (block_digest b) (s_store s)) as [p|]; [eauto|congruence]. }
    pose proof (store_inv b2 s0 H0 R2) as H1. rewrite store_block_eq in H1. unfold fstate in H1. cbn [fst] in H1.
    destruct (chain_release b2 r (linked_tail _ _ L)) as [W [K Q]].
    revert E1 H1. unfold s0. cbn [s_store s_sync_pending s_sync_requests s_loopback set_loopback].
    rewrite Ep, Er, W, K, Q. cbn [app]. intros E1 H1.
    match type of E1 with _ = (?S, _, _) => set (s1 := S) in * end.
    assert (Hb2 : store_get (block_digest b2) (s_store s1) <> None).
    { unfold s1. cbn [s_store set_loopback set_sync set_store]. rewrite store_get_cons, deqb_refl. discriminate. }
    specialize (IH b2 s1 (linked_tail _ _ L) H1 Hb2 eq_refl eq_refl eq_refl).
    cbv zeta in IH |- *.
    change (serve (b2 :: r)) with (bind (serve_one b2) (fun _ => serve r)).
    rewrite (bind_ok _ _ _ _ _ _ E1). destruct (serve r s1) as [[s2 o2] r2]. unfold fres, fouts, fstate in *. cbn [fst snd] in *.
    destruct IH as [I1 [I2 [I3 [I4 [I5 [I6 I7]]]]]]. subst o2.
    split; [exact I1|]. split; [reflexivity|]. split; [|auto].
    rewrite I3. unfold s1. cbn [s_store set_loopback set_sync set_store]. simpl. rewrite <- app_assoc. reflexivity.
Qed.

(* ---------- lookups in the store after the writes ---------- *)
Lemma store_get_skip x pre st : ~ In x (map fst pre) -> store_get x (pre ++ st) = store_get x st.
Proof.
  induction pre as [|[k v] pre IH]; simpl; intros Hn; [reflexivity|].
  assert (E : digest_eqb x k = false) by (apply deqb_false; intros ->; apply Hn; left; reflexivity).
  rewrite E. apply IH. intros Hin. apply Hn. right. exact Hin.
Qed.
Lemma store_get_chain : forall l st y, NoDup (map block_digest l) -> In y l ->
  store_get (block_digest y) (rev (map entry l) ++ st) = Some y.
Proof.
  induction l as [|a l IH]; intros st y Hn Hy; [destruct Hy|].
  simpl in Hn. inversion Hn as [|? ? Ha Hl]; subst. simpl. rewrite <- app_assoc.
  destruct Hy as [<-|Hy].
  - rewrite store_get_skip.
    + cbn [app]. unfold entry. rewrite store_get_cons, deqb_refl. reflexivity.
    + rewrite map_rev, map_map. simpl. intros Hin. apply in_rev in Hin. exact (Ha Hin).
  - apply IH; assumption.
Qed.

(* ---------- the catch-up theorem ---------- *)
Theorem c07_catch_up_sync_layer b1 rest s :
  linked (b1 :: rest) ->                                    (* b_{i+1}.qc.hash = digest b_i, any length *)
  SyncInv s -> resolv s b1 ->                               (* what b1 extends is at hand *)
  store_get (block_digest b1) (s_store s) = None ->         (* b1 itself is missing *)
  s_sync_pending s = [] -> s_sync_requests s = [] -> s_loopback s = [] ->
  let x := catch_up b1 rest s in
  fres x = ROk tt /\
  (* one request per missing link b_i (i = 2..k), newest first, each to the author of b_i, for the digest of b_{i-1} *)
  fouts x = map req_of (rev rest) /\
  length (sync_reqs (fouts x)) = length rest /\
  (* stored oldest first, on top of what was there *)
  s_store (fstate x) = rev (map entry (b1 :: rest)) ++ s_store s /\
  (forall b, In b (b1 :: rest) -> store_get (block_digest b) (s_store (fstate x)) = Some b) /\
  s_sync_pending (fstate x) = [] /\ s_sync_requests (fstate x) = [] /\ s_loopback (fstate x) = [] /\
  SyncInv (fstate x).
Proof.
  intros L H R1 M1 Ep Er El.
  (* phase 1 *)
  assert (Hm : forall x, In x (rev rest) -> store_get (parent x) (s_store s) = None /\ qc_eqb (b_qc x) qc_genesis = false).
  { intros x Hx. apply in_rev in Hx. split; [|exact (linked_nongen rest b1 L x Hx)].
    destruct (linked_pred rest b1 L x Hx) as [y [Hy ->]].
    destruct Hy as [<-|Hy]; [exact M1|exact (chain_missing s H rest b1 L M1 y Hy)]. }
  assert (Hd : NoDup (map block_digest (s_sync_pending s ++ rev rest))).
  { rewrite Ep. simpl. rewrite map_rev. apply NoDup_rev. exact (linked_nodup rest (linked_tail _ _ L)). }
  assert (Hr : NoDup (rev (map parent (rev rest)) ++ s_sync_requests s)).
  { rewrite Er, app_nil_r, map_rev, rev_involutive. exact (linked_parents_nodup rest b1 L). }
  destruct (park_all_spec (rev rest) s H Hm Hd Hr) as [E1 I1].
  rewrite E1 in I1. unfold fstate in I1. cbn [fst] in I1. revert E1 I1.
  rewrite Ep, Er, app_nil_r, map_rev, rev_involutive. cbn [app]. intros E1 I1.
  set (s1 := set_sync s (rev rest) (map parent rest)) in *.
  (* b1 arrives *)
  assert (R11 : resolv s1 b1) by (eapply resolv_eq; [|exact R1]; reflexivity).
  pose proof (store_inv b1 s1 I1 R11) as I2.
  set (s2 := fstate (store_block b1 s1)) in *.
  assert (E2 : store_block b1 s1 = (s2, [], ROk tt)) by reflexivity.
  destruct (chain_release b1 rest L) as [W [K Q]].
  assert (F1 : s_store s2 = (block_digest b1, b1) :: s_store s) by reflexivity.
  assert (F2 : s_sync_pending s2 = rev (tl rest)) by (rewrite <- K; reflexivity).
  assert (F3 : s_sync_requests s2 = map parent (tl rest)) by (rewrite <- Q, <- W; reflexivity).
  assert (F4 : s_loopback s2 = firstn 1 rest).
  { change (s_loopback s2) with (s_loopback s ++ woken (block_digest b1) (rev rest)). rewrite El, W. reflexivity. }
  clearbody s2.
  assert (Hb1 : store_get (block_digest b1) (s_store s2) <> None).
  { rewrite F1, store_get_cons, deqb_refl. discriminate. }
  (* phase 2 *)
  pose proof (serve_spec rest b1 s2 L I2 Hb1 F4 F2 F3) as P. cbv zeta in P.
  unfold catch_up. cbv zeta.
  rewrite (bind_ok _ _ _ _ _ _ E1).
  rewrite (bind_ok (store_block b1) (fun _ => serve rest) s1 _ _ _ E2).
  destruct (serve rest s2) as [[s3 o3] r3]. unfold fres, fouts, fstate in *. cbn [fst snd] in *.
  destruct P as [P1 [P2 [P3 [P4 [P5 [P6 P7]]]]]]. subst o3.
  assert (Es : s_store s3 = rev (map entry (b1 :: rest)) ++ s_store s).
  { rewrite P3, F1. simpl. rewrite <- app_assoc. reflexivity. }
  split; [exact P1|]. split; [cbn [app]; rewrite app_nil_r; reflexivity|].
  split.
  { cbn [app]. rewrite app_nil_r. rewrite <- (rev_length rest). generalize (rev rest). intros l.
    induction l as [|y l IHl]; simpl; [reflexivity|]. f_equal. exact IHl. }
  split; [exact Es|]. split; [|auto].
  intros b Hb. rewrite Es. apply store_get_chain; [exact (linked_nodup _ L)|exact Hb].
Qed.

(* ---------- k = 3, evaluated: the hypotheses are satisfiable and the script runs as stated ---------- *)
(* B1 (round 1, extends genesis) is stored; B3 <- B5 <- B6 are missing; B6 and B5 are handed over newest first *)
Definition s_have_B1 : State := fstate (store_block B1 (init c4)).

Example catch_up_k3_hyps :
  linked [B3; B5; B6] /\ SyncInv s_have_B1 /\ resolv s_have_B1 B3 /\
  store_get (block_digest B3) (s_store s_have_B1) = None /\
  s_sync_pending s_have_B1 = [] /\ s_sync_requests s_have_B1 = [] /\ s_loopback s_have_B1 = [].
Proof.
  split; [simpl; split; [|split]; vm_compute; auto|].
  split; [apply store_inv; [apply SyncInv_init|left; vm_compute; reflexivity]|].
  split; [right; vm_compute; eauto|]. vm_compute. repeat split.
Qed.

Example catch_up_k3 :
  let x := catch_up B3 [B5; B6] s_have_B1 in
  fres x = ROk tt /\
  fouts x = [OSyncReq (b_author B6) (block_digest B5); OSyncReq (b_author B5) (block_digest B3)] /\
  map fst (s_store (fstate x)) = [block_digest B6; block_digest B5; block_digest B3; block_digest B1] /\
  s_sync_pending (fstate x) = [] /\ s_sync_requests (fstate x) = [] /\ s_loopback (fstate x) = [] /\
  sync_invb (fstate x) = true.
Proof. vm_compute. repeat split. Qed.

(* the general theorem applied to the same instance *)
Example catch_up_k3_by_theorem :
  fouts (catch_up B3 [B5; B6] s_have_B1) = map req_of [B6; B5] /\
  s_sync_pending (fstate (catch_up B3 [B5; B6] s_have_B1)) = [].
Proof.
  destruct catch_up_k3_hyps as [L [I [R [M [P [Q Lb]]]]]].
  destruct (c07_catch_up_sync_layer B3 [B5; B6] s_have_B1 L I R M P Q Lb) as [_ [O [_ [_ [_ [Pe _]]]]]].
  split; [exact O|exact Pe].
Qed.

(* ---------- one full-stack instance on the node model (votes and commits included), evaluated ----------
   the C02 witness chain B1 <- B3 <- B5 <- B6 <- B7 of Node.v: a node (authority 3 of c4) that holds B1 only is handed
   B7, then the sync replies B6, B5, B3, then serves its loop-back pool: it asks once for each missing ancestor, the
   author of the child each time, and delivers the same committed sequence as a node that saw the chain in order *)
Definition in_order : list Event := map EvPropose [B1; B3; B5; B6; B7].
Definition lagging : list Event :=
  [EvPropose B1; EvPropose B7; EvPropose B6; EvPropose B5; EvPropose B3; EvLoopback B5; EvLoopback B6; EvLoopback B7].
Definition run_on (evs : list Event) := run c4 3 src_dq (map (fun e => ([], e)) evs) (init c4).
Example catch_up_full_stack_instance :
  commits (snd (run_on lagging)) = commits (snd (run_on in_order)) /\
  commits (snd (run_on in_order)) = [1; 3; 5] /\
  flat_map (fun x => sync_reqs (fst x)) (snd (run_on lagging)) =
    [(b_author B7, block_digest B6); (b_author B6, block_digest B5); (b_author B5, block_digest B3)] /\
  sync_idle (fst (run_on lagging)) = true /\
  forallb (fun x => match snd x with ROk _ => true | _ => false end) (snd (run_on lagging)) = true.
Proof. vm_compute. repeat split. Qed.

Print Assumptions c07_catch_up_sync_layer.
