(* C02 at the global level: every honest node's delivery log is a parent-linked chain from genesis. *)
From Coq Require Import List NArith Lia Bool ZifyN ZifyBool.
From HS Require Import GTac Node Proto Link NodeInv NodeLog Global.
Import ListNotations.
Open Scope N_scope.

Section GlobalLog.
  Variable c : Committee.
  Variable honest : N -> bool.
  Hypothesis members_nodup : NoDup (members c).
  Notation stk := (stk c).
  Notation mem := (members c).
  Hypothesis byz_bound : 3 * byz_stake stk mem honest < total stk mem.

  Lemma LogInv_mono me w0 w0' s :
    (forall x, x <> me -> forall e, In e (w0 x) -> In e (w0' x)) ->
    LogInv c me honest w0 s -> LogInv c me honest w0' s.
  Proof.
    intros Hw [A [B C]]. split; auto. split; auto.
    intros d l Hl. eapply dcommit_mono; [apply (cw_wle2 me w0 w0' s Hw)|]. eapply C; eauto.
  Qed.

  Definition GLog (g : gstate) : Prop :=
    forall a, honest a = true -> LogInv c a honest (gw g) (g a).

  Lemma W_of_GInv g a : GInv c honest g -> honest a = true -> W c a honest (gw g) (g a).
  Proof.
    intros HG Ha x Hx. assert (Hwinv := GInv_winv c honest g HG x Hx).
    assert (E : cw a (gw g) (g a) x = gw g x).
    { unfold cw, upd, gw. destruct (N.eqb_spec x a); subst; reflexivity. }
    rewrite E. eapply hist_ok_mono; [apply gw_cw_le|exact Hwinv].
  Qed.

  Lemma gstep_log g g' : GInv c honest g -> GLog g -> gstep c honest g g' -> GLog g'.
  Proof.
    intros HG HLg Hs. inversion Hs as [g0 a hint e Ha Hadm]; subst.
    pose proof (step_inv c a honest members_nodup Ha (gw g) byz_bound hint e (g a) (HG a Ha)
                  (msg_adm_ev_adm c honest members_nodup g a e Hadm)) as S.
    pose proof (step_log c a honest members_nodup Ha (gw g) byz_bound hint e (g a) (HG a Ha)
                  (W_of_GInv g a HG Ha) (HLg a Ha) (msg_adm_ev_adm c honest members_nodup g a e Hadm)) as SL.
    destruct (step c a src_dq hint e (g a)) as [[s' o] r]. unfold st in SL. simpl in *.
    destruct S as [_ [[pre Hp] _]].
    intros b Hb. unfold gupd at 2. destruct (N.eqb_spec b a) as [->|Hne].
    - eapply LogInv_mono; [|exact SL]. intros x Hx e0 He. unfold gw, gupd.
      destruct (N.eqb_spec x a); [contradiction|exact He].
    - eapply LogInv_mono; [|exact (HLg b Hb)]. intros x Hx e0 He. unfold gw, gupd in *.
      destruct (N.eqb_spec x a) as [->|]; [|exact He]. rewrite Hp. apply in_or_app. right. exact He.
  Qed.

  Theorem greach_log g : greach c honest g -> GLog g.
  Proof.
    induction 1 as [|g g' Hr IH Hs].
    - intros a Ha. split; [constructor|]. split; [reflexivity|]. intros d l Hl. discriminate.
    - eapply gstep_log; eauto. apply (greach_inv c honest members_nodup byz_bound). exact Hr.
  Qed.

  (* C02: what an honest node hands to its application is its committed chain, oldest first,
     each block's parent being the block delivered just before it, genesis for the first. *)
  Theorem c02_delivery_chain g a :
    greach c honest g -> honest a = true -> chain (s_log (g a)).
  Proof. intros Hr Ha. destruct (greach_log g Hr a Ha) as [Hc _]. exact Hc. Qed.
End GlobalLog.

Check c02_delivery_chain.
Print Assumptions c02_delivery_chain.
