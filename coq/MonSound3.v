(* Monitor soundness, part 3: mon_c08 is true on every run of the node model in which the mempool announces a digest to
   the proposer only after storing the batch ([dig_ok], a condition on the event list alone).  No admissibility
   hypothesis: forged, invalid or Byzantine messages included. From AvInv/c08_step (NodeAvail.v), the frame of the
   batch store (step_batches) and the vote calculus (step_votes). *)
From Coq Require Import List NArith Lia Bool.
From HS Require Import GTac Node Corr Monitors Link NodeAvail GlobalAvail MonSoundDefs MonSound2.
Import ListNotations.
Open Scope N_scope.

Section C08.
  Variable c : Committee. Variable me : N.

  Lemma incl_forallb_mem l batches : incl l batches -> forallb (fun d => memN d batches) l = true.
  Proof. intros H. apply forallb_forall. intros d Hd. apply Link.memN_in. apply H. exact Hd. Qed.

  Lemma c08_walk_sound evs : forall s,
    AvInv s -> dig_ok (s_batches s) evs = true ->
    c08_walk me (s_batches s) evs (obs_from c me evs s) = true.
  Proof.
    induction evs as [|[h e] r IH]; intros s HA HD; cbn [obs_from]; [reflexivity|].
    assert (Hav : ev_av s e).
    { destruct e; simpl; auto. simpl in HD. apply andb_true_iff in HD. apply Link.memN_in. apply HD. }
    pose proof (c08_step c me h e s HA Hav) as P. unfold Post in P.
    pose proof (step_batches c me src_dq h e s) as B.
    pose proof (step_votes c me src_dq h e s) as V.
    destruct (step c me src_dq h e s) as [[s1 o] res]. cbn [fst snd] in B.
    destruct P as [A1 [_ Pc]]. destruct V as [_ [_ V]].
    assert (B' : s_batches s1 = match e with EvBatch d => d :: s_batches s | _ => s_batches s end) by exact B.
    assert (HD1 : dig_ok (s_batches s1) r = true).
    { rewrite B'. destruct e; simpl in HD; auto. apply andb_true_iff in HD. apply HD. }
    cbn [c08_walk ob_out]. rewrite <- B'. rewrite (IH s1 A1 HD1), andb_true_r.
    apply andb_true_iff. split.
    - (* commits *)
      apply forallb_forall. intros b Hb. apply incl_forallb_mem. apply Pc.
      unfold commits_of in Hb. apply in_flat_map in Hb. destruct Hb as [x [Hx Hb]].
      destruct x; simpl in Hb; try contradiction. destruct Hb as [<-|[]]. exact Hx.
    - (* votes *)
      destruct V as [[V _]|[x [Hp [_ [_ [[j Hj] [_ Hv]]]]]]]; [rewrite V; reflexivity|].
      destruct Hv as [Hv|Hv]; rewrite Hv; [reflexivity|].
      destruct (processed_ev_block c e s x Hp) as [b [Eb Ed]]. rewrite Eb.
      apply orb_true_iff. right. apply incl_forallb_mem.
      pose proof (av_hist s1 A1 _ _ _ Hj) as Hpl. simpl in Hpl.
      unfold block_digest in Ed. injection Ed as _ _ Ep _. rewrite Ep. exact Hpl.
  Qed.

  (* on every run of the node model from the initial state: whatever the messages, provided digests are announced
     to the proposer after their batch is stored *)
  Theorem mon_c08_sound evs : dig_ok [] evs = true -> mon_c08 me evs (obs_of_run c me evs) = true.
  Proof.
    intros H. unfold mon_c08, obs_of_run.
    exact (c08_walk_sound evs (init c) (AvInv_init c) H).
  Qed.
End C08.

(* the premise is satisfiable and the monitor's condition is exercised: the C02 witness chain on node 3 *)
Example mon_c08_premise_ok :
  dig_ok [] (map (fun b => ([], EvPropose b)) [B1; B3; B5; B6; B7]) = true.
Proof. reflexivity. Qed.

(* the hypothesis is needed: node 1 is handed digest 5 before any batch 5 is stored; it leads round 1, so the digest ends
   up in its own round-1 proposal, which it commits two rounds later without holding the batch -- the monitor says no *)
Definition ownP : Block := mkBlock qc_genesis None 1 1 [5] (SigOf 1 (CBlock (DBlk 1 1 [5] DZero))).
Definition P2 : Block := mkblk (mkqc ownP) None 2.
Definition P3 : Block := mkblk (mkqc P2) None 3.
Definition evs_early_digest : list (list N * Event) :=
  [([], EvDigest 5); ([5], EvBoot); ([], EvLoopback ownP); ([], EvPropose P2); ([], EvPropose P3)].
Example mon_c08_needs_dig_ok :
  dig_ok [] evs_early_digest = false /\
  map b_payload (commits_of (outs_of (obs_of_run c4 1 evs_early_digest))) = [[5]] /\
  mon_c08 1 evs_early_digest (obs_of_run c4 1 evs_early_digest) = false.
Proof. vm_compute. auto. Qed.
(* with the batch stored first the same run passes *)
Example mon_c08_with_batch :
  dig_ok [] (([], EvBatch 5) :: evs_early_digest) = true /\
  mon_c08 1 (([], EvBatch 5) :: evs_early_digest) (obs_of_run c4 1 (([], EvBatch 5) :: evs_early_digest)) = true.
Proof. vm_compute. auto. Qed.
Print Assumptions mon_c08_sound.
