(* C18 / C15 (decoding half): executable model of `base64 0.13` with the STANDARD configuration
   (alphabet A-Z a-z 0-9 + /, `pad: true`, `decode_allow_trailing_bits: false`), which is what
   `base64::encode` / `base64::decode` use and therefore what `PublicKey::encode_base64`,
   `PublicKey::decode_base64` and the `SecretKey` counterparts of crypto/src/lib.rs use.
   MODEL ONLY: no proofs in this file (theorems are in Base64.v).

   Bytes are `N`; the functions are total on every list of `N` (a number >= 256 is simply not a symbol).

   Source followed for decoding: base64-0.13.1/src/decode.rs `decode_helper`:
     - input length mod 8 in {1, 5}                         -> error (InvalidLength / InvalidByte)
     - every 8-symbol chunk except the LAST (possibly partial, 1..8 bytes) chunk is decoded by
       `decode_chunk`: 8 alphabet symbols -> 6 bytes; any other byte ('=' included) -> error
     - the last chunk is scanned byte by byte ("stage 4"): '=' at an offset i with i % 4 < 2 -> error;
       a non-'=' byte after a '=' -> error; a byte outside the alphabet -> error; otherwise the 6-bit
       values ("morsels") are packed from the left; with m morsels, floor(6m/8) bytes are produced and
       the 6m - 8*floor(6m/8) left-over bits must be zero (else InvalidLastSymbol).
   Note what the crate does NOT check: the number of '=' (so "AA", "AA=" and "AA==" all decode to one
   byte) and that the total length is a multiple of 4. The model follows the crate, not RFC 4648. *)
From Coq Require Import List NArith Arith Ascii String Bool.
Import ListNotations.
Open Scope N_scope.

Fixpoint bytes_of_string (s : string) : list N :=
  match s with EmptyString => [] | String c r => N_of_ascii c :: bytes_of_string r end.

(* tables.rs STANDARD_ENCODE *)
Definition b64_alphabet : list N :=
  bytes_of_string "ABCDEFGHIJKLMNOPQRSTUVWXYZabcdefghijklmnopqrstuvwxyz0123456789+/"%string.
Definition b64_pad : N := 61. (* '=' *)

(* 6-bit value -> symbol *)
Definition b64_sym (v : N) : N := nth (N.to_nat v) b64_alphabet 0.

(* symbol -> 6-bit value (tables.rs STANDARD_DECODE; INVALID_VALUE = None) *)
Fixpoint index_of (c : N) (l : list N) (i : N) : option N :=
  match l with [] => None | x :: r => if x =? c then Some i else index_of c r (i + 1) end.
Definition b64_val (c : N) : option N := index_of c b64_alphabet 0.

(* ---------- encode (encode.rs: 3 bytes -> 4 symbols, then `add_padding`) ---------- *)
Fixpoint b64_encode (l : list N) : list N :=
  match l with
  | a :: b :: c :: r =>
      b64_sym (a / 4) :: b64_sym ((a mod 4) * 16 + b / 16) :: b64_sym ((b mod 16) * 4 + c / 64) :: b64_sym (c mod 64)
      :: b64_encode r
  | [a; b] => [b64_sym (a / 4); b64_sym ((a mod 4) * 16 + b / 16); b64_sym ((b mod 16) * 4); b64_pad]
  | [a] => [b64_sym (a / 4); b64_sym ((a mod 4) * 16); b64_pad; b64_pad]
  | [] => []
  end.

(* ---------- decode ---------- *)
(* four symbols -> three bytes (half of `decode_chunk`) *)
Definition b64_dec_quad (a b c d : N) : option (list N) :=
  match b64_val a, b64_val b, b64_val c, b64_val d with
  | Some x, Some y, Some z, Some w => Some [x * 4 + y / 16; (y mod 16) * 16 + z / 4; (z mod 4) * 64 + w]
  | _, _, _, _ => None
  end.

(* stage 4, first half: scan of the last chunk. `i` = offset in the chunk, `padded` = a '=' was seen,
   `acc` = morsels so far (reversed). *)
Fixpoint b64_last_scan (i : nat) (padded : bool) (acc : list N) (l : list N) : option (list N) :=
  match l with
  | [] => Some (rev acc)
  | b :: r =>
      if b =? b64_pad then
        if (Nat.modulo i 4 <? 2)%nat then None else b64_last_scan (S i) true acc r
      else if padded then None
      else match b64_val b with
           | None => None
           | Some v => b64_last_scan (S i) false (v :: acc) r
           end
  end.

(* stage 4, second half: m morsels -> floor(6m/8) bytes, left-over bits must be zero.
   One morsel alone cannot occur after the length test and the scan (the crate has `unreachable!` there). *)
Fixpoint b64_morsels_bytes (m : list N) : option (list N) :=
  match m with
  | [] => Some []
  | [_] => None
  | [x; y] => if y mod 16 =? 0 then Some [x * 4 + y / 16] else None
  | [x; y; z] => if z mod 4 =? 0 then Some [x * 4 + y / 16; (y mod 16) * 16 + z / 4] else None
  | x :: y :: z :: w :: r =>
      match b64_morsels_bytes r with
      | Some t => Some (x * 4 + y / 16 :: (y mod 16) * 16 + z / 4 :: (z mod 4) * 64 + w :: t)
      | None => None
      end
  end.

Definition b64_dec_last (l : list N) : option (list N) :=
  match b64_last_scan 0 false [] l with Some m => b64_morsels_bytes m | None => None end.

(* full chunks while MORE than 8 bytes remain; the last 0..8 bytes go through stage 4 *)
Fixpoint b64_dec_chunks (l : list N) : option (list N) :=
  match l with
  | a :: b :: c :: d :: e :: f :: g :: h :: ((_ :: _) as rest) =>
      match b64_dec_quad a b c d, b64_dec_quad e f g h, b64_dec_chunks rest with
      | Some x, Some y, Some z => Some (x ++ y ++ z)
      | _, _, _ => None
      end
  | _ => b64_dec_last l
  end.

Definition b64_decode (s : list N) : option (list N) :=
  let r := Nat.modulo (List.length s) 8 in
  if (r =? 1)%nat || (r =? 5)%nat then None else b64_dec_chunks s.

(* ---------- crypto/src/lib.rs: PublicKey::decode_base64 / SecretKey::decode_base64 ----------
     let bytes = base64::decode(s)?;
     let array = bytes[..LEN].try_into().map_err(|_| InvalidLength)?;   (LEN = 32 / 64)
   The slice `bytes[..LEN]` PANICS when fewer than LEN bytes were decoded and silently drops the bytes after
   the first LEN (the `try_into` on a slice of exactly LEN bytes cannot fail).
   `exact_len = false` is that behaviour; `exact_len = true` is the repaired behaviour (any decoded length
   other than LEN is an error). *)
Inductive key_outcome := KOk (k : list N) | KErr | KPanic.

Definition decode_key_n (len : nat) (exact_len : bool) (s : list N) : key_outcome :=
  match b64_decode s with
  | None => KErr
  | Some k =>
      if exact_len then (if (List.length k =? len)%nat then KOk k else KErr)
      else (if (List.length k <? len)%nat then KPanic else KOk (firstn len k))
  end.
Definition decode_pubkey := decode_key_n 32.
Definition decode_seckey := decode_key_n 64.
Definition encode_key (k : list N) : list N := b64_encode k.
