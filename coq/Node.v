(* Executable consensus-node model (prototype v2: ghost history + commit log, fixed/unfixed commit) (Core + Aggregator + consensus
   Synchronizer + MempoolDriver/PayloadWaiter + Proposer), mirroring consensus/src/*.rs. *)
From Coq Require Import List NArith Lia Bool.
From HS Require Import GTac.
Import ListNotations.
Open Scope N_scope.

(* ---------- symbolic digests and ideal signatures ---------- *)
Inductive digest :=
| DZero
| DBlk (a r : N) (pl : list N) (p : digest)
| DOther (k : N).

Fixpoint list_eqb {A} (eqb : A -> A -> bool) (l1 l2 : list A) : bool :=
  match l1, l2 with
  | [], [] => true
  | x :: xs, y :: ys => eqb x y && list_eqb eqb xs ys
  | _, _ => false
  end.

Fixpoint digest_eqb (d1 d2 : digest) : bool :=
  match d1, d2 with
  | DZero, DZero => true
  | DBlk a1 r1 pl1 p1, DBlk a2 r2 pl2 p2 =>
      (a1 =? a2) && (r1 =? r2) && list_eqb N.eqb pl1 pl2 && digest_eqb p1 p2
  | DOther k1, DOther k2 => k1 =? k2
  | _, _ => false
  end.

Definition dround d := match d with DBlk _ r _ _ => r | _ => 0 end.
Definition dparent d := match d with DBlk _ _ _ p => p | _ => DZero end.

Fixpoint ddepth (d : digest) : nat :=
  match d with DBlk _ _ _ p => S (ddepth p) | _ => O end.

Inductive content :=
| CBlock (d : digest)
| CVote (h : digest) (r : N)
| CTimeout (r hqr : N).

Definition content_eqb (c1 c2 : content) : bool :=
  match c1, c2 with
  | CBlock d1, CBlock d2 => digest_eqb d1 d2
  | CVote h1 r1, CVote h2 r2 => digest_eqb h1 h2 && (r1 =? r2)
  | CTimeout r1 q1, CTimeout r2 q2 => (r1 =? r2) && (q1 =? q2)
  | _, _ => false
  end.

Inductive sig := SigOf (signer : N) (c : content) | SigJunk (k : N).

Definition sig_ok (signer : N) (c : content) (s : sig) : bool :=
  match s with
  | SigOf a c' => (a =? signer) && content_eqb c c'
  | SigJunk _ => false
  end.

(* ---------- messages ---------- *)
Record QC := mkQC { qc_hash : digest; qc_round : N; qc_votes : list (N * sig) }.
Record TC := mkTC { tc_round : N; tc_votes : list (N * sig * N) }.
Record Block := mkBlock {
  b_qc : QC; b_tc : option TC; b_author : N; b_round : N; b_payload : list N; b_sig : sig }.
Record Vote := mkVote { v_hash : digest; v_round : N; v_author : N; v_sig : sig }.
Record Timeout := mkTimeout { t_high_qc : QC; t_round : N; t_author : N; t_sig : sig }.

Definition qc_genesis : QC := mkQC DZero 0 [].
(* impl PartialEq for QC: hash and round only *)
Definition qc_eqb (q1 q2 : QC) : bool :=
  digest_eqb (qc_hash q1) (qc_hash q2) && (qc_round q1 =? qc_round q2).
Definition block_genesis : Block := mkBlock qc_genesis None 0 0 [] (SigJunk 0).

Definition block_digest (b : Block) : digest :=
  DBlk (b_author b) (b_round b) (b_payload b) (qc_hash (b_qc b)).
Definition tc_hqrs (tc : TC) : list N := map (fun x => snd x) (tc_votes tc).

(* ---------- committee ---------- *)
Record Committee := mkCommittee { stakes : list (N * N) (* authority -> stake, sorted by key *) }.
Fixpoint alookup {V} (k : N) (l : list (N * V)) : option V :=
  match l with [] => None | (k', v) :: r => if k =? k' then Some v else alookup k r end.
Definition stake (c : Committee) (a : N) : N :=
  match alookup a (stakes c) with Some s => s | None => 0 end.
Definition total_stake (c : Committee) : N := fold_right (fun x acc => snd x + acc) 0 (stakes c).
Definition quorum (c : Committee) : N := g_quorum_consensus (total_stake c).
Definition csize (c : Committee) : N := N.of_nat (length (stakes c)).
(* authorities are named by their rank in sorted key order *)
Definition leader (c : Committee) (r : N) : N := g_leader_index r (csize c).

(* ---------- verification ---------- *)
Inductive err :=
| EUnknownAuthority (a : N) | EAuthorityReuse (a : N) | EQCRequiresQuorum | ETCRequiresQuorum
| EInvalidSignature | EWrongLeader | ESerialization.
Inductive res (A : Type) := ROk (a : A) | RErr (e : err) | RPanic (site : N).
Arguments ROk {A}. Arguments RErr {A}. Arguments RPanic {A}.

Definition memN (a : N) (l : list N) : bool := existsb (N.eqb a) l.

(* [okst] is the regenerated "has voting rights" test of the certificate being scanned *)
Fixpoint scan_signers (okst : N -> bool) (c : Committee) (names : list N) (used : list N) (w : N) : res N :=
  match names with
  | [] => ROk w
  | a :: rest =>
      if memN a used then RErr (EAuthorityReuse a)
      else let s := stake c a in
           if negb (okst s) then RErr (EUnknownAuthority a)
           else scan_signers okst c rest (a :: used) (w + s)
  end.

Definition qc_verify (c : Committee) (qc : QC) : res unit :=
  match scan_signers g_qc_entry_stake c (map fst (qc_votes qc)) [] 0 with
  | RErr e => RErr e | RPanic s => RPanic s
  | ROk w =>
      if negb (g_qc_weight w (quorum c)) then RErr EQCRequiresQuorum
      else if forallb (fun v => sig_ok (fst v) (CVote (qc_hash qc) (qc_round qc)) (snd v))
                      (qc_votes qc)
           then ROk tt else RErr EInvalidSignature
  end.

Definition tc_verify (c : Committee) (tc : TC) : res unit :=
  match scan_signers g_tc_entry_stake c (map (fun x => fst (fst x)) (tc_votes tc)) [] 0 with
  | RErr e => RErr e | RPanic s => RPanic s
  | ROk w =>
      if negb (g_tc_weight w (quorum c)) then RErr ETCRequiresQuorum
      else if forallb (fun v => match v with (a, s, hq) => sig_ok a (CTimeout (tc_round tc) hq) s end)
                      (tc_votes tc)
           then ROk tt else RErr EInvalidSignature
  end.

Definition vote_verify (c : Committee) (v : Vote) : res unit :=
  if negb (g_vote_stake (stake c (v_author v))) then RErr (EUnknownAuthority (v_author v))
  else if sig_ok (v_author v) (CVote (v_hash v) (v_round v)) (v_sig v) then ROk tt
  else RErr EInvalidSignature.

Definition timeout_verify (c : Committee) (t : Timeout) : res unit :=
  if negb (g_timeout_stake (stake c (t_author t))) then RErr (EUnknownAuthority (t_author t))
  else if negb (sig_ok (t_author t) (CTimeout (t_round t) (qc_round (t_high_qc t))) (t_sig t))
  then RErr EInvalidSignature
  else if qc_eqb (t_high_qc t) qc_genesis then ROk tt else qc_verify c (t_high_qc t).

Definition block_verify (c : Committee) (b : Block) : res unit :=
  if negb (g_block_stake (stake c (b_author b))) then RErr (EUnknownAuthority (b_author b))
  else if negb (sig_ok (b_author b) (CBlock (block_digest b)) (b_sig b)) then RErr EInvalidSignature
  else match (if qc_eqb (b_qc b) qc_genesis then ROk tt else qc_verify c (b_qc b)) with
       | RErr e => RErr e | RPanic s => RPanic s
       | ROk _ => match b_tc b with Some tc => tc_verify c tc | None => ROk tt end
       end.

(* ---------- aggregator ---------- *)
Record QCMaker := mkQM { qm_weight : N; qm_votes : list (N * sig); qm_used : list N }.
Record TCMaker := mkTM { tm_weight : N; tm_votes : list (N * sig * N); tm_used : list N }.

Definition qm_append (c : Committee) (m : QCMaker) (v : Vote) : QCMaker * res (option QC) :=
  if memN (v_author v) (qm_used m) then (m, RErr (EAuthorityReuse (v_author v)))
  else
    let votes := qm_votes m ++ [(v_author v, v_sig v)] in
    let w := qm_weight m + stake c (v_author v) in
    let used := v_author v :: qm_used m in
    if g_qcm_threshold w (quorum c)
    then (mkQM g_qcm_reset votes used, ROk (Some (mkQC (v_hash v) (v_round v) votes)))
    else (mkQM w votes used, ROk None).

Definition tm_append (c : Committee) (m : TCMaker) (t : Timeout) : TCMaker * res (option TC) :=
  if memN (t_author t) (tm_used m) then (m, RErr (EAuthorityReuse (t_author t)))
  else
    let votes := tm_votes m ++ [(t_author t, t_sig t, qc_round (t_high_qc t))] in
    let w := tm_weight m + stake c (t_author t) in
    let used := t_author t :: tm_used m in
    if g_tcm_threshold w (quorum c)
    then (mkTM g_tcm_reset votes used, ROk (Some (mkTC (t_round t) votes)))
    else (mkTM w votes used, ROk None).

(* ---------- ghost history (Layer P events) ---------- *)
Inductive justif := JDirect | JTC (tcr : N) (entries : list (N * N)).
Inductive hev := HVote (d : digest) (qcr : N) (j : justif) | HTimeout (r hqr : N).
Definition tc_entries (tc : TC) : list (N * N) := map (fun x => (fst (fst x), snd x)) (tc_votes tc).

(* ---------- node state ---------- *)
Inductive PMsg := PMake (r : N) (qc : QC) (tc : option TC) | PCleanup (ds : list N).

Record State := mkState {
  s_round : N; s_last_voted : N; s_last_committed : N; s_high_qc : QC;
  s_store : list (digest * Block);           (* consensus blocks, newest first *)
  s_batches : list N;                         (* batch digests present in the store *)
  s_qcm : list ((N * digest) * QCMaker);      (* keyed by (round, voted hash) *)
  s_tcm : list (N * TCMaker);
  s_sync_pending : list Block;                (* consensus synchronizer: parked blocks *)
  s_sync_requests : list digest;              (* parents already requested *)
  s_pw_pending : list (list N * Block);       (* payload waiter: (missing, block) *)
  s_loopback : list Block;                    (* blocks sitting in rx_loopback *)
  s_buffer : list N;                          (* proposer buffer *)
  s_hist : list hev;                          (* ghost: own votes/timeouts, newest first *)
  s_log : list digest;                        (* ghost: delivered blocks, newest first *)
  s_makes : list N                            (* ghost: rounds of the proposals requested, newest first *)
}.

Inductive Out :=
| OVote (to : N) (v : Vote)
| OTimeout (t : Timeout)                       (* broadcast *)
| OTC (tc : TC)                                (* broadcast *)
| OPropose (b : Block)                         (* reliable broadcast by the proposer *)
| OSyncReq (to : N) (d : digest)
| OCommit (b : Block)
| OMemSync (missing : list N) (target : N)
| OMemCleanup (r : N)
| OProposer (m : PMsg)
| OBadHint.                                    (* harness/model bookkeeping mismatch *)

Definition init (c : Committee) : State :=
  mkState 1 0 0 qc_genesis [] [] [] [] [] [] [] [] [] [] [] [].

Fixpoint store_get (d : digest) (st : list (digest * Block)) : option Block :=
  match st with [] => None | (k, b) :: r => if digest_eqb d k then Some b else store_get d r end.

(* --- setters --- *)
Definition set_round s x := mkState x (s_last_voted s) (s_last_committed s) (s_high_qc s) (s_store s) (s_batches s) (s_qcm s) (s_tcm s) (s_sync_pending s) (s_sync_requests s) (s_pw_pending s) (s_loopback s) (s_buffer s) (s_hist s) (s_log s) (s_makes s).
Definition set_last_voted s x := mkState (s_round s) x (s_last_committed s) (s_high_qc s) (s_store s) (s_batches s) (s_qcm s) (s_tcm s) (s_sync_pending s) (s_sync_requests s) (s_pw_pending s) (s_loopback s) (s_buffer s) (s_hist s) (s_log s) (s_makes s).
Definition set_last_committed s x := mkState (s_round s) (s_last_voted s) x (s_high_qc s) (s_store s) (s_batches s) (s_qcm s) (s_tcm s) (s_sync_pending s) (s_sync_requests s) (s_pw_pending s) (s_loopback s) (s_buffer s) (s_hist s) (s_log s) (s_makes s).
Definition set_high_qc s x := mkState (s_round s) (s_last_voted s) (s_last_committed s) x (s_store s) (s_batches s) (s_qcm s) (s_tcm s) (s_sync_pending s) (s_sync_requests s) (s_pw_pending s) (s_loopback s) (s_buffer s) (s_hist s) (s_log s) (s_makes s).
Definition set_store s x := mkState (s_round s) (s_last_voted s) (s_last_committed s) (s_high_qc s) x (s_batches s) (s_qcm s) (s_tcm s) (s_sync_pending s) (s_sync_requests s) (s_pw_pending s) (s_loopback s) (s_buffer s) (s_hist s) (s_log s) (s_makes s).
Definition set_batches s x := mkState (s_round s) (s_last_voted s) (s_last_committed s) (s_high_qc s) (s_store s) x (s_qcm s) (s_tcm s) (s_sync_pending s) (s_sync_requests s) (s_pw_pending s) (s_loopback s) (s_buffer s) (s_hist s) (s_log s) (s_makes s).
Definition set_qcm s x := mkState (s_round s) (s_last_voted s) (s_last_committed s) (s_high_qc s) (s_store s) (s_batches s) x (s_tcm s) (s_sync_pending s) (s_sync_requests s) (s_pw_pending s) (s_loopback s) (s_buffer s) (s_hist s) (s_log s) (s_makes s).
Definition set_tcm s x := mkState (s_round s) (s_last_voted s) (s_last_committed s) (s_high_qc s) (s_store s) (s_batches s) (s_qcm s) x (s_sync_pending s) (s_sync_requests s) (s_pw_pending s) (s_loopback s) (s_buffer s) (s_hist s) (s_log s) (s_makes s).
Definition set_pw s x := mkState (s_round s) (s_last_voted s) (s_last_committed s) (s_high_qc s) (s_store s) (s_batches s) (s_qcm s) (s_tcm s) (s_sync_pending s) (s_sync_requests s) x (s_loopback s) (s_buffer s) (s_hist s) (s_log s) (s_makes s).
Definition set_loopback s x := mkState (s_round s) (s_last_voted s) (s_last_committed s) (s_high_qc s) (s_store s) (s_batches s) (s_qcm s) (s_tcm s) (s_sync_pending s) (s_sync_requests s) (s_pw_pending s) x (s_buffer s) (s_hist s) (s_log s) (s_makes s).
Definition set_buffer s x := mkState (s_round s) (s_last_voted s) (s_last_committed s) (s_high_qc s) (s_store s) (s_batches s) (s_qcm s) (s_tcm s) (s_sync_pending s) (s_sync_requests s) (s_pw_pending s) (s_loopback s) x (s_hist s) (s_log s) (s_makes s).
Definition set_hist s x := mkState (s_round s) (s_last_voted s) (s_last_committed s) (s_high_qc s) (s_store s) (s_batches s) (s_qcm s) (s_tcm s) (s_sync_pending s) (s_sync_requests s) (s_pw_pending s) (s_loopback s) (s_buffer s) x (s_log s) (s_makes s).
Definition set_log s x := mkState (s_round s) (s_last_voted s) (s_last_committed s) (s_high_qc s) (s_store s) (s_batches s) (s_qcm s) (s_tcm s) (s_sync_pending s) (s_sync_requests s) (s_pw_pending s) (s_loopback s) (s_buffer s) (s_hist s) x (s_makes s).
Definition set_makes s x := mkState (s_round s) (s_last_voted s) (s_last_committed s) (s_high_qc s) (s_store s) (s_batches s) (s_qcm s) (s_tcm s) (s_sync_pending s) (s_sync_requests s) (s_pw_pending s) (s_loopback s) (s_buffer s) (s_hist s) (s_log s) x.
Definition set_sync s p q := mkState (s_round s) (s_last_voted s) (s_last_committed s) (s_high_qc s) (s_store s) (s_batches s) (s_qcm s) (s_tcm s) p q (s_pw_pending s) (s_loopback s) (s_buffer s) (s_hist s) (s_log s) (s_makes s).

(* A step returns the new state, the outputs (in emission order) and a result. *)
Definition M (A : Type) := State -> State * list Out * res A.
Definition ret {A} (a : A) : M A := fun s => (s, [], ROk a).
Definition fail {A} (e : err) : M A := fun s => (s, [], RErr e).
Definition panic {A} (site : N) : M A := fun s => (s, [], RPanic site).
Definition bind {A B} (m : M A) (f : A -> M B) : M B :=
  fun s => match m s with
           | (s1, o1, ROk a) => match f a s1 with (s2, o2, r) => (s2, o1 ++ o2, r) end
           | (s1, o1, RErr e) => (s1, o1, RErr e)
           | (s1, o1, RPanic k) => (s1, o1, RPanic k)
           end.
Notation "x <- m ;; f" := (bind m (fun x => f)) (at level 61, m at next level, right associativity).
Notation "m ;;; f" := (bind m (fun _ => f)) (at level 61, right associativity).
Definition get : M State := fun s => (s, [], ROk s).
Definition modify (f : State -> State) : M unit := fun s => (f s, [], ROk tt).
Definition emit (o : Out) : M unit := fun s => (s, [o], ROk tt).
Definition lift {A} (r : res A) : M A := fun s => (s, [], r).

Section Node.
  Variable c : Committee.
  Variable me : N.
  Variable dq : DqCfg.       (* deque discipline of commit(); [src_dq] = as regenerated from the source *)

  (* advance_round *)
  Definition advance_round (r : N) : M unit :=
    s <- get ;;
    if g_advance_guard r (s_round s) (qc_round (s_high_qc s)) (s_last_voted s) (s_last_committed s) then ret tt
    else modify (fun s =>
           let nr := g_advance_next r (s_round s) (qc_round (s_high_qc s)) (s_last_voted s) (s_last_committed s) in
           let s := set_round s nr in
           let s := set_qcm s (filter (fun e => g_agg_keep_votes (fst (fst e)) nr) (s_qcm s)) in
           set_tcm s (filter (fun e => g_agg_keep_timeouts (fst e) nr) (s_tcm s))).

  Definition update_high_qc (qc : QC) : M unit :=
    modify (fun s => if g_update_high_qc (qc_round qc) (s_round s) (qc_round (s_high_qc s)) (s_last_voted s) (s_last_committed s) then set_high_qc s qc else s).

  Definition process_qc (qc : QC) : M unit := advance_round (qc_round qc) ;;; update_high_qc qc.

  (* Proposer: Make is executed eagerly; [hint] is the payload order the implementation's
     HashSet produced, it must be a permutation of the buffer. *)
  Definition same_set (l1 l2 : list N) : bool :=
    Nat.eqb (length l1) (length l2) && forallb (fun x => memN x l2) l1 && forallb (fun x => memN x l1) l2.

  Definition generate_proposal (hint : list N) (tc : option TC) : M unit :=
    s <- get ;;
    emit (OProposer (PMake (s_round s) (s_high_qc s) tc)) ;;;
    modify (fun s => set_makes s (s_round s :: s_makes s)) ;;;
    (if same_set hint (s_buffer s) then ret tt else emit OBadHint) ;;;
    let pl := if same_set hint (s_buffer s) then hint else s_buffer s in
    let pre := mkBlock (s_high_qc s) tc me (s_round s) pl (SigJunk 0) in
    let b := mkBlock (s_high_qc s) tc me (s_round s) pl (SigOf me (CBlock (block_digest pre))) in
    modify (fun s => set_loopback (set_buffer s []) (s_loopback s ++ [b])) ;;;
    emit (OPropose b).

  Definition proposer_cleanup (ds : list N) : M unit :=
    emit (OProposer (PCleanup ds)) ;;;
    modify (fun s => set_buffer s (filter (fun x => negb (memN x ds)) (s_buffer s))).

  (* Synchronizer::get_parent_block *)
  Definition block_eqb (b1 b2 : Block) : bool := digest_eqb (block_digest b1) (block_digest b2).

  Definition sync_park (b : Block) : M unit :=
    s <- get ;;
    if existsb (block_eqb b) (s_sync_pending s) then ret tt
    else
      let parent := qc_hash (b_qc b) in
      modify (fun s => set_sync s (s_sync_pending s ++ [b]) (s_sync_requests s)) ;;;
      if existsb (digest_eqb parent) (s_sync_requests s) then ret tt
      else modify (fun s => set_sync s (s_sync_pending s) (parent :: s_sync_requests s)) ;;;
           emit (OSyncReq (b_author b) parent).

  Definition get_parent_block (b : Block) : M (option Block) :=
    if qc_eqb (b_qc b) qc_genesis then ret (Some block_genesis)
    else s <- get ;;
         match store_get (qc_hash (b_qc b)) (s_store s) with
         | Some p => ret (Some p)
         | None => sync_park b ;;; ret None
         end.

  (* store write of a block: wakes the synchronizer waiters parked on this digest *)
  Definition store_block (b : Block) : M unit :=
    let d := block_digest b in
    modify (fun s =>
      let woken := filter (fun p => digest_eqb (qc_hash (b_qc p)) d) (s_sync_pending s) in
      let rest := filter (fun p => negb (digest_eqb (qc_hash (b_qc p)) d)) (s_sync_pending s) in
      let reqs := if existsb (fun _ => true) woken
                  then filter (fun x => negb (digest_eqb x d)) (s_sync_requests s)
                  else s_sync_requests s in
      let s := set_store s ((d, b) :: s_store s) in
      let s := set_sync s rest reqs in
      set_loopback s (s_loopback s ++ woken)).

  (* commit(): the ancestor walk and the delivery order follow the deque operations of core.rs, which are
     REGENERATED from the source (Guards.v): g_commit_stop is the early `break` test (constant false when
     the source has none), g_commit_anc_front / g_commit_head_front say at which end ancestors / the head
     are pushed, g_commit_head_first whether the head is pushed before the walk, g_commit_pop_back from
     which end delivery drains. The deque is a list whose first element is the front. *)
  Fixpoint commit_walk (fuel : nat) (lcr : N) (parent : Block) (acc : list Block) : M (list Block) :=
    match fuel with
    | O => panic 900
    | S f =>
        if g_commit_walk lcr (b_round parent) then
          a <- get_parent_block parent ;;
          match a with
          | None => panic 131   (* "We should have all the ancestors by now" *)
          | Some anc => if dq_stop dq (b_round anc) lcr then ret acc
                        else commit_walk f lcr anc (dq_push (dq_anc_front dq) anc acc)
          end
        else ret acc
    end.

  Fixpoint deliver_all (l : list Block) : M unit :=
    match l with
    | [] => ret tt
    | b :: r => emit (OCommit b) ;;; modify (fun s => set_log s (block_digest b :: s_log s)) ;;; deliver_all r
    end.

  Definition commit (b : Block) : M unit :=
    s <- get ;;
    if g_commit_skip (b_round b) (s_round s) (qc_round (s_high_qc s)) (s_last_voted s) (s_last_committed s) then ret tt
    else
      let fuel := S (S (ddepth (block_digest b))) in
      let acc0 := if dq_head_first dq then dq_push (dq_head_front dq) b [] else [] in
      q <- commit_walk fuel (s_last_committed s) b acc0 ;;
      modify (fun s => set_last_committed s (b_round b)) ;;;
      let q' := if dq_head_first dq then q else dq_push (dq_head_front dq) b q in
      deliver_all (if dq_pop_back dq then rev q' else q').

  Definition increase_last_voted (r : N) : M unit :=
    modify (fun s => set_last_voted s (N.max (s_last_voted s) r)).

  Definition list_max (l : list N) : option N :=
    match l with [] => None | x :: r => Some (fold_left N.max r x) end.

  Definition make_vote (b : Block) : M (option Vote) :=
    s <- get ;;
    let tcr := match b_tc b with Some tc => tc_round tc | None => 0 end in
    let rule1 := g_safety_rule_1 (b_round b) (qc_round (b_qc b)) tcr 0 (s_round s) (qc_round (s_high_qc s)) (s_last_voted s) (s_last_committed s) in
    let rule2 := g_safety_rule_2 (b_round b) (qc_round (b_qc b)) tcr 0 (s_round s) (qc_round (s_high_qc s)) (s_last_voted s) (s_last_committed s) in
    r2 <- (match b_tc b with
           | None => ret rule2
           | Some tc =>
               match list_max (tc_hqrs tc) with
               | None => panic 105     (* expect("Empty TC") *)
               | Some m =>
                   let can_extend := g_can_extend (b_round b) (qc_round (b_qc b)) (tc_round tc) m (s_round s) (qc_round (s_high_qc s)) (s_last_voted s) (s_last_committed s) &&
                                     g_can_extend_hq (b_round b) (qc_round (b_qc b)) (tc_round tc) m (s_round s) (qc_round (s_high_qc s)) (s_last_voted s) (s_last_committed s) in
                   ret (rule2 || can_extend)
               end
           end) ;;
    if negb (rule1 && r2) then ret None
    else increase_last_voted (b_round b) ;;;
         modify (fun s => set_hist s (HVote (block_digest b) (qc_round (b_qc b))
                   (if rule2 then JDirect
                    else match b_tc b with Some tc => JTC (tc_round tc) (tc_entries tc) | None => JDirect end)
                   :: s_hist s)) ;;;
         ret (Some (mkVote (block_digest b) (b_round b) me
                           (SigOf me (CVote (block_digest b) (b_round b))))).

  Definition qcm_get (k : N * digest) (l : list ((N * digest) * QCMaker)) : QCMaker :=
    match find (fun e => (fst (fst e) =? fst k) && digest_eqb (snd (fst e)) (snd k)) l with
    | Some e => snd e | None => mkQM 0 [] [] end.
  Definition qcm_put (k : N * digest) (m : QCMaker) (l : list ((N * digest) * QCMaker)) :=
    (k, m) :: filter (fun e => negb ((fst (fst e) =? fst k) && digest_eqb (snd (fst e)) (snd k))) l.
  Definition tcm_get (k : N) (l : list (N * TCMaker)) : TCMaker :=
    match find (fun e => fst e =? k) l with Some e => snd e | None => mkTM 0 [] [] end.
  Definition tcm_put (k : N) (m : TCMaker) (l : list (N * TCMaker)) :=
    (k, m) :: filter (fun e => negb (fst e =? k)) l.

  Definition handle_vote (hint : list N) (v : Vote) : M unit :=
    s <- get ;;
    if g_vote_stale (v_round v) (s_round s) (qc_round (s_high_qc s)) (s_last_voted s) (s_last_committed s) then ret tt
    else
      lift (vote_verify c v) ;;;
      let k := (v_round v, v_hash v) in
      let '(m', r) := qm_append c (qcm_get k (s_qcm s)) v in
      modify (fun s => set_qcm s (qcm_put k m' (s_qcm s))) ;;;
      o <- lift r ;;
      match o with
      | None => ret tt
      | Some qc =>
          process_qc qc ;;;
          s <- get ;;
          if me =? leader c (s_round s) then generate_proposal hint None else ret tt
      end.

  Definition handle_timeout (hint : list N) (t : Timeout) : M unit :=
    s <- get ;;
    if g_timeout_stale (t_round t) (s_round s) (qc_round (s_high_qc s)) (s_last_voted s) (s_last_committed s) then ret tt
    else
      lift (timeout_verify c t) ;;;
      process_qc (t_high_qc t) ;;;
      s <- get ;;
      let '(m', r) := tm_append c (tcm_get (t_round t) (s_tcm s)) t in
      modify (fun s => set_tcm s (tcm_put (t_round t) m' (s_tcm s))) ;;;
      o <- lift r ;;
      match o with
      | None => ret tt
      | Some tc =>
          advance_round (tc_round tc) ;;;
          emit (OTC tc) ;;;
          s <- get ;;
          if me =? leader c (s_round s) then generate_proposal hint (Some tc) else ret tt
      end.

  Definition local_timeout (hint : list N) : M unit :=
    s <- get ;;
    increase_last_voted (s_round s) ;;;
    let t := mkTimeout (s_high_qc s) (s_round s) me
                       (SigOf me (CTimeout (s_round s) (qc_round (s_high_qc s)))) in
    modify (fun s => set_hist s (HTimeout (t_round t) (qc_round (t_high_qc t)) :: s_hist s)) ;;;
    emit (OTimeout t) ;;;
    handle_timeout hint t.

  Definition pw_cleanup (r : N) : M unit :=
    modify (fun s => set_pw s (filter (fun e => r <? b_round (snd e)) (s_pw_pending s))).

  Definition process_block (hint : list N) (b : Block) : M unit :=
    p1 <- get_parent_block b ;;
    match p1 with
    | None => ret tt
    | Some b1 =>
        p0 <- get_parent_block b1 ;;
        match p0 with
        | None => panic 147   (* "We should have all ancestors of delivered blocks" *)
        | Some b0 =>
            store_block b ;;;
            proposer_cleanup (b_payload b0 ++ b_payload b1 ++ b_payload b) ;;;
            (if g_two_chain (b_round b0) (b_round b1) (b_round b)
             then emit (OMemCleanup (b_round b0)) ;;; pw_cleanup (b_round b0) ;;; commit b0
             else ret tt) ;;;
            s <- get ;;
            if g_round_gate (b_round b) (qc_round (b_qc b)) (s_round s) (qc_round (s_high_qc s)) (s_last_voted s) (s_last_committed s) then ret tt
            else
              ov <- make_vote b ;;
              match ov with
              | None => ret tt
              | Some v =>
                  let nl := leader c (s_round s + 1) in
                  if nl =? me then handle_vote hint v else emit (OVote nl v)
              end
        end
    end.

  Definition mempool_verify (b : Block) : M bool :=
    s <- get ;;
    let missing := filter (fun x => negb (memN x (s_batches s))) (b_payload b) in
    match missing with
    | [] => ret true
    | _ =>
        emit (OMemSync missing (b_author b)) ;;;
        (if existsb (fun e => block_eqb b (snd e)) (s_pw_pending s) then ret tt
         else modify (fun s => set_pw s (s_pw_pending s ++ [(missing, b)]))) ;;;
        ret false
    end.

  Definition handle_proposal (hint : list N) (b : Block) : M unit :=
    (if b_author b =? leader c (b_round b) then ret tt else fail EWrongLeader) ;;;
    lift (block_verify c b) ;;;
    process_qc (b_qc b) ;;;
    (match b_tc b with Some tc => advance_round (tc_round tc) | None => ret tt end) ;;;
    ok <- mempool_verify b ;;
    if ok then process_block hint b else ret tt.

  Definition handle_tc (hint : list N) (tc : TC) : M unit :=
    lift (tc_verify c tc) ;;;
    s <- get ;;
    if g_tc_stale (tc_round tc) (s_round s) (qc_round (s_high_qc s)) (s_last_voted s) (s_last_committed s) then ret tt
    else advance_round (tc_round tc) ;;;
         s <- get ;;
         if me =? leader c (s_round s) then generate_proposal hint (Some tc) else ret tt.

  (* a batch lands in the store (mempool Processor): wakes payload waiters *)
  Definition batch_stored (d : N) : M unit :=
    modify (fun s =>
      let s := set_batches s (d :: s_batches s) in
      let upd := map (fun e => (filter (fun x => negb (x =? d)) (fst e), snd e)) (s_pw_pending s) in
      let ready := filter (fun e => match fst e with [] => true | _ => false end) upd in
      let rest := filter (fun e => match fst e with [] => false | _ => true end) upd in
      set_loopback (set_pw s rest) (s_loopback s ++ map snd ready)).

  Inductive Event :=
  | EvPropose (b : Block) | EvVote (v : Vote) | EvTimeout (t : Timeout) | EvTC (tc : TC)
  | EvLoopback (b : Block)      (* core takes this block out of rx_loopback *)
  | EvTimer
  | EvBatch (d : N)             (* mempool stored batch d *)
  | EvDigest (d : N)            (* mempool handed digest d to the proposer *)
  | EvBoot.

  (* take out of the pool the (first) block with the same digest as the selector *)
  Fixpoint remove_first (b : Block) (l : list Block) : option (Block * list Block) :=
    match l with
    | [] => None
    | x :: r => if block_eqb b x then Some (x, r)
                else match remove_first b r with Some (y, r') => Some (y, x :: r') | None => None end
    end.

  Definition step (hint : list N) (e : Event) : M unit :=
    match e with
    | EvPropose b => handle_proposal hint b
    | EvVote v => handle_vote hint v
    | EvTimeout t => handle_timeout hint t
    | EvTC tc => handle_tc hint tc
    | EvLoopback b =>
        s <- get ;;
        match remove_first b (s_loopback s) with
        | None => emit OBadHint
        | Some (x, l) => modify (fun s => set_loopback s l) ;;; process_block hint x
        end
    | EvTimer => local_timeout hint
    | EvBatch d => batch_stored d
    | EvDigest d => modify (fun s => if memN d (s_buffer s) then s else set_buffer s (d :: s_buffer s))
    | EvBoot => s <- get ;; if me =? leader c (s_round s) then generate_proposal hint None else ret tt
    end.

  Fixpoint run (evs : list (list N * Event)) (s : State) : State * list (list Out * res unit) :=
    match evs with
    | [] => (s, [])
    | (h, e) :: rest =>
        match step h e s with
        | (s1, o, r) => let '(s2, tr) := run rest s1 in (s2, (o, r) :: tr)
        end
    end.
End Node.

(* ---------- smoke test: the C02 witness (gap chain) ---------- *)
Definition c4 : Committee := mkCommittee [(0,1);(1,1);(2,1);(3,1)].
Definition mkqc (b : Block) : QC :=
  mkQC (block_digest b) (b_round b)
       (map (fun a => (a, SigOf a (CVote (block_digest b) (b_round b)))) [0;1;2;3]).
Definition mktc (r hq : N) : TC := mkTC r (map (fun a => (a, SigOf a (CTimeout r hq), hq)) [0;1;2]).
Definition mkblk (qc : QC) (tc : option TC) (r : N) : Block :=
  let a := leader c4 r in
  let pre := mkBlock qc tc a r [] (SigJunk 0) in
  mkBlock qc tc a r [] (SigOf a (CBlock (block_digest pre))).
Definition B1 := mkblk qc_genesis None 1.
Definition B3 := mkblk (mkqc B1) (Some (mktc 2 1)) 3.
Definition B5 := mkblk (mkqc B3) (Some (mktc 4 3)) 5.
Definition B6 := mkblk (mkqc B5) None 6.
Definition B7 := mkblk (mkqc B6) None 7.
Definition commits (tr : list (list Out * res unit)) : list N :=
  flat_map (fun x => flat_map (fun o => match o with OCommit b => [b_round b] | _ => [] end) (fst x)) tr.
Eval vm_compute in
  commits (snd (run c4 3 pinned_dq (map (fun b => ([], EvPropose b)) [B1;B3;B5;B6;B7]) (init c4))).
Eval vm_compute in
  commits (snd (run c4 3 src_dq (map (fun b => ([], EvPropose b)) [B1;B3;B5;B6;B7]) (init c4))).
Definition G3 := mkblk qc_genesis (Some (mktc 2 0)) 3.
Definition G4 := mkblk (mkqc G3) None 4.
Definition G5 := mkblk (mkqc G4) None 5.
Eval vm_compute in
  commits (snd (run c4 3 pinned_dq (map (fun b => ([], EvPropose b)) [G3;G4;G5]) (init c4))).
Eval vm_compute in
  commits (snd (run c4 3 src_dq (map (fun b => ([], EvPropose b)) [G3;G4;G5]) (init c4))).
