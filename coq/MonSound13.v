(* Monitor soundness, part 13: the C06 monitor "every request to make a block is followed, in the same step, by the
   block" (MonitorsC06.v) is true on every run of the node model, whatever the events, with no hypothesis at all.

   The property of ONE step is a property of its output list alone ([c06_step_ok]); it is closed under
   concatenation (a request served by the blocks of a sub-list is served by the blocks of the whole list), so it
   is carried through the monad by a small calculus [po] (as [lo] of MonSound.v / [rm] of MonSound12.v):
   computations that emit no request satisfy it trivially, [generate_proposal] -- the only emitter of [PMake] --
   emits the matching [OPropose] itself, and [bind] concatenates. *)
From Coq Require Import List NArith Lia Bool.
From HS Require Import GTac Node Corr Monitors Link MonSoundDefs MonitorsC06.
Import ListNotations.
Open Scope N_scope.

(* ---------- the per-step property and concatenation ---------- *)
Lemma makes_of_app a b : makes_of (a ++ b) = makes_of a ++ makes_of b.
Proof. unfold makes_of. apply flat_map_app. Qed.
Lemma proposes_of_app a b : proposes_of (a ++ b) = proposes_of a ++ proposes_of b.
Proof. unfold proposes_of. apply flat_map_app. Qed.

Lemma make_served_app ps ps' m : make_served (ps ++ ps') m = make_served ps m || make_served ps' m.
Proof. unfold make_served. apply existsb_app. Qed.

Lemma c06_step_ok_nil : c06_step_ok [] = true.
Proof. reflexivity. Qed.
Lemma c06_step_ok_app a b : c06_step_ok a = true -> c06_step_ok b = true -> c06_step_ok (a ++ b) = true.
Proof.
  unfold c06_step_ok. intros Ha Hb. rewrite makes_of_app, proposes_of_app, forallb_app.
  apply andb_true_iff. split; apply forallb_forall; intros m Hm; rewrite make_served_app.
  - rewrite forallb_forall in Ha. rewrite (Ha m Hm). reflexivity.
  - rewrite forallb_forall in Hb. rewrite (Hb m Hm). apply orb_true_r.
Qed.
(* outputs without any request *)
Lemma c06_step_ok_quiet o : makes_of o = [] -> c06_step_ok o = true.
Proof. unfold c06_step_ok. intros ->. reflexivity. Qed.

(* ---------- the calculus over the monad ---------- *)
Definition outp {A} (m : M A) (s : State) : list Out := snd (fst (m s)).
Definition po {A} (m : M A) : Prop := forall s, c06_step_ok (outp m s) = true.

Lemma outp_bind {A B} (m : M A) (k : A -> M B) s :
  outp (bind m k) s = match m s with (s1, o1, ROk a) => o1 ++ outp (k a) s1 | (_, o1, _) => o1 end.
Proof.
  unfold outp, bind. destruct (m s) as [[s1 o1] [a|e|n]]; try reflexivity.
  destruct (k a s1) as [[s2 o2] r2]. reflexivity.
Qed.

Lemma po_ret {A} (a : A) : po (ret a). Proof. intros s. reflexivity. Qed.
Lemma po_fail {A} e : po (@fail A e). Proof. intros s. reflexivity. Qed.
Lemma po_panic {A} k : po (@panic A k). Proof. intros s. reflexivity. Qed.
Lemma po_get : po get. Proof. intros s. reflexivity. Qed.
Lemma po_lift {A} (r : res A) : po (lift r). Proof. intros s. reflexivity. Qed.
Lemma po_modify g : po (modify g). Proof. intros s. reflexivity. Qed.
Lemma po_emit o : makes_of [o] = [] -> po (emit o).
Proof. intros H s. unfold outp, emit. cbn [fst snd]. apply c06_step_ok_quiet. exact H. Qed.
Lemma po_bind {A B} (m : M A) (k : A -> M B) : po m -> (forall a, po (k a)) -> po (bind m k).
Proof.
  intros Hm Hk s. rewrite outp_bind. specialize (Hm s). unfold outp in Hm.
  destruct (m s) as [[s1 o1] [a|e|n]]; cbn [fst snd] in Hm; try exact Hm.
  apply c06_step_ok_app; [exact Hm|apply Hk].
Qed.

Create HintDb c06p.
Ltac po_step :=
  match goal with
  | |- po (ret _) => apply po_ret
  | |- po (fail _) => apply po_fail
  | |- po (panic _) => apply po_panic
  | |- po get => apply po_get
  | |- po (lift _) => apply po_lift
  | |- po (modify _) => apply po_modify
  | |- po (emit _) => apply po_emit; reflexivity
  | |- po (bind _ _) => apply po_bind; [|intros ?]
  end.
Ltac po_dm := match goal with |- po (match ?x with _ => _ end) => destruct x end.
Ltac po_go := repeat first [ po_step | po_dm | solve [auto 2 with c06p] | progress cbv zeta ].

(* ---------- the one emitter of requests serves them itself ---------- *)
Lemma qc_eqb_refl q : qc_eqb q q = true.
Proof. unfold qc_eqb. rewrite digest_eqb_refl, N.eqb_refl. reflexivity. Qed.
Lemma tc_same_presence_refl t : tc_same_presence t t = true.
Proof. destruct t; reflexivity. Qed.

(* the outputs of generate_proposal: the request, possibly the hint-mismatch marker, the block of the request *)
Lemma generate_proposal_outs me hint tc s :
  exists mid b,
    outp (generate_proposal me hint tc) s = OProposer (PMake (s_round s) (s_high_qc s) tc) :: mid ++ [OPropose b] /\
    makes_of mid = [] /\
    b_round b = s_round s /\ b_qc b = s_high_qc s /\ b_tc b = tc /\ b_author b = me.
Proof.
  unfold outp, generate_proposal, bind, get, emit, modify, ret.
  destruct (same_set hint (s_buffer s)); cbn [fst snd app].
  - exists [], (mkBlock (s_high_qc s) tc me (s_round s) hint
                  (SigOf me (CBlock (block_digest (mkBlock (s_high_qc s) tc me (s_round s) hint (SigJunk 0)))))).
    repeat split; reflexivity.
  - exists [OBadHint], (mkBlock (s_high_qc s) tc me (s_round s) (s_buffer s)
                  (SigOf me (CBlock (block_digest (mkBlock (s_high_qc s) tc me (s_round s) (s_buffer s) (SigJunk 0)))))).
    repeat split; reflexivity.
Qed.

Lemma po_generate_proposal me hint tc : po (generate_proposal me hint tc).
Proof.
  intros s. destruct (generate_proposal_outs me hint tc s) as [mid [b [-> [Hm [Hr [Hq [Ht _]]]]]]].
  change (OProposer (PMake (s_round s) (s_high_qc s) tc) :: mid ++ [OPropose b])
    with ([OProposer (PMake (s_round s) (s_high_qc s) tc)] ++ mid ++ [OPropose b]).
  unfold c06_step_ok. rewrite !makes_of_app, !proposes_of_app, Hm.
  cbn [makes_of proposes_of flat_map app forallb].
  rewrite andb_true_r, make_served_app. apply orb_true_iff. right.
  unfold make_served. cbn [existsb]. unfold block_serves.
  rewrite Hr, Hq, Ht, N.eqb_refl, qc_eqb_refl, tc_same_presence_refl. reflexivity.
Qed.
Global Hint Resolve po_generate_proposal : c06p.

(* ---------- every handler ---------- *)
Section Handlers.
  Variable c : Committee. Variable me : N. Variable dq : DqCfg.

  Lemma po_advance_round r : po (advance_round r).
  Proof. unfold advance_round. po_go. Qed.
  Hint Resolve po_advance_round : c06p.
  Lemma po_update_high_qc q : po (update_high_qc q).
  Proof. unfold update_high_qc. po_go. Qed.
  Hint Resolve po_update_high_qc : c06p.
  Lemma po_process_qc q : po (process_qc q).
  Proof. unfold process_qc. po_go. Qed.
  Hint Resolve po_process_qc : c06p.
  Lemma po_proposer_cleanup ds : po (proposer_cleanup ds).
  Proof. unfold proposer_cleanup. po_go. Qed.
  Hint Resolve po_proposer_cleanup : c06p.
  Lemma po_sync_park b : po (sync_park b).
  Proof. unfold sync_park. po_go. Qed.
  Hint Resolve po_sync_park : c06p.
  Lemma po_get_parent_block b : po (get_parent_block b).
  Proof. unfold get_parent_block. po_go. Qed.
  Hint Resolve po_get_parent_block : c06p.
  Lemma po_store_block b : po (store_block b).
  Proof. unfold store_block. apply po_modify. Qed.
  Hint Resolve po_store_block : c06p.
  Lemma po_commit_walk lcr : forall fuel parent acc, po (commit_walk dq fuel lcr parent acc).
  Proof. induction fuel as [|f IH]; intros parent acc; cbn [commit_walk]; po_go; apply IH. Qed.
  Hint Resolve po_commit_walk : c06p.
  Lemma po_deliver_all l : po (deliver_all l).
  Proof. induction l as [|b l IH]; cbn [deliver_all]; po_go. Qed.
  Hint Resolve po_deliver_all : c06p.
  Lemma po_commit b : po (commit dq b).
  Proof. unfold commit. po_go. Qed.
  Hint Resolve po_commit : c06p.
  Lemma po_make_vote b : po (make_vote me b).
  Proof. unfold make_vote, increase_last_voted. po_go. Qed.
  Hint Resolve po_make_vote : c06p.
  Lemma po_pw_cleanup r : po (pw_cleanup r).
  Proof. unfold pw_cleanup. po_go. Qed.
  Hint Resolve po_pw_cleanup : c06p.
  Lemma po_mempool_verify b : po (mempool_verify b).
  Proof. unfold mempool_verify. po_go. Qed.
  Hint Resolve po_mempool_verify : c06p.
  Lemma po_batch_stored d : po (batch_stored d).
  Proof. unfold batch_stored. po_go. Qed.
  Lemma po_handle_vote hint v : po (handle_vote c me hint v).
  Proof. unfold handle_vote. po_go. Qed.
  Hint Resolve po_handle_vote : c06p.
  Lemma po_handle_timeout hint t : po (handle_timeout c me hint t).
  Proof. unfold handle_timeout. po_go. Qed.
  Hint Resolve po_handle_timeout : c06p.
  Lemma po_local_timeout hint : po (local_timeout c me hint).
  Proof. unfold local_timeout, increase_last_voted. po_go. Qed.
  Lemma po_handle_tc hint tc : po (handle_tc c me hint tc).
  Proof. unfold handle_tc. po_go. Qed.
  Lemma po_process_block hint b : po (process_block c me dq hint b).
  Proof. unfold process_block. po_go. Qed.
  Hint Resolve po_process_block : c06p.
  Lemma po_handle_proposal hint b : po (handle_proposal c me dq hint b).
  Proof. unfold handle_proposal. po_go. Qed.

  (* every event, every state, every deque discipline *)
  Theorem step_c06_ok hint e : po (step c me dq hint e).
  Proof.
    destruct e as [b|v|t|tc|b| |d|d| ]; cbn [step].
    - apply po_handle_proposal.
    - apply po_handle_vote.
    - apply po_handle_timeout.
    - apply po_handle_tc.
    - po_go.
    - apply po_local_timeout.
    - apply po_batch_stored.
    - po_go.
    - po_go.
  Qed.
End Handlers.

(* ---------- along a run ---------- *)
Lemma mon_c06_proposes_from c me evs : forall s, mon_c06_proposes (obs_from c me evs s) = true.
Proof.
  induction evs as [|[h e] rest IH]; intros s; cbn [obs_from]; [reflexivity|].
  pose proof (step_c06_ok c me src_dq h e s) as P. unfold outp in P.
  destruct (step c me src_dq h e s) as [[s1 o] r]. cbn [fst snd] in P.
  unfold mon_c06_proposes. cbn [forallb ob_out]. rewrite P. apply IH.
Qed.

(* on every run of the node model from the initial state, whatever the events (valid, forged, stale, Byzantine) *)
Theorem mon_c06_proposes_sound c me evs : mon_c06_proposes (obs_of_run c me evs) = true.
Proof. unfold obs_of_run. apply mon_c06_proposes_from. Qed.
Print Assumptions step_c06_ok.
Print Assumptions mon_c06_proposes_sound.

(* the same stated on the trace of [run] (the form of the other MonSound theorems): the outputs of every step of
   [run c me src_dq evs (init c)] satisfy the per-step requirement *)
Theorem run_c06_ok c me dq evs : forall s,
  forallb (fun x => c06_step_ok (fst x)) (snd (run c me dq evs s)) = true.
Proof.
  induction evs as [|[h e] rest IH]; intros s; cbn [run]; [reflexivity|].
  pose proof (step_c06_ok c me dq h e s) as P. unfold outp in P.
  destruct (step c me dq h e s) as [[s1 o] r]. cbn [fst snd] in P.
  specialize (IH s1). destruct (run c me dq rest s1) as [s2 tr]. cbn [fst snd forallb] in *.
  rewrite P. exact IH.
Qed.
Print Assumptions run_c06_ok.

(* ---------- non-vacuity: a model run on which a request is made (and served) ---------- *)
(* committee of 4, equal stake, quorum 3; node 2 leads round 2. It receives the round-1 block B1 (votes for it and,
   being the next leader, counts its own vote), then the votes of members 0 and 1: the QC of round 1 is assembled,
   the round becomes 2 and the node asks its proposer for the round-2 block. *)
Definition vt1_c06 (a : N) : Vote := mkVote (block_digest B1) 1 a (SigOf a (CVote (block_digest B1) 1)).
Definition evs_c06 : list (list N * Event) :=
  [([], EvPropose B1); ([], EvVote (vt1_c06 0)); ([], EvVote (vt1_c06 1))].
Example c06_proposes_hyps_met :
  map (fun m => fst (fst m)) (makes_of (outs_of (obs_of_run c4 2 evs_c06))) = [2] /\
  map b_round (proposes_of (outs_of (obs_of_run c4 2 evs_c06))) = [2] /\
  c06_proposes_fired (obs_of_run c4 2 evs_c06) = 1 /\
  mon_c06_proposes (obs_of_run c4 2 evs_c06) = true.
Proof. vm_compute. repeat split; reflexivity. Qed.

(* the monitor is FALSE on an observed trace in which a step holds the request for round 2 and no block -- what a
   wedged proposer (waiting for acknowledgements that silent members never send) produces *)
Definition ob_c06_wedged : Obs := mkObs [OProposer (PMake 2 (mkqc B1) None)] KOk (2, 1, 0, 1).
Example c06_proposes_detects_wedged :
  mon_c06_proposes [mkObs [] KOk (1, 1, 0, 0); mkObs [] KOk (1, 1, 0, 0); ob_c06_wedged] = false.
Proof. vm_compute. reflexivity. Qed.
(* ... also when the block comes in a LATER observation (the requirement is per step) *)
Example c06_proposes_detects_late :
  mon_c06_proposes [ob_c06_wedged; mkObs [OPropose (mkblk (mkqc B1) None 2)] KOk (2, 1, 0, 1)] = false.
Proof. vm_compute. reflexivity. Qed.
(* ... or when the block of the step is for another round, carries another QC, or a TC the request did not carry *)
Example c06_proposes_detects_wrong_block :
  mon_c06_proposes [mkObs [OProposer (PMake 2 (mkqc B1) None); OPropose (mkblk (mkqc B1) None 3)] KOk (2, 1, 0, 1)] = false /\
  mon_c06_proposes [mkObs [OProposer (PMake 2 (mkqc B1) None); OPropose (mkblk qc_genesis None 2)] KOk (2, 1, 0, 1)] = false /\
  mon_c06_proposes [mkObs [OProposer (PMake 2 (mkqc B1) None); OPropose (mkblk (mkqc B1) (Some (mktc 1 0)) 2)] KOk (2, 1, 0, 1)] = false.
Proof. vm_compute. repeat split; reflexivity. Qed.
(* and TRUE when the block is there *)
Example c06_proposes_accepts_served :
  mon_c06_proposes [mkObs [OProposer (PMake 2 (mkqc B1) None); OPropose (mkblk (mkqc B1) None 2)] KOk (2, 1, 0, 1)] = true.
Proof. vm_compute. reflexivity. Qed.
