(* C17: quorum arithmetic on u32, for every total stake below 2^31. *)
From Coq Require Import List NArith ZArith Lia Bool ZifyN ZifyBool.
From HS Require Import Guards QuorumDefs.
Import ListNotations.
Open Scope N_scope.
Ltac Zify.zify_post_hook ::= Z.div_mod_to_equations.


Lemma quorum_no_wrap n : n < 2147483648 -> quorum_u32 n = 2 * n / 3 + 1.
Proof. intros H. unfold quorum_u32, g_quorum_consensus_u32, u32. rewrite !N.mod_small; lia. Qed.
Lemma quorum_mempool_no_wrap n : n < 2147483648 -> quorum_mempool_u32 n = 2 * n / 3 + 1.
Proof. intros H. unfold quorum_mempool_u32, g_quorum_mempool_u32, u32. rewrite !N.mod_small; lia. Qed.
(* consensus and mempool compute the same threshold for the same total stake *)
Theorem c17_crates_agree n : n < 2147483648 -> quorum_u32 n = quorum_mempool_u32 n.
Proof. intros H. rewrite quorum_no_wrap, quorum_mempool_no_wrap by assumption. reflexivity. Qed.
(* the unbounded-N form used by the protocol model coincides with the machine form in range *)
Lemma quorum_model_agrees n : n < 2147483648 -> g_quorum_consensus n = quorum_u32 n.
Proof. intros H. rewrite quorum_no_wrap by assumption. reflexivity. Qed.

Theorem c17_arith n : 1 <= n -> n < 2147483648 ->
  let q := quorum_u32 n in let f := faults n in
  3 * q > 2 * n /\ q = n - f /\ 2 * q - n > f /\ n - f >= q /\ q <= n.
Proof. intros H1 H2. cbv zeta. rewrite quorum_no_wrap by assumption. unfold faults. lia. Qed.

(* beyond the stated range the wrap is real: the threshold collapses *)
Example c17_wrap_witness : quorum_u32 2147483648 = 1.
Proof. vm_compute. reflexivity. Qed.


(* overlap of two quorums, as stake *)
Lemma wsum_filter_split st (f : N -> bool) l :
  wsum st l = wsum st (filter f l) + wsum st (filter (fun x => negb (f x)) l).
Proof. induction l as [|x xs IH]; simpl; [lia|]. destruct (f x); simpl; lia. Qed.
Lemma wsum_app st l1 l2 : wsum st (l1 ++ l2) = wsum st l1 + wsum st l2.
Proof. induction l1; simpl; lia. Qed.
Lemma wsum_incl_nodup st l m : NoDup l -> incl l m -> wsum st l <= wsum st m.
Proof.
  revert m. induction l as [|x xs IH]; intros m Hnd Hin; simpl; [lia|].
  inversion Hnd; subst.
  assert (Hx : In x m) by (apply Hin; left; reflexivity).
  apply in_split in Hx. destruct Hx as [m1 [m2 ->]].
  rewrite wsum_app. simpl.
  assert (Hle : wsum st xs <= wsum st (m1 ++ m2)).
  { apply IH; auto. intros y Hy.
    assert (In y (m1 ++ x :: m2)) by (apply Hin; right; exact Hy).
    apply in_app_or in H. apply in_or_app. destruct H as [H|[H|H]]; auto. subst. contradiction. }
  rewrite wsum_app in Hle. lia.
Qed.
Lemma NoDup_app_intro {A} (l1 l2 : list A) :
  NoDup l1 -> NoDup l2 -> (forall x, In x l1 -> ~ In x l2) -> NoDup (l1 ++ l2).
Proof.
  induction l1 as [|x xs IH]; simpl; intros H1 H2 Hd; [exact H2|].
  inversion H1; subst. constructor.
  - intro Hin. apply in_app_or in Hin. destruct Hin as [Hin|Hin]; [contradiction|]. apply (Hd x); auto.
  - apply IH; auto.
Qed.

Theorem c17_overlap (stake : N -> N) (members l1 l2 : list N) :
  let n := wsum stake members in
  1 <= n -> n < 2147483648 ->
  NoDup l1 -> NoDup l2 -> incl l1 members -> incl l2 members ->
  quorum_u32 n <= wsum stake l1 -> quorum_u32 n <= wsum stake l2 ->
  wsum stake (filter (fun x => existsb (N.eqb x) l2) l1) > faults n.
Proof.
  intros n H1 H2 N1 N2 I1 I2 Q1 Q2.
  set (inl2 := fun x => existsb (N.eqb x) l2).
  assert (Hs := wsum_filter_split stake inl2 l1).
  assert (Hu : wsum stake (filter (fun x => negb (inl2 x)) l1 ++ l2) <= n).
  { apply wsum_incl_nodup.
    - apply NoDup_app_intro; auto; [apply NoDup_filter; exact N1|].
      intros x Hx Hx2. apply filter_In in Hx. destruct Hx as [_ Hx]. unfold inl2 in Hx. apply negb_true_iff in Hx.
      assert (existsb (N.eqb x) l2 = true) by (apply existsb_exists; exists x; split; auto; apply N.eqb_refl). congruence.
    - intros x Hx. apply in_app_or in Hx. destruct Hx as [Hx|Hx]; [apply filter_In in Hx; apply I1; tauto|apply I2; exact Hx]. }
  rewrite wsum_app in Hu. destruct (c17_arith n H1 H2) as [_ [_ [A _]]]. fold inl2. lia.
Qed.

(* honest members alone can always form a quorum: stake outside any set of faulty stake <= f reaches q *)
Theorem c17_honest_quorum (stake : N -> N) (members faulty : list N) :
  let n := wsum stake members in
  1 <= n -> n < 2147483648 -> wsum stake (filter (fun x => existsb (N.eqb x) faulty) members) <= faults n ->
  quorum_u32 n <= wsum stake (filter (fun x => negb (existsb (N.eqb x) faulty)) members).
Proof.
  cbv zeta. intros H1 H2 Hf.
  assert (Hs := wsum_filter_split stake (fun x => existsb (N.eqb x) faulty) members).
  destruct (c17_arith _ H1 H2) as [_ [A _]]. cbv zeta in A. cbv beta in Hs. lia.
Qed.

(* stake lookup: an unknown authority has zero stake (association-list model of `Committee::stake`) *)
Theorem c17_unknown_zero auths a : ~ In a (map fst auths) -> stake_of auths a = 0.
Proof.
  induction auths as [|[k s] r IH]; simpl; intros H; [reflexivity|].
  destruct (N.eqb_spec k a); [exfalso; apply H; left; assumption|apply IH; intro; apply H; right; assumption].
Qed.
(* zero-stake members never help: adding them to a signer list leaves the weight unchanged *)
Theorem c17_zero_stake_useless stake l z : stake z = 0 -> wsum stake (z :: l) = wsum stake l.
Proof. intros H. simpl. rewrite H. lia. Qed.
