(* Correspondence support for the socket-mode cases of C15 on a fully wired node (harness/src/bin/wired.rs, mode
   `fuzz`). Model-only imports, definitions only (no proofs).

   One case = one freshly wired real node (Consensus::spawn + Mempool::spawn on one store, real loopback TCP) in its
   own process; functional probes before, a list of hostile inputs sent one at a time over the consensus (0),
   mempool (1) and transaction (2) ports, the same probes afterwards. What is compared with the model is the DECODE
   OUTCOME of every frame that reached a `dispatch` of the consensus or mempool receiver:
     - model: `decode_cmsg` / `decode_mmsg` of WireDefs.v with the key-length discipline `exact` of the tree under
       test (the regenerated `Guards.g_pk_decode_exact`); Panic = the receiving connection task dies in the decoder;
     - implementation: did the process-wide panic hook record a panic at a decode site (crypto/src/lib.rs, bincode,
       base64, serde) while this frame was the one being handled (frames are sent one at a time and the harness waits
       for the node to close the connection, which happens after `dispatch` returned or unwound);
     - and, as a second aspect, the acknowledgement: the consensus receiver answers "Ack" exactly to a frame that
       decodes to `Propose`, the mempool receiver to every frame it is given, the transaction receiver never.
   Everything else in the verdict is a monitor on the implementation's own observations (no panic anywhere, probes).

   Frames are given as chunks so that large regular inputs stay small in the cases file. A frame that is too large
   to evaluate (8 MiB) is ABBREVIATED: `wf_body` is a prefix and `wf_tail` the number of bytes that follow it. This is
   only accepted (`frame_stable`) when the outcome on the prefix cannot change by appending bytes: a value (bincode
   ignores trailing bytes, `d_top`), a panic (decoding is sequential: it never looked further), or an error caused by
   an enum tag that is not a variant. An error for any other reason could be an end-of-input error that more bytes
   would cure, so such an abbreviation makes the comparison flag 0. (That values and panics are stable under
   extension is an argument about `d_bind`/`d_rep`/`d_takeN`, not a checked lemma; the harness only abbreviates
   frames it built as "valid message ++ filler" or "invalid tag ++ filler".) *)
From Coq Require Import List NArith Bool.
From HS Require Import Codec Base64Defs WireDefs.
Import ListNotations.
Open Scope N_scope.

Definition wb2n (b : bool) : N := if b then 1 else 0.
Definition wverdict_of (l : list N) : list N := wb2n (forallb (N.eqb 1) l) :: l.
Fixpoint weq_nlist (a b : list N) : bool :=
  match a, b with
  | [], [] => true
  | x :: r, y :: r' => (x =? y) && weq_nlist r r'
  | _, _ => false
  end.

(* ---------- frames ---------- *)
Inductive chunk := Lit (b : bytes) | Rep (n : N) (x : N).     (* Rep n x = n copies of the byte x *)
Definition expand_chunk (c : chunk) : bytes :=
  match c with Lit b => b | Rep n x => N.iter n (cons x) [] end.
Definition expand (cs : list chunk) : bytes := flat_map expand_chunk cs.

(* wf_port: 0 consensus, 1 mempool, 2 transactions.
   wf_delivered: the frame was complete and within the 8 MiB limit of LengthDelimitedCodec, i.e. the receiver's
   `dispatch` was called with it (false for oversized frames and for connections dropped in mid-frame).
   wf_body / wf_tail: see the header. Frames of the transaction port carry no body (nothing is decoded there). *)
Record wframe := mkWF { wf_port : N; wf_delivered : bool; wf_body : list chunk; wf_tail : N }.

(* outcome codes: 0 value, 1 error, 2 panic, 3 nothing decoded *)
Definition cmsg_code (exact : bool) (l : bytes) : N * bool :=       (* code, is it a Propose *)
  match decode_cmsg exact l with
  | Ok (CPropose _) => (0, true) | Ok _ => (0, false) | Err => (1, false) | Panic => (2, false)
  end.
Definition mmsg_code (exact : bool) (l : bytes) : N :=
  match decode_mmsg exact l with Ok _ => 0 | Err => 1 | Panic => 2 end.

Definition frame_code (exact : bool) (f : wframe) : N * bool :=
  if negb (wf_delivered f) then (3, false) else
  match wf_port f with
  | 0 => cmsg_code exact (expand (wf_body f))
  | 1 => (mmsg_code exact (expand (wf_body f)), false)
  | _ => (3, false)
  end.

(* an enum tag that is no variant of the message type of this port: an error whatever follows *)
Definition tag_invalid (port : N) (l : bytes) : bool :=
  match d_int 4 l with
  | Ok (t, _) => match port with 0 => 5 <=? t | 1 => 2 <=? t | _ => false end
  | _ => false
  end.
(* the three per-frame predicates take the frame's outcome (computed once per frame, see `wired_case`) *)
Definition frame_stable_c (f : wframe) (c : N * bool) : bool :=
  if (wf_tail f =? 0) || negb (wf_delivered f) || (2 <=? wf_port f) then true else
  match fst c with
  | 1 => tag_invalid (wf_port f) (expand (wf_body f))
  | _ => true
  end.
Definition decode_panic_c (c : N * bool) : N := wb2n (fst c =? 2).
Definition ack_c (f : wframe) (c : N * bool) : N :=
  wb2n (wf_delivered f && match wf_port f with
                          | 0 => snd c
                          | 1 => true
                          | _ => false
                          end).
Definition frame_stable (exact : bool) (f : wframe) : bool := frame_stable_c f (frame_code exact f).
Definition model_decode_panic (exact : bool) (f : wframe) : N := decode_panic_c (frame_code exact f).
Definition model_ack (exact : bool) (f : wframe) : N := ack_c f (frame_code exact f).
(* the model's outcome code per frame: printed by the cases file for diagnosis, not part of the verdict *)
Definition model_codes (exact : bool) (frames : list wframe) : list N := map (fun f => fst (frame_code exact f)) frames.

(* ---------- mode `fuzz` ----------
   frames            the hostile inputs of the case, in the order they were sent
   impl_decode_panic per frame: 1 iff a panic at a decode site was recorded while it was being handled
   impl_ack          per frame: 1 iff the node answered "Ack" on that connection
   after             MONITORS on the implementation alone:
                       [no panic recorded anywhere in the process during the whole case;
                        block sync request answered AFTER the hostile input; batch sync request answered after;
                        client transaction batched and broadcast after; valid proposal processed (vote or sync
                        request sent) after]
   before            the same four probes BEFORE any hostile input (the harness drops the case as inconclusive when one
                     of them is 0, so they are all 1 in an emitted case)
   verdict = [all;
              1  decode panic per frame agrees with the model (and every abbreviated frame is stable);
              2  no panic;  3  block sync after;  4  batch sync after;  5  tx batched after;  6  proposal processed after;
              7  block sync before;  8  batch sync before;  9  tx batched before;  10  proposal processed before;
              11 acknowledgement per frame agrees with the model] *)
Definition wired_case (exact : bool) (frames : list wframe) (impl_decode_panic impl_ack : list N)
                      (after before : list N) : list N :=
  let fc := map (fun f => (f, frame_code exact f)) frames in
  wverdict_of ([ wb2n (forallb (fun x => frame_stable_c (fst x) (snd x)) fc &&
                       weq_nlist (map (fun x => decode_panic_c (snd x)) fc) impl_decode_panic) ]
               ++ after ++ before ++
               [ wb2n (weq_nlist (map (fun x => ack_c (fst x) (snd x)) fc) impl_ack) ]).
