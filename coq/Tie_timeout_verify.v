(* Tie lemma for `timeout_verify`: the statement skeleton REGENERATED from the Rust source (GenAgg.v, tools/skelagg.py) computes, for every
   argument and every state, exactly what the hand-written model function does. *)
From Coq Require Import List NArith Bool Lia ZArith.
From Coq Require Import ZifyN ZifyBool.
From HS Require Import TieAggTac GenAgg.
Import ListNotations.
Open Scope N_scope.

Lemma tie_timeout_verify c t : snd (gen_timeout_verify c t tt) = timeout_verify c t.
Proof. unfold gen_timeout_verify, timeout_verify. tieg. Qed.
