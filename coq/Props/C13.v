(* C13 — end-to-end batch pipeline (PARTIAL: safety/ordering invariants of the pipeline and the canonical two-node
   synchronisation schedule; "all honest nodes commit" under load and delays is liveness and is NOT carried).
   Pinned statements only. *)
From Coq Require Import List NArith Bool.
From HS Require Import GTac Node NodeAvail GlobalAvail MempoolSyncDefs MempoolSync Codec WireDefs ReceiveDefs
                       PipelineDefs Pipeline PipelineInv.
Import ListNotations.
Open Scope N_scope.

(* ---- mempool synchronizer (mempool/src/synchronizer.rs), over all event sequences and all parameter values ---- *)

(* (a) Synchronize(ds, target): one BatchRequest, to the target, from me, naming without repetition exactly the digests
   of ds that were not pending (nothing sent if the target is unknown; the digests are registered anyway) *)
Check ms_sync_output : forall (me gc_depth delay : N) (known : N -> bool) (s : MS) (ds : list N) (target now : N),
  exists missing,
    snd (msstep me gc_depth delay known s (MSync ds target now)) = (if known target then [mkReq target missing me] else []) /\
    NoDup missing /\
    (forall d, In d missing <-> sync_asks s (MSync ds target now) d) /\
    ms_pending (fst (msstep me gc_depth delay known s (MSync ds target now))) =
      ms_pending s ++ map (fun d => mkPE d (ms_round s) now) missing /\
    ms_round (fst (msstep me gc_depth delay known s (MSync ds target now))) = ms_round s.
Print Assumptions ms_sync_output.
(* (a) between two Synchronize commands that both ask for d, d left `pending` (its batch arrived or a Cleanup came) *)
Check ms_request_once : forall (me gc_depth delay : N) (known : N -> bool) (s : MS) (pre : list msev) (e1 : msev)
    (mid : list msev) (e2 : msev) (d : N),
  sync_asks (ms_state me gc_depth delay known s pre) e1 d ->
  sync_asks (ms_state me gc_depth delay known s (pre ++ e1 :: mid)) e2 d ->
  exists m1 e m2, mid = m1 ++ e :: m2 /\
    pending d (ms_state me gc_depth delay known s (pre ++ e1 :: m1)) /\
    ~ pending d (ms_state me gc_depth delay known s (pre ++ e1 :: m1 ++ [e])) /\
    (e = MArrived d \/ exists r, e = MCleanup r).
Print Assumptions ms_request_once.
(* (b) `pending` = exactly what was asked for and has neither arrived nor been garbage-collected since *)
Check ms_pending_exact : forall (me gc_depth delay : N) (known : N -> bool) (evs : list msev) (x : pentry),
  In x (ms_pending (ms_state me gc_depth delay known ms_init evs)) <->
  exists a ds t b, evs = a ++ MSync ds t (pe_time x) :: b /\
    In (pe_digest x) ds /\ ~ pending (pe_digest x) (ms_state me gc_depth delay known ms_init a) /\
    pe_round x = ms_round (ms_state me gc_depth delay known ms_init a) /\
    Forall (fun e => ~ drops gc_depth e (pe_digest x) (pe_round x)) b.
Print Assumptions ms_pending_exact.
(* (c) a retry tick re-requests every pending digest older than the delay from every drawn peer, and only those *)
Check ms_retry_covers : forall (me gc_depth delay : N) (known : N -> bool) (s : MS) (now : N) (pick : list N) (e : pentry) (p : N),
  In e (ms_pending s) -> pe_time e + delay < now -> In p pick ->
  exists q, In q (snd (msstep me gc_depth delay known s (MRetry now pick))) /\
            rq_dest q = p /\ rq_origin q = me /\ In (pe_digest e) (rq_digests q).
Print Assumptions ms_retry_covers.
Check ms_retry_only : forall (me gc_depth delay : N) (known : N -> bool) (s : MS) (now : N) (pick : list N) (q : mreq) (d : N),
  In q (snd (msstep me gc_depth delay known s (MRetry now pick))) -> In d (rq_digests q) ->
  In (rq_dest q) pick /\ rq_origin q = me /\
  exists e, In e (ms_pending s) /\ pe_digest e = d /\ pe_time e + delay < now.
Print Assumptions ms_retry_only.
(* (d) Cleanup(r): round := r; dropped = exactly the entries with entry_round + gc_depth <= r *)
Check ms_cleanup_exact : forall (me gc_depth delay : N) (known : N -> bool) (s : MS) (r : N),
  snd (msstep me gc_depth delay known s (MCleanup r)) = [] /\
  ms_round (fst (msstep me gc_depth delay known s (MCleanup r))) = r /\
  (forall e, In e (ms_pending (fst (msstep me gc_depth delay known s (MCleanup r)))) <->
             In e (ms_pending s) /\ ~ (pe_round e + gc_depth <= r)).
Print Assumptions ms_cleanup_exact.

(* ---- Processor order: write, then announce; discharges the hypothesis `ev_av` of C08 ---- *)
Check c13_processor_order : forall (c : Committee) (hash : bytes -> N) (gc_depth delay : N) (known : N -> bool)
    (hint : list N) (me : N) (n : PNode) (batch : bytes),
  AvInv (pn_cons n) ->
  ev_av (fst (fst (step c me src_dq hint (EvBatch (hash batch)) (pn_cons n)))) (EvDigest (hash batch)) /\
  AvInv (pn_cons (run_processor c hash gc_depth delay known hint me n batch)) /\
  In (hash batch) (s_batches (pn_cons (run_processor c hash gc_depth delay known hint me n batch))) /\
  In (hash batch) (s_buffer (pn_cons (run_processor c hash gc_depth delay known hint me n batch))) /\
  bget (hash batch) (pn_store (run_processor c hash gc_depth delay known hint me n batch)) = Some batch /\
  ~ pending (hash batch) (pn_sync (run_processor c hash gc_depth delay known hint me n batch)).
Print Assumptions c13_processor_order.

(* ---- receiving side: a parked block always still lacks one of its own batches (no stall with all batches present),
        in every reachable state of the global model, whatever the inputs ---- *)
Check c13_reachable_no_stall : forall (c : Committee) (g : gstateA) (a : N) (m : list N) (b : Block),
  greachA c g -> In (m, b) (s_pw_pending (g a)) -> exists x, In x (b_payload b) /\ ~ In x (s_batches (g a)).
Print Assumptions c13_reachable_no_stall.
Check c13_pw_step : forall (c : Committee) (me : N) (dq : DqCfg) (hint : list N) (e : Event) (s : State),
  PwInv s -> PwInv (fst (fst (step c me dq hint e s))).
Print Assumptions c13_pw_step.
Check c13_parked_exact : forall (s : State) (m : list N) (b : Block) (x : N),
  PwInv s -> AvInv s -> In (m, b) (s_pw_pending s) -> In x (b_payload b) -> (In x m <-> ~ In x (s_batches s)).
Print Assumptions c13_parked_exact.

(* ---- the canonical two-node schedule ---- *)
Check c13_sync_completes : forall (c : Committee) (hash : bytes -> N) (P R gc_depth delay : N) (known : N -> bool)
    (hint : list N) (storeP : bstore) (sR : State) (msR : MS) (storeR : bstore) (bs : bytes) (b : Block) (now : N),
  let d := hash bs in
  let missing := filter (fun x => negb (memN x (s_batches sR))) (b_payload b) in
  let res := sync_script c hash P R gc_depth delay known hint storeP (mkPN sR msR storeR) bs b now in
  AvInv sR ->
  ~ In d (s_batches sR) ->
  In d (b_payload b) ->
  (forall x, In x (b_payload b) -> x = d \/ In x (s_batches sR)) ->
  b_author b = P ->
  (b_author b =? leader c (b_round b)) = true ->
  block_verify c b = ROk tt ->
  existsb (fun e => block_eqb b (snd e)) (s_pw_pending sR) = false ->
  ~ pending d msR ->
  known P = true ->
  known R = true ->
  mempool_dispatch bs = RProcessor ->
  processor hash bs = [PWrite d bs; PAnnounce d] /\
  bget d (sr_storeP res) = Some bs /\
  sr_core_out res = [OMemSync missing P] /\
  In (missing, b) (s_pw_pending (pn_cons (sr_after_propose res))) /\
  s_batches (pn_cons (sr_after_propose res)) = s_batches sR /\
  s_loopback (pn_cons (sr_after_propose res)) = s_loopback sR /\
  sr_requests res = [mkReq P [d] R] /\
  sr_answers res = [(R, bs)] /\
  In b (s_loopback (pn_cons (sr_final res))) /\
  In d (s_batches (pn_cons (sr_final res))) /\
  bget d (pn_store (sr_final res)) = Some bs /\
  (forall m b', In (m, b') (s_pw_pending (pn_cons (sr_final res))) ->
     b' <> b /\ m <> [] /\ exists m0, In (m0, b') (s_pw_pending sR) /\ m = filter (fun x => negb (x =? d)) m0) /\
  (s_pw_pending sR = [] -> s_pw_pending (pn_cons (sr_final res)) = []) /\
  ~ pending d (pn_sync (sr_final res)) /\
  In d (s_buffer (pn_cons (sr_final res))) /\
  AvInv (pn_cons (sr_final res)).
Print Assumptions c13_sync_completes.
Check c13_resumes : forall (c : Committee) (hash : bytes -> N) (P R gc_depth delay : N) (known : N -> bool)
    (hint : list N) (storeP : bstore) (sR : State) (msR : MS) (storeR : bstore) (bs : bytes) (b : Block) (now : N),
  let d := hash bs in
  let res := sync_script c hash P R gc_depth delay known hint storeP (mkPN sR msR storeR) bs b now in
  AvInv sR -> ~ In d (s_batches sR) -> In d (b_payload b) ->
  (forall x, In x (b_payload b) -> x = d \/ In x (s_batches sR)) ->
  b_author b = P -> (b_author b =? leader c (b_round b)) = true -> block_verify c b = ROk tt ->
  existsb (fun e => block_eqb b (snd e)) (s_pw_pending sR) = false ->
  ~ pending d msR -> known P = true -> known R = true -> mempool_dispatch bs = RProcessor ->
  exists x l, remove_first b (s_loopback (pn_cons (sr_final res))) = Some (x, l) /\
              block_digest x = block_digest b /\ b_payload x = b_payload b /\
              incl (b_payload x) (s_batches (pn_cons (sr_final res))).
Print Assumptions c13_resumes.
