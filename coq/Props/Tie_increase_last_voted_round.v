(* Pinned statement: the regenerated skeleton of `increase_last_voted_round` equals the model function (see Tie_increase_last_voted_round.v, GenCore.v). *)
From Coq Require Import List NArith.
From HS Require Import GTac Node SkelPrims GenCore Tie_increase_last_voted_round.
Open Scope N_scope.
Check tie_increase_last_voted_round : forall c me dq hint r s, gen_increase_last_voted_round c me dq hint r s = increase_last_voted r s.
Print Assumptions tie_increase_last_voted_round.
