(* Pinned statement: the regenerated skeleton of `tc_verify` equals the model function (see Tie_tc_verify.v, GenAgg.v). *)
From Coq Require Import List NArith.
From HS Require Import GTac Node SkelPrims SkelMonad GenAgg Tie_tc_verify.
Open Scope N_scope.
Check tie_tc_verify : forall c t, snd (gen_tc_verify c t tt) = tc_verify c t.
Print Assumptions tie_tc_verify.
