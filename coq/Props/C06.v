(* C06 -- liveness with at most f crashed, claimed PARTIAL. Pinned statements only.
   The model has no clock: what is proved is the ENABLING side, as theorems about the executable node model
   (Node.v, whose decision expressions are the ones regenerated from the Rust source), universally quantified
   over node states. NOT proved (and not provable in this model): anything involving real time, the bound
   "delivery well below the round timeout", fairness of the tokio scheduler, message loss on the best-effort
   links, "the committed round keeps growing". *)
From Coq Require Import List NArith.
From HS Require Import GTac Node Corr Monitors Proto Link NodeInv NodeLog NodePanic LivenessDefs Liveness.
Import ListNotations.
Open Scope N_scope.

(* (d) timeouts are re-armed: no precondition -- in every state a timer expiry broadcasts (first output, and the only
   timeout message of the step) a timeout for the current round carrying the current high_qc, signed by the node;
   round / last_voted / last_committed / high_qc.round never decrease ([cle]); last_voted reaches the round timed
   out; no panic *)
Check c06_timeouts_rearmed : forall (c : Committee) (me : N) (hint : list N) (s : State),
  match local_timeout c me hint s with
  | (s', outs, res) =>
      (exists rest, outs = OTimeout (own_timeout me s) :: rest /\ timeouts_of rest = []) /\
      t_round (own_timeout me s) = s_round s /\ t_high_qc (own_timeout me s) = s_high_qc s /\
      t_author (own_timeout me s) = me /\
      cle s s' /\ s_round s <= s_last_voted s' /\ (forall k, res <> RPanic k)
  end.
Print Assumptions c06_timeouts_rearmed.
Check (eq_refl : cle = fun s s' =>
  s_round s <= s_round s' /\ s_last_voted s <= s_last_voted s' /\
  s_last_committed s <= s_last_committed s' /\ qc_round (s_high_qc s) <= qc_round (s_high_qc s')).
(* ... and that message passes the other members' timeout_verify *)
Check c06_own_timeout_valid : forall (c : Committee) (me : N) (s : State),
  0 < Node.stake c me ->
  qc_eqb (s_high_qc s) qc_genesis = true \/ qc_verify c (s_high_qc s) = ROk tt ->
  timeout_verify c (own_timeout me s) = ROk tt.
Print Assumptions c06_own_timeout_valid.

(* (a) TC synchronisation *)
Check (eq_refl : tvalid = fun c r t => t_round t = r /\ timeout_verify c t = ROk tt /\ qc_round (t_high_qc t) < r).
Check c06_tc_sync : forall (c : Committee) (me : N) (dq : DqCfg) (hint : list N) (r : N) (s : State)
    (pre : list Timeout) (t : Timeout) (post : list Timeout),
  s_round s <= r -> tcm_get r (s_tcm s) = mkTM 0 [] [] ->
  (forall x, In x (pre ++ [t]) -> tvalid c r x) -> NoDup (map t_author (pre ++ [t])) ->
  (forall x, In x post -> t_round x <= r) ->
  stake_sum c (map t_author pre) < Node.quorum c ->
  Node.quorum c <= stake_sum c (map t_author (pre ++ [t])) ->
  let tc := tc_of r (pre ++ [t]) in
  exists s1 tr1 s2 o2 tr3,
    feed_timeouts c me dq hint pre s = (s1, tr1) /\ quiet tr1 = true /\ s_round s1 <= r /\
    handle_timeout c me hint t s1 = (s2, OTC tc :: o2, ROk tt) /\
    s_round s2 = r + 1 /\ tcs_of o2 = [] /\
    makes_of o2 = (if me =? leader c (r + 1) then [(r + 1, s_high_qc s2, Some tc)] else []) /\
    (me =? leader c (r + 1) = false -> o2 = []) /\
    (me =? leader c (r + 1) = true ->
       exists pl, proposes_of o2 = [made_block me (r + 1) (s_high_qc s2) (Some tc) pl]) /\
    feed_timeouts c me dq hint post s2 = (s2, tr3) /\ quiet tr3 = true /\
    feed_timeouts c me dq hint (pre ++ t :: post) s = (s2, tr1 ++ (OTC tc :: o2, ROk tt) :: tr3) /\
    cle s s2 /\
    (forall hq, In hq (tc_hqrs tc) -> hq <= qc_round (s_high_qc s2)).
Print Assumptions c06_tc_sync.
(* from a partially filled TC maker: [FInv r fed s] = the node is in a round <= r, its maker for r holds exactly the
   entries of [fed] (weight, votes, used set) and its high_qc dominates the rounds they report *)
Check (eq_refl : FInv = fun c r fed s =>
  s_round s <= r /\
  tcm_get r (s_tcm s) = mkTM (stake_sum c (map t_author fed)) (map tc_entry fed) (rev (map t_author fed)) /\
  (forall x, In x fed -> qc_round (t_high_qc x) <= qc_round (s_high_qc s))).
Check c06_tc_sync_from : forall (c : Committee) (me : N) (dq : DqCfg) (hint : list N) (r : N) (fed : list Timeout)
    (s : State) (pre : list Timeout) (t : Timeout) (post : list Timeout),
  FInv c r fed s ->
  (forall x, In x (pre ++ [t]) -> tvalid c r x) -> NoDup (map t_author (fed ++ pre ++ [t])) ->
  (forall x, In x post -> t_round x <= r) ->
  stake_sum c (map t_author (fed ++ pre)) < Node.quorum c ->
  Node.quorum c <= stake_sum c (map t_author (fed ++ pre ++ [t])) ->
  let tc := tc_of r (fed ++ pre ++ [t]) in
  exists s1 tr1 s2 o2 tr3,
    feed_timeouts c me dq hint pre s = (s1, tr1) /\ quiet tr1 = true /\ s_round s1 <= r /\
    handle_timeout c me hint t s1 = (s2, OTC tc :: o2, ROk tt) /\
    s_round s2 = r + 1 /\ tcs_of o2 = [] /\
    makes_of o2 = (if me =? leader c (r + 1) then [(r + 1, s_high_qc s2, Some tc)] else []) /\
    (me =? leader c (r + 1) = false -> o2 = []) /\
    (me =? leader c (r + 1) = true ->
       exists pl, proposes_of o2 = [made_block me (r + 1) (s_high_qc s2) (Some tc) pl]) /\
    feed_timeouts c me dq hint post s2 = (s2, tr3) /\ quiet tr3 = true /\
    feed_timeouts c me dq hint (pre ++ t :: post) s = (s2, tr1 ++ (OTC tc :: o2, ROk tt) :: tr3) /\
    cle s s2 /\
    (forall hq, In hq (tc_hqrs tc) -> hq <= qc_round (s_high_qc s2)).
Print Assumptions c06_tc_sync_from.
Check c06_own_timeout_counts : forall (c : Committee) (me : N) (hint : list N) (s : State),
  qc_round (s_high_qc s) < s_round s -> tcm_get (s_round s) (s_tcm s) = mkTM 0 [] [] ->
  0 < Node.stake c me -> Node.stake c me < Node.quorum c ->
  qc_eqb (s_high_qc s) qc_genesis = true \/ qc_verify c (s_high_qc s) = ROk tt ->
  exists s', local_timeout c me hint s = (s', [OTimeout (own_timeout me s)], ROk tt) /\
             FInv c (s_round s) [own_timeout me s] s'.
Print Assumptions c06_own_timeout_counts.
Check c06_tc_sync_trace : forall (c : Committee) (me : N) (dq : DqCfg) (hint : list N) (r : N) (s : State)
    (pre : list Timeout) (t : Timeout) (post : list Timeout),
  s_round s <= r -> tcm_get r (s_tcm s) = mkTM 0 [] [] ->
  (forall x, In x (pre ++ [t]) -> tvalid c r x) -> NoDup (map t_author (pre ++ [t])) ->
  (forall x, In x post -> t_round x <= r) ->
  stake_sum c (map t_author pre) < Node.quorum c ->
  Node.quorum c <= stake_sum c (map t_author (pre ++ [t])) ->
  match feed_timeouts c me dq hint (pre ++ t :: post) s with
  | (s', tr) =>
      all_ok tr = true /\ s_round s' = r + 1 /\
      tcs_of (outs_tr tr) = [tc_of r (pre ++ [t])] /\
      makes_of (outs_tr tr) =
        (if me =? leader c (r + 1) then [(r + 1, s_high_qc s', Some (tc_of r (pre ++ [t])))] else [])
  end.
Print Assumptions c06_tc_sync_trace.
(* general case (no restriction on the high_qcs carried): the round ends up above r, no step panics *)
Check c06_tc_sync_progress : forall (c : Committee) (me : N) (dq : DqCfg) (hint : list N) (r : N)
    (ts : list Timeout) (s : State),
  s_round s <= r -> tcm_get r (s_tcm s) = mkTM 0 [] [] ->
  (forall x, In x ts -> tvalid0 c r x) -> NoDup (map t_author ts) ->
  Node.quorum c <= stake_sum c (map t_author ts) ->
  match feed_timeouts c me dq hint ts s with
  | (s', tr) => r < s_round s' /\ forallb (fun x => match snd x with RPanic _ => false | _ => true end) tr = true
  end.
Print Assumptions c06_tc_sync_progress.

(* (b) the proposal of an aggregating leader is votable *)
Check c06_votable : forall (voter : N) (tc : TC) (qc : QC) (r a : N) (pl : list N) (s' : State),
  tc_round tc = r -> tc_votes tc <> [] ->
  (forall hq, In hq (tc_hqrs tc) -> hq <= qc_round qc) ->
  s_last_voted s' < r + 1 ->
  let b := made_block a (r + 1) qc (Some tc) pl in
  exists s'',
    make_vote voter b s' =
      (s'', [], ROk (Some (mkVote (block_digest b) (r + 1) voter (SigOf voter (CVote (block_digest b) (r + 1)))))) /\
    s_last_voted s'' = r + 1.
Print Assumptions c06_votable.
Check c06_leader_block_votable : forall (c : Committee) (me : N) (dq : DqCfg) (hint : list N) (r : N) (s : State)
    (pre : list Timeout) (t : Timeout) (post : list Timeout),
  s_round s <= r -> tcm_get r (s_tcm s) = mkTM 0 [] [] ->
  (forall x, In x (pre ++ [t]) -> tvalid c r x) -> NoDup (map t_author (pre ++ [t])) ->
  (forall x, In x post -> t_round x <= r) ->
  stake_sum c (map t_author pre) < Node.quorum c ->
  Node.quorum c <= stake_sum c (map t_author (pre ++ [t])) ->
  me = leader c (r + 1) ->
  match feed_timeouts c me dq hint (pre ++ t :: post) s with
  | (s', tr) =>
      let tc := tc_of r (pre ++ [t]) in
      makes_of (outs_tr tr) = [(r + 1, s_high_qc s', Some tc)] /\
      (forall hq, In hq (tc_hqrs tc) -> hq <= qc_round (s_high_qc s')) /\
      (exists pl, proposes_of (outs_tr tr) = [made_block me (r + 1) (s_high_qc s') (Some tc) pl]) /\
      forall pl voter sv, s_last_voted sv < r + 1 ->
        exists sv' v, make_vote voter (made_block me (r + 1) (s_high_qc s') (Some tc) pl) sv = (sv', [], ROk (Some v)) /\
                      v_round v = r + 1 /\ v_author v = voter /\
                      v_hash v = block_digest (made_block me (r + 1) (s_high_qc s') (Some tc) pl)
  end.
Print Assumptions c06_leader_block_votable.
(* the case the code does not guarantee (a leader that merely received the TC is refused) *)
Check c06_received_tc_refused.

(* (c) happy path *)
Check (eq_refl : vvalid = fun c r h v => v_round v = r /\ v_hash v = h /\ vote_verify c v = ROk tt).
Check c06_happy_path_qc : forall (c : Committee) (me : N) (dq : DqCfg) (hint : list N) (r : N) (h : digest) (s : State)
    (pre : list Vote) (v : Vote) (post : list Vote),
  s_round s <= r -> qc_round (s_high_qc s) < r -> qcm_get (r, h) (s_qcm s) = mkQM 0 [] [] ->
  (forall x, In x (pre ++ [v]) -> vvalid c r h x) -> NoDup (map v_author (pre ++ [v])) ->
  (forall x, In x post -> v_round x <= r) ->
  stake_sum c (map v_author pre) < Node.quorum c ->
  Node.quorum c <= stake_sum c (map v_author (pre ++ [v])) ->
  let qc := qc_of h r (pre ++ [v]) in
  exists s1 tr1 s2 o2 tr3,
    feed_votes c me dq hint pre s = (s1, tr1) /\ quiet tr1 = true /\
    s_round s1 = s_round s /\ s_high_qc s1 = s_high_qc s /\
    handle_vote c me hint v s1 = (s2, o2, ROk tt) /\
    s_round s2 = r + 1 /\ s_high_qc s2 = qc /\
    s_last_voted s2 = s_last_voted s /\ s_last_committed s2 = s_last_committed s /\
    (if me =? leader c (r + 1)
     then makes_of o2 = [(r + 1, qc, None)] /\ (exists pl, proposes_of o2 = [made_block me (r + 1) qc None pl]) /\
          tcs_of o2 = [] /\ commits_of o2 = []
     else o2 = []) /\
    feed_votes c me dq hint post s2 = (s2, tr3) /\ quiet tr3 = true /\
    feed_votes c me dq hint (pre ++ v :: post) s = (s2, tr1 ++ (o2, ROk tt) :: tr3).
Print Assumptions c06_happy_path_qc.
Check c06_happy_path_commit : forall (c : Committee) (me : N) (honest : N -> bool),
  NoDup (members c) -> honest me = true -> forall w0 : world,
  3 * byz_stake (stk c) (members c) honest < total (stk c) (members c) ->
  forall (hint : list N) (b b1 b0 : Block) (s : State),
  Inv c me honest w0 s -> Closed s -> vetted c me honest w0 s b ->
  stored_parent s b b1 -> stored_parent s b1 b0 ->
  b_round b0 + 1 = b_round b1 -> s_last_committed s < b_round b0 ->
  match process_block c me src_dq hint b s with
  | (s', outs, res) =>
      (exists anc,
        commits_of outs = anc ++ [b0] /\
        (forall x, In x anc -> s_last_committed s < b_round x) /\ linked (anc ++ [b0]) /\
        stop_ok s (s_last_committed s) (hd b0 (anc ++ [b0])) /\
        In (OMemCleanup (b_round b0)) outs /\
        s_last_committed s' = b_round b0) /\
      (forall k, res <> RPanic k)
  end.
Print Assumptions c06_happy_path_commit.

(* the decisions these theorems rest on are the regenerated expressions *)
Check (eq_refl : g_timeout_stale = fun m_round st_round _ _ _ => m_round <? st_round).
Check (eq_refl : g_tcm_threshold = fun weight quorum => quorum <=? weight).
Check (eq_refl : g_qcm_threshold = fun weight quorum => quorum <=? weight).
Check (eq_refl : g_advance_guard = fun r st_round _ _ _ => r <? st_round).
Check (eq_refl : g_advance_next = fun r _ _ _ _ => r + 1).
Check (eq_refl : g_update_high_qc = fun q_round _ st_hq _ _ => st_hq <? q_round).
Check (eq_refl : g_can_extend = fun b_round _ tc_round _ _ _ _ _ => (tc_round + 1) =? b_round).
Check (eq_refl : g_can_extend_hq = fun _ b_qc_round _ max_hq _ _ _ _ => max_hq <=? b_qc_round).
Check (eq_refl : g_two_chain = fun b0_round b1_round _ => (b0_round + 1) =? b1_round).

(* the examples (committee of four) are part of the pinned surface: they must keep evaluating *)
Check c06_d_ex_boot. Check c06_d_ex_later. Check c06_d_ex_twice. Check c06_a_ex_leader_run. Check c06_a_ex_other_run.
Check c06_a_ex_general_run. Check c06_a_ex_own. Check c06_a_ex_own_run. Check c06_b_ex_run. Check c06_c1_ex_run. Check c06_c2_ex. Check c06_c2_ex_run.
Check c06_c2_ex_ancestors_run.
