(* Pinned statement: the regenerated skeleton of the store task's command loop refines the model `sstep` (see Tie_store_step.v, GenStore.v). *)
From Coq Require Import List NArith.
From HS Require Import StoreDefs StoreSkel GenStore Tie_store_step.
Import ListNotations.
Open Scope N_scope.
Check tie_store_step : forall cmd c s, SR c s ->
  let '(_, c', o) := gen_store_step cmd c in
  let '(s', o') := sstep s (to_cmd cmd) in
  o = o' /\ SR c' s'.
Print Assumptions tie_store_step.
Check tie_store_run : forall cs c s, SR c s ->
  snd (gen_store_run cs c) = snd (srun s (map to_cmd cs)) /\ SR (fst (gen_store_run cs c)) (fst (srun s (map to_cmd cs))).
Print Assumptions tie_store_run.
Check sr_init : SR (mkC [] []) (mkSt [] []).
Print Assumptions sr_init.
