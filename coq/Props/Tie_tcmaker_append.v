(* Pinned statement: the regenerated skeleton of `tcmaker_append` equals the model function (see Tie_tcmaker_append.v, GenAgg.v). *)
From Coq Require Import List NArith.
From HS Require Import GTac Node SkelPrims SkelMonad GenAgg Tie_tcmaker_append.
Open Scope N_scope.
Check tie_tcmaker_append : forall c t m, gen_tcmaker_append c t m = tm_append c m t.
Print Assumptions tie_tcmaker_append.
