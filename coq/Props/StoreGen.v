(* Pinned statements: C16 about the regenerated store loop itself (see StoreGen.v). *)
From Coq Require Import List NArith.
From HS Require Import StoreDefs Store StoreSkel GenStore Tie_store_step StoreGen.
Import ListNotations.
Open Scope N_scope.
Check c16_gen_read : forall cs k id,
  snd (gen_store_step (CRead k id) (c_after cs)) = [ORead id (spec_map (map to_cmd cs) k)].
Print Assumptions c16_gen_read.
Check c16_gen_notify : forall cs k id,
  snd (gen_store_step (CNotifyRead k id) (c_after cs)) =
  match spec_map (map to_cmd cs) k with Some v => [ONotify id v] | None => [] end.
Print Assumptions c16_gen_notify.
Check c16_gen_parked_then_written : forall cs k id v,
  spec_map (map to_cmd cs) k = None ->
  In (ONotify id v) (snd (gen_store_step (CWrite k v) (c_after (cs ++ [CNotifyRead k id])))).
Print Assumptions c16_gen_parked_then_written.
Check c16_gen_example :
  snd (gen_store_run [CNotifyRead 1 7; CRead 1 8; CWrite 2 5; CWrite 1 9; CNotifyRead 1 10; CRead 1 11] c_init)
  = [ORead 8 None; ONotify 7 9; ONotify 10 9; ORead 11 (Some 9)].
Print Assumptions c16_gen_example.
