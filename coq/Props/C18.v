(* C18 — key encodings (the base64 half; Ed25519 itself is a named assumption, not modelled).
   Pinned statements only: `Check name : statement` fails if a statement is weakened. *)
From Coq Require Import List NArith Arith.
From HS Require Import Base64Defs Base64.
Import ListNotations.
Open Scope N_scope.

(* base64 0.13 STANDARD: decode (encode l) = l for every byte string of every length *)
Check b64_rt : forall l : list N, Forall (fun b => b < 256) l -> b64_decode (b64_encode l) = Some l.
Print Assumptions b64_rt.
Check b64_enc_length : forall l : list N, length (b64_encode l) = (4 * Nat.div (length l + 2) 3)%nat.
Print Assumptions b64_enc_length.
Check b64_len32 : forall k : list N, length k = 32%nat -> length (b64_encode k) = 44%nat.
Print Assumptions b64_len32.
Check b64_len64 : forall k : list N, length k = 64%nat -> length (b64_encode k) = 88%nat.
Print Assumptions b64_len64.
Check b64_encode_inj : forall l l' : list N,
  Forall (fun b => b < 256) l -> Forall (fun b => b < 256) l' -> b64_encode l = b64_encode l' -> l = l'.
Print Assumptions b64_encode_inj.
Check b64_encode_ascii : forall l : list N, Forall (fun b => b < 256) l -> Forall (fun c => c < 128) (b64_encode l).
Print Assumptions b64_encode_ascii.
Check b64_decode_bytes : forall s l : list N, b64_decode s = Some l -> Forall (fun b => b < 256) l.
Print Assumptions b64_decode_bytes.

(* PublicKey / SecretKey :: decode_base64 (encode_base64 k) = Ok k, for the pinned slice (false) and the exact
   length check (true) *)
Check pubkey_rt : forall (exact : bool) (k : list N),
  length k = 32%nat -> Forall (fun b => b < 256) k -> decode_key_n 32 exact (b64_encode k) = KOk k.
Print Assumptions pubkey_rt.
Check seckey_rt : forall (exact : bool) (k : list N),
  length k = 64%nat -> Forall (fun b => b < 256) k -> decode_key_n 64 exact (b64_encode k) = KOk k.
Print Assumptions seckey_rt.
Check key_premises_satisfiable : length (repeat 255 32) = 32%nat /\ Forall (fun b => b < 256) (repeat 255 32).

(* decoding is total (a Gallina function) and, with the exact length check, never panics and returns keys of the
   right length only; the pinned slice panics exactly on short decodes and truncates long ones *)
Check key_exact_no_panic : forall (len : nat) (s : list N), decode_key_n len true s <> KPanic.
Print Assumptions key_exact_no_panic.
Check key_exact_length : forall (len : nat) (s k : list N), decode_key_n len true s = KOk k -> length k = len.
Print Assumptions key_exact_length.
Check key_slice_outcome : forall (len : nat) (s : list N),
  decode_key_n len false s =
  match b64_decode s with
  | Some l => if Nat.ltb (length l) len then KPanic else KOk (firstn len l)
  | None => KErr
  end.
Print Assumptions key_slice_outcome.
Check key_slice_length : forall (len : nat) (s k : list N), decode_key_n len false s = KOk k -> length k = len.
Print Assumptions key_slice_length.
Check key_slice_panic_witness : decode_key_n 32 false [65; 65; 61; 61] = KPanic.
Print Assumptions key_slice_panic_witness.
Check key_slice_truncation_witness :
  let k := repeat 7 32 in
  decode_key_n 32 false (b64_encode (k ++ [1])) = KOk k /\ decode_key_n 32 false (b64_encode (k ++ [2])) = KOk k /\
  decode_key_n 32 true (b64_encode (k ++ [1])) = KErr.
Print Assumptions key_slice_truncation_witness.
(* the model's key decoder is the one pinned above *)
Check (eq_refl : decode_pubkey = decode_key_n 32).
Check (eq_refl : decode_seckey = decode_key_n 64).
Check (eq_refl : encode_key = b64_encode).
Check (eq_refl : decode_key_n = fun len exact_len s =>
  match b64_decode s with
  | None => KErr
  | Some k => if exact_len then (if Nat.eqb (length k) len then KOk k else KErr)
              else (if Nat.ltb (length k) len then KPanic else KOk (firstn len k))
  end).
