(* C14 — reliable sender. Pinned statements only: `Check name : statement` fails if a statement is weakened.
   Model: ReliableDefs.v (one `Connection` task of network/src/reliable_sender.rs); ids are hand-over indices;
   `run init es` ranges over ALL finite event sequences (hand-over, connect ok / fail, write failing at any index,
   reply, read error / end of stream, handle dropped), unbounded. *)
From Coq Require Import List NArith Sorted.
From HS Require Import ReliableDefs Reliable.
Import ListNotations.
Open Scope N_scope.

(* (a) no loss: an id handed over, whose handle is kept and has not resolved, is still owed *)
Check c14_no_loss : forall es s o, run init es = (s, o) ->
  forall x, x < next s -> ~ In x (cancelled s) -> ~ In (OResolve x) o -> In x (pend s ++ buf s).
Print Assumptions c14_no_loss.

(* (b) order: per connection strictly increasing ids; first transmissions overall in hand-over order *)
Check c14_order : forall es s o, run init es = (s, o) ->
  (forall c, StronglySorted N.lt (frames_on c o)) /\
  StronglySorted N.lt (firsts (frame_ids o)) /\
  (forall x, In x (frame_ids o) -> x < next s).
Print Assumptions c14_order.
Check c14_order_no_overtake : forall es s o l1 x l2,
  run init es = (s, o) -> frame_ids o = l1 ++ x :: l2 -> In x l1 \/ forall y, In y l1 -> y < x.
Print Assumptions c14_order_no_overtake.

(* (c) pairing: a handle resolves only on a reply, while it is the head of pend, and only if not dropped *)
Check c14_pairing : forall es s o e s' o' x,
  run init es = (s, o) -> step s e = (s', o') -> In (OResolve x) o' ->
  exists f r, e = EAck f /\ up s = true /\ pend s = x :: r /\ ~ In x (cancelled s) /\ o' = [OResolve x] /\ pend s' = r.
Print Assumptions c14_pairing.
(* counting form: on each connection c the replies consumed are for the first frames written on c, in order, none
   skipped; the handles resolved are exactly the consumed replies whose handle was still kept; on the live connection the
   unanswered frames are exactly pend *)
Check c14_pairing_count : forall es s o, run init es = (s, o) ->
  let K := run_acks init es in
  resolves o = acked_resolved K /\
  forall c, exists rest, frames_on c o = acked_on c K ++ rest /\ (c = conn s -> up s = true -> rest = pend s).
Print Assumptions c14_pairing_count.
Check c14_pairing_nth : forall es s o c k x,
  run init es = (s, o) -> nth_error (acked_on c (run_acks init es)) k = Some x -> nth_error (frames_on c o) k = Some x.
Print Assumptions c14_pairing_nth.

(* (d) nothing is written for an id after its cancel event *)
Check c14_no_retransmit_after_cancel : forall es1 x es2 s o,
  run init (es1 ++ ECancel x :: es2) = (s, o) ->
  exists s1 o1 s2 o2, run init es1 = (s1, o1) /\ run s1 (ECancel x :: es2) = (s2, o2) /\ o = o1 ++ o2 /\ s = s2 /\
    forall c, ~ In (OFrame c x) o2.
Print Assumptions c14_no_retransmit_after_cancel.

(* (e) progress: from any reachable state, connect-ok then one reply per unanswered frame resolves every live id in
   hand-over order and leaves nothing owed; with (a): at least once whenever one connection lives long enough *)
Check c14_progress : forall es s o, run init es = (s, o) ->
  let '(s1, o1) := step s (EConnOk None) in
  let '(s2, o2) := run s1 (repeat (EAck None) (length (pend s1))) in
  resolves (o1 ++ o2) = live s /\
  pend s2 ++ buf s2 = [] /\
  (forall x, In x (live s) -> (up s = true /\ In x (pend s)) \/ In (OFrame (conn s1) x) o1).
Print Assumptions c14_progress.
Check c14_at_least_once : forall es s o x,
  run init es = (s, o) -> x < next s -> ~ In x (cancelled s) -> ~ In (OResolve x) o ->
  let '(s1, o1) := step s (EConnOk None) in
  let '(s2, o2) := run s1 (repeat (EAck None) (length (pend s1))) in
  In x (resolves (o1 ++ o2)).
Print Assumptions c14_at_least_once.

(* the socket harness's reading of an early close ("the write of frame k failed") is equivalent to the real sender's
   possible history ("all writes succeeded, then the connection ended") *)
Check c14_lost_write : forall s e k es,
  let '(s1, o1) := run s [with_f e (Some k); EReadErr] in
  let '(s2, o2) := run s [with_f e None; EReadErr] in
  beq s1 s2 /\ resolves o1 = resolves o2 /\
  (forall c, exists rest, frames_on c o2 = frames_on c o1 ++ rest) /\
  snd (run s1 es) = snd (run s2 es).
Print Assumptions c14_lost_write.

(* the core invariant step, statement unchanged since the design phase *)
Check step_inv : forall s e s' o, Inv s -> step s e = (s', o) ->
  Inv s' /\
  (forall x, In x (pend s ++ buf s) -> ~ In x (cancelled s') -> In x (pend s' ++ buf s') \/ In (OResolve x) o) /\
  (forall x, In (OResolve x) o -> exists f r, e = EAck f /\ pend s = x :: r /\ up s = true) /\
  (forall cx x, In (OFrame cx x) o -> ~ In x (cancelled s') /\ (In x (buf s) \/ x = next s)).
Print Assumptions step_inv.

(* the statements are about these definitions (no shadowing) and are not vacuous *)
Check (eq_refl : Inv = fun s => StronglySorted N.lt (pend s ++ buf s) /\ (forall x, In x (pend s ++ buf s) -> x < next s) /\
                              (up s = false -> pend s = [])).
Check (eq_refl : live = fun s => filter (fun x => negb (memN x (cancelled s))) (pend s ++ buf s)).
Check c14_example :
  run_obs [ENew None; ENew None; EConnFail; ECancel 1; EConnOk None; ENew None; EAck None; EReadErr; EConnOk None]
  = ([[0; 2]; [2]], [0]).
