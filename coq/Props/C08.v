(* C08 — data availability. Pinned statements only. *)
From Coq Require Import List NArith.
From HS Require Import GTac Node NodeAvail GlobalAvail.
Import ListNotations.
Open Scope N_scope.

Check c08_vote_available : forall (c : Committee) (g : gstateA) (a : N) d q j,
  greachA c g -> In (HVote d q j) (s_hist (g a)) -> incl (dpayload d) (s_batches (g a)).
Print Assumptions c08_vote_available.
Check c08_commit_available : forall (c : Committee) (g : gstateA) (a : N) hint e b,
  greachA c g -> ev_av (g a) e ->
  In (OCommit b) (snd (fst (step c a src_dq hint e (g a)))) ->
  incl (b_payload b) (s_batches (fst (fst (step c a src_dq hint e (g a))))).
Print Assumptions c08_commit_available.
Check c08_batches_grow : forall (c : Committee) (g : gstateA) (a : N) hint e,
  greachA c g -> ev_av (g a) e -> incl (s_batches (g a)) (s_batches (fst (fst (step c a src_dq hint e (g a))))).
Print Assumptions c08_batches_grow.
Check c08_parked : forall (c : Committee) (g : gstateA) (a : N) m b d,
  greachA c g -> In (m, b) (s_pw_pending (g a)) -> In d (b_payload b) -> In d (s_batches (g a)) \/ In d m.
Print Assumptions c08_parked.
Check c08_step : forall (c : Committee) (me : N) hint e s, AvInv s -> ev_av s e -> Post s (step c me src_dq hint e s).
Print Assumptions c08_step.
