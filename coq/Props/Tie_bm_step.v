(* Pinned statement: the regenerated skeleton of the batch maker (select! arms + seal) equals the model `bstep` (see Tie_bm_step.v, GenBM.v). *)
From Coq Require Import List NArith.
From HS Require Import Guards BatchMakerDefs BMSkel GenBM Tie_bm_step.
Import ListNotations.
Open Scope N_scope.
Check tie_bm_step : forall bs e s,
  gen_bm_step bs e s = (tt, fst (bstep bs s e), sealed_out (snd (bstep bs s e))).
Print Assumptions tie_bm_step.
Check tie_bm_run : forall bs es s,
  gen_bm_run bs es s = (fst (brun bs s es), sealed_out (snd (brun bs s es))).
Print Assumptions tie_bm_run.
From HS Require Import BatchMaker.
Check c11_gen_exactly_once_in_order : forall bs es s, BInv bs s ->
  let '(s', o) := gen_bm_run bs es s in
  BInv bs s' /\ concat (broadcasts o) ++ cur s' = cur s ++ txs_of es /\ emitted o = broadcasts o /\ (forall b, In b (broadcasts o) -> b <> []).
Print Assumptions c11_gen_exactly_once_in_order.
