(* Pinned statement: the regenerated skeleton of `local_timeout_round` equals the model function (see Tie_local_timeout_round.v, GenCore.v). *)
From Coq Require Import List NArith.
From HS Require Import GTac Node SkelPrims GenCore Tie_local_timeout_round.
Open Scope N_scope.
Check tie_local_timeout_round : forall c me dq hint s, gen_local_timeout_round c me dq hint s = local_timeout c me hint s.
Print Assumptions tie_local_timeout_round.
