(* Pinned statement: the regenerated skeleton of `process_block` equals the model function (see Tie_process_block.v, GenCore.v). *)
From Coq Require Import List NArith.
From HS Require Import GTac Node SkelPrims GenCore Tie_process_block.
Open Scope N_scope.
Check tie_process_block : forall c me dq hint b s, gen_process_block c me dq hint b s = process_block c me dq hint b s.
Print Assumptions tie_process_block.
