(* C09 — one leader per round, no equivocation. Pinned statements only. *)
From Coq Require Import List NArith Permutation Sorted.
From HS Require Import GTac Node Proto Link NodeInv NodeLog NodeMakes Global GlobalMakes LeaderDefs Leader.
Import ListNotations.
Open Scope N_scope.

Check leader_perm : forall ks ks' r, Permutation ks ks' -> LeaderDefs.leader ks r = LeaderDefs.leader ks' r.
Print Assumptions leader_perm.
Check c09_rotation : forall ks r, ks <> [] ->
  Permutation (map (fun k => LeaderDefs.leader ks (r + N.of_nat k)) (seq 0 (length ks))) ks.
Print Assumptions c09_rotation.
Check c09_no_equivocation : forall (c : Committee) (honest : N -> bool),
  NoDup (members c) -> 3 * byz_stake (stk c) (members c) honest < total (stk c) (members c) ->
  forall (g : gstate) (a : N), greachB c honest g -> honest a = true -> StronglySorted N.gt (s_makes (g a)).
Print Assumptions c09_no_equivocation.
