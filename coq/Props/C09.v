(* C09 — one leader per round, no equivocation. Pinned statements only. *)
From Coq Require Import List NArith Permutation Sorted.
From HS Require Import GTac Node Proto Link NodeInv NodeLog NodeMakes Global GlobalMakes LeaderDefs Leader LeaderVotesDefs NodeLeaderVotes GlobalLeaderVotes.
Import ListNotations.
Open Scope N_scope.

Check leader_perm : forall ks ks' r, Permutation ks ks' -> LeaderDefs.leader ks r = LeaderDefs.leader ks' r.
Print Assumptions leader_perm.
Check c09_rotation : forall ks r, ks <> [] ->
  Permutation (map (fun k => LeaderDefs.leader ks (r + N.of_nat k)) (seq 0 (length ks))) ks.
Print Assumptions c09_rotation.
Check c09_no_equivocation : forall (c : Committee) (honest : N -> bool),
  NoDup (members c) -> 3 * byz_stake (stk c) (members c) honest < total (stk c) (members c) ->
  forall (g : gstate) (a : N), greachB c honest g -> honest a = true -> StronglySorted N.gt (s_makes (g a)).
Print Assumptions c09_no_equivocation.


Check c09_votes_for_leader : forall (c : Committee) (honest : N -> bool) (g : gstate) (a : N) d q j,
  greach c honest g -> honest a = true -> In (HVote d q j) (s_hist (g a)) ->
  dauthor d = Node.leader c (dround d).
Print Assumptions c09_votes_for_leader.
Check c09_votes_for_leader_any : forall (c : Committee) (g : gstate) (a : N) d q j,
  greachL c g -> In (HVote d q j) (s_hist (g a)) -> dauthor d = Node.leader c (dround d).
Print Assumptions c09_votes_for_leader_any.
Check c09_flight_by_leader : forall (c : Committee) (g : gstate) (a : N) (b : Block),
  greachL c g ->
  In b (s_loopback (g a)) \/ In b (s_sync_pending (g a)) \/ In b (map snd (s_pw_pending (g a))) \/
  In b (map snd (s_store (g a))) ->
  b_author b = Node.leader c (b_round b).
Print Assumptions c09_flight_by_leader.
