(* Pinned statement: the regenerated skeleton of `handle_timeout` equals the model function (see Tie_handle_timeout.v, GenCore.v). *)
From Coq Require Import List NArith.
From HS Require Import GTac Node SkelPrims GenCore Tie_handle_timeout.
Open Scope N_scope.
Check tie_handle_timeout : forall c me dq hint t s, gen_handle_timeout c me dq hint t s = handle_timeout c me hint t s.
Print Assumptions tie_handle_timeout.
