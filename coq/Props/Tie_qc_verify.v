(* Pinned statement: the regenerated skeleton of `qc_verify` equals the model function (see Tie_qc_verify.v, GenAgg.v). *)
From Coq Require Import List NArith.
From HS Require Import GTac Node SkelPrims SkelMonad GenAgg Tie_qc_verify.
Open Scope N_scope.
Check tie_qc_verify : forall c q, snd (gen_qc_verify c q tt) = qc_verify c q.
Print Assumptions tie_qc_verify.
