(* Monitor soundness: each executable monitor of Monitors.v is TRUE on every run of the node model. Pinned statements only.
   [obs_of_run c me evs] is the observation list the model itself produces for the events [evs] from the initial state
   (per step: outputs, result kind, snapshot after the step). Hypotheses, where any:
   - [along lb_exact]: each loop-back selector names the very block sitting in the pool (the monitors read selector fields
     that the model's look-up by digest ignores; counterexamples *_needs_exact);
   - [dig_ok [] evs]: every EvDigest d is preceded by an EvBatch d (counterexample mon_c08_needs_dig_ok);
   - [boot_once evs]: EvBoot occurs at most once, first (counterexample mon_c09_needs_boot_once);
   - [along (ev_adm ...)]: admissibility of NodeInv.v, only for C02 and C15. *)
From Coq Require Import List NArith.
From HS Require Import GTac Node Corr Monitors Proto Link NodeInv NodeLog NodePanic MonSound MonSoundDefs
  MonSound2 MonSound3 MonSound4 MonSound5 MonSound6 MonSound7 MonSound8 MonSound9 MonSound10 MonSound11 MonitorsC19 MonSound12 MonitorsC06 MonSound13.
Import ListNotations.
Open Scope N_scope.

(* the observations are those of [run] *)
Check obs_from_run : forall c me evs s,
  map (fun ob => (ob_out ob, ob_res ob)) (obs_from c me evs s) =
  map (fun x => (fst x, rkind_of (snd x))) (snd (run c me src_dq evs s)).
Print Assumptions obs_from_run.
Check outs_of_obs_from : forall c me evs s, outs_of (obs_from c me evs s) = flat_map fst (snd (run c me src_dq evs s)).
Print Assumptions outs_of_obs_from.

(* no hypothesis at all: every event list, forged or Byzantine messages included *)
Check mon_c04_sound : forall (c : Committee) (me : N) evs, mon_c04 c evs (obs_of_run c me evs) = true.
Print Assumptions mon_c04_sound.
Check mon_c19_sound : forall (c : Committee) (me : N) evs, mon_c19 c (obs_of_run c me evs) = true.
Print Assumptions mon_c19_sound.
Check ghost_c03_sound : forall (c : Committee) (me : N) evs,
  ghost_c03 (s_hist (fst (run c me src_dq evs (init c)))) = true.
Print Assumptions ghost_c03_sound.

(* a condition on the event list alone *)
Check mon_c08_sound : forall (c : Committee) (me : N) evs,
  dig_ok [] evs = true -> mon_c08 me evs (obs_of_run c me evs) = true.
Print Assumptions mon_c08_sound.

(* exact loop-back selectors *)
Check c09_votes_sound : forall (c : Committee) (me : N) evs,
  along lb_exact c me evs (init c) -> c09_votes c evs (obs_of_run c me evs) = true.
Print Assumptions c09_votes_sound.
Check mon_c03_sound : forall (c : Committee) (me : N) evs,
  along lb_exact c me evs (init c) -> mon_c03 evs (obs_of_run c me evs) = true.
Print Assumptions mon_c03_sound.
Check mon_c10_sound : forall (c : Committee) (me : N) evs,
  along lb_exact c me evs (init c) -> mon_c10 c evs (obs_of_run c me evs) = true.
Print Assumptions mon_c10_sound.
Check mon_c05_sound : forall (c : Committee) (me : N) evs,
  along lb_exact c me evs (init c) -> mon_c05 c evs (obs_of_run c me evs) = true.
Print Assumptions mon_c05_sound.
Check mon_c09_sound : forall (c : Committee) (me : N) evs,
  boot_once evs = true -> along lb_exact c me evs (init c) -> mon_c09 c me evs (obs_of_run c me evs) = true.
Print Assumptions mon_c09_sound.

(* admissible runs (NodeInv.ev_adm: honest signatures are recorded in the world w0) *)
Check mon_c15_sound : forall (c : Committee) (me : N) (honest : N -> bool),
  NoDup (members c) -> honest me = true -> forall w0 : world,
  3 * byz_stake (stk c) (members c) honest < total (stk c) (members c) ->
  forall evs, along (ev_adm c me honest w0) c me evs (init c) -> mon_c15 (obs_of_run c me evs) = true.
Print Assumptions mon_c15_sound.
Check mon_c02_sound : forall (c : Committee) (me : N) (honest : N -> bool),
  NoDup (members c) -> honest me = true -> forall w0 : world,
  3 * byz_stake (stk c) (members c) honest < total (stk c) (members c) ->
  W c me honest w0 (init c) ->
  forall evs, along (ev_adm c me honest w0) c me evs (init c) -> mon_c02 (obs_of_run c me evs) = true.
Print Assumptions mon_c02_sound.
Check all_monitors_sound : forall (c : Committee) (me : N) (honest : N -> bool),
  NoDup (members c) -> honest me = true -> forall w0 : world,
  3 * byz_stake (stk c) (members c) honest < total (stk c) (members c) ->
  W c me honest w0 (init c) ->
  forall evs, along (ev_adm c me honest w0) c me evs (init c) ->
  along lb_exact c me evs (init c) -> dig_ok [] evs = true -> boot_once evs = true ->
  let obs := obs_of_run c me evs in
  map b2n [ mon_c02 obs; mon_c03 evs obs; ghost_c03 (s_hist (fst (run c me src_dq evs (init c))));
            mon_c04 c evs obs; mon_c05 c evs obs; mon_c08 me evs obs; mon_c09 c me evs obs; mon_c10 c evs obs;
            mon_c15 obs; mon_c19 c obs ] = [1; 1; 1; 1; 1; 1; 1; 1; 1; 1].
Print Assumptions all_monitors_sound.

(* the invariant behind the hypothesis-free statements, and the per-step facts *)
Check step_wf : forall (c : Committee) (me : N) (dq : DqCfg) hint e s, WfInv c s -> gat c me (step c me dq hint e) s.
Print Assumptions step_wf.
Check step_votes : forall (c : Committee) (me : N) (dq : DqCfg) hint e s,
  match step c me dq hint e s with
  | (s', o, _) =>
      timeouts_of o = match e with EvTimer => [own_timeout me s] | _ => [] end /\
      (match e with EvTimer => s_last_voted s' = N.max (s_last_voted s) (s_round s) | _ => True end) /\
      ((votes_of o = [] /\ (e <> EvTimer -> s_last_voted s' = s_last_voted s)) \/
       exists x, processed c e s x /\ cast_case me x s s' o)
  end.
Print Assumptions step_votes.
Check step_batches : forall (c : Committee) (me : N) (dq : DqCfg) hint e s,
  s_batches (fst (fst (step c me dq hint e s))) = match e with EvBatch d => d :: s_batches s | _ => s_batches s end.
Print Assumptions step_batches.
Check step_tcs : forall (c : Committee) (me : N) (dq : DqCfg) hint e, tcspec (step c me dq hint e).
Print Assumptions step_tcs.
Check step_round : forall (c : Committee) (me : N) (dq : DqCfg) hint e s,
  hq s < s_round s -> match step c me dq hint e s with (s', o, _) => RJ (ev_cert_rounds c e) s s' o end.
Print Assumptions step_round.
Check step_makes : forall (c : Committee) (me : N) (dq : DqCfg) hint e, e <> EvBoot -> mspec (step c me dq hint e).
Print Assumptions step_makes.
Check step_commits : forall (c : Committee) (me : N) hint e s, WfInv c s -> CS (ST c e s) (step c me src_dq hint e) s.
Print Assumptions step_commits.
Check step_hist : forall (c : Committee) (me : N) (dq : DqCfg) hint e s,
  match step c me dq hint e s with
  | (s', _, _) =>
      lvh s' = lvh s \/ (exists x, processed c e s x /\ pushed x s s') \/
      (e = EvTimer /\ s_last_voted s' = N.max (s_last_voted s) (s_round s) /\
       s_hist s' = HTimeout (s_round s) (qc_round (s_high_qc s)) :: s_hist s)
  end.
Print Assumptions step_hist.

(* findings: what the monitors demand beyond the property (counterexample runs, by computation) *)
Check c09_votes_needs_exact : c09_votes c4 evs_bad (obs_of_run c4 1 evs_bad) = false.
Check mon_c03_needs_exact : mon_c03 evs_bad (obs_of_run c4 1 evs_bad) = false.
Check mon_c10_needs_exact :
  mon_c10 c4 (evs_bad ++ [([], EvTimer)]) (obs_of_run c4 1 (evs_bad ++ [([], EvTimer)])) = false.
Check mon_c05_needs_exact :
  map b_round (commits_of (outs_of (obs_of_run c4 3 (evs_c05 ++ [([], EvLoopback sel_c05_bad)])))) = [1] /\
  mon_c05 c4 (evs_c05 ++ [([], EvLoopback sel_c05_bad)]) (obs_of_run c4 3 (evs_c05 ++ [([], EvLoopback sel_c05_bad)])) = false.
Check mon_c08_needs_dig_ok :
  dig_ok [] evs_early_digest = false /\
  map b_payload (commits_of (outs_of (obs_of_run c4 1 evs_early_digest))) = [[5]] /\
  mon_c08 1 evs_early_digest (obs_of_run c4 1 evs_early_digest) = false.
Check mon_c09_needs_boot_once :
  mon_c09 c4 1 [([], EvBoot); ([], EvBoot)] (obs_of_run c4 1 [([], EvBoot); ([], EvBoot)]) = false.
(* non-vacuity *)
Check all_monitors_premises_ok.
Check mon_c05_good_exact : along lb_exact c4 3 (evs_c05 ++ [([], EvLoopback own_c3)]) (init c4).
Check good_selector_exact : along lb_exact c4 1 evs_good (init c4).

(* C19, the "when" direction (completeness): once distinct verified non-stale voters (timeout senders) reach quorum stake, the
   node's high-QC round reaches the vote round (its round passes the timeout round) in that very step. No hypothesis. *)
Check mon_c19_complete_sound : forall (c : Committee) (me : N) (evs : list (list N * Event)),
  mon_c19_complete c evs (obs_of_run c me evs) = true.
Print Assumptions mon_c19_complete_sound.
Check mon_c19_tc_complete_sound : forall (c : Committee) (me : N) (evs : list (list N * Event)),
  mon_c19_tc_complete c evs (obs_of_run c me evs) = true.
Print Assumptions mon_c19_tc_complete_sound.
(* the monitors are false on a trace in which the quorum voted and nothing happened, and they do fire on a model run *)
Check c19c_detects_stuck :
  mon_c19_complete c4 evs_c19c [mkObs [] KErr (1, 0, 0, 0); ob_stuck; ob_stuck; ob_stuck; ob_stuck] = false.
Print Assumptions c19c_detects_stuck.
Check c19t_detects_stuck :
  mon_c19_tc_complete c4 evs_c19t [mkObs [] KErr (1, 0, 0, 0); ob_stuck; ob_stuck; ob_stuck] = false.
Print Assumptions c19t_detects_stuck.
Check c19c_hyps_met :
  map snap_hq (obs_of_run c4 2 evs_c19c) = [0; 0; 0; 1; 1] /\
  c19_complete_fired c4 evs_c19c (obs_of_run c4 2 evs_c19c) = 1 /\
  mon_c19_complete c4 evs_c19c (obs_of_run c4 2 evs_c19c) = true.
Print Assumptions c19c_hyps_met.
Check c19t_hyps_met :
  map snap_round (obs_of_run c4 1 evs_c19t) = [1; 1; 1; 2] /\
  c19_tc_complete_fired c4 evs_c19t (obs_of_run c4 1 evs_c19t) = 1 /\
  mon_c19_tc_complete c4 evs_c19t (obs_of_run c4 1 evs_c19t) = true.
Print Assumptions c19t_hyps_met.

(* C06: every request to make a block (Core -> Proposer) is served by the block in the same step. No hypothesis. *)
Check mon_c06_proposes_sound : forall (c : Committee) (me : N) (evs : list (list N * Event)),
  mon_c06_proposes (obs_of_run c me evs) = true.
Print Assumptions mon_c06_proposes_sound.
Check step_c06_ok : forall (c : Committee) (me : N) (dq : DqCfg) (hint : list N) (e : Event) (s : State),
  c06_step_ok (snd (fst (step c me dq hint e s))) = true.
Print Assumptions step_c06_ok.
Check c06_proposes_detects_wedged :
  mon_c06_proposes [mkObs [] KOk (1, 1, 0, 0); mkObs [] KOk (1, 1, 0, 0); ob_c06_wedged] = false.
Print Assumptions c06_proposes_detects_wedged.
