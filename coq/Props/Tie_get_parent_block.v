(* Pinned statement: the regenerated skeleton of `get_parent_block` equals the model function (see Tie_get_parent_block.v, GenCore.v). *)
From Coq Require Import List NArith.
From HS Require Import GTac Node SkelPrims GenCore Tie_get_parent_block.
Open Scope N_scope.
Check tie_get_parent_block : forall c me dq hint b s, gen_get_parent_block c me dq hint b s = get_parent_block b s.
Print Assumptions tie_get_parent_block.
