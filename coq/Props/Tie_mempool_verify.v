(* Pinned statement: the regenerated skeleton of `mempool_verify` equals the model function (see Tie_mempool_verify.v, GenCore.v). *)
From Coq Require Import List NArith.
From HS Require Import GTac Node SkelPrims GenCore Tie_mempool_verify.
Open Scope N_scope.
Check tie_mempool_verify : forall c me dq hint b s, gen_mempool_verify c me dq hint b s = mempool_verify b s.
Print Assumptions tie_mempool_verify.
