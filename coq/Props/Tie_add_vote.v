(* Pinned statement: the regenerated skeleton of `add_vote` equals the model function (see Tie_add_vote.v, GenAgg.v). *)
From Coq Require Import List NArith.
From HS Require Import GTac Node SkelPrims SkelMonad GenAgg Tie_add_vote.
Open Scope N_scope.
Check tie_add_vote : forall c v s, gen_add_vote c v s = agg_add_vote c v s.
Print Assumptions tie_add_vote.
