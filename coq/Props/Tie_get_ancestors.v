(* Pinned statement: the regenerated skeleton of `get_ancestors` equals the model function (see Tie_get_ancestors.v, GenCore.v). *)
From Coq Require Import List NArith.
From HS Require Import GTac Node SkelPrims GenCore Tie_get_ancestors.
Open Scope N_scope.
Check tie_get_ancestors : forall c me dq hint b s, gen_get_ancestors c me dq hint b s = get_ancestors b s.
Print Assumptions tie_get_ancestors.
