(* C12 — a node's own batch is proposed only after a quorum acknowledged it. Pinned statements only. *)
From Coq Require Import List NArith.
From HS Require Import Guards QuorumWaiterDefs QuorumWaiter.
Import ListNotations.
Open Scope N_scope.

Check c12_first_quorum : forall (stake : N -> N) (quorum own : N) (acks : list N) (k : nat),
  qw stake quorum own acks = Some k <->
  (k < length acks)%nat /\ quorum <= own + wsum stake (firstn (S k) acks) /\
  forall j, (j < k)%nat -> own + wsum stake (firstn (S j) acks) < quorum.
Print Assumptions c12_first_quorum.

(* second sentence of C12: the honest stake holding a forwarded batch (creator + honest acknowledgers counted) exceeds f *)
From HS Require Import QuorumHeld.
Check c12_held_by_honest : forall (stake : N -> N) (byz : N -> bool) (n own : N) (acks : list N) (k : nat),
  1 <= n ->
  wsum stake (filter byz acks) <= (n - 1) / 3 ->
  qw stake (g_quorum_mempool n) own acks = Some k ->
  own + wsum stake (filter (fun x => negb (byz x)) (firstn (S k) acks)) >= (n - 1) / 3 + 1.
Print Assumptions c12_held_by_honest.
