(* C12 — a node's own batch is proposed only after a quorum acknowledged it. Pinned statements only. *)
From Coq Require Import List NArith.
From HS Require Import Guards QuorumWaiterDefs QuorumWaiter.
Import ListNotations.
Open Scope N_scope.

Check c12_first_quorum : forall (stake : N -> N) (quorum own : N) (acks : list N) (k : nat),
  qw stake quorum own acks = Some k <->
  (k < length acks)%nat /\ quorum <= own + wsum stake (firstn (S k) acks) /\
  forall j, (j < k)%nat -> own + wsum stake (firstn (S j) acks) < quorum.
Print Assumptions c12_first_quorum.
