(* Pinned statement: the regenerated skeleton of `handle_tc` equals the model function (see Tie_handle_tc.v, GenCore.v). *)
From Coq Require Import List NArith.
From HS Require Import GTac Node SkelPrims GenCore Tie_handle_tc.
Open Scope N_scope.
Check tie_handle_tc : forall c me dq hint tc s, gen_handle_tc c me dq hint tc s = handle_tc c me hint tc s.
Print Assumptions tie_handle_tc.
