(* Pinned statements: a step / a run of the node built from the regenerated handlers IS a step / the run of the node model (see Tie_step.v). *)
From Coq Require Import List NArith.
From HS Require Import GTac Node SkelPrims GenCore Tie_step.
Open Scope N_scope.
Check gen_step_eq : forall c me hint e s, gen_step c me hint e s = step c me src_dq hint e s.
Print Assumptions gen_step_eq.
Check gen_run_eq : forall c me evs s, gen_run c me evs s = run c me src_dq evs s.
Print Assumptions gen_run_eq.
