(* Pinned statement: the regenerated skeleton of `cleanup_proposer` equals the model function (see Tie_cleanup_proposer.v, GenCore.v). *)
From Coq Require Import List NArith.
From HS Require Import GTac Node SkelPrims GenCore Tie_cleanup_proposer.
Open Scope N_scope.
Check tie_cleanup_proposer : forall c me dq hint b0 b1 b s, gen_cleanup_proposer c me dq hint b0 b1 b s = proposer_cleanup (b_payload b0 ++ b_payload b1 ++ b_payload b) s.
Print Assumptions tie_cleanup_proposer.
