(* Pinned statement: the regenerated skeleton of `commit` (whole function, loops included) equals the model function for the regenerated deque discipline (see Tie_commit.v, GenCore.v). *)
From Coq Require Import List NArith.
From HS Require Import GTac Node SkelPrims GenCore Tie_commit.
Open Scope N_scope.
Check tie_commit : forall c me hint b s, gen_commit c me src_dq hint b s = commit src_dq b s.
Print Assumptions tie_commit.
