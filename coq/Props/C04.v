(* C04 — only correctly signed, quorum-backed messages influence a node. Pinned statements only. *)
From Coq Require Import List NArith.
From HS Require Import GTac Node Corr Monitors Proto Link Exact.
Import ListNotations.
Open Scope N_scope.

(* (i) each verifier accepts exactly the valid messages (spec: *_valid in Exact.v) *)
Check qc_verify_exact : forall (c : Committee) q, qc_verify c q = ROk tt <-> qc_valid c q.
Print Assumptions qc_verify_exact.
Check tc_verify_exact : forall (c : Committee) t, tc_verify c t = ROk tt <-> tc_valid c t.
Print Assumptions tc_verify_exact.
Check vote_verify_exact : forall (c : Committee) v, vote_verify c v = ROk tt <-> vote_valid c v.
Print Assumptions vote_verify_exact.
Check timeout_verify_exact : forall (c : Committee) t, timeout_verify c t = ROk tt <-> timeout_valid c t.
Print Assumptions timeout_verify_exact.
Check block_verify_exact : forall (c : Committee) b, block_verify c b = ROk tt <-> block_valid c b.
Print Assumptions block_verify_exact.
(* (ii) a rejected network message leaves the whole node state unchanged and produces no output, so every
   later event sequence behaves identically with or without it *)
Check c04_noninterference : forall (c : Committee) (me : N) hint e s,
  is_msg e = true -> ev_valid c e = false ->
  exists r, step c me src_dq hint e s = (s, [], r) /\ (forall k, r <> RPanic k).
Print Assumptions c04_noninterference.
Check c04_same_future : forall (c : Committee) (me : N) hint e s rest,
  is_msg e = true -> ev_valid c e = false ->
  fst (run c me src_dq ((hint, e) :: rest) s) = fst (run c me src_dq rest s) /\
  tl (snd (run c me src_dq ((hint, e) :: rest) s)) = snd (run c me src_dq rest s) /\
  (exists r, hd ([], ROk tt) (snd (run c me src_dq ((hint, e) :: rest) s)) = ([], r)).
Print Assumptions c04_same_future.
(* (iii) mutation classes *)
Check qc_repeated_signer_rejected : forall (c : Committee) q a s1 s2 l1 l2 l3,
  qc_votes q = l1 ++ (a, s1) :: l2 ++ (a, s2) :: l3 -> qc_verify c q <> ROk tt.
Print Assumptions qc_repeated_signer_rejected.
Check qc_transplanted_signature_rejected : forall (c : Committee) q a x ct,
  In (a, SigOf x ct) (qc_votes q) -> (x <> a \/ ct <> CVote (qc_hash q) (qc_round q)) -> qc_verify c q <> ROk tt.
Print Assumptions qc_transplanted_signature_rejected.
Check qc_nonmember_rejected : forall (c : Committee) q a s, In (a, s) (qc_votes q) -> Node.stake c a = 0 -> qc_verify c q <> ROk tt.
Print Assumptions qc_nonmember_rejected.
Check qc_subquorum_rejected : forall (c : Committee) q, wsum (Node.stake c) (map fst (qc_votes q)) < Node.quorum c -> qc_verify c q <> ROk tt.
Print Assumptions qc_subquorum_rejected.
Check tc_repeated_signer_rejected : forall (c : Committee) t a s1 h1 s2 h2 l1 l2 l3,
  tc_votes t = l1 ++ (a, s1, h1) :: l2 ++ (a, s2, h2) :: l3 -> tc_verify c t <> ROk tt.
Print Assumptions tc_repeated_signer_rejected.
Check tc_wrong_content_rejected : forall (c : Committee) t a x ct hq,
  In (a, SigOf x ct, hq) (tc_votes t) -> (x <> a \/ ct <> CTimeout (tc_round t) hq) -> tc_verify c t <> ROk tt.
Print Assumptions tc_wrong_content_rejected.
Check block_altered_field_rejected : forall (c : Committee) b b',
  block_verify c b' = ROk tt -> b_sig b' = b_sig b -> b_author b' = b_author b ->
  block_verify c b = ROk tt -> block_digest b' = block_digest b.
Print Assumptions block_altered_field_rejected.
