(* C10 — pacemaker. Pinned statements only. *)
From Coq Require Import List NArith.
From HS Require Import GTac Node Proto Link NodeInv Global GlobalProps NodePace GlobalPace.
Import ListNotations.
Open Scope N_scope.

Check c10_monotone : forall (c : Committee) (honest : N -> bool),
  NoDup (members c) -> 3 * byz_stake (stk c) (members c) honest < total (stk c) (members c) ->
  forall (g g' : gstate) (a : N), greach c honest g -> gstep c honest g g' -> honest a = true ->
  s_round (g a) <= s_round (g' a) /\ qc_round (s_high_qc (g a)) <= qc_round (s_high_qc (g' a)).
Print Assumptions c10_monotone.
Check c10_timeout_dominates : forall (c : Committee) (honest : N -> bool),
  NoDup (members c) -> 3 * byz_stake (stk c) (members c) honest < total (stk c) (members c) ->
  forall (g : gstate) (a : N) l1 r hqr l2 d qcr j,
  greach c honest g -> honest a = true -> s_hist (g a) = l1 ++ HTimeout r hqr :: l2 ->
  In (HVote d qcr j) l2 -> qcr <= hqr.
Print Assumptions c10_timeout_dominates.
Check c10_high_qc_dominates : forall (c : Committee) (honest : N -> bool),
  NoDup (members c) -> 3 * byz_stake (stk c) (members c) honest < total (stk c) (members c) ->
  forall (g : gstate) (a : N) d qcr j,
  greach c honest g -> honest a = true -> In (HVote d qcr j) (s_hist (g a)) -> qcr <= qc_round (s_high_qc (g a)).
Print Assumptions c10_high_qc_dominates.
Check c10_pace : forall (c : Committee) (honest : N -> bool),
  NoDup (members c) -> 3 * byz_stake (stk c) (members c) honest < total (stk c) (members c) ->
  forall (g : gstate) (a : N), greach c honest g -> honest a = true ->
  qc_round (s_high_qc (g a)) < s_round (g a) /\ s_last_voted (g a) <= s_round (g a).
Print Assumptions c10_pace.


Check c10_round_evidence : forall (c : Committee) (honest : N -> bool),
  NoDup (members c) -> 3 * byz_stake (stk c) (members c) honest < total (stk c) (members c) ->
  forall (g : gstate) (a : N), greach c honest g -> honest a = true ->
  s_round (g a) = 1 \/
  (exists h, certified (stk c) (members c) honest (gw g) h (s_round (g a) - 1)) \/
  (exists es, validtc (stk c) (members c) honest (gw g) (s_round (g a) - 1) es).
Print Assumptions c10_round_evidence.
