(* Pinned statement: the regenerated skeleton of `update_high_qc` equals the model function (see Tie_update_high_qc.v, GenCore.v). *)
From Coq Require Import List NArith.
From HS Require Import GTac Node SkelPrims GenCore Tie_update_high_qc.
Open Scope N_scope.
Check tie_update_high_qc : forall c me dq hint q s, gen_update_high_qc c me dq hint q s = update_high_qc q s.
Print Assumptions tie_update_high_qc.
