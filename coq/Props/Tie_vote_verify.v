(* Pinned statement: the regenerated skeleton of `vote_verify` equals the model function (see Tie_vote_verify.v, GenAgg.v). *)
From Coq Require Import List NArith.
From HS Require Import GTac Node SkelPrims SkelMonad GenAgg Tie_vote_verify.
Open Scope N_scope.
Check tie_vote_verify : forall c v, snd (gen_vote_verify c v tt) = vote_verify c v.
Print Assumptions tie_vote_verify.
