(* Pinned statement: the regenerated skeleton of `timeout_verify` equals the model function (see Tie_timeout_verify.v, GenAgg.v). *)
From Coq Require Import List NArith.
From HS Require Import GTac Node SkelPrims SkelMonad GenAgg Tie_timeout_verify.
Open Scope N_scope.
Check tie_timeout_verify : forall c t, snd (gen_timeout_verify c t tt) = timeout_verify c t.
Print Assumptions tie_timeout_verify.
