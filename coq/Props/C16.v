(* C16 — store: reads see the latest write; notify-reads never miss a write. Pinned statements only. *)
From Coq Require Import List NArith.
From HS Require Import StoreDefs Store.
Import ListNotations.
Open Scope N_scope.

Check sstep_refines : forall hist s c, SInv hist s ->
  let '(s', o) := sstep s c in
  SInv (hist ++ [c]) s' /\
  match c with
  | Read k id => o = [ORead id (spec_map hist k)]
  | NotifyRead k id =>
      match spec_map hist k with
      | Some v => o = [ONotify id v]
      | None => o = [] /\ In (k, id) (obl s')
      end
  | Write k v =>
      o = map (fun e => ONotify (snd e) v) (filter (fun e => fst e =? k) (obl s)) /\
      (forall id, ~ In (k, id) (obl s'))
  | Reopen => o = [] /\ obl s' = []
  | Cancel id => o = [] /\ (forall k, ~ In (k, id) (obl s')) /\
                 (forall k id', id' <> id -> (In (k, id') (obl s') <-> In (k, id') (obl s)))
  end.
Print Assumptions sstep_refines.
