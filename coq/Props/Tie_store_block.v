(* Pinned statement: the regenerated skeleton of `store_block` equals the model function (see Tie_store_block.v, GenCore.v). *)
From Coq Require Import List NArith.
From HS Require Import GTac Node SkelPrims GenCore Tie_store_block.
Open Scope N_scope.
Check tie_store_block : forall c me dq hint b s, gen_store_block c me dq hint b s = store_block b s.
Print Assumptions tie_store_block.
