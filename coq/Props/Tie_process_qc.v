(* Pinned statement: the regenerated skeleton of `process_qc` equals the model function (see Tie_process_qc.v, GenCore.v). *)
From Coq Require Import List NArith.
From HS Require Import GTac Node SkelPrims GenCore Tie_process_qc.
Open Scope N_scope.
Check tie_process_qc : forall c me dq hint q s, gen_process_qc c me dq hint q s = process_qc q s.
Print Assumptions tie_process_qc.
