(* C19 — certificate assembly. Pinned statements only. *)
From Coq Require Import List NArith.
From HS Require Import GTac Node Proto Link AggOnce Exact.
Import ListNotations.
Open Scope N_scope.

Check c19_at_most_once : forall (c : Committee), NoDup (members c) -> forall (vs : list Vote), 0 < total_stake c ->
  (length (filter produces (feed c (mkQM 0 [] []) vs)) <= 1)%nat.
Print Assumptions c19_at_most_once.
Check qc_verify_exact : forall (c : Committee) q, qc_verify c q = ROk tt <-> qc_valid c q.
Print Assumptions qc_verify_exact.
