(* Pinned statement: the regenerated skeleton of `block_verify` equals the model function (see Tie_block_verify.v, GenAgg.v). *)
From Coq Require Import List NArith.
From HS Require Import GTac Node SkelPrims SkelMonad GenAgg Tie_block_verify.
Open Scope N_scope.
Check tie_block_verify : forall c b, snd (gen_block_verify c b tt) = block_verify c b.
Print Assumptions tie_block_verify.
