(* C15 — no network input can crash a node or take one of its services down. Pinned statements only.
   Hypothesis stated by c15_core_no_panic's model: rounds are unbounded N (a verified certificate of round 2^64-1
   would overflow `round + 1` in a debug build; honest nodes vote only in their current round, so no such
   certificate exists within the fault bound). *)
From Coq Require Import List NArith.
From HS Require Import GTac Node Proto Link NodeInv NodeLog NodePanic Global GlobalPanic.
From HS Require Import Codec Base64Defs Base64 WireDefs Wire ReceiveDefs Receive BatchMakerDefs BatchMaker.
Import ListNotations.
Open Scope N_scope.

(* the consensus core: in every reachable global state no admissible event makes an honest node's step panic
   (the four panic sites of the core model are dead by invariants) *)
Check c15_core_no_panic : forall (c : Committee) (honest : N -> bool),
  NoDup (members c) -> 3 * byz_stake (stk c) (members c) honest < total (stk c) (members c) ->
  forall (g : gstate) (a : N) (hint : list N) (e : Event) (k : N),
  greach c honest g -> honest a = true -> msg_adm honest (gw g) e -> snd (step c a src_dq hint e (g a)) <> RPanic k.
Print Assumptions c15_core_no_panic.
(* decoding is total: every byte string gives a value or an error, for messages, stored blocks and key strings *)
Check decode_cmsg_exact_no_panic : forall l, decode_cmsg true l <> Panic.
Print Assumptions decode_cmsg_exact_no_panic.
Check decode_mmsg_exact_no_panic : forall l, decode_mmsg true l <> Panic.
Print Assumptions decode_mmsg_exact_no_panic.
Check decode_block_exact_no_panic : forall l, decode_block true l <> Panic.
Print Assumptions decode_block_exact_no_panic.
Check key_exact_no_panic : forall len s, decode_key_n len true s <> KPanic.
Print Assumptions key_exact_no_panic.
(* the handlers of the three ports and the consensus helper, whatever the frame and whatever the shared store holds *)
Check consensus_dispatch_total : forall frame, g_pk_decode_exact = true -> consensus_dispatch frame <> RPanicked.
Print Assumptions consensus_dispatch_total.
Check mempool_dispatch_total : forall frame, g_pk_decode_exact = true -> mempool_dispatch frame <> RPanicked.
Print Assumptions mempool_dispatch_total.
Check tx_dispatch_total : forall frame, tx_dispatch frame <> RPanicked.
Print Assumptions tx_dispatch_total.
Check helper_answer_total : forall known stored,
  g_pk_decode_exact = true -> g_helper_deser_guarded = true -> helper_answer known stored <> HPanic.
Print Assumptions helper_answer_total.
Check c11_no_panic : forall bench bs es s, bench = false \/ g_seal_index_guarded = true -> snd (brun_ev bench bs s es) = false.
Print Assumptions c11_no_panic.
(* the hypotheses of the four theorems above hold for the CURRENT source: the regenerated constants *)
Check (eq_refl : g_pk_decode_exact = true).
Check (eq_refl : g_sk_decode_exact = true).
Check (eq_refl : g_helper_deser_guarded = true).
Check (eq_refl : g_seal_index_guarded = true).
(* the pinned tree's behaviour, for the record *)
Check pinned_short_key_panics : decode_cmsg false short_key_sync_request = Panic.
Print Assumptions pinned_short_key_panics.
