(* Pinned statement: the regenerated skeleton of `qcmaker_append` equals the model function (see Tie_qcmaker_append.v, GenAgg.v). *)
From Coq Require Import List NArith.
From HS Require Import GTac Node SkelPrims SkelMonad GenAgg Tie_qcmaker_append.
Open Scope N_scope.
Check tie_qcmaker_append : forall c v m, gen_qcmaker_append c v m = qm_append c m v.
Print Assumptions tie_qcmaker_append.
