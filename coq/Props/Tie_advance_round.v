(* Pinned statement: the regenerated skeleton of `advance_round` equals the model function (see Tie_advance_round.v, GenCore.v). *)
From Coq Require Import List NArith.
From HS Require Import GTac Node SkelPrims GenCore Tie_advance_round.
Open Scope N_scope.
Check tie_advance_round : forall c me dq hint r s, gen_advance_round c me dq hint r s = advance_round r s.
Print Assumptions tie_advance_round.
