(* C17 — quorum arithmetic. Pinned statements only: `Check name : statement` fails if a statement is weakened. *)
From Coq Require Import List NArith.
From HS Require Import Guards QuorumDefs Quorum.
Open Scope N_scope.

Check c17_arith : forall n, 1 <= n -> n < 2147483648 ->
  let q := quorum_u32 n in let f := faults n in
  3 * q > 2 * n /\ q = n - f /\ 2 * q - n > f /\ n - f >= q /\ q <= n.
Print Assumptions c17_arith.
Check c17_overlap : forall (stake : N -> N) (members l1 l2 : list N),
  let n := wsum stake members in
  1 <= n -> n < 2147483648 -> NoDup l1 -> NoDup l2 -> incl l1 members -> incl l2 members ->
  quorum_u32 n <= wsum stake l1 -> quorum_u32 n <= wsum stake l2 ->
  wsum stake (filter (fun x => existsb (N.eqb x) l2) l1) > faults n.
Print Assumptions c17_overlap.
Check c17_honest_quorum : forall (stake : N -> N) (members faulty : list N),
  let n := wsum stake members in
  1 <= n -> n < 2147483648 -> wsum stake (filter (fun x => existsb (N.eqb x) faulty) members) <= faults n ->
  quorum_u32 n <= wsum stake (filter (fun x => negb (existsb (N.eqb x) faulty)) members).
Print Assumptions c17_honest_quorum.
Check c17_crates_agree : forall n, n < 2147483648 -> quorum_u32 n = quorum_mempool_u32 n.
Print Assumptions c17_crates_agree.
Check quorum_model_agrees : forall n, n < 2147483648 -> g_quorum_consensus n = quorum_u32 n.
Print Assumptions quorum_model_agrees.
Check c17_unknown_zero : forall auths a, ~ In a (map fst auths) -> stake_of auths a = 0.
Print Assumptions c17_unknown_zero.
Check c17_zero_stake_useless : forall stake l z, stake z = 0 -> wsum stake (z :: l) = wsum stake l.
Print Assumptions c17_zero_stake_useless.
Check c17_wrap_witness : quorum_u32 2147483648 = 1.
Print Assumptions c17_wrap_witness.
(* the statement is about the definitions regenerated from the source *)
Check (eq_refl : quorum_u32 = g_quorum_consensus_u32).
Check (eq_refl : quorum_mempool_u32 = g_quorum_mempool_u32).
