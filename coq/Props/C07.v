(* C07 — catch-up (claimed as PARTIAL). Pinned statements only.
   Proved: the synchronizer invariant in every reachable state of every node, on every input (a-c); the release (d);
   request emission (e), also over whole runs; catch-up of the synchronizer/store layer over a gap of any length;
   the helper's answer is the stored block (Receive.v). NOT proved (environment): that peers are reachable and
   answer, hence that the node does recover; the retry timer is not in the model (harness: catchup retry). *)
From Coq Require Import List NArith.
From HS Require Import GTac Node SyncDefs NodeSync GlobalSync CatchUp.
Import ListNotations.
Open Scope N_scope.

(* (a)-(c) *)
Check c07_sync_invariant : forall (c : Committee) (dq : DqCfg) (g : N -> State) (t : N -> list Out) (a : N),
  greachS c dq g t -> SyncInv (g a).
Print Assumptions c07_sync_invariant.
Check si_missing : forall s, SyncInv s -> forall p, In p (s_sync_pending s) -> store_get (parent p) (s_store s) = None.
Check si_nongen : forall s, SyncInv s -> forall p, In p (s_sync_pending s) -> qc_eqb (b_qc p) qc_genesis = false.
Check si_once : forall s, SyncInv s -> NoDup (map block_digest (s_sync_pending s)).
Check si_req_src : forall s, SyncInv s -> forall d, In d (s_sync_requests s) -> exists p, In p (s_sync_pending s) /\ parent p = d.
Check si_req_nodup : forall s, SyncInv s -> NoDup (s_sync_requests s).
Check si_req_all : forall s, SyncInv s -> forall p, In p (s_sync_pending s) -> In (parent p) (s_sync_requests s).
Check si_keyed : forall s, SyncInv s -> forall d b, In (d, b) (s_store s) -> d = block_digest b.
Check si_closed : forall s, SyncInv s -> forall d b, In (d, b) (s_store s) -> resolv s b.
Check c07_requests_exact : forall (c : Committee) (dq : DqCfg) g t a,
  greachS c dq g t ->
  NoDup (s_sync_requests (g a)) /\
  (forall d, In d (s_sync_requests (g a)) <-> exists p, In p (s_sync_pending (g a)) /\ parent p = d) /\
  (forall d, In d (s_sync_requests (g a)) -> store_get d (s_store (g a)) = None).
Print Assumptions c07_requests_exact.
Check sync_step_inv : forall (c : Committee) (me : N) (dq : DqCfg) hint e s,
  SyncInv s -> SyncInv (fstate (step c me dq hint e s)).
Print Assumptions sync_step_inv.

(* (d) *)
Check c07_release : forall (c : Committee) (dq : DqCfg) g t a b,
  greachS c dq g t ->
  let s := g a in
  let s' := fstate (store_block b s) in
  let d := block_digest b in
  s_loopback s' = s_loopback s ++ woken d (s_sync_pending s) /\
  s_sync_pending s' = kept d (s_sync_pending s) /\
  s_sync_requests s' = drop_req d (s_sync_requests s) /\
  s_store s' = (d, b) :: s_store s /\
  fouts (store_block b s) = [] /\ fres (store_block b s) = ROk tt /\
  (forall p, In p (s_sync_pending s) ->
     (parent p = d -> In p (s_loopback s') /\ ~ In p (s_sync_pending s')) /\
     (parent p <> d -> In p (s_sync_pending s'))) /\
  (forall p, In p (s_sync_pending s') -> In p (s_sync_pending s) /\ parent p <> d) /\
  (forall x, In x (s_sync_requests s') <-> In x (s_sync_requests s) /\ x <> d) /\
  ~ In d (s_sync_requests s').
Print Assumptions c07_release.
Check c07_step_shape : forall (c : Committee) (dq : DqCfg) g t a hint e,
  greachS c dq g t ->
  match step c a dq hint e (g a) with
  | (s', o, _) =>
      (sync_eq (g a) s' /\ no_req o) \/
      exists b, ev_subject e (g a) = Some b /\
        (parks b (g a) s' o \/
         (stores b (g a) s' o /\
          exists l0 l, s_loopback s' = ev_base e (g a) ++ l0 ++ woken (block_digest b) (s_sync_pending (g a)) ++ l))
  end.
Print Assumptions c07_step_shape.

(* (e) *)
Check c07_request_once : forall (c : Committee) (dq : DqCfg) g t a hint e,
  greachS c dq g t ->
  let s := g a in
  match step c a dq hint e s with
  | (s', o, _) =>
      (forall to d, In (to, d) (sync_reqs o) ->
         exists b, ev_subject e s = Some b /\ to = b_author b /\ d = parent b /\
                   ~ In b (s_sync_pending s) /\ In b (s_sync_pending s') /\
                   store_get d (s_store s') = None /\
                   ~ In d (s_sync_requests s) /\ In d (s_sync_requests s')) /\
      (forall b, In b (s_sync_pending s') -> ~ In b (s_sync_pending s) ->
         ev_subject e s = Some b /\ store_get (parent b) (s_store s') = None /\
         (In (parent b) (s_sync_requests s) \/ sync_reqs o = [(b_author b, parent b)])) /\
      (length (sync_reqs o) <= 1)%nat /\
      (forall d, In d (s_sync_requests s') -> In d (s_sync_requests s) \/ In d (map snd (sync_reqs o)))
  end.
Print Assumptions c07_request_once.
Check c07_request_once_ever : forall (c : Committee) (dq : DqCfg) g t a,
  greachS c dq g t ->
  NoDup (map snd (sync_reqs (t a))) /\
  forall d, In d (map snd (sync_reqs (t a))) ->
    In d (s_sync_requests (g a)) \/ store_get d (s_store (g a)) <> None.
Print Assumptions c07_request_once_ever.

(* catch-up of the synchronizer/store layer, gap of any length *)
Check c07_catch_up_sync_layer : forall b1 rest s,
  linked (b1 :: rest) ->
  SyncInv s -> resolv s b1 ->
  store_get (block_digest b1) (s_store s) = None ->
  s_sync_pending s = [] -> s_sync_requests s = [] -> s_loopback s = [] ->
  let x := catch_up b1 rest s in
  fres x = ROk tt /\
  fouts x = map req_of (rev rest) /\
  length (sync_reqs (fouts x)) = length rest /\
  s_store (fstate x) = rev (map entry (b1 :: rest)) ++ s_store s /\
  (forall b, In b (b1 :: rest) -> store_get (block_digest b) (s_store (fstate x)) = Some b) /\
  s_sync_pending (fstate x) = [] /\ s_sync_requests (fstate x) = [] /\ s_loopback (fstate x) = [] /\
  SyncInv (fstate x).
Print Assumptions c07_catch_up_sync_layer.
Check catch_up_k3 :
  let x := catch_up B3 [B5; B6] s_have_B1 in
  fres x = ROk tt /\
  fouts x = [OSyncReq (b_author B6) (block_digest B5); OSyncReq (b_author B5) (block_digest B3)] /\
  map fst (s_store (fstate x)) = [block_digest B6; block_digest B5; block_digest B3; block_digest B1] /\
  s_sync_pending (fstate x) = [] /\ s_sync_requests (fstate x) = [] /\ s_loopback (fstate x) = [] /\
  sync_invb (fstate x) = true.

(* the reach relation has no side conditions: any node, any hint, any event *)
Check gS_step : forall (c : Committee) (dq : DqCfg) g t a hint e, greachS c dq g t ->
  greachS c dq (gupdS g a (fstate (step c a dq hint e (g a))))
               (gupdS t a (t a ++ fouts (step c a dq hint e (g a)))).
Check gS_init : forall (c : Committee) (dq : DqCfg), greachS c dq (fun _ => init c) (fun _ => []).

(* (i) the helper's reply is the stored block (byte level, Receive.v); imported last: WireDefs reuses constructor names *)
From HS Require Import WireDefs Wire Receive.
Check helper_answers_stored_block : forall (exact : bool) (b : WBlock),
  wf_block b -> decode_block exact (w_enc_block b) = Ok b.
Print Assumptions helper_answers_stored_block.
