(* Pinned statement: the regenerated acknowledgement loop of the quorum waiter equals the model function (see Tie_qw_loop.v, GenQW.v). *)
From Coq Require Import List NArith.
From HS Require Import Guards QuorumWaiterDefs GenQW Tie_qw_loop.
Open Scope N_scope.
Check tie_qw_loop : forall stake quorum own acks, gen_qw stake quorum own acks = qw stake quorum own acks.
Print Assumptions tie_qw_loop.
From HS Require Import QuorumWaiter.
Import ListNotations.
Check c12_gen_first_quorum : forall (stake : N -> N) (quorum own : N) (acks : list N) (k : nat),
  gen_qw stake quorum own acks = Some k <->
  (k < length acks)%nat /\ quorum <= own + wsum stake (firstn (S k) acks) /\
  forall j, (j < k)%nat -> own + wsum stake (firstn (S j) acks) < quorum.
Print Assumptions c12_gen_first_quorum.
