(* Pinned statement: the regenerated acknowledgement loop of the quorum waiter equals the model function (see Tie_qw_loop.v, GenQW.v). *)
From Coq Require Import List NArith.
From HS Require Import Guards QuorumWaiterDefs GenQW Tie_qw_loop.
Open Scope N_scope.
Check tie_qw_loop : forall stake quorum own acks, gen_qw stake quorum own acks = qw stake quorum own acks.
Print Assumptions tie_qw_loop.
