(* C02 — each node delivers committed blocks exactly once, in chain order. Pinned statements only. *)
From Coq Require Import List NArith Sorted.
From HS Require Import GTac Node Corr Monitors Proto Link NodeInv NodeLog Global GlobalLog Witness MonSound.
Import ListNotations.
Open Scope N_scope.

(* every reachable global state (honest nodes running the executable node model of the CURRENT source on
   admissible events in any order, Byzantine members unconstrained): the log of digests an honest node handed
   to its commit channel (newest first) is a parent-linked chain of block terms ending at genesis *)
Check c02_delivery_chain : forall (c : Committee) (honest : N -> bool),
  NoDup (members c) -> 3 * byz_stake (stk c) (members c) honest < total (stk c) (members c) ->
  forall (g : gstate) (a : N), greach c honest g -> honest a = true -> chain (s_log (g a)).
Print Assumptions c02_delivery_chain.
(* the executable monitor evaluated on implementation traces is complete for the proved predicate *)
Check chainb_complete : forall l, chain l -> chainb l = true.
Print Assumptions chainb_complete.
(* commit() as on the pinned tree (before the repair) violates the statement: three witnesses *)
Check c02_refuted_order : ~ chain (log_of pinned_dq 3 [B1; B3; B5; B6; B7]).
Print Assumptions c02_refuted_order.
Check c02_refuted_genesis : ~ chain (log_of pinned_dq 3 [G3; G4; G5]).
Print Assumptions c02_refuted_genesis.
Check c02_refuted_duplicate : ~ chain (log_of pinned_dq 3 [D1; D2; D3; D6; D7; D8]).
Print Assumptions c02_refuted_duplicate.
(* non-vacuity / the same inputs on the model of the current source *)
Check c02_fixed_order : chainb (log_of src_dq 3 [B1; B3; B5; B6; B7]) = true.
Print Assumptions c02_fixed_order.
Check c02_fixed_genesis : chainb (log_of src_dq 3 [G3; G4; G5]) = true.
Print Assumptions c02_fixed_genesis.
Check c02_fixed_duplicate : chainb (log_of src_dq 3 [D1; D2; D3; D6; D7; D8]) = true.
Print Assumptions c02_fixed_duplicate.
(* monitor soundness: along every run of the node model (every deque discipline) the digests handed to the commit
   channel, in emission order, ARE the ghost delivery log; so for a model run whose log is a chain the monitor that
   the check evaluates on real traces returns true *)
Check run_log : forall (c : Committee) (me : N) (dq : DqCfg) evs s,
  match run c me dq evs s with (s', tr) => s_log s' = rev (cdig (flat_map fst tr)) ++ s_log s end.
Print Assumptions run_log.
Check mon_c02_complete : forall (c : Committee) (me : N) (dq : DqCfg) evs,
  match run c me dq evs (init c) with (s', tr) => chain (s_log s') -> mon_c02_outs (flat_map fst tr) = true end.
Print Assumptions mon_c02_complete.
Check mon_c02_is : forall obs, mon_c02 obs = mon_c02_outs (outs_of obs).
Print Assumptions mon_c02_is.
