(* C20 — message identity: wire round trips for every message type (and the decoding half of C15: no decoder
   panics once key decoding checks the exact length), digest pre-image injectivity and kind separation.
   Pinned statements only: `Check name : statement` fails if a statement is weakened. *)
From Coq Require Import List NArith.
From HS Require Import Guards Codec Base64Defs Base64 WireDefs Wire.
Import ListNotations.
Open Scope N_scope.

(* well-formedness = what the Rust types guarantee (array lengths, u64 ranges, usize lengths) *)
Check (eq_refl : wf_key = fun k => length k = 32%nat /\ Forall (fun b => b < 256) k).
Check (eq_refl : wf_dig = fun d => length d = 32%nat).
Check (eq_refl : wf_sig = fun s => length s = 64%nat).
Check (eq_refl : wf_round = fun r => r < 256 ^ 8).
Check (eq_refl : wf_len = fun s => N.of_nat (length s) < 256 ^ 8).
Check (eq_refl : wf_qc = fun q => wf_dig (w_hash q) /\ wf_round (w_round q) /\
  Forall (fun e => wf_key (fst e) /\ wf_sig (snd e)) (w_votes q) /\ N.of_nat (length (w_votes q)) < 256 ^ 8).
Check (eq_refl : wf_tc = fun t => wf_round (wt_round t) /\
  Forall (fun e => wf_key (fst (fst e)) /\ wf_sig (snd (fst e)) /\ wf_round (snd e)) (wt_votes t) /\
  N.of_nat (length (wt_votes t)) < 256 ^ 8).
Check (eq_refl : wf_vote = fun v => wf_dig (wv_hash v) /\ wf_round (wv_round v) /\ wf_key (wv_author v) /\ wf_sig (wv_sig v)).
Check (eq_refl : wf_timeout = fun t =>
  wf_qc (wto_high_qc t) /\ wf_round (wto_round t) /\ wf_key (wto_author t) /\ wf_sig (wto_sig t)).
Check (eq_refl : wf_block = fun b =>
  wf_qc (wb_qc b) /\ match wb_tc b with Some t => wf_tc t | None => True end /\ wf_key (wb_author b) /\
  wf_round (wb_round b) /\ (Forall wf_dig (wb_payload b) /\ N.of_nat (length (wb_payload b)) < 256 ^ 8) /\ wf_sig (wb_sig b)).
Check (eq_refl : wf_cmsg = fun m => match m with
  | CPropose b => wf_block b | CVote v => wf_vote v | CTimeout t => wf_timeout t | CTC t => wf_tc t
  | CSyncRequest d k => wf_dig d /\ wf_key k end).
Check (eq_refl : wf_mmsg = fun m => match m with
  | MBatch txs => Forall wf_len txs /\ N.of_nat (length txs) < 256 ^ 8
  | MBatchRequest ds k => (Forall wf_dig ds /\ N.of_nat (length ds) < 256 ^ 8) /\ wf_key k end).
Check wf_block_example :
  let k := repeat 1 32 in let d := repeat 2 32 in let s := repeat 3 64 in
  let q := mkWQC d 5 [(k, s)] in
  wf_cmsg (CPropose (mkWBlock q (Some (mkWTC 6 [(k, s, 5)])) k 7 [d; d] s)) /\ wf_mmsg (MBatch [[1; 2]; []]) /\
  wf_mmsg (MBatchRequest [d] k) /\ wf_cmsg (CTimeout (mkWTimeout q 6 k s)).

(* round trips, parser form: decode (encode m ++ rest) = Ok (m, rest), both key-length disciplines *)
Check drt_key : forall (exact : bool) k rest, wf_key k -> d_key exact (w_enc_key k ++ rest) = Ok (k, rest).
Print Assumptions drt_key.
Check drt_qc : forall (exact : bool) q rest, wf_qc q -> d_qc exact (w_enc_qc q ++ rest) = Ok (q, rest).
Print Assumptions drt_qc.
Check drt_tc : forall (exact : bool) t rest, wf_tc t -> d_tc exact (w_enc_tc t ++ rest) = Ok (t, rest).
Print Assumptions drt_tc.
Check drt_vote : forall (exact : bool) v rest, wf_vote v -> d_vote exact (w_enc_vote v ++ rest) = Ok (v, rest).
Print Assumptions drt_vote.
Check drt_timeout : forall (exact : bool) t rest, wf_timeout t -> d_timeout exact (w_enc_timeout t ++ rest) = Ok (t, rest).
Print Assumptions drt_timeout.
Check drt_block : forall (exact : bool) b rest, wf_block b -> d_block exact (w_enc_block b ++ rest) = Ok (b, rest).
Print Assumptions drt_block.
Check drt_cmsg : forall (exact : bool) m rest, wf_cmsg m -> d_cmsg exact (w_enc_cmsg m ++ rest) = Ok (m, rest).
Print Assumptions drt_cmsg.
Check drt_mmsg : forall (exact : bool) m rest, wf_mmsg m -> d_mmsg exact (w_enc_mmsg m ++ rest) = Ok (m, rest).
Print Assumptions drt_mmsg.
(* `bincode::deserialize (bincode::serialize m)`; trailing bytes are ignored as in bincode's default options *)
Check decode_cmsg_rt : forall (exact : bool) (m : WCMsg) (rest : list N),
  wf_cmsg m -> decode_cmsg exact (w_enc_cmsg m ++ rest) = Ok m.
Print Assumptions decode_cmsg_rt.
Check decode_mmsg_rt : forall (exact : bool) (m : WMMsg) (rest : list N),
  wf_mmsg m -> decode_mmsg exact (w_enc_mmsg m ++ rest) = Ok m.
Print Assumptions decode_mmsg_rt.
Check decode_block_rt : forall (exact : bool) (b : WBlock) (rest : list N),
  wf_block b -> decode_block exact (w_enc_block b ++ rest) = Ok b.
Print Assumptions decode_block_rt.
Check enc_cmsg_inj : forall m m' : WCMsg, wf_cmsg m -> wf_cmsg m' -> w_enc_cmsg m = w_enc_cmsg m' -> m = m'.
Print Assumptions enc_cmsg_inj.
Check enc_mmsg_inj : forall m m' : WMMsg, wf_mmsg m -> wf_mmsg m' -> w_enc_mmsg m = w_enc_mmsg m' -> m = m'.
Print Assumptions enc_mmsg_inj.
(* the encoders are those of Codec.v at the real base64 *)
Check enc_qc_codec : forall q : WQC,
  Forall (fun e => length (fst e) = 32%nat) (w_votes q) -> w_enc_qc q = enc_qc b64_encode q.
Check enc_vote_codec : forall v : WVote, length (wv_author v) = 32%nat -> w_enc_vote v = enc_vote b64_encode v.

(* C15, decoding half: for EVERY byte string the decoders return a value or an error once key decoding checks the
   exact length; on the pinned tree (slice) a 1-byte key string panics them *)
Check decode_cmsg_exact_no_panic : forall l : list N, decode_cmsg true l <> Panic.
Print Assumptions decode_cmsg_exact_no_panic.
Check decode_mmsg_exact_no_panic : forall l : list N, decode_mmsg true l <> Panic.
Print Assumptions decode_mmsg_exact_no_panic.
Check decode_block_exact_no_panic : forall l : list N, decode_block true l <> Panic.
Print Assumptions decode_block_exact_no_panic.
Check decode_slice_panic_witness :
  decode_cmsg false (le_bytes 4 4 ++ repeat 0 32 ++ enc_str [65; 65; 61; 61]) = Panic /\
  decode_mmsg false (le_bytes 4 1 ++ le_bytes 8 0 ++ enc_str [65; 65; 61; 61]) = Panic /\
  decode_cmsg true (le_bytes 4 4 ++ repeat 0 32 ++ enc_str [65; 65; 61; 61]) = Err /\
  decode_mmsg true (le_bytes 4 1 ++ le_bytes 8 0 ++ enc_str [65; 65; 61; 61]) = Err.
Print Assumptions decode_slice_panic_witness.
(* the fuel that bounds list decoding never changes a result *)
Check @d_rep_fuel : forall (A : Type) (p : dparser A), consuming p ->
  forall (f1 f2 : nat) (n : N) (l : list N), (length l <= f1)%nat -> (length l <= f2)%nat -> d_rep p f1 n l = d_rep p f2 n l.
Print Assumptions d_rep_fuel.
Check list_fuel_adequate : forall exact : bool,
  consuming (d_qc_vote exact) /\ consuming (d_tc_vote exact) /\ consuming d_digest /\ consuming d_str.
Print Assumptions list_fuel_adequate.

(* digest pre-images (messages.rs `impl Hash`) *)
Check (eq_refl : pre_block = fun author round payload parent => author ++ le_bytes 8 round ++ concat payload ++ parent).
Check (eq_refl : pre_vote = fun hash round => hash ++ le_bytes 8 round).
Check (eq_refl : pre_timeout = fun round hqr => le_bytes 8 round ++ le_bytes 8 hqr).
Check pre_block_inj : forall a r p q a' r' p' q',
  length a = 32%nat -> length a' = 32%nat -> r < 256 ^ 8 -> r' < 256 ^ 8 ->
  Forall (fun d => length d = 32%nat) p -> Forall (fun d => length d = 32%nat) p' ->
  length q = 32%nat -> length q' = 32%nat ->
  pre_block a r p q = pre_block a' r' p' q' -> a = a' /\ r = r' /\ p = p' /\ q = q'.
Print Assumptions pre_block_inj.
Check pre_vote_inj : forall h r h' r',
  length h = 32%nat -> length h' = 32%nat -> r < 256 ^ 8 -> r' < 256 ^ 8 -> pre_vote h r = pre_vote h' r' -> h = h' /\ r = r'.
Print Assumptions pre_vote_inj.
Check pre_timeout_inj : forall r q r' q',
  r < 256 ^ 8 -> r' < 256 ^ 8 -> q < 256 ^ 8 -> q' < 256 ^ 8 -> pre_timeout r q = pre_timeout r' q' -> r = r' /\ q = q'.
Print Assumptions pre_timeout_inj.
Check pre_lengths : forall a r p q h hq,
  length a = 32%nat -> Forall (fun d => length d = 32%nat) p -> length q = 32%nat -> length h = 32%nat ->
  length (pre_block a r p q) = (72 + 32 * length p)%nat /\ length (pre_vote h r) = 40%nat /\ length (pre_timeout r hq) = 16%nat.
Print Assumptions pre_lengths.
Check pre_kinds_disjoint : forall a r p q h r' r1 r2,
  length a = 32%nat -> Forall (fun d => length d = 32%nat) p -> length q = 32%nat -> length h = 32%nat ->
  pre_block a r p q <> pre_vote h r' /\ pre_block a r p q <> pre_timeout r1 r2 /\ pre_vote h r' <> pre_timeout r1 r2.
Print Assumptions pre_kinds_disjoint.
(* at record level *)
Check block_pre_inj : forall b b' : WBlock, wf_block b -> wf_block b' -> block_pre b = block_pre b' ->
  wb_author b = wb_author b' /\ wb_round b = wb_round b' /\ wb_payload b = wb_payload b' /\ w_hash (wb_qc b) = w_hash (wb_qc b').
Print Assumptions block_pre_inj.
Check vote_pre_inj : forall v v' : WVote, wf_vote v -> wf_vote v' -> vote_pre v = vote_pre v' ->
  wv_hash v = wv_hash v' /\ wv_round v = wv_round v'.
Print Assumptions vote_pre_inj.
Check qc_pre_inj : forall q q' : WQC, wf_qc q -> wf_qc q' -> qc_pre q = qc_pre q' -> w_hash q = w_hash q' /\ w_round q = w_round q'.
Print Assumptions qc_pre_inj.
Check timeout_pre_inj : forall t t' : WTimeout, wf_timeout t -> wf_timeout t' -> timeout_pre t = timeout_pre t' ->
  wto_round t = wto_round t' /\ w_round (wto_high_qc t) = w_round (wto_high_qc t').
Print Assumptions timeout_pre_inj.
Check record_pre_kinds_disjoint : forall (b : WBlock) (v : WVote) (q : WQC) (t : WTimeout),
  wf_block b -> wf_vote v -> wf_qc q ->
  block_pre b <> vote_pre v /\ block_pre b <> qc_pre q /\ block_pre b <> timeout_pre t /\
  vote_pre v <> timeout_pre t /\ qc_pre q <> timeout_pre t.
Print Assumptions record_pre_kinds_disjoint.
Check (eq_refl : block_pre = fun b => pre_block (wb_author b) (wb_round b) (wb_payload b) (w_hash (wb_qc b))).
Check (eq_refl : vote_pre = fun v => pre_vote (wv_hash v) (wv_round v)).
Check (eq_refl : qc_pre = fun q => pre_vote (w_hash q) (w_round q)).
Check (eq_refl : timeout_pre = fun t => pre_timeout (wto_round t) (w_round (wto_high_qc t))).
(* digests (hence verification results) survive the wire and the store *)
Check wire_preserves_pres : forall (exact : bool) (m : WCMsg) (rest : list N), wf_cmsg m ->
  match decode_cmsg exact (w_enc_cmsg m ++ rest) with Ok m' => cmsg_pres m' = cmsg_pres m | _ => False end.
Print Assumptions wire_preserves_pres.
Check @wire_preserves : forall (X : Type) (f : WCMsg -> X) (exact : bool) (m : WCMsg) (rest : list N), wf_cmsg m ->
  match decode_cmsg exact (w_enc_cmsg m ++ rest) with Ok m' => f m' = f m | _ => False end.
Print Assumptions wire_preserves.
Check store_preserves_block_pre : forall (exact : bool) (b : WBlock), wf_block b ->
  match decode_block exact (w_enc_block b) with Ok b' => block_pre b' = block_pre b | _ => False end.
Print Assumptions store_preserves_block_pre.

(* the pre-image layouts are the ones REGENERATED from the `hasher.update(..)` sequences of messages.rs (Guards.v) *)
Check (eq_refl : pre_block = fun author round payload parent => g_pre_block author (le_bytes 8 round) (concat payload) parent).
Check (eq_refl : pre_vote = fun hash round => g_pre_vote hash (le_bytes 8 round)).
Check (eq_refl : pre_vote = fun hash round => g_pre_qc hash (le_bytes 8 round)).
Check (eq_refl : pre_timeout = fun round hqr => g_pre_timeout (le_bytes 8 round) (le_bytes 8 hqr)).
Check (eq_refl : pre_timeout = fun round hqr => g_pre_tc_entry (le_bytes 8 round) (le_bytes 8 hqr)).
