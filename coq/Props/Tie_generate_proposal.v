(* Pinned statement: the regenerated skeleton of `generate_proposal` equals the model function (see Tie_generate_proposal.v, GenCore.v). *)
From Coq Require Import List NArith.
From HS Require Import GTac Node SkelPrims GenCore Tie_generate_proposal.
Open Scope N_scope.
Check tie_generate_proposal : forall c me dq hint tc s, gen_generate_proposal c me dq hint tc s = generate_proposal me hint tc s.
Print Assumptions tie_generate_proposal.
