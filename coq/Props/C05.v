(* C05 — commit only on a certified consecutive 2-chain. Pinned statements only. *)
From Coq Require Import List NArith.
From HS Require Import GTac Node Proto Link NodeInv Global GlobalProps.
Import ListNotations.
Open Scope N_scope.

Check c05_commit_rule : forall (c : Committee) (honest : N -> bool),
  NoDup (members c) -> 3 * byz_stake (stk c) (members c) honest < total (stk c) (members c) ->
  forall (g : gstate) (a : N) (d : digest),
  greach c honest g -> honest a = true -> In d (s_log (g a)) ->
  exists d0 d1, ext d d0 /\ is_blk d1 /\ dparent d1 = d0 /\
                certified (stk c) (members c) honest (gw g) d0 (dround d0) /\
                certified (stk c) (members c) honest (gw g) d1 (dround d0 + 1).
Print Assumptions c05_commit_rule.
(* the 2-chain test is the regenerated expression *)
Check (eq_refl : g_two_chain = fun b0_round b1_round _ => (b0_round + 1) =? b1_round).
