(* Pinned statement: the regenerated skeleton of `make_vote` equals the model function (see Tie_make_vote.v, GenCore.v). *)
From Coq Require Import List NArith.
From HS Require Import GTac Node SkelPrims GenCore Tie_make_vote.
Open Scope N_scope.
Check tie_make_vote : forall c me dq hint b s, gen_make_vote c me dq hint b s = make_vote me b s.
Print Assumptions tie_make_vote.
