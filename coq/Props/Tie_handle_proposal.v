(* Pinned statement: the regenerated skeleton of `handle_proposal` equals the model function (see Tie_handle_proposal.v, GenCore.v). *)
From Coq Require Import List NArith.
From HS Require Import GTac Node SkelPrims GenCore Tie_handle_proposal.
Open Scope N_scope.
Check tie_handle_proposal : forall c me dq hint b s, gen_handle_proposal c me dq hint b s = handle_proposal c me dq hint b s.
Print Assumptions tie_handle_proposal.
