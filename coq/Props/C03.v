(* C03 — voting safety. Pinned statements only. *)
From Coq Require Import List NArith.
From HS Require Import GTac Node Proto Link NodeInv Global GlobalProps NodeWireVotes.
Import ListNotations.
Open Scope N_scope.

Check c03_voting_safety : forall (c : Committee) (honest : N -> bool),
  NoDup (members c) -> 3 * byz_stake (stk c) (members c) honest < total (stk c) (members c) ->
  forall (g : gstate) (a : N) (l1 : list hev) (d : digest) (qcr : N) (j : justif) (l2 : list hev),
  greach c honest g -> honest a = true -> s_hist (g a) = l1 ++ HVote d qcr j :: l2 ->
  is_blk d /\ (forall e, In e l2 -> evround e < dround d) /\ qcr < dround d /\
  match j with
  | JDirect => qcr + 1 = dround d
  | JTC tcr entries => validtc (stk c) (members c) honest (gw g) tcr entries /\ tcr + 1 = dround d /\
                       forall s hq, In (s, hq) entries -> hq <= qcr
  end.
Print Assumptions c03_voting_safety.
Check c03_one_vote_per_round : forall (c : Committee) (honest : N -> bool),
  NoDup (members c) -> 3 * byz_stake (stk c) (members c) honest < total (stk c) (members c) ->
  forall (g : gstate) (a : N) d1 q1 j1 d2 q2 j2,
  greach c honest g -> honest a = true ->
  In (HVote d1 q1 j1) (s_hist (g a)) -> In (HVote d2 q2 j2) (s_hist (g a)) -> dround d1 = dround d2 -> d1 = d2.
Print Assumptions c03_one_vote_per_round.


Check c03_wire_vote_recorded : forall (c : Committee) (me : N) (dq : DqCfg) (hint : list N) (e : Event) (s : State)
  (to : N) (v : Vote),
  In (OVote to v) (snd (fst (step c me dq hint e s))) ->
  (exists q j, In (HVote (v_hash v) q j) (s_hist (fst (fst (step c me dq hint e s))))) /\
  v_author v = me /\ v_round v = dround (v_hash v) /\
  v_sig v = SigOf me (CVote (v_hash v) (v_round v)).
Print Assumptions c03_wire_vote_recorded.
Check c03_wire_timeout_recorded : forall (c : Committee) (me : N) (dq : DqCfg) (hint : list N) (e : Event) (s : State)
  (t : Timeout),
  In (OTimeout t) (snd (fst (step c me dq hint e s))) ->
  In (HTimeout (t_round t) (qc_round (t_high_qc t))) (s_hist (fst (fst (step c me dq hint e s)))) /\
  t_author t = me /\
  t_sig t = SigOf me (CTimeout (t_round t) (qc_round (t_high_qc t))).
Print Assumptions c03_wire_timeout_recorded.
Check c03_hist_grows : forall (c : Committee) (me : N) (dq : DqCfg) (hint : list N) (e : Event) (s : State),
  exists pre, s_hist (fst (fst (step c me dq hint e s))) = pre ++ s_hist s.
Print Assumptions c03_hist_grows.
