(* C11 — batching keeps every transaction once, in order; batches are content-addressed. Pinned statements only.
   (The byte-level layout of `MempoolMessage::Batch` and its round trip are pinned in Props/C20.v; that the store
   key and the announced digest are the SHA-512/256 of exactly the serialized bytes is decided on the real
   Processor by the correspondence check: SHA-512 itself is not modelled.) *)
From Coq Require Import List NArith.
From HS Require Import Guards BatchMakerDefs BatchMaker.
Import ListNotations.
Open Scope N_scope.

Check c11_exactly_once_in_order : forall bs es s, BInv bs s ->
  let '(s', o) := brun bs s es in
  BInv bs s' /\ concat o ++ cur s' = cur s ++ txs_of es /\ (forall b, In b o -> b <> []).
Print Assumptions c11_exactly_once_in_order.
Check c11_threshold : forall bs es, let '(s', _) := brun bs (mkBM [] 0) es in cur s' = [] \/ size_of (cur s') < bs.
Print Assumptions c11_threshold.
Check c11_timer_seals_all : forall bs s, let '(s', o) := bstep bs s BTimer in cur s' = [] /\ concat o = cur s.
Print Assumptions c11_timer_seals_all.
(* every byte string, the empty transaction included, in every build configuration: no panic *)
Check c11_no_panic : forall bench bs es s, bench = false \/ g_seal_index_guarded = true -> snd (brun_ev bench bs s es) = false.
Print Assumptions c11_no_panic.
Check brun_ev_concat : forall bench bs es s, snd (brun_ev bench bs s es) = false ->
  concat (fst (brun_ev bench bs s es)) = snd (brun bs s es).
Print Assumptions brun_ev_concat.
(* the benchmark build of the CURRENT source is covered by c11_no_panic: the regenerated flag must be true *)
Check (eq_refl : g_seal_index_guarded = true).
