(* Pinned statement: the regenerated skeleton of `add_timeout` equals the model function (see Tie_add_timeout.v, GenAgg.v). *)
From Coq Require Import List NArith.
From HS Require Import GTac Node SkelPrims SkelMonad GenAgg Tie_add_timeout.
Open Scope N_scope.
Check tie_add_timeout : forall c t s, gen_add_timeout c t s = agg_add_timeout c t s.
Print Assumptions tie_add_timeout.
