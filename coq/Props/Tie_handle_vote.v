(* Pinned statement: the regenerated skeleton of `handle_vote` equals the model function (see Tie_handle_vote.v, GenCore.v). *)
From Coq Require Import List NArith.
From HS Require Import GTac Node SkelPrims GenCore Tie_handle_vote.
Open Scope N_scope.
Check tie_handle_vote : forall c me dq hint v s, gen_handle_vote c me dq hint v s = handle_vote c me hint v s.
Print Assumptions tie_handle_vote.
