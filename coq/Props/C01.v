(* C01 — agreement. Pinned statements only. *)
From Coq Require Import List NArith.
From HS Require Import GTac Node Proto Link NodeInv Global.
Import ListNotations.
Open Scope N_scope.

(* Layer P: for every stake function, member list, honest set with 3*byz < total, and every reachable world of
   the abstract protocol, any two committed blocks are on one chain *)
Check agreement : forall (stake : N -> N) (members : list N) (honest : N -> bool),
  3 * byz_stake stake members honest < total stake members ->
  forall w c1 c2, reach stake members honest w ->
  committed stake members honest w c1 -> committed stake members honest w c2 -> ext c1 c2 \/ ext c2 c1.
Print Assumptions agreement.
(* Layer R: honest nodes run the executable model of the current source on admissible events, in any order, any
   number of times (delay, reordering, duplication, retransmission, equivocation, withheld certificates); any two
   digests in the delivery logs of any two honest nodes are on one chain *)
Check agreement_impl : forall (c : Committee) (honest : N -> bool),
  NoDup (members c) -> 3 * byz_stake (stk c) (members c) honest < total (stk c) (members c) ->
  forall (g : gstate) (a b : N) (d1 d2 : digest),
  greach c honest g -> honest a = true -> honest b = true ->
  In d1 (s_log (g a)) -> In d2 (s_log (g b)) -> ext d1 d2 \/ ext d2 d1.
Print Assumptions agreement_impl.
Check quorum_intersect : forall (stake : N -> N) (members : list N) (honest : N -> bool),
  3 * byz_stake stake members honest < total stake members ->
  forall l1 l2, NoDup l1 -> NoDup l2 -> incl l1 members -> incl l2 members ->
  quorum stake members <= wsum stake l1 -> quorum stake members <= wsum stake l2 ->
  exists x, In x l1 /\ In x l2 /\ honest x = true.
Print Assumptions quorum_intersect.
(* the executable verifier implies the abstract predicate (Layer R -> Layer P keystone) *)
Check qc_verify_certified : forall (c : Committee) (honest : N -> bool), NoDup (members c) ->
  forall (w : world) (q : QC), qc_verify c q = ROk tt -> qc_adm honest w q ->
  certified (stk c) (members c) honest w (qc_hash q) (qc_round q).
Print Assumptions qc_verify_certified.
(* the protocol model's quorum is the regenerated formula *)
Check (fun c => eq_refl : Node.quorum c = g_quorum_consensus (total_stake c)).
