(* Tie lemma for `add_timeout`: the statement skeleton REGENERATED from the Rust source (GenAgg.v, tools/skelagg.py) computes, for every
   argument and every state, exactly what the hand-written model function does. *)
From Coq Require Import List NArith Bool Lia ZArith.
From Coq Require Import ZifyN ZifyBool.
From HS Require Import TieAggTac GenAgg Tie_tcmaker_append.
Import ListNotations.
Open Scope N_scope.

Lemma tie_add_timeout c t s : gen_add_timeout c t s = agg_add_timeout c t s.
Proof.
  unfold gen_add_timeout, agg_add_timeout, agg_entry_tc.
  unfold bind, get. rewrite tie_tcmaker_append. reflexivity.
Qed.
