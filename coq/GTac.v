From Coq Require Import List NArith.
Import ListNotations.
From HS Require Export Guards.
(* one push on the commit deque (front of the deque = head of the list) *)
Definition dq_push {A} (front : bool) (x : A) (dq : list A) : list A :=
  if front then x :: dq else dq ++ [x].
(* the deque discipline of commit() as a parameter of the node model: the theorems are about [src_dq], the
   values regenerated from the source; [pinned_dq] is commit() as on the pinned tree before the repair
   (ancestors and head pushed at the front, no early stop, drained from the back) and is used only by the
   refutation witnesses of Witness.v *)
Record DqCfg := mkDq { dq_stop : N -> N -> bool; dq_anc_front : bool; dq_head_front : bool; dq_pop_back : bool; dq_head_first : bool }.
Definition src_dq : DqCfg := mkDq g_commit_stop g_commit_anc_front g_commit_head_front g_commit_pop_back g_commit_head_first.
Definition pinned_dq : DqCfg := mkDq (fun _ _ => false) true true true false.
Ltac gunf0 := unfold g_safety_rule_1, g_safety_rule_2, g_can_extend, g_can_extend_hq, g_commit_skip,
  g_commit_walk, g_update_high_qc, g_vote_stale, g_timeout_stale, g_tc_stale, g_advance_guard,
  g_advance_next, g_two_chain, g_round_gate, g_quorum_consensus, g_quorum_mempool,
  g_commit_stop, g_commit_anc_front, g_commit_head_front, g_commit_pop_back, g_commit_head_first,
  g_block_stake, g_vote_stake, g_timeout_stake, g_qc_entry_stake, g_qc_weight, g_tc_entry_stake, g_tc_weight,
  g_qcm_threshold, g_qcm_reset, g_tcm_threshold, g_tcm_reset, g_leader_index, g_agg_keep_votes, g_agg_keep_timeouts in *.

Ltac gunf := gunf0; unfold dq_push in *.
Ltac gunfdq := unfold src_dq in *; cbn [dq_stop dq_anc_front dq_head_front dq_pop_back dq_head_first] in *; gunf.
