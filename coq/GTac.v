From HS Require Export Guards.
Ltac gunf := unfold g_safety_rule_1, g_safety_rule_2, g_can_extend, g_can_extend_hq, g_commit_skip,
  g_commit_walk, g_update_high_qc, g_vote_stale, g_timeout_stale, g_tc_stale, g_advance_guard,
  g_advance_next, g_two_chain, g_round_gate, g_quorum_consensus, g_quorum_mempool in *.
