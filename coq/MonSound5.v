(* Monitor soundness, part 5: the vote monitors.  [c09_votes] (the vote part of mon_c09) and [mon_c03] are true on every
   run of the node model, whatever the messages (no admissibility hypothesis: both rest on the well-formedness
   invariant of MonSound4.v, which holds for all inputs), provided each loop-back selector names the very block
   that sits in the pool ([lb_exact]); without that proviso the monitors can be false on a model run, because they read
   fields of the selector that the model's look-up by digest ignores: the counterexamples are at the end. *)
From Coq Require Import List NArith Lia Bool.
From HS Require Import GTac Node Corr Monitors Proto Link Exact MonSoundDefs MonSound2 MonSound4.
Import ListNotations.
Open Scope N_scope.

Section VoteMonitors.
  Variable c : Committee. Variable me : N.

  (* the block a step processes is well formed (leader's, signed, valid certificates) *)
  Lemma processed_bok e s x : WfInv c s -> processed c e s x -> bokI c x.
  Proof.
    intros H. destruct e as [b|v|t|tc|b| |d|d| ]; simpl; try contradiction.
    - intros [-> [El Ev]]. destruct (block_verify_ok c b Ev) as [A [B C]]. repeat split; auto.
    - intros [l Hr]. destruct (remove_first_sub' _ _ _ _ Hr) as [Hx _]. apply (wf_loop c s H x Hx).
  Qed.
  Lemma processed_exact e s x : lb_exact s e -> processed c e s x -> ev_block e = Some x.
  Proof.
    destruct e as [b|v|t|tc|b| |d|d| ]; simpl; try contradiction.
    - intros _ [-> _]. reflexivity.
    - intros Hl [l Hr]. rewrite (Hl x l Hr). reflexivity.
  Qed.

  (* ---------- C09 (iii) ---------- *)
  Lemma c09_votes_from evs : forall s,
    WfInv c s -> along lb_exact c me evs s -> c09_votes c evs (obs_from c me evs s) = true.
  Proof.
    induction evs as [|[h e] r IH]; intros s H HA; cbn [obs_from]; [reflexivity|].
    destruct HA as [Hl HA].
    pose proof (step_votes c me src_dq h e s) as V.
    pose proof (step_wf c me src_dq h e s H) as W. unfold gat in W.
    destruct (step c me src_dq h e s) as [[s1 o] res]. cbn [fst] in HA.
    destruct W as [H1 _]. destruct V as [_ [_ V]].
    cbn [c09_votes ob_out]. rewrite (IH s1 H1 HA), andb_true_r.
    destruct V as [[V _]|[x [Hp [_ [_ [_ [_ Hv]]]]]]]; [rewrite V; reflexivity|].
    destruct Hv as [Hv|Hv]; rewrite Hv; [reflexivity|].
    rewrite (processed_exact e s x Hl Hp).
    destruct (processed_bok e s x H Hp) as [A [B _]]. rewrite B, andb_true_r. apply N.eqb_eq. exact A.
  Qed.
  Theorem c09_votes_sound evs :
    along lb_exact c me evs (init c) -> c09_votes c evs (obs_of_run c me evs) = true.
  Proof. intros HA. apply c09_votes_from; [apply WfInv_init|exact HA]. Qed.

  (* ---------- C03 ---------- *)
  Lemma nondec_cons x l : nondec (x :: l) = true -> nondec l = true.
  Proof. destruct l as [|y r]; [reflexivity|]. cbn [nondec]. intros H. apply andb_true_iff in H. apply H. Qed.

  Lemma lv_nondec evs : forall s, nondec (s_last_voted s :: map snap_lv (obs_from c me evs s)) = true.
  Proof.
    induction evs as [|[h e] r IH]; intros s; cbn [obs_from map]; [reflexivity|].
    pose proof (step_votes c me src_dq h e s) as V.
    destruct (step c me src_dq h e s) as [[s1 o] res]. cbn [map nondec].
    change (snap_lv (mkObs o (rkind_of res) (snap s1))) with (s_last_voted s1).
    specialize (IH s1). cbn [nondec] in IH.
    assert (L : s_last_voted s <= s_last_voted s1).
    { destruct V as [_ [Vt [[_ Vl]|[x [_ [C1 [C2 _]]]]]]]; [|lia].
      destruct e; try (rewrite Vl; [lia|discriminate]). rewrite Vt. lia. }
    apply andb_true_iff. split; [apply N.leb_le; exact L|exact IH].
  Qed.

  Lemma c03_walk_from evs : forall s lastv lastt any_t,
    WfInv c s -> along lb_exact c me evs s -> lastv <= s_last_voted s -> lastt <= s_last_voted s ->
    c03_walk evs (obs_from c me evs s) lastv lastt any_t = true.
  Proof.
    induction evs as [|[h e] r IH]; intros s lastv lastt any_t H HA Lv Lt; cbn [obs_from]; [reflexivity|].
    destruct HA as [Hl HA].
    pose proof (step_votes c me src_dq h e s) as V.
    pose proof (step_wf c me src_dq h e s H) as W. unfold gat in W.
    destruct (step c me src_dq h e s) as [[s1 o] res]. cbn [fst] in HA.
    destruct W as [H1 _]. destruct V as [Vt [Vl V]].
    cbn [c03_walk ob_out].
    assert (L1 : s_last_voted s <= s_last_voted s1).
    { destruct V as [[_ Vk]|[x [_ [C1 [C2 _]]]]]; [|lia].
      destruct e; try (rewrite Vk; [lia|discriminate]). rewrite Vl. lia. }
    assert (Lt1 : fold_left N.max (map t_round (timeouts_of o)) lastt <= s_last_voted s1).
    { rewrite Vt. destruct e; cbn [map fold_left]; try lia. cbn [own_timeout t_round]. rewrite Vl. lia. }
    apply andb_true_iff. split.
    2:{ apply IH; auto.
        destruct V as [[V _]|[x [_ [C1 [C2 [_ [_ [Hv|Hv]]]]]]]]; rewrite ?V, ?Hv; cbn [map fold_left vote_for v_round]; lia. }
    destruct V as [[V _]|[x [Hp [C1 [C2 [[j Hj] [C4 Hv]]]]]]]; [rewrite V; reflexivity|].
    destruct Hv as [Hv|Hv]; rewrite Hv; [reflexivity|].
    rewrite (processed_exact e s x Hl Hp). cbn [vote_for v_round v_hash].
    destruct (wf_hist c s1 H1 _ _ _ Hj) as [Hq _]. cbn [block_digest dround] in Hq.
    rewrite digest_eqb_refl, N.eqb_refl. unfold vote_rule_ok. fold (rule_ok x). rewrite C4.
    assert (E1 : (lastv <? b_round x) = true) by (apply N.ltb_lt; lia).
    assert (E2 : (lastt <? b_round x) = true) by (apply N.ltb_lt; lia).
    assert (E3 : (qc_round (b_qc x) <? b_round x) = true) by (apply N.ltb_lt; lia).
    rewrite E1, E2, E3, orb_true_r. reflexivity.
  Qed.

  Theorem mon_c03_sound evs :
    along lb_exact c me evs (init c) -> mon_c03 evs (obs_of_run c me evs) = true.
  Proof.
    intros HA. unfold mon_c03, obs_of_run. apply andb_true_iff. split.
    - apply c03_walk_from; [apply WfInv_init|exact HA|cbn; lia|cbn; lia].
    - apply (nondec_cons (s_last_voted (init c))). apply lv_nondec.
  Qed.
End VoteMonitors.
Print Assumptions c09_votes_sound.
Print Assumptions mon_c03_sound.

(* ---------- the proviso is needed ---------- *)
(* node 1 leads round 1 of the 4-node committee: booting puts its own round-1 proposal into the loop-back pool. The
   selector below has the digest of that proposal (same author, round, payload, parent) but a junk signature and a
   QC whose round field says 7: the model finds the pooled block by digest, votes for it -- a correct vote -- while the
   monitors, which read the selector, see a vote for an unsigned block whose QC round exceeds its round *)
Definition sel_bad : Block := mkBlock (mkQC DZero 7 []) None 1 1 [] (SigJunk 9).
Definition evs_bad : list (list N * Event) := [([], EvBoot); ([], EvLoopback sel_bad)].
Example bad_selector_votes :
  votes_of (outs_of (obs_of_run c4 1 evs_bad)) = [mkVote (DBlk 1 1 [] DZero) 1 1 (SigOf 1 (CVote (DBlk 1 1 [] DZero) 1))].
Proof. vm_compute. reflexivity. Qed.
Example c09_votes_needs_exact : c09_votes c4 evs_bad (obs_of_run c4 1 evs_bad) = false.
Proof. vm_compute. reflexivity. Qed.
Example mon_c03_needs_exact : mon_c03 evs_bad (obs_of_run c4 1 evs_bad) = false.
Proof. vm_compute. reflexivity. Qed.
(* with the pooled block itself as selector the same run satisfies both, and the hypothesis of the theorems holds *)
Definition own_b1 : Block := mkBlock qc_genesis None 1 1 [] (SigOf 1 (CBlock (DBlk 1 1 [] DZero))).
Definition evs_good : list (list N * Event) := [([], EvBoot); ([], EvLoopback own_b1)].
Example good_selector_exact : along lb_exact c4 1 evs_good (init c4).
Proof.
  cbn [along evs_good]. split; [exact I|]. split; [|exact I].
  vm_compute. intros x l E. inversion E. reflexivity.
Qed.
Example good_selector_votes : votes_of (outs_of (obs_of_run c4 1 evs_good)) <> [].
Proof. vm_compute. discriminate. Qed.
