(* Tactics for the tie lemmas (Tie_*.v).
   The tie between the REGENERATED statement skeletons (GenCore.v, from consensus/src/core.rs and synchronizer.rs on every run) and
   the hand-written node model (Node.v) that every theorem is about: for every function, every argument and every state, the
   regenerated function and the model function compute the same state, the same outputs and the same result. *)
From Coq Require Import List NArith Bool Lia ZArith.
From Coq Require Import ZifyN ZifyBool.
From HS Require Export GTac Node SkelPrims.
Import ListNotations.
Open Scope N_scope.

Ltac munf := unfold timer_reset in *; unfold bind, ret, get, modify, emit, lift, fail, panic in *.

(* split on the innermost scrutinee of a match / if (a term that itself contains no match) *)
Ltac tie_split1 :=
  match goal with
  (* a scrutinee that was already split (the two sides often expose the same call at different moments): reuse its equation *)
  | H : ?x = _ |- context [match ?x with _ => _ end] => rewrite H
  | |- context [match ?x with _ => _ end] =>
      lazymatch x with
      | context [match _ with _ => _ end] => fail
      | _ => first [ is_var x; lazymatch type of x with State => fail | _ => destruct x end | destruct x eqn:? ]
      end
  end.
Ltac tie_red :=
  unfold set_round, set_last_voted, set_last_committed, set_high_qc, set_store, set_batches, set_qcm, set_tcm, set_pw,
    set_loopback, set_buffer, set_hist, set_log, set_makes, set_sync;
  cbv beta iota zeta;
  cbn [s_round s_last_voted s_last_committed s_high_qc s_store s_batches s_qcm s_tcm s_sync_pending s_sync_requests s_pw_pending
    s_loopback s_buffer s_hist s_log s_makes fst snd app].
Ltac tie_norm := tie_red; rewrite ?app_nil_r, <- ?app_assoc.
Ltac tie_inj := repeat match goal with
  | H : (_, _, _) = (_, _, _) |- _ => inversion H; clear H; subst
  | H : (_, _) = (_, _) |- _ => inversion H; clear H; subst
  | H : ROk _ = ROk _ |- _ => inversion H; clear H; subst
  | H : Some _ = Some _ |- _ => inversion H; clear H; subst
  end.
Ltac tie_done :=
  try reflexivity;
  try (repeat match goal with u : unit |- _ => destruct u end; reflexivity);
  try congruence;
  try (exfalso; lia);
  try (exfalso; congruence).
Ltac tie := intros; munf; gunf; repeat (tie_norm; tie_split1); tie_norm; tie_done; tie_inj; tie_done.

(* frame fact used below: make_vote reads the round but never changes it (the source evaluates the next leader after make_vote,
   the model before) *)
Lemma make_vote_keeps_round me b s s' o r : make_vote me b s = (s', o, r) -> s_round s' = s_round s.
Proof.
  unfold make_vote, increase_last_voted. munf. intros H.
  repeat (tie_red; match goal with
  | H : context [match ?x with _ => _ end] |- _ =>
      lazymatch x with
      | context [match _ with _ => _ end] => fail
      | _ => destruct x eqn:?
      end
  end); tie_red; tie_inj; tie_red; try reflexivity; try discriminate.
Qed.

