(* Node-level invariants of the executable model, relative to the world of honest histories. *)
From Coq Require Import List NArith Lia Bool ZifyN ZifyBool.
From HS Require Import GTac Node Proto Link.
Import ListNotations.
Open Scope N_scope.

Definition st {A} (x : State * list Out * res A) : State := fst (fst x).

Section NodeInv.
  Variable c : Committee.
  Variable me : N.
  Variable honest : N -> bool.
  Hypothesis members_nodup : NoDup (members c).
  Hypothesis me_honest : honest me = true.
  Variable w0 : world.                       (* histories of the other authorities *)

  Notation stk := (stk c).
  Notation mem := (members c).
  Hypothesis byz_bound : 3 * byz_stake stk mem honest < total stk mem.
  Set Default Proof Using "members_nodup me_honest byz_bound".

  Definition cw (s : State) : world := upd w0 me (s_hist s).

  Definition Cert s h r := certified stk mem honest (cw s) h r.
  Definition VTC s tcr es := validtc stk mem honest (cw s) tcr es.
  Definition qc_good s (q : QC) := (qc_hash q = DZero /\ qc_round q = 0) \/ Cert s (qc_hash q) (qc_round q).
  Definition tc_good s (otc : option TC) :=
    match otc with
    | None => True
    | Some tc => VTC s (tc_round tc) (tc_entries tc) /\ tc_votes tc <> []
    end.
  Definition vetted s (b : Block) :=
    qc_good s (b_qc b) /\ tc_good s (b_tc b) /\ qc_round (b_qc b) <= qc_round (s_high_qc s).

  Definition in_flight s (b : Block) :=
    In b (s_loopback s) \/ In b (s_sync_pending s) \/ In b (map snd (s_pw_pending s)) \/
    In b (map snd (s_store s)).

  Definition qm_ok s (r : N) (h : digest) (m : QCMaker) :=
    NoDup (map fst (qm_votes m)) /\
    (forall a, In a (map fst (qm_votes m)) -> In a (qm_used m)) /\
    (forall a sg, In (a, sg) (qm_votes m) ->
       stk a <> 0 /\ (honest a = true -> voted (cw s) a h /\ dround h = r)) /\
    qm_weight m <= wsum stk (map fst (qm_votes m)).

  Definition tm_authors (m : TCMaker) := map (fun x => fst (fst x)) (tm_votes m).
  Definition tm_ok s (r : N) (m : TCMaker) :=
    NoDup (tm_authors m) /\
    (forall a, In a (tm_authors m) -> In a (tm_used m)) /\
    (forall a sg hq, In (a, sg, hq) (tm_votes m) ->
       stk a <> 0 /\ (honest a = true -> In (HTimeout r hq) (cw s a))) /\
    tm_weight m <= wsum stk (tm_authors m).

  Record Inv (s : State) : Prop := {
    i_pace : qc_round (s_high_qc s) < s_round s /\ s_last_voted s <= s_round s;
    i_hq : qc_good s (s_high_qc s);
    i_flight : forall b, in_flight s b -> vetted s b;
    i_store : forall d b, In (d, b) (s_store s) -> block_digest b = d;
    i_qcm : forall r h m, In ((r, h), m) (s_qcm s) -> qm_ok s r h m;
    i_tcm : forall r m, In (r, m) (s_tcm s) -> tm_ok s r m;
    i_hist : hist_ok stk mem honest (cw s) (s_hist s);
    i_hist_lv : forall e, In e (s_hist s) -> evround e <= s_last_voted s;
    i_hist_hq : forall d q j, In (HVote d q j) (s_hist s) -> q <= qc_round (s_high_qc s);
    i_log : forall d, In d (s_log s) -> committed stk mem honest (cw s) d
  }.

  (* ---------- monotonicity in the own history ---------- *)
  Definition hist_ext (s s' : State) := exists pre, s_hist s' = pre ++ s_hist s.

  Lemma hist_ext_refl s : hist_ext s s.
  Proof. exists []. reflexivity. Qed.

  Lemma cw_wle s s' : hist_ext s s' -> wle (cw s) (cw s').
  Proof.
    intros [pre H] a e He. unfold cw, upd in *. destruct (a =? me); auto.
    rewrite H. apply in_or_app. right. exact He.
  Qed.

  Lemma Cert_mono s s' h r : hist_ext s s' -> Cert s h r -> Cert s' h r.
  Proof. intros H. apply certified_mono. apply cw_wle. exact H. Qed.
  Lemma VTC_mono s s' r es : hist_ext s s' -> VTC s r es -> VTC s' r es.
  Proof. intros H. apply validtc_mono. apply cw_wle. exact H. Qed.
  Lemma qc_good_mono s s' q : hist_ext s s' -> qc_good s q -> qc_good s' q.
  Proof. intros H [G|G]; [left; exact G|right; eapply Cert_mono; eauto]. Qed.
  Lemma tc_good_mono s s' t : hist_ext s s' -> tc_good s t -> tc_good s' t.
  Proof. intros H. destruct t as [tc|]; simpl; auto. intros [G1 G2]. split; auto. eapply VTC_mono; eauto. Qed.

  (* ---------- invariant preservation by the kinds of state update ---------- *)
  Lemma in_flight_vetted_bound s s' b :
    vetted s b -> hist_ext s s' -> qc_round (s_high_qc s) <= qc_round (s_high_qc s') -> vetted s' b.
  Proof.
    intros [G1 [G2 G3]] He Hq. split; [eapply qc_good_mono; eauto|].
    split; [eapply tc_good_mono; eauto|lia].
  Qed.

  (* U1: advance_round's update *)
  Lemma Inv_advance s r :
    Inv s -> s_round s <= r ->
    Inv (set_tcm (set_qcm (set_round s (r + 1))
            (filter (fun e => r + 1 <=? fst (fst e)) (s_qcm s)))
            (filter (fun e => r + 1 <=? fst e) (s_tcm s))).
  Proof.
    intros H Hr. destruct H. constructor; simpl; auto.
    - lia.
    - intros r' h m Hin. apply filter_In in Hin. destruct Hin as [Hin _]. apply i_qcm0 in Hin. exact Hin.
    - intros r' m Hin. apply filter_In in Hin. destruct Hin as [Hin _]. apply i_tcm0 in Hin. exact Hin.
  Qed.

  (* U2: update_high_qc's update *)
  Lemma Inv_high_qc s q :
    Inv s -> qc_good s q -> qc_round (s_high_qc s) < qc_round q -> qc_round q < s_round s ->
    Inv (set_high_qc s q).
  Proof.
    intros H Hg Hlt Hr. destruct H. constructor; simpl; auto.
    - lia.
    - intros b Hb. destruct (i_flight0 b Hb) as [G1 [G2 G3]]. split; auto. split; auto. simpl. lia.
    - intros d q' j Hin. specialize (i_hist_hq0 _ _ _ Hin). lia.
  Qed.

  (* ---------- the state order along a step ---------- *)
  Definition sle (s s' : State) :=
    hist_ext s s' /\ qc_round (s_high_qc s) <= qc_round (s_high_qc s') /\ s_round s <= s_round s'.
  Lemma sle_refl s : sle s s.
  Proof. split; [apply hist_ext_refl|lia]. Qed.
  Lemma sle_trans a b d : sle a b -> sle b d -> sle a d.
  Proof.
    intros [[p1 H1] [H2 H3]] [[p2 H4] [H5 H6]]. split; [|lia].
    exists (p2 ++ p1). rewrite H4, H1. apply app_assoc.
  Qed.
  Lemma vetted_sle s s' b : vetted s b -> sle s s' -> vetted s' b.
  Proof. intros Hv [He [Hq _]]. eapply in_flight_vetted_bound; eauto. Qed.
  Lemma qc_good_sle s s' q : qc_good s q -> sle s s' -> qc_good s' q.
  Proof. intros Hv [He _]. eapply qc_good_mono; eauto. Qed.
  Lemma tc_good_sle s s' q : tc_good s q -> sle s s' -> tc_good s' q.
  Proof. intros Hv [He _]. eapply tc_good_mono; eauto. Qed.

  Ltac munfold := unfold bind, get, modify, emit, ret, lift, fail, panic.

  (* (a) advance_round *)
  Lemma advance_round_inv r s :
    Inv s ->
    match advance_round r s with
    | (s', _, res) => Inv s' /\ sle s s' /\ res = ROk tt /\ r < s_round s' /\
                      s_high_qc s' = s_high_qc s /\ s_hist s' = s_hist s /\ s_last_voted s' = s_last_voted s
    end.
  Proof.
    intros H. unfold advance_round. munfold. simpl. gunf. destruct (r <? s_round s) eqn:E; simpl.
    - split; [exact H|]. split; [apply sle_refl|]. repeat split; auto; lia.
    - apply N.ltb_ge in E.
      split; [exact (Inv_advance s r H E)|]. split; [split; [exists []; reflexivity|simpl; lia]|].
      repeat split; simpl; auto; lia.
  Qed.

  (* (b) update_high_qc *)
  Lemma update_high_qc_inv q s :
    Inv s -> qc_good s q -> qc_round q < s_round s ->
    match update_high_qc q s with
    | (s', _, res) => Inv s' /\ sle s s' /\ res = ROk tt /\ qc_round q <= qc_round (s_high_qc s') /\
                      s_round s' = s_round s /\ s_hist s' = s_hist s /\ s_last_voted s' = s_last_voted s
    end.
  Proof.
    intros H Hg Hr. unfold update_high_qc. munfold. simpl. gunf.
    destruct (qc_round (s_high_qc s) <? qc_round q) eqn:E.
    - apply N.ltb_lt in E.
      split; [exact (Inv_high_qc s q H Hg E Hr)|]. split; [split; [exists []; reflexivity|simpl; lia]|].
      repeat split; simpl; auto; lia.
    - split; [exact H|]. split; [apply sle_refl|]. repeat split; auto; lia.
  Qed.

  (* (c) process_qc *)
  Lemma process_qc_inv q s :
    Inv s -> qc_good s q ->
    match process_qc q s with
    | (s', _, res) => Inv s' /\ sle s s' /\ res = ROk tt /\ qc_round q <= qc_round (s_high_qc s') /\
                      qc_round q < s_round s' /\ s_hist s' = s_hist s /\ s_last_voted s' = s_last_voted s
    end.
  Proof.
    intros H Hg. unfold process_qc. unfold bind.
    pose proof (advance_round_inv (qc_round q) s H) as A.
    destruct (advance_round (qc_round q) s) as [[s1 o1] r1].
    destruct A as [I1 [L1 [-> [R1 [Q1 [H1 V1]]]]]].
    assert (Hg1 : qc_good s1 q) by (eapply qc_good_sle; eauto).
    pose proof (update_high_qc_inv q s1 I1 Hg1 R1) as B.
    destruct (update_high_qc q s1) as [[s2 o2] r2].
    destruct B as [I2 [L2 [-> [Q2 [R2 [H2 V2]]]]]].
    split; [exact I2|]. split; [eapply sle_trans; eauto|]. repeat split; auto; try congruence; lia.
  Qed.

  (* ---------- frame lemma: only the in-flight sets (and irrelevant fields) change ---------- *)
  Lemma cw_eq s s' : s_hist s' = s_hist s -> cw s' = cw s.
  Proof. intros H. unfold cw. rewrite H. reflexivity. Qed.

  Lemma vetted_eq s s' b :
    s_hist s' = s_hist s -> s_high_qc s' = s_high_qc s -> vetted s b -> vetted s' b.
  Proof.
    intros Hh Hq [G1 [G2 G3]]. unfold vetted, qc_good, tc_good, Cert, VTC in *.
    rewrite (cw_eq _ _ Hh), Hq. auto.
  Qed.

  Lemma Inv_frame s s' :
    Inv s ->
    s_round s' = s_round s -> s_last_voted s' = s_last_voted s -> s_high_qc s' = s_high_qc s ->
    s_qcm s' = s_qcm s -> s_tcm s' = s_tcm s -> s_hist s' = s_hist s -> s_log s' = s_log s ->
    (forall b, in_flight s' b -> in_flight s b \/ vetted s b) ->
    (forall d b, In (d, b) (s_store s') -> block_digest b = d) ->
    Inv s'.
  Proof.
    intros H Er Ev Eq Eqm Etm Eh El Hfl Hst. destruct H.
    assert (Ecw := cw_eq _ _ Eh).
    constructor; unfold qc_good, Cert, VTC, qm_ok, tm_ok in *;
      rewrite ?Er, ?Ev, ?Eq, ?Eqm, ?Etm, ?Eh, ?El, ?Ecw; auto.
    - intros b Hb. apply (vetted_eq s s'); auto. destruct (Hfl b Hb) as [Hb'|Hb']; auto.
  Qed.

  Lemma store_get_in d st b : store_get d st = Some b -> In (d, b) st.
  Proof.
    induction st as [|[k v] st IH]; simpl; [discriminate|].
    destruct (digest_eqb d k) eqn:E.
    - intros H. inversion H; subst. apply digest_eqb_eq in E. subst. left. reflexivity.
    - intros H. right. auto.
  Qed.

  (* (d) generate_proposal *)
  Lemma generate_proposal_inv hint tc s :
    Inv s -> tc_good s tc ->
    match generate_proposal me hint tc s with
    | (s', _, res) => Inv s' /\ sle s s' /\ res = ROk tt /\ s_hist s' = s_hist s /\
                      s_high_qc s' = s_high_qc s /\ s_round s' = s_round s /\ s_last_voted s' = s_last_voted s
    end.
  Proof.
    intros H Ht. unfold generate_proposal. munfold. simpl.
    destruct (same_set hint (s_buffer s)); simpl.
    all: split; [|split; [split; [exists []; reflexivity|simpl; lia]|repeat split; reflexivity]].
    all: eapply (Inv_frame s); eauto; try reflexivity; simpl.
    all: try (intros d b Hin; apply (i_store s H); exact Hin).
    all: intros b Hb; unfold in_flight in *; simpl in *;
      destruct Hb as [Hb|[Hb|[Hb|Hb]]]; auto;
      apply in_app_or in Hb; destruct Hb as [Hb|[<-|[]]]; auto;
      right; unfold vetted; simpl; split; [apply (i_hq s H)|split; [exact Ht|lia]].
  Qed.

  (* (e) proposer_cleanup *)
  Lemma proposer_cleanup_inv ds s :
    Inv s ->
    match proposer_cleanup ds s with
    | (s', _, res) => Inv s' /\ sle s s' /\ res = ROk tt /\ s_hist s' = s_hist s /\
                      s_high_qc s' = s_high_qc s /\ s_round s' = s_round s /\ s_last_voted s' = s_last_voted s /\
                      s_store s' = s_store s
    end.
  Proof.
    intros H. unfold proposer_cleanup. munfold. simpl.
    split; [|split; [split; [exists []; reflexivity|simpl; lia]|repeat split; reflexivity]].
    eapply (Inv_frame s); eauto; try reflexivity; simpl.
    all: try (intros d b Hin; apply (i_store s H); exact Hin).
    all: try (intros b Hb; left; exact Hb).
  Qed.

  (* (f) sync_park *)
  Lemma sync_park_inv b s :
    Inv s -> vetted s b ->
    match sync_park b s with
    | (s', _, res) => Inv s' /\ sle s s' /\ res = ROk tt /\ s_hist s' = s_hist s /\
                      s_high_qc s' = s_high_qc s /\ s_round s' = s_round s /\ s_last_voted s' = s_last_voted s /\
                      s_store s' = s_store s
    end.
  Proof.
    intros H Hv. unfold sync_park. munfold. simpl.
    destruct (existsb (block_eqb b) (s_sync_pending s)); simpl.
    { split; [exact H|]. split; [apply sle_refl|]. repeat split; reflexivity. }
    destruct (existsb (digest_eqb (qc_hash (b_qc b))) (s_sync_requests s)); simpl.
    all: split; [|split; [split; [exists []; reflexivity|simpl; lia]|repeat split; reflexivity]].
    all: eapply (Inv_frame s); eauto; try reflexivity; simpl.
    all: try (intros d x Hin; apply (i_store s H); exact Hin).
    all: intros x Hx; unfold in_flight in *; simpl in *;
      destruct Hx as [Hx|[Hx|[Hx|Hx]]]; auto;
      apply in_app_or in Hx; destruct Hx as [Hx|[<-|[]]]; auto.
  Qed.

  (* (g) get_parent_block *)
  Lemma get_parent_block_inv b s :
    Inv s -> vetted s b ->
    match get_parent_block b s with
    | (s', _, res) =>
        Inv s' /\ sle s s' /\ s_hist s' = s_hist s /\ s_high_qc s' = s_high_qc s /\
        s_round s' = s_round s /\ s_last_voted s' = s_last_voted s /\ s_store s' = s_store s /\
        match res with
        | ROk (Some p) => s' = s /\
            ((qc_eqb (b_qc b) qc_genesis = true /\ p = block_genesis) \/
             In (qc_hash (b_qc b), p) (s_store s))
        | ROk None => True
        | _ => False
        end
    end.
  Proof.
    intros H Hv. unfold get_parent_block.
    destruct (qc_eqb (b_qc b) qc_genesis) eqn:Eg.
    { munfold. simpl. split; [exact H|]. split; [apply sle_refl|]. repeat split; auto. }
    munfold. simpl.
    destruct (store_get (qc_hash (b_qc b)) (s_store s)) as [p|] eqn:Es; simpl.
    { split; [exact H|]. split; [apply sle_refl|]. repeat split; auto. right. apply store_get_in. exact Es. }
    pose proof (sync_park_inv b s H Hv) as P. destruct (sync_park b s) as [[s1 o1] r1].
    destruct P as [I1 [L1 [-> [E1 [E2 [E3 [E4 E5]]]]]]]. simpl.
    split; [exact I1|]. split; [exact L1|]. repeat split; auto.
  Qed.

  (* (h) store_block *)
  Lemma store_block_inv b s :
    Inv s -> vetted s b ->
    match store_block b s with
    | (s', _, res) => Inv s' /\ sle s s' /\ res = ROk tt /\ s_hist s' = s_hist s /\
                      s_high_qc s' = s_high_qc s /\ s_round s' = s_round s /\ s_last_voted s' = s_last_voted s /\
                      s_store s' = (block_digest b, b) :: s_store s
    end.
  Proof.
    intros H Hv. unfold store_block. munfold. simpl.
    split; [|split; [split; [exists []; reflexivity|simpl; lia]|repeat split; reflexivity]].
    eapply (Inv_frame s); eauto; try reflexivity; simpl.
    - intros x Hx. unfold in_flight in *. simpl in *.
      destruct Hx as [Hx|[Hx|[Hx|[Hx|Hx]]]]; auto.
      + apply in_app_or in Hx. destruct Hx as [Hx|Hx]; auto.
        apply filter_In in Hx. destruct Hx as [Hx _]. auto.
      + apply filter_In in Hx. destruct Hx as [Hx _]. auto.
      + subst x. right. exact Hv.
    - intros d x [Hin|Hin].
      + inversion Hin; subst. reflexivity.
      + apply (i_store s H). exact Hin.
  Qed.

  (* ---------- history growth ---------- *)
  Lemma Inv_hist_update s s' e :
    Inv s ->
    s_hist s' = e :: s_hist s ->
    s_round s' = s_round s -> s_high_qc s' = s_high_qc s -> s_store s' = s_store s ->
    s_qcm s' = s_qcm s -> s_tcm s' = s_tcm s -> s_log s' = s_log s ->
    s_loopback s' = s_loopback s -> s_sync_pending s' = s_sync_pending s -> s_pw_pending s' = s_pw_pending s ->
    s_last_voted s <= s_last_voted s' -> s_last_voted s' <= s_round s ->
    evround e <= s_last_voted s' ->
    hist_ok stk mem honest (cw s') (e :: s_hist s) ->
    (forall d q j, e = HVote d q j -> q <= qc_round (s_high_qc s)) ->
    Inv s'.
  Proof.
    intros H Eh Er Eq Es Eqm Etm El Elo Esp Epw Hlv1 Hlv2 Hev Hok Hq.
    assert (Hext : hist_ext s s') by (exists [e]; rewrite Eh; reflexivity).
    assert (Hle := cw_wle _ _ Hext).
    destruct H. constructor.
    - rewrite Er, Eq. lia.
    - rewrite Eq. eapply qc_good_mono; eauto.
    - intros b Hb. assert (Hb' : in_flight s b).
      { unfold in_flight in *. rewrite Elo, Esp, Epw, Es in Hb. exact Hb. }
      eapply in_flight_vetted_bound; eauto. rewrite Eq. lia.
    - rewrite Es. exact i_store0.
    - rewrite Eqm. intros r h m Hin. destruct (i_qcm0 r h m Hin) as [A [B [C D]]].
      split; auto. split; auto. split; auto.
      intros a sg Ha. destruct (C a sg Ha) as [C1 C2]. split; [exact C1|]. intros Hh.
      destruct (C2 Hh) as [[q [j Hv]] Hr]. split; [|exact Hr]. exists q, j. apply Hle. exact Hv.
    - rewrite Etm. intros r m Hin. destruct (i_tcm0 r m Hin) as [A [B [C D]]].
      split; auto. split; auto. split; auto.
      intros a sg hq Ha. destruct (C a sg hq Ha) as [C1 C2]. split; [exact C1|]. intros Hh. apply Hle. auto.
    - rewrite Eh. exact Hok.
    - rewrite Eh. intros x [<-|Hx]; auto. specialize (i_hist_lv0 x Hx). lia.
    - rewrite Eh, Eq. intros d q j [Hx|Hx]; [eapply Hq; eauto|eapply i_hist_hq0; eauto].
    - rewrite El. intros d Hd. eapply committed_mono; eauto.
  Qed.

  Lemma list_max_ge l m : list_max l = Some m -> forall x, In x l -> x <= m.
  Proof.
    unfold list_max. destruct l as [|y ys]; [discriminate|]. intros H. inversion H; subst. clear H.
    assert (G : forall l a x, In x (a :: l) -> x <= fold_left N.max l a).
    { induction l as [|z zs IH]; simpl; intros a x Hx.
      - destruct Hx as [<-|[]]. lia.
      - destruct Hx as [<-|[<-|Hx]].
        + specialize (IH (N.max a z) (N.max a z) (or_introl eq_refl)). lia.
        + specialize (IH (N.max a z) (N.max a z) (or_introl eq_refl)). lia.
        + apply IH. right. exact Hx. }
    intros x Hx. apply G. exact Hx.
  Qed.

  (* (j) make_vote *)
  Lemma make_vote_inv b s :
    Inv s -> vetted s b -> b_round b = s_round s ->
    match make_vote me b s with
    | (s', _, res) =>
        Inv s' /\ sle s s' /\ s_high_qc s' = s_high_qc s /\ s_round s' = s_round s /\
        match res with
        | ROk (Some v) => v = mkVote (block_digest b) (b_round b) me (SigOf me (CVote (block_digest b) (b_round b))) /\
                          voted (cw s') me (block_digest b)
        | ROk None => s' = s
        | RErr _ => False
        | RPanic _ => s' = s
        end
    end.
  Proof.
    intros H Hv Hr. unfold make_vote, increase_last_voted. munfold. simpl. gunf.
    destruct Hv as [Gq [Gt Gb]].
    assert (Hpace := i_pace s H).
    set (rule1 := s_last_voted s <? b_round b).
    set (rule2 := qc_round (b_qc b) + 1 =? b_round b).
    destruct (b_tc b) as [tc|] eqn:Etc; simpl.
    - destruct (list_max (tc_hqrs tc)) as [m|] eqn:Em; simpl.
      2:{ split; [exact H|]. split; [apply sle_refl|]. auto. }
      destruct (rule1 && (rule2 || (tc_round tc + 1 =? b_round b) && (m <=? qc_round (b_qc b)))) eqn:E; simpl.
      2:{ split; [exact H|]. split; [apply sle_refl|]. auto. }
      apply andb_true_iff in E. destruct E as [E1 E2]. subst rule1. apply N.ltb_lt in E1.
      match goal with |- Inv ?S' /\ _ => set (s' := S') end.
      assert (I' : Inv s').
      { eapply (Inv_hist_update s s'); try reflexivity; eauto; simpl; try lia.
        - constructor.
          + eapply hist_ok_mono; [|apply (i_hist s H)]. apply cw_wle. exists [HVote (block_digest b) (qc_round (b_qc b)) (if rule2 then JDirect else JTC (tc_round tc) (tc_entries tc))]. reflexivity.
          + simpl. exact I.
          + intros e He. specialize (i_hist_lv s H e He). simpl. lia.
          + simpl. lia.
          + simpl. destruct Gq as [Gq|Gq]; [left; exact Gq|right].
            eapply certified_mono; [|exact Gq]. apply cw_wle. eexists [_]. reflexivity.
          + simpl. destruct rule2 eqn:R2.
            * subst rule2. lia.
            * apply orb_true_iff in E2. destruct E2 as [E2|E2]; [discriminate|].
              apply andb_true_iff in E2. destruct E2 as [E3 E4].
              simpl in Gt. destruct Gt as [Gt1 Gt2].
              split; [|split; [lia|]].
              -- eapply validtc_mono; [|exact Gt1]. apply cw_wle. eexists [_]. reflexivity.
              -- intros a hq Hin. apply N.leb_le in E4.
                 assert (hq <= m); [|lia]. eapply list_max_ge; eauto.
                 unfold tc_hqrs, tc_entries in *. apply in_map_iff in Hin.
                 destruct Hin as [[[a' sg] hq'] [Heq Hin]]. inversion Heq; subst.
                 apply in_map_iff. exists (a, sg, hq). auto.
        - intros d q j Heq. inversion Heq; subst. exact Gb. }
      split; [exact I'|]. split.
      { split; [eexists [_]; reflexivity|simpl; lia]. }
      repeat split; auto. eexists _, _. unfold cw, upd. rewrite N.eqb_refl. simpl. left. reflexivity.
    - destruct (rule1 && rule2) eqn:E; simpl.
      2:{ split; [exact H|]. split; [apply sle_refl|]. auto. }
      apply andb_true_iff in E. destruct E as [E1 E2]. subst rule1. apply N.ltb_lt in E1.
      rewrite E2. subst rule2. apply N.eqb_eq in E2.
      match goal with |- Inv ?S' /\ _ => set (s' := S') end.
      assert (I' : Inv s').
      { eapply (Inv_hist_update s s'); try reflexivity; eauto; simpl; try lia.
        - constructor.
          + eapply hist_ok_mono; [|apply (i_hist s H)]. apply cw_wle. eexists [_]. reflexivity.
          + simpl. exact I.
          + intros e He. specialize (i_hist_lv s H e He). simpl. lia.
          + simpl. lia.
          + simpl. destruct Gq as [Gq|Gq]; [left; exact Gq|right].
            eapply certified_mono; [|exact Gq]. apply cw_wle. eexists [_]. reflexivity.
          + simpl. exact E2.
        - intros d q j Heq. inversion Heq; subst. exact Gb. }
      split; [exact I'|]. split.
      { split; [eexists [_]; reflexivity|simpl; lia]. }
      repeat split; auto. eexists _, _. unfold cw, upd. rewrite N.eqb_refl. simpl. left. reflexivity.
  Qed.

  (* ---------- aggregator ---------- *)
  Lemma qm_empty_ok s r h : qm_ok s r h (mkQM 0 [] []).
  Proof. unfold qm_ok. simpl. split; [constructor|]. split; [tauto|]. split; [tauto|lia]. Qed.
  Lemma tm_empty_ok s r : tm_ok s r (mkTM 0 [] []).
  Proof. unfold tm_ok, tm_authors. simpl. split; [constructor|]. split; [tauto|]. split; [tauto|lia]. Qed.

  Lemma qcm_get_ok s r h : Inv s -> qm_ok s r h (qcm_get (r, h) (s_qcm s)).
  Proof.
    intros H. unfold qcm_get.
    destruct (find _ (s_qcm s)) as [[[r' h'] m]|] eqn:E; [|apply qm_empty_ok].
    apply find_some in E. destruct E as [Hin Hk]. simpl in Hk.
    apply andb_true_iff in Hk. destruct Hk as [K1 K2]. apply N.eqb_eq in K1. apply digest_eqb_eq in K2.
    subst. simpl. apply (i_qcm s H). exact Hin.
  Qed.
  Lemma tcm_get_ok s r : Inv s -> tm_ok s r (tcm_get r (s_tcm s)).
  Proof.
    intros H. unfold tcm_get.
    destruct (find _ (s_tcm s)) as [[r' m]|] eqn:E; [|apply tm_empty_ok].
    apply find_some in E. destruct E as [Hin Hk]. simpl in Hk. apply N.eqb_eq in Hk. subst.
    simpl. apply (i_tcm s H). exact Hin.
  Qed.

  Lemma Inv_qcm_put s r h m :
    Inv s -> qm_ok s r h m -> Inv (set_qcm s (qcm_put (r, h) m (s_qcm s))).
  Proof.
    intros H Hm. destruct H. constructor; simpl; auto.
    intros r' h' m' [Hin|Hin].
    - inversion Hin; subst. exact Hm.
    - apply filter_In in Hin. destruct Hin as [Hin _]. apply i_qcm0. exact Hin.
  Qed.
  Lemma Inv_tcm_put s r m :
    Inv s -> tm_ok s r m -> Inv (set_tcm s (tcm_put r m (s_tcm s))).
  Proof.
    intros H Hm. destruct H. constructor; simpl; auto.
    intros r' m' [Hin|Hin].
    - inversion Hin; subst. exact Hm.
    - apply filter_In in Hin. destruct Hin as [Hin _]. apply i_tcm0. exact Hin.
  Qed.

  Lemma wsum_app_one l a : wsum stk (l ++ [a]) = wsum stk l + stk a.
  Proof. rewrite wsum_app. simpl. lia. Qed.

  Lemma qm_append_ok s r h m v :
    qm_ok s r h m -> v_hash v = h -> v_round v = r -> stk (v_author v) <> 0 ->
    (honest (v_author v) = true -> voted (cw s) (v_author v) h /\ dround h = r) ->
    match qm_append c m v with
    | (m', res) =>
        qm_ok s r h m' /\
        match res with
        | ROk (Some qc) => qc_hash qc = h /\ qc_round qc = r /\ Cert s h r
        | ROk None => True
        | RErr _ => True
        | RPanic _ => False
        end
    end.
  Proof.
    intros [A [B [C D]]] Eh Er Hs Hv. unfold qm_append. gunf.
    destruct (memN (v_author v) (qm_used m)) eqn:Em; [split; [split; auto|exact I]|].
    assert (Hnin : ~ In (v_author v) (map fst (qm_votes m))).
    { intro Hin. apply B in Hin. apply memN_in in Hin. congruence. }
    set (votes' := qm_votes m ++ [(v_author v, v_sig v)]).
    assert (A' : NoDup (map fst votes')).
    { unfold votes'. rewrite map_app. simpl. apply NoDup_app_intro; auto.
      - constructor; [tauto|constructor].
      - intros x Hx [<-|[]]. contradiction. }
    assert (C' : forall a sg, In (a, sg) votes' ->
               stk a <> 0 /\ (honest a = true -> voted (cw s) a h /\ dround h = r)).
    { intros a sg Hin. unfold votes' in Hin. apply in_app_or in Hin. destruct Hin as [Hin|[Hin|[]]]; [eauto|].
      inversion Hin; subst. auto. }
    assert (W' : wsum stk (map fst votes') = wsum stk (map fst (qm_votes m)) + stk (v_author v)).
    { unfold votes'. rewrite map_app. simpl. apply wsum_app_one. }
    assert (B' : forall a, In a (map fst votes') -> In a (v_author v :: qm_used m)).
    { intros a Hin. unfold votes' in Hin. rewrite map_app in Hin. apply in_app_or in Hin.
      destruct Hin as [Hin|[<-|[]]]; [right; auto|left; reflexivity]. }
    destruct (Node.quorum c <=? qm_weight m + Node.stake c (v_author v)) eqn:Eq.
    - split.
      + unfold qm_ok. simpl. fold votes'. split; [exact A'|]. split; [exact B'|]. split; [exact C'|lia].
      + simpl. repeat split; auto. fold votes'.
        exists (map fst votes'). split; [exact A'|]. split; [|split].
        * intros a Ha. apply in_map_iff in Ha. destruct Ha as [[a' sg] [<- Hin]]. simpl.
          apply stake_pos_member. apply (C' _ _ Hin).
        * rewrite <- (quorum_agree c members_nodup). apply N.leb_le in Eq. unfold Link.stk in *. lia.
        * intros a Ha Hh. apply in_map_iff in Ha. destruct Ha as [[a' sg] [<- Hin]]. simpl in *.
          apply (C' _ _ Hin). exact Hh.
    - split; [|exact I].
      unfold qm_ok. simpl. fold votes'. split; [exact A'|]. split; [exact B'|]. split; [exact C'|].
      unfold Link.stk in *. lia.
  Qed.

  Lemma tm_append_ok s r m t :
    tm_ok s r m -> t_round t = r -> stk (t_author t) <> 0 ->
    (honest (t_author t) = true -> In (HTimeout r (qc_round (t_high_qc t))) (cw s (t_author t))) ->
    match tm_append c m t with
    | (m', res) =>
        tm_ok s r m' /\
        match res with
        | ROk (Some tc) => tc_round tc = r /\ tc_good s (Some tc)
        | ROk None => True
        | RErr _ => True
        | RPanic _ => False
        end
    end.
  Proof.
    intros [A [B [C D]]] Er Hs Hv. unfold tm_append. gunf. unfold tm_authors in *.
    destruct (memN (t_author t) (tm_used m)) eqn:Em; [split; [split; auto|exact I]|].
    assert (Hnin : ~ In (t_author t) (map (fun x => fst (fst x)) (tm_votes m))).
    { intro Hin. apply B in Hin. apply memN_in in Hin. congruence. }
    set (votes' := tm_votes m ++ [(t_author t, t_sig t, qc_round (t_high_qc t))]).
    assert (A' : NoDup (map (fun x => fst (fst x)) votes')).
    { unfold votes'. rewrite map_app. simpl. apply NoDup_app_intro; auto.
      - constructor; [tauto|constructor].
      - intros x Hx [<-|[]]. contradiction. }
    assert (C' : forall a sg hq, In (a, sg, hq) votes' ->
               stk a <> 0 /\ (honest a = true -> In (HTimeout r hq) (cw s a))).
    { intros a sg hq Hin. unfold votes' in Hin. apply in_app_or in Hin. destruct Hin as [Hin|[Hin|[]]]; [eauto|].
      inversion Hin; subst. auto. }
    assert (W' : wsum stk (map (fun x => fst (fst x)) votes') =
                 wsum stk (map (fun x => fst (fst x)) (tm_votes m)) + stk (t_author t)).
    { unfold votes'. rewrite map_app. simpl. apply wsum_app_one. }
    assert (B' : forall a, In a (map (fun x => fst (fst x)) votes') -> In a (t_author t :: tm_used m)).
    { intros a Hin. unfold votes' in Hin. rewrite map_app in Hin. apply in_app_or in Hin.
      destruct Hin as [Hin|[<-|[]]]; [right; auto|left; reflexivity]. }
    destruct (Node.quorum c <=? tm_weight m + Node.stake c (t_author t)) eqn:Eq.
    - split.
      + unfold tm_ok, tm_authors. simpl. fold votes'. split; [exact A'|]. split; [exact B'|]. split; [exact C'|lia].
      + simpl. split; [exact Er|]. fold votes'. split.
        * unfold VTC, validtc. rewrite map_fst_entries. simpl.
          split; [exact A'|]. split; [|split].
          -- intros a Ha. apply in_map_iff in Ha. destruct Ha as [[[a' sg] hq] [<- Hin]]. simpl.
             apply stake_pos_member. apply (C' _ _ _ Hin).
          -- rewrite <- (quorum_agree c members_nodup). apply N.leb_le in Eq. unfold Link.stk in *. lia.
          -- intros a hq Hin Hh. unfold tc_entries in Hin. simpl in Hin. apply in_map_iff in Hin.
             destruct Hin as [[[a' sg] hq'] [Heq Hin]]. simpl in Heq. inversion Heq; subst.
             apply (C' _ _ _ Hin). exact Hh.
        * unfold votes'. intro Hn. apply app_eq_nil in Hn. destruct Hn as [_ Hn]. discriminate.
    - split; [|exact I].
      unfold tm_ok, tm_authors. simpl. fold votes'. split; [exact A'|]. split; [exact B'|]. split; [exact C'|].
      unfold Link.stk in *. lia.
  Qed.

  (* ---------- handlers ---------- *)
  Notation sadm s := (sig_adm honest (cw s)).

  Lemma qc_eqb_genesis_good s q : qc_eqb q qc_genesis = true -> qc_good s q.
  Proof.
    unfold qc_eqb. simpl. intros H. apply andb_true_iff in H. destruct H as [H1 H2].
    apply digest_eqb_eq in H1. apply N.eqb_eq in H2. left. auto.
  Qed.

  Lemma sadm_sle s s' sg : sadm s sg -> sle s s' -> sadm s' sg.
  Proof.
    intros H [He _]. assert (Hle := cw_wle _ _ He).
    destruct sg as [x [d|h r|r hq]|k]; simpl in *; auto.
    intros Hh. destruct (H Hh) as [[q [j Hv]] Hr]. split; auto. exists q, j. apply Hle. exact Hv.
  Qed.

  Definition qc_sound s (q : QC) := qc_verify c q = ROk tt -> qc_good s q.
  Definition tc_sound s (tc : TC) := tc_verify c tc = ROk tt -> tc_good s (Some tc).

  Lemma handle_vote_inv hint v s :
    Inv s -> sadm s (v_sig v) ->
    match handle_vote c me hint v s with
    | (s', _, res) => Inv s' /\ sle s s' /\ (forall k, res <> RPanic k)
    end.
  Proof.
    intros H Hadm. unfold handle_vote. unfold bind at 1. unfold get at 1. gunf.
    destruct (v_round v <? s_round s) eqn:Est.
    { unfold ret. split; [exact H|]. split; [apply sle_refl|]. intros k; discriminate. }
    unfold bind at 1. unfold lift at 1.
    destruct (vote_verify c v) as [[]|e|k] eqn:Ev.
    2:{ split; [exact H|]. split; [apply sle_refl|]. intros k; discriminate. }
    2:{ exfalso. eapply vote_verify_nopanic; eauto. }
    unfold vote_verify in Ev.
    gunf; destruct (0 <? Node.stake c (v_author v)) eqn:Es; [|discriminate]; apply N.ltb_lt in Es; apply N.neq_0_lt_0 in Es; cbn [negb] in *.
    destruct (sig_ok (v_author v) (CVote (v_hash v) (v_round v)) (v_sig v)) eqn:Esig; [|discriminate].
    apply sig_ok_inv in Esig. destruct Esig as [ct' [Esg Hct]].
    assert (Hv : honest (v_author v) = true ->
                 voted (cw s) (v_author v) (v_hash v) /\ dround (v_hash v) = v_round v).
    { rewrite Esg in Hadm. destruct ct' as [d|h r|r hq]; simpl in Hct; try discriminate.
      apply andb_true_iff in Hct. destruct Hct as [Hd Hr]. apply digest_eqb_eq in Hd. apply N.eqb_eq in Hr.
      subst h r. exact Hadm. }
    pose proof (qm_append_ok s (v_round v) (v_hash v) _ v (qcm_get_ok s (v_round v) (v_hash v) H)
                  eq_refl eq_refl Es Hv) as Q.
    destruct (qm_append c (qcm_get (v_round v, v_hash v) (s_qcm s)) v) as [m' r] eqn:Eqa.
    destruct Q as [Qok Qres].
    unfold bind at 1. unfold modify at 1.
    set (s1 := set_qcm s (qcm_put (v_round v, v_hash v) m' (s_qcm s))).
    assert (I1 : Inv s1) by (apply Inv_qcm_put; auto).
    assert (L1 : sle s s1) by (split; [exists []; reflexivity|simpl; lia]).
    unfold bind at 1. unfold lift at 1.
    destruct r as [[qc|]|e|k].
    - destruct Qres as [Qh [Qr Qc]].
      assert (Hg : qc_good s1 qc).
      { right. rewrite Qh, Qr. eapply Cert_mono; [|exact Qc]. exists []; reflexivity. }
      unfold bind at 1.
      pose proof (process_qc_inv qc s1 I1 Hg) as P. destruct (process_qc qc s1) as [[s2 o2] r2].
      destruct P as [I2 [L2 [-> _]]].
      unfold bind at 1. unfold get at 1.
      destruct (me =? leader c (s_round s2)).
      + pose proof (generate_proposal_inv hint None s2 I2 I) as G.
        destruct (generate_proposal me hint None s2) as [[s3 o3] r3]. destruct G as [I3 [L3 [-> _]]].
        split; [exact I3|]. split; [exact (sle_trans _ _ _ L1 (sle_trans _ _ _ L2 L3))|]. intros k; discriminate.
      + unfold ret. split; [exact I2|]. split; [exact (sle_trans _ _ _ L1 L2)|]. intros k; discriminate.
    - unfold ret. split; [exact I1|]. split; [exact L1|]. intros k; discriminate.
    - split; [exact I1|]. split; [exact L1|]. intros k; discriminate.
    - contradiction.
  Qed.

  Lemma qc_good_of_verify s q :
    qc_sound s q ->
    (if qc_eqb q qc_genesis then ROk tt else qc_verify c q) = ROk tt -> qc_good s q.
  Proof.
    intros Hs. destruct (qc_eqb q qc_genesis) eqn:E; intros Hv.
    - apply qc_eqb_genesis_good. exact E.
    - apply Hs. exact Hv.
  Qed.

  Lemma handle_timeout_inv hint t s :
    Inv s -> sadm s (t_sig t) -> qc_sound s (t_high_qc t) ->
    match handle_timeout c me hint t s with
    | (s', _, res) => Inv s' /\ sle s s' /\ (forall k, res <> RPanic k)
    end.
  Proof.
    intros H Hadm Hsound. unfold handle_timeout. unfold bind at 1. unfold get at 1. gunf.
    destruct (t_round t <? s_round s) eqn:Est.
    { unfold ret. split; [exact H|]. split; [apply sle_refl|]. intros k; discriminate. }
    unfold bind at 1. unfold lift at 1.
    destruct (timeout_verify c t) as [[]|e|k] eqn:Ev.
    2:{ split; [exact H|]. split; [apply sle_refl|]. intros k; discriminate. }
    2:{ exfalso. eapply timeout_verify_nopanic; eauto. }
    unfold timeout_verify in Ev.
    gunf; destruct (0 <? Node.stake c (t_author t)) eqn:Es; [|discriminate]; apply N.ltb_lt in Es; apply N.neq_0_lt_0 in Es; cbn [negb] in *.
    destruct (sig_ok (t_author t) (CTimeout (t_round t) (qc_round (t_high_qc t))) (t_sig t)) eqn:Esig; [|discriminate].
    simpl in Ev.
    assert (Hg : qc_good s (t_high_qc t)) by (apply qc_good_of_verify; auto).
    apply sig_ok_inv in Esig. destruct Esig as [ct' [Esg Hct]].
    assert (Hv : honest (t_author t) = true ->
                 In (HTimeout (t_round t) (qc_round (t_high_qc t))) (cw s (t_author t))).
    { rewrite Esg in Hadm. destruct ct' as [d|h r|r hq]; simpl in Hct; try discriminate.
      apply andb_true_iff in Hct. destruct Hct as [Hr Hq]. apply N.eqb_eq in Hr. apply N.eqb_eq in Hq.
      subst r hq. exact Hadm. }
    unfold bind at 1.
    pose proof (process_qc_inv (t_high_qc t) s H Hg) as P.
    destruct (process_qc (t_high_qc t) s) as [[s1 o1] r1]. destruct P as [I1 [L1 [-> _]]].
    unfold bind at 1. unfold get at 1.
    assert (Hv1 : honest (t_author t) = true ->
                  In (HTimeout (t_round t) (qc_round (t_high_qc t))) (cw s1 (t_author t))).
    { intros Hh. destruct L1 as [He _]. apply (cw_wle _ _ He). auto. }
    pose proof (tm_append_ok s1 (t_round t) _ t (tcm_get_ok s1 (t_round t) I1) eq_refl Es Hv1) as Q.
    destruct (tm_append c (tcm_get (t_round t) (s_tcm s1)) t) as [m' r] eqn:Eqa.
    destruct Q as [Qok Qres].
    unfold bind at 1. unfold modify at 1.
    set (s2 := set_tcm s1 (tcm_put (t_round t) m' (s_tcm s1))).
    assert (I2 : Inv s2) by (apply Inv_tcm_put; auto).
    assert (L2 : sle s1 s2) by (split; [exists []; reflexivity|simpl; lia]).
    unfold bind at 1. unfold lift at 1.
    destruct r as [[tc|]|e|k].
    - destruct Qres as [Qr Qg].
      assert (Hg2 : tc_good s2 (Some tc)) by (eapply tc_good_sle; eauto).
      unfold bind at 1.
      pose proof (advance_round_inv (tc_round tc) s2 I2) as A.
      destruct (advance_round (tc_round tc) s2) as [[s3 o3] r3]. destruct A as [I3 [L3 [-> _]]].
      unfold bind at 1. unfold emit at 1. unfold bind at 1. unfold get at 1.
      destruct (me =? leader c (s_round s3)).
      + assert (Hg3 : tc_good s3 (Some tc)) by (eapply tc_good_sle; eauto).
        pose proof (generate_proposal_inv hint (Some tc) s3 I3 Hg3) as G.
        destruct (generate_proposal me hint (Some tc) s3) as [[s4 o4] r4]. destruct G as [I4 [L4 [-> _]]].
        split; [exact I4|].
        split; [exact (sle_trans _ _ _ L1 (sle_trans _ _ _ L2 (sle_trans _ _ _ L3 L4)))|]. intros k; discriminate.
      + unfold ret. split; [exact I3|].
        split; [exact (sle_trans _ _ _ L1 (sle_trans _ _ _ L2 L3))|]. intros k; discriminate.
    - unfold ret. split; [exact I2|]. split; [exact (sle_trans _ _ _ L1 L2)|]. intros k; discriminate.
    - split; [exact I2|]. split; [exact (sle_trans _ _ _ L1 L2)|]. intros k; discriminate.
    - contradiction.
  Qed.

  Lemma local_timeout_inv hint s :
    Inv s ->
    match local_timeout c me hint s with
    | (s', _, res) => Inv s' /\ sle s s' /\ (forall k, res <> RPanic k)
    end.
  Proof.
    intros H. unfold local_timeout. unfold bind at 1. unfold get at 1.
    unfold bind at 1. unfold increase_last_voted at 1. unfold modify at 1.
    unfold bind at 1. unfold modify at 1. unfold bind at 1. unfold emit at 1. simpl.
    match goal with |- context [handle_timeout c me hint ?T ?S] => set (t := T); set (s2 := S) end.
    assert (Hp := i_pace s H).
    assert (I2 : Inv s2).
    { eapply (Inv_hist_update s s2 (HTimeout (s_round s) (qc_round (s_high_qc s)))); try reflexivity; eauto; simpl; try lia.
      - constructor.
        + eapply hist_ok_mono; [|apply (i_hist s H)]. apply cw_wle. eexists [_]. reflexivity.
        + intros d q j Hin. eapply (i_hist_hq s H); eauto.
      - intros d q j Heq. discriminate. }
    assert (L2 : sle s s2) by (split; [eexists [_]; reflexivity|simpl; lia]).
    assert (Hadm : sadm s2 (t_sig t)).
    { simpl. intros _. unfold cw, upd. rewrite N.eqb_refl. simpl. left. reflexivity. }
    assert (Hs : qc_sound s2 (t_high_qc t)).
    { intros _. simpl. eapply qc_good_sle; [apply (i_hq s H)|exact L2]. }
    pose proof (handle_timeout_inv hint t s2 I2 Hadm Hs) as T.
    destruct (handle_timeout c me hint t s2) as [[s3 o3] r3]. destruct T as [I3 [L3 N3]].
    split; [exact I3|]. split; [exact (sle_trans _ _ _ L2 L3)|exact N3].
  Qed.

  Lemma handle_tc_inv hint tc s :
    Inv s -> tc_sound s tc ->
    match handle_tc c me hint tc s with
    | (s', _, res) => Inv s' /\ sle s s' /\ (forall k, res <> RPanic k)
    end.
  Proof.
    intros H Hs. unfold handle_tc. unfold bind at 1. unfold lift at 1.
    destruct (tc_verify c tc) as [[]|e|k] eqn:Ev.
    2:{ split; [exact H|]. split; [apply sle_refl|]. intros k; discriminate. }
    2:{ exfalso. eapply tc_verify_nopanic; eauto. }
    assert (Hg : tc_good s (Some tc)) by (apply Hs; exact Ev).
    unfold bind at 1. unfold get at 1. gunf.
    destruct (tc_round tc <? s_round s).
    { unfold ret. split; [exact H|]. split; [apply sle_refl|]. intros k; discriminate. }
    unfold bind at 1.
    pose proof (advance_round_inv (tc_round tc) s H) as A.
    destruct (advance_round (tc_round tc) s) as [[s1 o1] r1]. destruct A as [I1 [L1 [-> _]]].
    unfold bind at 1. unfold get at 1.
    destruct (me =? leader c (s_round s1)).
    - assert (Hg1 : tc_good s1 (Some tc)) by (eapply tc_good_sle; eauto).
      pose proof (generate_proposal_inv hint (Some tc) s1 I1 Hg1) as G.
      destruct (generate_proposal me hint (Some tc) s1) as [[s2 o2] r2]. destruct G as [I2 [L2 [-> _]]].
      split; [exact I2|]. split; [exact (sle_trans _ _ _ L1 L2)|]. intros k; discriminate.
    - unfold ret. split; [exact I1|]. split; [exact L1|]. intros k; discriminate.
  Qed.

  (* ---------- commit ---------- *)
  Lemma Inv_log_add s d :
    Inv s -> committed stk mem honest (cw s) d -> Inv (set_log s (d :: s_log s)).
  Proof.
    intros H Hc. destruct H. constructor; simpl; auto.
    intros x [<-|Hx]; auto.
  Qed.

  Lemma deliver_all_inv l : forall s,
    Inv s -> (forall x, In x l -> committed stk mem honest (cw s) (block_digest x)) ->
    match deliver_all l s with
    | (s', _, res) => Inv s' /\ sle s s' /\ res = ROk tt /\ s_hist s' = s_hist s /\
                      s_high_qc s' = s_high_qc s /\ s_round s' = s_round s /\ s_last_voted s' = s_last_voted s
    end.
  Proof.
    induction l as [|b l IH]; intros s H Hc; simpl.
    - unfold ret. split; [exact H|]. split; [apply sle_refl|]. repeat split; reflexivity.
    - unfold bind at 1. unfold emit at 1. unfold bind at 1. unfold modify at 1.
      set (s1 := set_log s (block_digest b :: s_log s)).
      assert (I1 : Inv s1) by (apply Inv_log_add; auto; apply Hc; left; reflexivity).
      assert (Hc1 : forall x, In x l -> committed stk mem honest (cw s1) (block_digest x)).
      { intros x Hx. apply Hc. right. exact Hx. }
      specialize (IH s1 I1 Hc1). destruct (deliver_all l s1) as [[s2 o2] r2].
      destruct IH as [I2 [L2 [-> [E1 [E2 [E3 E4]]]]]]. simpl.
      split; [exact I2|]. split.
      { eapply sle_trans; [|exact L2]. split; [exists []; reflexivity|simpl; lia]. }
      repeat split; auto.
  Qed.

  Lemma vetted_genesis s : vetted s block_genesis.
  Proof. unfold vetted, block_genesis. simpl. split; [left; auto|]. split; [exact I|lia]. Qed.

  Lemma ext_digest_parent p b :
    block_digest p = qc_hash (b_qc b) -> ext (block_digest p) (block_digest b).
  Proof. intros E. unfold block_digest at 2. apply ext_step. rewrite <- E. apply ext_refl. Qed.

  Lemma commit_walk_inv lcr : forall fuel parent acc s,
    Inv s -> vetted s parent ->
    match commit_walk src_dq fuel lcr parent acc s with
    | (s', _, res) =>
        Inv s' /\ sle s s' /\ s_hist s' = s_hist s /\ s_high_qc s' = s_high_qc s /\
        s_round s' = s_round s /\ s_last_voted s' = s_last_voted s /\
        match res with
        | ROk acc' => forall x, In x acc' -> In x acc \/ ext (block_digest x) (block_digest parent)
        | _ => True
        end
    end.
  Proof.
    induction fuel as [|f IH]; intros parent acc s H Hv; simpl.
    - unfold panic. split; [exact H|]. split; [apply sle_refl|]. repeat split; auto.
    - gunfdq. destruct (lcr + 1 <? b_round parent).
      2:{ unfold ret. split; [exact H|]. split; [apply sle_refl|]. repeat split; auto. }
      unfold bind at 1.
      pose proof (get_parent_block_inv parent s H Hv) as G.
      destruct (get_parent_block parent s) as [[s1 o1] r1].
      destruct G as [I1 [L1 [E1 [E2 [E3 [E4 [E5 G]]]]]]].
      destruct r1 as [[anc|]|e|k]; try contradiction.
      + destruct G as [-> G].
        destruct G as [[_ ->]|Gin].
        * (* genesis has round 0 <= lcr: the walk stops *)
          assert (E0 : (b_round block_genesis <=? lcr) = true) by (apply N.leb_le; simpl; lia).
          rewrite E0. unfold ret. split; [exact H|]. split; [apply sle_refl|]. repeat split; auto.
        * destruct (b_round anc <=? lcr).
          { unfold ret. split; [exact H|]. split; [apply sle_refl|]. repeat split; auto. }
          assert (Ed : block_digest anc = qc_hash (b_qc parent)) by (apply (i_store s H); exact Gin).
          assert (Hva : vetted s anc).
          { apply (i_flight s H). right. right. right. apply in_map_iff. exists (qc_hash (b_qc parent), anc). auto. }
          specialize (IH anc (anc :: acc) s H Hva).
          destruct (commit_walk _ f lcr anc (anc :: acc) s) as [[s2 o2] r2].
          destruct IH as [I2 [L2 [F1 [F2 [F3 [F4 F5]]]]]].
          split; [exact I2|]. split; [exact L2|]. repeat split; auto.
          destruct r2; auto. intros x Hx. destruct (F5 x Hx) as [[<-|Hx']|Hx']; auto.
          -- right. apply ext_digest_parent. exact Ed.
          -- right. eapply ext_trans; [exact Hx'|]. apply ext_digest_parent. exact Ed.
      + unfold panic. split; [exact I1|]. split; [exact L1|]. repeat split; auto.
  Qed.

  Lemma Inv_last_committed s r : Inv s -> Inv (set_last_committed s r).
  Proof. intros H. destruct H. constructor; simpl; auto. Qed.

  Lemma commit_inv b0 s :
    Inv s -> vetted s b0 ->
    (s_last_committed s < b_round b0 -> dcommit stk mem honest (cw s) (block_digest b0)) ->
    match commit src_dq b0 s with
    | (s', _, res) => Inv s' /\ sle s s' /\ s_hist s' = s_hist s /\ s_high_qc s' = s_high_qc s /\
                      s_round s' = s_round s /\ s_last_voted s' = s_last_voted s
    end.
  Proof.
    intros H Hv Hd. unfold commit. unfold bind at 1. unfold get at 1. gunfdq.
    destruct (b_round b0 <=? s_last_committed s) eqn:El.
    { unfold ret. split; [exact H|]. split; [apply sle_refl|]. repeat split; reflexivity. }
    apply N.leb_gt in El. specialize (Hd El).
    unfold bind at 1.
    pose proof (commit_walk_inv (s_last_committed s) (S (S (ddepth (block_digest b0)))) b0 [] s H Hv) as W.
    destruct (commit_walk _ _ _ b0 [] s) as [[s1 o1] r1].
    destruct W as [I1 [L1 [E1 [E2 [E3 [E4 W]]]]]].
    destruct r1 as [anc|e|k].
    2:{ split; [exact I1|]. split; [exact L1|]. repeat split; auto. }
    2:{ split; [exact I1|]. split; [exact L1|]. repeat split; auto. }
    unfold bind at 1. unfold modify at 1.
    set (s2 := set_last_committed s1 (b_round b0)).
    assert (I2 : Inv s2) by (apply Inv_last_committed; exact I1).
    assert (Hc : forall x, In x (anc ++ [b0]) -> committed stk mem honest (cw s2) (block_digest x)).
    { intros x Hx. exists (block_digest b0). split.
      - assert (Hle : wle (cw s) (cw s2)).
        { apply cw_wle. destruct L1 as [He _]. destruct He as [pre Hp]. exists pre. exact Hp. }
        destruct Hd as [d1 [B1 [P1 [C0 C1]]]]. exists d1. repeat split; auto; eapply certified_mono; eauto.
      - apply in_app_or in Hx. destruct Hx as [Hx|[<-|[]]]; [|apply ext_refl].
        destruct (W x Hx) as [[]|Hx']. exact Hx'. }
    pose proof (deliver_all_inv (anc ++ [b0]) s2 I2 Hc) as D.
    destruct (deliver_all (anc ++ [b0]) s2) as [[s3 o3] r3].
    destruct D as [I3 [L3 [-> [F1 [F2 [F3 F4]]]]]].
    split; [exact I3|]. split.
    { eapply sle_trans; [exact L1|]. eapply sle_trans; [|exact L3]. split; [exists []; reflexivity|simpl; lia]. }
    simpl in *. repeat split; congruence.
  Qed.

  Lemma pw_cleanup_inv r s :
    Inv s ->
    match pw_cleanup r s with
    | (s', _, res) => Inv s' /\ sle s s' /\ res = ROk tt /\ s_hist s' = s_hist s /\
                      s_high_qc s' = s_high_qc s /\ s_round s' = s_round s /\ s_last_voted s' = s_last_voted s /\
                      s_store s' = s_store s /\ s_last_committed s' = s_last_committed s
    end.
  Proof.
    intros H. unfold pw_cleanup. munfold. simpl.
    split; [|split; [split; [exists []; reflexivity|simpl; lia]|repeat split; reflexivity]].
    eapply (Inv_frame s); eauto; try reflexivity; simpl.
    all: try (intros d b Hin; apply (i_store s H); exact Hin).
    intros b Hb. left. unfold in_flight in *. simpl in *.
    destruct Hb as [Hb|[Hb|[Hb|Hb]]]; auto.
    right. right. left. apply in_map_iff in Hb. destruct Hb as [e [<- Hin]].
    apply filter_In in Hin. destruct Hin as [Hin _]. apply in_map. exact Hin.
  Qed.

  (* ---------- process_block ---------- *)
  Definition parent_of s (b p : Block) :=
    (qc_eqb (b_qc b) qc_genesis = true /\ p = block_genesis) \/ In (qc_hash (b_qc b), p) (s_store s).

  Lemma cert_round s h r : Cert s h r -> dround h = r.
  Proof. intros Hc. destruct (certified_honest_voter _ _ _ byz_bound _ _ _ Hc) as [a [_ [_ E]]]. exact E. Qed.

  Lemma dcommit_of_chain s b b1 b0 :
    Inv s -> vetted s b -> parent_of s b b1 -> parent_of s b1 b0 ->
    b_round b0 + 1 = b_round b1 -> 0 < b_round b0 ->
    dcommit stk mem honest (cw s) (block_digest b0).
  Proof.
    intros H Hv G1 G0 Hr Hpos.
    destruct G0 as [[_ ->]|G0]; [simpl in Hpos; lia|].
    assert (E0 : block_digest b0 = qc_hash (b_qc b1)) by (apply (i_store s H); exact G0).
    destruct G1 as [[_ ->]|G1]; [simpl in E0; discriminate|].
    assert (E1 : block_digest b1 = qc_hash (b_qc b)) by (apply (i_store s H); exact G1).
    destruct Hv as [[[Hz _]|Cb] _]; [rewrite Hz in E1; discriminate|].
    assert (Hv1 : vetted s b1).
    { apply (i_flight s H). right. right. right. apply in_map_iff. exists (qc_hash (b_qc b), b1). auto. }
    destruct Hv1 as [[[Hz _]|Cb1] _]; [rewrite Hz in E0; discriminate|].
    rewrite <- E1 in Cb. rewrite <- E0 in Cb1.
    assert (R1 := cert_round _ _ _ Cb). assert (R0 := cert_round _ _ _ Cb1). simpl in R1, R0.
    exists (block_digest b1). split; [exact I|]. split; [simpl; congruence|].
    split.
    - simpl. rewrite R0. exact Cb1.
    - simpl. rewrite Hr, R1. exact Cb.
  Qed.

  Lemma parent_of_sle_store s s' b p : parent_of s b p -> s_store s' = s_store s -> parent_of s' b p.
  Proof. intros [G|G] E; [left; exact G|right; rewrite E; exact G]. Qed.

  Lemma process_block_inv hint b s :
    Inv s -> vetted s b ->
    match process_block c me src_dq hint b s with
    | (s', _, res) => Inv s' /\ sle s s'
    end.
  Proof.
    intros H Hv. unfold process_block. gunf. unfold bind at 1.
    pose proof (get_parent_block_inv b s H Hv) as G.
    destruct (get_parent_block b s) as [[s1 o1] r1].
    destruct G as [I1 [L1 [E1 [E2 [E3 [E4 [E5 G]]]]]]].
    destruct r1 as [[b1|]|e|k]; try contradiction.
    2:{ unfold ret. split; [exact I1|exact L1]. }
    destruct G as [-> G1]. clear I1 L1 E1 E2 E3 E4 E5.
    assert (Hv1 : vetted s b1).
    { destruct G1 as [[_ ->]|G1]; [apply vetted_genesis|].
      apply (i_flight s H). right. right. right. apply in_map_iff. exists (qc_hash (b_qc b), b1). auto. }
    unfold bind at 1.
    pose proof (get_parent_block_inv b1 s H Hv1) as G.
    destruct (get_parent_block b1 s) as [[s2 o2] r2].
    destruct G as [I2 [L2 [E1 [E2 [E3 [E4 [E5 G]]]]]]].
    destruct r2 as [[b0|]|e|k]; try contradiction.
    2:{ unfold panic. split; [exact I2|exact L2]. }
    destruct G as [-> G0]. clear I2 L2 E1 E2 E3 E4 E5.
    assert (Hv0 : vetted s b0).
    { destruct G0 as [[_ ->]|G0]; [apply vetted_genesis|].
      apply (i_flight s H). right. right. right. apply in_map_iff. exists (qc_hash (b_qc b1), b0). auto. }
    (* store_block *)
    unfold bind at 1.
    pose proof (store_block_inv b s H Hv) as S.
    destruct (store_block b s) as [[s3 o3] r3]. destruct S as [I3 [L3 [-> [F1 [F2 [F3 [F4 F5]]]]]]].
    (* proposer_cleanup *)
    unfold bind at 1.
    pose proof (proposer_cleanup_inv (b_payload b0 ++ b_payload b1 ++ b_payload b) s3 I3) as P.
    destruct (proposer_cleanup _ s3) as [[s4 o4] r4]. destruct P as [I4 [L4 [-> [P1 [P2 [P3 [P4 P5]]]]]]].
    assert (L04 : sle s s4) by (exact (sle_trans _ _ _ L3 L4)).
    assert (St4 : s_store s4 = (block_digest b, b) :: s_store s) by congruence.
    assert (G1' : parent_of s4 b b1).
    { destruct G1 as [G1|G1]; [left; exact G1|right; rewrite St4; right; exact G1]. }
    assert (G0' : parent_of s4 b1 b0).
    { destruct G0 as [G0|G0]; [left; exact G0|right; rewrite St4; right; exact G0]. }
    (* the commit part *)
    match goal with |- context [bind ?M _ s4] => set (cm := M) end.
    assert (C : match cm s4 with
                | (s', _, res) => Inv s' /\ sle s4 s' /\ s_round s' = s_round s4 /\ s_high_qc s' = s_high_qc s4
                end).
    { subst cm. destruct (b_round b0 + 1 =? b_round b1) eqn:E2c.
      2:{ unfold ret. split; [exact I4|]. split; [apply sle_refl|]. auto. }
      apply N.eqb_eq in E2c.
      unfold bind at 1. unfold emit at 1. unfold bind at 1.
      pose proof (pw_cleanup_inv (b_round b0) s4 I4) as W.
      destruct (pw_cleanup (b_round b0) s4) as [[s5 o5] r5].
      destruct W as [I5 [L5 [-> [W1 [W2 [W3 [W4 [W5 W6]]]]]]]].
      assert (Hv05 : vetted s5 b0) by (eapply vetted_sle; [exact Hv0|exact (sle_trans _ _ _ L04 L5)]).
      assert (Hd : s_last_committed s5 < b_round b0 -> dcommit stk mem honest (cw s5) (block_digest b0)).
      { intros Hlt. eapply (dcommit_of_chain s5 b b1 b0); eauto.
        - eapply vetted_sle; [exact Hv|exact (sle_trans _ _ _ L04 L5)].
        - eapply parent_of_sle_store; eauto.
        - eapply parent_of_sle_store; eauto.
        - lia. }
      pose proof (commit_inv b0 s5 I5 Hv05 Hd) as K.
      destruct (commit src_dq b0 s5) as [[s6 o6] r6]. destruct K as [I6 [L6 [K1 [K2 [K3 K4]]]]].
      split; [exact I6|]. split; [exact (sle_trans _ _ _ L5 L6)|]. split; congruence. }
    unfold bind at 1.
    destruct (cm s4) as [[s7 o7] r7].
    destruct C as [I7 [L7 [C1 C2]]].
    destruct r7 as [[]|e|k].
    2:{ split; [exact I7|exact (sle_trans _ _ _ L04 L7)]. }
    2:{ split; [exact I7|exact (sle_trans _ _ _ L04 L7)]. }
    assert (L07 : sle s s7) by (exact (sle_trans _ _ _ L04 L7)).
    unfold bind at 1. unfold get at 1.
    destruct (b_round b =? s_round s7) eqn:Eg; simpl.
    2:{ unfold ret. split; [exact I7|exact L07]. }
    apply N.eqb_eq in Eg.
    assert (Hv7 : vetted s7 b) by (eapply vetted_sle; eauto).
    unfold bind at 1.
    pose proof (make_vote_inv b s7 I7 Hv7 Eg) as V.
    destruct (make_vote me b s7) as [[s8 o8] r8]. destruct V as [I8 [L8 [V1 [V2 V3]]]].
    assert (L08 : sle s s8) by (exact (sle_trans _ _ _ L07 L8)).
    destruct r8 as [[v|]|e|k]; try contradiction.
    - destruct V3 as [-> Hvoted].
      destruct (leader c (s_round s7 + 1) =? me).
      + assert (Hadm : sadm s8 (v_sig (mkVote (block_digest b) (b_round b) me (SigOf me (CVote (block_digest b) (b_round b)))))).
        { simpl. intros _. split; [exact Hvoted|reflexivity]. }
        pose proof (handle_vote_inv hint _ s8 I8 Hadm) as HV.
        destruct (handle_vote c me hint _ s8) as [[s9 o9] r9]. destruct HV as [I9 [L9 _]].
        split; [exact I9|exact (sle_trans _ _ _ L08 L9)].
      + unfold emit. split; [exact I8|exact L08].
    - unfold ret. split; [exact I8|exact L08].
    - split; [exact I8|exact L08].
  Qed.

  (* ---------- mempool driver, proposals, batches, the step function ---------- *)
  Lemma mempool_verify_inv b s :
    Inv s -> vetted s b ->
    match mempool_verify b s with
    | (s', _, res) => Inv s' /\ sle s s' /\ (exists ok, res = ROk ok) /\ s_hist s' = s_hist s /\
                      s_high_qc s' = s_high_qc s /\ s_round s' = s_round s
    end.
  Proof.
    intros H Hv. unfold mempool_verify. munfold. simpl.
    destruct (filter _ (b_payload b)) as [|x xs]; simpl.
    { split; [exact H|]. split; [apply sle_refl|]. split; [eexists; reflexivity|]. auto. }
    destruct (existsb _ (s_pw_pending s)); simpl.
    { split; [exact H|]. split; [apply sle_refl|]. split; [eexists; reflexivity|]. auto. }
    split; [|split; [split; [exists []; reflexivity|simpl; lia]|split; [eexists; reflexivity|auto]]].
    eapply (Inv_frame s); eauto; try reflexivity; simpl.
    all: try (intros d y Hin; apply (i_store s H); exact Hin).
    intros y Hy. unfold in_flight in *. simpl in *.
    destruct Hy as [Hy|[Hy|[Hy|Hy]]]; auto.
    rewrite map_app in Hy. apply in_app_or in Hy. destruct Hy as [Hy|[<-|[]]]; auto.
  Qed.

  Lemma batch_stored_inv d s :
    Inv s ->
    match batch_stored d s with
    | (s', _, res) => Inv s' /\ sle s s'
    end.
  Proof.
    intros H. unfold batch_stored. munfold. simpl.
    split; [|split; [exists []; reflexivity|simpl; lia]].
    eapply (Inv_frame s); eauto; try reflexivity; simpl.
    all: try (intros k y Hin; apply (i_store s H); exact Hin).
    intros y Hy. left. unfold in_flight in *. simpl in *.
    assert (Hsub : forall l, In y (map snd (filter l (map (fun e : list N * Block => (filter (fun x => negb (x =? d)) (fst e), snd e)) (s_pw_pending s)))) -> In y (map snd (s_pw_pending s))).
    { intros l Hin. apply in_map_iff in Hin. destruct Hin as [e [<- Hin]].
      apply filter_In in Hin. destruct Hin as [Hin _]. apply in_map_iff in Hin.
      destruct Hin as [e' [<- Hin]]. simpl. apply in_map. exact Hin. }
    destruct Hy as [Hy|[Hy|[Hy|Hy]]]; auto.
    - apply in_app_or in Hy. destruct Hy as [Hy|Hy]; auto. right. right. left. eapply Hsub; eauto.
    - right. right. left. eapply Hsub; eauto.
  Qed.

  Definition block_sound s (b : Block) :=
    qc_sound s (b_qc b) /\ (forall tc, b_tc b = Some tc -> tc_sound s tc).

  Lemma handle_proposal_inv hint b s :
    Inv s -> block_sound s b ->
    match handle_proposal c me src_dq hint b s with
    | (s', _, res) => Inv s' /\ sle s s'
    end.
  Proof.
    intros H [Hq Ht]. unfold handle_proposal. unfold bind at 1.
    destruct (b_author b =? leader c (b_round b)).
    2:{ unfold fail. split; [exact H|apply sle_refl]. }
    unfold ret at 1. unfold bind at 1. unfold lift at 1.
    destruct (block_verify c b) as [[]|e|k] eqn:Ev.
    2:{ split; [exact H|apply sle_refl]. }
    2:{ split; [exact H|apply sle_refl]. }
    unfold block_verify in Ev.
    gunf; destruct (0 <? Node.stake c (b_author b)); [|discriminate]; cbn [negb] in *.
    destruct (negb _); [discriminate|].
    destruct (if qc_eqb (b_qc b) qc_genesis then ROk tt else qc_verify c (b_qc b)) as [[]|e|k] eqn:Eqv; try discriminate.
    assert (Gq : qc_good s (b_qc b)) by (apply qc_good_of_verify; auto).
    assert (Gt : tc_good s (b_tc b)).
    { destruct (b_tc b) as [tc|] eqn:Etc; [|exact I]. apply (Ht tc eq_refl). exact Ev. }
    unfold bind at 1.
    pose proof (process_qc_inv (b_qc b) s H Gq) as P.
    destruct (process_qc (b_qc b) s) as [[s1 o1] r1]. destruct P as [I1 [L1 [-> [P1 _]]]].
    unfold bind at 1.
    assert (A : match (match b_tc b with Some tc => advance_round (tc_round tc) | None => ret tt end) s1 with
                | (s', _, res) => Inv s' /\ sle s1 s' /\ res = ROk tt /\ s_high_qc s' = s_high_qc s1
                end).
    { destruct (b_tc b) as [tc|].
      - pose proof (advance_round_inv (tc_round tc) s1 I1) as A.
        destruct (advance_round (tc_round tc) s1) as [[s2 o2] r2]. destruct A as [I2 [L2 [-> [_ [E _]]]]]. auto.
      - unfold ret. split; [exact I1|]. split; [apply sle_refl|]. auto. }
    destruct ((match b_tc b with Some tc => advance_round (tc_round tc) | None => ret tt end) s1) as [[s2 o2] r2].
    destruct A as [I2 [L2 [-> E2]]].
    assert (L02 : sle s s2) by (exact (sle_trans _ _ _ L1 L2)).
    assert (Hv2 : vetted s2 b).
    { split; [eapply qc_good_sle; eauto|]. split; [eapply tc_good_sle; eauto|]. rewrite E2. exact P1. }
    unfold bind at 1.
    pose proof (mempool_verify_inv b s2 I2 Hv2) as M.
    destruct (mempool_verify b s2) as [[s3 o3] r3]. destruct M as [I3 [L3 [[ok ->] _]]].
    assert (L03 : sle s s3) by (exact (sle_trans _ _ _ L02 L3)).
    destruct ok.
    - assert (Hv3 : vetted s3 b) by (eapply vetted_sle; eauto).
      pose proof (process_block_inv hint b s3 I3 Hv3) as B.
      destruct (process_block c me src_dq hint b s3) as [[s4 o4] r4]. destruct B as [I4 L4].
      split; [exact I4|exact (sle_trans _ _ _ L03 L4)].
    - unfold ret. split; [exact I3|exact L03].
  Qed.

  Lemma remove_first_in b l x r : remove_first b l = Some (x, r) -> In x l /\ (forall y, In y r -> In y l).
  Proof.
    revert x r. induction l as [|z zs IH]; simpl; intros x r Hr; [discriminate|].
    destruct (block_eqb b z).
    - inversion Hr; subst. split; [left; reflexivity|intros y Hy; right; exact Hy].
    - destruct (remove_first b zs) as [[y r']|] eqn:E; [|discriminate].
      inversion Hr; subst. destruct (IH _ _ eq_refl) as [A B]. split; [right; exact A|].
      intros y' [<-|Hy]; [left; reflexivity|right; apply B; exact Hy].
  Qed.

  Definition ev_adm s (e : Event) : Prop :=
    match e with
    | EvPropose b => block_sound s b
    | EvVote v => sadm s (v_sig v)
    | EvTimeout t => sadm s (t_sig t) /\ qc_sound s (t_high_qc t)
    | EvTC tc => tc_sound s tc
    | _ => True
    end.

  Theorem step_inv hint e s :
    Inv s -> ev_adm s e ->
    match step c me src_dq hint e s with
    | (s', _, res) => Inv s' /\ sle s s'
    end.
  Proof.
    intros H Ha. destruct e as [b|v|t|tc|b| |d|d| ]; simpl in *.
    - apply handle_proposal_inv; auto.
    - pose proof (handle_vote_inv hint v s H Ha) as X.
      destruct (handle_vote c me hint v s) as [[s1 o1] r1]. destruct X as [A [B _]]. auto.
    - destruct Ha as [Ha1 Ha2]. pose proof (handle_timeout_inv hint t s H Ha1 Ha2) as X.
      destruct (handle_timeout c me hint t s) as [[s1 o1] r1]. destruct X as [A [B _]]. auto.
    - pose proof (handle_tc_inv hint tc s H Ha) as X.
      destruct (handle_tc c me hint tc s) as [[s1 o1] r1]. destruct X as [A [B _]]. auto.
    - unfold bind at 1. unfold get at 1.
      destruct (remove_first b (s_loopback s)) as [[x l]|] eqn:Er.
      2:{ unfold emit. split; [exact H|apply sle_refl]. }
      destruct (remove_first_in _ _ _ _ Er) as [Hx Hl].
      unfold bind at 1. unfold modify at 1.
      set (s1 := set_loopback s l).
      assert (Hvx : vetted s x) by (apply (i_flight s H); left; exact Hx).
      assert (I1 : Inv s1).
      { eapply (Inv_frame s); eauto; try reflexivity; simpl.
        - intros y Hy. left. unfold in_flight in *. simpl in *. destruct Hy as [Hy|Hy]; auto.
        - apply (i_store s H). }
      assert (L1 : sle s s1) by (split; [exists []; reflexivity|simpl; lia]).
      pose proof (process_block_inv hint x s1 I1 (vetted_sle _ _ _ Hvx L1)) as B.
      destruct (process_block c me src_dq hint x s1) as [[s2 o2] r2]. destruct B as [I2 L2].
      split; [exact I2|exact (sle_trans _ _ _ L1 L2)].
    - pose proof (local_timeout_inv hint s H) as X.
      destruct (local_timeout c me hint s) as [[s1 o1] r1]. destruct X as [A [B _]]. auto.
    - apply batch_stored_inv. exact H.
    - unfold modify. destruct (memN d (s_buffer s)).
      + split; [exact H|apply sle_refl].
      + split; [|split; [exists []; reflexivity|simpl; lia]].
        eapply (Inv_frame s); eauto; try reflexivity; simpl.
        all: try (intros k y Hin; apply (i_store s H); exact Hin).
        all: try (intros y Hy; left; exact Hy).
    - unfold bind at 1. unfold get at 1. destruct (me =? leader c (s_round s)).
      + pose proof (generate_proposal_inv hint None s H I) as G.
        destruct (generate_proposal me hint None s) as [[s1 o1] r1]. destruct G as [A [B _]]. auto.
      + unfold ret. split; [exact H|apply sle_refl].
  Qed.
End NodeInv.
